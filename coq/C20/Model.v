(** C20 — HTTP/1.1 server responses (src/twisted/web/http.py Request.write/finish/setResponseCode/addCookie,
    HTTPChannel.writeHeaders/checkPersistence/requestDone; src/twisted/web/http_headers.py Headers,
    _NameEncoder, _sanitizeLinearWhitespace).

    Part 1 (Spec): a small independent HTTP/1.1 *response* parser written from RFC 9112 sections 2.2, 4, 5, 6.3,
    7.1 (strict: lines end in CRLF, a bare CR or LF is an error; status-line = HTTP/1.DIGIT SP 3DIGIT SP reason;
    field-line = token ":" OWS value OWS; body by HEAD/1xx/204/304 -> none, Transfer-Encoding: chunked,
    Content-Length, else until close).
    Part 2 (Model): the response side of Request / HTTPChannel as a step function over API calls.
    The model has the REPAIRED behaviour for finding F6 (reason phrase passed through
    _sanitizeLinearWhitespace in writeHeaders, fixes/C20-sanitise-reason-phrase.patch).
    No proofs here. *)
From Coq Require Import List NArith Bool.
From TwLib Require Import HttpRespBytes.
Import ListNotations.
Local Open Scope N_scope.

(** ========================================================================================== *)
(** Part 1: the independent response parser (Spec) *)

Inductive framing := FNone | FLength (n : N) | FChunked | FClose.

Record response := mkResp {
  r_minor : N;                          (* HTTP/1.<minor> *)
  r_status : N;
  r_reason : bytes;
  r_headers : list (bytes * bytes);     (* field lines in order: (name as sent, value without surrounding OWS) *)
  r_framing : framing;
  r_body : bytes;
  r_trailers : list (bytes * bytes) }.

Definition http1_prefix : bytes := [72; 84; 84; 80; 47; 49; 46].   (* "HTTP/1." *)

(** status-line = "HTTP/1." DIGIT SP 3DIGIT SP reason-phrase *)
Definition parse_status_line (l : bytes) : option (N * N * bytes) :=
  match strip_prefix http1_prefix l with
  | Some (m :: sp :: r) =>
      match skipn 3 r with
      | sp2 :: reason =>
          if is_digit m && (sp =? 32) && (sp2 =? 32) && Nat.eqb (length (firstn 3 r)) 3
          then match of_dec (firstn 3 r) with
               | Some c => Some (m - 48, c, reason)
               | None => None
               end
          else None
      | [] => None
      end
  | _ => None
  end.

Definition not_colon (c : N) : bool := negb (c =? 58).

(** field-line = field-name ":" OWS field-value OWS ; field-name = token *)
Definition parse_field_line (l : bytes) : option (bytes * bytes) :=
  match drop_while not_colon l with
  | _ :: v => if is_token (take_while not_colon l) then Some (take_while not_colon l, trim_ows v) else None
  | [] => None
  end.

(** *( field-line CRLF ) CRLF *)
Fixpoint parse_fields (fuel : nat) (l : bytes) : option (list (bytes * bytes) * bytes) :=
  match fuel with
  | O => None
  | S f =>
      match take_line l with
      | None => None
      | Some ([], r) => Some ([], r)
      | Some (ln, r) =>
          match parse_field_line ln with
          | None => None
          | Some h =>
              match parse_fields f r with
              | Some (hs, r') => Some (h :: hs, r')
              | None => None
              end
          end
      end
  end.

Definition te_lname : bytes := [116; 114; 97; 110; 115; 102; 101; 114; 45; 101; 110; 99; 111; 100; 105; 110; 103].
Definition cl_lname : bytes := [99; 111; 110; 116; 101; 110; 116; 45; 108; 101; 110; 103; 116; 104].
Definition chunked_word : bytes := [99; 104; 117; 110; 107; 101; 100].

(** values of the field lines whose name is (case-insensitively) [lname] *)
Definition field_values (lname : bytes) (hs : list (bytes * bytes)) : list bytes :=
  flat_map (fun h => if beq (map lower (fst h)) lname then [snd h] else []) hs.

Definition no_body_status (c : N) : bool := ((100 <=? c) && (c <=? 199)) || (c =? 204) || (c =? 304).

Definition same_dec (n : N) (v : bytes) : bool :=
  match of_dec v with Some m => m =? n | None => false end.

(** RFC 9112 section 6.3 (responses).  Anything this parser does not implement (other transfer codings,
    both Transfer-Encoding and Content-Length, differing or non-numeric Content-Length) is an error. *)
Definition decide_framing (is_head : bool) (status : N) (hs : list (bytes * bytes)) : option framing :=
  if is_head || no_body_status status then Some FNone
  else match field_values te_lname hs, field_values cl_lname hs with
       | [], [] => Some FClose
       | [], v :: vs =>
           match of_dec v with
           | Some n => if forallb (same_dec n) vs then Some (FLength n) else None
           | None => None
           end
       | [te], [] => if beq (map lower te) chunked_word then Some FChunked else None
       | _, _ => None
       end.

Definition not_semi (c : N) : bool := negb (c =? 59).

(** chunked-body up to and including the last-chunk line; chunk extensions are skipped *)
Fixpoint parse_chunks (fuel : nat) (l : bytes) : option (bytes * bytes) :=
  match fuel with
  | O => None
  | S f =>
      match take_line l with
      | None => None
      | Some (szline, r) =>
          match of_hex (take_while not_semi szline) with
          | None => None
          | Some n =>
              if n =? 0 then Some ([], r)
              else match take_N n r with
                   | None => None
                   | Some (d, r2) =>
                       match strip_prefix CRLF r2 with
                       | None => None
                       | Some r3 =>
                           match parse_chunks f r3 with
                           | Some (b, r4) => Some (d ++ b, r4)
                           | None => None
                           end
                       end
                   end
          end
      end
  end.

(** one response from the front of [input]; returns it and the unconsumed rest.  A close-delimited body
    takes everything (and is only meaningful if the sender then closes the connection). *)
Definition parse_response (is_head : bool) (input : bytes) : option (response * bytes) :=
  let fuel := S (length input) in
  match take_line input with
  | None => None
  | Some (sl, r1) =>
      match parse_status_line sl with
      | None => None
      | Some (minor, status, reason) =>
          match parse_fields fuel r1 with
          | None => None
          | Some (hs, r2) =>
              match decide_framing is_head status hs with
              | None => None
              | Some FNone => Some (mkResp minor status reason hs FNone [] [], r2)
              | Some (FLength n) =>
                  match take_N n r2 with
                  | Some (b, r3) => Some (mkResp minor status reason hs (FLength n) b [], r3)
                  | None => None
                  end
              | Some FChunked =>
                  match parse_chunks fuel r2 with
                  | Some (b, r3) =>
                      match parse_fields fuel r3 with
                      | Some (tr, r4) => Some (mkResp minor status reason hs FChunked b tr, r4)
                      | None => None
                      end
                  | None => None
                  end
              | Some FClose => Some (mkResp minor status reason hs FClose r2 [], [])
              end
          end
      end
  end.

(** a whole connection: one response per request (the flag says whether the request was HEAD), nothing left *)
Fixpoint parse_stream (heads : list bool) (input : bytes) : option (list response) :=
  match heads with
  | [] => match input with [] => Some [] | _ => None end
  | h :: hs =>
      match parse_response h input with
      | Some (r, rest) =>
          match parse_stream hs rest with
          | Some rs => Some (r :: rs)
          | None => None
          end
      | None => None
      end
  end.

(** ========================================================================================== *)
(** Part 2: the model of the code *)

(** str arguments are lists of code points, bytes arguments lists of bytes *)
Inductive text := TB (b : bytes) | TS (cps : list N).

Inductive err := EInvalidName | EUnicode | ESameSite.
Inductive res (A : Type) := Good (a : A) | Bad (e : err).
Arguments Good {A} a.
Arguments Bad {A} e.

(** str.encode("utf8") (surrogates are refused) and str.encode("iso-8859-1") *)
Definition utf8_cp (c : N) : option bytes :=
  if c <? 128 then Some [c]
  else if c <? 2048 then Some [192 + c / 64; 128 + c mod 64]
  else if c <? 65536 then
    (if (55296 <=? c) && (c <=? 57343) then None
     else Some [224 + c / 4096; 128 + (c / 64) mod 64; 128 + c mod 64])
  else if c <? 1114112 then Some [240 + c / 262144; 128 + (c / 4096) mod 64; 128 + (c / 64) mod 64; 128 + c mod 64]
  else None.

Fixpoint utf8 (l : list N) : option bytes :=
  match l with
  | [] => Some []
  | c :: r => match utf8_cp c, utf8 r with
              | Some a, Some b => Some (a ++ b)
              | _, _ => None
              end
  end.

Definition enc_value (t : text) : res bytes :=
  match t with
  | TB b => Good b
  | TS s => match utf8 s with Some b => Good b | None => Bad EUnicode end
  end.

(** http_headers._sanitizeLinearWhitespace: b" ".join(v.splitlines()) — every line break (CRLF, CR, LF)
    becomes one space, except that a break at the very end disappears *)
Fixpoint san (v : bytes) : bytes :=
  match v with
  | [] => []
  | c :: r =>
      if c =? 13 then
        match r with
        | d :: r' => if d =? 10 then match r' with [] => [] | _ => 32 :: san r' end
                     else 32 :: san r
        | [] => []
        end
      else if c =? 10 then match r with [] => [] | _ => 32 :: san r end
      else c :: san r
  end.

(** Request.addCookie._sanitize *)
Definition csan (v : bytes) : bytes := map (fun c => if c =? 59 then 32 else c) (san v).

(** _NameEncoder.encode: latin-1, token check, Http-Header-Case, special capitalisations *)
Fixpoint cap_go (start : bool) (l : bytes) : bytes :=
  match l with
  | [] => []
  | c :: r => (if start then upper c else lower c) :: cap_go (c =? 45) r
  end.

Definition special_names : list (bytes * bytes) :=
  [ ([67; 111; 110; 116; 101; 110; 116; 45; 77; 100; 53], [67; 111; 110; 116; 101; 110; 116; 45; 77; 68; 53]);   (* Content-MD5 *)
    ([68; 110; 116], [68; 78; 84]);                                                                               (* DNT *)
    ([69; 116; 97; 103], [69; 84; 97; 103]);                                                                      (* ETag *)
    ([80; 51; 112], [80; 51; 80]);                                                                                (* P3P *)
    ([84; 101], [84; 69]);                                                                                        (* TE *)
    ([87; 119; 119; 45; 65; 117; 116; 104; 101; 110; 116; 105; 99; 97; 116; 101],
     [87; 87; 87; 45; 65; 117; 116; 104; 101; 110; 116; 105; 99; 97; 116; 101]);                                  (* WWW-Authenticate *)
    ([88; 45; 88; 115; 115; 45; 80; 114; 111; 116; 101; 99; 116; 105; 111; 110],
     [88; 45; 88; 83; 83; 45; 80; 114; 111; 116; 101; 99; 116; 105; 111; 110]) ].                                 (* X-XSS-Protection *)

Fixpoint assoc_default (k : bytes) (t : list (bytes * bytes)) : bytes :=
  match t with
  | [] => k
  | (a, b) :: r => if beq k a then b else assoc_default k r
  end.

Definition canon (n : bytes) : bytes := assoc_default (cap_go true n) special_names.

Definition enc_name (t : text) : res bytes :=
  match t with
  | TB b => if is_token b then Good (canon b) else Bad EInvalidName
  | TS s => if forallb (fun c => c <? 256) s
            then (if is_token s then Good (canon s) else Bad EInvalidName)
            else Bad EUnicode
  end.

(** Headers._rawHeaders: insertion-ordered dict name -> list of values *)
Definition table := list (bytes * list bytes).

Fixpoint tbl_set (k : bytes) (vs : list bytes) (t : table) : table :=
  match t with
  | [] => [(k, vs)]
  | (k', vs') :: r => if beq k k' then (k', vs) :: r else (k', vs') :: tbl_set k vs r
  end.

Fixpoint tbl_add (k : bytes) (v : list bytes) (t : table) : table :=   (* setdefault(k, []).extend(v) *)
  match t with
  | [] => [(k, v)]
  | (k', vs') :: r => if beq k k' then (k', vs' ++ v) :: r else (k', vs') :: tbl_add k v r
  end.

Definition tbl_get (k : bytes) (t : table) : list bytes :=
  flat_map (fun e => if beq k (fst e) then snd e else []) t.

Definition tbl_remove (k : bytes) (t : table) : table := filter (fun e => negb (beq k (fst e))) t.

Fixpoint enc_values (l : list text) : res (list bytes) :=
  match l with
  | [] => Good []
  | t :: r => match enc_value t with
              | Bad e => Bad e
              | Good b => match enc_values r with Bad e => Bad e | Good bs => Good (san b :: bs) end
              end
  end.

Definition TE_NAME : bytes := [84; 114; 97; 110; 115; 102; 101; 114; 45; 69; 110; 99; 111; 100; 105; 110; 103].
Definition CL_NAME : bytes := [67; 111; 110; 116; 101; 110; 116; 45; 76; 101; 110; 103; 116; 104].
Definition SC_NAME : bytes := [83; 101; 116; 45; 67; 111; 111; 107; 105; 101].
Definition CONN_NAME : bytes := [67; 111; 110; 110; 101; 99; 116; 105; 111; 110].
Definition close_word : bytes := [99; 108; 111; 115; 101].

(** cookie attributes *)
Definition A_EXPIRES : bytes := [59; 32; 69; 120; 112; 105; 114; 101; 115; 61].
Definition A_DOMAIN : bytes := [59; 32; 68; 111; 109; 97; 105; 110; 61].
Definition A_PATH : bytes := [59; 32; 80; 97; 116; 104; 61].
Definition A_MAXAGE : bytes := [59; 32; 77; 97; 120; 45; 65; 103; 101; 61].
Definition A_COMMENT : bytes := [59; 32; 67; 111; 109; 109; 101; 110; 116; 61].
Definition A_SECURE : bytes := [59; 32; 83; 101; 99; 117; 114; 101].
Definition A_HTTPONLY : bytes := [59; 32; 72; 116; 116; 112; 79; 110; 108; 121].
Definition A_SAMESITE : bytes := [59; 32; 83; 97; 109; 101; 83; 105; 116; 101; 61].
Definition w_lax : bytes := [108; 97; 120].
Definition w_strict : bytes := [115; 116; 114; 105; 99; 116].

Record cookie_args := mkCookie {
  ck_k : text; ck_v : text;
  ck_expires : option text; ck_domain : option text; ck_path : option text;
  ck_max_age : option text; ck_comment : option text;
  ck_secure : bool; ck_httpOnly : bool; ck_sameSite : option text }.

Definition opt_attr (label : bytes) (o : option text) (k : bytes -> res bytes) (acc : bytes) : res bytes :=
  match o with
  | None => k acc
  | Some t => match enc_value t with
              | Bad e => Bad e
              | Good b => k (acc ++ label ++ csan b)
              end
  end.

(** the bytes appended to Request.cookies, or the first exception *)
Definition cookie_bytes (c : cookie_args) : res bytes :=
  match enc_value (ck_k c) with
  | Bad e => Bad e
  | Good k =>
  match enc_value (ck_v c) with
  | Bad e => Bad e
  | Good v =>
  opt_attr A_EXPIRES (ck_expires c) (fun a1 =>
  opt_attr A_DOMAIN (ck_domain c) (fun a2 =>
  opt_attr A_PATH (ck_path c) (fun a3 =>
  opt_attr A_MAXAGE (ck_max_age c) (fun a4 =>
  opt_attr A_COMMENT (ck_comment c) (fun a5 =>
    let a6 := if ck_secure c then a5 ++ A_SECURE else a5 in
    let a7 := if ck_httpOnly c then a6 ++ A_HTTPONLY else a6 in
    match ck_sameSite c with
    | None => Good a7
    | Some t =>
        match enc_value t with
        | Bad e => Bad e
        | Good [] => Good a7
        | Good s => let s' := map lower s in
                    if beq s' w_lax || beq s' w_strict then Good (a7 ++ A_SAMESITE ++ s') else Bad ESameSite
        end
    end) a4) a3) a2) a1) (csan k ++ [61] ++ csan v)
  end end.

Inductive op :=
| SetCode (c : N) (msg : option bytes)        (* Request.setResponseCode *)
| SetRaw (name : text) (vals : list text)     (* responseHeaders.setRawHeaders / Request.setHeader *)
| AddRaw (name : text) (val : text)           (* responseHeaders.addRawHeader *)
| Remove (name : text)                        (* responseHeaders.removeHeader *)
| AddCookie (c : cookie_args)                 (* Request.addCookie *)
| Write (d : bytes).                          (* Request.write *)

Inductive outcome := OOk | OErr (e : err).

Record cfg := mkCfg { ver11 : bool; is_head : bool; conn_close : bool }.

Record st := mkSt {
  s_code : N; s_reason : bytes; s_tbl : table; s_cookies : list bytes;
  s_started : bool; s_chunked : bool; s_mute : bool; s_out : bytes;
  s_saidclose : bool }.     (* the head that was written carried "Connection: close" (set by the server or the application) *)

Definition version_bytes (c : cfg) : bytes := http1_prefix ++ [if ver11 c then 49 else 48].

Definition nobody_code (c : N) : bool := (c =? 204) || (c =? 304).

Definition wire_lines (t : table) : list (bytes * bytes) :=
  flat_map (fun e => map (fun v => (fst e, v)) (snd e)) t.

Definition emit_line (h : bytes * bytes) : bytes := fst h ++ [58; 32] ++ snd h ++ CRLF.

(** HTTPChannel.writeHeaders (with the reason phrase sanitised: the repair of F6) *)
Definition emit_head (c : cfg) (code : N) (reason : bytes) (t : table) : bytes :=
  version_bytes c ++ [32] ++ to_dec code ++ [32] ++ san reason ++ CRLF
  ++ flat_map emit_line (wire_lines t) ++ CRLF.

Definition emit_chunk (d : bytes) : bytes :=
  match d with [] => [] | _ => to_hex (lenN d) ++ CRLF ++ d ++ CRLF end.

Definition last_chunk : bytes := [48; 13; 10; 13; 10].

Definition isnil {A} (l : list A) : bool := match l with [] => true | _ => false end.

(** HTTPChannel.writeHeaders (repaired, fixes/C20-honour-connection-close.patch): a Connection header value with the
    token "close" among its comma-separated, blank-trimmed, case-insensitive tokens *)
Fixpoint split_comma (l : bytes) : list bytes :=
  match l with
  | [] => [[]]
  | c :: r => if c =? 44 then [] :: split_comma r
              else match split_comma r with
                   | h :: t => (c :: h) :: t
                   | [] => [[c]]
                   end
  end.

Definition says_close (v : bytes) : bool :=
  existsb (fun t => beq (map lower (trim_ows t)) close_word) (split_comma v).

Definition conn_says_close (t : table) : bool := existsb says_close (tbl_get CONN_NAME t).

Section WithResponses.
  (** http.RESPONSES.get(code, b"Unknown Status") — regenerated from the source into Gen.v *)
  Variable responses : N -> bytes.

  Definition body_write (s : st) (d : bytes) : st :=
    if s_mute s then s
    else mkSt (s_code s) (s_reason s) (s_tbl s) (s_cookies s) (s_started s) (s_chunked s) (s_mute s)
              (s_out s ++ (if s_chunked s then emit_chunk d else d)) (s_saidclose s).

  (** the table that is serialised by the first write *)
  Definition chunked_mode (c : cfg) (s : st) : bool :=
    ver11 c && isnil (tbl_get CL_NAME (s_tbl s)) && negb (is_head c) && negb (nobody_code (s_code s)).

  Definition final_table (c : cfg) (s : st) : table :=
    let t1 := if chunked_mode c s then tbl_set TE_NAME [san chunked_word] (s_tbl s) else s_tbl s in
    match s_cookies s with
    | [] => t1
    | cs => tbl_set SC_NAME (map san cs) t1
    end.

  Definition do_write (c : cfg) (s : st) (d : bytes) : st :=
    if s_started s then body_write s d
    else
      let t := final_table c s in
      let s1 := mkSt (s_code s) (s_reason s) t (s_cookies s) true (chunked_mode c s)
                     (is_head c || nobody_code (s_code s))
                     (s_out s ++ emit_head c (s_code s) (s_reason s) t) (conn_says_close t) in
      body_write s1 d.

  Definition with_tbl (s : st) (t : table) : st :=
    mkSt (s_code s) (s_reason s) t (s_cookies s) (s_started s) (s_chunked s) (s_mute s) (s_out s) (s_saidclose s).

  Definition step (c : cfg) (s : st) (o : op) : st * outcome :=
    match o with
    | SetCode code msg =>
        (mkSt code (match msg with Some m => m | None => responses code end) (s_tbl s) (s_cookies s)
              (s_started s) (s_chunked s) (s_mute s) (s_out s) (s_saidclose s), OOk)
    | SetRaw name vals =>
        match enc_name name with
        | Bad e => (s, OErr e)
        | Good k => match enc_values vals with
                    | Bad e => (s, OErr e)
                    | Good vs => (with_tbl s (tbl_set k vs (s_tbl s)), OOk)
                    end
        end
    | AddRaw name val =>
        match enc_name name with
        | Bad e => (s, OErr e)
        | Good k => match enc_value val with
                    | Bad e => (with_tbl s (tbl_add k [] (s_tbl s)), OErr e)   (* setdefault ran before encode raised *)
                    | Good v => (with_tbl s (tbl_add k [san v] (s_tbl s)), OOk)
                    end
        end
    | Remove name =>
        match enc_name name with
        | Bad e => (s, OErr e)
        | Good k => (with_tbl s (tbl_remove k (s_tbl s)), OOk)
        end
    | AddCookie ck =>
        match cookie_bytes ck with
        | Bad e => (s, OErr e)
        | Good b => (mkSt (s_code s) (s_reason s) (s_tbl s) (s_cookies s ++ [b]) (s_started s) (s_chunked s)
                          (s_mute s) (s_out s) (s_saidclose s), OOk)
        end
    | Write d => (do_write c s d, OOk)
    end.

  Fixpoint run_ops (c : cfg) (s : st) (ops : list op) : st * list outcome :=
    match ops with
    | [] => (s, [])
    | o :: r => let (s1, e) := step c s o in
                let (s2, es) := run_ops c s1 r in (s2, e :: es)
    end.

  (** Request.finish *)
  Definition finish (c : cfg) (s : st) : st :=
    let s1 := if s_started s then s else do_write c s [] in
    if s_chunked s1
    then mkSt (s_code s1) (s_reason s1) (s_tbl s1) (s_cookies s1) true true (s_mute s1) (s_out s1 ++ last_chunk) (s_saidclose s1)
    else s1.

  Definition write_all (c : cfg) (s : st) (ws : list bytes) : st := fold_left (do_write c) ws s.

  Definition OK_word : bytes := [79; 75].

  (** a fresh Request after allHeadersReceived: checkPersistence may already have set Connection: close *)
  Definition init (c : cfg) : st :=
    mkSt 200 OK_word (if ver11 c && conn_close c then [(CONN_NAME, [close_word])] else []) [] false false false [] false.

  Definition persistent (c : cfg) : bool := ver11 c && negb (conn_close c).

  (** HTTPChannel.persistent when requestDone looks at it: the request allowed it and the head did not say close *)
  Definition stays_open (c : cfg) (sf : st) : bool := persistent c && negb (s_saidclose sf).

  Definition respond_open (c : cfg) (ops : list op) : bool :=
    stays_open c (finish c (fst (run_ops c (init c) ops))).

  (** everything one request puts on the wire: its ops, then finish *)
  Definition respond (c : cfg) (ops : list op) : bytes * list outcome :=
    let (s, es) := run_ops c (init c) ops in (s_out (finish c s), es).

  (** a connection: pipelined requests answered in order until one is not persistent *)
  Fixpoint run_conn (reqs : list (cfg * list op)) : bytes * list (list outcome) * bool :=
    match reqs with
    | [] => ([], [], false)
    | (c, ops) :: r =>
        let (b, es) := respond c ops in
        if respond_open c ops
        then let '(b', ess, closed) := run_conn r in (b ++ b', es :: ess, closed)
        else (b, [es], true)
    end.
End WithResponses.

(** ========================================================================================== *)
(** Part 3: what the property says a recipient must see (used in the theorem statements) *)

Definition trimv (h : bytes * bytes) : bytes * bytes := (fst h, trim_ows (snd h)).

Definition muted (c : cfg) (s : st) : bool := is_head c || nobody_code (s_code s).

(** for a request in state [s] (nothing written yet) that now writes [ws] and finishes *)
Definition expected (c : cfg) (s : st) (ws : list bytes) : response :=
  mkResp (if ver11 c then 1 else 0) (s_code s) (san (s_reason s))
         (map trimv (wire_lines (final_table c s)))
         (if muted c s then FNone
          else if chunked_mode c s then FChunked
          else match tbl_get CL_NAME (s_tbl s) with [] => FClose | _ => FLength (lenN (concat ws)) end)
         (if muted c s then [] else concat ws)
         [].

(** the application's side of the contract: when it declares a length it is the length it writes, and it
    does not declare a transfer coding itself unless the server overrides it with chunked *)
Definition frames_consistently (c : cfg) (s : st) (ws : list bytes) : Prop :=
  muted c s = false -> chunked_mode c s = false ->
  tbl_get TE_NAME (s_tbl s) = [] /\
  Forall (fun v => of_dec (trim_ows v) = Some (lenN (concat ws))) (tbl_get CL_NAME (s_tbl s)).

Definition self_delimited (r : response) : bool :=
  match r_framing r with FClose => false | _ => true end.

(** "line breaks in values replaced by spaces": every CRLF, lone CR or lone LF becomes one SP *)
Fixpoint breaks_to_sp (v : bytes) : bytes :=
  match v with
  | [] => []
  | c :: r =>
      if c =? 13 then
        32 :: match r with
              | d :: r' => if d =? 10 then breaks_to_sp r' else breaks_to_sp r
              | [] => []
              end
      else if c =? 10 then 32 :: breaks_to_sp r
      else c :: breaks_to_sp r
  end.

(** what a recipient does with a Set-Cookie value: split it at every ";" *)
Fixpoint split_semi (l : bytes) : list bytes :=
  match l with
  | [] => [[]]
  | c :: r => if c =? 59 then [] :: split_semi r
              else match split_semi r with
                   | h :: t => (c :: h) :: t
                   | [] => [[c]]
                   end
  end.

(** name=value followed by attributes, each introduced by "; " *)
Definition glue (first : bytes) (attrs : list bytes) : bytes := first ++ flat_map (fun p => 59 :: 32 :: p) attrs.

Definition attr_labels : list bytes :=
  [skipn 2 A_EXPIRES; skipn 2 A_DOMAIN; skipn 2 A_PATH; skipn 2 A_MAXAGE; skipn 2 A_COMMENT].

(** the only attributes addCookie can produce *)
Definition attr_form (p : bytes) : Prop :=
  (exists label x, In label attr_labels /\ p = label ++ csan x) \/
  p = skipn 2 A_SECURE \/ p = skipn 2 A_HTTPONLY \/
  p = skipn 2 A_SAMESITE ++ w_lax \/ p = skipn 2 A_SAMESITE ++ w_strict.

(** HTTPChannel.writeHeaders called directly with the documented backwards-compatibility form of [headers]: an iterable
    of (name, value) pairs.  They go through a fresh Headers() with addRawHeader first - a name that is not a token is
    refused before anything reaches the transport - and then the head is written as usual. *)
Fixpoint pairs_table (ps : list (text * text)) (t : table) : res table :=
  match ps with
  | [] => Good t
  | (n, v) :: r =>
      match enc_name n with
      | Bad e => Bad e
      | Good k => match enc_value v with
                  | Bad e => Bad e
                  | Good b => pairs_table r (tbl_add k [san b] t)
                  end
      end
  end.

Definition write_headers_pairs (c : cfg) (code : N) (reason : bytes) (ps : list (text * text)) : res bytes :=
  match pairs_table ps [] with
  | Bad e => Bad e
  | Good t => Good (emit_head c code reason t)
  end.

(** HTTPChannel.writeHeaders as it is at the pinned commit (reason phrase copied verbatim): finding F6 *)
Definition emit_head_unrepaired (c : cfg) (code : N) (reason : bytes) (t : table) : bytes :=
  version_bytes c ++ [32] ++ to_dec code ++ [32] ++ reason ++ CRLF
  ++ flat_map emit_line (wire_lines t) ++ CRLF.

(** a request as the theorems see it: header / status / cookie calls, then writes, then finish *)
Record request := mkReq { q_cfg : cfg; q_pre : list op; q_ws : list bytes }.

Definition q_ops (q : request) : list op := q_pre q ++ map Write (q_ws q).

Definition is_write (o : op) : bool := match o with Write _ => true | _ => false end.

Section Spec3.
  Variable responses : N -> bytes.

  (** the request's state when the first byte is about to be written *)
  Definition q_state (q : request) : st := fst (run_ops responses (q_cfg q) (init (q_cfg q)) (q_pre q)).

  Definition q_expected (q : request) : response := expected (q_cfg q) (q_state q) (q_ws q).

  Definition req_ok (q : request) : Prop :=
    forallb (fun o => negb (is_write o)) (q_pre q) = true /\
    200 <= s_code (q_state q) <= 999 /\
    frames_consistently (q_cfg q) (q_state q) (q_ws q).

  (** the requests a connection answers: up to and including the first non-persistent one *)
  Fixpoint answered (qs : list request) : list request :=
    match qs with
    | [] => []
    | q :: r => if respond_open responses (q_cfg q) (q_ops q) then q :: answered r else [q]
    end.
End Spec3.

