(** C20 proofs, part 3: invariant over all API histories, the bytes a request emits, and the read-back theorem. *)
From Coq Require Import List NArith ZArith Bool Lia ZifyBool Arith.
From TwLib Require Import HttpRespBytes.
From C20 Require Import Model ProofsParse ProofsTable.
Import ListNotations.
Local Open Scope N_scope.

Section WithResponses.
  Variable responses : N -> bytes.
  Notation step := (step responses).
  Notation run_ops := (run_ops responses).

  (** ---------- invariant over every sequence of API calls ---------- *)

  Lemma enc_values_ok vals : forall vs, enc_values vals = Good vs -> vals_ok vs.
  Proof.
    induction vals as [|t r IH]; cbn [enc_values]; intros vs H.
    - inversion H. constructor.
    - destruct (enc_value t); [|discriminate]. destruct (enc_values r); [|discriminate].
      inversion H; subst. constructor; [apply san_no_crlf|apply IH; reflexivity].
  Qed.

  Lemma map_san_ok cs : vals_ok (map san cs).
  Proof. induction cs; constructor; [apply san_no_crlf|assumption]. Qed.

  Lemma final_table_inv c s : tbl_inv (s_tbl s) -> tbl_inv (final_table c s).
  Proof.
    intro H. unfold final_table.
    assert (H1 : tbl_inv (if chunked_mode c s then tbl_set TE_NAME [san chunked_word] (s_tbl s) else s_tbl s)).
    { destruct (chunked_mode c s); [|exact H]. rewrite tbl_set_upd. apply upd_inv; [apply key_ok_TE| |exact H].
      intros _ _. constructor; [reflexivity|constructor]. }
    destruct (s_cookies s) as [|c0 cs]; [exact H1|]. rewrite tbl_set_upd.
    apply upd_inv; [apply key_ok_SC| |exact H1]. intros _ _. apply map_san_ok.
  Qed.

  Lemma body_write_tbl s d : s_tbl (body_write s d) = s_tbl s.
  Proof. unfold body_write. destruct (s_mute s); reflexivity. Qed.

  Lemma do_write_inv c s d : tbl_inv (s_tbl s) -> tbl_inv (s_tbl (do_write c s d)).
  Proof.
    intro H. unfold do_write. destruct (s_started s); rewrite body_write_tbl; [exact H|].
    cbn [s_tbl]. apply final_table_inv, H.
  Qed.

  Lemma step_inv c s o : tbl_inv (s_tbl s) -> tbl_inv (s_tbl (fst (step c s o))).
  Proof.
    intro H. destruct o as [code msg|name vals|name val|name|ck|d]; cbn [step].
    - exact H.
    - destruct (enc_name name) as [k|e] eqn:En; [|exact H].
      destruct (enc_values vals) as [vs|e] eqn:Ev; [|exact H]. cbn [fst with_tbl s_tbl].
      rewrite tbl_set_upd. apply upd_inv; [eapply enc_name_key_ok, En| |exact H].
      intros _ _. eapply enc_values_ok, Ev.
    - destruct (enc_name name) as [k|e] eqn:En; [|exact H].
      destruct (enc_value val) as [v|e]; cbn [fst with_tbl s_tbl]; rewrite tbl_add_upd;
        (apply upd_inv; [eapply enc_name_key_ok, En| |exact H]); intros old Ho; apply Forall_app; split; auto;
        repeat constructor; apply san_no_crlf.
    - destruct (enc_name name) as [k|e] eqn:En; [|exact H]. cbn [fst with_tbl s_tbl]. apply remove_inv, H.
    - destruct (cookie_bytes ck); exact H.
    - cbn [fst]. apply do_write_inv, H.
  Qed.

  Lemma run_ops_fst c ops : forall s, fst (run_ops c s ops) = fold_left (fun s o => fst (step c s o)) ops s.
  Proof.
    induction ops as [|o r IH]; intro s; [reflexivity|]. cbn [Model.run_ops fold_left].
    destruct (step c s o) as [s1 e] eqn:E. cbn [fst]. rewrite <- IH. destruct (run_ops c s1 r). reflexivity.
  Qed.

  Lemma run_ops_inv c ops : forall s, tbl_inv (s_tbl s) -> tbl_inv (s_tbl (fst (run_ops c s ops))).
  Proof.
    intros s H. rewrite run_ops_fst. revert s H.
    induction ops as [|o r IH]; intros s H; [exact H|]. cbn [fold_left]. apply IH, step_inv, H.
  Qed.

  Lemma init_inv c : tbl_inv (s_tbl (init c)).
  Proof.
    unfold init. cbn [s_tbl]. destruct (ver11 c && conn_close c).
    - split; [constructor; [intros []|constructor]|]. constructor; [|constructor].
      split; [apply key_ok_CONN|]. constructor; [reflexivity|constructor].
    - split; constructor.
  Qed.

  (** a refused call changes nothing at all *)
  Lemma refused_no_effect c s o e : snd (step c s o) = OErr e ->
    match o with AddRaw _ _ => s_out (fst (step c s o)) = s_out s | _ => fst (step c s o) = s end.
  Proof.
    destruct o as [code msg|name vals|name val|name|ck|d]; cbn [step]; try discriminate.
    - destruct (enc_name name); [|reflexivity]. destruct (enc_values vals); [discriminate|reflexivity].
    - destruct (enc_name name); [|reflexivity]. destruct (enc_value val); reflexivity.
    - destruct (enc_name name); [discriminate|reflexivity].
    - destruct (cookie_bytes ck); [discriminate|reflexivity].
  Qed.

  Lemma invalid_name_refused c s name vals :
    (match name with TB b => is_token b | TS l => is_token l end) = false ->
    exists e, step c s (SetRaw name vals) = (s, OErr e).
  Proof.
    destruct name as [b|l]; cbn [step enc_name]; intros ->.
    - eexists; reflexivity.
    - destruct (forallb _ l); eexists; reflexivity.
  Qed.

  (** header calls never put anything on the wire; only write / finish do *)
  Lemma only_write_emits c s o : (forall d, o <> Write d) -> s_out (fst (step c s o)) = s_out s.
  Proof.
    intro H. destruct o as [code msg|name vals|name val|name|ck|d]; cbn [step]; try reflexivity.
    - destruct (enc_name name); [|reflexivity]. destruct (enc_values vals); reflexivity.
    - destruct (enc_name name); [|reflexivity]. destruct (enc_value val); reflexivity.
    - destruct (enc_name name); reflexivity.
    - destruct (cookie_bytes ck); reflexivity.
    - exfalso. apply (H d). reflexivity.
  Qed.

  (** ---------- the bytes of one response ---------- *)

  Definition body_bytes (mute chunked : bool) (ws : list bytes) : bytes :=
    if mute then [] else if chunked then flat_map emit_chunk ws else concat ws.

  Lemma fold_started c ws : forall s, s_started s = true ->
    let s' := write_all c s ws in
    s_started s' = true /\ s_chunked s' = s_chunked s /\ s_mute s' = s_mute s /\
    s_out s' = s_out s ++ body_bytes (s_mute s) (s_chunked s) ws.
  Proof.
    unfold write_all, body_bytes. induction ws as [|d ws IH]; intros s Hs; cbn [fold_left].
    - repeat split; auto. destruct (s_mute s); [|destruct (s_chunked s)]; rewrite app_nil_r; reflexivity.
    - assert (E : do_write c s d = body_write s d) by (unfold do_write; rewrite Hs; reflexivity).
      rewrite E. unfold body_write. destruct (s_mute s) eqn:Em.
      + destruct (IH s Hs) as (A & B & C & D). rewrite Em in C, D. repeat split; assumption.
      + set (s1 := mkSt _ _ _ _ _ _ _ _ _).
        destruct (IH s1 Hs) as (A & B & C & D). cbn [s1 s_chunked s_mute s_out] in *.
        repeat split; auto. rewrite D.
        destruct (s_chunked s); cbn [flat_map concat]; rewrite <- !app_assoc; reflexivity.
  Qed.

  Definition head_of (c : cfg) (s : st) : bytes := emit_head c (s_code s) (s_reason s) (final_table c s).

  Lemma chunked_not_muted c s : chunked_mode c s = true -> muted c s = false.
  Proof.
    unfold chunked_mode, muted. intro H. apply andb_true_iff in H as [H H2]. apply andb_true_iff in H as [_ H1].
    destruct (is_head c); [discriminate|]. destruct (nobody_code (s_code s)); [discriminate|reflexivity].
  Qed.

  (** everything a not-yet-started request puts on the wire when it writes [ws] and finishes *)
  Lemma out_finish c s ws : s_started s = false ->
    s_out (finish c (write_all c s ws)) =
    s_out s ++ head_of c s ++ body_bytes (muted c s) (chunked_mode c s) ws
    ++ (if chunked_mode c s then last_chunk else []).
  Proof.
    intro Hs.
    set (s1 := mkSt (s_code s) (s_reason s) (final_table c s) (s_cookies s) true (chunked_mode c s)
                    (muted c s) (s_out s ++ head_of c s) (conn_says_close (final_table c s))).
    assert (Hstart : forall d, do_write c s d = body_write s1 d).
    { intro d. unfold do_write. rewrite Hs. reflexivity. }
    assert (Hfin : forall s2, s_started s2 = true -> s_chunked s2 = chunked_mode c s ->
                   s_out (finish c s2) = s_out s2 ++ (if chunked_mode c s then last_chunk else [])).
    { intros s2 H1 H2. unfold finish. rewrite H1, H2. destruct (chunked_mode c s); [reflexivity|]. rewrite app_nil_r. reflexivity. }
    assert (Hbw : forall d, s_started (body_write s1 d) = true /\ s_chunked (body_write s1 d) = chunked_mode c s /\
                  s_mute (body_write s1 d) = muted c s /\
                  s_out (body_write s1 d) = s_out s ++ head_of c s ++ body_bytes (muted c s) (chunked_mode c s) [d]).
    { intro d. unfold body_write, body_bytes. cbn [s1 s_mute]. destruct (muted c s) eqn:Em; cbn [s1 s_started s_chunked s_mute s_out].
      - repeat split; auto. rewrite app_nil_r. reflexivity.
      - repeat split; auto. rewrite <- app_assoc. f_equal. f_equal.
        destruct (chunked_mode c s); cbn [flat_map concat]; rewrite app_nil_r; reflexivity. }
    destruct ws as [|w ws].
    - (* finish starts the response itself with an empty write *)
      unfold write_all. cbn [fold_left]. unfold finish. rewrite Hs, Hstart.
      destruct (Hbw []) as (A & B & C & D). rewrite B.
      destruct (chunked_mode c s) eqn:Ec; cbn [s_out]; rewrite D; unfold body_bytes.
      + rewrite (chunked_not_muted _ _ Ec). cbn [flat_map emit_chunk app]. rewrite <- !app_assoc. reflexivity.
      + destruct (muted c s); cbn [concat app]; rewrite ?app_nil_r; reflexivity.
    - unfold write_all. cbn [fold_left]. rewrite Hstart. destruct (Hbw w) as (A & B & C & D).
      destruct (fold_started c ws _ A) as (A' & B' & C' & D'). unfold write_all in *.
      rewrite Hfin by congruence. rewrite D', D, B, C. rewrite <- !app_assoc. f_equal. f_equal.
      rewrite app_assoc. f_equal. unfold body_bytes. destruct (muted c s); [reflexivity|].
      destruct (chunked_mode c s); cbn [flat_map concat]; rewrite app_nil_r; reflexivity.
  Qed.
End WithResponses.
