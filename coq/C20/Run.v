(** C20: printers used by the correspondence check only. *)
From Coq Require Import List NArith Bool String.
From TwLib Require Import Show HttpRespBytes.
From C20 Require Import Model Gen.
Import ListNotations.
Local Open Scope string_scope.

(** input byte strings are passed as hex string literals (fast to parse) *)
Definition hexval (a : Ascii.ascii) : N :=
  let n := Ascii.N_of_ascii a in
  if N.leb 97 n then n - 87 else if N.leb 65 n then n - 55 else n - 48.
Fixpoint hx (s : string) : bytes :=
  match s with
  | String a (String b r) => (hexval a * 16 + hexval b)%N :: hx r
  | _ => []
  end.

Definition show_outcome (o : outcome) : string :=
  match o with
  | OOk => "."
  | OErr EInvalidName => "N"
  | OErr EUnicode => "U"
  | OErr ESameSite => "S"
  end.

(** the bytes on the wire are compared through their length and two independent polynomial checksums
    (printing every byte dominates the run time; [run_show_full] prints them for replays) *)
Definition cksum_with (m i : N) (b : bytes) : N := fold_left (fun a c => N.modulo (a * m + c) 4294967296) b i.
Definition digest (b : bytes) : string :=
  show_N (lenN b) ++ "~" ++ show_N (cksum_with 31 7 b) ++ "~" ++ show_N (cksum_with 16777619 2166136261 b).

(** one case = the pipelined requests of one connection *)
Definition run_show_with (pr : bytes -> string) (reqs : list (cfg * list op)) : string :=
  let '(b, ess, closed) := run_conn responses reqs in
  String.concat "/" (map (fun es => String.concat "" (map show_outcome es)) ess)
  ++ "|" ++ pr b ++ "|" ++ show_bool closed.
Definition run_show := run_show_with digest.
Definition run_show_full := run_show_with show_hex.

(** the Spec parser on raw bytes (cross-checked against the harness' reference parser and h11) *)
Definition show_hdr (h : bytes * bytes) : string := show_hex (fst h) ++ ":" ++ show_hex (snd h).
Definition show_framing (f : framing) : string :=
  match f with FNone => "none" | FLength n => "len" ++ show_N n | FChunked => "chunked" | FClose => "close" end.
(** bodies are printed as length and a polynomial checksum (the exact bytes are already in the first part) *)
Definition cksum := cksum_with 31 7.
Definition show_resp (r : response) : string :=
  show_N (r_minor r) ++ " " ++ show_N (r_status r) ++ " " ++ show_hex (r_reason r) ++ " "
  ++ show_list show_hdr (r_headers r) ++ " " ++ show_framing (r_framing r) ++ " "
  ++ show_N (lenN (r_body r)) ++ "~" ++ show_N (cksum (r_body r))
  ++ " " ++ show_list show_hdr (r_trailers r).

Definition parse_show (c : list bool * bytes) : string :=
  match parse_stream (fst c) (snd c) with
  | None => "ERR"
  | Some rs => String.concat ";" (map show_resp rs)
  end.

(** model observation followed by what the Spec parser makes of the model's bytes *)
Definition run_show2 (reqs : list (cfg * list op)) : string :=
  let '(b, ess, closed) := run_conn responses reqs in
  run_show reqs ++ "#" ++ parse_show (map (fun r => is_head (fst r)) (firstn (List.length ess) reqs), b).

(** channel.writeHeaders(version, code, reason, [(name, value), ...]) followed by channel.write(body) *)
Definition wh_show (c : cfg * N * bytes * list (text * text) * bytes) : string :=
  let '(cf, code, reason, ps, body) := c in
  match write_headers_pairs cf code reason ps with
  | Bad e => "wh:" ++ show_outcome (OErr e) ++ "|" ++ digest []
  | Good b => "wh:.|" ++ digest (b ++ body)
  end.

(** one case: a scripted connection, or a direct writeHeaders call in the pair form *)
Definition run_case (c : list (cfg * list op) + (cfg * N * bytes * list (text * text) * bytes)) : string :=
  match c with inl reqs => run_show2 reqs | inr w => wh_show w end.
