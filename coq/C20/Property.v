(** C20 property theorems.  [parse_response] / [parse_stream] are the independent HTTP/1.1 response parser of
    Model.v part 1; [respond] / [run_conn] / [step] are the model of Request + HTTPChannel (part 2, with the
    reason phrase sanitised as in fixes/C20-sanitise-reason-phrase.patch); [responses] is ANY table of default
    reason phrases.  All statements hold for every byte value in N (a superset of 0..255), every number and
    length of calls, writes and pipelined requests. *)
From Coq Require Import List NArith Bool.
From TwLib Require Import HttpRespBytes.
From C20 Require Import Model Gen GenCheck ProofsParse ProofsTable Proofs ProofsMain.
Import ListNotations.
Local Open Scope N_scope.

(** For every request = any sequence of setResponseCode / setRawHeaders / addRawHeader / removeHeader / addCookie
    calls (arbitrary names, values, reasons, cookies; bytes or str) followed by any sequence of writes and
    finish, by an application that frames consistently (status 200-999; a declared Content-Length is the number
    of bytes written; no Transfer-Encoding of its own on a non-chunked response): the bytes emitted, followed by
    ANY further bytes [rest], parse as exactly the expected response (status, sanitised reason, the header
    table as set with OWS-trimmed values, body = concatenation of the writes) and leave exactly [rest];
    a close-delimited response is the case rest = []. *)
Theorem response_parses_to_exactly_one : forall (responses : N -> bytes) (q : request) (rest : bytes),
  forallb (fun o => negb (is_write o)) (q_pre q) = true /\
  200 <= s_code (q_state responses q) <= 999 /\
  frames_consistently (q_cfg q) (q_state responses q) (q_ws q) ->
  (self_delimited (q_expected responses q) = false -> rest = []) ->
  parse_response (is_head (q_cfg q)) (fst (respond responses (q_cfg q) (q_pre q ++ map Write (q_ws q))) ++ rest)
  = Some (expected (q_cfg q) (q_state responses q) (q_ws q), rest).
Proof. exact request_parses. Qed.
Print Assumptions response_parses_to_exactly_one.

(** a whole connection: any number of pipelined requests; the byte stream parses as exactly one response per
    answered request, in order, with nothing left over (no response splitting, no interleaving) *)
Theorem connection_parses_to_exactly_the_responses : forall (responses : N -> bytes) (qs : list request),
  Forall (req_ok responses) qs ->
  parse_stream (map (fun q => is_head (q_cfg q)) (answered responses qs))
               (fst (fst (run_conn responses (map (fun q => (q_cfg q, q_pre q ++ map Write (q_ws q))) qs))))
  = Some (map (q_expected responses) (answered responses qs)).
Proof. exact connection_parses. Qed.
Print Assumptions connection_parses_to_exactly_the_responses.

(** HEAD requests and 204 / 304 responses: the head is all that is emitted (no body byte, no chunk terminator)
    and the recipient sees an empty body *)
Theorem no_body_for_HEAD_204_304 : forall c s ws,
  is_head c || nobody_code (s_code s) = true ->
  wire c s ws = head_of c s /\ r_body (expected c s ws) = [] /\ r_framing (expected c s ws) = FNone.
Proof. exact muted_wire. Qed.
Print Assumptions no_body_for_HEAD_204_304.

(** framing is consistent with the connection: a response delimited by close is only sent when the connection is
    then closed; the transport is closed exactly when some answered request does not leave the connection open; and
    the connection is left open only if the request allowed it AND the head that was written did not say
    "Connection: close" (whoever set that header: the server for the client's close, or the application - repaired by
    fixes/C20-honour-connection-close.patch) *)
Theorem framing_consistent : forall (responses : N -> bytes),
  (forall c s ws, self_delimited (expected c s ws) = false -> persistent c = false) /\
  (forall qs, snd (run_conn responses (map (fun q => (q_cfg q, q_pre q ++ map Write (q_ws q))) qs))
              = existsb (fun q => negb (respond_open responses (q_cfg q) (q_pre q ++ map Write (q_ws q)))) qs) /\
  (forall c ops, respond_open responses c ops = true ->
     persistent c = true /\ s_saidclose (finish c (fst (run_ops responses c (init c) ops))) = false).
Proof. exact framing_consistent_all. Qed.
Print Assumptions framing_consistent.

(** invariant over EVERY history of API calls (writes included, in any order): header names are unique canonical
    tokens - in particular Content-Length / Transfer-Encoding exist under one spelling only - and no stored
    value contains CR or LF *)
Theorem header_table_invariant : forall (responses : N -> bytes) c ops,
  let t := s_tbl (fst (run_ops responses c (init c) ops)) in
  NoDup (map fst t) /\
  Forall (fun e => (is_token (fst e) = true /\
                    (map lower (fst e) = cl_lname -> fst e = CL_NAME) /\
                    (map lower (fst e) = te_lname -> fst e = TE_NAME)) /\
                   Forall (fun v => no_crlf v = true) (snd e)) t.
Proof. exact table_invariant_all. Qed.
Print Assumptions header_table_invariant.

(** invalid names are refused when set, and a refused call has no effect *)
Theorem invalid_header_name_refused : forall (responses : N -> bytes) c s name vals,
  (match name with TB b => is_token b | TS l => is_token l end) = false ->
  exists e, step responses c s (SetRaw name vals) = (s, OErr e).
Proof. exact invalid_name_refused. Qed.
Print Assumptions invalid_header_name_refused.

(** exactly the headers set: setRawHeaders replaces the values of that (canonical) name by the sanitised values
    and touches no other name; addRawHeader appends one sanitised value *)
Theorem headers_exactly_those_set : forall (responses : N -> bytes) c s name,
  NoDup (map fst (s_tbl s)) /\ Forall entry_ok (s_tbl s) ->
  forall k, enc_name name = Good k ->
  (forall vals vs, enc_values vals = Good vs ->
     let s' := fst (step responses c s (SetRaw name vals)) in
     tbl_get k (s_tbl s') = vs /\ forall k', beq k' k = false -> tbl_get k' (s_tbl s') = tbl_get k' (s_tbl s)) /\
  (forall val v, enc_value val = Good v ->
     let s' := fst (step responses c s (AddRaw name val)) in
     tbl_get k (s_tbl s') = tbl_get k (s_tbl s) ++ [san v] /\
     forall k', beq k' k = false -> tbl_get k' (s_tbl s') = tbl_get k' (s_tbl s)).
Proof. exact set_add_exact. Qed.
Print Assumptions headers_exactly_those_set.

(** T-tie: the byte table of twisted.web._abnf._istoken, regenerated from the source on every run (translate/c20.py
    refuses any other shape of that function), is exactly the model's tchar predicate *)
Theorem token_table_of_the_code_is_tchar : forall c, is_tchar c = existsb (N.eqb c) istoken_table.
Proof. exact istoken_table_is_tchar. Qed.
Print Assumptions token_table_of_the_code_is_tchar.

(** T-tie: http.NO_BODY_CODES, regenerated from the source on every run, is exactly the set of statuses for which the
    model sends no body and no framing (204 and 304 - the statuses for which an HTTP/1.1 recipient expects none) *)
Theorem no_body_codes_of_the_code_are_204_304 : forall c, nobody_code c = existsb (N.eqb c) no_body_codes.
Proof. exact no_body_codes_is_nobody_code. Qed.
Print Assumptions no_body_codes_of_the_code_are_204_304.

(** sanitisation: no CR / LF survives in a header value, and no CR / LF / ";" in a cookie component; an accepted
    cookie is free of CR / LF as a whole; sanitising is idempotent *)
Theorem sanitised_values_cannot_break_lines :
  (forall v, no_crlf (san v) = true) /\
  (forall v, forallb (fun c => negb (is_crlf_byte c) && negb (c =? 59)) (csan v) = true) /\
  (forall ck b, cookie_bytes ck = Good b -> no_crlf b = true) /\
  (forall v, san (san v) = san v).
Proof. exact sanitisation_all. Qed.
Print Assumptions sanitised_values_cannot_break_lines.

(** sanitisation is exactly "every line break (CRLF, CR, LF) becomes one SP", except that a break at the very end
    leaves no SP: the two agree up to one trailing SP, hence exactly after the recipient's OWS trimming *)
Theorem sanitised_value_is_breaks_replaced_by_spaces : forall v,
  (breaks_to_sp v = san v \/ breaks_to_sp v = san v ++ [32]) /\ trim_ows (san v) = trim_ows (breaks_to_sp v).
Proof. intro v. split; [exact (san_breaks v)|exact (san_is_breaks_to_sp_modulo_ows v)]. Qed.
Print Assumptions sanitised_value_is_breaks_replaced_by_spaces.

(** the structure of every cookie addCookie accepts: name=value (both sanitised) followed by attributes that are each
    "; " + one of Expires= / Domain= / Path= / Max-Age= / Comment= + a sanitised value, Secure, HttpOnly, SameSite=lax|strict;
    a recipient that splits the cookie at ";" gets back exactly these pieces - nothing passed to addCookie can add,
    split or forge an attribute *)
Theorem cookie_attributes_cannot_be_forged : forall ck k v b,
  enc_value (ck_k ck) = Good k -> enc_value (ck_v ck) = Good v -> cookie_bytes ck = Good b ->
  exists attrs, Forall attr_form attrs /\ b = glue (csan k ++ [61] ++ csan v) attrs /\
                split_semi b = (csan k ++ [61] ++ csan v) :: map (cons 32) attrs.
Proof. exact cookie_attributes_exact. Qed.
Print Assumptions cookie_attributes_cannot_be_forged.

(** finding F6 (the code before the repair): with the reason phrase copied verbatim, a reason containing CRLF
    makes the recipient see a header the application never set *)
Theorem reason_injection_refuted_for_unrepaired_writeHeaders :
  exists c code reason,
    parse_response false (emit_head_unrepaired c code reason [] ++ [])
    = Some (mkResp 1 200 [79; 75] [([88], [121])] FClose [] [], []).
Proof. exact unrepaired_reason_injects_header. Qed.
Print Assumptions reason_injection_refuted_for_unrepaired_writeHeaders.

(** the hypotheses are inhabited: a HTTP/1.1 GET answered with a custom status, a header with an embedded CRLF,
    a cookie and two writes *)
Example request_example :
  let q := mkReq (mkCfg true false false)
                 [SetCode 404 (Some [78; 13; 10; 88]); SetRaw (TB [120; 45; 97]) [TB [118; 13; 10; 119]];
                  AddCookie (mkCookie (TB [107]) (TB [118; 59; 10]) None None (Some (TB [47])) None None true false None)]
                 [[104; 105]; []; [33]] in
  req_ok (fun _ => []) q /\
  parse_response false (fst (respond (fun _ => []) (q_cfg q) (q_ops q)))
  = Some (mkResp 1 404 [78; 32; 88]
                 [([88; 45; 65], [118; 32; 119]);
                  ([84; 114; 97; 110; 115; 102; 101; 114; 45; 69; 110; 99; 111; 100; 105; 110; 103], chunked_word);
                  (SC_NAME, [107; 61; 118; 32; 59; 32; 80; 97; 116; 104; 61; 47; 59; 32; 83; 101; 99; 117; 114; 101])]
                 FChunked [104; 105; 33] [], []).
Proof.
  cbv zeta. split.
  - split; [reflexivity|]. split; [vm_compute; split; discriminate|]. intros _ H. vm_compute in H. discriminate.
  - vm_compute. reflexivity.
Qed.
