From Coq Require Import List NArith Bool.
From TwLib Require Import HttpRespBytes.
From C20 Require Import Model.
Theorem placeholder_partial : forall l r, no_crlf l = true -> take_line (l ++ 13%N :: 10%N :: r) = Some (l, r).
Proof. exact take_line_app. Qed.
Print Assumptions placeholder_partial.
