(** C20 proofs, part 4: the emitted bytes parse back (Spec parser) to exactly the expected response. *)
From Coq Require Import List NArith ZArith Bool Lia ZifyBool Arith.
From TwLib Require Import HttpRespBytes.
From C20 Require Import Model ProofsParse ProofsTable Proofs.
Import ListNotations.
Local Open Scope N_scope.

Lemma version_no_crlf c : no_crlf (version_bytes c) = true.
Proof. unfold version_bytes. destruct (ver11 c); reflexivity. Qed.

Lemma parse_head hd c code reason T tail : Forall entry_ok T -> 100 <= code <= 999 ->
  parse_response hd (emit_head c code reason T ++ tail) =
  let fuel := S (length (emit_head c code reason T ++ tail)) in
  let hs := map trimv (wire_lines T) in
  let minor := if ver11 c then 1 else 0 in
  match decide_framing hd code hs with
  | None => None
  | Some FNone => Some (mkResp minor code (san reason) hs FNone [] [], tail)
  | Some (FLength n) =>
      match take_N n tail with
      | Some (b, r3) => Some (mkResp minor code (san reason) hs (FLength n) b [], r3)
      | None => None
      end
  | Some FChunked =>
      match parse_chunks fuel tail with
      | Some (b, r3) =>
          match parse_fields fuel r3 with
          | Some (tr, r4) => Some (mkResp minor code (san reason) hs FChunked b tr, r4)
          | None => None
          end
      | None => None
      end
  | Some FClose => Some (mkResp minor code (san reason) hs FClose tail [], [])
  end.
Proof.
  intros HT Hc. unfold parse_response. cbv zeta.
  set (input := emit_head c code reason T ++ tail).
  assert (Hfuel : (length (wire_lines T) < S (length input))%nat).
  { unfold input, emit_head. rewrite !app_length. pose proof (lines_le_bytes (wire_lines T)). lia. }
  remember (S (length input)) as fuel eqn:Ef. clear Ef.
  unfold input, emit_head.
  replace ((version_bytes c ++ [32] ++ to_dec code ++ [32] ++ san reason ++ CRLF ++
            flat_map emit_line (wire_lines T) ++ CRLF) ++ tail)
    with ((version_bytes c ++ [32] ++ to_dec code ++ [32] ++ san reason) ++ 13 :: 10 ::
          (flat_map emit_line (wire_lines T) ++ CRLF ++ tail))
    by (unfold CRLF; rewrite <- !app_assoc; reflexivity).
  rewrite take_line_app.
  2:{ rewrite !no_crlf_app, version_no_crlf, to_dec_no_crlf, san_no_crlf. reflexivity. }
  rewrite parse_status_line_emit by exact Hc.
  rewrite parse_fields_emit by (try apply wire_lines_ok; assumption).
  reflexivity.
Qed.

Lemma beq_TE_SC : beq TE_NAME SC_NAME = false. Proof. reflexivity. Qed.
Lemma beq_CL_SC : beq CL_NAME SC_NAME = false. Proof. reflexivity. Qed.
Lemma beq_CL_TE : beq CL_NAME TE_NAME = false. Proof. reflexivity. Qed.

Lemma final_get_CL c s : tbl_get CL_NAME (final_table c s) = tbl_get CL_NAME (s_tbl s).
Proof.
  unfold final_table.
  assert (E : tbl_get CL_NAME (if chunked_mode c s then tbl_set TE_NAME [san chunked_word] (s_tbl s) else s_tbl s)
              = tbl_get CL_NAME (s_tbl s)).
  { destruct (chunked_mode c s); [|reflexivity]. rewrite tbl_set_upd. apply get_upd_other, beq_CL_TE. }
  destruct (s_cookies s); [exact E|]. rewrite tbl_set_upd, get_upd_other by apply beq_CL_SC. exact E.
Qed.

Lemma final_get_TE c s : tbl_inv (s_tbl s) ->
  tbl_get TE_NAME (final_table c s) = if chunked_mode c s then [san chunked_word] else tbl_get TE_NAME (s_tbl s).
Proof.
  intros [Hn _]. unfold final_table.
  assert (E : tbl_get TE_NAME (if chunked_mode c s then tbl_set TE_NAME [san chunked_word] (s_tbl s) else s_tbl s)
              = if chunked_mode c s then [san chunked_word] else tbl_get TE_NAME (s_tbl s)).
  { destruct (chunked_mode c s); [|reflexivity]. rewrite tbl_set_upd. apply get_upd_same, Hn. }
  destruct (s_cookies s); [exact E|]. rewrite tbl_set_upd, get_upd_other by apply beq_TE_SC. exact E.
Qed.

Lemma muted_no_body c s : muted c s = true -> is_head c || no_body_status (s_code s) = true.
Proof. unfold muted, nobody_code, no_body_status. destruct (is_head c); [reflexivity|]. cbn [orb]. lia. Qed.

Lemma unmuted_has_body c s : muted c s = false -> 200 <= s_code s -> is_head c || no_body_status (s_code s) = false.
Proof. unfold muted, nobody_code, no_body_status. destruct (is_head c); [discriminate|]. cbn [orb]. lia. Qed.

(** the bytes one request emits, followed by whatever comes next on the connection *)
Definition wire (c : cfg) (s : st) (ws : list bytes) : bytes :=
  head_of c s ++ body_bytes (muted c s) (chunked_mode c s) ws ++ (if chunked_mode c s then last_chunk else []).

Theorem wire_parses c s ws rest :
  tbl_inv (s_tbl s) -> 200 <= s_code s <= 999 -> frames_consistently c s ws ->
  (self_delimited (expected c s ws) = false -> rest = []) ->
  parse_response (is_head c) (wire c s ws ++ rest) = Some (expected c s ws, rest).
Proof.
  intros Hinv Hcode Hframe Hrest. unfold wire, head_of. rewrite <- !app_assoc.
  pose proof (final_table_inv c s Hinv) as [_ HT].
  rewrite parse_head by (try exact HT; lia). cbv zeta.
  unfold decide_framing. rewrite (cl_values _ HT), (te_values _ HT), final_get_CL, (final_get_TE _ _ Hinv).
  unfold expected in *. unfold self_delimited in Hrest. cbn [r_framing] in Hrest.
  destruct (muted c s) eqn:Em.
  - (* HEAD / 204 / 304: no body bytes at all *)
    rewrite (muted_no_body _ _ Em).
    assert (Ec : chunked_mode c s = false).
    { destruct (chunked_mode c s) eqn:E; [|reflexivity]. rewrite (chunked_not_muted _ _ E) in Em. discriminate. }
    rewrite Ec. unfold body_bytes. cbn [app]. reflexivity.
  - rewrite (unmuted_has_body _ _ Em) by lia.
    destruct (chunked_mode c s) eqn:Ec.
    + (* chunked *)
      assert (Hcl : tbl_get CL_NAME (s_tbl s) = []).
      { unfold chunked_mode in Ec. destruct (tbl_get CL_NAME (s_tbl s)); [reflexivity|].
        cbn [isnil] in Ec. rewrite andb_false_r in Ec. discriminate. }
      rewrite Hcl. cbn [map]. change (beq (map lower (trim_ows (san chunked_word))) chunked_word) with true. cbv iota.
      unfold body_bytes. change last_chunk with ([48; 13; 10] ++ [13; 10]). rewrite <- !app_assoc.
      change ([48; 13; 10] ++ [13; 10] ++ rest) with (48 :: 13 :: 10 :: (13 :: 10 :: rest)).
      rewrite parse_chunks_emit by (rewrite !app_length; lia).
      cbn [parse_fields take_line N.eqb Pos.eqb]. reflexivity.
    + destruct (Hframe Em Ec) as [Hte Hcl]. rewrite Hte. cbn [map].
      unfold body_bytes. cbn [app]. rewrite Hcl || idtac.
      destruct (tbl_get CL_NAME (s_tbl s)) as [|v vs] eqn:Ecl.
      * (* until close *)
        cbn [map]. rewrite (Hrest eq_refl), !app_nil_r. reflexivity.
      * (* Content-Length *)
        inversion Hcl as [|? ? Hv Hvs]; subst. cbn [map]. rewrite Hv.
        assert (forallb (same_dec (lenN (concat ws))) (map trim_ows vs) = true) as ->.
        { clear -Hvs. induction Hvs as [|w l Hw _ IH]; [reflexivity|]. cbn [map forallb]. rewrite IH.
          unfold same_dec. rewrite Hw, N.eqb_refl. reflexivity. }
        rewrite take_N_app. reflexivity.
Qed.

(** ---------- from API calls to the wire ---------- *)

Section WithResponses.
  Variable responses : N -> bytes.
  Notation step := (step responses).
  Notation run_ops := (run_ops responses).

  Lemma run_ops_app c a b s : fst (run_ops c s (a ++ b)) = fst (run_ops c (fst (run_ops c s a)) b).
  Proof. rewrite !run_ops_fst, fold_left_app. reflexivity. Qed.

  Lemma run_ops_writes c ws : forall s, fst (run_ops c s (map Write ws)) = write_all c s ws.
  Proof.
    unfold write_all. induction ws as [|w ws IH]; intro s; [reflexivity|].
    cbn [map Model.run_ops]. cbn [Model.step]. specialize (IH (do_write c s w)).
    destruct (Model.run_ops responses c (do_write c s w) (map Write ws)) eqn:E. cbn [fst fold_left] in *. exact IH.
  Qed.

  Lemma nonwrite_keeps c s o : is_write o = false ->
    s_started (fst (step c s o)) = s_started s /\ s_out (fst (step c s o)) = s_out s.
  Proof.
    destruct o as [code msg|name vals|name val|name|ck|d]; cbn [is_write Model.step]; intro H; try discriminate.
    - split; reflexivity.
    - destruct (enc_name name); [|split; reflexivity]. destruct (enc_values vals); split; reflexivity.
    - destruct (enc_name name); [|split; reflexivity]. destruct (enc_value val); split; reflexivity.
    - destruct (enc_name name); split; reflexivity.
    - destruct (cookie_bytes ck); split; reflexivity.
  Qed.

  Lemma pre_keeps c pre : forallb (fun o => negb (is_write o)) pre = true -> forall s,
    s_started (fst (run_ops c s pre)) = s_started s /\ s_out (fst (run_ops c s pre)) = s_out s.
  Proof.
    intros H s. rewrite run_ops_fst. revert s. induction pre as [|o r IH]; intro s; [split; reflexivity|].
    cbn [forallb] in H. apply andb_true_iff in H as [Ho Hr]. cbn [fold_left].
    destruct (IH Hr (fst (step c s o))) as [A B]. rewrite A, B.
    apply nonwrite_keeps. destruct (is_write o); [discriminate|reflexivity].
  Qed.

  Lemma respond_bytes c ops : fst (respond responses c ops) = s_out (finish c (fst (run_ops c (init c) ops))).
  Proof. unfold respond. destruct (run_ops c (init c) ops). reflexivity. Qed.

  (** the bytes of a request are exactly head ++ body ++ terminator of the state its header calls built *)
  Lemma respond_wire q : forallb (fun o => negb (is_write o)) (q_pre q) = true ->
    fst (respond responses (q_cfg q) (q_ops q)) = wire (q_cfg q) (q_state responses q) (q_ws q).
  Proof.
    intro Hp. rewrite respond_bytes. unfold q_ops. rewrite run_ops_app, run_ops_writes. fold (q_state responses q).
    destruct (pre_keeps (q_cfg q) _ Hp (init (q_cfg q))) as [A B]. fold (q_state responses q) in A, B.
    rewrite out_finish by (rewrite A; reflexivity). rewrite B. reflexivity.
  Qed.

  Theorem request_parses q rest : req_ok responses q ->
    (self_delimited (q_expected responses q) = false -> rest = []) ->
    parse_response (is_head (q_cfg q)) (fst (respond responses (q_cfg q) (q_ops q)) ++ rest)
    = Some (q_expected responses q, rest).
  Proof.
    intros (Hp & Hc & Hf) Hr. rewrite respond_wire by exact Hp. apply wire_parses; auto.
    unfold q_state. apply run_ops_inv, init_inv.
  Qed.

  (** a close-delimited response is only ever produced on a connection that is then closed *)
  Lemma close_delimited_not_persistent c s ws : self_delimited (expected c s ws) = false -> persistent c = false.
  Proof.
    unfold self_delimited, expected. cbn [r_framing]. destruct (muted c s) eqn:Em; [discriminate|].
    destruct (chunked_mode c s) eqn:Ec; [discriminate|].
    destruct (tbl_get CL_NAME (s_tbl s)) eqn:Ecl; [|discriminate]. intros _.
    unfold chunked_mode in Ec. rewrite Ecl in Ec. unfold muted in Em. unfold persistent.
    destruct (ver11 c); [|reflexivity]. cbn [isnil andb] in Ec.
    destruct (is_head c); [discriminate|]. destruct (nobody_code (s_code s)); discriminate.
  Qed.

  Lemma not_persistent_not_open c ops : persistent c = false -> respond_open responses c ops = false.
  Proof. unfold respond_open, stays_open. intros ->. reflexivity. Qed.

  Definition conn_reqs (qs : list request) : list (cfg * list op) := map (fun q => (q_cfg q, q_ops q)) qs.

  Lemma run_conn_bytes qs :
    fst (fst (run_conn responses (conn_reqs qs)))
    = concat (map (fun q => fst (respond responses (q_cfg q) (q_ops q))) (answered responses qs)).
  Proof.
    induction qs as [|q r IH]; [reflexivity|]. cbn [conn_reqs map run_conn answered].
    destruct (respond responses (q_cfg q) (q_ops q)) as [b es] eqn:E.
    destruct (respond_open responses (q_cfg q) (q_ops q)).
    - fold (conn_reqs r). destruct (run_conn responses (conn_reqs r)) as [[b' ess] cl]. cbn [fst] in *.
      cbn [map concat]. rewrite E, IH. reflexivity.
    - cbn [fst map concat]. rewrite E, app_nil_r. reflexivity.
  Qed.

  Lemma run_conn_closed qs :
    snd (run_conn responses (conn_reqs qs)) = existsb (fun q => negb (respond_open responses (q_cfg q) (q_ops q))) qs.
  Proof.
    induction qs as [|q r IH]; [reflexivity|]. cbn [conn_reqs map run_conn existsb].
    destruct (respond responses (q_cfg q) (q_ops q)) as [b es].
    destruct (respond_open responses (q_cfg q) (q_ops q)); cbn [negb orb].
    - fold (conn_reqs r). destruct (run_conn responses (conn_reqs r)) as [[b' ess] cl]. exact IH.
    - reflexivity.
  Qed.

  Theorem connection_parses qs : Forall (req_ok responses) qs ->
    parse_stream (map (fun q => is_head (q_cfg q)) (answered responses qs)) (fst (fst (run_conn responses (conn_reqs qs))))
    = Some (map (q_expected responses) (answered responses qs)).
  Proof.
    intro H. rewrite run_conn_bytes. induction H as [|q r Hq Hr IH]; [reflexivity|].
    cbn [answered]. destruct (respond_open responses (q_cfg q) (q_ops q)) eqn:Ep.
    - cbn [map concat parse_stream]. rewrite request_parses; [rewrite IH; reflexivity|exact Hq|].
      intro Hsd. apply close_delimited_not_persistent in Hsd. rewrite (not_persistent_not_open _ _ Hsd) in Ep. discriminate.
    - cbn [map concat parse_stream]. rewrite request_parses; [reflexivity|exact Hq|]. reflexivity.
  Qed.
End WithResponses.

(** ---------- no body for HEAD / 204 / 304 ---------- *)

Lemma muted_wire c s ws : muted c s = true -> wire c s ws = head_of c s /\ r_body (expected c s ws) = [] /\ r_framing (expected c s ws) = FNone.
Proof.
  intro Em. unfold wire, expected, body_bytes. cbn [r_body r_framing]. rewrite Em.
  assert (Ec : chunked_mode c s = false).
  { destruct (chunked_mode c s) eqn:E; [|reflexivity]. rewrite (chunked_not_muted _ _ E) in Em. discriminate. }
  rewrite Ec. cbn [app]. rewrite app_nil_r. auto.
Qed.

(** ---------- exactly the headers set ---------- *)

Section Headers.
  Variable responses : N -> bytes.

  Lemma set_then_get c s name vals k vs :
    tbl_inv (s_tbl s) -> enc_name name = Good k -> enc_values vals = Good vs ->
    let s' := fst (step responses c s (SetRaw name vals)) in
    tbl_get k (s_tbl s') = vs /\ forall k', beq k' k = false -> tbl_get k' (s_tbl s') = tbl_get k' (s_tbl s).
  Proof.
    intros [Hn _] En Ev. cbn [step]. rewrite En, Ev. cbn [fst with_tbl s_tbl]. rewrite tbl_set_upd. split.
    - rewrite get_upd_same by exact Hn. reflexivity.
    - intros k' Hk. apply get_upd_other, Hk.
  Qed.

  Lemma add_then_get c s name val k v :
    tbl_inv (s_tbl s) -> enc_name name = Good k -> enc_value val = Good v ->
    let s' := fst (step responses c s (AddRaw name val)) in
    tbl_get k (s_tbl s') = tbl_get k (s_tbl s) ++ [san v] /\
    forall k', beq k' k = false -> tbl_get k' (s_tbl s') = tbl_get k' (s_tbl s).
  Proof.
    intros [Hn _] En Ev. cbn [step]. rewrite En, Ev. cbn [fst with_tbl s_tbl]. rewrite tbl_add_upd. split.
    - rewrite get_upd_same by exact Hn. reflexivity.
    - intros k' Hk. apply get_upd_other, Hk.
  Qed.
End Headers.

(** ---------- cookies ---------- *)

Definition res_clean (r : res bytes) : Prop := match r with Good b => no_crlf b = true | Bad _ => True end.

Lemma csan_no_crlf v : no_crlf (csan v) = true.
Proof.
  pose proof (csan_clean v) as H. unfold no_crlf. eapply forallb_impl; [|exact H].
  intros c Hc. apply andb_true_iff in Hc as [Hc _]. exact Hc.
Qed.

Lemma opt_attr_clean label o k acc : no_crlf label = true ->
  (forall a, no_crlf a = true -> res_clean (k a)) -> no_crlf acc = true -> res_clean (opt_attr label o k acc).
Proof.
  intros Hl Hk Ha. unfold opt_attr. destruct o as [t|]; [|apply Hk, Ha].
  destruct (enc_value t); [|exact I]. apply Hk. rewrite !no_crlf_app, Ha, Hl, csan_no_crlf. reflexivity.
Qed.

Lemma cookie_bytes_clean ck : res_clean (cookie_bytes ck).
Proof.
  unfold cookie_bytes. destruct (enc_value (ck_k ck)); [|exact I]. destruct (enc_value (ck_v ck)); [|exact I].
  apply opt_attr_clean; [reflexivity| |rewrite !no_crlf_app, !csan_no_crlf; reflexivity].
  intros a1 H1. apply opt_attr_clean; [reflexivity| |exact H1].
  intros a2 H2. apply opt_attr_clean; [reflexivity| |exact H2].
  intros a3 H3. apply opt_attr_clean; [reflexivity| |exact H3].
  intros a4 H4. apply opt_attr_clean; [reflexivity| |exact H4].
  intros a5 H5. 
  assert (H6 : no_crlf (if ck_secure ck then a5 ++ A_SECURE else a5) = true).
  { destruct (ck_secure ck); [rewrite no_crlf_app, H5; reflexivity|exact H5]. }
  set (a6 := if ck_secure ck then a5 ++ A_SECURE else a5) in *.
  assert (H7 : no_crlf (if ck_httpOnly ck then a6 ++ A_HTTPONLY else a6) = true).
  { destruct (ck_httpOnly ck); [rewrite no_crlf_app, H6; reflexivity|exact H6]. }
  set (a7 := if ck_httpOnly ck then a6 ++ A_HTTPONLY else a6) in *.
  cbv zeta. fold a6. fold a7.
  destruct (ck_sameSite ck) as [t|]; [|exact H7]. destruct (enc_value t) as [b|]; [|exact I].
  destruct b as [|x b']; [exact H7|].
  destruct (beq (map lower (x :: b')) w_lax || beq (map lower (x :: b')) w_strict) eqn:E; [|exact I].
  cbn [res_clean]. rewrite !no_crlf_app, H7. cbn [andb].
  apply orb_true_iff in E as [E|E]; apply beq_eq in E; rewrite E; reflexivity.
Qed.

(** ---------- F6: why the reason phrase must be sanitised (the unrepaired writeHeaders) ---------- *)

Lemma unrepaired_reason_injects_header :
  exists c code reason,
    parse_response false (emit_head_unrepaired c code reason [] ++ [])
    = Some (mkResp 1 200 [79; 75] [([88], [121])] FClose [] [], []).
Proof.
  exists (mkCfg true false false), 200, [79; 75; 13; 10; 88; 58; 32; 121]. vm_compute. reflexivity.
Qed.

(** ---------- statements assembled for Property.v ---------- *)

Lemma framing_consistent_all (responses : N -> bytes) :
  (forall c s ws, self_delimited (expected c s ws) = false -> persistent c = false) /\
  (forall qs, snd (run_conn responses (conn_reqs qs)) = existsb (fun q => negb (respond_open responses (q_cfg q) (q_ops q))) qs) /\
  (forall c ops, respond_open responses c ops = true ->
     persistent c = true /\ s_saidclose (finish c (fst (run_ops responses c (init c) ops))) = false).
Proof.
  split; [exact close_delimited_not_persistent|]. split; [exact (run_conn_closed responses)|].
  intros c ops H. unfold respond_open, stays_open in H. apply andb_true_iff in H as [A B]. apply negb_true_iff in B. auto.
Qed.

Lemma table_invariant_all (responses : N -> bytes) c ops :
  tbl_inv (s_tbl (fst (run_ops responses c (init c) ops))).
Proof. exact (run_ops_inv responses c ops (init c) (init_inv c)). Qed.

Lemma set_add_exact (responses : N -> bytes) c s name :
  tbl_inv (s_tbl s) ->
  forall k, enc_name name = Good k ->
  (forall vals vs, enc_values vals = Good vs ->
     let s' := fst (step responses c s (SetRaw name vals)) in
     tbl_get k (s_tbl s') = vs /\ forall k', beq k' k = false -> tbl_get k' (s_tbl s') = tbl_get k' (s_tbl s)) /\
  (forall val v, enc_value val = Good v ->
     let s' := fst (step responses c s (AddRaw name val)) in
     tbl_get k (s_tbl s') = tbl_get k (s_tbl s) ++ [san v] /\
     forall k', beq k' k = false -> tbl_get k' (s_tbl s') = tbl_get k' (s_tbl s)).
Proof.
  intros Hinv k En. split.
  - intros vals vs Ev. exact (set_then_get responses c s name vals k vs Hinv En Ev).
  - intros val v Ev. exact (add_then_get responses c s name val k v Hinv En Ev).
Qed.

Lemma sanitisation_all :
  (forall v, no_crlf (san v) = true) /\
  (forall v, forallb (fun c => negb (is_crlf_byte c) && negb (c =? 59)) (csan v) = true) /\
  (forall ck b, cookie_bytes ck = Good b -> no_crlf b = true) /\
  (forall v, san (san v) = san v).
Proof.
  repeat split; [exact san_no_crlf|exact csan_clean| |exact san_idem].
  intros ck b H. pose proof (cookie_bytes_clean ck) as C. rewrite H in C. exact C.
Qed.

(** ---------- the structure of a cookie: name=value and well-formed attributes only ---------- *)

Definition clean_byte (c : N) : bool := negb (is_crlf_byte c) && negb (c =? 59).
Definition clean (p : bytes) : Prop := forallb clean_byte p = true.

Lemma clean_app a b : clean a -> clean b -> clean (a ++ b).
Proof. unfold clean. intros A B. rewrite forallb_app, A, B. reflexivity. Qed.

Lemma clean_csan v : clean (csan v).
Proof. exact (csan_clean v). Qed.

Lemma attr_form_clean p : attr_form p -> clean p.
Proof.
  intros [(label & x & Hl & ->)|[->|[->|[->| ->]]]]; try reflexivity.
  apply clean_app; [|apply clean_csan]. cbn in Hl. destruct Hl as [<-|[<-|[<-|[<-|[<-|[]]]]]]; reflexivity.
Qed.

Definition cookie_ok (k v b : bytes) : Prop :=
  exists attrs, b = glue (csan k ++ [61] ++ csan v) attrs /\ Forall attr_form attrs.

Definition res_ok (k v : bytes) (r : res bytes) : Prop := match r with Good b => cookie_ok k v b | Bad _ => True end.

Lemma glue_snoc first attrs p : glue first attrs ++ 59 :: 32 :: p = glue first (attrs ++ [p]).
Proof. unfold glue. rewrite flat_map_app, <- app_assoc. cbn. rewrite app_nil_r. reflexivity. Qed.

Lemma cookie_ok_snoc k v acc p : cookie_ok k v acc -> attr_form p -> cookie_ok k v (acc ++ 59 :: 32 :: p).
Proof.
  intros (attrs & -> & Ha) Hp. exists (attrs ++ [p]). split; [apply glue_snoc|]. apply Forall_app. split; [exact Ha|constructor; [exact Hp|constructor]].
Qed.

Lemma opt_attr_ok k v label' label o kont acc : label = 59 :: 32 :: label' -> In label' attr_labels ->
  (forall a, cookie_ok k v a -> res_ok k v (kont a)) -> cookie_ok k v acc -> res_ok k v (opt_attr label o kont acc).
Proof.
  intros -> Hl Hk Ha. unfold opt_attr. destruct o as [t|]; [|apply Hk, Ha].
  destruct (enc_value t) as [b|]; [|exact I]. apply Hk.
  change (acc ++ (59 :: 32 :: label') ++ csan b) with (acc ++ 59 :: 32 :: (label' ++ csan b)).
  apply cookie_ok_snoc; [exact Ha|]. left. exists label', b. auto.
Qed.

Lemma cookie_structure ck :
  match enc_value (ck_k ck), enc_value (ck_v ck) with
  | Good k, Good v => res_ok k v (cookie_bytes ck)
  | _, _ => True
  end.
Proof.
  unfold cookie_bytes. destruct (enc_value (ck_k ck)) as [k|]; [|exact I]. destruct (enc_value (ck_v ck)) as [v|]; [|exact I].
  assert (H0 : cookie_ok k v (csan k ++ [61] ++ csan v)).
  { exists []. split; [unfold glue; cbn; rewrite app_nil_r; reflexivity|constructor]. }
  eapply (opt_attr_ok k v (skipn 2 A_EXPIRES)); [reflexivity|cbn; auto| |exact H0].
  intros a1 H1. eapply (opt_attr_ok k v (skipn 2 A_DOMAIN)); [reflexivity|cbn; auto| |exact H1].
  intros a2 H2. eapply (opt_attr_ok k v (skipn 2 A_PATH)); [reflexivity|cbn; auto| |exact H2].
  intros a3 H3. eapply (opt_attr_ok k v (skipn 2 A_MAXAGE)); [reflexivity|cbn; auto 6| |exact H3].
  intros a4 H4. eapply (opt_attr_ok k v (skipn 2 A_COMMENT)); [reflexivity|cbn; auto 7| |exact H4].
  intros a5 H5.
  assert (H6 : cookie_ok k v (if ck_secure ck then a5 ++ A_SECURE else a5)).
  { destruct (ck_secure ck); [|exact H5]. apply (cookie_ok_snoc k v a5 (skipn 2 A_SECURE) H5). right. left. reflexivity. }
  set (a6 := if ck_secure ck then a5 ++ A_SECURE else a5) in *.
  assert (H7 : cookie_ok k v (if ck_httpOnly ck then a6 ++ A_HTTPONLY else a6)).
  { destruct (ck_httpOnly ck); [|exact H6]. apply (cookie_ok_snoc k v a6 (skipn 2 A_HTTPONLY) H6). right. right. left. reflexivity. }
  set (a7 := if ck_httpOnly ck then a6 ++ A_HTTPONLY else a6) in *.
  cbv zeta. fold a6. fold a7.
  destruct (ck_sameSite ck) as [t|]; [|exact H7]. destruct (enc_value t) as [b|]; [|exact I].
  destruct b as [|x b']; [exact H7|].
  destruct (beq (map lower (x :: b')) w_lax || beq (map lower (x :: b')) w_strict) eqn:E; [|exact I].
  cbn [res_ok]. apply orb_true_iff in E as [E|E]; apply beq_eq in E; rewrite E.
  - apply (cookie_ok_snoc k v a7 (skipn 2 A_SAMESITE ++ w_lax) H7). right. right. right. left. reflexivity.
  - apply (cookie_ok_snoc k v a7 (skipn 2 A_SAMESITE ++ w_strict) H7). right. right. right. right. reflexivity.
Qed.

Lemma split_semi_clean p : clean p -> split_semi p = [p].
Proof.
  unfold clean. induction p as [|c p IH]; [reflexivity|]. cbn [forallb split_semi]. intro H. apply andb_true_iff in H as [Hc Hp].
  unfold clean_byte in Hc. apply andb_true_iff in Hc as [_ Hc]. apply negb_true_iff in Hc. rewrite Hc, (IH Hp). reflexivity.
Qed.

Lemma split_semi_clean_app p r : clean p -> split_semi (p ++ 59 :: r) = p :: split_semi r.
Proof.
  unfold clean. induction p as [|c p IH]; [reflexivity|]. cbn [forallb split_semi app]. intro H. apply andb_true_iff in H as [Hc Hp].
  unfold clean_byte in Hc. apply andb_true_iff in Hc as [_ Hc]. apply negb_true_iff in Hc. rewrite Hc, (IH Hp). reflexivity.
Qed.

Lemma split_glue first attrs : clean first -> Forall clean attrs -> split_semi (glue first attrs) = first :: map (cons 32) attrs.
Proof.
  unfold glue. intros Hf Ha. revert first Hf. induction Ha as [|p attrs Hp _ IH]; intros first Hf.
  - cbn. rewrite app_nil_r. apply split_semi_clean, Hf.
  - cbn [flat_map map app]. rewrite split_semi_clean_app by exact Hf. f_equal.
    change (32 :: p ++ flat_map (fun p0 => 59 :: 32 :: p0) attrs) with ((32 :: p) ++ flat_map (fun p0 => 59 :: 32 :: p0) attrs).
    apply IH. unfold clean in *. cbn [forallb]. rewrite Hp. reflexivity.
Qed.

(** assembled: what a recipient that splits an accepted cookie at ";" sees *)
Lemma cookie_attributes_exact ck k v b :
  enc_value (ck_k ck) = Good k -> enc_value (ck_v ck) = Good v -> cookie_bytes ck = Good b ->
  exists attrs, Forall attr_form attrs /\ b = glue (csan k ++ [61] ++ csan v) attrs /\
                split_semi b = (csan k ++ [61] ++ csan v) :: map (cons 32) attrs.
Proof.
  intros Hk Hv Hb. pose proof (cookie_structure ck) as H. rewrite Hk, Hv, Hb in H. destruct H as (attrs & -> & Ha).
  exists attrs. split; [exact Ha|]. split; [reflexivity|]. apply split_glue.
  - apply clean_app; [apply clean_csan|]. apply clean_app; [reflexivity|apply clean_csan].
  - eapply Forall_impl; [|exact Ha]. intros p. apply attr_form_clean.
Qed.
