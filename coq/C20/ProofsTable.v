(** C20 proofs, part 2: the header table.  Keys are canonical tokens (so a framing header cannot hide under
    another capitalisation), keys are unique, values never contain CR / LF — for every sequence of API calls. *)
From Coq Require Import List NArith ZArith Bool Lia ZifyBool Arith.
From TwLib Require Import HttpRespBytes.
From C20 Require Import Model ProofsParse.
Import ListNotations.
Local Open Scope N_scope.

(** ---------- canonical names ---------- *)

Lemma cap_go_lower l : forall b, cap_go b (map lower l) = cap_go b l.
Proof.
  induction l as [|c r IH]; intro b; [reflexivity|]. cbn [map cap_go].
  rewrite IH, upper_lower, lower_lower. f_equal.
  assert ((lower c =? 45) = (c =? 45)) as -> by (unfold lower; case_ifs; lia). reflexivity.
Qed.

Lemma lower_cap_go l : forall b, map lower (cap_go b l) = map lower l.
Proof.
  induction l as [|c r IH]; intro b; [reflexivity|]. cbn [map cap_go]. rewrite IH.
  destruct b; [rewrite lower_upper|rewrite lower_lower]; reflexivity.
Qed.

Lemma tchar_upper c : is_tchar c = true -> is_tchar (upper c) = true.
Proof. unfold is_tchar, is_alpha, is_digit, upper. cbn [existsb]. case_ifs; lia. Qed.
Lemma tchar_lower c : is_tchar c = true -> is_tchar (lower c) = true.
Proof. unfold is_tchar, is_alpha, is_digit, lower. cbn [existsb]. case_ifs; lia. Qed.

Lemma cap_go_tchars l : forall b, forallb is_tchar l = true -> forallb is_tchar (cap_go b l) = true.
Proof.
  induction l as [|c r IH]; intros b H; [reflexivity|]. cbn [forallb cap_go] in *.
  apply andb_true_iff in H as [Hc Hr]. rewrite (IH _ Hr).
  destruct b; [rewrite tchar_upper|rewrite tchar_lower]; auto.
Qed.

Lemma cap_go_token l : is_token l = true -> is_token (cap_go true l) = true.
Proof.
  destruct l as [|c r]; [discriminate|]. intro H. change (forallb is_tchar (cap_go true (c :: r)) = true).
  apply cap_go_tchars. exact H.
Qed.

(** the special-capitalisation table only changes case, and maps tokens to tokens *)
Lemma special_lower k : map lower (assoc_default k special_names) = map lower k.
Proof.
  unfold special_names, assoc_default.
  repeat match goal with
         | |- context [if beq k ?a then _ else _] =>
             let E := fresh "E" in destruct (beq k a) eqn:E; [apply beq_eq in E; subst k; reflexivity|]
         end.
  reflexivity.
Qed.

Lemma special_token k : is_token k = true -> is_token (assoc_default k special_names) = true.
Proof.
  intro H. unfold special_names, assoc_default.
  repeat match goal with
         | |- context [if beq k ?a then _ else _] => destruct (beq k a); [reflexivity|]
         end.
  exact H.
Qed.

Definition key_ok (k : bytes) : Prop :=
  is_token k = true /\ (map lower k = cl_lname -> k = CL_NAME) /\ (map lower k = te_lname -> k = TE_NAME).

Lemma canon_key_ok n : is_token n = true -> key_ok (canon n).
Proof.
  intro H. unfold key_ok, canon. split; [apply special_token, cap_go_token, H|].
  rewrite special_lower, lower_cap_go.
  split; intro E; rewrite <- (cap_go_lower n), E; reflexivity.
Qed.

Lemma enc_name_key_ok t k : enc_name t = Good k -> key_ok k.
Proof.
  destruct t as [b|s]; cbn [enc_name].
  - destruct (is_token b) eqn:E; [|discriminate]. intro H; inversion H. apply canon_key_ok, E.
  - destruct (forallb _ s); [|discriminate]. destruct (is_token s) eqn:E; [|discriminate].
    intro H; inversion H. apply canon_key_ok, E.
Qed.

Lemma key_ok_TE : key_ok TE_NAME.
Proof. repeat split; intro H; try reflexivity; discriminate H. Qed.
Lemma key_ok_SC : key_ok SC_NAME.
Proof. repeat split; intro H; discriminate H. Qed.
Lemma key_ok_CONN : key_ok CONN_NAME.
Proof. repeat split; intro H; discriminate H. Qed.

(** ---------- the table ---------- *)

Fixpoint tbl_upd (f : list bytes -> list bytes) (k : bytes) (t : table) : table :=
  match t with
  | [] => [(k, f [])]
  | (k', vs') :: r => if beq k k' then (k', f vs') :: r else (k', vs') :: tbl_upd f k r
  end.

Lemma tbl_set_upd k vs t : tbl_set k vs t = tbl_upd (fun _ => vs) k t.
Proof. induction t as [|[k' vs'] r IH]; cbn; [reflexivity|]. rewrite IH. reflexivity. Qed.
Lemma tbl_add_upd k v t : tbl_add k v t = tbl_upd (fun old => old ++ v) k t.
Proof. induction t as [|[k' vs'] r IH]; cbn; [reflexivity|]. rewrite IH. reflexivity. Qed.

Definition vals_ok (vs : list bytes) : Prop := Forall (fun v => no_crlf v = true) vs.
Definition entry_ok (e : bytes * list bytes) : Prop := key_ok (fst e) /\ vals_ok (snd e).
Definition tbl_inv (t : table) : Prop := NoDup (map fst t) /\ Forall entry_ok t.

Lemma beq_false_neq a b : beq a b = false -> a <> b.
Proof. intros H E. subst. rewrite beq_refl in H. discriminate. Qed.

Lemma upd_keys_in f k t x : In x (map fst (tbl_upd f k t)) -> x = k \/ In x (map fst t).
Proof.
  induction t as [|[k' vs'] r IH]; cbn.
  - intros [H|[]]; auto.
  - destruct (beq k k') eqn:E; cbn; intros [H|H]; auto. destruct (IH H); auto.
Qed.

Lemma upd_inv f k t : key_ok k -> (forall old, vals_ok old -> vals_ok (f old)) -> tbl_inv t -> tbl_inv (tbl_upd f k t).
Proof.
  intros Hk Hf [Hn Ha]. induction t as [|[k' vs'] r IH].
  - split; cbn; [constructor; [intros []|constructor]|]. constructor; [|constructor].
    split; [exact Hk|apply Hf; constructor].
  - cbn [tbl_upd]. inversion Hn as [|? ? Hni Hn']; subst. inversion Ha as [|? ? He Ha']; subst.
    destruct (beq k k') eqn:E.
    + split; [exact Hn|]. constructor; [|exact Ha']. destruct He as [He1 He2]. split; [exact He1|apply Hf, He2].
    + destruct (IH Hn' Ha') as [IH1 IH2]. split.
      * cbn. constructor; [|exact IH1]. intro Hin. apply upd_keys_in in Hin as [->|Hin]; [|contradiction].
        rewrite beq_refl in E. discriminate.
      * constructor; assumption.
Qed.

Lemma get_notin k t : ~ In k (map fst t) -> tbl_get k t = [].
Proof.
  induction t as [|[k' vs'] r IH]; cbn; [reflexivity|]. intro H. unfold tbl_get in *. cbn.
  destruct (beq k k') eqn:E; [apply beq_eq in E; subst; tauto|]. apply IH. tauto.
Qed.

Lemma get_upd_same f k t : NoDup (map fst t) -> tbl_get k (tbl_upd f k t) = f (tbl_get k t).
Proof.
  induction t as [|[k' vs'] r IH]; intro Hn.
  - unfold tbl_get. cbn. rewrite beq_refl, app_nil_r. reflexivity.
  - inversion Hn as [|? ? Hni Hn']; subst. cbn [tbl_upd]. destruct (beq k k') eqn:E.
    + apply beq_eq in E; subst k'. unfold tbl_get. cbn. rewrite beq_refl.
      fold (tbl_get k r). rewrite (get_notin k r Hni), !app_nil_r. reflexivity.
    + unfold tbl_get in *. cbn. rewrite E. cbn. apply IH, Hn'.
Qed.

Lemma get_upd_other f k k' t : beq k' k = false -> tbl_get k' (tbl_upd f k t) = tbl_get k' t.
Proof.
  intro Hne. induction t as [|[k2 vs2] r IH]; unfold tbl_get in *; cbn.
  - rewrite Hne. reflexivity.
  - destruct (beq k k2) eqn:E; cbn.
    + apply beq_eq in E; subst k2. rewrite Hne. reflexivity.
    + rewrite IH. reflexivity.
Qed.

Lemma remove_inv k t : tbl_inv t -> tbl_inv (tbl_remove k t).
Proof.
  intros [Hn Ha]. unfold tbl_remove. split.
  - induction t as [|[k' vs'] r IH]; cbn; [constructor|]. inversion Hn; subst. inversion Ha; subst.
    destruct (negb (beq k k')); cbn; [constructor|]; auto.
    intro Hin. apply in_map_iff in Hin as [e [E1 E2]]. apply filter_In in E2 as [E2 _].
    apply H1. apply in_map_iff. exists e. auto.
  - apply Forall_forall. intros e He. apply filter_In in He as [He _]. rewrite Forall_forall in Ha. auto.
Qed.

(** ---------- what the parser finds in the serialised table ---------- *)

Lemma wire_lines_ok t : Forall entry_ok t -> Forall line_ok (wire_lines t).
Proof.
  induction 1 as [|[k vs] r [[Hk _] Hv] _ IH]; [constructor|]. unfold wire_lines in *. cbn [flat_map fst snd] in *.
  apply Forall_app. split; [|exact IH]. clear IH. induction Hv; constructor; auto. split; assumption.
Qed.

Lemma field_values_wire lname NAME t :
  map lower NAME = lname ->
  Forall (fun e => map lower (fst e) = lname -> fst e = NAME) t ->
  field_values lname (map trimv (wire_lines t)) = map trim_ows (tbl_get NAME t).
Proof.
  intros HN. induction 1 as [|[k vs] r Hk _ IH]; [reflexivity|].
  unfold wire_lines, field_values, tbl_get in *. cbn [flat_map fst snd] in *.
  rewrite map_app, flat_map_app, IH, map_app. f_equal. clear IH.
  assert (beq (map lower k) lname = beq NAME k) as E.
  { destruct (beq NAME k) eqn:E1.
    - apply beq_eq in E1; subst k. rewrite HN. apply beq_refl.
    - destruct (beq (map lower k) lname) eqn:E2; [|reflexivity]. apply beq_eq in E2.
      rewrite (Hk E2), beq_refl in E1. discriminate. }
  induction vs as [|v vs IHv]; cbn [map flat_map fst snd trimv].
  - destruct (beq NAME k); reflexivity.
  - rewrite E in *. destruct (beq NAME k); cbn [app map] in *; [rewrite IHv|]; auto.
Qed.

Lemma cl_values t : Forall entry_ok t -> field_values cl_lname (map trimv (wire_lines t)) = map trim_ows (tbl_get CL_NAME t).
Proof.
  intro H. apply field_values_wire; [reflexivity|]. eapply Forall_impl; [|exact H]. intros e [[_ [Hc _]] _]. exact Hc.
Qed.
Lemma te_values t : Forall entry_ok t -> field_values te_lname (map trimv (wire_lines t)) = map trim_ows (tbl_get TE_NAME t).
Proof.
  intro H. apply field_values_wire; [reflexivity|]. eapply Forall_impl; [|exact H]. intros e [[_ [_ Hc]] _]. exact Hc.
Qed.
