(** C45, second half: jelly then unjelly of an object graph (sharing and cycles).

    Source side: a heap of mutable / identity-carrying objects (lists, tuples, dicts, instances with their
    attribute dict) whose slots hold atoms, None or references to other heap objects.

    [jel] is _Jellier.jelly for this fragment: a depth-first walk that remembers every object it has started
    (`preserved`); meeting such an object again "cooks" it (assigns the next reference number, in order of first
    re-visit) and emits a dereference; [post] then wraps the first occurrence of every cooked object in
    [reference n ...] — the functional reading of the in-place list surgery of _cook / preserve.

    [unj] is _Unjellier for the resulting s-expressions with the machinery of twisted.persisted.crefutil:
    the `references` table, _Dereference placeholders created when an object is dereferenced before its
    [reference] has completed, NotKnown.resolveDependants patching exactly the slots that registered themselves
    (addDependant), _Tuple placeholders for tuples built while one of their items is still unknown, and the two
    quirks that make cycles through tuples fail: resolveDependants stores a placeholder it is handed without
    registering the slot with that placeholder, and the references table keeps a resolved placeholder. *)
From Coq Require Import List NArith Arith Bool.
Import ListNotations.

Inductive ref := RAtom (a : N) | RNone | RNode (i : nat).
Inductive kind := KList | KTuple | KDict | KInst (c : N).
(** slots: (key, value); the key is 0 for list / tuple items *)
Definition node := (kind * list (N * ref))%type.
Definition heap := list node.

Definition kind_eqb (a b : kind) : bool :=
  match a, b with
  | KList, KList | KTuple, KTuple | KDict, KDict => true
  | KInst c, KInst d => N.eqb c d
  | _, _ => false
  end.

Fixpoint mem (v : nat) (l : list nat) : bool :=
  match l with [] => false | x :: r => Nat.eqb v x || mem v r end.
Fixpoint index_of (v : nat) (l : list nat) : nat :=
  match l with [] => O | x :: r => if Nat.eqb v x then O else S (index_of v r) end.
Definition add_once (v : nat) (l : list nat) : list nat := if mem v l then l else l ++ [v].

(** ---- jelly: first pass ---- *)
Inductive psexp :=
| PAtom (a : N) | PNone
| PBack (v : nat)                       (* object met again *)
| PMark (v : nat) (k : kind) (kids : pkids)   (* first visit *)
with pkids := PNil | PCons (key : N) (s : psexp) (r : pkids).

(** [V] objects started so far in order of first visit; [K] cooked objects in order of cooking *)
Fixpoint jel (fuel : nat) (h : heap) (V K : list nat) (r : ref) : option (list nat * list nat * psexp) :=
  match fuel with
  | O => None
  | S f =>
    match r with
    | RAtom a => Some (V, K, PAtom a)
    | RNone => Some (V, K, PNone)
    | RNode v =>
        if mem v V then Some (V, add_once v K, PBack v)
        else match nth_error h v with
             | None => None
             | Some (k, kids) =>
                 match jel_kids f h (V ++ [v]) K kids with
                 | Some (V', K', ps) => Some (V', K', PMark v k ps)
                 | None => None
                 end
             end
    end
  end
with jel_kids (fuel : nat) (h : heap) (V K : list nat) (kids : list (N * ref)) : option (list nat * list nat * pkids) :=
  match fuel with
  | O => None
  | S f =>
    match kids with
    | [] => Some (V, K, PNil)
    | (key, r) :: rest =>
        match jel f h V K r with
        | None => None
        | Some (V1, K1, s) =>
            match jel_kids f h V1 K1 rest with
            | None => None
            | Some (V2, K2, ps) => Some (V2, K2, PCons key s ps)
            end
        end
    end
  end.

(** ---- jelly: the wire s-expression ---- *)
Inductive fsexp :=
| FAtom (a : N) | FNone
| FDeref (r : nat)
| FRef (r : nat) (b : fsexp)
| FNode (k : kind) (kids : fkids)
with fkids := FNil | FCons (key : N) (s : fsexp) (r : fkids).

Definition rid (K : list nat) (v : nat) : nat := S (index_of v K).

Fixpoint post (K : list nat) (s : psexp) : fsexp :=
  match s with
  | PAtom a => FAtom a
  | PNone => FNone
  | PBack v => FDeref (rid K v)
  | PMark v k kids =>
      let b := FNode k (post_kids K kids) in
      if mem v K then FRef (rid K v) b else b
  end
with post_kids (K : list nat) (l : pkids) : fkids :=
  match l with PNil => FNil | PCons key s r => FCons key (post K s) (post_kids K r) end.

Definition jelly (fuel : nat) (h : heap) (root : ref) : option fsexp :=
  match jel fuel h [] [] root with
  | Some (_, K, t) => Some (post K t)
  | None => None
  end.

(** ---- unjelly ---- *)
(** placeholders (crefutil.NotKnown): a _Dereference is identified by its reference number (there is at most
    one per number), a _Tuple by a counter *)
Inductive pid := PD (r : nat) | PT (k : nat).
Definition pid_eqb (a b : pid) : bool :=
  match a, b with PD x, PD y | PT x, PT y => Nat.eqb x y | _, _ => false end.

(** [TPend p reg]: the slot holds placeholder p; reg = the slot registered itself with p (addDependant) *)
Inductive tref := TAtom (a : N) | TNone | TNode (i : nat) | TPend (p : pid) (reg : bool).
Definition tnode := (kind * list (N * tref))%type.

Record ust := Ust {
  uh : list tnode;                      (* objects built so far, by allocation order *)
  ud : list nat;                        (* reference numbers whose _Dereference has been resolved *)
  ut : list (list (N * tref) * bool);   (* _Tuple placeholders: items, resolved? *)
  ur : list (nat * tref)                (* the `references` table *)
}.
Definition ust0 : ust := Ust [] [] [] [].

Inductive res (A : Type) := ROk (x : A) | RAssert.
Arguments ROk {A} x.
Arguments RAssert {A}.

Fixpoint lookup (r : nat) (l : list (nat * tref)) : option tref :=
  match l with [] => None | (x, t) :: rest => if Nat.eqb r x then Some t else lookup r rest end.

Definition is_pend (t : tref) : bool := match t with TPend _ _ => true | _ => false end.
Definition resolved (st : ust) (p : pid) : bool :=
  match p with
  | PD r => mem r (ud st)
  | PT k => match nth_error (ut st) k with Some (_, b) => b | None => false end
  end.

(** storing a value into a container slot: a placeholder gets the slot as dependant — which asserts if the
    placeholder has already been resolved (NotKnown.addDependant) *)
Definition store (st : ust) (t : tref) : res tref :=
  match t with
  | TPend p _ => if resolved st p then RAssert else ROk (TPend p true)
  | _ => ROk t
  end.

(** what resolveDependants writes into a registered slot: the new object; if that is itself a placeholder the
    slot is NOT registered with it *)
Definition written (o : tref) : tref := match o with TPend q _ => TPend q false | _ => o end.
Definition patch (p : pid) (o : tref) (t : tref) : tref :=
  match t with
  | TPend q true => if pid_eqb p q then written o else t
  | _ => t
  end.
Definition patch_slots (p : pid) (o : tref) (l : list (N * tref)) : list (N * tref) :=
  map (fun kv => (fst kv, patch p o (snd kv))) l.

Fixpoint set_done (k : nat) (l : list (list (N * tref) * bool)) : list (list (N * tref) * bool) :=
  match l, k with
  | [], _ => []
  | (s, _) :: r, O => (s, true) :: r
  | x :: r, S k' => x :: set_done k' r
  end.
Definition mark_resolved (p : pid) (st : ust) : ust :=
  match p with
  | PD r => Ust (uh st) (r :: ud st) (ut st) (ur st)
  | PT k => Ust (uh st) (ud st) (set_done k (ut st)) (ur st)
  end.

Definition patch_all (p : pid) (o : tref) (st : ust) : ust :=
  Ust (map (fun n => (fst n, patch_slots p o (snd n))) (uh st)) (ud st)
      (map (fun x => (patch_slots p o (fst x), snd x)) (ut st)) (ur st).

(** first _Tuple placeholder that is unresolved and has no unknown item left *)
Fixpoint ready_tuple (l : list (list (N * tref) * bool)) (k : nat) : option (nat * list (N * tref)) :=
  match l with
  | [] => None
  | (slots, done) :: r =>
      if negb done && negb (existsb (fun kv => is_pend (snd kv)) slots) then Some (k, slots)
      else ready_tuple r (S k)
  end.

(** NotKnown.resolveDependants(p, o), followed by the completion of every _Tuple this unblocks *)
Fixpoint resolve (fuel : nat) (p : pid) (o : tref) (st : ust) : ust :=
  let st1 := patch_all p o (mark_resolved p st) in
  match fuel with
  | O => st1
  | S f =>
      match ready_tuple (ut st1) 0 with
      | None => st1
      | Some (k, slots) =>
          let i := length (uh st1) in
          resolve f (PT k) (TNode i) (Ust (uh st1 ++ [(KTuple, slots)]) (ud st1) (ut st1) (ur st1))
      end
  end.

Fixpoint set_node (i : nat) (n : tnode) (l : list tnode) : list tnode :=
  match l, i with
  | [], _ => []
  | _ :: r, O => n :: r
  | x :: r, S i' => x :: set_node i' n r
  end.

Fixpoint unj (s : fsexp) (st : ust) : res (ust * tref) :=
  match s with
  | FAtom a => ROk (st, TAtom a)
  | FNone => ROk (st, TNone)
  | FDeref r =>
      match lookup r (ur st) with
      | Some t => ROk (st, t)
      | None => ROk (Ust (uh st) (ud st) (ut st) ((r, TPend (PD r) true) :: ur st), TPend (PD r) true)
      end
  | FRef r b =>
      match unj b st with
      | RAssert => RAssert
      | ROk (st1, o) =>
          match lookup r (ur st1) with
          | None => ROk (Ust (uh st1) (ud st1) (ut st1) ((r, o) :: ur st1), o)
          | Some (TPend p _) =>
              let st2 := resolve (length (ut st1)) p o st1 in
              ROk (Ust (uh st2) (ud st2) (ut st2) ((r, o) :: ur st2), o)
          | Some _ => RAssert                      (* "Multiple references with same ID!" *)
          end
      end
  | FNode k kids =>
      let i := length (uh st) in
      match unj_kids kids (Ust (uh st ++ [(k, [])]) (ud st) (ut st) (ur st)) with
      | RAssert => RAssert
      | ROk (st1, slots) =>
          match k with
          | KTuple =>
              if existsb (fun kv => is_pend (snd kv)) slots
              then ROk (Ust (uh st1) (ud st1) (ut st1 ++ [(slots, false)]) (ur st1), TPend (PT (length (ut st1))) true)
              else ROk (Ust (set_node i (k, slots) (uh st1)) (ud st1) (ut st1) (ur st1), TNode i)
          | _ => ROk (Ust (set_node i (k, slots) (uh st1)) (ud st1) (ut st1) (ur st1), TNode i)
          end
      end
  end
with unj_kids (l : fkids) (st : ust) : res (ust * list (N * tref)) :=
  match l with
  | FNil => ROk (st, [])
  | FCons key s r =>
      match unj s st with
      | RAssert => RAssert
      | ROk (st1, t) =>
          match store st1 t with
          | RAssert => RAssert
          | ROk t' =>
              match unj_kids r st1 with
              | RAssert => RAssert
              | ROk (st2, rest) => ROk (st2, (key, t') :: rest)
              end
          end
      end
  end.

(** ---- the statement's vocabulary ---- *)
(** the source object with number v is the target object with number [index_of v V] *)
Definition ren (V : list nat) (r : ref) : tref :=
  match r with RAtom a => TAtom a | RNone => TNone | RNode w => TNode (index_of w V) end.
Definition ren_node (V : list nat) (n : node) : tnode :=
  (fst n, map (fun kv => (fst kv, ren V (snd kv))) (snd n)).

Inductive reach (h : heap) : nat -> nat -> Prop :=
| reach_refl : forall a, reach h a a
| reach_step : forall a k kids key b c,
    nth_error h a = Some (k, kids) -> In (key, RNode b) kids -> reach h b c -> reach h a c.

(** no tuple lies on a cycle *)
Definition tuples_acyclic (h : heap) : Prop :=
  forall t kids key c, nth_error h t = Some (KTuple, kids) -> In (key, RNode c) kids -> ~ reach h c t.
