(** C45 graph round trip: the invariant linking the jelly walk and the unjelly state, and its transitions. *)
From Coq Require Import List NArith Arith Bool Lia.
From C45 Require Import Graph GraphLemmas.
Import ListNotations.

(** what a slot pointing at source object w holds on the unjelly side while the objects in P are still being
    built: a registered _Dereference placeholder for those, the finished target object otherwise *)
Definition renP (Kf V P : list nat) (r : ref) : tref :=
  match r with
  | RAtom a => TAtom a
  | RNone => TNone
  | RNode w => if mem w P then TPend (PD (rid Kf w)) true else TNode (index_of w V)
  end.
Definition tslots (Kf V P : list nat) (kids : list (N * ref)) : list (N * tref) :=
  map (fun kv => (fst kv, renP Kf V P (snd kv))) kids.

Definition pending_bound (Kf : list nat) (st : ust) (w : nat) : Prop :=
  In w Kf /\ lookup (rid Kf w) (ur st) = Some (TPend (PD (rid Kf w)) true).

Definition kid_ok (Kf V P : list nat) (st : ust) (kids : list (N * ref)) : Prop :=
  forall key w, In (key, RNode w) kids -> In w V /\ (In w P -> pending_bound Kf st w).

Record GI (h : heap) (Kf V P : list nat) (st : ust) : Prop := {
  g_len : length (uh st) = length V;
  g_nodup : NoDup V;
  g_P : forall w, In w P -> In w V;
  g_ut : ut st = [];
  g_done : forall i v, nth_error V i = Some v -> ~ In v P ->
     exists k kids, nth_error h v = Some (k, kids) /\ nth_error (uh st) i = Some (k, tslots Kf V P kids)
                    /\ kid_ok Kf V P st kids;
  g_prog : forall i v, nth_error V i = Some v -> In v P -> exists k, nth_error (uh st) i = Some (k, []);
  g_refs_done : forall w, In w V -> ~ In w P -> In w Kf -> lookup (rid Kf w) (ur st) = Some (TNode (index_of w V));
  g_refs_prog : forall w, In w P -> In w Kf ->
     lookup (rid Kf w) (ur st) = None \/ lookup (rid Kf w) (ur st) = Some (TPend (PD (rid Kf w)) true);
  g_refs_new : forall w, ~ In w V -> In w Kf -> lookup (rid Kf w) (ur st) = None;
  g_ud : forall r, In r (ud st) -> exists w, In w V /\ ~ In w P /\ In w Kf /\ r = rid Kf w
}.

Lemma GI_empty : forall h Kf, GI h Kf [] [] ust0.
Proof.
  intros h Kf. constructor; cbn; try reflexivity; try (intros; contradiction); try constructor;
    try (intros i v H; destruct i; discriminate).
Qed.

Lemma lookup_bind : forall Kf w v x l, In w Kf -> In v Kf -> w <> v ->
  lookup (rid Kf w) ((rid Kf v, x) :: l) = lookup (rid Kf w) l.
Proof. intros Kf w v x l Hw Hv Hne. apply lookup_cons_ne. intros E. apply Hne. eapply rid_inj; eauto. Qed.

(** a dereference of an object that is still being built, met for the first time: the placeholder is created *)
Lemma GI_deref_new : forall h Kf V P st v,
  GI h Kf V P st -> In v P -> In v Kf ->
  GI h Kf V P (Ust (uh st) (ud st) (ut st) ((rid Kf v, TPend (PD (rid Kf v)) true) :: ur st)).
Proof.
  intros h Kf V P st v G HvP HvK.
  assert (Hpb : forall w, pending_bound Kf st w ->
            pending_bound Kf (Ust (uh st) (ud st) (ut st) ((rid Kf v, TPend (PD (rid Kf v)) true) :: ur st)) w).
  { intros w [HwK Hl]. split; [exact HwK|]. cbn [ur]. destruct (Nat.eq_dec w v) as [->|Hne].
    - apply lookup_cons_eq.
    - rewrite lookup_bind by assumption. exact Hl. }
  constructor; cbn [uh ud ut ur].
  - apply (g_len _ _ _ _ _ G).
  - apply (g_nodup _ _ _ _ _ G).
  - apply (g_P _ _ _ _ _ G).
  - apply (g_ut _ _ _ _ _ G).
  - intros i u Hi Hu. destruct (g_done _ _ _ _ _ G i u Hi Hu) as (k & kids & Hh & Hn & Hk).
    exists k, kids. split; [exact Hh|]. split; [exact Hn|].
    intros key w Hin. destruct (Hk key w Hin) as [HwV Hp]. split; [exact HwV|]. intros HwP. apply Hpb. auto.
  - apply (g_prog _ _ _ _ _ G).
  - intros w HwV HwP HwK. rewrite lookup_bind; auto.
    + apply (g_refs_done _ _ _ _ _ G); assumption.
    + intros ->. contradiction.
  - intros w HwP HwK. destruct (Nat.eq_dec w v) as [->|Hne].
    + right. apply lookup_cons_eq.
    + rewrite lookup_bind by assumption. apply (g_refs_prog _ _ _ _ _ G); assumption.
  - intros w HwV HwK. rewrite lookup_bind; auto.
    + apply (g_refs_new _ _ _ _ _ G); assumption.
    + intros ->. apply HwV. apply (g_P _ _ _ _ _ G). exact HvP.
  - apply (g_ud _ _ _ _ _ G).
Qed.

Lemma nth_error_snoc : forall {A} (l : list A) x i y,
  nth_error (l ++ [x]) i = Some y -> (i < length l /\ nth_error l i = Some y) \/ (i = length l /\ y = x).
Proof.
  intros A l x i y H. destruct (Nat.lt_ge_cases i (length l)) as [Hlt|Hge].
  - left. split; [exact Hlt|]. rewrite nth_error_app1 in H by exact Hlt. exact H.
  - right. rewrite nth_error_app2 in H by exact Hge. destruct (i - length l) as [|d] eqn:E.
    + cbn in H. injection H as <-. split; [lia|reflexivity].
    + cbn in H. destruct d; discriminate.
Qed.

Lemma renP_stable : forall Kf V P v X r,
  (forall w, r = RNode w -> In w V) -> ~ In v V ->
  renP Kf (V ++ X) (v :: P) r = renP Kf V P r.
Proof.
  intros Kf V P v X r Hin Hv. destruct r as [a| |w]; try reflexivity. cbn.
  pose proof (Hin w eq_refl) as HwV. destruct (Nat.eqb w v) eqn:E.
  - apply Nat.eqb_eq in E. subst. contradiction.
  - cbn. rewrite index_of_app_in by exact HwV. reflexivity.
Qed.

Lemma renP_grow : forall Kf V P X r,
  (forall w, r = RNode w -> In w V) -> renP Kf (V ++ X) P r = renP Kf V P r.
Proof.
  intros Kf V P X r Hin. destruct r as [a| |w]; try reflexivity. cbn.
  rewrite index_of_app_in by (apply Hin; reflexivity). reflexivity.
Qed.

Lemma tslots_ext : forall Kf V P V' P' kids,
  (forall key r, In (key, r) kids -> renP Kf V' P' r = renP Kf V P r) ->
  tslots Kf V' P' kids = tslots Kf V P kids.
Proof.
  intros Kf V P V' P' kids H. unfold tslots. apply map_ext_in. intros [key r] Hin. cbn. f_equal. eapply H; exact Hin.
Qed.

Lemma NoDup_snoc : forall (l : list nat) v, NoDup l -> ~ In v l -> NoDup (l ++ [v]).
Proof.
  induction l as [|x r IH]; intros v Hnd Hv; cbn; [constructor; [intros []|constructor]|].
  inversion Hnd as [|? ? Hx Hr]; subst. constructor.
  - intros H. apply in_app_or in H. destruct H as [H|[<-|[]]]; [contradiction|]. apply Hv. left. reflexivity.
  - apply IH; [exact Hr|]. intros H. apply Hv. right. exact H.
Qed.

(** starting a new object: it is allocated (empty) and goes on the stack *)
Lemma GI_alloc : forall h Kf V P st v k kids,
  GI h Kf V P st -> ~ In v V -> nth_error h v = Some (k, kids) ->
  GI h Kf (V ++ [v]) (v :: P) (Ust (uh st ++ [(k, [])]) (ud st) (ut st) (ur st)).
Proof.
  intros h Kf V P st v k kids G Hv Hh.
  constructor; cbn [uh ud ut ur].
  - rewrite !app_length. cbn. rewrite (g_len _ _ _ _ _ G). reflexivity.
  - apply NoDup_snoc; [apply (g_nodup _ _ _ _ _ G)|exact Hv].
  - intros w [<-|Hw]; apply in_or_app; [right; left; reflexivity|left; apply (g_P _ _ _ _ _ G); exact Hw].
  - apply (g_ut _ _ _ _ _ G).
  - intros i u Hi Hu. apply nth_error_snoc in Hi. destruct Hi as [[Hlt Hi]|[_ ->]]; [|exfalso; apply Hu; left; reflexivity].
    assert (HuP : ~ In u P) by (intros H; apply Hu; right; exact H).
    destruct (g_done _ _ _ _ _ G i u Hi HuP) as (k' & kids' & Hh' & Hn & Hk).
    exists k', kids'. split; [exact Hh'|]. split.
    + rewrite nth_error_app1 by (rewrite (g_len _ _ _ _ _ G); exact Hlt). rewrite Hn. f_equal. f_equal.
      symmetry. apply tslots_ext. intros key r Hin. apply renP_stable; [|exact Hv].
      intros w ->. apply (Hk key w Hin).
    + intros key w Hin. destruct (Hk key w Hin) as [HwV Hp]. split; [apply in_or_app; left; exact HwV|].
      intros [<-|HwP]; [contradiction|]. destruct (Hp HwP) as [HwK Hl]. split; assumption.
  - intros i u Hi Hu. apply nth_error_snoc in Hi. destruct Hi as [[Hlt Hi]|[-> ->]].
    + destruct Hu as [<-|HuP]; [exfalso; apply Hv; eapply nth_error_In; exact Hi|].
      destruct (g_prog _ _ _ _ _ G i u Hi HuP) as [k' Hn]. exists k'.
      rewrite nth_error_app1 by (rewrite (g_len _ _ _ _ _ G); exact Hlt). exact Hn.
    + exists k. rewrite nth_error_app2 by (rewrite (g_len _ _ _ _ _ G); lia).
      rewrite (g_len _ _ _ _ _ G), Nat.sub_diag. reflexivity.
  - intros w HwV HwP HwK. apply in_app_or in HwV. destruct HwV as [HwV|[<-|[]]]; [|exfalso; apply HwP; left; reflexivity].
    rewrite index_of_app_in by exact HwV. apply (g_refs_done _ _ _ _ _ G); auto. intros H; apply HwP; right; exact H.
  - intros w [<-|HwP] HwK.
    + left. apply (g_refs_new _ _ _ _ _ G); assumption.
    + apply (g_refs_prog _ _ _ _ _ G); assumption.
  - intros w HwV HwK. apply (g_refs_new _ _ _ _ _ G); [|exact HwK]. intros H; apply HwV; apply in_or_app; left; exact H.
  - intros r Hr. destruct (g_ud _ _ _ _ _ G r Hr) as (w & HwV & HwP & HwK & ->).
    exists w. split; [apply in_or_app; left; exact HwV|]. split; [|split; [exact HwK|reflexivity]].
    intros [<-|H]; contradiction.
Qed.

(** ---- finishing an object ---- *)
Definition map_slots (f : tref -> tref) (n : tnode) : tnode := (fst n, map (fun kv => (fst kv, f (snd kv))) (snd n)).

Lemma map_slots_id : forall l, map (map_slots (fun t => t)) l = l.
Proof.
  induction l as [|[k s] r IH]; [reflexivity|]. cbn. rewrite IH. f_equal. unfold map_slots. cbn. f_equal.
  induction s as [|[key t] s' IHs]; [reflexivity|]. cbn. rewrite IHs. reflexivity.
Qed.

Lemma tslots_map : forall Kf V P V' P' f kids,
  (forall key r, In (key, r) kids -> f (renP Kf V P r) = renP Kf V' P' r) ->
  map (fun kv => (fst kv, f (snd kv))) (tslots Kf V P kids) = tslots Kf V' P' kids.
Proof.
  intros Kf V P V' P' f kids H. unfold tslots. rewrite map_map. apply map_ext_in. intros [key r] Hin. cbn.
  f_equal. eapply H; exact Hin.
Qed.

Lemma GI_complete_gen : forall h Kf V' P st1 v i k kids f ud' ur',
  GI h Kf V' (v :: P) st1 -> nth_error V' i = Some v -> ~ In v P ->
  nth_error h v = Some (k, kids) -> kid_ok Kf V' (v :: P) st1 kids ->
  (forall r, (forall w, r = RNode w -> In w V' /\ (In w (v :: P) -> pending_bound Kf st1 w)) ->
             f (renP Kf V' (v :: P) r) = renP Kf V' P r) ->
  (forall r, In r ud' -> In r (ud st1) \/ (r = rid Kf v /\ In v Kf)) ->
  (forall w, In w Kf -> w <> v -> lookup (rid Kf w) ur' = lookup (rid Kf w) (ur st1)) ->
  (In v Kf -> lookup (rid Kf v) ur' = Some (TNode i)) ->
  GI h Kf V' P (Ust (map (map_slots f) (set_node i (k, tslots Kf V' (v :: P) kids) (uh st1))) ud' (ut st1) ur').
Proof.
  intros h Kf V' P st1 v i k kids f ud' ur' G Hi HvP Hh Hkids Hf Hud Hur Hurv.
  pose proof (g_nodup _ _ _ _ _ G) as Hnd.
  assert (Hidx : index_of v V' = i) by (apply nth_index_of; assumption).
  assert (HvV : In v V') by (eapply nth_error_In; exact Hi).
  assert (Hilt : i < length (uh st1)).
  { rewrite (g_len _ _ _ _ _ G). apply nth_error_Some. congruence. }
  (* pending bindings of objects still on the stack survive *)
  assert (Hpb : forall w, In w P -> pending_bound Kf st1 w ->
            pending_bound Kf (Ust (map (map_slots f) (set_node i (k, tslots Kf V' (v :: P) kids) (uh st1))) ud' (ut st1) ur') w).
  { intros w HwP [HwK Hl]. split; [exact HwK|]. cbn [ur]. rewrite Hur; [exact Hl|exact HwK|].
    intros ->. contradiction. }
  assert (Hkid : forall kids0, kid_ok Kf V' (v :: P) st1 kids0 ->
            kid_ok Kf V' P (Ust (map (map_slots f) (set_node i (k, tslots Kf V' (v :: P) kids) (uh st1))) ud' (ut st1) ur') kids0).
  { intros kids0 Hk key w Hin. destruct (Hk key w Hin) as [HwV Hp]. split; [exact HwV|].
    intros HwP. apply Hpb; [exact HwP|]. apply Hp. right. exact HwP. }
  assert (Hslots : forall kids0, kid_ok Kf V' (v :: P) st1 kids0 ->
            map (fun kv => (fst kv, f (snd kv))) (tslots Kf V' (v :: P) kids0) = tslots Kf V' P kids0).
  { intros kids0 Hk. apply tslots_map. intros key r Hin. apply Hf. intros w ->. apply (Hk key w Hin). }
  constructor; cbn [uh ud ut ur].
  - rewrite map_length, set_node_length. apply (g_len _ _ _ _ _ G).
  - exact Hnd.
  - intros w Hw. apply (g_P _ _ _ _ _ G). right. exact Hw.
  - apply (g_ut _ _ _ _ _ G).
  - intros j u Hj Hu. destruct (Nat.eq_dec u v) as [->|Hne].
    + assert (j = i) by (rewrite <- Hidx; symmetry; apply nth_index_of; assumption). subst j.
      exists k, kids. split; [exact Hh|]. split; [|apply Hkid; exact Hkids].
      rewrite nth_error_map, set_node_nth_same by exact Hilt. cbn. unfold map_slots. cbn.
      rewrite (Hslots kids Hkids). reflexivity.
    + assert (Hu' : ~ In u (v :: P)) by (intros [E|H]; [apply Hne; symmetry; exact E|contradiction]).
      destruct (g_done _ _ _ _ _ G j u Hj Hu') as (k' & kids' & Hh' & Hn & Hk).
      exists k', kids'. split; [exact Hh'|]. split; [|apply Hkid; exact Hk].
      assert (j <> i).
      { intros ->. rewrite Hi in Hj. injection Hj as E. apply Hne. symmetry. exact E. }
      rewrite nth_error_map, set_node_nth_other by assumption. rewrite Hn. cbn. unfold map_slots. cbn.
      rewrite (Hslots kids' Hk). reflexivity.
  - intros j u Hj Hu. assert (Hne : u <> v) by (intros ->; contradiction).
    destruct (g_prog _ _ _ _ _ G j u Hj (or_intror Hu)) as [k' Hn]. exists k'.
    assert (j <> i).
    { intros ->. rewrite Hi in Hj. injection Hj as E. apply Hne. symmetry. exact E. }
    rewrite nth_error_map, set_node_nth_other by assumption. rewrite Hn. reflexivity.
  - intros w HwV HwP HwK. destruct (Nat.eq_dec w v) as [->|Hne].
    + rewrite Hurv by exact HwK. rewrite Hidx. reflexivity.
    + rewrite Hur by assumption. apply (g_refs_done _ _ _ _ _ G); auto.
      intros [E|H]; [apply Hne; symmetry; exact E|contradiction].
  - intros w HwP HwK. assert (Hne : w <> v) by (intros ->; contradiction).
    rewrite Hur by assumption. apply (g_refs_prog _ _ _ _ _ G); [right; exact HwP|exact HwK].
  - intros w HwV HwK. assert (Hne : w <> v) by (intros ->; contradiction).
    rewrite Hur by assumption. apply (g_refs_new _ _ _ _ _ G); assumption.
  - intros r Hr. destruct (Hud r Hr) as [Hr'|[-> HvK]].
    + destruct (g_ud _ _ _ _ _ G r Hr') as (w & HwV & HwP & HwK & ->). exists w.
      split; [exact HwV|]. split; [intros H; apply HwP; right; exact H|]. split; [exact HwK|reflexivity].
    + exists v. repeat split; assumption.
Qed.
