(** C45 graph round trip: list / table lemmas and facts about the jelly walk. *)
From Coq Require Import List NArith Arith Bool Lia.
From C45 Require Import Graph.
Import ListNotations.

Lemma mem_In : forall v l, mem v l = true <-> In v l.
Proof.
  intros v l. induction l as [|x r IH]; cbn; [split; [discriminate|tauto]|].
  rewrite orb_true_iff, IH, Nat.eqb_eq. split; intros [H|H]; auto.
Qed.
Lemma mem_false : forall v l, mem v l = false <-> ~ In v l.
Proof.
  intros v l. rewrite <- mem_In. destruct (mem v l); split; intros H.
  - discriminate.
  - exfalso. apply H. reflexivity.
  - intros H'. discriminate.
  - reflexivity.
Qed.

Lemma index_of_app_in : forall v a b, In v a -> index_of v (a ++ b) = index_of v a.
Proof.
  intros v a b. induction a as [|x r IH]; cbn; [tauto|]. intros [->|H].
  - rewrite Nat.eqb_refl. reflexivity.
  - destruct (Nat.eqb v x); [reflexivity|]. rewrite (IH H). reflexivity.
Qed.
Lemma index_of_app_notin : forall v a b, ~ In v a -> index_of v (a ++ b) = length a + index_of v b.
Proof.
  intros v a b. induction a as [|x r IH]; cbn; [reflexivity|]. intros H.
  destruct (Nat.eqb v x) eqn:E; [apply Nat.eqb_eq in E; subst; tauto|]. rewrite IH; tauto.
Qed.
Lemma index_of_new : forall v a b, ~ In v a -> index_of v (a ++ v :: b) = length a.
Proof. intros v a b H. rewrite index_of_app_notin by exact H. cbn. rewrite Nat.eqb_refl. lia. Qed.

Lemma index_of_inj : forall l v w, In v l -> In w l -> index_of v l = index_of w l -> v = w.
Proof.
  induction l as [|x r IH]; intros v w Hv Hw; [contradiction|]. cbn.
  destruct (Nat.eqb v x) eqn:Ev; destruct (Nat.eqb w x) eqn:Ew; intros H; try discriminate.
  - apply Nat.eqb_eq in Ev, Ew. congruence.
  - injection H as H. apply IH; auto.
    + destruct Hv as [->|Hv]; [rewrite Nat.eqb_refl in Ev; discriminate|exact Hv].
    + destruct Hw as [->|Hw]; [rewrite Nat.eqb_refl in Ew; discriminate|exact Hw].
Qed.
Lemma rid_inj : forall K v w, In v K -> In w K -> rid K v = rid K w -> v = w.
Proof. intros K v w Hv Hw H. unfold rid in H. injection H as H. eapply index_of_inj; eauto. Qed.

Lemma index_of_nth : forall l v, In v l -> nth_error l (index_of v l) = Some v.
Proof.
  induction l as [|x r IH]; intros v H; [contradiction|]. cbn.
  destruct (Nat.eqb v x) eqn:E; [apply Nat.eqb_eq in E; subst; reflexivity|].
  cbn. apply IH. destruct H as [->|H]; [rewrite Nat.eqb_refl in E; discriminate|exact H].
Qed.
Lemma nth_index_of : forall l i v, NoDup l -> nth_error l i = Some v -> index_of v l = i.
Proof.
  induction l as [|x r IH]; intros i v Hnd H; [destruct i; discriminate|].
  inversion Hnd as [|? ? Hx Hr]; subst. destruct i as [|i]; cbn in *.
  - injection H as ->. rewrite Nat.eqb_refl. reflexivity.
  - destruct (Nat.eqb v x) eqn:E.
    + apply Nat.eqb_eq in E. subst. exfalso. apply Hx. eapply nth_error_In; eauto.
    + f_equal. apply IH; assumption.
Qed.

Lemma add_once_incl : forall v K, incl K (add_once v K) /\ In v (add_once v K).
Proof.
  intros v K. unfold add_once. destruct (mem v K) eqn:E.
  - split; [apply incl_refl|apply mem_In; exact E].
  - split; [apply incl_appl; apply incl_refl|apply in_or_app; right; left; reflexivity].
Qed.

(** the walk only adds to V and K; every object it is asked about has been started afterwards *)
Lemma jel_mono : forall fuel h,
  (forall V K r V' K' t, jel fuel h V K r = Some (V', K', t) ->
     (exists X, V' = V ++ X) /\ incl K K' /\ (forall v, r = RNode v -> In v V'))
  /\ (forall V K kids V' K' ps, jel_kids fuel h V K kids = Some (V', K', ps) ->
     (exists X, V' = V ++ X) /\ incl K K' /\ (forall key v, In (key, RNode v) kids -> In v V')).
Proof.
  induction fuel as [|f IH]; intro h; [split; intros; discriminate|].
  destruct (IH h) as [IHj IHk]. split.
  - intros V K r V' K' t H. cbn in H. destruct r as [a| |v].
    + injection H as <- <- _. split; [exists []; rewrite app_nil_r; reflexivity|]. split; [apply incl_refl|intros; discriminate].
    + injection H as <- <- _. split; [exists []; rewrite app_nil_r; reflexivity|]. split; [apply incl_refl|intros; discriminate].
    + destruct (mem v V) eqn:Em.
      * injection H as <- <- _. split; [exists []; rewrite app_nil_r; reflexivity|].
        split; [apply add_once_incl|]. intros v0 E. injection E as <-. apply mem_In; exact Em.
      * destruct (nth_error h v) as [[k kids]|]; [|discriminate].
        destruct (jel_kids f h (V ++ [v]) K kids) as [[[V1 K1] ps]|] eqn:Ek; [|discriminate].
        injection H as <- <- _. destruct (IHk _ _ _ _ _ _ Ek) as ([X HX] & HK & _).
        split; [exists ([v] ++ X); rewrite HX, app_assoc; reflexivity|]. split; [exact HK|].
        intros v0 E. injection E as <-. rewrite HX. apply in_or_app. left. apply in_or_app. right. left. reflexivity.
  - intros V K kids V' K' ps H. cbn in H. destruct kids as [|[key r] rest].
    + injection H as <- <- _. split; [exists []; rewrite app_nil_r; reflexivity|]. split; [apply incl_refl|intros ? ? []].
    + destruct (jel f h V K r) as [[[V1 K1] s]|] eqn:Ej; [|discriminate].
      destruct (jel_kids f h V1 K1 rest) as [[[V2 K2] ps']|] eqn:Ek; [|discriminate].
      injection H as <- <- _. destruct (IHj _ _ _ _ _ _ Ej) as ([X HX] & HK & Hv).
      destruct (IHk _ _ _ _ _ _ Ek) as ([Y HY] & HK' & Hv').
      split; [exists (X ++ Y); rewrite HY, HX, app_assoc; reflexivity|].
      split; [eapply incl_tran; eassumption|].
      intros key0 v [E|Hin].
      * injection E as -> ->. rewrite HY. apply in_or_app. left. apply (Hv v eq_refl).
      * eapply Hv'; exact Hin.
Qed.

Lemma reach_trans : forall h a b c, reach h a b -> reach h b c -> reach h a c.
Proof. intros h a b c H. induction H; intros Hc; [exact Hc|]. eapply reach_step; eauto. Qed.
Lemma reach_edge : forall h a b k kids key c,
  reach h a b -> nth_error h b = Some (k, kids) -> In (key, RNode c) kids -> reach h a c.
Proof.
  intros h a b k kids key c H Hb Hin. eapply reach_trans; [exact H|].
  eapply reach_step; [exact Hb|exact Hin|apply reach_refl].
Qed.

Lemma lookup_cons_ne : forall r x t l, r <> x -> lookup r ((x, t) :: l) = lookup r l.
Proof. intros r x t l H. cbn. destruct (Nat.eqb r x) eqn:E; [apply Nat.eqb_eq in E; contradiction|reflexivity]. Qed.
Lemma lookup_cons_eq : forall r t l, lookup r ((r, t) :: l) = Some t.
Proof. intros. cbn. rewrite Nat.eqb_refl. reflexivity. Qed.

Lemma nth_error_app_l : forall {A} (l l' : list A) i x, nth_error l i = Some x -> nth_error (l ++ l') i = Some x.
Proof. intros A l l' i x H. rewrite nth_error_app1; [exact H|]. apply nth_error_Some. congruence. Qed.

Lemma set_node_nth_same : forall l i n, i < length l -> nth_error (set_node i n l) i = Some n.
Proof.
  induction l as [|x r IH]; intros i n H; cbn in H; [lia|]. destruct i as [|i]; cbn; [reflexivity|].
  apply IH. lia.
Qed.
Lemma set_node_nth_other : forall l i j n, j <> i -> nth_error (set_node i n l) j = nth_error l j.
Proof.
  induction l as [|x r IH]; intros i j n Hne; [destruct i; reflexivity|]. destruct i as [|i]; destruct j as [|j]; cbn;
    try reflexivity; try lia. apply IH. lia.
Qed.
Lemma set_node_length : forall l i n, length (set_node i n l) = length l.
Proof. induction l as [|x r IH]; intros i n; [destruct i; reflexivity|]. destruct i; cbn; [reflexivity|]. rewrite IH. reflexivity. Qed.
