(** C45 — the unjelly dispatcher of twisted.spread.jelly (_Unjellier.unjelly and its _unjelly_* methods)
    against a security policy, with a ghost log of every module import and every instantiation.

    Names are lists of segments ("a.b.c" = [a;b;c]).  The Python world the dispatcher can reach is a
    parameter: which dotted names are importable modules and what attribute lookup on a module / class
    gives.  The policy is four predicates: allowed type tags, allowed modules, allowed classes (by the
    class's own identity), registered unjellyables.

    Modelled: atoms, None, list/tuple/dictionary/set (children in order), module, class, function,
    instance (deprecated atom), method, persistent (no loader), unpersistable, registered types, and the
    generic "dotted type name" path.  [reflect.namedObject] / [namedModule] / [namedAny] are modelled at the
    granularity of import attempts: importing "a.b.c" imports a, a.b, a.b.c in turn and stops at the first
    prefix that is not a module; namedAny first tries the WHOLE dotted name as a module, then shorter ones.
    The function / instance clauses model the code with fixes/C45-function-instance-class-check.patch. *)
From Coq Require Import List NArith Bool.
Import ListNotations.

Definition name := list N.

Fixpoint name_eqb (a b : name) : bool :=
  match a, b with
  | [], [] => true
  | x :: r, y :: r' => N.eqb x y && name_eqb r r'
  | _, _ => false
  end.
Fixpoint is_prefix (p n : name) : bool :=
  match p, n with
  | [], _ => true
  | x :: r, y :: r' => N.eqb x y && is_prefix r r'
  | _, _ => false
  end.

(** what looking a name up yields *)
Inductive obj := OModule (n : name) | OClass (c : name) | OFunc (f : name) | OData.

Record world := World {
  w_module : name -> bool;                 (* importable module? *)
  w_attr : name -> N -> option obj          (* attribute of the module / class with this canonical name *)
}.

Inductive tag :=
| TNone | TList | TTuple | TDict | TSet | TModule | TClass | TFunction | TInstance | TMethod
| TPersistent | TUnpersistable
| TName (n : name).          (* any other type name: dotted = class of an instance, or unknown *)

Record policy := Policy {
  p_type : tag -> bool;       (* SecurityOptions.allowedTypes (dotted names are always let through) *)
  p_mod : name -> bool;       (* isModuleAllowed *)
  p_cls : name -> bool;       (* isClassAllowed, by class identity *)
  p_reg : name -> bool        (* unjellyableRegistry / unjellyableFactoryRegistry *)
}.

Definition type_allowed (pol : policy) (t : tag) : bool :=
  match t with
  | TName (_ :: _ :: _) => true             (* b"." in typeName *)
  | _ => p_type pol t
  end.

Inductive sexp :=
| SName (n : name)          (* a bytes atom, read as a dotted name where the code does so *)
| SInt                      (* any other atom *)
| SEmpty                    (* [] *)
| SNode (t : tag) (args : slist)
with slist := SNil | SCons (s : sexp) (r : slist).

Inductive value :=
| VAtom | VNone | VData | VUnpers
| VSeq (l : vlist)
| VModule (n : name) | VClass (c : name) | VFunc (path : name)
| VInstance (c : name) (st : value) | VMethod (c : name) | VReg (n : name)
with vlist := VNil | VCons (v : value) (r : vlist).

(** ghost log *)
Inductive effect :=
| EImport (p : name) (auth : name)        (* module p imported while importing the policy-checked name auth *)
| EImportTrial (p : name) (fname : name)  (* module p imported by namedAny's first trial: the whole function name *)
| EInst (c : name)                        (* blank instance of class c created *)
| EInstReg (n : name).                    (* registered unjellyable n invoked *)

Inductive err := Insecure | Other.
Inductive result := Ok (v : value) | Err (e : err).

(** importing [pre ++ rest] having imported pre: the modules imported, and whether all of it was found *)
Fixpoint import_from (w : world) (pre rest : name) : list name * bool :=
  match rest with
  | [] => ([], true)
  | s :: r =>
      let p := pre ++ [s] in
      if w_module w p then let '(l, ok) := import_from w p r in (p :: l, ok) else ([], false)
  end.
Definition import_attempt (w : world) (n : name) : list name * bool :=
  match n with [] => ([], false) | _ => import_from w [] n end.

Definition imported (log : list effect) (m : name) : bool :=
  existsb (fun e => match e with EImport p _ | EImportTrial p _ => name_eqb p m | _ => false end) log.

(** getattr on a module / class: own attributes, plus already-imported submodules *)
Definition getattr (w : world) (log : list effect) (o : obj) (s : N) : option obj :=
  match o with
  | OModule m =>
      match w_attr w m s with
      | Some x => Some x
      | None => if imported log (m ++ [s]) then Some (OModule (m ++ [s])) else None
      end
  | OClass c => w_attr w c s
  | _ => None
  end.

Fixpoint getattrs (w : world) (log : list effect) (o : obj) (segs : name) : option obj :=
  match segs with
  | [] => Some o
  | s :: r => match getattr w log o s with Some o' => getattrs w log o' r | None => None end
  end.

Definition split_last (n : name) : name * option N :=
  match rev n with [] => ([], None) | l :: r => (rev r, Some l) end.

(** reflect.namedObject(n) after the caller checked the module part: import the module part, getattr the last *)
Definition named_object (w : world) (log : list effect) (n : name) : list effect * option obj :=
  match split_last n with
  | (_, None) => (log, None)
  | (m, Some l) =>
      let '(mods, ok) := import_attempt w m in
      let log' := log ++ map (fun p => EImport p m) mods in
      if ok then (log', getattr w log' (OModule m) l) else (log', None)
  end.

(** reflect.namedAny(fname) after the caller checked m = removelast fname: trial imports, longest first.
    The first trial is the whole name; the later ones are m and its ancestors. *)
Fixpoint named_any_rest (w : world) (log : list effect) (fname m : name) (k : nat)
  : list effect * option obj :=
  (* k = number of segments of the current trial, a prefix of m *)
  match k with
  | O => (log, None)
  | S k' =>
      let trial := firstn k m in
      let '(mods, ok) := import_attempt w trial in
      let log' := log ++ map (fun p => EImport p m) mods in
      if ok then (log', getattrs w log' (OModule trial) (skipn k fname))
      else named_any_rest w log' fname m k'
  end.
Definition named_any (w : world) (log : list effect) (fname : name) : list effect * option obj :=
  if existsb (N.eqb 0) fname then (log, None)       (* segment 0 stands for the empty string: InvalidName *)
  else
    let '(mods, ok) := import_attempt w fname in
    let log' := log ++ map (fun p => EImportTrial p fname) mods in
    if ok then (log', Some (OModule fname))
    else named_any_rest w log' fname (removelast fname) (length (removelast fname)).

Definition first_name (a : slist) : option name :=
  match a with SCons (SName n) _ => Some n | _ => None end.

Fixpoint unjelly (w : world) (pol : policy) (s : sexp) (log : list effect) : list effect * result :=
  match s with
  | SName _ | SInt => (log, Ok VAtom)
  | SEmpty => (log, Err Other)
  | SNode t args =>
    if negb (type_allowed pol t) then (log, Err Insecure) else
    match t with
    | TName n =>
        if p_reg pol n then (log ++ [EInstReg n], Ok (VReg n)) else
        let m := removelast n in
        if negb (p_mod pol m) then (log, Err Insecure) else
        let '(log1, o) := named_object w log n in
        match o with
        | None => (log1, Err Other)
        | Some (OClass c) =>
            if negb (p_cls pol c) then (log1, Err Insecure) else
            match args with
            | SNil => (log1, Err Other)
            | SCons st _ =>
                let '(log2, r) := unjelly w pol st log1 in
                match r with
                | Ok v => (log2 ++ [EInst c], Ok (VInstance c v))
                | Err e => (log2, Err e)
                end
            end
        | Some _ => (log1, Err Insecure)
        end
    | TNone => (log, Ok VNone)
    | TList | TTuple | TDict | TSet =>
        let '(log1, r) := unjelly_list w pol args log in
        match r with inl vs => (log1, Ok (VSeq vs)) | inr e => (log1, Err e) end
    | TModule =>
        match first_name args with
        | None => (log, Err Other)
        | Some m =>
            if negb (p_mod pol m) then (log, Err Insecure) else
            let '(mods, ok) := import_attempt w m in
            let log1 := log ++ map (fun p => EImport p m) mods in
            if ok then (log1, Ok (VModule m)) else (log1, Err Other)
        end
    | TClass =>
        match first_name args with
        | None => (log, Err Other)
        | Some n =>
            if negb (p_mod pol (removelast n)) then (log, Err Insecure) else
            let '(log1, o) := named_object w log n in
            match o with
            | None => (log1, Err Other)
            | Some (OClass c) => if p_cls pol c then (log1, Ok (VClass c)) else (log1, Err Insecure)
            | Some _ => (log1, Err Insecure)
            end
        end
    | TFunction =>
        match first_name args with
        | None => (log, Err Other)
        | Some n =>
            if negb (p_mod pol (removelast n)) then (log, Err Insecure) else
            let '(log1, o) := named_any w log n in
            match o with
            | None => (log1, Err Other)
            | Some (OFunc _) => (log1, Ok (VFunc n))
            | Some OData => (log1, Ok VData)
            | Some _ => (log1, Err Insecure)       (* patched: a class or module is refused *)
            end
        end
    | TInstance =>
        match args with
        | SCons cs (SCons st _) =>
            let '(log1, r) := unjelly w pol cs log in
            match r with
            | Err e => (log1, Err e)
            | Ok (VClass c) =>
                if negb (p_cls pol c) then (log1, Err Insecure) else
                let '(log2, r2) := unjelly w pol st log1 in
                match r2 with
                | Ok v => (log2 ++ [EInst c], Ok (VInstance c v))
                | Err e => (log2, Err e)
                end
            | Ok _ => (log1, Err Insecure)         (* patched: not a class *)
            end
        | SCons cs SNil =>
            let '(log1, r) := unjelly w pol cs log in
            match r with
            | Err e => (log1, Err e)
            | Ok (VClass c) => if p_cls pol c then (log1, Err Other) else (log1, Err Insecure)
            | Ok _ => (log1, Err Insecure)
            end
        | _ => (log, Err Other)
        end
    | TMethod =>
        match args with
        | SCons (SName [mname]) (SCons sf (SCons sc _)) =>
            let '(log1, r1) := unjelly w pol sf log in
            match r1 with
            | Err e => (log1, Err e)
            | Ok _ =>
                let '(log2, r2) := unjelly w pol sc log1 in
                match r2 with
                | Err e => (log2, Err e)
                | Ok (VClass c) =>
                    match w_attr w c mname with
                    | Some (OFunc _) => (log2, Ok (VMethod c))
                    | _ => (log2, Err Other)
                    end
                | Ok _ => (log2, Err Insecure)
                end
            end
        | _ => (log, Err Other)
        end
    | TPersistent => (log, Ok VUnpers)        (* no persistentLoad: rest is not even looked at *)
    | TUnpersistable => match args with SNil => (log, Err Other) | _ => (log, Ok VUnpers) end
    end
  end
with unjelly_list (w : world) (pol : policy) (l : slist) (log : list effect) : list effect * (vlist + err) :=
  match l with
  | SNil => (log, inl VNil)
  | SCons s r =>
      let '(log1, x) := unjelly w pol s log in
      match x with
      | Err e => (log1, inr e)
      | Ok v =>
          let '(log2, y) := unjelly_list w pol r log1 in
          match y with inl vs => (log2, inl (VCons v vs)) | inr e => (log2, inr e) end
      end
  end.

(** ---- the policy statements ---- *)

(** an effect the policy covers.  [EImportTrial] is the one case that is NOT covered by an allowed module:
    namedAny imports the whole function name when it happens to be a module; only its parent was checked. *)
Definition eff_ok (pol : policy) (e : effect) : bool :=
  match e with
  | EImport p auth => p_mod pol auth && is_prefix p auth
  | EImportTrial p fname => p_mod pol (removelast fname) && is_prefix p fname
  | EInst c => p_cls pol c
  | EInstReg n => p_reg pol n
  end.

(** the full-strength reading: every imported module is an allowed module or an ancestor package of one *)
Definition import_covered (pol : policy) (e : effect) : Prop :=
  match e with
  | EImport p _ | EImportTrial p _ => exists m, p_mod pol m = true /\ is_prefix p m = true
  | _ => True
  end.

(** results are built only from allowed modules / classes, functions of allowed modules, registered types *)
Fixpoint clean (pol : policy) (v : value) : bool :=
  match v with
  | VAtom | VNone | VData | VUnpers => true
  | VSeq l => clean_list pol l
  | VModule m => p_mod pol m
  | VClass c => p_cls pol c
  | VFunc path => p_mod pol (removelast path)
  | VInstance c st => p_cls pol c && clean pol st
  | VMethod c => p_cls pol c
  | VReg n => p_reg pol n
  end
with clean_list (pol : policy) (l : vlist) : bool :=
  match l with VNil => true | VCons v r => clean pol v && clean_list pol r end.
