(** C45: printers for the jelly / unjelly graph model (correspondence check only). *)
From Coq Require Import List NArith Arith Bool String.
From TwLib Require Import Show.
From C45 Require Import Graph.
Import ListNotations.
Local Open Scope string_scope.

Definition show_kind (k : kind) : string :=
  match k with KList => "L" | KTuple => "T" | KDict => "D" | KInst c => "I" ++ show_N c end.

Fixpoint show_fsexp (s : fsexp) : string :=
  match s with
  | FAtom a => "a" ++ show_N a
  | FNone => "N"
  | FDeref r => "(d " ++ show_nat r ++ ")"
  | FRef r b => "(R " ++ show_nat r ++ " " ++ show_fsexp b ++ ")"
  | FNode k kids =>
      match k with
      | KInst c => match kids with
                   | FNil => "(I" ++ show_N c ++ " N)"
                   | _ => "(I" ++ show_N c ++ " (D" ++ show_fkids true kids ++ "))"
                   end
      | KDict => "(D" ++ show_fkids true kids ++ ")"
      | _ => "(" ++ show_kind k ++ show_fkids false kids ++ ")"
      end
  end
with show_fkids (keyed : bool) (l : fkids) : string :=
  match l with
  | FNil => ""
  | FCons key s r => (if keyed then " a" ++ show_N key else "") ++ " " ++ show_fsexp s ++ show_fkids keyed r
  end.

Definition show_pid (p : pid) : string := match p with PD r => "pd" ++ show_nat r | PT k => "pt" ++ show_nat k end.
Definition show_tref (t : tref) : string :=
  match t with
  | TAtom a => "a" ++ show_N a | TNone => "N" | TNode i => "#" ++ show_nat i
  | TPend p _ => "?" ++ show_pid p
  end.
Definition show_slots (l : list (N * tref)) : string :=
  String.concat "," (map (fun kv => show_N (fst kv) ++ ":" ++ show_tref (snd kv)) l).
Definition show_tnode (n : tnode) : string := show_kind (fst n) ++ "[" ++ show_slots (snd n) ++ "]".

(** input: the heap (root = object 0).  output: wire s-expression | result ; objects ; tuple placeholders *)
Definition run_graph (h : heap) : string :=
  match jelly 5000 h (RNode 0) with
  | None => "nojelly"
  | Some s =>
      show_fsexp s ++ "|" ++
      match unj s ust0 with
      | RAssert => "ASSERT"
      | ROk (st, t) =>
          show_tref t ++ ";" ++ String.concat " " (map show_tnode (uh st)) ++ ";" ++
          String.concat " " (map (fun x => "[" ++ show_slots (fst x) ++ "]") (ut st))
      end
  end.
