(** C45 property theorems: for EVERY world (which names are modules, what attribute lookup yields), EVERY policy
    and EVERY s-expression, about the ghost log and result of the unjelly dispatcher (coq/C45/Model.v). *)
From Coq Require Import List NArith Bool.
From C45 Require Import Model Proofs Graph GraphProofs.
Import ListNotations.

(** no class is instantiated unless the policy allows that class (by identity) *)
Theorem instantiates_only_allowed : forall w pol s c,
  In (EInst c) (fst (unjelly w pol s [])) -> p_cls pol c = true.
Proof. exact instantiates_only_allowed_lemma. Qed.
Print Assumptions instantiates_only_allowed.

(** whatever is returned is built only from allowed modules, allowed classes and their instances, functions
    looked up in allowed modules, registered unjellyables, atoms and containers *)
Theorem result_types_allowed : forall w pol s v,
  snd (unjelly w pol s []) = Ok v -> clean pol v = true.
Proof. intros w pol s v. exact (proj2 (unjelly_policy w pol s) v). Qed.
Print Assumptions result_types_allowed.

(** Full statement (FALSE of the current code, see the _refuted theorem):
      forall w pol s e, In e (fst (unjelly w pol s [])) -> import_covered pol e
    i.e. every module imported is an allowed module or an ancestor package of one.
    Proved part: it holds for every import except the first trial of reflect.namedAny under the `function`
    tag, which imports the whole dotted name when it is a module although only its parent was checked. *)
Theorem unjelly_only_resolves_allowed_partial : forall w pol s,
  (forall p auth, In (EImport p auth) (fst (unjelly w pol s [])) ->
     p_mod pol auth = true /\ is_prefix p auth = true)
  /\ (forall p fname, In (EImportTrial p fname) (fst (unjelly w pol s [])) ->
     p_mod pol (removelast fname) = true /\ is_prefix p fname = true)
  /\ (forall n, In (EInstReg n) (fst (unjelly w pol s [])) -> p_reg pol n = true).
Proof.
  intros w pol s. split; [|split].
  - intros p auth. apply imports_covered_lemma.
  - intros p fname. apply trial_imports_lemma.
  - intros n Hin. exact (in_log_ok pol _ _ (proj1 (unjelly_policy w pol s)) Hin).
Qed.
Print Assumptions unjelly_only_resolves_allowed_partial.

(** witness: policy allows module [1] and the function type; `[function, "1.2"]` imports module 1.2, which is
    neither allowed nor an ancestor of an allowed module (the patched code then refuses to return it) *)
Theorem unjelly_only_resolves_allowed_refuted :
  exists w pol s p, In p (map (fun e => match e with EImport p _ | EImportTrial p _ => p | _ => [] end)
                             (fst (unjelly w pol s [])))
    /\ p <> [] /\ forall m, p_mod pol m = true -> is_prefix p m = false.
Proof.
  exists w_ex, pol_ex, s_ex, [1%N; 2%N]. destruct imports_refuted_lemma as (Hin & Hno & _).
  split; [|split; [discriminate|exact Hno]].
  apply in_map_iff. exists (EImportTrial [1%N; 2%N] [1%N; 2%N]). split; [reflexivity|exact Hin].
Qed.
Print Assumptions unjelly_only_resolves_allowed_refuted.

(** ------------------------------------------------------------------------------------------------------
    Second half of the property: jelly then unjelly preserves a graph of allowed objects, including shared and
    cyclic references (coq/C45/Graph.v: [jel]/[post] = _Jellier with its reference numbering, [unj] = _Unjellier
    with the references table and the NotKnown placeholders of twisted.persisted.crefutil).

    Full statement (FALSE of the current code, see the two _refuted theorems): the conclusion below for EVERY
    heap.  Proved: for every heap in which no tuple lies on a cycle, every root, every amount of sharing and
    every cycle through lists, dicts and instances: the objects the jellier starts, in order (V), are exactly
    the objects unjelly builds, in order, slot for slot (an isomorphism that preserves identity: object v of
    the source is object [index_of v V] of the result), no placeholder is left, and V is closed under
    following references. *)
Theorem unjelly_jelly_preserves_graph_partial : forall h fuel root V K t,
  tuples_acyclic h -> jel fuel h [] [] root = Some (V, K, t) ->
  exists st, unj (post K t) ust0 = ROk (st, ren V root)
    /\ length (uh st) = length V /\ NoDup V /\ ut st = []
    /\ (forall v, root = RNode v -> In v V)
    /\ (forall i v, nth_error V i = Some v ->
          exists n, nth_error h v = Some n /\ nth_error (uh st) i = Some (ren_node V n)
                    /\ forall key w, In (key, RNode w) (snd n) -> In w V).
Proof. exact roundtrip_lemma. Qed.
Print Assumptions unjelly_jelly_preserves_graph_partial.

(** a cycle through a tuple that is also referenced from inside itself: a _Tuple placeholder stays in the result *)
Theorem unjelly_jelly_preserves_graph_refuted_placeholder :
  exists h s st, ~ tuples_acyclic h /\ jelly 100 h (RNode 0) = Some s /\ unj s ust0 = ROk (st, TNode 0)
    /\ nth_error (uh st) 2 = Some (KInst 1%N, [(1%N, TPend (PT 0) false)]).
Proof.
  destruct bad1_placeholder_left as (s & st & H1 & H2 & H3).
  exists bad_heap1, s, st. split; [exact bad1_tuple_on_cycle|]. split; [exact H1|]. split; [exact H2|exact H3].
Qed.
Print Assumptions unjelly_jelly_preserves_graph_refuted_placeholder.

(** a resolved _Tuple placeholder left in the references table: dereferencing it raises AssertionError *)
Theorem unjelly_jelly_preserves_graph_refuted_assert :
  exists h s, ~ tuples_acyclic h /\ jelly 100 h (RNode 0) = Some s /\ unj s ust0 = RAssert.
Proof.
  destruct bad2_asserts as (s & H1 & H2). exists bad_heap2, s. split; [exact bad2_tuple_on_cycle|]. split; assumption.
Qed.
Print Assumptions unjelly_jelly_preserves_graph_refuted_assert.
