(** C45 proofs: for every world, policy and s-expression the dispatcher's ghost log and result obey the policy. *)
From Coq Require Import List NArith Bool Lia.
From C45 Require Import Model.
Import ListNotations.

Scheme sexp_mind := Induction for sexp Sort Prop
  with slist_mind := Induction for slist Sort Prop.
Combined Scheme sexp_slist_ind from sexp_mind, slist_mind.

Definition all_ok (pol : policy) (log : list effect) : Prop := forallb (eff_ok pol) log = true.

Lemma all_ok_app : forall pol a b, all_ok pol a -> all_ok pol b -> all_ok pol (a ++ b).
Proof. unfold all_ok; intros pol a b Ha Hb. rewrite forallb_app, Ha, Hb. reflexivity. Qed.

Lemma is_prefix_refl : forall n, is_prefix n n = true.
Proof. induction n as [|x r IH]; cbn; [reflexivity|]. rewrite N.eqb_refl, IH. reflexivity. Qed.

Lemma is_prefix_trans : forall a b c, is_prefix a b = true -> is_prefix b c = true -> is_prefix a c = true.
Proof.
  induction a as [|x r IH]; intros b c Hab Hbc; [reflexivity|].
  destruct b as [|y b']; [discriminate|]. destruct c as [|z c']; [discriminate|].
  cbn in *. apply andb_prop in Hab. destruct Hab as [Hxy Hr]. apply andb_prop in Hbc. destruct Hbc as [Hyz Hb].
  apply N.eqb_eq in Hxy. apply N.eqb_eq in Hyz. subst. rewrite N.eqb_refl. cbn. eapply IH; eassumption.
Qed.

Lemma is_prefix_app : forall a b, is_prefix a (a ++ b) = true.
Proof. induction a as [|x r IH]; intros b; cbn; [reflexivity|]. rewrite N.eqb_refl, IH. reflexivity. Qed.

Lemma is_prefix_firstn : forall k n, is_prefix (firstn k n) n = true.
Proof.
  intros k n. rewrite <- (firstn_skipn k n) at 2. apply is_prefix_app.
Qed.

(** everything imported while importing pre ++ rest is a prefix of it *)
Lemma import_from_prefix : forall w rest pre p,
  In p (fst (import_from w pre rest)) -> is_prefix p (pre ++ rest) = true.
Proof.
  induction rest as [|s r IH]; intros pre p Hin; cbn in Hin; [contradiction|].
  destruct (w_module w (pre ++ [s])); [|contradiction].
  destruct (import_from w (pre ++ [s]) r) as [l ok] eqn:E. cbn in Hin.
  destruct Hin as [<-|Hin].
  - replace (pre ++ s :: r) with ((pre ++ [s]) ++ r) by (rewrite <- app_assoc; reflexivity). apply is_prefix_app.
  - replace (pre ++ s :: r) with ((pre ++ [s]) ++ r) by (rewrite <- app_assoc; reflexivity).
    apply IH. rewrite E. exact Hin.
Qed.

Lemma import_attempt_prefix : forall w n p, In p (fst (import_attempt w n)) -> is_prefix p n = true.
Proof.
  intros w [|x r] p Hin; [contradiction|]. apply (import_from_prefix w (x :: r) [] p Hin).
Qed.

Lemma all_ok_map : forall pol (f : name -> effect) l,
  (forall p, In p l -> eff_ok pol (f p) = true) -> all_ok pol (map f l).
Proof.
  intros pol f l H. unfold all_ok. apply forallb_forall. intros e He. apply in_map_iff in He.
  destruct He as (p & <- & Hp). apply H; exact Hp.
Qed.

Lemma split_last_removelast : forall n m l, split_last n = (m, Some l) -> m = removelast n /\ n = m ++ [l].
Proof.
  intros n m l H. unfold split_last in H. destruct (rev n) as [|x r] eqn:E; [discriminate|].
  injection H as <- <-. assert (Hn : n = rev r ++ [x]).
  { rewrite <- (rev_involutive n), E. reflexivity. }
  split; [|exact Hn]. rewrite Hn. rewrite removelast_last. reflexivity.
Qed.

Lemma named_object_ok : forall w pol log n,
  all_ok pol log -> p_mod pol (removelast n) = true -> all_ok pol (fst (named_object w log n)).
Proof.
  intros w pol log n Hlog Hm. unfold named_object.
  destruct (split_last n) as [m [l|]] eqn:E; [|exact Hlog].
  apply split_last_removelast in E. destruct E as [-> _].
  destruct (import_attempt w (removelast n)) as [mods ok] eqn:Ei.
  assert (Hnew : all_ok pol (log ++ map (fun p => EImport p (removelast n)) mods)).
  { apply all_ok_app; [exact Hlog|]. apply all_ok_map. intros p Hp. cbn. rewrite Hm. cbn.
    apply (import_attempt_prefix w). rewrite Ei. exact Hp. }
  destruct ok; exact Hnew.
Qed.

Lemma named_any_rest_S : forall w log fname m k,
  named_any_rest w log fname m (S k) =
  let '(mods, ok) := import_attempt w (firstn (S k) m) in
  let log' := log ++ map (fun p => EImport p m) mods in
  if ok then (log', getattrs w log' (OModule (firstn (S k) m)) (skipn (S k) fname))
  else named_any_rest w log' fname m k.
Proof. reflexivity. Qed.

Lemma named_any_rest_ok : forall w pol fname m k log,
  all_ok pol log -> p_mod pol m = true -> all_ok pol (fst (named_any_rest w log fname m k)).
Proof.
  intros w pol fname m k. induction k as [|k IH]; intros log Hlog Hm; [exact Hlog|].
  rewrite named_any_rest_S.
  destruct (import_attempt w (firstn (S k) m)) as [mods ok] eqn:Ei.
  assert (Hnew : all_ok pol (log ++ map (fun p => EImport p m) mods)).
  { apply all_ok_app; [exact Hlog|]. apply all_ok_map. intros p Hp. cbn [eff_ok]. rewrite Hm. cbn.
    apply is_prefix_trans with (b := firstn (S k) m); [|apply is_prefix_firstn].
    apply (import_attempt_prefix w). rewrite Ei. exact Hp. }
  destruct ok; [exact Hnew|]. apply IH; assumption.
Qed.

Lemma named_any_ok : forall w pol log fname,
  all_ok pol log -> p_mod pol (removelast fname) = true -> all_ok pol (fst (named_any w log fname)).
Proof.
  intros w pol log fname Hlog Hm. unfold named_any.
  destruct (existsb (N.eqb 0) fname); [exact Hlog|].
  destruct (import_attempt w fname) as [mods ok] eqn:Ei.
  assert (Hnew : all_ok pol (log ++ map (fun p => EImportTrial p fname) mods)).
  { apply all_ok_app; [exact Hlog|]. apply all_ok_map. intros p Hp. cbn [eff_ok]. rewrite Hm. cbn.
    apply (import_attempt_prefix w). rewrite Ei. exact Hp. }
  destruct ok; [exact Hnew|]. apply named_any_rest_ok; assumption.
Qed.

Definition res_clean (pol : policy) (r : result) : Prop := forall v, r = Ok v -> clean pol v = true.
Definition lres_clean (pol : policy) (r : vlist + err) : Prop := forall vs, r = inl vs -> clean_list pol vs = true.

Definition Pst (w : world) (pol : policy) (s : sexp) : Prop :=
  forall log, all_ok pol log ->
    all_ok pol (fst (unjelly w pol s log)) /\ res_clean pol (snd (unjelly w pol s log)).
Definition Lst (w : world) (pol : policy) (l : slist) : Prop :=
  forall log, all_ok pol log ->
    all_ok pol (fst (unjelly_list w pol l log)) /\ lres_clean pol (snd (unjelly_list w pol l log)).
Fixpoint allc (P : sexp -> Prop) (l : slist) : Prop :=
  match l with SNil => True | SCons s r => P s /\ allc P r end.

Ltac done_err := split; [assumption|intros v0 Hv0; discriminate].

Ltac seq_tac HL Hlog :=
  let Hl := fresh "Hl" in let Hc := fresh "Hc" in
  destruct (HL _ Hlog) as [Hl Hc];
  destruct (unjelly_list _ _ _ _) as [log1 [vs|e]]; cbn in *;
  [ split; [exact Hl|intros v Hv; injection Hv as <-; cbn; apply Hc; reflexivity]
  | split; [exact Hl|intros v Hv; discriminate] ].

Lemma unjelly_inv : forall w pol,
  (forall s, Pst w pol s) /\ (forall l, Lst w pol l /\ allc (Pst w pol) l).
Proof.
  intros w pol. apply sexp_slist_ind.
  - (* SName *) intros n log Hlog. cbn. split; [exact Hlog|]. intros v Hv. injection Hv as <-. reflexivity.
  - intros log Hlog. cbn. split; [exact Hlog|]. intros v Hv. injection Hv as <-. reflexivity.
  - intros log Hlog. cbn. done_err.
  - (* SNode *) intros t args [HL HC] log Hlog. cbn [unjelly].
    destruct (negb (type_allowed pol t)); [cbn; done_err|].
    destruct t.
    + (* TNone *) cbn. split; [exact Hlog|]. intros v Hv. injection Hv as <-. reflexivity.
    + seq_tac HL Hlog.
    + seq_tac HL Hlog.
    + seq_tac HL Hlog.
    + seq_tac HL Hlog.
    + (* TModule *) destruct (first_name args) as [m|]; [|cbn; done_err].
      destruct (p_mod pol m) eqn:Em; cbn [negb]; [|cbn; done_err].
      destruct (import_attempt w m) as [mods ok] eqn:Ei.
      assert (Hnew : all_ok pol (log ++ map (fun p => EImport p m) mods)).
      { apply all_ok_app; [exact Hlog|]. apply all_ok_map. intros p Hp. cbn. rewrite Em. cbn.
        apply (import_attempt_prefix w). rewrite Ei. exact Hp. }
      destruct ok; cbn.
      * split; [exact Hnew|]. intros v Hv. injection Hv as <-. cbn. exact Em.
      * split; [exact Hnew|]. intros v Hv; discriminate.
    + (* TClass *) destruct (first_name args) as [n|]; [|cbn; done_err].
      destruct (p_mod pol (removelast n)) eqn:Em; cbn [negb]; [|cbn; done_err].
      pose proof (named_object_ok w pol log n Hlog Em) as Hno.
      destruct (named_object w log n) as [log1 o]. cbn in Hno.
      destruct o as [[m|c|f|]|]; cbn; try (split; [exact Hno|intros v Hv; discriminate]).
      destruct (p_cls pol c) eqn:Ec; cbn.
      * split; [exact Hno|]. intros v Hv. injection Hv as <-. cbn. exact Ec.
      * split; [exact Hno|intros v Hv; discriminate].
    + (* TFunction *) destruct (first_name args) as [n|]; [|cbn; done_err].
      destruct (p_mod pol (removelast n)) eqn:Em; cbn [negb]; [|cbn; done_err].
      pose proof (named_any_ok w pol log n Hlog Em) as Hna.
      destruct (named_any w log n) as [log1 o]. cbn in Hna.
      destruct o as [[m|c|f|]|]; cbn; try (split; [exact Hna|intros v Hv; discriminate]).
      * split; [exact Hna|]. intros v Hv. injection Hv as <-. cbn. exact Em.
      * split; [exact Hna|]. intros v Hv. injection Hv as <-. reflexivity.
    + (* TInstance *)
      destruct args as [|cs [|st rest]]; [cbn; done_err| |].
      * destruct HC as [Pcs _]. destruct (Pcs log Hlog) as [Hl _].
        destruct (unjelly w pol cs log) as [log1 [v|e]]; cbn in *; [|done_err].
        destruct v; cbn; try (split; [exact Hl|intros v0 Hv0; discriminate]).
        destruct (p_cls pol c); cbn; split; try exact Hl; intros v0 Hv0; discriminate.
      * destruct HC as [Pcs [Pst' _]]. destruct (Pcs log Hlog) as [Hl _].
        destruct (unjelly w pol cs log) as [log1 [v|e]]; cbn [fst snd] in *; [|done_err].
        destruct v; try (split; [exact Hl|intros v0 Hv0; discriminate]).
        destruct (p_cls pol c) eqn:Ec; cbn [negb]; [|split; [exact Hl|intros v0 Hv0; discriminate]].
        destruct (Pst' log1 Hl) as [Hl2 Hc2].
        destruct (unjelly w pol st log1) as [log2 [v2|e2]]; cbn [fst snd] in *; [|done_err].
        split.
        -- apply all_ok_app; [exact Hl2|]. unfold all_ok. cbn. rewrite Ec. reflexivity.
        -- intros v0 Hv0. injection Hv0 as <-. cbn. rewrite Ec. cbn. apply Hc2. reflexivity.
    + (* TMethod *)
      destruct args as [|a0 r0]; [cbn; done_err|].
      destruct a0 as [n| | |t0 a0]; try (cbn; done_err).
      destruct n as [|mname [|? ?]]; try (cbn; done_err).
      destruct r0 as [|sf [|sc rest]]; try (cbn; done_err).
      destruct HC as [_ [Psf [Psc _]]]. destruct (Psf log Hlog) as [Hl1 _].
      destruct (unjelly w pol sf log) as [log1 [v1|e1]]; cbn [fst snd] in *; [|done_err].
      destruct (Psc log1 Hl1) as [Hl2 Hc2].
      destruct (unjelly w pol sc log1) as [log2 [v2|e2]]; cbn [fst snd] in *; [|done_err].
      destruct v2; try (split; [exact Hl2|intros v0 Hv0; discriminate]).
      destruct (w_attr w c mname) as [[m|c'|f|]|]; try (split; [exact Hl2|intros v0 Hv0; discriminate]).
      split; [exact Hl2|]. intros v0 Hv0. injection Hv0 as <-. cbn. exact (Hc2 _ eq_refl).
    + (* TPersistent *) cbn. split; [exact Hlog|]. intros v Hv. injection Hv as <-. reflexivity.
    + (* TUnpersistable *) destruct args; cbn; [done_err|]. split; [exact Hlog|]. intros v Hv. injection Hv as <-. reflexivity.
    + (* TName *)
      destruct (p_reg pol n) eqn:Er.
      { cbn. split.
        - apply all_ok_app; [exact Hlog|]. unfold all_ok. cbn. rewrite Er. reflexivity.
        - intros v Hv. injection Hv as <-. cbn. exact Er. }
      destruct (p_mod pol (removelast n)) eqn:Em; cbn [negb]; [|cbn; done_err].
      pose proof (named_object_ok w pol log n Hlog Em) as Hno.
      destruct (named_object w log n) as [log1 o]. cbn in Hno.
      destruct o as [[m|c|f|]|]; try (cbn; split; [exact Hno|intros v Hv; discriminate]).
      destruct (p_cls pol c) eqn:Ec; cbn [negb]; [|cbn; split; [exact Hno|intros v Hv; discriminate]].
      destruct args as [|st rest]; [cbn; split; [exact Hno|intros v Hv; discriminate]|].
      destruct HC as [Pst' _]. destruct (Pst' log1 Hno) as [Hl2 Hc2].
      destruct (unjelly w pol st log1) as [log2 [v2|e2]]; cbn [fst snd] in *; [|done_err].
      split.
      * apply all_ok_app; [exact Hl2|]. unfold all_ok. cbn. rewrite Ec. reflexivity.
      * intros v0 Hv0. injection Hv0 as <-. cbn. rewrite Ec. cbn. apply Hc2. reflexivity.
  - (* SNil *) split; [|exact I]. intros log Hlog. cbn. split; [exact Hlog|]. intros vs Hvs. injection Hvs as <-. reflexivity.
  - (* SCons *) intros s Ps r [Lr Cr]. split; [|split; assumption].
    intros log Hlog. cbn [unjelly_list]. destruct (Ps log Hlog) as [Hl1 Hc1].
    destruct (unjelly w pol s log) as [log1 [v|e]]; cbn [fst snd] in *.
    + destruct (Lr log1 Hl1) as [Hl2 Hc2].
      destruct (unjelly_list w pol r log1) as [log2 [vs|e]]; cbn [fst snd] in *.
      * split; [exact Hl2|]. intros vs0 Hvs0. injection Hvs0 as <-. cbn. rewrite (Hc1 _ eq_refl), (Hc2 _ eq_refl). reflexivity.
      * split; [exact Hl2|]. intros vs0 Hvs0; discriminate.
    + split; [exact Hl1|]. intros vs0 Hvs0; discriminate.
Qed.

(** every effect of every run is covered by the policy (in the sense of [eff_ok]) and every result is clean *)
Theorem unjelly_policy : forall w pol s,
  forallb (eff_ok pol) (fst (unjelly w pol s [])) = true
  /\ (forall v, snd (unjelly w pol s []) = Ok v -> clean pol v = true).
Proof. intros w pol s. exact (proj1 (unjelly_inv w pol) s [] eq_refl). Qed.

Lemma in_log_ok : forall pol log e, forallb (eff_ok pol) log = true -> In e log -> eff_ok pol e = true.
Proof. intros pol log e H Hin. rewrite forallb_forall in H. apply H; exact Hin. Qed.

(** instantiation: only allowed classes and registered unjellyables, for every s-expression *)
Theorem instantiates_only_allowed_lemma : forall w pol s c,
  In (EInst c) (fst (unjelly w pol s [])) -> p_cls pol c = true.
Proof. intros w pol s c Hin. exact (in_log_ok pol _ _ (proj1 (unjelly_policy w pol s)) Hin). Qed.

(** imports, policy-checked requests: the module is an allowed module or an ancestor package of one *)
Theorem imports_covered_lemma : forall w pol s p auth,
  In (EImport p auth) (fst (unjelly w pol s [])) -> p_mod pol auth = true /\ is_prefix p auth = true.
Proof.
  intros w pol s p auth Hin. pose proof (in_log_ok pol _ _ (proj1 (unjelly_policy w pol s)) Hin) as H.
  cbn in H. apply andb_prop in H. exact H.
Qed.

(** imports by namedAny's whole-name trial: only the PARENT of the imported name was checked *)
Theorem trial_imports_lemma : forall w pol s p fname,
  In (EImportTrial p fname) (fst (unjelly w pol s [])) ->
  p_mod pol (removelast fname) = true /\ is_prefix p fname = true.
Proof.
  intros w pol s p fname Hin. pose proof (in_log_ok pol _ _ (proj1 (unjelly_policy w pol s)) Hin) as H.
  cbn in H. apply andb_prop in H. exact H.
Qed.

(** ---- the full-strength import statement is false: witness ---- *)
Definition w_ex : world :=
  World (fun n => name_eqb n [1%N] || name_eqb n [1%N; 2%N]) (fun _ _ => None).
Definition pol_ex : policy :=
  Policy (fun _ => true) (fun n => name_eqb n [1%N]) (fun _ => false) (fun _ => false).
Definition s_ex : sexp := SNode TFunction (SCons (SName [1%N; 2%N]) SNil).

Lemma imports_refuted_lemma :
  In (EImportTrial [1%N; 2%N] [1%N; 2%N]) (fst (unjelly w_ex pol_ex s_ex []))
  /\ (forall m, p_mod pol_ex m = true -> is_prefix [1%N; 2%N] m = false)
  /\ snd (unjelly w_ex pol_ex s_ex []) = Err Insecure.
Proof.
  split; [vm_compute; right; left; reflexivity|]. split; [|vm_compute; reflexivity].
  intros m Hm. cbn in Hm. destruct m as [|x [|y r]].
  - discriminate.
  - cbn. apply andb_false_r.
  - cbn in Hm. rewrite andb_false_r in Hm. discriminate.
Qed.

(** non-trivial example: an allowed instance with a nested list state is accepted and logged *)
Definition w_ex2 : world :=
  World (fun n => name_eqb n [1%N] || name_eqb n [1%N; 2%N])
        (fun m a => if name_eqb m [1%N; 2%N] && N.eqb a 7 then Some (OClass [1%N; 2%N; 7%N]) else None).
Definition pol_ex2 : policy :=
  Policy (fun _ => true) (fun n => name_eqb n [1%N; 2%N]) (fun c => name_eqb c [1%N; 2%N; 7%N]) (fun _ => false).
Example allowed_instance_accepted :
  unjelly w_ex2 pol_ex2 (SNode (TName [1%N; 2%N; 7%N]) (SCons (SNode TList (SCons SInt SNil)) SNil)) []
  = ([EImport [1%N] [1%N; 2%N]; EImport [1%N; 2%N] [1%N; 2%N]; EInst [1%N; 2%N; 7%N]],
     Ok (VInstance [1%N; 2%N; 7%N] (VSeq (VCons VAtom VNil)))).
Proof. vm_compute. reflexivity. Qed.
