(** C45: printer for the correspondence check.  A case = (modules, attributes, policy lists, s-expression). *)
From Coq Require Import List NArith Bool String.
From TwLib Require Import Show.
From C45 Require Import Model.
Import ListNotations.
Local Open Scope string_scope.

Definition tag_eqb (a b : tag) : bool :=
  match a, b with
  | TNone, TNone | TList, TList | TTuple, TTuple | TDict, TDict | TSet, TSet | TModule, TModule
  | TClass, TClass | TFunction, TFunction | TInstance, TInstance | TMethod, TMethod
  | TPersistent, TPersistent | TUnpersistable, TUnpersistable => true
  | TName x, TName y => name_eqb x y
  | _, _ => false
  end.

Definition mk_world (mods : list name) (attrs : list (name * N * obj)) : world :=
  World (fun n => existsb (name_eqb n) mods)
        (fun m a => match find (fun x => name_eqb (fst (fst x)) m && N.eqb (snd (fst x)) a) attrs with
                    | Some x => Some (snd x) | None => None end).
Definition mk_policy (tys : list tag) (mods cls regs : list name) : policy :=
  Policy (fun t => existsb (tag_eqb t) tys) (fun n => existsb (name_eqb n) mods)
         (fun n => existsb (name_eqb n) cls) (fun n => existsb (name_eqb n) regs).

Definition show_name (n : name) : string := String.concat "." (map show_N n).
Fixpoint show_value (v : value) : string :=
  match v with
  | VAtom => "a" | VNone => "N" | VData => "a" | VUnpers => "U"
  | VSeq l => "[" ++ show_vlist l ++ "]"
  | VModule n => "M<" ++ show_name n ++ ">"
  | VClass c => "C<" ++ show_name c ++ ">"
  | VFunc f => "F<" ++ show_name f ++ ">"
  | VInstance c st => "I<" ++ show_name c ++ ">{" ++ show_value st ++ "}"
  | VMethod c => "m<" ++ show_name c ++ ">"
  | VReg n => "R<" ++ show_name n ++ ">"
  end
with show_vlist (l : vlist) : string :=
  match l with VNil => "" | VCons v VNil => show_value v | VCons v r => show_value v ++ "," ++ show_vlist r end.

Fixpoint dedup_names (l : list name) (seen : list name) : list name :=
  match l with
  | [] => []
  | x :: r => if existsb (name_eqb x) seen then dedup_names r seen else x :: dedup_names r (x :: seen)
  end.

(** [warm] = every module of the world was imported before the call (their import effects are not printed) *)
Definition run_show (c : bool * list name * list (name * N * obj) * (list tag * list name * list name * list name) * sexp)
  : string :=
  let '(warm, mods, attrs, (tys, pm, pc, pr), s) := c in
  let log0 := if warm then map (fun m => EImport m m) mods else [] in
  let '(log1, r) := unjelly (mk_world mods attrs) (mk_policy tys pm pc pr) s log0 in
  let log := skipn (List.length log0) log1 in
  let imps := dedup_names (flat_map (fun e => match e with EImport p _ | EImportTrial p _ => [p] | _ => [] end) log) [] in
  let insts := flat_map (fun e => match e with EInst c => [c] | EInstReg n => [n] | _ => [] end) log in
  match r with
  | Ok v => "OK:" ++ show_value v
  | Err Insecure => "X:insecure"
  | Err Other => "X:error"
  end ++ "|" ++ String.concat "," (map show_name imps) ++ "|" ++ String.concat "," (map show_name insts).
