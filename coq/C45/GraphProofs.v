(** C45 graph round trip: unjelly (jelly g) rebuilds g (sharing and cycles), for graphs without a tuple on a cycle. *)
From Coq Require Import List NArith Arith Bool Lia.
From C45 Require Import Graph GraphLemmas GraphInv.
Import ListNotations.

Definition stack_reach (h : heap) (P : list nat) (r : ref) : Prop :=
  forall v, r = RNode v -> forall w, In w P -> reach h w v.

Lemma mem_cons_ne : forall w v P, w <> v -> mem w (v :: P) = mem w P.
Proof. intros w v P H. cbn. destruct (Nat.eqb w v) eqn:E; [apply Nat.eqb_eq in E; contradiction|reflexivity]. Qed.

Lemma id_spec : forall Kf V' P st1 v r,
  ~ pending_bound Kf st1 v ->
  (forall w, r = RNode w -> In w V' /\ (In w (v :: P) -> pending_bound Kf st1 w)) ->
  renP Kf V' (v :: P) r = renP Kf V' P r.
Proof.
  intros Kf V' P st1 v r Hnp Hr. destruct r as [a| |w]; try reflexivity.
  destruct (Nat.eq_dec w v) as [->|Hne].
  - exfalso. apply Hnp. apply (Hr v eq_refl). left. reflexivity.
  - unfold renP. rewrite mem_cons_ne by exact Hne. reflexivity.
Qed.

Lemma patch_spec : forall Kf V' P st1 v i r,
  In v Kf -> ~ In v P -> index_of v V' = i ->
  (forall w, r = RNode w -> In w V' /\ (In w (v :: P) -> pending_bound Kf st1 w)) ->
  patch (PD (rid Kf v)) (TNode i) (renP Kf V' (v :: P) r) = renP Kf V' P r.
Proof.
  intros Kf V' P st1 v i r HvK HvP Hidx Hr. destruct r as [a| |w]; try reflexivity.
  destruct (Nat.eq_dec w v) as [->|Hne].
  - unfold renP. cbn [mem]. rewrite Nat.eqb_refl. cbn [orb]. unfold patch.
    change (pid_eqb (PD (rid Kf v)) (PD (rid Kf v))) with (Nat.eqb (rid Kf v) (rid Kf v)).
    rewrite Nat.eqb_refl. cbn [written].
    apply mem_false in HvP. rewrite HvP, Hidx. reflexivity.
  - unfold renP. rewrite mem_cons_ne by exact Hne. destruct (mem w P) eqn:Em; [|reflexivity].
    unfold patch. change (pid_eqb (PD (rid Kf v)) (PD (rid Kf w))) with (Nat.eqb (rid Kf v) (rid Kf w)).
    destruct (Nat.eqb (rid Kf v) (rid Kf w)) eqn:E; [|reflexivity].
    apply Nat.eqb_eq in E. exfalso. apply Hne. symmetry. eapply rid_inj; [exact HvK| |exact E].
    apply (Hr w eq_refl). right. apply mem_In. exact Em.
Qed.

(** a tuple that is not on a cycle never sees an unknown item *)
Lemma tuple_no_pending : forall h Kf V' P v kids,
  tuples_acyclic h -> nth_error h v = Some (KTuple, kids) ->
  (forall w, In w (v :: P) -> reach h w v) ->
  existsb (fun kv => is_pend (snd kv)) (tslots Kf V' (v :: P) kids) = false.
Proof.
  intros h Kf V' P v kids Hac Hh Hst. destruct (existsb _ _) eqn:E; [|reflexivity]. exfalso.
  apply existsb_exists in E. destruct E as ([key t] & Hin & Hp). unfold tslots in Hin. apply in_map_iff in Hin.
  destruct Hin as ([key' r] & Heq & Hin). cbn in Heq. injection Heq as -> <-. cbn in Hp.
  destruct r as [a| |w]; try discriminate. unfold renP in Hp. destruct (mem w (v :: P)) eqn:Em; [|discriminate].
  apply mem_In in Em. apply (Hac v kids key w Hh Hin). apply Hst. exact Em.
Qed.

Lemma pending_not_resolved : forall h Kf V P st w,
  GI h Kf V P st -> In w P -> In w Kf -> mem (rid Kf w) (ud st) = false.
Proof.
  intros h Kf V P st w G HwP HwK. apply mem_false. intros Hin.
  destruct (g_ud _ _ _ _ _ G _ Hin) as (w' & _ & Hw'P & Hw'K & E).
  apply (rid_inj Kf w w' HwK Hw'K) in E. subst. contradiction.
Qed.

Lemma store_renP : forall h Kf V P st r,
  GI h Kf V P st -> (forall v, r = RNode v -> In v P -> In v Kf) ->
  store st (renP Kf V P r) = ROk (renP Kf V P r).
Proof.
  intros h Kf V P st r G Hk. destruct r as [a| |w]; try reflexivity. unfold renP.
  destruct (mem w P) eqn:Em; [|reflexivity]. cbn.
  rewrite (pending_not_resolved h Kf V P st w G); [reflexivity|apply mem_In; exact Em|].
  apply (Hk w eq_refl). apply mem_In. exact Em.
Qed.

Lemma nth_after_snoc : forall (V X : list nat) v, nth_error ((V ++ [v]) ++ X) (length V) = Some v.
Proof.
  intros V X v. rewrite <- app_assoc. rewrite nth_error_app2 by lia. rewrite Nat.sub_diag. reflexivity.
Qed.

Section Main.
Variable h : heap.
Variable Kf : list nat.
Hypothesis Hac : tuples_acyclic h.

Definition Pref (fuel : nat) : Prop :=
  forall V K r V' K' t, jel fuel h V K r = Some (V', K', t) -> incl K' Kf ->
  forall P st, GI h Kf V P st -> stack_reach h P r ->
  exists st', unj (post Kf t) st = ROk (st', renP Kf V' P r) /\ GI h Kf V' P st'
    /\ (forall w, In w P -> pending_bound Kf st w -> pending_bound Kf st' w)
    /\ (forall v, r = RNode v -> In v P -> pending_bound Kf st' v).

Definition Pkids (fuel : nat) : Prop :=
  forall V K kids V' K' ps, jel_kids fuel h V K kids = Some (V', K', ps) -> incl K' Kf ->
  forall P st, GI h Kf V P st -> (forall key r, In (key, r) kids -> stack_reach h P r) ->
  exists st', unj_kids (post_kids Kf ps) st = ROk (st', tslots Kf V' P kids) /\ GI h Kf V' P st'
    /\ (forall w, In w P -> pending_bound Kf st w -> pending_bound Kf st' w)
    /\ kid_ok Kf V' P st' kids.

Lemma step_kids : forall f, Pref f -> Pkids f -> Pkids (S f).
Proof.
  intros f IHr IHk V K kids V' K' ps Hj HK P st G Hst. cbn in Hj. destruct kids as [|[key r] rest].
  - injection Hj as <- <- <-. exists st. split; [reflexivity|]. split; [exact G|]. split; [auto|].
    unfold kid_ok. intros ? ? [].
  - destruct (jel f h V K r) as [[[V1 K1] s]|] eqn:Ej; [|discriminate].
    destruct (jel_kids f h V1 K1 rest) as [[[V2 K2] ps']|] eqn:Ek; [|discriminate].
    injection Hj as <- <- <-.
    destruct (proj1 (jel_mono f h) _ _ _ _ _ _ Ej) as ([X HX] & HKa & HvV1).
    destruct (proj2 (jel_mono f h) _ _ _ _ _ _ Ek) as ([Y HY] & HKb & HvV2).
    assert (HK1 : incl K1 Kf) by (eapply incl_tran; eassumption).
    destruct (IHr _ _ _ _ _ _ Ej HK1 P st G (Hst key r (or_introl eq_refl))) as (st1 & Hu1 & G1 & Hp1 & Hb1).
    destruct (IHk _ _ _ _ _ _ Ek HK P st1 G1 (fun key0 r0 Hin => Hst key0 r0 (or_intror Hin)))
      as (st2 & Hu2 & G2 & Hp2 & Hk2).
    exists st2. split; [|split; [exact G2|split]].
    + cbn [post_kids unj_kids]. rewrite Hu1.
      rewrite (store_renP h Kf V1 P st1 r G1) by (intros v E HvP; apply (Hb1 v E HvP)).
      rewrite Hu2. unfold tslots. cbn [map fst snd]. rewrite HY.
      rewrite (renP_grow Kf V1 P Y r) by (intros w E; apply (HvV1 w E)). reflexivity.
    + intros w HwP Hb. apply Hp2; [exact HwP|]. apply Hp1; assumption.
    + intros key0 w [E|Hin].
      * injection E as -> ->. split; [rewrite HY; apply in_or_app; left; apply (HvV1 w eq_refl)|].
        intros HwP. apply Hp2; [exact HwP|]. apply (Hb1 w eq_refl HwP).
      * apply (Hk2 key0 w Hin).
Qed.

Lemma unj_node : forall k fk st st1 slots,
  unj_kids fk (Ust (uh st ++ [(k, [])]) (ud st) (ut st) (ur st)) = ROk (st1, slots) ->
  existsb (fun kv => is_pend (snd kv)) slots = false ->
  unj (FNode k fk) st = ROk (Ust (set_node (length (uh st)) (k, slots) (uh st1)) (ud st1) (ut st1) (ur st1),
                             TNode (length (uh st))).
Proof. intros k fk st st1 slots Hk Hp. cbn [unj]. rewrite Hk. destruct k; try reflexivity. rewrite Hp. reflexivity. Qed.

Lemma no_pending_nontuple : forall k, k <> KTuple -> forall fk st st1 slots,
  unj_kids fk (Ust (uh st ++ [(k, [])]) (ud st) (ut st) (ur st)) = ROk (st1, slots) ->
  unj (FNode k fk) st = ROk (Ust (set_node (length (uh st)) (k, slots) (uh st1)) (ud st1) (ut st1) (ur st1),
                             TNode (length (uh st))).
Proof. intros k Hk fk st st1 slots H. cbn [unj]. rewrite H. destruct k; try reflexivity. contradiction. Qed.

Lemma unj_ref_eq : forall r b st,
  unj (FRef r b) st =
  match unj b st with
  | RAssert => RAssert
  | ROk (st1, o) =>
      match lookup r (ur st1) with
      | None => ROk (Ust (uh st1) (ud st1) (ut st1) ((r, o) :: ur st1), o)
      | Some (TPend p _) =>
          let st2 := resolve (length (ut st1)) p o st1 in
          ROk (Ust (uh st2) (ud st2) (ut st2) ((r, o) :: ur st2), o)
      | Some _ => RAssert
      end
  end.
Proof. reflexivity. Qed.

Lemma resolve_noT : forall n r o st, ut st = [] ->
  resolve n (PD r) o st = Ust (map (map_slots (patch (PD r) o)) (uh st)) (r :: ud st) (ut st) (ur st).
Proof.
  intros n r o [uh0 ud0 ut0 ur0] H. cbn in H. subst ut0. destruct n; reflexivity.
Qed.

Lemma step_ref : forall f, Pkids f -> Pref (S f).
Proof.
  intros f IHk V K r V' K' t Hj HK P st G Hst. cbn in Hj. destruct r as [a| |v].
  - injection Hj as <- <- <-. exists st. split; [reflexivity|]. split; [exact G|]. split; [auto|intros; discriminate].
  - injection Hj as <- <- <-. exists st. split; [reflexivity|]. split; [exact G|]. split; [auto|intros; discriminate].
  - destruct (mem v V) eqn:EmV.
    + (* met again *)
      injection Hj as <- <- <-. assert (HvK : In v Kf) by (apply HK; apply add_once_incl).
      assert (HvV : In v V) by (apply mem_In; exact EmV).
      cbn [post unj]. destruct (mem v P) eqn:EmP.
      * assert (HvP : In v P) by (apply mem_In; exact EmP).
        destruct (g_refs_prog _ _ _ _ _ G v HvP HvK) as [Hl|Hl]; rewrite Hl.
        -- exists (Ust (uh st) (ud st) (ut st) ((rid Kf v, TPend (PD (rid Kf v)) true) :: ur st)).
           split; [unfold renP; rewrite EmP; reflexivity|]. split; [apply GI_deref_new; assumption|]. split.
           ++ intros w HwP [HwK Hb]. split; [exact HwK|]. cbn [ur]. destruct (Nat.eq_dec w v) as [->|Hne].
              ** apply lookup_cons_eq.
              ** rewrite lookup_bind by assumption. exact Hb.
           ++ intros v0 E _. injection E as <-. split; [exact HvK|]. cbn [ur]. apply lookup_cons_eq.
        -- exists st. split; [unfold renP; rewrite EmP; reflexivity|]. split; [exact G|]. split; [auto|].
           intros v0 E _. injection E as <-. split; assumption.
      * assert (HvP : ~ In v P) by (apply mem_false; exact EmP).
        rewrite (g_refs_done _ _ _ _ _ G v HvV HvP HvK). exists st.
        split; [unfold renP; rewrite EmP; reflexivity|]. split; [exact G|]. split; [auto|].
        intros v0 E H0. injection E as <-. contradiction.
    + (* first visit *)
      destruct (nth_error h v) as [[k kids]|] eqn:Hh; [|discriminate].
      destruct (jel_kids f h (V ++ [v]) K kids) as [[[V1 K1] ps]|] eqn:Ek; [|discriminate].
      injection Hj as <- <- <-.
      assert (HvV : ~ In v V) by (apply mem_false; exact EmV).
      assert (HvP : ~ In v P) by (intros H0; apply HvV; apply (g_P _ _ _ _ _ G); exact H0).
      destruct (proj2 (jel_mono f h) _ _ _ _ _ _ Ek) as ([X HX] & HKa & HvV1).
      pose proof (GI_alloc h Kf V P st v k kids G HvV Hh) as Ga.
      set (sta := Ust (uh st ++ [(k, [])]) (ud st) (ut st) (ur st)) in *.
      assert (Hstk : forall key r, In (key, r) kids -> stack_reach h (v :: P) r).
      { intros key r Hin c -> w [<-|HwP].
        - eapply reach_step; [exact Hh|exact Hin|apply reach_refl].
        - eapply reach_edge; [apply (Hst v eq_refl w HwP)|exact Hh|exact Hin]. }
      destruct (IHk _ _ _ _ _ _ Ek HK (v :: P) sta Ga Hstk) as (st1 & Hu1 & G1 & Hp1 & Hk1).
      set (i := length (uh st)).
      assert (Hi : nth_error V1 i = Some v).
      { unfold i. rewrite (g_len _ _ _ _ _ G), HX. apply nth_after_snoc. }
      assert (Hidx : index_of v V1 = i) by (apply nth_index_of; [apply (g_nodup _ _ _ _ _ G1)|exact Hi]).
      assert (Hnp : existsb (fun kv => is_pend (snd kv)) (tslots Kf V1 (v :: P) kids) = false \/ k <> KTuple).
      { destruct k; try (right; discriminate). left. eapply tuple_no_pending; [exact Hac|exact Hh|].
        intros w [<-|HwP]; [apply reach_refl|apply (Hst v eq_refl w HwP)]. }
      assert (Hnode : unj (FNode k (post_kids Kf ps)) st =
                ROk (Ust (set_node i (k, tslots Kf V1 (v :: P) kids) (uh st1)) (ud st1) (ut st1) (ur st1), TNode i)).
      { destruct Hnp as [Hnp|Hnt]; [apply unj_node; assumption|apply no_pending_nontuple; assumption]. }
      assert (Hres : renP Kf V1 P (RNode v) = TNode i).
      { unfold renP. apply mem_false in HvP. rewrite HvP, Hidx. reflexivity. }
      assert (Hpers : forall ur', (forall w, In w Kf -> w <> v -> lookup (rid Kf w) ur' = lookup (rid Kf w) (ur st1)) ->
                forall uh' ud' ut' w, In w P -> pending_bound Kf st w -> pending_bound Kf (Ust uh' ud' ut' ur') w).
      { intros ur' Hur uh' ud' ut' w HwP Hb. assert (Hb1 : pending_bound Kf st1 w).
        { apply Hp1; [right; exact HwP|]. exact Hb. }
        destruct Hb1 as [HwK Hl]. split; [exact HwK|]. cbn [ur]. rewrite Hur; [exact Hl|exact HwK|].
        intros ->. contradiction. }
      cbn [post]. destruct (mem v Kf) eqn:EmK.
      * assert (HvK : In v Kf) by (apply mem_In; exact EmK).
        rewrite unj_ref_eq, Hnode. cbn [ur uh ud ut].
        destruct (g_refs_prog _ _ _ _ _ G1 v (or_introl eq_refl) HvK) as [Hl|Hl]; rewrite Hl.
        -- (* nothing points back at v yet *)
           eexists. split; [rewrite Hres; reflexivity|]. split; [|split].
           ++ rewrite <- (map_slots_id (set_node i _ (uh st1))).
              apply (GI_complete_gen h Kf V1 P st1 v i k kids (fun t => t) (ud st1) ((rid Kf v, TNode i) :: ur st1)
                       G1 Hi HvP Hh Hk1).
              ** intros r Hr. apply (id_spec Kf V1 P st1 v r); [|exact Hr]. intros [_ Hb]. rewrite Hl in Hb. discriminate.
              ** intros r Hr. left. exact Hr.
              ** intros w HwK Hne. apply lookup_bind; assumption.
              ** intros _. apply lookup_cons_eq.
           ++ apply Hpers. intros w HwK Hne. apply lookup_bind; assumption.
           ++ intros v0 E H0. injection E as <-. contradiction.
        -- (* a placeholder for v is outstanding: resolve it *)
           rewrite resolve_noT by (apply (g_ut _ _ _ _ _ G1)). cbn [uh ud ut ur].
           eexists. split; [rewrite Hres; reflexivity|]. split; [|split].
           ++ apply (GI_complete_gen h Kf V1 P st1 v i k kids (patch (PD (rid Kf v)) (TNode i))
                       (rid Kf v :: ud st1) ((rid Kf v, TNode i) :: ur st1) G1 Hi HvP Hh Hk1).
              ** intros r Hr. apply (patch_spec Kf V1 P st1 v i r); assumption.
              ** intros r [<-|Hr]; [right; split; [reflexivity|exact HvK]|left; exact Hr].
              ** intros w HwK Hne. apply lookup_bind; assumption.
              ** intros _. apply lookup_cons_eq.
           ++ apply Hpers. intros w HwK Hne. apply lookup_bind; assumption.
           ++ intros v0 E H0. injection E as <-. contradiction.
      * assert (HvK : ~ In v Kf) by (apply mem_false; exact EmK).
        rewrite Hnode. eexists. split; [rewrite Hres; reflexivity|]. split; [|split].
        -- rewrite <- (map_slots_id (set_node i _ (uh st1))).
           apply (GI_complete_gen h Kf V1 P st1 v i k kids (fun t => t) (ud st1) (ur st1) G1 Hi HvP Hh Hk1).
           ++ intros r Hr. apply (id_spec Kf V1 P st1 v r); [|exact Hr]. intros [Hb _]. contradiction.
           ++ intros r Hr. left. exact Hr.
           ++ reflexivity.
           ++ intros H0. contradiction.
        -- apply Hpers. reflexivity.
        -- intros v0 E H0. injection E as <-. contradiction.
Qed.

Lemma main : forall fuel, Pref fuel /\ Pkids fuel.
Proof.
  induction fuel as [|f [IHr IHk]].
  - split; intros ? ? ? ? ? ? H; discriminate.
  - split; [apply step_ref; exact IHk|apply step_kids; assumption].
Qed.

End Main.

Lemma renP_nil : forall Kf V r, renP Kf V [] r = ren V r.
Proof. intros Kf V [a| |w]; reflexivity. Qed.

(** jelly then unjelly rebuilds the graph: the objects started by the walk, in order, ARE the objects built by
    unjelly, in order, and every slot points to the corresponding object *)
Theorem roundtrip_lemma : forall h fuel root V K t,
  tuples_acyclic h -> jel fuel h [] [] root = Some (V, K, t) ->
  exists st, unj (post K t) ust0 = ROk (st, ren V root)
    /\ length (uh st) = length V /\ NoDup V /\ ut st = []
    /\ (forall v, root = RNode v -> In v V)
    /\ (forall i v, nth_error V i = Some v ->
          exists n, nth_error h v = Some n /\ nth_error (uh st) i = Some (ren_node V n)
                    /\ forall key w, In (key, RNode w) (snd n) -> In w V).
Proof.
  intros h fuel root V K t Hac Hj.
  assert (Hsr : stack_reach h [] root) by (intros v _ w []).
  destruct (proj1 (main h K Hac fuel) _ _ _ _ _ _ Hj (incl_refl K) [] ust0 (GI_empty h K) Hsr) as (st & Hu & G & _ & _).
  exists st. rewrite renP_nil in Hu. split; [exact Hu|]. split; [apply (g_len _ _ _ _ _ G)|].
  split; [apply (g_nodup _ _ _ _ _ G)|]. split; [apply (g_ut _ _ _ _ _ G)|].
  split; [apply (proj1 (jel_mono fuel h) _ _ _ _ _ _ Hj)|].
  intros i v Hi. destruct (g_done _ _ _ _ _ G i v Hi (fun x => x)) as (k & kids & Hh & Hn & Hk).
  exists (k, kids). split; [exact Hh|]. split.
  - rewrite Hn. unfold ren_node, tslots. cbn [fst snd].
    replace (map (fun kv : N * ref => (fst kv, renP K V [] (snd kv))) kids)
      with (map (fun kv : N * ref => (fst kv, ren V (snd kv))) kids); [reflexivity|].
    apply map_ext. intros [key r]. cbn [fst snd]. rewrite renP_nil. reflexivity.
  - intros key w Hin. apply (Hk key w Hin).
Qed.

(** ---- cycles through tuples: the two failures of the real code, reproduced by the model ---- *)
(** root list [t, l] ; instance with attribute -> t ; t = (root, instance) *)
Definition bad_heap1 : heap :=
  [ (KList, [(0%N, RNode 2); (0%N, RNode 3)]);
    (KInst 1%N, [(1%N, RNode 2)]);
    (KTuple, [(0%N, RNode 0); (0%N, RNode 1)]);
    (KList, []) ].
(** root [l1] ; l1 = [root, d2] ; d2 = {k0: d4, k1: t5} ; d4 = {k0: l1, k1: t5} ; t5 = (d4,) *)
Definition bad_heap2 : heap :=
  [ (KList, [(0%N, RNode 1)]);
    (KList, [(0%N, RNode 0); (0%N, RNode 2)]);
    (KDict, [(1%N, RNode 3); (2%N, RNode 4)]);
    (KDict, [(1%N, RNode 1); (2%N, RNode 4)]);
    (KTuple, [(0%N, RNode 3)]) ].

Lemma bad1_placeholder_left :
  exists s st, jelly 100 bad_heap1 (RNode 0) = Some s /\ unj s ust0 = ROk (st, TNode 0)
    /\ nth_error (uh st) 2 = Some (KInst 1%N, [(1%N, TPend (PT 0) false)]).
Proof. eexists. eexists. split; [vm_compute; reflexivity|]. split; vm_compute; reflexivity. Qed.

Lemma bad2_asserts : exists s, jelly 100 bad_heap2 (RNode 0) = Some s /\ unj s ust0 = RAssert.
Proof. eexists. split; vm_compute; reflexivity. Qed.

Lemma bad1_tuple_on_cycle : ~ tuples_acyclic bad_heap1.
Proof.
  intros H. apply (H 2 [(0%N, RNode 0); (0%N, RNode 1)] 0%N 0); [reflexivity|left; reflexivity|].
  eapply reach_step; [reflexivity|left; reflexivity|apply reach_refl].
Qed.
Lemma bad2_tuple_on_cycle : ~ tuples_acyclic bad_heap2.
Proof.
  intros H. apply (H 4 [(0%N, RNode 3)] 0%N 3); [reflexivity|left; reflexivity|].
  eapply reach_step; [reflexivity|right; left; reflexivity|apply reach_refl].
Qed.

(** a shared, cyclic graph with an (acyclic) tuple that meets the hypothesis *)
Definition good_heap : heap :=
  [ (KList, [(0%N, RNode 0); (0%N, RNode 1); (0%N, RNode 1); (0%N, RNode 2); (0%N, RNode 3)]);
    (KDict, [(1%N, RNode 0); (2%N, RNode 2)]);
    (KTuple, [(0%N, RAtom 5); (0%N, RNone)]);
    (KInst 1%N, [(3%N, RNode 3); (4%N, RNode 1)]) ].
Lemma good_heap_acyclic : tuples_acyclic good_heap.
Proof.
  intros t kids key c Hn Hin. destruct t as [|[|[|[|t]]]]; cbn in Hn; try discriminate.
  - injection Hn as <-. cbn in Hin. destruct Hin as [E|[E|[]]]; discriminate.
  - destruct t; discriminate.
Qed.
Example good_heap_roundtrip :
  exists s st, jelly 100 good_heap (RNode 0) = Some s /\ unj s ust0 = ROk (st, TNode 0)
    /\ uh st = map (ren_node [0; 1; 2; 3]) good_heap.
Proof. eexists. eexists. split; [vm_compute; reflexivity|]. split; vm_compute; reflexivity. Qed.
