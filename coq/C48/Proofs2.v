(** C48, part 2: the raw-bytes front end of decode() (splitlines / the field expression / strip)
    returns exactly the fields of a canonically serialised response. *)
From Coq Require Import List NArith ZArith Bool Lia.
From C48 Require Import Model Proofs.
Import ListNotations.

(** key="value", key="value", ... *)
Definition ser_field (kv : bytes * bytes) : bytes := fst kv ++ 61%N :: 34%N :: snd kv ++ [34%N].
Fixpoint ser (fs : fields) : bytes :=
  match fs with
  | [] => []
  | [kv] => ser_field kv
  | kv :: r => ser_field kv ++ 44%N :: 32%N :: ser r
  end.

Definition no_nl (c : N) : bool := negb (N.eqb c 10 || N.eqb c 13).
(** a key: non-empty, no '=' / space / line end, nothing strip() would remove;
    a value: no double quote, no line end, nothing strip() would remove *)
Definition wf_field (kv : bytes * bytes) : Prop :=
  fst kv <> [] /\ Forall (fun c => key_char c = true /\ no_nl c = true) (fst kv) /\ strip (fst kv) = fst kv
  /\ Forall (fun c => N.eqb c 34 = false /\ no_nl c = true) (snd kv) /\ strip (snd kv) = snd kv.

Lemma span_stop : forall p a c r, Forall (fun x => p x = true) a -> p c = false -> span p (a ++ c :: r) = (a, c :: r).
Proof.
  induction a as [|x a IH]; intros c r Ha Hc; cbn.
  - now rewrite Hc.
  - inversion Ha; subst. rewrite H1. now rewrite IH.
Qed.
Lemma span_all : forall p a, Forall (fun x => p x = true) a -> span p a = (a, []).
Proof. induction a as [|x a IH]; intros Ha; cbn; auto. inversion Ha; subst. rewrite H1. now rewrite IH. Qed.

Lemma match_at_field : forall k v tail,
  k <> [] -> Forall (fun c => key_char c = true) k -> Forall (fun c => N.eqb c 34 = false) v ->
  match_at (k ++ 61%N :: 34%N :: v ++ 34%N :: tail) = Some (k, v, drop_comma tail).
Proof.
  intros k v tail Hk Hkc Hv. unfold match_at.
  rewrite (span_stop key_char k 61%N) by (auto; reflexivity).
  destruct k as [|c k']; [congruence|].
  rewrite (span_stop (fun c => negb (N.eqb c 34)) v 34%N); [reflexivity | | reflexivity].
  eapply Forall_impl; [|exact Hv]. cbn. intros a Ha. now rewrite Ha.
Qed.

Lemma match_at_space : forall r, match_at (32%N :: r) = None.
Proof. reflexivity. Qed.

Lemma wf_key_chars : forall kv, wf_field kv -> Forall (fun c => key_char c = true) (fst kv).
Proof. intros kv (_ & H & _). eapply Forall_impl; [|exact H]. intros a [Ha _]. exact Ha. Qed.
Lemma wf_val_chars : forall kv, wf_field kv -> Forall (fun c => N.eqb c 34 = false) (snd kv).
Proof. intros kv (_ & _ & _ & H & _). eapply Forall_impl; [|exact H]. intros a [Ha _]. exact Ha. Qed.

Lemma ser_cons : forall kv r, r <> [] -> ser (kv :: r) = ser_field kv ++ 44%N :: 32%N :: ser r.
Proof. intros kv [|x r] H; [congruence | reflexivity]. Qed.

Lemma length_ser_cons : forall kv r, length (ser r) + 2 <= length (ser (kv :: r)).
Proof.
  intros kv [|x r]; [cbn [ser length]; unfold ser_field; rewrite app_length; cbn [length]; lia|].
  rewrite (ser_cons kv (x :: r)) by discriminate. rewrite app_length. cbn [length]. lia.
Qed.

Lemma findall_ser : forall fs fuel, Forall wf_field fs -> length (ser fs) < fuel -> findall fuel (ser fs) = fs.
Proof.
  induction fs as [|kv r IH]; intros fuel Hwf Hf.
  - destruct fuel; reflexivity.
  - inversion Hwf as [|? ? Hkv Hr]; subst. destruct fuel as [|f]; [lia|].
    pose proof (length_ser_cons kv r) as Hl.
    pose proof (wf_key_chars _ Hkv) as Hkc. pose proof (wf_val_chars _ Hkv) as Hvc.
    destruct kv as [k v]. destruct Hkv as (Hne & _). cbn [fst snd] in *.
    destruct k as [|c k']; [congruence|].
    destruct r as [|x r'].
    + cbn [ser]. unfold ser_field. cbn [fst snd findall app].
      change (c :: k' ++ 61%N :: 34%N :: v ++ [34%N]) with ((c :: k') ++ 61%N :: 34%N :: v ++ 34%N :: []).
      rewrite match_at_field; [| discriminate | exact Hkc | exact Hvc].
      cbn. destruct f; reflexivity.
    + change (ser ((c :: k', v) :: x :: r')) with (ser_field (c :: k', v) ++ 44%N :: 32%N :: ser (x :: r')) in *.
      unfold ser_field. cbn [fst snd].
      assert (E : ((c :: k') ++ 61%N :: 34%N :: v ++ [34%N]) ++ 44%N :: 32%N :: ser (x :: r')
                  = (c :: k') ++ 61%N :: 34%N :: v ++ 34%N :: (44%N :: 32%N :: ser (x :: r'))).
      { rewrite <- app_assoc. cbn [app]. do 2 f_equal. f_equal. rewrite <- app_assoc. reflexivity. }
      unfold bytes in *. rewrite E. cbn [findall app].
      change (c :: k' ++ 61%N :: 34%N :: v ++ 34%N :: 44%N :: 32%N :: ser (x :: r'))
        with ((c :: k') ++ 61%N :: 34%N :: v ++ 34%N :: (44%N :: 32%N :: ser (x :: r'))).
      rewrite match_at_field; [| discriminate | exact Hkc | exact Hvc].
      cbn [drop_comma]. destruct f as [|f']; [cbn in Hl, Hf; lia|]. cbn [findall]. rewrite match_at_space.
      f_equal. apply IH; auto. lia.
Qed.

Lemma ser_no_nl : forall fs, Forall wf_field fs -> Forall (fun c => no_nl c = true) (ser fs).
Proof.
  induction fs as [|kv r IH]; intros H; [constructor|]. inversion H as [|? ? Hkv Hr]; subst.
  assert (Hf : Forall (fun c => no_nl c = true) (ser_field kv)).
  { destruct Hkv as (_ & Hk & _ & Hv & _). unfold ser_field. apply Forall_app. split.
    - eapply Forall_impl; [|exact Hk]. intros a [_ Ha]. exact Ha.
    - constructor; [reflexivity|]. constructor; [reflexivity|]. apply Forall_app. split; [|repeat constructor].
      eapply Forall_impl; [|exact Hv]. intros a [_ Ha]. exact Ha. }
  destruct r as [|x r']; [exact Hf|].
  change (ser (kv :: x :: r')) with (ser_field kv ++ 44%N :: 32%N :: ser (x :: r')).
  apply Forall_app. split; [exact Hf|]. constructor; [reflexivity|]. constructor; [reflexivity|]. now apply IH.
Qed.

Lemma splitlines_one : forall s, s <> [] -> Forall (fun c => no_nl c = true) s -> splitlines s = [s].
Proof.
  intros s Hne H. unfold splitlines. cbn [splitlines_go]. destruct s as [|c r]; [congruence|].
  rewrite (span_all (fun c => negb (N.eqb c 10 || N.eqb c 13)) (c :: r)); [reflexivity|].
  exact H.
Qed.

Lemma ser_nonempty : forall kv r, wf_field kv -> ser (kv :: r) <> [].
Proof.
  intros [k v] r (Hne & _) H. cbn [fst] in Hne. destruct r; cbn in H; unfold ser_field in H; cbn in H;
    destruct k; try congruence; discriminate H.
Qed.

Lemma map_strip_id : forall fs, Forall wf_field fs -> map (fun kv => (strip (fst kv), strip (snd kv))) fs = fs.
Proof.
  induction fs as [|[k v] r IH]; intros H; cbn [map fst snd]; auto. inversion H as [|? ? Hkv Hr]; subst.
  destruct Hkv as (_ & _ & Hk & _ & Hv). cbn [fst snd] in *. rewrite Hk, Hv. f_equal. auto.
Qed.

(** the raw front end returns exactly the fields of a canonically serialised response *)
Lemma parse_ser : forall fs, Forall wf_field fs -> parse_fields (ser fs) = fs.
Proof.
  intros fs H. unfold parse_fields. destruct fs as [|kv r].
  - reflexivity.
  - inversion H as [|? ? Hkv Hr]; subst.
    rewrite splitlines_one; [| now apply ser_nonempty | now apply ser_no_nl].
    cbn [join]. rewrite findall_ser; [now apply map_strip_id | exact H | lia].
Qed.

Definition ascii_keys (fs : fields) : Prop := Forall (fun kv => non_ascii (fst kv) = false) fs.

Lemma existsb_false : forall (fs : fields), ascii_keys fs -> existsb (fun kv => non_ascii (fst kv)) fs = false.
Proof. induction fs as [|kv r IH]; intros H; cbn; auto. inversion H; subst. rewrite H2. cbn. auto. Qed.

Lemma login_raw_ser : forall HX b64dec priv realm now fs method host pw,
  Forall wf_field fs -> ascii_keys fs ->
  login_raw HX b64dec priv realm now (ser fs) method host pw = login HX b64dec priv realm now fs method host pw.
Proof.
  intros. unfold login_raw, decode_raw, login. rewrite parse_ser by assumption. now rewrite existsb_false.
Qed.

Lemma accept_iff_raw :
  forall (HX : algo -> bytes -> bytes) (b64enc : bytes -> bytes) (b64dec : bytes -> option bytes),
  (forall a x y, HX a x = HX a y -> x = y) -> (forall a x, ~ In dash (HX a x)) ->
  (forall x, b64dec (b64enc x) = Some x) -> (forall x, ~ In dash (b64enc x)) ->
  forall priv realm fs u n0 ip0 t0 method pw r,
  Forall wf_field fs -> ascii_keys fs ->
  ~ In comma n0 -> ~ In comma ip0 ->
  get k_username fs = Some u -> u <> [] ->
  get k_nonce fs = Some n0 -> get k_opaque fs = Some (gen_opaque HX b64enc priv n0 ip0 t0) ->
  expected_response HX realm u method fs pw = Some r -> get k_response fs = Some r ->
  forall now host pw',
    login_raw HX b64dec priv realm now (ser fs) method host pw' = Some true <->
    (host = ip0 /\ (Z.of_N now - Z.of_N t0 <= lifetime)%Z /\ pw' = pw).
Proof.
  intros HX b64enc b64dec H1 H2 H3 H4 priv realm fs u n0 ip0 t0 method pw r Hwf Hasc Hn0 Hi0 Hu Hne Hn Ho He Hr now host pw'.
  rewrite login_raw_ser by assumption.
  exact (accept_iff HX b64enc b64dec H1 H2 H3 H4 priv realm fs u n0 ip0 t0 method pw r Hn0 Hi0 Hu Hne Hn Ho He Hr now host pw').
Qed.

(** a field name that is not ASCII is an ordinary login failure (used to be UnicodeDecodeError) *)
Lemma non_ascii_key_fails : forall HX b64dec priv now raw host,
  existsb (fun kv => non_ascii (fst kv)) (parse_fields raw) = true ->
  decode_raw HX b64dec priv now raw host = LoginFailed.
Proof. intros. unfold decode_raw. now rewrite H. Qed.

Example parse_example :
  parse_fields [117;61;34;97;32;34;44;13;10;32;120;61;49;44;44;121;61;34;122]%N
  = [([117]%N, [97]%N); ([120]%N, [49]%N); ([44;121]%N, [34;122]%N)].
Proof. vm_compute. reflexivity. Qed.
