(** C48: HTTP Digest credentials (twisted/cred/credentials.py DigestCredentialFactory,
    DigestedCredentials; twisted/cred/_digest.py), acceptance logic on parsed fields.

    Bytes are [list N].  The acceptance logic works on the list of (key, value) pairs; the raw front end of
    decode() -- splitlines / join, the key=value regular expression scanned by findall, strip, the ASCII
    check on field names -- is modelled at the end of this file ([parse_fields], [decode_raw]).  The hash
    ("hexlified digest of algorithm a") and base64 are parameters; Run.v instantiates them for the
    correspondence run.
    This is the REPAIRED behaviour (fixes/C48-*.patch): undecodable base64 in the opaque is a
    LoginFailed; checkPassword answers False when the digest-uri is missing, the algorithm is
    unknown, qop is auth-int, or the algorithm is md5-sess without a cnonce. *)
From Coq Require Import List NArith ZArith Bool.
Import ListNotations.

Definition bytes := list N.

Fixpoint beq (a b : bytes) : bool :=
  match a, b with
  | [], [] => true
  | x :: a', y :: b' => N.eqb x y && beq a' b'
  | _, _ => false
  end.

(** Python [bytes.split(sep)] for a one-byte separator: pieces between all occurrences *)
Fixpoint split_on (sep : N) (s : bytes) : list bytes :=
  match s with
  | [] => [[]]
  | c :: r =>
      if N.eqb c sep then [] :: split_on sep r
      else match split_on sep r with
           | p :: ps => (c :: p) :: ps
           | [] => [[c]]
           end
  end.

Fixpoint join (sep : N) (l : list bytes) : bytes :=
  match l with
  | [] => []
  | [x] => x
  | x :: r => x ++ sep :: join sep r
  end.

Definition comma : N := 44.  Definition dash : N := 45.  Definition colon : N := 58.

(** b"%d" % n for n >= 0, and [int(bytes)] restricted to -?[0-9]+ (what the generator uses;
    Python also accepts surrounding whitespace, '+', and underscores) *)
Fixpoint dec_digits (fuel : nat) (n : N) : bytes :=
  match fuel with
  | O => []
  | S f => if N.ltb n 10 then [(48 + n)%N] else dec_digits f (N.div n 10) ++ [(48 + N.modulo n 10)%N]
  end.
Definition show_dec (n : N) : bytes := dec_digits (S (N.to_nat (N.log2 n))) n.

Fixpoint parse_digits (s : bytes) (acc : N) : option N :=
  match s with
  | [] => Some acc
  | c :: r => if (N.leb 48 c && N.leb c 57)%bool then parse_digits r (acc * 10 + (c - 48))%N else None
  end.
Definition parse_int (s : bytes) : option Z :=
  match s with
  | [] => None
  | 45%N :: r => match r with [] => None | _ => option_map (fun n => Z.opp (Z.of_N n)) (parse_digits r 0%N) end
  | _ => option_map Z.of_N (parse_digits s 0%N)
  end.

Definition lower_byte (c : N) : N := if (N.leb 65 c && N.leb c 90)%bool then (c + 32)%N else c.
Definition lower (s : bytes) : bytes := map lower_byte s.

Inductive algo := Md5 | Sha.
(** _digest.algorithms: md5, md5-sess -> md5; sha -> sha1 *)
Definition b_md5 : bytes := [109; 100; 53]%N.
Definition b_md5sess : bytes := [109; 100; 53; 45; 115; 101; 115; 115]%N.
Definition b_sha : bytes := [115; 104; 97]%N.
Definition b_auth : bytes := [97; 117; 116; 104]%N.
Definition b_authint : bytes := [97; 117; 116; 104; 45; 105; 110; 116]%N.
Definition algo_of (name : bytes) : option algo :=
  if beq name b_md5 then Some Md5 else if beq name b_md5sess then Some Md5
  else if beq name b_sha then Some Sha else None.

Definition lifetime : Z := 900.     (* CHALLENGE_LIFETIME_SECS *)

(** field dictionary as built by decode(): a later pair overrides an earlier one *)
Definition fields := list (bytes * bytes).
Fixpoint get (k : bytes) (fs : fields) : option bytes :=
  match fs with
  | [] => None
  | (k', v) :: r => match get k r with Some v' => Some v' | None => if beq k k' then Some v else None end
  end.

Definition k_username : bytes := [117;115;101;114;110;97;109;101]%N.
Definition k_opaque : bytes := [111;112;97;113;117;101]%N.
Definition k_nonce : bytes := [110;111;110;99;101]%N.
Definition k_response : bytes := [114;101;115;112;111;110;115;101]%N.
Definition k_uri : bytes := [117;114;105]%N.
Definition k_cnonce : bytes := [99;110;111;110;99;101]%N.
Definition k_nc : bytes := [110;99]%N.
Definition k_algorithm : bytes := [97;108;103;111;114;105;116;104;109]%N.
Definition k_qop : bytes := [113;111;112]%N.

Section Digest.
  Variable HX : algo -> bytes -> bytes.          (* hexlify(hash(x).digest()) *)
  Variable b64enc : bytes -> bytes.              (* base64.b64encode *)
  Variable b64dec : bytes -> option bytes.       (* base64.b64decode; None = binascii.Error *)

  Variable priv : bytes.                         (* DigestCredentialFactory.privateKey *)
  Variable realm : bytes.                        (* authenticationRealm *)

  Definition opaque_key (nonce ip : bytes) (t : N) : bytes := join comma [nonce; ip; show_dec t].

  (** _generateOpaque(nonce, clientip) at time t *)
  Definition gen_opaque (nonce ip : bytes) (t : N) : bytes :=
    let key := opaque_key nonce ip t in
    HX Md5 (key ++ priv) ++ dash :: b64enc key.

  (** _verifyOpaque(opaque, nonce, clientip) at time now: true = verified, false = LoginFailed *)
  Definition verify_opaque (now : N) (opaque nonce ip : bytes) : bool :=
    match split_on dash opaque with
    | [mac; ekey] =>
        match b64dec ekey with
        | None => false
        | Some key =>
            match split_on comma key with
            | [n; i; w] =>
                beq n nonce && beq i ip &&
                match parse_int w with
                | None => false
                | Some when => Z.leb (Z.of_N now - when) lifetime && beq (HX Md5 (key ++ priv)) mac
                end
            | _ => false
            end
        end
    | _ => false
    end.

  Inductive decoded := LoginFailed | Creds (username : bytes) (fs : fields).

  (** decode() after field parsing; host = the client address the response came from *)
  Definition decode (now : N) (fs : fields) (host : bytes) : decoded :=
    match get k_username fs with
    | None | Some [] => LoginFailed
    | Some u =>
        match get k_opaque fs, get k_nonce fs with
        | Some o, Some n => if verify_opaque now o n host then Creds u fs else LoginFailed
        | _, _ => LoginFailed
        end
    end.

  Definition nonempty (o : option bytes) : bool := match o with Some (_ :: _) => true | _ => false end.
  Definition orempty (o : option bytes) : bytes := match o with Some x => x | None => [] end.

  (** _digest.calcHA1 / calcHA2 / calcResponse (md5-sess second round included) *)
  Definition calcHA1 (aname : bytes) (a : algo) (user pw nonce cnonce : bytes) : bytes :=
    let ha1 := HX a (user ++ colon :: realm ++ colon :: pw) in
    if beq aname b_md5sess then HX a (ha1 ++ colon :: nonce ++ colon :: cnonce) else ha1.
  Definition calcHA2 (a : algo) (method uri : bytes) : bytes := HX a (method ++ colon :: uri).
  Definition calcResponse (a : algo) (ha1 ha2 nonce : bytes) (nc cnonce : option bytes) (qop : bytes) : bytes :=
    HX a (ha1 ++ colon :: nonce ++ colon ::
          (if nonempty nc && nonempty cnonce
           then orempty nc ++ colon :: orempty cnonce ++ colon :: qop ++ [colon] else []) ++ ha2).

  Definition expected_response (user method : bytes) (fs : fields) (pw : bytes) : option bytes :=
    let aname := lower (match get k_algorithm fs with Some a => a | None => b_md5 end) in
    let qop := match get k_qop fs with Some q => q | None => b_auth end in
    match get k_uri fs, algo_of aname, get k_nonce fs with
    | Some uri, Some a, Some nonce =>
        if beq qop b_authint || (beq aname b_md5sess && match get k_cnonce fs with None => true | _ => false end) then None
        else Some (calcResponse a (calcHA1 aname a user pw nonce (orempty (get k_cnonce fs)))
                                (calcHA2 a method uri) nonce (get k_nc fs) (get k_cnonce fs) qop)
    | _, _, _ => None
    end.

  (** DigestedCredentials(username, method, realm, fields).checkPassword(pw) *)
  Definition check_password (user method : bytes) (fs : fields) (pw : bytes) : bool :=
    match expected_response user method fs pw, get k_response fs with
    | Some e, Some r => beq e r
    | _, _ => false
    end.

  (** the whole path: None = LoginFailed, Some b = checkPassword result *)
  Definition login (now : N) (fs : fields) (method host pw : bytes) : option bool :=
    match decode now fs host with
    | LoginFailed => None
    | Creds u fs' => Some (check_password u method fs' pw)
    end.
End Digest.

(** ---- decode() from the raw header bytes: splitlines / join, the _parseparts regular expression
    KEY=(?:QUOTED|BARE),? with KEY = one or more bytes other than = and space, QUOTED = a double-quoted
    run without double quotes, BARE = one or more bytes other than comma, as used by findall, and .strip() of keys and values ---- *)
Fixpoint span (p : N -> bool) (s : bytes) : bytes * bytes :=
  match s with
  | [] => ([], [])
  | c :: r => if p c then let '(a, b) := span p r in (c :: a, b) else ([], s)
  end.

(** bytes.splitlines(): lines end at \n, \r\n or \r; no empty last line after a final line end *)
Fixpoint splitlines_go (fuel : nat) (s : bytes) : list bytes :=
  match fuel with
  | O => []
  | S f =>
      match s with
      | [] => []
      | _ =>
          let '(line, r) := span (fun c => negb (N.eqb c 10 || N.eqb c 13)) s in
          line :: match r with
                  | 13%N :: 10%N :: r' => splitlines_go f r'
                  | _ :: r' => splitlines_go f r'
                  | [] => []
                  end
      end
  end.
Definition splitlines (s : bytes) : list bytes := splitlines_go (S (length s)) s.

Definition key_char (c : N) : bool := negb (N.eqb c 61) && negb (N.eqb c 32).     (* [^= ] *)
Definition drop_comma (s : bytes) : bytes := match s with 44%N :: r => r | _ => s end.   (* ,? *)

(** one match of the expression at the start of s: (key, value, what follows the match) *)
Definition match_at (s : bytes) : option (bytes * bytes * bytes) :=
  let '(k, r1) := span key_char s in
  match k, r1 with
  | _ :: _, 61%N :: r2 =>
      let bare := let '(v, r3) := span (fun c => negb (N.eqb c 44)) r2 in
                  match v with [] => None | _ => Some (k, v, drop_comma r3) end in
      match r2 with
      | 34%N :: r3 =>
          let '(q, r4) := span (fun c => negb (N.eqb c 34)) r3 in
          match r4 with
          | 34%N :: r5 => Some (k, q, drop_comma r5)
          | _ => bare
          end
      | _ => bare
      end
  | _, _ => None
  end.

(** re.findall: leftmost matches, scanning on after each match, one position further where none starts *)
Fixpoint findall (fuel : nat) (s : bytes) : list (bytes * bytes) :=
  match fuel with
  | O => []
  | S f =>
      match s with
      | [] => []
      | _ :: r => match match_at s with
                  | Some (k, v, rest) => (k, v) :: findall f rest
                  | None => findall f r
                  end
      end
  end.

Definition is_space (c : N) : bool := N.eqb c 32 || (N.leb 9 c && N.leb c 13).     (* space, \t \n \x0b \x0c \r *)
Fixpoint lstrip (s : bytes) : bytes := match s with c :: r => if is_space c then lstrip r else s | [] => [] end.
Definition strip (s : bytes) : bytes := rev (lstrip (rev (lstrip s))).

Definition parse_fields (raw : bytes) : fields :=
  let s := join 32 (splitlines raw) in
  map (fun kv => (strip (fst kv), strip (snd kv))) (findall (S (length s)) s).

Definition non_ascii (s : bytes) : bool := existsb (fun c => N.leb 128 c) s.

Section DigestRaw.
  Variable HX : algo -> bytes -> bytes.
  Variable b64dec : bytes -> option bytes.
  Variable priv : bytes.
  Variable realm : bytes.

  (** decode(response, method, host) on the raw bytes (repaired: a field name that is not ASCII is a LoginFailed) *)
  Definition decode_raw (now : N) (raw host : bytes) : decoded :=
    let fs := parse_fields raw in
    if existsb (fun kv => non_ascii (fst kv)) fs then LoginFailed else decode HX b64dec priv now fs host.

  Definition login_raw (now : N) (raw method host pw : bytes) : option bool :=
    match decode_raw now raw host with
    | LoginFailed => None
    | Creds u fs' => Some (check_password HX realm u method fs' pw)
    end.
End DigestRaw.
