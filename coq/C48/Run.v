(** C48: concrete hash / base64 instances and printers for the correspondence check only.
    The harness replaces md5/sha1 by the same transparent "hash" (digest = tag byte followed by
    the data), which is injective, so the model and the code can be compared bit for bit. *)
From Coq Require Import List NArith ZArith Bool String.
From TwLib Require Import Show.
From C48 Require Import Model.
Import ListNotations.

Definition hexc (n : N) : N := if N.ltb n 10 then (48 + n)%N else (87 + n)%N.
Definition hexlify (b : bytes) : bytes := flat_map (fun x => [hexc (N.div x 16); hexc (N.modulo x 16)]) b.
Definition toy_HX (a : algo) (x : bytes) : bytes := hexlify ((match a with Md5 => 77 | Sha => 83 end)%N :: x).

(** base64.b64encode *)
Definition b64c (n : N) : N :=
  if N.ltb n 26 then (65 + n)%N else if N.ltb n 52 then (97 + (n - 26))%N
  else if N.ltb n 62 then (48 + (n - 52))%N else if N.eqb n 62 then 43%N else 47%N.
Fixpoint b64enc (b : bytes) : bytes :=
  match b with
  | [] => []
  | [x] => [b64c (N.div x 4); b64c (N.modulo x 4 * 16); 61; 61]%N
  | [x; y] => [b64c (N.div x 4); b64c (N.modulo x 4 * 16 + N.div y 16); b64c (N.modulo y 16 * 4); 61]%N
  | x :: y :: z :: r =>
      b64c (N.div x 4) :: b64c (N.modulo x 4 * 16 + N.div y 16)
      :: b64c (N.modulo y 16 * 4 + N.div z 64) :: b64c (N.modulo z 64) :: b64enc r
  end.

(** binascii.a2b_base64 (non-strict mode, CPython 3.12): characters outside the alphabet are
    skipped; '=' ends the data once quad_pos >= 2 and enough pads were seen; leftover bits = error *)
Definition b64v (c : N) : option N :=
  if (N.leb 65 c && N.leb c 90)%bool then Some (c - 65)%N
  else if (N.leb 97 c && N.leb c 122)%bool then Some (c - 97 + 26)%N
  else if (N.leb 48 c && N.leb c 57)%bool then Some (c - 48 + 52)%N
  else if N.eqb c 43 then Some 62%N else if N.eqb c 47 then Some 63%N else None.
Fixpoint b64dec_go (s : bytes) (quad : N) (left pads : N) (out : bytes) : option bytes :=
  match s with
  | [] => if N.eqb quad 0 then Some (rev out) else None
  | c :: r =>
      if N.eqb c 61 then
        if (N.leb 2 quad && N.leb 4 (quad + (pads + 1)))%bool then Some (rev out)
        else b64dec_go r quad left (if N.leb 2 quad then pads + 1 else pads)%N out
      else match b64v c with
           | None => b64dec_go r quad left pads out
           | Some v =>
               if N.eqb quad 0 then b64dec_go r 1 v 0 out
               else if N.eqb quad 1 then b64dec_go r 2 (N.modulo v 16) 0 ((left * 4 + N.div v 16)%N :: out)
               else if N.eqb quad 2 then b64dec_go r 3 (N.modulo v 4) 0 ((left * 16 + N.div v 4)%N :: out)
               else b64dec_go r 0 0 0 ((left * 64 + v)%N :: out)
           end
  end.
Definition b64dec (s : bytes) : option bytes := b64dec_go s 0 0 0 [].

Local Open Scope string_scope.
(** case = (priv, realm, now, fields, method, host, candidate passwords) *)
Definition run_show (c : bytes * bytes * N * fields * bytes * bytes * list bytes) : string :=
  let '(priv, realm, now, fs, method, host, pws) := c in
  match decode toy_HX b64dec priv now fs host with
  | LoginFailed => "LF"
  | Creds u fs' => String.concat "" (map (fun pw => show_bool (check_password toy_HX realm u method fs' pw)) pws)
  end.

(** issuing a challenge: used by the harness to cross-check getChallenge's opaque *)
Definition opaque_show (c : bytes * bytes * bytes * N) : string :=
  let '(priv, nonce, ip, t) := c in show_hex (gen_opaque toy_HX b64enc priv nonce ip t).

(** the dict decode() builds, in Python's order: position of a key's first insertion, last value *)
Fixpoint dict_set (d : fields) (k v : bytes) : fields :=
  match d with
  | [] => [(k, v)]
  | (k', v') :: r => if beq k k' then (k', v) :: r else (k', v') :: dict_set r k v
  end.
Definition dict_of (fs : fields) : fields := fold_left (fun d kv => dict_set d (fst kv) (snd kv)) fs [].
Definition show_fields (fs : fields) : string :=
  String.concat ";" (map (fun kv => show_hex (fst kv) ++ "=" ++ show_hex (snd kv)) fs).

(** case = (priv, realm, now, raw response bytes, method, host, candidate passwords) *)
Definition run_raw (c : bytes * bytes * N * bytes * bytes * bytes * list bytes) : string :=
  let '(priv, realm, now, raw, method, host, pws) := c in
  match decode_raw toy_HX b64dec priv now raw host with
  | LoginFailed => "LF"
  | Creds u fs' =>
      String.concat "" (map (fun pw => show_bool (check_password toy_HX realm u method fs' pw)) pws)
      ++ "|" ++ show_fields (dict_of fs')
  end.
Definition fields_show (raw : bytes) : string := show_fields (parse_fields raw).

Inductive vcase :=
| VLogin (c : bytes * bytes * N * bytes * bytes * bytes * list bytes)
| VChallenge (c : bytes * bytes * bytes * N)
| VParse (raw : bytes)
| VSession (c : bytes * bytes * list (N * bytes * bytes * bytes * list bytes)).

(** several responses presented to ONE factory, the clock moving in between: decode() keeps no
    state between calls, so each step is judged on its own *)
Definition run_session (c : bytes * bytes * list (N * bytes * bytes * bytes * list bytes)) : string :=
  let '(priv, realm, steps) := c in
  String.concat "/" (map (fun st => let '(now, raw, method, host, pws) := st in
                                    run_raw (priv, realm, now, raw, method, host, pws)) steps).

Definition run (c : vcase) : string :=
  match c with
  | VLogin x => run_raw x | VChallenge y => opaque_show y | VParse r => fields_show r | VSession z => run_session z
  end.
