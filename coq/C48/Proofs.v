(** C48: proofs about the Digest acceptance logic under the ideal-hash hypothesis. *)
From Coq Require Import List NArith ZArith Bool Lia ZifyBool.
From C48 Require Import Model.
Import ListNotations.

Lemma beq_refl : forall a, beq a a = true.
Proof. induction a; cbn; auto. now rewrite N.eqb_refl. Qed.
Lemma beq_eq : forall a b, beq a b = true -> a = b.
Proof.
  induction a as [|x a IH]; destruct b as [|y b]; cbn; intros H; try discriminate; auto.
  apply andb_true_iff in H. destruct H as [H1 H2]. apply N.eqb_eq in H1. f_equal; auto.
Qed.
Lemma beq_false_neq : forall a b, a <> b -> beq a b = false.
Proof. intros a b H. destruct (beq a b) eqn:E; auto. now apply beq_eq in E. Qed.

(** ---- split / join ---- *)
Lemma split_on_nosep : forall sep a, ~ In sep a -> split_on sep a = [a].
Proof.
  induction a as [|c a IH]; intros H; cbn; auto.
  destruct (N.eqb_spec c sep) as [->|Hne]; [exfalso; apply H; now left|].
  rewrite IH; auto. intros Hin. apply H. now right.
Qed.
Lemma split_on_app : forall sep a b, ~ In sep a -> split_on sep (a ++ sep :: b) = a :: split_on sep b.
Proof.
  induction a as [|c a IH]; intros b H; cbn.
  - now rewrite N.eqb_refl.
  - destruct (N.eqb_spec c sep) as [->|Hne]; [exfalso; apply H; now left|].
    rewrite IH; auto. intros Hin. apply H. now right.
Qed.
Lemma split_on_nonempty : forall sep a, split_on sep a <> [].
Proof. induction a as [|c a IH]; cbn; try discriminate. destruct (N.eqb c sep); try discriminate. destruct (split_on sep a); discriminate. Qed.

Lemma split_on_one : forall sep t b, split_on sep t = [b] -> t = b.
Proof.
  induction t as [|d t IH]; intros b H; cbn in H.
  - now injection H as <-.
  - destruct (N.eqb d sep).
    + injection H as _ H. now destruct (split_on_nonempty sep t).
    + destruct (split_on sep t) as [|p ps] eqn:E; [now destruct (split_on_nonempty sep t)|].
      injection H as <- ->. f_equal. now apply IH.
Qed.

(** a two-part split determines the string *)
Lemma split_on_two : forall sep s a b, split_on sep s = [a; b] -> s = a ++ sep :: b /\ ~ In sep a.
Proof.
  induction s as [|c s IH]; intros a b H; cbn in H; [discriminate|].
  destruct (N.eqb_spec c sep) as [->|Hne].
  - injection H as <- H. apply split_on_one in H. subst. split; auto.
  - destruct (split_on sep s) as [|p ps] eqn:E; [now destruct (split_on_nonempty sep s)|].
    injection H as <- ->. destruct (IH p b eq_refl) as [-> Hn]. split; auto.
    intros [Hc|Hin]; [congruence | now apply Hn].
Qed.

Lemma split_on_three : forall sep a b c, ~ In sep a -> ~ In sep b -> ~ In sep c ->
  split_on sep (join sep [a; b; c]) = [a; b; c].
Proof.
  intros sep a b c Ha Hb Hc. cbn [join]. rewrite split_on_app by auto. rewrite split_on_app by auto.
  now rewrite split_on_nosep.
Qed.

(** ---- decimal ---- *)
Definition is_digit (c : N) : bool := (N.leb 48 c && N.leb c 57)%bool.

Lemma parse_digits_snoc : forall a c acc,
  parse_digits (a ++ [c]) acc =
  match parse_digits a acc with
  | Some v => if is_digit c then Some (v * 10 + (c - 48))%N else None
  | None => None
  end.
Proof.
  induction a as [|x a IH]; intros c acc; cbn.
  - unfold is_digit. destruct (N.leb 48 c && N.leb c 57)%bool; reflexivity.
  - destruct (N.leb 48 x && N.leb x 57)%bool; auto.
Qed.

Lemma is_digit_add : forall n, (n < 10)%N -> is_digit (48 + n) = true.
Proof. intros n H. unfold is_digit. apply andb_true_iff. split; apply N.leb_le; lia. Qed.

Lemma dec_digits_parse : forall fuel n, (n < 2 ^ N.of_nat fuel)%N -> (0 < fuel)%nat ->
  parse_digits (dec_digits fuel n) 0 = Some n /\ dec_digits fuel n <> [] /\ Forall (fun c => is_digit c = true) (dec_digits fuel n).
Proof.
  induction fuel as [|f IH]; intros n Hn Hf; [lia|]. cbn [dec_digits].
  destruct (N.ltb_spec n 10) as [Hlt|Hge].
  - cbn [parse_digits]. fold (is_digit (48 + n)). rewrite is_digit_add by auto.
    repeat split; try discriminate; [f_equal; lia | constructor; [now apply is_digit_add | constructor]].
  - assert (Hf' : (0 < f)%nat).
    { destruct f; [|lia]. cbn in Hn. lia. }
    assert (Hd : (n / 10 < 2 ^ N.of_nat f)%N).
    { rewrite Nat2N.inj_succ, N.pow_succ_r' in Hn. apply N.div_lt_upper_bound; lia. }
    destruct (IH (n / 10)%N Hd Hf') as (H1 & H2 & H3).
    assert (Hm : (n mod 10 < 10)%N) by (apply N.mod_lt; lia).
    rewrite parse_digits_snoc, H1, is_digit_add by auto.
    repeat split.
    + f_equal. pose proof (N.div_mod n 10 ltac:(lia)) as Hdm. clear -Hdm Hm. revert Hdm Hm. generalize (n / 10)%N (n mod 10)%N. intros q r Hdm Hm. lia.
    + destruct (dec_digits f (n / 10)); discriminate.
    + apply Forall_app. split; auto. constructor; [now apply is_digit_add | constructor].
Qed.

Lemma parse_int_nodash : forall c r, c <> 45%N ->
  parse_int (c :: r) = option_map Z.of_N (parse_digits (c :: r) 0).
Proof.
  intros c r H. unfold parse_int. destruct c as [|p]; auto.
  repeat (destruct p as [p|p|]; auto). exfalso. apply H. reflexivity.
Qed.

Lemma show_dec_ok : forall t,
  parse_int (show_dec t) = Some (Z.of_N t) /\ ~ In comma (show_dec t).
Proof.
  intros t. unfold show_dec.
  assert (Hlt : (t < 2 ^ N.of_nat (S (N.to_nat (N.log2 t))))%N).
  { rewrite Nat2N.inj_succ, N2Nat.id. destruct t as [|p]; [cbn; lia|]. apply N.log2_spec. lia. }
  destruct (dec_digits_parse _ t Hlt ltac:(lia)) as (H1 & H2 & H3).
  set (d := dec_digits _ t) in *. split.
  - destruct d as [|c r]; [congruence|].
    inversion H3 as [|? ? Hc _]; subst. unfold is_digit in Hc.
    rewrite parse_int_nodash; [now rewrite H1|]. intros ->. cbn in Hc. discriminate.
  - intros Hin. rewrite Forall_forall in H3. specialize (H3 _ Hin). unfold is_digit, comma in H3. cbn in H3. discriminate.
Qed.

(** ---- the acceptance logic under the ideal-hash / base64 hypotheses ---- *)
Section Ideal.
  Variable HX : algo -> bytes -> bytes.
  Variable b64enc : bytes -> bytes.
  Variable b64dec : bytes -> option bytes.
  Hypothesis HX_inj : forall a x y, HX a x = HX a y -> x = y.
  Hypothesis HX_nodash : forall a x, ~ In dash (HX a x).
  Hypothesis b64_rt : forall x, b64dec (b64enc x) = Some x.
  Hypothesis b64_nodash : forall x, ~ In dash (b64enc x).
  Variable priv realm : bytes.

  Notation gen_opaque := (gen_opaque HX b64enc priv).
  Notation verify_opaque := (verify_opaque HX b64dec priv).
  Notation decode := (decode HX b64dec priv).
  Notation check_password := (check_password HX realm).
  Notation expected_response := (expected_response HX realm).
  Notation login := (login HX b64dec priv realm).

  Lemma key_split : forall n i t, ~ In comma n -> ~ In comma i ->
    split_on comma (opaque_key n i t) = [n; i; show_dec t].
  Proof. intros. unfold opaque_key. apply split_on_three; auto. apply show_dec_ok. Qed.

  (** completeness: an issued opaque verifies for the same nonce and address within its lifetime *)
  Lemma issued_verifies : forall nonce ip t now,
    ~ In comma nonce -> ~ In comma ip -> (Z.of_N now - Z.of_N t <= lifetime)%Z ->
    verify_opaque now (gen_opaque nonce ip t) nonce ip = true.
  Proof.
    intros nonce ip t now Hn Hi Hl. unfold Model.verify_opaque, Model.gen_opaque.
    rewrite split_on_app by apply HX_nodash. rewrite split_on_nosep by apply b64_nodash.
    rewrite b64_rt, key_split by auto. rewrite !beq_refl. cbn [andb].
    destruct (show_dec_ok t) as [Hp _]. rewrite Hp. rewrite andb_true_r. now apply Z.leb_le.
  Qed.

  (** soundness: whatever verifies while carrying the MAC of an issued challenge is that challenge,
      presented with its own nonce, from its own address, within its lifetime *)
  Lemma verified_is_issued : forall now o n ip n0 ip0 t0 ek,
    ~ In comma n0 -> ~ In comma ip0 ->
    o = HX Md5 (opaque_key n0 ip0 t0 ++ priv) ++ dash :: ek ->
    verify_opaque now o n ip = true ->
    n = n0 /\ ip = ip0 /\ (Z.of_N now - Z.of_N t0 <= lifetime)%Z /\ b64dec ek = Some (opaque_key n0 ip0 t0).
  Proof.
    intros now o n ip n0 ip0 t0 ek Hn0 Hi0 -> Hv. unfold Model.verify_opaque in Hv.
    rewrite split_on_app in Hv by apply HX_nodash.
    destruct (split_on dash ek) as [|e1 [|e2 r]] eqn:Es; try discriminate.
    apply split_on_one in Es. subst e1.
    destruct (b64dec ek) as [key|] eqn:Ed; [|discriminate].
    destruct (split_on comma key) as [|k1 [|k2 [|k3 [|k4 r]]]] eqn:Ek; try discriminate.
    apply andb_true_iff in Hv. destruct Hv as [Hv1 Hv2]. apply andb_true_iff in Hv1. destruct Hv1 as [Hk1 Hk2].
    destruct (parse_int k3) as [when|] eqn:Ep; [|discriminate].
    apply andb_true_iff in Hv2. destruct Hv2 as [Hl Hm].
    apply beq_eq in Hm. apply HX_inj in Hm. apply app_inv_tail in Hm. subst key.
    rewrite key_split in Ek by auto. injection Ek as <- <- <-.
    apply beq_eq in Hk1, Hk2. destruct (show_dec_ok t0) as [Hp _]. rewrite Hp in Ep. injection Ep as <-.
    apply Z.leb_le in Hl. auto.
  Qed.

  Lemma tampered_rejected : forall now n ip n0 ip0 t0 ek,
    ~ In comma n0 -> ~ In comma ip0 ->
    n <> n0 \/ ip <> ip0 \/ (Z.of_N now - Z.of_N t0 > lifetime)%Z ->
    verify_opaque now (HX Md5 (opaque_key n0 ip0 t0 ++ priv) ++ dash :: ek) n ip = false.
  Proof.
    intros now n ip n0 ip0 t0 ek Hn0 Hi0 Hbad.
    destruct (verify_opaque now _ n ip) eqn:E; auto.
    destruct (verified_is_issued _ _ _ _ _ _ _ _ Hn0 Hi0 eq_refl E) as (H1 & H2 & H3 & _).
    destruct Hbad as [H|[H|H]]; [congruence | congruence | lia].
  Qed.

  (** decode() accepts exactly: non-empty username, opaque and nonce present, opaque verifies *)
  Lemma decode_spec : forall now fs host u fs',
    decode now fs host = Creds u fs' <->
    (fs' = fs /\ get k_username fs = Some u /\ u <> [] /\
     exists o n, get k_opaque fs = Some o /\ get k_nonce fs = Some n /\ verify_opaque now o n host = true).
  Proof.
    intros now fs host u fs'. unfold Model.decode. split.
    - destruct (get k_username fs) as [[|c r]|]; try discriminate.
      destruct (get k_opaque fs) as [o|]; try discriminate.
      destruct (get k_nonce fs) as [n|]; try discriminate.
      destruct (verify_opaque now o n host) eqn:E; try discriminate.
      intros H. injection H as <- <-. repeat split; try discriminate; eauto.
    - intros (-> & -> & Hu & o & n & -> & -> & ->). destruct u; [congruence|reflexivity].
  Qed.

  Lemma malformed : forall now fs host,
    (get k_username fs = None \/ get k_username fs = Some [] \/ get k_opaque fs = None \/ get k_nonce fs = None
     \/ (exists o, get k_opaque fs = Some o /\
          (length (split_on dash o) <> 2
           \/ (exists m e, split_on dash o = [m; e] /\ (b64dec e = None \/
                 exists k, b64dec e = Some k /\ length (split_on comma k) <> 3))))) ->
    decode now fs host = LoginFailed.
  Proof.
    intros now fs host H. unfold Model.decode.
    destruct (get k_username fs) as [[|c r]|] eqn:Eu; auto.
    destruct (get k_opaque fs) as [o|] eqn:Eo; auto.
    destruct (get k_nonce fs) as [n|] eqn:En; auto.
    destruct H as [H|[H|[H|[H|H]]]]; try discriminate.
    destruct H as (o' & Ho & H). injection Ho as <-. unfold Model.verify_opaque.
    destruct H as [H|(m & e & -> & H)].
    - destruct (split_on dash o) as [|a [|b [|c' r']]]; cbn in H; auto; congruence.
    - destruct H as [->|(k & -> & H)]; auto.
      destruct (split_on comma k) as [|a [|b [|c' [|d r']]]]; cbn in H; auto; congruence.
  Qed.

  (** checkPassword: if the response was computed for password pw, exactly pw is accepted *)
  Lemma check_password_exact : forall user method fs pw r,
    expected_response user method fs pw = Some r -> get k_response fs = Some r ->
    forall pw', check_password user method fs pw' = true <-> pw' = pw.
  Proof.
    intros user method fs pw r He Hr pw'. unfold Model.check_password. rewrite Hr.
    unfold Model.expected_response in *.
    destruct (get k_uri fs) as [uri|]; [|discriminate].
    destruct (algo_of _) as [a|]; [|discriminate].
    destruct (get k_nonce fs) as [nonce|]; [|discriminate].
    destruct (_ || _)%bool; [discriminate|]. injection He as <-.
    split.
    - intros H. apply beq_eq in H. unfold Model.calcResponse in H. apply HX_inj in H.
      apply app_inv_tail in H. unfold Model.calcHA1 in H.
      destruct (beq _ b_md5sess).
      + apply HX_inj in H. apply app_inv_tail in H. apply HX_inj in H. apply app_inv_head in H.
        injection H as H. apply app_inv_head in H. now injection H.
      + apply HX_inj in H. apply app_inv_head in H. injection H as H. apply app_inv_head in H. now injection H.
    - intros ->. apply beq_refl.
  Qed.

  (** the property for an honest response to an issued challenge, with the client address, the
      clock and the password tried left free *)
  Lemma accept_iff : forall fs u n0 ip0 t0 method pw r,
    ~ In comma n0 -> ~ In comma ip0 ->
    get k_username fs = Some u -> u <> [] ->
    get k_nonce fs = Some n0 -> get k_opaque fs = Some (gen_opaque n0 ip0 t0) ->
    expected_response u method fs pw = Some r -> get k_response fs = Some r ->
    forall now host pw',
      login now fs method host pw' = Some true <->
      (host = ip0 /\ (Z.of_N now - Z.of_N t0 <= lifetime)%Z /\ pw' = pw).
  Proof.
    intros fs u n0 ip0 t0 method pw r Hn0 Hi0 Hu Hne Hn Ho He Hr now host pw'.
    unfold Model.login. split.
    - destruct (decode now fs host) as [|u' fs'] eqn:Ed; [discriminate|].
      apply decode_spec in Ed. destruct Ed as (-> & Hu' & _ & o & n & Ho' & Hn' & Hv).
      rewrite Hu in Hu'. injection Hu' as <-. rewrite Ho in Ho'. injection Ho' as <-.
      rewrite Hn in Hn'. injection Hn' as <-.
      intros H. injection H as H. apply (check_password_exact _ _ _ _ _ He Hr) in H.
      destruct (verified_is_issued _ _ _ _ _ _ _ _ Hn0 Hi0 eq_refl Hv) as (_ & H2 & H3 & _). auto.
    - intros (-> & Hl & ->).
      assert (Ed : decode now fs ip0 = Creds u fs).
      { apply decode_spec. repeat split; auto. exists (gen_opaque n0 ip0 t0), n0. repeat split; auto.
        now apply issued_verifies. }
      rewrite Ed. f_equal. now apply (check_password_exact _ _ _ _ _ He Hr).
  Qed.
End Ideal.

(** the hypotheses of Section Ideal are satisfiable (a transparent "hash" and "base64" that shift
    every byte out of the ASCII range), and a concrete honest login is accepted under them *)
Definition sh_HX (a : algo) (x : bytes) : bytes := map (fun c => c + 256)%N ((match a with Md5 => 1 | Sha => 2 end)%N :: x).
Definition sh_enc (x : bytes) : bytes := map (fun c => c + 256)%N x.
Definition sh_dec (y : bytes) : option bytes := Some (map (fun c => c - 256)%N y).

Lemma shift_inj : forall x y : bytes, map (fun c => c + 256)%N x = map (fun c => c + 256)%N y -> x = y.
Proof.
  induction x as [|a x IH]; destruct y as [|b y]; cbn; intros H; try discriminate; auto.
  injection H as H1 H2. f_equal; [lia | auto].
Qed.
Lemma shift_nodash : forall x, ~ In dash (map (fun c => c + 256)%N x).
Proof. intros x H. apply in_map_iff in H. destruct H as (c & Hc & _). unfold dash in Hc. lia. Qed.

Example hypotheses_satisfiable :
  (forall a x y, sh_HX a x = sh_HX a y -> x = y) /\ (forall a x, ~ In dash (sh_HX a x)) /\
  (forall x, sh_dec (sh_enc x) = Some x) /\ (forall x, ~ In dash (sh_enc x)).
Proof.
  repeat split.
  - intros a x y H. unfold sh_HX in H. apply shift_inj in H. now injection H.
  - intros a x. apply shift_nodash.
  - intros x. unfold sh_dec, sh_enc. rewrite map_map. f_equal. rewrite <- (map_id x) at 2. apply map_ext. intros c. lia.
  - intros x. apply shift_nodash.
Qed.

Example honest_login :
  let priv := [1; 2; 3]%N in let realm := [114]%N in let nonce := [97; 98]%N in let ip := [49; 48]%N in
  let user := [117]%N in let pw := [112; 119]%N in let method := [71]%N in
  let base := [(k_username, user); (k_nonce, nonce); (k_uri, [47]%N); (k_opaque, gen_opaque sh_HX sh_enc priv nonce ip 1000)] in
  match expected_response sh_HX realm user method base pw with
  | Some r =>
      let fs := base ++ [(k_response, r)] in
      login sh_HX sh_dec priv realm 1900 fs method ip pw = Some true
      /\ login sh_HX sh_dec priv realm 1901 fs method ip pw = None
      /\ login sh_HX sh_dec priv realm 1900 fs method [49; 49]%N pw = None
      /\ login sh_HX sh_dec priv realm 1900 fs method ip [112]%N = Some false
  | None => False
  end.
Proof. vm_compute. repeat split. Qed.
