(** C48 property theorems.  HX a x = hexlify(hash_a(x).digest()), b64enc / b64dec = base64 are
    parameters; the hypotheses say: the hash is injective (ideal hash), its hex output and base64
    output contain no '-', base64 decodes what it encoded.  Nonces and client addresses contain
    no comma; times are integers >= 0 spelled by "%d". *)
From Coq Require Import List NArith ZArith Bool.
From C48 Require Import Model Proofs Proofs2.
Import ListNotations.

(** FULL STATEMENT of the property's first sentence; partial only because MD5/SHA-1 are replaced by
    an injective function (HX_inj) -- everything else (opaque structure, nonce / address equality,
    lifetime, field lookup, RFC 2617 response computation) is exact.
    An honest response [fs] to the challenge (n0, gen_opaque n0 ip0 t0), computed for password pw,
    presented from address [host] at time [now] with password [pw'] tried, is accepted iff it comes
    from the address the challenge was issued to, within the lifetime, and pw' is the password. *)
Theorem accept_iff_right_password_unaltered_challenge_same_client_in_lifetime_partial :
  forall (HX : algo -> bytes -> bytes) (b64enc : bytes -> bytes) (b64dec : bytes -> option bytes),
  (forall a x y, HX a x = HX a y -> x = y) -> (forall a x, ~ In dash (HX a x)) ->
  (forall x, b64dec (b64enc x) = Some x) -> (forall x, ~ In dash (b64enc x)) ->
  forall priv realm fs u n0 ip0 t0 method pw r,
  ~ In comma n0 -> ~ In comma ip0 ->
  get k_username fs = Some u -> u <> [] ->
  get k_nonce fs = Some n0 -> get k_opaque fs = Some (gen_opaque HX b64enc priv n0 ip0 t0) ->
  expected_response HX realm u method fs pw = Some r -> get k_response fs = Some r ->
  forall now host pw',
    login HX b64dec priv realm now fs method host pw' = Some true <->
    (host = ip0 /\ (Z.of_N now - Z.of_N t0 <= lifetime)%Z /\ pw' = pw).
Proof. exact accept_iff. Qed.
Print Assumptions accept_iff_right_password_unaltered_challenge_same_client_in_lifetime_partial.

(** altered challenge: any opaque that carries the MAC of an issued challenge (the ideal-hash reading
    of "the attacker cannot make new MACs") verifies only with that challenge's nonce, from its
    address, within its lifetime -- whatever the rest of the opaque was changed to *)
Theorem verified_opaque_is_the_issued_challenge_partial :
  forall (HX : algo -> bytes -> bytes) (b64dec : bytes -> option bytes),
  (forall a x y, HX a x = HX a y -> x = y) -> (forall a x, ~ In dash (HX a x)) ->
  forall priv now o n ip n0 ip0 t0 ek,
  ~ In comma n0 -> ~ In comma ip0 ->
  o = HX Md5 (opaque_key n0 ip0 t0 ++ priv) ++ dash :: ek ->
  verify_opaque HX b64dec priv now o n ip = true ->
  n = n0 /\ ip = ip0 /\ (Z.of_N now - Z.of_N t0 <= lifetime)%Z /\ b64dec ek = Some (opaque_key n0 ip0 t0).
Proof. exact verified_is_issued. Qed.
Print Assumptions verified_opaque_is_the_issued_challenge_partial.

Theorem tampered_nonce_address_or_expired_is_rejected_partial :
  forall (HX : algo -> bytes -> bytes) (b64dec : bytes -> option bytes),
  (forall a x y, HX a x = HX a y -> x = y) -> (forall a x, ~ In dash (HX a x)) ->
  forall priv now n ip n0 ip0 t0 ek,
  ~ In comma n0 -> ~ In comma ip0 ->
  n <> n0 \/ ip <> ip0 \/ (Z.of_N now - Z.of_N t0 > lifetime)%Z ->
  verify_opaque HX b64dec priv now (HX Md5 (opaque_key n0 ip0 t0 ++ priv) ++ dash :: ek) n ip = false.
Proof. exact tampered_rejected. Qed.
Print Assumptions tampered_nonce_address_or_expired_is_rejected_partial.

Theorem issued_opaque_verifies_within_lifetime :
  forall (HX : algo -> bytes -> bytes) (b64enc : bytes -> bytes) (b64dec : bytes -> option bytes),
  (forall a x, ~ In dash (HX a x)) -> (forall x, b64dec (b64enc x) = Some x) -> (forall x, ~ In dash (b64enc x)) ->
  forall priv nonce ip t now,
  ~ In comma nonce -> ~ In comma ip -> (Z.of_N now - Z.of_N t <= lifetime)%Z ->
  verify_opaque HX b64dec priv now (gen_opaque HX b64enc priv nonce ip t) nonce ip = true.
Proof. exact issued_verifies. Qed.
Print Assumptions issued_opaque_verifies_within_lifetime.

(** checkPassword accepts exactly the password the response was computed with (ideal hash) *)
Theorem checkPassword_accepts_exactly_the_password_partial :
  forall (HX : algo -> bytes -> bytes), (forall a x y, HX a x = HX a y -> x = y) ->
  forall realm user method fs pw r,
  expected_response HX realm user method fs pw = Some r -> get k_response fs = Some r ->
  forall pw', check_password HX realm user method fs pw' = true <-> pw' = pw.
Proof. exact check_password_exact. Qed.
Print Assumptions checkPassword_accepts_exactly_the_password_partial.

(** decode(): exact acceptance condition (no hypothesis on the hash) *)
Theorem decode_accepts_iff : forall HX b64dec priv now fs host u fs',
  decode HX b64dec priv now fs host = Creds u fs' <->
  (fs' = fs /\ get k_username fs = Some u /\ u <> [] /\
   exists o n, get k_opaque fs = Some o /\ get k_nonce fs = Some n /\
               verify_opaque HX b64dec priv now o n host = true).
Proof. exact decode_spec. Qed.
Print Assumptions decode_accepts_iff.

(** second sentence of the property, for the repaired code: a response without (non-empty) username,
    opaque or nonce, an opaque that is not MAC-KEY, a KEY that base64 cannot decode (F20: this used to
    escape as binascii.Error), or a decoded key that is not nonce,address,time is an ordinary
    LoginFailed.  (In the model every outcome is LoginFailed / Creds by construction; that the code
    raises nothing else is what the correspondence and the CRASH oracle check.) *)
Theorem malformed_is_LoginFailed : forall HX b64dec priv now fs host,
  (get k_username fs = None \/ get k_username fs = Some [] \/ get k_opaque fs = None \/ get k_nonce fs = None
   \/ (exists o, get k_opaque fs = Some o /\
        (length (split_on dash o) <> 2
         \/ (exists m e, split_on dash o = [m; e] /\ (b64dec e = None \/
               exists k, b64dec e = Some k /\ length (split_on comma k) <> 3))))) ->
  decode HX b64dec priv now fs host = LoginFailed.
Proof. exact malformed. Qed.
Print Assumptions malformed_is_LoginFailed.

(** ---- from the raw header bytes ---- *)

(** decode()'s front end (splitlines / join, the key=value expression scanned by findall, strip) returns
    exactly the fields of a canonically serialised response  key="value", key="value", ...
    for keys without '=', space, line ends or strippable ends and values without double quote, line ends
    or strippable ends -- for any number of fields *)
Theorem raw_response_parses_to_its_fields : forall fs,
  Forall wf_field fs -> parse_fields (ser fs) = fs.
Proof. exact parse_ser. Qed.
Print Assumptions raw_response_parses_to_its_fields.

Theorem login_from_raw_bytes_is_login_on_fields : forall HX b64dec priv realm now fs method host pw,
  Forall wf_field fs -> ascii_keys fs ->
  login_raw HX b64dec priv realm now (ser fs) method host pw = login HX b64dec priv realm now fs method host pw.
Proof. exact login_raw_ser. Qed.
Print Assumptions login_from_raw_bytes_is_login_on_fields.

(** the main statement, starting at the bytes of the Authorization header *)
Theorem accept_iff_right_password_unaltered_challenge_same_client_in_lifetime_raw_partial :
  forall (HX : algo -> bytes -> bytes) (b64enc : bytes -> bytes) (b64dec : bytes -> option bytes),
  (forall a x y, HX a x = HX a y -> x = y) -> (forall a x, ~ In dash (HX a x)) ->
  (forall x, b64dec (b64enc x) = Some x) -> (forall x, ~ In dash (b64enc x)) ->
  forall priv realm fs u n0 ip0 t0 method pw r,
  Forall wf_field fs -> ascii_keys fs ->
  ~ In comma n0 -> ~ In comma ip0 ->
  get k_username fs = Some u -> u <> [] ->
  get k_nonce fs = Some n0 -> get k_opaque fs = Some (gen_opaque HX b64enc priv n0 ip0 t0) ->
  expected_response HX realm u method fs pw = Some r -> get k_response fs = Some r ->
  forall now host pw',
    login_raw HX b64dec priv realm now (ser fs) method host pw' = Some true <->
    (host = ip0 /\ (Z.of_N now - Z.of_N t0 <= lifetime)%Z /\ pw' = pw).
Proof. exact accept_iff_raw. Qed.
Print Assumptions accept_iff_right_password_unaltered_challenge_same_client_in_lifetime_raw_partial.

(** a field name with a non-ASCII byte is an ordinary LoginFailed (used to escape as UnicodeDecodeError) *)
Theorem non_ascii_field_name_is_LoginFailed : forall HX b64dec priv now raw host,
  existsb (fun kv => non_ascii (fst kv)) (parse_fields raw) = true ->
  decode_raw HX b64dec priv now raw host = LoginFailed.
Proof. exact non_ascii_key_fails. Qed.
Print Assumptions non_ascii_field_name_is_LoginFailed.
