(** C18: printers used by the correspondence check only. *)
From Coq Require Import List NArith Bool String.
From TwLib Require Import Show HttpGrammar.
From C22 Require Import Model.
From C19 Require Import Model.
From C18 Require Import Model.
Import ListNotations.
Local Open Scope string_scope.

(* named byte constants for the generated Cases files (numerals elaborate slowly) *)
Definition x00 : N := 0%N.
Definition x01 : N := 1%N.
Definition x02 : N := 2%N.
Definition x03 : N := 3%N.
Definition x04 : N := 4%N.
Definition x05 : N := 5%N.
Definition x06 : N := 6%N.
Definition x07 : N := 7%N.
Definition x08 : N := 8%N.
Definition x09 : N := 9%N.
Definition x0a : N := 10%N.
Definition x0b : N := 11%N.
Definition x0c : N := 12%N.
Definition x0d : N := 13%N.
Definition x0e : N := 14%N.
Definition x0f : N := 15%N.
Definition x10 : N := 16%N.
Definition x11 : N := 17%N.
Definition x12 : N := 18%N.
Definition x13 : N := 19%N.
Definition x14 : N := 20%N.
Definition x15 : N := 21%N.
Definition x16 : N := 22%N.
Definition x17 : N := 23%N.
Definition x18 : N := 24%N.
Definition x19 : N := 25%N.
Definition x1a : N := 26%N.
Definition x1b : N := 27%N.
Definition x1c : N := 28%N.
Definition x1d : N := 29%N.
Definition x1e : N := 30%N.
Definition x1f : N := 31%N.
Definition x20 : N := 32%N.
Definition x21 : N := 33%N.
Definition x22 : N := 34%N.
Definition x23 : N := 35%N.
Definition x24 : N := 36%N.
Definition x25 : N := 37%N.
Definition x26 : N := 38%N.
Definition x27 : N := 39%N.
Definition x28 : N := 40%N.
Definition x29 : N := 41%N.
Definition x2a : N := 42%N.
Definition x2b : N := 43%N.
Definition x2c : N := 44%N.
Definition x2d : N := 45%N.
Definition x2e : N := 46%N.
Definition x2f : N := 47%N.
Definition x30 : N := 48%N.
Definition x31 : N := 49%N.
Definition x32 : N := 50%N.
Definition x33 : N := 51%N.
Definition x34 : N := 52%N.
Definition x35 : N := 53%N.
Definition x36 : N := 54%N.
Definition x37 : N := 55%N.
Definition x38 : N := 56%N.
Definition x39 : N := 57%N.
Definition x3a : N := 58%N.
Definition x3b : N := 59%N.
Definition x3c : N := 60%N.
Definition x3d : N := 61%N.
Definition x3e : N := 62%N.
Definition x3f : N := 63%N.
Definition x40 : N := 64%N.
Definition x41 : N := 65%N.
Definition x42 : N := 66%N.
Definition x43 : N := 67%N.
Definition x44 : N := 68%N.
Definition x45 : N := 69%N.
Definition x46 : N := 70%N.
Definition x47 : N := 71%N.
Definition x48 : N := 72%N.
Definition x49 : N := 73%N.
Definition x4a : N := 74%N.
Definition x4b : N := 75%N.
Definition x4c : N := 76%N.
Definition x4d : N := 77%N.
Definition x4e : N := 78%N.
Definition x4f : N := 79%N.
Definition x50 : N := 80%N.
Definition x51 : N := 81%N.
Definition x52 : N := 82%N.
Definition x53 : N := 83%N.
Definition x54 : N := 84%N.
Definition x55 : N := 85%N.
Definition x56 : N := 86%N.
Definition x57 : N := 87%N.
Definition x58 : N := 88%N.
Definition x59 : N := 89%N.
Definition x5a : N := 90%N.
Definition x5b : N := 91%N.
Definition x5c : N := 92%N.
Definition x5d : N := 93%N.
Definition x5e : N := 94%N.
Definition x5f : N := 95%N.
Definition x60 : N := 96%N.
Definition x61 : N := 97%N.
Definition x62 : N := 98%N.
Definition x63 : N := 99%N.
Definition x64 : N := 100%N.
Definition x65 : N := 101%N.
Definition x66 : N := 102%N.
Definition x67 : N := 103%N.
Definition x68 : N := 104%N.
Definition x69 : N := 105%N.
Definition x6a : N := 106%N.
Definition x6b : N := 107%N.
Definition x6c : N := 108%N.
Definition x6d : N := 109%N.
Definition x6e : N := 110%N.
Definition x6f : N := 111%N.
Definition x70 : N := 112%N.
Definition x71 : N := 113%N.
Definition x72 : N := 114%N.
Definition x73 : N := 115%N.
Definition x74 : N := 116%N.
Definition x75 : N := 117%N.
Definition x76 : N := 118%N.
Definition x77 : N := 119%N.
Definition x78 : N := 120%N.
Definition x79 : N := 121%N.
Definition x7a : N := 122%N.
Definition x7b : N := 123%N.
Definition x7c : N := 124%N.
Definition x7d : N := 125%N.
Definition x7e : N := 126%N.
Definition x7f : N := 127%N.
Definition x80 : N := 128%N.
Definition x81 : N := 129%N.
Definition x82 : N := 130%N.
Definition x83 : N := 131%N.
Definition x84 : N := 132%N.
Definition x85 : N := 133%N.
Definition x86 : N := 134%N.
Definition x87 : N := 135%N.
Definition x88 : N := 136%N.
Definition x89 : N := 137%N.
Definition x8a : N := 138%N.
Definition x8b : N := 139%N.
Definition x8c : N := 140%N.
Definition x8d : N := 141%N.
Definition x8e : N := 142%N.
Definition x8f : N := 143%N.
Definition x90 : N := 144%N.
Definition x91 : N := 145%N.
Definition x92 : N := 146%N.
Definition x93 : N := 147%N.
Definition x94 : N := 148%N.
Definition x95 : N := 149%N.
Definition x96 : N := 150%N.
Definition x97 : N := 151%N.
Definition x98 : N := 152%N.
Definition x99 : N := 153%N.
Definition x9a : N := 154%N.
Definition x9b : N := 155%N.
Definition x9c : N := 156%N.
Definition x9d : N := 157%N.
Definition x9e : N := 158%N.
Definition x9f : N := 159%N.
Definition xa0 : N := 160%N.
Definition xa1 : N := 161%N.
Definition xa2 : N := 162%N.
Definition xa3 : N := 163%N.
Definition xa4 : N := 164%N.
Definition xa5 : N := 165%N.
Definition xa6 : N := 166%N.
Definition xa7 : N := 167%N.
Definition xa8 : N := 168%N.
Definition xa9 : N := 169%N.
Definition xaa : N := 170%N.
Definition xab : N := 171%N.
Definition xac : N := 172%N.
Definition xad : N := 173%N.
Definition xae : N := 174%N.
Definition xaf : N := 175%N.
Definition xb0 : N := 176%N.
Definition xb1 : N := 177%N.
Definition xb2 : N := 178%N.
Definition xb3 : N := 179%N.
Definition xb4 : N := 180%N.
Definition xb5 : N := 181%N.
Definition xb6 : N := 182%N.
Definition xb7 : N := 183%N.
Definition xb8 : N := 184%N.
Definition xb9 : N := 185%N.
Definition xba : N := 186%N.
Definition xbb : N := 187%N.
Definition xbc : N := 188%N.
Definition xbd : N := 189%N.
Definition xbe : N := 190%N.
Definition xbf : N := 191%N.
Definition xc0 : N := 192%N.
Definition xc1 : N := 193%N.
Definition xc2 : N := 194%N.
Definition xc3 : N := 195%N.
Definition xc4 : N := 196%N.
Definition xc5 : N := 197%N.
Definition xc6 : N := 198%N.
Definition xc7 : N := 199%N.
Definition xc8 : N := 200%N.
Definition xc9 : N := 201%N.
Definition xca : N := 202%N.
Definition xcb : N := 203%N.
Definition xcc : N := 204%N.
Definition xcd : N := 205%N.
Definition xce : N := 206%N.
Definition xcf : N := 207%N.
Definition xd0 : N := 208%N.
Definition xd1 : N := 209%N.
Definition xd2 : N := 210%N.
Definition xd3 : N := 211%N.
Definition xd4 : N := 212%N.
Definition xd5 : N := 213%N.
Definition xd6 : N := 214%N.
Definition xd7 : N := 215%N.
Definition xd8 : N := 216%N.
Definition xd9 : N := 217%N.
Definition xda : N := 218%N.
Definition xdb : N := 219%N.
Definition xdc : N := 220%N.
Definition xdd : N := 221%N.
Definition xde : N := 222%N.
Definition xdf : N := 223%N.
Definition xe0 : N := 224%N.
Definition xe1 : N := 225%N.
Definition xe2 : N := 226%N.
Definition xe3 : N := 227%N.
Definition xe4 : N := 228%N.
Definition xe5 : N := 229%N.
Definition xe6 : N := 230%N.
Definition xe7 : N := 231%N.
Definition xe8 : N := 232%N.
Definition xe9 : N := 233%N.
Definition xea : N := 234%N.
Definition xeb : N := 235%N.
Definition xec : N := 236%N.
Definition xed : N := 237%N.
Definition xee : N := 238%N.
Definition xef : N := 239%N.
Definition xf0 : N := 240%N.
Definition xf1 : N := 241%N.
Definition xf2 : N := 242%N.
Definition xf3 : N := 243%N.
Definition xf4 : N := 244%N.
Definition xf5 : N := 245%N.
Definition xf6 : N := 246%N.
Definition xf7 : N := 247%N.
Definition xf8 : N := 248%N.
Definition xf9 : N := 249%N.
Definition xfa : N := 250%N.
Definition xfb : N := 251%N.
Definition xfc : N := 252%N.
Definition xfd : N := 253%N.
Definition xfe : N := 254%N.
Definition xff : N := 255%N.

Fixpoint add_group (k v : bytes) (g : list (bytes * list bytes)) : list (bytes * list bytes) :=
  match g with
  | [] => [(k, [v])]
  | (k', vs) :: r => if octets_eqb k k' then (k', (vs ++ [v])%list) :: r else (k', vs) :: add_group k v r
  end.
Definition group (hs : list (bytes * bytes)) : list (bytes * list bytes) :=
  fold_left (fun g kv => add_group (fst kv) (snd kv) g) hs [].
Definition show_req (r : req) : string :=
  show_hex (r_method r) ++ "." ++ show_hex (r_target r) ++ "." ++ show_hex (r_version r) ++ "." ++
  String.concat ";" (map (fun kv => show_hex (fst kv) ++ "=" ++ String.concat "," (map show_hex (snd kv)))
                         (group (r_headers r))) ++ "." ++ show_hex (r_body r).

(* a delivery plan: cut the stream at these offsets / let the resource finish; afterwards the rest of the
   stream is delivered and every pending response is written *)
Inductive pop := PCut (n : N) | PFin.

Fixpoint plan_ops (s : bytes) (pos : nat) (p : list pop) : list op :=
  match p with
  | [] => [Deliver s]
  | PCut c :: r => let k := N.to_nat c - pos in
                   Deliver (firstn k s) :: plan_ops (skipn k s) (Nat.max pos (N.to_nat c)) r
  | PFin :: r => Finish :: plan_ops s pos r
  end.

Definition tag (e : ev) : string :=
  match e with
  | EvReq _ => "R" | Ev100 => "C" | EvResp => "P" | Ev400 => "BL" | EvClose => "L" | EvDrop => "L"
  end.
Definition reqs_of (es : list ev) : list req :=
  flat_map (fun e => match e with EvReq r => [r] | _ => [] end) es.

(* the correspondence check runs the three-buffer machine ([krun]); Buffers.v proves it equal to the
   single-buffer one the theorems are stated for *)
Fixpoint kquiesce (rf : nat -> bool) (fuel : nat) (s : option kst) : option (list ev * option kst) :=
  match fuel with
  | O => Some ([], s)
  | S f =>
      match s with
      | Some k =>
          match k_ph k with
          | KHandling =>
              match kfinish rf s with
              | Some (e, s1) => match kquiesce rf f s1 with Some (e', s2) => Some ((e ++ e')%list, s2) | None => None end
              | None => None
              end
          | _ => Some ([], s)
          end
      | None => Some ([], s)
      end
  end.

Definition run_plan (resp : list bool) (s : bytes) (p : list pop) : string :=
  let rf := fun i => nth i resp true in
  match krun rf (Some kinit) (plan_ops s 0 p) with
  | Some (e1, s1) =>
      match kquiesce rf (S (List.length s)) s1 with
      | Some (e2, _) =>
          let es := (e1 ++ e2)%list in
          String.concat "/" (map show_req (reqs_of es)) ++ " " ++ String.concat "" (map tag es)
      | None => "FUEL"
      end
  | None => "FUEL"
  end.

Inductive case := CCase (resp : list bool) (stream : bytes) (plans : list (list pop)).
Definition run_show (c : case) : string :=
  match c with
  | CCase resp s plans =>
      match map (run_plan resp s) plans with
      | [] => ""
      | r0 :: rs => String.concat "|" (r0 :: map (fun r => if String.eqb r r0 then "=" else r) rs)
      end
  end.
