(** C18 proofs, part 5: the three-buffer machine ([kdrain]: LineReceiver._buffer, the chunked decoder's
    own buffer, _dataBuffer kept apart, the decoder's loop run inside one rawDataReceived call) produces
    the same events as the single-buffer machine ([D]) and its states correspond under [alpha]. *)
From Coq Require Import List NArith Bool Arith Lia ZifyBool.
From TwLib Require Import HttpGrammar Seg.
From C22 Require Import Gen Model Proofs SegProofs.
From C19 Require Import Model.
From C18 Require Import Model Proofs SegProofs.
Import ListNotations.

Arguments find_crlf : simpl never.
Arguments find_crlf_from : simpl never.
Arguments hexint : simpl never.
Arguments firstn : simpl nomatch.
Arguments skipn : simpl nomatch.
Opaque MAX_LENGTH total_headers_size max_size_line.

Lemma step_more_buf : forall s s', C22.Model.step true default_maxtr s = More s' -> buf s' = buf s.
Proof.
  intros [m b st rem rc] s' H. unfold C22.Model.step in H. simpl in H. destruct m.
  - destruct (find_crlf_from st b); [|destruct (Nat.ltb _ _); [discriminate|inversion H; reflexivity]].
    destruct (Nat.leb _ _); [discriminate|]. destruct (hexint _); [|discriminate].
    destruct (forallb _ _); discriminate.
  - destruct (N.leb _ _); discriminate.
  - destruct (Nat.ltb _ _); [inversion H; reflexivity|]. destruct (starts_with_crlf b); discriminate.
  - destruct (find_crlf_from st b) as [[|eol]|].
    + destruct (N.ltb default_maxtr (rc + 2)); discriminate.
    + destruct (N.ltb _ _); discriminate.
    + destruct (N.ltb _ _); [discriminate|inversion H; reflexivity].
Qed.

Lemma d_of_dec_of : forall d b, d_of (dec_of d b) = d.
Proof. intros [m s r c] b. reflexivity. Qed.
Lemma dec_of_d_of_buf : forall s b, dec_of (d_of s) b = with_buf s b.
Proof. intros [m b0 st rem rc] b. reflexivity. Qed.

Section B.
  Variable resp : nat -> bool.
  Notation Dr := (C18.Model.D resp).

  Definition chunk_state (x : cst) (r : rhead) (d : dst) (acc : bytes) : cst :=
    mkc (PBodyChunk r d acc) (hsize x) (pers x) (nreq x).

  Definition run_res (s : sres) (b : bytes) : list ev * option (cst * bytes) :=
    match s with
    | Emit e x' rest => let '(e', st) := Dr x' rest in (e ++ e', st)
    | Fail e => (e, None)
    | Wait x' => ([], Some (x', b))
    end.

  (* the chunked-body phase of the single-buffer machine is C22's decoder loop *)
  Lemma chunk_phase : forall n x r d acc b, mu (dec_of d b) < n -> ph x = PBodyChunk r d acc ->
    Dr x b =
    match C22.Model.D true default_maxtr (dec_of d b) with
    | (o, DMore s') => ([], Some (chunk_state x r (d_of s') (acc ++ concat o), buf s'))
    | (o, DFin extra) => run_res (deliver resp x r (acc ++ concat o) extra) extra
    | (o, DBad _) => ([Ev400], None)
    end.
  Proof.
    induction n as [|n IH]; intros x r d acc b Hn Hp; [lia|].
    destruct b as [|b0 bl].
    { rewrite D_nil. rewrite (C22.SegProofs.D_unfold true default_maxtr (dec_of d [])). cbn [buf dec_of concat].
      rewrite app_nil_r. unfold chunk_state. destruct x as [p hs pe nr]. simpl in *. subst p.
      destruct d; reflexivity. }
    assert (Hb : b0 :: bl <> []) by discriminate.
    rewrite (D_ne resp x _ Hb). rewrite (C22.SegProofs.D_unfold true default_maxtr (dec_of d (b0 :: bl))).
    cbn [buf dec_of]. unfold C18.Model.step. rewrite Hp.
    change (mkst (d_md d) (b0 :: bl) (d_start d) (d_rem d) (d_rcvd d)) with (dec_of d (b0 :: bl)).
    destruct (C22.Model.step true default_maxtr (dec_of d (b0 :: bl))) as [s'|s' out|ex|er] eqn:Es.
    - pose proof (step_more_buf _ _ Es) as Hbuf. cbn [buf dec_of] in Hbuf. rewrite Hbuf.
      cbn [concat]. rewrite app_nil_r. reflexivity.
    - assert (Hmu : mu s' < mu (dec_of d (b0 :: bl))) by (eapply step_go_mu; [|exact Es]; exact Hb).
      fold (chunk_state x r (d_of s') (acc ++ concat out)).
      rewrite (IH (chunk_state x r (d_of s') (acc ++ concat out)) r (d_of s') (acc ++ concat out) (buf s'))
        by (rewrite ?dec_of_d_of; try reflexivity; lia).
      rewrite dec_of_d_of, let_pre. unfold pre.
      destruct (C22.Model.D true default_maxtr s') as [o [s2|x2|e2]]; cbn [fst snd app].
      + unfold chunk_state. cbn [hsize pers nreq]. rewrite concat_app, app_assoc. reflexivity.
      + rewrite concat_app, app_assoc.
        rewrite (deliver_same resp (chunk_state x r (d_of s') (acc ++ concat out)) x) by reflexivity.
        destruct (deliver resp x r _ x2) as [e3 x3 r3|x3|e3]; unfold run_res; try reflexivity.
        destruct (Dr x3 r3); reflexivity.
      + reflexivity.
    - cbn [concat]. rewrite app_nil_r. unfold run_res.
      destruct (deliver resp x r acc ex) as [e x' r'| |e] eqn:Ed; try reflexivity.
      exfalso. exact (deliver_not_wait _ _ _ _ _ _ Ed).
    - reflexivity.
  Qed.
End B.

(** a decoder that has just run is settled: running it again on its own buffer does nothing *)
Definition dsettled (s : st) : Prop :=
  exists o, C22.Model.D true default_maxtr s = (o, DMore s) /\ concat o = [].

Lemma ext_nil : forall s, ext s [] = s.
Proof. intros [m b st rem rc]. unfold ext, with_buf. simpl. rewrite app_nil_r. reflexivity. Qed.

Lemma D_more_settled : forall s o s', Inv s -> C22.Model.D true default_maxtr s = (o, DMore s') ->
  Inv s' /\ dsettled s'.
Proof.
  intros s o s' HI H. split.
  - eapply (C22.SegProofs.D_inv default_maxtr (S (mu s))); [apply Nat.lt_succ_diag_r|exact HI|exact H].
  - pose proof (C22.SegProofs.D_app default_maxtr (S (mu s)) s [] (Nat.lt_succ_diag_r _) HI) as [H1 H2].
    rewrite ext_nil, H in H1, H2. unfold C22.SegProofs.bind, pre in H1, H2. cbn [fst snd] in H1, H2.
    rewrite ext_nil in H1, H2.
    destruct (C22.Model.D true default_maxtr s') as [o2 r2] eqn:E2. cbn [fst snd] in H1, H2.
    exists o2. subst r2. split; [exact E2|].
    rewrite concat_app in H1. apply (app_inv_head (concat o)). rewrite app_nil_r. symmetry. exact H1.
Qed.

Lemma fresh_settled : Inv (dec_of dinit []) /\ dsettled (dec_of dinit []).
Proof.
  split; [apply Inv_start0|]. exists []. split; [|reflexivity].
  rewrite C22.SegProofs.D_unfold. reflexivity.
Qed.

(** ---- the refinement ---- *)
Definition line_phase (p : kphase) : Prop := match p with KFirst _ | KHeaders _ _ _ _ _ => True | _ => False end.

(* between two iterations of the loop: _dataBuffer is only used while a request is handled; a chunked
   decoder is sound (C22's invariant) and settled *)
Definition KI (k : kst) : Prop :=
  (k_ph k <> KHandling -> k_dbuf k = []) /\
  (forall r s acc, k_ph k = KBodyChunk r s acc -> Inv s /\ dsettled s).
(* when dataReceived returns: _buffer is empty unless the channel is in line mode *)
Definition KB (k : kst) : Prop := k_lbuf k = [] \/ line_phase (k_ph k).

Definition fresh (x : cst) : Prop := match ph x with PBodyChunk _ d _ => d = dinit | _ => True end.

Section R.
  Variable resp : nat -> bool.
  Notation Dr := (C18.Model.D resp).

  Lemma deliver_fresh : forall x r body rest e x' r', deliver resp x r body rest = Emit e x' r' -> fresh x'.
  Proof.
    intros x r body rest e x' r' H. unfold deliver in H.
    destruct (resp (nreq x)); [destruct (pers x)|]; inversion H; subst; exact I.
  Qed.

  Lemma line_received_fresh : forall x line rest e x' r',
    line_received resp x line rest = Emit e x' r' -> fresh x'.
  Proof.
    intros x line rest e x' r' H. unfold line_received in H. destruct (N.ltb _ _); [discriminate|].
    destruct (ph x) as [sk|m t v pending h| | | |]; try discriminate.
    - destruct (negb (pers x)); [inversion H; exact I|].
      destruct (is_nil line && negb sk)%bool; [inversion H; exact I|].
      destruct (parse_request_line true line) as [[[m t] v]|]; inversion H; exact I.
    - destruct line as [|c0 l].
      + destruct (flush h pending); [|discriminate]. unfold end_of_headers in H.
        destruct (h_dec h0) as [|n|]; [| destruct (N.eqb n 0)|];
          try (inversion H; subst; unfold fresh; simpl; try exact I; reflexivity);
          match type of H with context [deliver ?a ?b ?c ?d ?f] => destruct (deliver a b c d f) eqn:Ed end;
          try discriminate; inversion H; subst; apply (deliver_fresh _ _ _ _ _ _ _ Ed).
      + destruct (is_ws c0); [inversion H; exact I|]. destruct (flush h pending); inversion H; exact I.
  Qed.

  Lemma alpha_kphase_of : forall p, (match p with PBodyChunk _ d _ => d = dinit | _ => True end) ->
    alpha_ph (kphase_of p) = p.
  Proof. intros [| | |r d acc| |] H; try reflexivity. simpl. rewrite d_of_dec_of. reflexivity. Qed.

  (* the state after a line-mode step that goes on *)
  Lemma of_emit : forall k x' rest, k_dbuf k = [] -> fresh x' ->
    let k' := mkk (kphase_of (ph x')) rest (k_dbuf k) (hsize x') (pers x') (nreq x') in
    alpha k' = (x', rest) /\ KI k'.
  Proof.
    intros k x' rest Hd Hf k'. unfold fresh in Hf. split.
    - unfold alpha, k'. cbn [k_ph k_hsize k_pers k_nreq]. rewrite (alpha_kphase_of _ Hf).
      unfold alpha_buf. cbn [k_ph k_lbuf k_dbuf]. rewrite Hd.
      destruct x' as [p hs pe nr]. cbn [ph hsize pers nreq] in *.
      destruct p; reflexivity.
    - unfold KI, k'. cbn [k_ph k_dbuf]. split; [intros _; exact Hd|].
      intros r s acc Hp. destruct (ph x') as [| | |r0 d acc0| |]; try discriminate.
      simpl in Hp. inversion Hp; subst. exact fresh_settled.
  Qed.

  Lemma kfinish_body_refines : forall k r body extra x, k_lbuf k = [] -> k_dbuf k = [] ->
    pers x = k_pers k -> nreq x = k_nreq k ->
    match kfinish_body resp k r body extra, deliver resp x r body extra with
    | KGo e k', Emit e2 x' rest => e = e2 /\ alpha k' = (x', rest) /\ KI k' /\ (k_lbuf k' = [] \/ k_ph k' = KFirst false)
    | KStop e, Fail e2 => e = e2
    | _, _ => False
    end.
  Proof.
    intros k r body extra x Hl Hd Hp Hn. unfold kfinish_body, deliver. rewrite Hp, Hn, Hl, Hd.
    destruct (resp (k_nreq k)); [destruct (k_pers k)|].
    - cbn [app concat]. rewrite app_nil_r.
      split; [reflexivity|]. split; [reflexivity|]. split; [|right; reflexivity].
      split; [intros _; reflexivity|intros; discriminate].
    - reflexivity.
    - split; [reflexivity|]. split; [unfold alpha, alpha_buf; cbn; rewrite ?app_nil_r; reflexivity|].
      split; [|left; reflexivity]. split; [intros H; exfalso; apply H; reflexivity|intros; discriminate].
  Qed.
End R.

Section R2.
  Variable resp : nat -> bool.
  Notation Dr := (C18.Model.D resp).

  Definition ax (k : kst) : cst := fst (alpha k).
  Definition ab (k : kst) : bytes := snd (alpha k).

  (* nothing in LineReceiver._buffer: the single-buffer machine has nothing to do either *)
  Lemma idle : forall k, KI k -> k_lbuf k = [] -> Dr (ax k) (ab k) = ([], Some (alpha k)).
  Proof.
    intros k [HKd HKc] El. unfold ax, ab, alpha, alpha_buf. cbn [fst snd]. rewrite El.
    destruct (k_ph k) as [sk|m t v pend h|rh n acc|rh s acc| |] eqn:Ep; cbn [alpha_ph]; try apply D_nil.
    - rewrite app_nil_r. destruct (HKc _ _ _ eq_refl) as [_ (o & Ho & Hc)].
      rewrite (chunk_phase resp (S (mu (dec_of (d_of s) (buf s))))
                 (mkc (PBodyChunk rh (d_of s) acc) (k_hsize k) (k_pers k) (k_nreq k))
                 rh (d_of s) acc (buf s) (Nat.lt_succ_diag_r _) eq_refl).
      rewrite dec_of_d_of, Ho. unfold chunk_state. cbn [hsize pers nreq]. rewrite Hc, app_nil_r. reflexivity.
    - rewrite app_nil_r. destruct (concat (k_dbuf k)) as [|c0 cl] eqn:Ec; [apply D_nil|].
      rewrite D_ne by discriminate. unfold C18.Model.step. reflexivity.
  Qed.

  Definition then_D (e : list ev) (k' : kst) : list ev * option (cst * bytes) :=
    let '(e', s) := Dr (ax k') (ab k') in (e ++ e', s).

  (* the outcome of body + extra once the whole body is there *)
  Lemma finish_sim : forall k0 r body extra x, k_lbuf k0 = [] -> k_dbuf k0 = [] ->
    pers x = k_pers k0 -> nreq x = k_nreq k0 ->
    match kfinish_body resp k0 r body extra with
    | KGo e k' => KI k' /\ (k_lbuf k' = [] \/ line_phase (k_ph k')) /\
                  run_res resp (deliver resp x r body extra) extra = then_D e k'
    | KStop e => run_res resp (deliver resp x r body extra) extra = (e, None)
    end.
  Proof.
    intros k0 r body extra x Hl Hd Hp Hn.
    pose proof (kfinish_body_refines resp k0 r body extra x Hl Hd Hp Hn) as H.
    destruct (kfinish_body resp k0 r body extra) as [e k'|e]; destruct (deliver resp x r body extra) as [e2 x' rest|x'|e2];
      try contradiction.
    - destruct H as (-> & Ha & HK & Hb). split; [exact HK|]. split.
      + destruct Hb as [Hb|Hb]; [left; exact Hb|right; rewrite Hb; exact I].
      + unfold run_res, then_D, ax, ab. rewrite Ha. reflexivity.
    - subst. reflexivity.
  Qed.

  Definition xline (x : cst) : Prop := match ph x with PFirst _ | PHeaders _ _ _ _ _ => True | _ => False end.

  Lemma line_step_wait : forall x b x', xline x -> step resp x b = Wait x' -> x' = x.
  Proof.
    intros x b x' Hx H. unfold C18.Model.step in H. unfold xline in Hx.
    destruct (ph x) eqn:Ep; try contradiction;
      (destruct (find_crlf b);
       [ destruct (N.ltb MAX_LENGTH _); [discriminate|];
         exfalso; eapply (line_received_not_wait resp x); [rewrite Ep; exact I|exact H]
       | destruct (N.leb _ _); [discriminate|]; inversion H; reflexivity ]).
  Qed.

  Lemma line_step_emit : forall x b e x' r, xline x -> b <> [] -> step resp x b = Emit e x' r ->
    length r < length b /\ fresh x'.
  Proof.
    intros x b e x' r Hx Hb H. unfold C18.Model.step in H. unfold xline in Hx.
    destruct (ph x) eqn:Ep; try contradiction;
      (destruct (find_crlf b) as [i|] eqn:Ef; [|destruct (N.leb _ _); discriminate];
       destruct (N.ltb MAX_LENGTH _); [discriminate|];
       pose proof (find_crlf_bound _ _ Ef) as Hi;
       pose proof (line_received_emit resp _ _ _ _ _ _ H) as Hr; subst r;
       split; [rewrite skipn_length; lia|eapply line_received_fresh; exact H]).
  Qed.

  Lemma kstep_line : forall k, KI k -> k_lbuf k <> [] -> line_phase (k_ph k) ->
    match kstep resp k with
    | None => Dr (ax k) (ab k) = ([], Some (alpha k))
    | Some (KStop e) => Dr (ax k) (ab k) = (e, None)
    | Some (KGo e k') => KI k' /\ Dr (ax k) (ab k) = then_D e k' /\ length (k_lbuf k') < length (k_lbuf k)
    end.
  Proof.
    intros k [HKd HKc] Hlb Hline.
    assert (Hd : k_dbuf k = []) by (apply HKd; intros Hh; rewrite Hh in Hline; exact Hline).
    set (x := mkc (alpha_ph (k_ph k)) (k_hsize k) (k_pers k) (k_nreq k)).
    assert (Hal : alpha k = (x, k_lbuf k)).
    { unfold alpha, alpha_buf, x. destruct (k_ph k); try contradiction; reflexivity. }
    assert (Hxl : xline x) by (unfold xline, x; cbn [ph]; destruct (k_ph k); try contradiction; exact I).
    assert (Hks : kstep resp k = match step resp x (k_lbuf k) with Wait _ => None | s => Some (of_sres k s) end).
    { unfold kstep, x. destruct (k_ph k); try contradiction; reflexivity. }
    rewrite Hks. unfold ax, ab. rewrite Hal. cbn [fst snd]. rewrite (D_ne resp x _ Hlb).
    destruct (step resp x (k_lbuf k)) as [e2 x2 r2|x2|e2] eqn:Es.
    - destruct (line_step_emit x _ _ _ _ Hxl Hlb Es) as [Hlen Hfr].
      cbn [of_sres]. destruct (of_emit k x2 r2 Hd Hfr) as [Ha HK'].
      split; [exact HK'|]. split; [|exact Hlen]. unfold then_D, ax, ab. rewrite Ha. reflexivity.
    - rewrite (line_step_wait x _ _ Hxl Es). reflexivity.
    - reflexivity.
  Qed.
  Lemma then_D_idle : forall k', KI k' -> k_lbuf k' = [] -> then_D [] k' = ([], Some (alpha k')).
  Proof. intros k' HK Hl. unfold then_D. rewrite (idle k' HK Hl). reflexivity. Qed.

  Lemma deliver_run_res : forall x r body extra b,
    match deliver resp x r body extra with
    | Emit e x' rest => let '(e', s) := Dr x' rest in (e ++ e', s)
    | Wait x' => ([], Some (x', b))
    | Fail e => (e, None)
    end = run_res resp (deliver resp x r body extra) extra.
  Proof.
    intros. destruct (deliver resp x r body extra) as [e x' rest|x'|e] eqn:Ed; try reflexivity.
    exfalso. exact (deliver_not_wait _ _ _ _ _ _ Ed).
  Qed.

  Lemma kstep_raw : forall k, KI k -> k_lbuf k <> [] -> ~ line_phase (k_ph k) ->
    match kstep resp k with
    | None => False
    | Some (KStop e) => Dr (ax k) (ab k) = (e, None)
    | Some (KGo e k') => KI k' /\ Dr (ax k) (ab k) = then_D e k' /\ (k_lbuf k' = [] \/ line_phase (k_ph k'))
    end.
  Proof.
    intros k [HKd HKc] Hlb Hnl. unfold kstep, ax, ab, alpha, alpha_buf. cbn [fst snd].
    destruct (k_ph k) as [sk|m t v pend h|rh n acc|rh s acc| |] eqn:Ep; cbn [alpha_ph];
      try (exfalso; apply Hnl; exact I).
    - (* identity decoder *)
      assert (Hd : k_dbuf k = []) by (apply HKd; discriminate).
      rewrite (D_ne resp _ _ Hlb). unfold C18.Model.step. cbn [ph hsize pers nreq].
      destruct (N.ltb (N.of_nat (length (k_lbuf k))) n) eqn:El.
      + set (k1 := mkk (KBodyLen rh (n - N.of_nat (length (k_lbuf k))) (acc ++ k_lbuf k)) [] (k_dbuf k)
                       (k_hsize k) (k_pers k) (k_nreq k)).
        assert (HK1 : KI k1) by (split; [intros _; exact Hd|intros; discriminate]).
        split; [exact HK1|]. split; [|left; reflexivity].
        rewrite (then_D_idle k1 HK1 eq_refl), D_nil. reflexivity.
      + rewrite deliver_run_res.
        pose proof (finish_sim (mkk (KBodyLen rh n acc) [] (k_dbuf k) (k_hsize k) (k_pers k) (k_nreq k)) rh
                      (acc ++ firstn (N.to_nat n) (k_lbuf k)) (skipn (N.to_nat n) (k_lbuf k))
                      (mkc (PBodyLen rh n acc) (k_hsize k) (k_pers k) (k_nreq k)) eq_refl Hd eq_refl eq_refl) as Hf.
        destruct (kfinish_body resp _ rh _ _) as [e k'|e]; [|exact Hf].
        destruct Hf as (HK' & Hb & Hr). split; [exact HK'|]. split; [exact Hr|exact Hb].
    - (* chunked decoder: its whole loop inside one rawDataReceived *)
      assert (Hd : k_dbuf k = []) by (apply HKd; discriminate).
      destruct (HKc _ _ _ eq_refl) as [HIs _].
      rewrite (chunk_phase resp (S (mu (dec_of (d_of s) (buf s ++ k_lbuf k))))
                 (mkc (PBodyChunk rh (d_of s) acc) (k_hsize k) (k_pers k) (k_nreq k))
                 rh (d_of s) acc (buf s ++ k_lbuf k) (Nat.lt_succ_diag_r _) eq_refl).
      rewrite dec_of_d_of_buf.
      destruct (C22.Model.D true default_maxtr (with_buf s (buf s ++ k_lbuf k))) as [o [s'|extra|er]] eqn:Ed.
      + destruct (D_more_settled (with_buf s (buf s ++ k_lbuf k)) o s' (Inv_ext s (k_lbuf k) HIs) Ed) as [HI' Hs'].
        set (k1 := mkk (KBodyChunk rh s' (acc ++ concat o)) [] (k_dbuf k) (k_hsize k) (k_pers k) (k_nreq k)).
        assert (HK1 : KI k1).
        { split; [intros _; exact Hd|]. intros r0 s0 acc0 Hp. inversion Hp; subst. split; assumption. }
        split; [exact HK1|]. split; [|left; reflexivity].
        rewrite (then_D_idle k1 HK1 eq_refl). unfold alpha, alpha_buf, chunk_state, k1. cbn.
        rewrite app_nil_r. reflexivity.
      + pose proof (finish_sim (mkk (KBodyChunk rh s acc) [] (k_dbuf k) (k_hsize k) (k_pers k) (k_nreq k)) rh
                      (acc ++ concat o) extra
                      (mkc (PBodyChunk rh (d_of s) acc) (k_hsize k) (k_pers k) (k_nreq k)) eq_refl Hd eq_refl eq_refl) as Hf.
        destruct (kfinish_body resp _ rh _ _) as [e k'|e]; [|exact Hf].
        destruct Hf as (HK' & Hb & Hr). split; [exact HK'|]. split; [exact Hr|exact Hb].
      + reflexivity.
    - (* a request is being handled: everything goes to _dataBuffer *)
      set (k1 := mkk KHandling [] (k_dbuf k ++ [k_lbuf k]) (k_hsize k) (k_pers k) (k_nreq k)).
      assert (HK1 : KI k1) by (split; [intros H; exfalso; apply H; reflexivity|intros; discriminate]).
      split; [exact HK1|]. split; [|left; reflexivity].
      rewrite (then_D_idle k1 HK1 eq_refl). unfold alpha, alpha_buf, k1. cbn [k_ph k_lbuf k_dbuf k_hsize k_pers k_nreq alpha_ph].
      rewrite concat_app. cbn [concat]. rewrite !app_nil_r.
      assert (Hne : concat (k_dbuf k) ++ k_lbuf k <> []).
      { destruct (k_lbuf k); [congruence|]. destruct (concat (k_dbuf k)); discriminate. }
      rewrite (D_ne resp _ _ Hne). unfold C18.Model.step. reflexivity.
    - (* dead *)
      set (k1 := mkk KDead [] (k_dbuf k) (k_hsize k) (k_pers k) (k_nreq k)).
      assert (HK1 : KI k1) by (split; [intros _; apply HKd; discriminate|intros; discriminate]).
      split; [exact HK1|]. split; [|left; reflexivity].
      rewrite (then_D_idle k1 HK1 eq_refl). rewrite (D_ne resp _ _ Hlb). unfold C18.Model.step. cbn [ph].
      rewrite D_nil. reflexivity.
  Qed.
End R2.

Section R3.
  Variable resp : nat -> bool.
  Notation Dr := (C18.Model.D resp).

  Definition post (r : option kst) : Prop := match r with Some k' => KI k' /\ KB k' | None => True end.

  (** LineReceiver's loop on three buffers = the single-buffer loop *)
  Lemma kdrain_refines : forall fuel k e r, KI k ->
    kdrain resp fuel k = Some (e, r) ->
    Dr (ax k) (ab k) = (e, option_map alpha r) /\ post r.
  Proof.
    induction fuel as [|fuel IH]; intros k e r HK H; [discriminate|].
    cbn [kdrain] in H.
    destruct (k_lbuf k) as [|l0 ll] eqn:El.
    { inversion H; subst. cbn [option_map]. split; [apply idle; assumption|]. split; [exact HK|left; exact El]. }
    assert (Hlb : k_lbuf k <> []) by (rewrite El; discriminate).
    assert (Hdec : line_phase (k_ph k) \/ ~ line_phase (k_ph k)) by (destruct (k_ph k); simpl; tauto).
    destruct Hdec as [Hl|Hnl].
    - pose proof (kstep_line resp k HK Hlb Hl) as Hs.
      destruct (kstep resp k) as [[e1 k1|e1]|].
      + destruct Hs as (HK1 & Hd & _).
        destruct (kdrain resp fuel k1) as [[e2 r2]|] eqn:Ed; [|discriminate]. inversion H; subst.
        destruct (IH k1 e2 r HK1 Ed) as [Hd2 Hp]. split; [|exact Hp].
        rewrite Hd. unfold then_D. rewrite Hd2. reflexivity.
      + inversion H; subst. split; [exact Hs|exact I].
      + inversion H; subst. cbn [option_map]. split; [exact Hs|]. split; [exact HK|right; exact Hl].
    - pose proof (kstep_raw resp k HK Hlb Hnl) as Hs.
      destruct (kstep resp k) as [[e1 k1|e1]|]; [| |contradiction].
      + destruct Hs as (HK1 & Hd & _).
        destruct (kdrain resp fuel k1) as [[e2 r2]|] eqn:Ed; [|discriminate]. inversion H; subst.
        destruct (IH k1 e2 r HK1 Ed) as [Hd2 Hp]. split; [|exact Hp].
        rewrite Hd. unfold then_D. rewrite Hd2. reflexivity.
      + inversion H; subst. split; [exact Hs|exact I].
  Qed.

  Definition alpha_s (s : option kst) : state := option_map alpha s.
  Definition KS (s : option kst) : Prop := post s.

  Lemma alpha_append : forall k c,
    alpha (mkk (k_ph k) (k_lbuf k ++ c) (k_dbuf k) (k_hsize k) (k_pers k) (k_nreq k)) =
    (fst (alpha k), snd (alpha k) ++ c).
  Proof.
    intros k c. unfold alpha, alpha_buf. cbn [k_ph k_lbuf k_dbuf k_hsize k_pers k_nreq fst snd].
    destruct (k_ph k); try reflexivity; rewrite app_assoc; reflexivity.
  Qed.

  Lemma KI_append : forall k c, KI k -> KI (mkk (k_ph k) (k_lbuf k ++ c) (k_dbuf k) (k_hsize k) (k_pers k) (k_nreq k)).
  Proof. intros k c [H1 H2]. split; assumption. Qed.

  (** dataReceived *)
  Lemma kfeed_refines : forall s c e r, KS s -> kfeed resp s c = Some (e, r) ->
    feed resp (alpha_s s) c = (e, alpha_s r) /\ KS r.
  Proof.
    intros [k|] c e r HS H; simpl in *.
    - destruct HS as [HK _].
      destruct (kdrain_refines _ _ e r (KI_append k c HK) H) as [Hd Hp].
      unfold ax, ab in Hd. rewrite alpha_append in Hd. cbn [fst snd] in Hd.
      split; [|exact Hp]. unfold alpha in Hd |- *. cbn [fst snd] in Hd. exact Hd.
    - inversion H; subst. split; [reflexivity|exact I].
  Qed.

  (** requestDone called by the resource *)
  Lemma kfinish_refines : forall s e r, KS s -> kfinish resp s = Some (e, r) ->
    finish resp (alpha_s s) = (e, alpha_s r) /\ KS r.
  Proof.
    intros [k|] e r HS H; cbn [kfinish finish alpha_s option_map] in *; cbv zeta in H.
    2:{ inversion H; subst. split; [reflexivity|exact I]. }
    destruct HS as [HK HB]. unfold alpha at 1. cbn [ph pers nreq].
    destruct (k_ph k) as [sk|m t v pend h|rh n acc|rh s0 acc| |] eqn:Ep; cbn [alpha_ph];
      try (inversion H; subst; split; [reflexivity|split; [exact HK|exact HB]]).
    destruct (k_pers k) eqn:Epers.
    - set (k1 := mkk (KFirst false) (k_lbuf k ++ concat (k_dbuf k)) [] 0%N true (k_nreq k)) in *.
      destruct (kdrain resp (kfuel k1) k1) as [[e2 r2]|] eqn:Ed; [|discriminate]. inversion H; subst.
      assert (HK1 : KI k1) by (split; [intros _; reflexivity|intros; discriminate]).
      destruct (kdrain_refines _ _ _ _ HK1 Ed) as [Hd Hp].
      assert (Hl : k_lbuf k = []).
      { destruct HB as [Hb|Hb]; [exact Hb|]. rewrite Ep in Hb. contradiction. }
      unfold ax, ab, alpha, alpha_buf, k1 in Hd.
      cbn [fst snd k_ph k_lbuf k_dbuf k_hsize k_pers k_nreq alpha_ph] in Hd. rewrite Hl in Hd. cbn [app] in Hd.
      unfold alpha_buf. rewrite Ep, Hl, app_nil_r. rewrite Hd. split; [reflexivity|exact Hp].
    - inversion H; subst. split; [reflexivity|exact I].
  Qed.

  Lemma krun_refines : forall ops s e r, KS s -> krun resp s ops = Some (e, r) ->
    run resp (alpha_s s) ops = (e, alpha_s r) /\ KS r.
  Proof.
    induction ops as [|o ops IH]; intros s e r HS H.
    - inversion H; subst. split; [reflexivity|exact HS].
    - cbn [krun] in H. destruct (kapply resp s o) as [[e1 s1]|] eqn:Ea; [|discriminate].
      destruct (krun resp s1 ops) as [[e2 s2]|] eqn:Er; [|discriminate]. inversion H; subst.
      assert (Hstep : apply resp (alpha_s s) o = (e1, alpha_s s1) /\ KS s1).
      { destruct o as [c|]; simpl in Ea; [apply kfeed_refines|apply kfinish_refines]; assumption. }
      destruct Hstep as [Hap HS1]. destruct (IH s1 e2 r HS1 Er) as [Hr HSr].
      cbn [run]. rewrite Hap, Hr. split; [reflexivity|exact HSr].
  Qed.

  Lemma KS_init : KS (Some kinit).
  Proof. split; [split; [intros _; reflexivity|intros; discriminate]|left; reflexivity]. Qed.

  (** the three-buffer channel refines the single-buffer one, for every history *)
  Theorem three_buffers_refine : forall ops e r,
    krun resp (Some kinit) ops = Some (e, r) ->
    run resp start ops = (e, option_map alpha r).
  Proof.
    intros ops e r H. destruct (krun_refines ops (Some kinit) e r KS_init H) as [Hr _]. exact Hr.
  Qed.
End R3.
