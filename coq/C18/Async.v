(** C18 proofs, part 3: when the resource answers does not matter.  A history of deliveries and
    "finish" operations, with any assignment of synchronous / asynchronous answers to the requests,
    that ends with no request being handled produces exactly the events of the whole byte stream
    delivered in one piece to a channel whose resource answers every request at once. *)
From Coq Require Import List NArith Bool Arith Lia ZifyBool.
From TwLib Require Import HttpGrammar Seg.
From C22 Require Import Gen Model Proofs SegProofs.
From C19 Require Import Model.
From C18 Require Import Model Proofs SegProofs.
Import ListNotations.

Opaque MAX_LENGTH total_headers_size max_size_line.
Arguments find_crlf : simpl never.

Definition sync : nat -> bool := fun _ => true.

Definition nh (a : sres) : Prop :=
  match a with Emit _ x' _ | Wait x' => ph x' <> PHandling | Fail _ => True end.

(* how one handler call with an arbitrary resource relates to the same call with the synchronous one *)
Inductive srel : sres -> sres -> Prop :=
| SR_same : forall a, nh a -> srel a a
| SR_async : forall e rq p k rest,
    srel (Emit (e ++ [EvReq rq]) (mkc PHandling 0%N p k) rest)
         (if p then Emit (e ++ [EvReq rq; EvResp]) (mkc (PFirst false) 0%N true k) rest
          else Fail (e ++ [EvReq rq; EvResp; EvClose])).

Section Async.
  Variable resp : nat -> bool.

  Lemma deliver_srel : forall x r body rest,
    srel (deliver resp x r body rest) (deliver sync x r body rest).
  Proof.
    intros. unfold deliver, sync. destruct (resp (nreq x)).
    - apply SR_same. destruct (pers x); simpl; [discriminate|exact I].
    - apply (SR_async [] _ (pers x) (S (nreq x)) rest).
  Qed.

  Lemma srel_pre : forall pre a s, srel a s ->
    srel (match a with Emit e' x' r' => Emit (pre ++ e') x' r' | Fail e' => Fail (pre ++ e') | Wait x' => Wait x' end)
         (match s with Emit e' x' r' => Emit (pre ++ e') x' r' | Fail e' => Fail (pre ++ e') | Wait x' => Wait x' end).
  Proof.
    intros pre a s H. destruct H as [a Hn|e rq p k rest].
    - apply SR_same. destruct a; exact Hn.
    - rewrite app_assoc. destruct p.
      + rewrite (app_assoc pre e). apply (SR_async (pre ++ e) rq true k rest).
      + rewrite (app_assoc pre e). apply (SR_async (pre ++ e) rq false k rest).
  Qed.

  Lemma end_of_headers_srel : forall x m t v h rest,
    srel (end_of_headers resp x m t v h rest) (end_of_headers sync x m t v h rest).
  Proof.
    intros. unfold end_of_headers.
    destruct (h_dec h) as [|n|]; [| destruct (N.eqb n 0)|];
      try (apply SR_same; simpl; discriminate); apply srel_pre; apply deliver_srel.
  Qed.

  Lemma line_received_srel : forall x line rest, ph x <> PHandling ->
    srel (line_received resp x line rest) (line_received sync x line rest).
  Proof.
    intros x line rest Hx. unfold line_received. destruct (N.ltb _ _); [apply SR_same; exact I|].
    destruct (ph x) as [sk|m t v pending h| | | |] eqn:Ep; try (apply SR_same; simpl; rewrite Ep; congruence).
    - destruct (negb (pers x)); [apply SR_same; simpl; discriminate|].
      destruct (is_nil line && negb sk)%bool; [apply SR_same; simpl; discriminate|].
      destruct (parse_request_line true line) as [[[m t] v]|]; apply SR_same; simpl; try discriminate; exact I.
    - destruct line as [|c0 l].
      + destruct (flush h pending); [apply end_of_headers_srel|apply SR_same; exact I].
      + destruct (is_ws c0); [apply SR_same; simpl; discriminate|].
        destruct (flush h pending); apply SR_same; simpl; try discriminate; exact I.
  Qed.

  Lemma step_srel : forall x b, ph x <> PHandling -> srel (step resp x b) (step sync x b).
  Proof.
    intros x b Hx. unfold C18.Model.step.
    destruct (ph x) as [sk|m t v pending h|rh n acc|rh d acc| |] eqn:Ep; try congruence.
    1,2: destruct (find_crlf b) as [i|];
      [ destruct (N.ltb MAX_LENGTH (N.of_nat i)); [apply SR_same; exact I|];
        apply line_received_srel; congruence
      | destruct (N.leb _ _); apply SR_same; simpl; try exact I; congruence ].
    - destruct (N.ltb _ _); [apply SR_same; simpl; discriminate|apply deliver_srel].
    - destruct (C22.Model.step true default_maxtr (dec_of d b));
        try (apply SR_same; simpl; try discriminate; exact I). apply deliver_srel.
    - apply SR_same. simpl. congruence.
  Qed.

  (* the outcome once the response being awaited is written, the rest handled synchronously *)
  Definition complete (s : state) : list ev * state :=
    match s with
    | Some (x, b) =>
        match ph x with
        | PHandling => if pers x
                       then let '(e, s') := D sync (mkc (PFirst false) 0%N true (nreq x)) b in (EvResp :: e, s')
                       else ([EvResp; EvClose], None)
        | _ => ([], s)
        end
    | None => ([], None)
    end.
  Definition then_complete (r : list ev * state) : list ev * state :=
    let '(e, s) := r in let '(e', s') := complete s in (e ++ e', s').

  Lemma L1 : forall n x b, cmu x b < n -> ph x <> PHandling ->
    then_complete (D resp x b) = D sync x b.
  Proof.
    induction n as [|n IH]; intros x b Hn Hx; [lia|].
    destruct b as [|b0 bl].
    { rewrite !D_nil. unfold then_complete, complete. destruct (ph x); try congruence; reflexivity. }
    assert (Hb : b0 :: bl <> []) by discriminate.
    rewrite (D_ne resp x _ Hb), (D_ne sync x _ Hb).
    pose proof (step_srel x (b0 :: bl) Hx) as Hr.
    remember (step resp x (b0 :: bl)) as ra eqn:Ea. remember (step sync x (b0 :: bl)) as rs eqn:Es.
    destruct Hr as [a Hn'|e rq p k rest].
    - destruct a as [e x' r|x'|e].
      + assert (Hmu : cmu x' r < cmu x (b0 :: bl)) by (eapply step_emit_mu; [exact Hb|symmetry; exact Es]).
        specialize (IH x' r ltac:(lia) Hn'). unfold then_complete in *.
        destruct (D resp x' r) as [e1 s1]. destruct (complete s1) as [e2 s2].
        rewrite <- IH. rewrite app_assoc. reflexivity.
      + unfold then_complete, complete. simpl in Hn'. destruct (ph x'); try congruence; reflexivity.
      + unfold then_complete, complete. rewrite app_nil_r. reflexivity.
    - (* the request is handed to an asynchronous resource *)
      assert (Hd : D resp (mkc PHandling 0%N p k) rest = ([], Some (mkc PHandling 0%N p k, rest))).
      { destruct rest as [|r0 rl]; [apply D_nil|]. rewrite D_ne by discriminate. reflexivity. }
      rewrite Hd. unfold then_complete, complete. cbn [ph pers nreq]. destruct p.
      + destruct (D sync _ rest) as [e1 s1]. rewrite app_nil_r, <- !app_assoc. reflexivity.
      + rewrite app_nil_r, <- !app_assoc. reflexivity.
  Qed.

  Definition handling (s : state) : Prop :=
    match s with Some (x, _) => ph x = PHandling | None => False end.

  (** the invariant of a history: completing the pending response gives the synchronous whole-stream run *)
  Lemma history_inv : forall ops,
    then_complete (run resp start ops) = feed sync start (bytes_of ops).
  Proof.
    intros ops.
    assert (G : forall ops s B E, then_complete (E, s) = feed sync start B ->
              then_complete (let '(e, s') := run resp s ops in (E ++ e, s')) = feed sync start (B ++ bytes_of ops)).
    { clear ops. induction ops as [|o ops IH]; intros s B E H.
      - simpl. unfold bytes_of. simpl. rewrite !app_nil_r. exact H.
      - cbn [run]. destruct (apply resp s o) as [e1 s1] eqn:Ea.
        destruct (run resp s1 ops) as [e2 s2] eqn:Er.
        assert (Hstep : then_complete (E ++ e1, s1) = feed sync start (B ++ match o with Deliver c => c | Finish => [] end)).
        { destruct o as [c|]; simpl in Ea.
          - (* a delivery *)
            rewrite (feed_app sync start B c (SInv_start sync)). rewrite <- H.
            destruct s as [[x b]|]; simpl in Ea.
            + destruct (ph x) eqn:Ep;
                try (unfold then_complete at 2; unfold complete; rewrite Ep; simpl;
                     rewrite <- (L1 (S (cmu x (b ++ c))) x (b ++ c) (Nat.lt_succ_diag_r _)) by congruence;
                     rewrite Ea; unfold then_complete; destruct (complete s1); rewrite app_nil_r, app_assoc; reflexivity).
              (* buffered while a request is being handled *)
              assert (Hs1 : e1 = [] /\ s1 = Some (x, b ++ c)).
              { destruct (b ++ c) eqn:Ebc; [rewrite D_nil in Ea|rewrite D_ne in Ea by discriminate;
                  unfold C18.Model.step in Ea; rewrite Ep in Ea]; inversion Ea; split; reflexivity. }
              destruct Hs1 as [-> ->]. unfold then_complete, complete. rewrite Ep. destruct (pers x).
              * pose proof (D_app sync (S (cmu (mkc (PFirst false) 0%N true (nreq x)) b))
                              (mkc (PFirst false) 0%N true (nreq x)) b c (Nat.lt_succ_diag_r _) I) as Ha.
                rewrite Ha. unfold bind.
                destruct (D sync (mkc (PFirst false) 0%N true (nreq x)) b) as [e3 [[x3 r3]|]]; simpl.
                -- destruct (D sync x3 (r3 ++ c)). rewrite !app_nil_r, <- !app_assoc. reflexivity.
                -- rewrite !app_nil_r. reflexivity.
              * simpl. rewrite !app_nil_r. reflexivity.
            + inversion Ea; subst. simpl. rewrite !app_nil_r. reflexivity.
          - (* the resource finishes *)
            rewrite app_nil_r. rewrite <- H. unfold finish in Ea.
            destruct s as [[x b]|]; [|inversion Ea; subst; rewrite app_nil_r; reflexivity].
            destruct (ph x) eqn:Ep; try (inversion Ea; subst; rewrite app_nil_r; reflexivity).
            unfold then_complete at 2. unfold complete. rewrite Ep. destruct (pers x).
            + rewrite <- (L1 (S (cmu (mkc (PFirst false) 0%N true (nreq x)) b)) _ b (Nat.lt_succ_diag_r _))
                by (simpl; discriminate).
              destruct (D resp (mkc (PFirst false) 0%N true (nreq x)) b) as [e3 s3]. inversion Ea; subst.
              unfold then_complete. destruct (complete s1) as [e4 s4].
              rewrite <- !app_assoc. reflexivity.
            + inversion Ea; subst. unfold then_complete, complete. rewrite app_nil_r. reflexivity. }
        specialize (IH s1 _ (E ++ e1) Hstep). rewrite Er in IH.
        replace (B ++ bytes_of (o :: ops)) with
          ((B ++ match o with Deliver c => c | Finish => [] end) ++ bytes_of ops)
          by (unfold bytes_of; simpl; rewrite <- app_assoc; reflexivity).
        rewrite <- IH. rewrite app_assoc. reflexivity. }
    specialize (G ops start [] [] ltac:(reflexivity)).
    destruct (run resp start ops) as [e s]. exact G.
  Qed.

  Theorem history_independent : forall ops,
    ~ handling (snd (run resp start ops)) ->
    run resp start ops = feed sync start (bytes_of ops).
  Proof.
    intros ops Hh. rewrite <- history_inv. destruct (run resp start ops) as [e s]. simpl in Hh.
    unfold then_complete, complete. destruct s as [[x b]|].
    - destruct (ph x) eqn:Ep; try (rewrite app_nil_r; reflexivity). simpl in Hh. congruence.
    - rewrite app_nil_r. reflexivity.
  Qed.
End Async.
