(** C18 proofs, part 1: the loop never runs out of fuel. *)
From Coq Require Import List NArith Bool Arith Lia ZifyBool.
From TwLib Require Import HttpGrammar.
From C22 Require Import Gen Model Proofs SegProofs.
From C19 Require Import Model.
From C18 Require Import Model.
Import ListNotations.

Arguments find_crlf : simpl never.
Arguments find_crlf_from : simpl never.
Arguments hexint : simpl never.
Arguments firstn : simpl nomatch.
Arguments skipn : simpl nomatch.
Opaque MAX_LENGTH total_headers_size max_size_line.

Definition app_rest (s : sres) (c : bytes) : sres :=
  match s with Emit e x r => Emit e x (r ++ c) | Wait x => Wait x | Fail e => Fail e end.

Definition cmu (x : cst) (b : bytes) : nat :=
  2 * length b + match ph x with
                 | PBodyLen _ _ _ => 1
                 | PBodyChunk _ d _ => match d_md d with MBody => 1 | _ => 0 end
                 | _ => 0
                 end.

Section Fuel.
  Variable resp : nat -> bool.
  Notation step := (C18.Model.step resp).
  Notation drain := (C18.Model.drain resp).
  Notation D := (C18.Model.D resp).

  Lemma deliver_rest : forall x r body rest c,
    deliver resp x r body (rest ++ c) = app_rest (deliver resp x r body rest) c.
  Proof. intros. unfold deliver. destruct (resp (nreq x)); [destruct (pers x)|]; reflexivity. Qed.

  Lemma end_of_headers_rest : forall x m t v h rest c,
    end_of_headers resp x m t v h (rest ++ c) = app_rest (end_of_headers resp x m t v h rest) c.
  Proof.
    intros. unfold end_of_headers. destruct (h_dec h) as [|n|]; [| destruct (N.eqb n 0)|]; try reflexivity;
      rewrite deliver_rest; destruct (deliver _ _ _ _ rest); reflexivity.
  Qed.

  Lemma line_received_rest : forall x line rest c,
    line_received resp x line (rest ++ c) = app_rest (line_received resp x line rest) c.
  Proof.
    intros. unfold line_received. destruct (N.ltb _ _); [reflexivity|].
    destruct (ph x) as [sk|m t v pending h| | | |]; try reflexivity.
    - destruct (negb (pers x)); [reflexivity|]. destruct (is_nil line && negb sk)%bool; [reflexivity|].
      destruct (parse_request_line true line) as [[[m t] v]|]; reflexivity.
    - destruct line as [|c0 l].
      + destruct (flush h pending); [apply end_of_headers_rest|reflexivity].
      + destruct (is_ws c0); [reflexivity|]. destruct (flush h pending); reflexivity.
  Qed.

  (* what a result's phase contributes to the measure is at most 1 *)
  Lemma cmu_le : forall x b, cmu x b <= 2 * length b + 1.
  Proof. intros. unfold cmu. destruct (ph x); try lia. destruct (d_md d); lia. Qed.

  Lemma deliver_flag : forall x r body rest e x' r',
    deliver resp x r body rest = Emit e x' r' -> r' = rest /\ cmu x' r' = 2 * length r'.
  Proof.
    intros x r body rest e x' r' H. unfold deliver in H.
    destruct (resp (nreq x)); [destruct (pers x)|]; inversion H; subst; (split; [reflexivity|unfold cmu; simpl; lia]).
  Qed.

  Lemma line_received_emit : forall x line rest e x' r',
    line_received resp x line rest = Emit e x' r' -> r' = rest.
  Proof.
    intros x line rest e x' r' H. unfold line_received in H. destruct (N.ltb _ _); [discriminate|].
    destruct (ph x) as [sk|m t v pending h| | | |]; try discriminate.
    - destruct (negb (pers x)); [inversion H; reflexivity|].
      destruct (is_nil line && negb sk)%bool; [inversion H; reflexivity|].
      destruct (parse_request_line true line) as [[[m t] v]|]; inversion H; reflexivity.
    - destruct line as [|c0 l].
      + destruct (flush h pending); [|discriminate]. unfold end_of_headers in H.
        destruct (h_dec h0) as [|n|]; [| destruct (N.eqb n 0)|];
          try (inversion H; reflexivity);
          match type of H with context [deliver ?a ?b ?c ?d ?f] => destruct (deliver a b c d f) eqn:Ed end;
          try discriminate; inversion H; subst; apply (deliver_flag _ _ _ _ _ _ _ Ed).
      + destruct (is_ws c0); [inversion H; reflexivity|]. destruct (flush h pending); inversion H; reflexivity.
  Qed.

  Lemma step_fin_len : forall s x, C22.Model.step true default_maxtr s = Fin x -> length x + 2 <= length (buf s).
  Proof.
    intros [m b st rem rc] x H. unfold C22.Model.step in H. simpl in H. destruct m.
    - destruct (find_crlf_from st b); [|destruct (Nat.ltb _ _); discriminate].
      destruct (Nat.leb _ _); [discriminate|]. destruct (hexint _); [|discriminate].
      destruct (forallb _ _); discriminate.
    - destruct (N.leb _ _); discriminate.
    - destruct (Nat.ltb _ _); [discriminate|]. destruct (starts_with_crlf b); discriminate.
    - destruct (find_crlf_from st b) as [[|eol]|] eqn:Ef.
      + destruct (N.ltb default_maxtr (rc + 2)); [discriminate|]. simpl in H. inversion H; subst.
        unfold find_crlf_from in Ef. simpl. rewrite skipn_length.
        destruct (find_crlf (skipn st b)) as [j|] eqn:E2; [|discriminate].
        pose proof (find_crlf_bound _ _ E2) as Hb. rewrite skipn_length in Hb. lia.
      + destruct (N.ltb _ _); discriminate.
      + destruct (N.ltb _ _); discriminate.
  Qed.

  Lemma step_emit_mu : forall x b e x' r, b <> [] -> step x b = Emit e x' r -> cmu x' r < cmu x b.
  Proof.
    intros x b e x' r Hb H. unfold C18.Model.step in H.
    destruct (ph x) as [sk|m t v pending h|rh n acc|rh d acc| |] eqn:Ep.
    1,2: destruct (find_crlf b) as [i|] eqn:Ef; [|destruct (N.leb _ _); discriminate];
         destruct (N.ltb MAX_LENGTH (N.of_nat i)); [discriminate|];
         pose proof (find_crlf_bound _ _ Ef) as Hi;
         apply line_received_emit in H; subst r;
         pose proof (cmu_le x' (skipn (i + 2) b)) as Hle; rewrite skipn_length in *;
         unfold cmu at 2; rewrite Ep; lia.
    - destruct (N.ltb _ _).
      + inversion H; subst. unfold cmu; simpl. rewrite Ep. destruct b; [congruence|simpl; lia].
      + apply deliver_flag in H. destruct H as [-> H2]. rewrite H2. unfold cmu. rewrite Ep.
        rewrite skipn_length. lia.
    - destruct (C22.Model.step true default_maxtr (dec_of d b)) as [s'|s' out|ex|er] eqn:Es; try discriminate.
      + inversion H; subst. assert (Hm : mu s' < mu (dec_of d b)).
        { eapply step_go_mu; [|exact Es]. simpl. exact Hb. }
        unfold mu in Hm. simpl in Hm. unfold cmu. simpl. rewrite Ep. exact Hm.
      + apply deliver_flag in H. destruct H as [-> H2]. rewrite H2.
        apply step_fin_len in Es. simpl in Es. unfold cmu. rewrite Ep. destruct (d_md d); lia.
    - discriminate.
    - inversion H; subst. unfold cmu. rewrite Ep. simpl. destruct b; [congruence|simpl; lia].
  Qed.

  Lemma drain_S : forall f x b, drain (S f) x b =
    match b with
    | [] => ([], Some (x, b))
    | _ :: _ =>
        match step x b with
        | Emit e x' r => let '(e', s) := drain f x' r in (e ++ e', s)
        | Wait x' => ([], Some (x', b))
        | Fail e => (e, None)
        end
    end.
  Proof. reflexivity. Qed.

  Lemma drain_fuel : forall f1 f2 x b, cmu x b < f1 -> cmu x b < f2 -> drain f1 x b = drain f2 x b.
  Proof.
    induction f1 as [|f1 IH]; intros f2 x b H1 H2; [lia|].
    destruct f2 as [|f2]; [lia|]. rewrite !drain_S.
    destruct b as [|b0 bl]; [reflexivity|].
    destruct (step x (b0 :: bl)) as [e x' r|x'|e] eqn:Es; try reflexivity.
    assert (cmu x' r < cmu x (b0 :: bl)) by (eapply step_emit_mu; eauto; discriminate).
    rewrite (IH f2 x' r) by lia. reflexivity.
  Qed.

  Lemma D_unfold : forall x b, D x b =
    match b with
    | [] => ([], Some (x, b))
    | _ :: _ =>
        match step x b with
        | Emit e x' r => let '(e', s) := D x' r in (e ++ e', s)
        | Wait x' => ([], Some (x', b))
        | Fail e => (e, None)
        end
    end.
  Proof.
    intros x b. unfold C18.Model.D.
    replace (2 * length b + 2) with (S (2 * length b + 1)) by lia. rewrite drain_S.
    destruct b as [|b0 bl]; [reflexivity|].
    destruct (step x (b0 :: bl)) as [e x' r|x'|e] eqn:Es; try reflexivity.
    assert (Hm : cmu x' r < cmu x (b0 :: bl)) by (eapply step_emit_mu; eauto; discriminate).
    pose proof (cmu_le x (b0 :: bl)). pose proof (cmu_le x' r).
    rewrite (drain_fuel (2 * length (b0 :: bl) + 1) (2 * length r + 2) x' r); [reflexivity|lia|lia].
  Qed.
End Fuel.
