(** C18 proofs, part 6: the three-buffer loop never runs out of its fuel. *)
From Coq Require Import List NArith Bool Arith Lia ZifyBool.
From TwLib Require Import HttpGrammar Seg.
From C22 Require Import Gen Model Proofs SegProofs Lengths.
From C19 Require Import Model.
From C18 Require Import Model Proofs SegProofs Buffers.
Import ListNotations.

Arguments firstn : simpl nomatch.
Arguments skipn : simpl nomatch.
Opaque MAX_LENGTH total_headers_size max_size_line.

Definition kflag (p : kphase) : nat := match p with KFirst _ | KHeaders _ _ _ _ _ => 0 | _ => 1 end.
Definition kmu (k : kst) : nat := 2 * length (alpha_buf k) + kflag (k_ph k).

Section T.
  Variable resp : nat -> bool.

  Lemma kfinish_body_len : forall k0 r body extra e k', k_lbuf k0 = [] -> k_dbuf k0 = [] ->
    kfinish_body resp k0 r body extra = KGo e k' ->
    k_lbuf k' = [] \/ (kflag (k_ph k') = 0 /\ alpha_buf k' = extra).
  Proof.
    intros k0 r body extra e k' Hl Hd H. unfold kfinish_body in H. rewrite Hl, Hd in H.
    destruct (resp (k_nreq k0)); [destruct (k_pers k0)|]; inversion H; subst.
    - right. split; [reflexivity|]. unfold alpha_buf. cbn. rewrite app_nil_r. reflexivity.
    - left. reflexivity.
  Qed.

  Lemma kstep_line_buf : forall k e k', KI k -> k_lbuf k <> [] -> line_phase (k_ph k) ->
    kstep resp k = Some (KGo e k') -> alpha_buf k' = k_lbuf k'.
  Proof.
    intros k e k' [HKd HKc] Hlb Hline H.
    assert (Hd : k_dbuf k = []) by (apply HKd; intros Hh; rewrite Hh in Hline; exact Hline).
    set (x := mkc (alpha_ph (k_ph k)) (k_hsize k) (k_pers k) (k_nreq k)).
    assert (Hxl : xline x) by (unfold xline, x; cbn [ph]; destruct (k_ph k); try contradiction; exact I).
    assert (Hks : kstep resp k = match step resp x (k_lbuf k) with Wait _ => None | s => Some (of_sres k s) end).
    { unfold kstep, x. destruct (k_ph k); try contradiction; reflexivity. }
    rewrite Hks in H. destruct (step resp x (k_lbuf k)) as [e2 x2 r2|x2|e2] eqn:Es; try discriminate.
    cbn [of_sres] in H. inversion H; subst.
    destruct (line_step_emit resp x _ _ _ _ Hxl Hlb Es) as [_ Hfr].
    destruct (of_emit k x2 r2 Hd Hfr) as [Ha _]. unfold alpha in Ha. cbv zeta in Ha.
    injection Ha as _ Hb. cbn [k_lbuf]. exact Hb.
  Qed.

  Lemma kstep_measure : forall k e k', KI k -> k_lbuf k <> [] -> kstep resp k = Some (KGo e k') ->
    k_lbuf k' = [] \/ kmu k' < kmu k.
  Proof.
    intros k e k' HK Hlb H.
    assert (Hdec : line_phase (k_ph k) \/ ~ line_phase (k_ph k)) by (destruct (k_ph k); simpl; tauto).
    destruct Hdec as [Hl|Hnl].
    - (* line mode *)
      pose proof (kstep_line resp k HK Hlb Hl) as Hs. rewrite H in Hs. destruct Hs as (_ & _ & Hlen).
      right. pose proof HK as HK0. destruct HK as [HKd _].
      assert (Hd : k_dbuf k = []) by (apply HKd; intros Hh; rewrite Hh in Hl; exact Hl).
      assert (Hab : alpha_buf k = k_lbuf k) by (unfold alpha_buf; destruct (k_ph k); try contradiction; reflexivity).
      pose proof (kstep_line_buf k e k' (conj HKd (proj2 HK0)) Hlb Hl H) as Hk'.
      unfold kmu. rewrite Hk', Hab.
      assert (kflag (k_ph k') <= 1) by (destruct (k_ph k'); simpl; lia).
      assert (kflag (k_ph k) = 0) by (destruct (k_ph k); try contradiction; reflexivity). lia.
    - (* raw mode *)
      destruct HK as [HKd HKc]. unfold kstep in H.
      destruct (k_ph k) as [sk|m t v pend h|rh n acc|rh s acc| |] eqn:Ep; try (exfalso; apply Hnl; exact I).
      + assert (Hd : k_dbuf k = []) by (apply HKd; discriminate).
        destruct (N.ltb (N.of_nat (length (k_lbuf k))) n) eqn:El.
        * inversion H; subst. left. reflexivity.
        * inversion H as [H'].
          eapply kfinish_body_len in H' as Hx; [|reflexivity|exact Hd].
          destruct Hx as [Hz|[Hf Ha]]; [left; exact Hz|right].
          unfold kmu. rewrite Hf, Ha. unfold alpha_buf. rewrite Ep. cbn [kflag]. rewrite skipn_length. lia.
      + assert (Hd : k_dbuf k = []) by (apply HKd; discriminate).
        destruct (C22.Model.D true default_maxtr (with_buf s (buf s ++ k_lbuf k))) as [o [s'|extra|er]] eqn:Ed.
        * inversion H; subst. left. reflexivity.
        * inversion H as [H'].
          eapply kfinish_body_len in H' as Hx; [|reflexivity|exact Hd].
          destruct Hx as [Hz|[Hf Ha]]; [left; exact Hz|right].
          pose proof (D_fin_length true default_maxtr (S (mu (with_buf s (buf s ++ k_lbuf k)))) _ _ _
                        (Nat.lt_succ_diag_r _) Ed) as Hlen. cbn [buf with_buf] in Hlen.
          unfold kmu. rewrite Hf, Ha. unfold alpha_buf. rewrite Ep. cbn [kflag]. lia.
        * discriminate.
      + inversion H; subst. left. reflexivity.
      + inversion H; subst. left. reflexivity.
  Qed.

  Lemma kdrain_idle : forall f k, k_lbuf k = [] -> kdrain resp (S f) k = Some ([], Some k).
  Proof. intros f k H. cbn [kdrain]. rewrite H. reflexivity. Qed.

  Lemma kdrain_total : forall fuel k, KI k -> kmu k + 2 < fuel -> kdrain resp fuel k <> None.
  Proof.
    induction fuel as [|fuel IH]; intros k HK Hf; [lia|].
    cbn [kdrain]. destruct (k_lbuf k) as [|l0 ll] eqn:El; [discriminate|].
    assert (Hlb : k_lbuf k <> []) by (rewrite El; discriminate).
    destruct (kstep resp k) as [[e1 k1|e1]|] eqn:Ek; try discriminate.
    assert (HK1 : KI k1).
    { assert (Hdec : line_phase (k_ph k) \/ ~ line_phase (k_ph k)) by (destruct (k_ph k); simpl; tauto).
      destruct Hdec as [Hl|Hnl].
      - pose proof (kstep_line resp k HK Hlb Hl) as Hs. rewrite Ek in Hs. exact (proj1 Hs).
      - pose proof (kstep_raw resp k HK Hlb Hnl) as Hs. rewrite Ek in Hs. exact (proj1 Hs). }
    destruct (kstep_measure k e1 k1 HK Hlb Ek) as [Hz|Hm].
    - destruct fuel as [|fuel']; [lia|]. rewrite (kdrain_idle fuel' k1 Hz). discriminate.
    - specialize (IH k1 HK1 ltac:(lia)). destruct (kdrain resp fuel k1) as [[e2 r2]|]; [discriminate|congruence].
  Qed.

  Lemma kfuel_enough : forall k, kmu k + 2 < kfuel k.
  Proof. intros k. unfold kmu, kfuel. destruct (k_ph k); simpl; lia. Qed.

  Lemma kapply_total : forall s o, KS s -> exists e r, kapply resp s o = Some (e, r).
  Proof.
    intros [k|] o HS.
    - destruct HS as [HK HB]. destruct o as [c|]; simpl.
      + pose proof (kdrain_total _ _ (KI_append k c HK) (kfuel_enough _)) as Ht.
        destruct (kdrain resp _ _) as [[e r]|]; [eauto|congruence].
      + destruct (k_ph k); eauto. destruct (k_pers k); eauto.
        match goal with |- context [kdrain resp (kfuel ?k1) ?k1] =>
          assert (HK1 : KI k1) by (split; [intros _; reflexivity|intros; discriminate]);
          pose proof (kdrain_total _ _ HK1 (kfuel_enough k1)) as Ht;
          destruct (kdrain resp (kfuel k1) k1) as [[e r]|]; [eauto|congruence]
        end.
    - destruct o; simpl; eauto.
  Qed.

  Theorem krun_total : forall ops s, KS s -> exists e r, krun resp s ops = Some (e, r).
  Proof.
    induction ops as [|o ops IH]; intros s HS; [simpl; eauto|].
    destruct (kapply_total s o HS) as (e1 & s1 & Ha). cbn [krun]. rewrite Ha.
    assert (HS1 : KS s1).
    { destruct o as [c|]; simpl in Ha; [exact (proj2 (kfeed_refines resp s c e1 s1 HS Ha))|exact (proj2 (kfinish_refines resp s e1 s1 HS Ha))]. }
    destruct (IH s1 HS1) as (e2 & r & Hr). rewrite Hr. eauto.
  Qed.

  (** for every history the three-buffer channel completes, and agrees with the single-buffer one *)
  Theorem three_buffers_total : forall ops, exists e r,
    krun resp (Some kinit) ops = Some (e, r) /\ run resp start ops = (e, option_map alpha r).
  Proof.
    intros ops. destruct (krun_total ops (Some kinit) (KS_init)) as (e & r & H).
    exists e, r. split; [exact H|apply (three_buffers_refine resp); exact H].
  Qed.
End T.
