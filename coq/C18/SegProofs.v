(** C18 proofs, part 2: appending bytes to the buffer commutes with the channel's loop. *)
From Coq Require Import List NArith Bool Arith Lia ZifyBool.
From TwLib Require Import HttpGrammar.
From C22 Require Import Gen Model Proofs SegProofs.
From C19 Require Import Model.
From C18 Require Import Model Proofs.
Import ListNotations.

Arguments find_crlf : simpl never.
Arguments find_crlf_from : simpl never.
Arguments hexint : simpl never.
Arguments firstn : simpl nomatch.
Arguments skipn : simpl nomatch.
Opaque MAX_LENGTH total_headers_size max_size_line.

(* the chunked decoder's resume index is sound (C22's invariant), whenever a chunked body is being read *)
Definition CInv (x : cst) (b : bytes) : Prop :=
  match ph x with PBodyChunk _ d _ => Inv (dec_of d b) | _ => True end.

Lemma dec_of_ext : forall d b c, dec_of d (b ++ c) = ext (dec_of d b) c.
Proof. reflexivity. Qed.

Lemma CInv_ext : forall x b c, CInv x b -> CInv x (b ++ c).
Proof.
  intros x b c H. unfold CInv in *. destruct (ph x); auto. rewrite dec_of_ext. apply Inv_ext. exact H.
Qed.

Lemma dec_of_d_of : forall s, dec_of (d_of s) (buf s) = s.
Proof. intros [m b st rem rc]. reflexivity. Qed.

Section Seg.
  Variable resp : nat -> bool.
  Notation step := (C18.Model.step resp).
  Notation D := (C18.Model.D resp).

  Lemma deliver_CInv : forall x r body rest e x' r', deliver resp x r body rest = Emit e x' r' -> CInv x' r'.
  Proof.
    intros x r body rest e x' r' H. unfold deliver in H.
    destruct (resp (nreq x)); [destruct (pers x)|]; inversion H; subst; exact I.
  Qed.

  Lemma line_received_CInv : forall x line rest e x' r',
    line_received resp x line rest = Emit e x' r' -> CInv x' r'.
  Proof.
    intros x line rest e x' r' H. unfold line_received in H. destruct (N.ltb _ _); [discriminate|].
    destruct (ph x) as [sk|m t v pending h| | | |]; try discriminate.
    - destruct (negb (pers x)); [inversion H; exact I|].
      destruct (is_nil line && negb sk)%bool; [inversion H; exact I|].
      destruct (parse_request_line true line) as [[[m t] v]|]; inversion H; exact I.
    - destruct line as [|c0 l].
      + destruct (flush h pending); [|discriminate]. unfold end_of_headers in H.
        destruct (h_dec h0) as [|n|]; [| destruct (N.eqb n 0)|];
          try (inversion H; subst; unfold CInv; simpl; try exact I; apply Inv_start0);
          match type of H with context [deliver ?a ?b ?c ?d ?f] => destruct (deliver a b c d f) eqn:Ed end;
          try discriminate; inversion H; subst; apply (deliver_CInv _ _ _ _ _ _ _ Ed).
      + destruct (is_ws c0); [inversion H; exact I|]. destruct (flush h pending); inversion H; exact I.
  Qed.

  Lemma deliver_not_wait : forall x r body rest x', deliver resp x r body rest <> Wait x'.
  Proof. intros. unfold deliver. destruct (resp (nreq x)); [destruct (pers x)|]; discriminate. Qed.

  Lemma line_received_not_wait : forall x line rest x',
    (match ph x with PFirst _ | PHeaders _ _ _ _ _ => True | _ => False end) ->
    line_received resp x line rest <> Wait x'.
  Proof.
    intros x line rest x' Hp H. unfold line_received in H. destruct (N.ltb _ _); [discriminate|].
    destruct (ph x) as [sk|m t v pending h| | | |]; try contradiction.
    - destruct (negb (pers x)); [discriminate|]. destruct (is_nil line && negb sk)%bool; [discriminate|].
      destruct (parse_request_line true line) as [[[m t] v]|]; discriminate.
    - destruct line as [|c0 l].
      + destruct (flush h pending); [|discriminate]. unfold end_of_headers in H.
        destruct (h_dec h0) as [|n|]; [| destruct (N.eqb n 0)|]; try discriminate;
          match type of H with context [deliver ?a ?b ?c ?d ?f] => destruct (deliver a b c d f) eqn:Ed end;
          try discriminate; exact (deliver_not_wait _ _ _ _ _ Ed).
      + destruct (is_ws c0); [discriminate|]. destruct (flush h pending); discriminate.
  Qed.

  (* is the first handler call independent of what follows the buffer? *)
  Definition stable (x : cst) (b : bytes) : Prop :=
    match ph x with
    | PBodyLen _ n _ => (n <= N.of_nat (length b))%N
    | PBodyChunk _ d _ => d_md d = MBody -> (d_rem d <= N.of_nat (length b))%N
    | PDead => False
    | _ => True
    end.

  Lemma step_ext : forall x b c, CInv x b -> b <> [] ->
    match step x b with
    | Fail e => step x (b ++ c) = Fail e
    | Wait x' => CInv x' b /\ step x' (b ++ c) = step x (b ++ c)
    | Emit e x' r => CInv x' r /\ (stable x b -> step x (b ++ c) = Emit e x' (r ++ c))
    end.
  Proof.
    intros x b c HI Hb. unfold C18.Model.step.
    destruct (ph x) as [sk|m t v pending h|rh n acc|rh d acc| |] eqn:Ep.
    1,2: destruct (find_crlf b) as [i|] eqn:Ef;
      [ rewrite (find_crlf_app_some _ c _ Ef); pose proof (find_crlf_bound _ _ Ef) as Hi;
        destruct (N.ltb MAX_LENGTH (N.of_nat i)); [reflexivity|];
        rewrite (firstn_app_le b c i) by lia; rewrite (skipn_app_le b c (i + 2)) by lia;
        rewrite line_received_rest;
        destruct (line_received resp x (firstn i b) (skipn (i + 2) b)) as [e x' r|x'|e] eqn:El; simpl;
        [ split; [eapply line_received_CInv; eauto|intros _; reflexivity]
        | exfalso; apply (line_received_not_wait _ _ _ _ ltac:(rewrite Ep; exact I) El)
        | reflexivity ]
      | destruct (N.leb (MAX_LENGTH + 2) (N.of_nat (length b))) eqn:El;
        [ destruct (find_crlf (b ++ c)) as [j|] eqn:Ef2;
          [ destruct (find_crlf_app_none _ _ _ Ef Ef2) as [Hj|[Hj _]];
            (destruct (N.ltb MAX_LENGTH (N.of_nat j)) eqn:E3; [reflexivity|lia])
          | destruct (N.leb (MAX_LENGTH + 2) (N.of_nat (length (b ++ c)))) eqn:E3; [reflexivity|];
            rewrite app_length in E3; lia ]
        | split; [exact HI|rewrite Ep; reflexivity] ] ].
    - (* identity decoder *)
      destruct (N.ltb (N.of_nat (length b)) n) eqn:El.
      + split; [exact I|]. unfold stable. rewrite Ep. lia.
      + destruct (deliver resp x rh (acc ++ firstn (N.to_nat n) b) (skipn (N.to_nat n) b)) as [e x' r|x'|e] eqn:Ed.
        * split; [eapply deliver_CInv; eauto|]. intros _.
          destruct (N.ltb (N.of_nat (length (b ++ c))) n) eqn:E2; [rewrite app_length in E2; lia|].
          rewrite firstn_app_le, skipn_app_le by lia. rewrite deliver_rest, Ed. reflexivity.
        * unfold deliver in Ed. destruct (resp (nreq x)); [destruct (pers x)|]; discriminate.
        * destruct (N.ltb (N.of_nat (length (b ++ c))) n) eqn:E2; [rewrite app_length in E2; lia|].
          rewrite firstn_app_le, skipn_app_le by lia. rewrite deliver_rest, Ed. reflexivity.
    - (* chunked decoder: C22's lemmas *)
      unfold CInv in HI. rewrite Ep in HI. rewrite dec_of_ext.
      assert (Hb' : buf (dec_of d b) <> []) by exact Hb.
      destruct (C22.Model.step true default_maxtr (dec_of d b)) as [s'|s' out|ex|er] eqn:Es.
      + destruct (step_more_ext default_maxtr _ _ HI Es) as (HI' & Hbuf & Hstep).
        simpl in Hbuf. split.
        * unfold CInv. simpl. rewrite <- Hbuf, dec_of_d_of. exact HI'.
        * simpl. rewrite dec_of_ext. rewrite <- Hbuf at 1. rewrite dec_of_d_of.
          rewrite (Hstep c). reflexivity.
      + split.
        * unfold CInv. simpl. rewrite dec_of_d_of. eapply step_go_inv; eauto.
        * intros Hst. unfold stable in Hst. rewrite Ep in Hst.
          destruct (step_go_ext default_maxtr _ _ _ c HI Es) as [Hs _]; [exact Hst|].
          rewrite Hs. reflexivity.
      + rewrite (step_fin_ext default_maxtr _ _ c HI Es).
        destruct (deliver resp x rh acc ex) as [e x' r|x'|e] eqn:Ed.
        * split; [eapply deliver_CInv; eauto|]. intros _. rewrite deliver_rest, Ed. reflexivity.
        * unfold deliver in Ed. destruct (resp (nreq x)); [destruct (pers x)|]; discriminate.
        * rewrite deliver_rest, Ed. reflexivity.
      + rewrite (step_bad_ext default_maxtr _ _ c HI Hb' Es). reflexivity.
    - split; [exact HI|rewrite Ep; reflexivity].
    - split; [exact HI|]. unfold stable. rewrite Ep. tauto.
  Qed.
End Seg.
