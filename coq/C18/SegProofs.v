(** C18 proofs, part 2: appending bytes to the buffer commutes with the channel's loop. *)
From Coq Require Import List NArith Bool Arith Lia ZifyBool.
From TwLib Require Import HttpGrammar.
From C22 Require Import Gen Model Proofs SegProofs.
From C19 Require Import Model.
From C18 Require Import Model Proofs.
Import ListNotations.

Arguments find_crlf : simpl never.
Arguments find_crlf_from : simpl never.
Arguments hexint : simpl never.
Arguments firstn : simpl nomatch.
Arguments skipn : simpl nomatch.
Opaque MAX_LENGTH total_headers_size max_size_line.

(* the chunked decoder's resume index is sound (C22's invariant), whenever a chunked body is being read *)
Definition CInv (x : cst) (b : bytes) : Prop :=
  match ph x with PBodyChunk _ d _ => Inv (dec_of d b) | _ => True end.

Lemma dec_of_ext : forall d b c, dec_of d (b ++ c) = ext (dec_of d b) c.
Proof. reflexivity. Qed.

Lemma CInv_ext : forall x b c, CInv x b -> CInv x (b ++ c).
Proof.
  intros x b c H. unfold CInv in *. destruct (ph x); auto. rewrite dec_of_ext. apply Inv_ext. exact H.
Qed.

Lemma dec_of_d_of : forall s, dec_of (d_of s) (buf s) = s.
Proof. intros [m b st rem rc]. reflexivity. Qed.

Section Seg.
  Variable resp : nat -> bool.
  Notation step := (C18.Model.step resp).
  Notation D := (C18.Model.D resp).

  Lemma deliver_CInv : forall x r body rest e x' r', deliver resp x r body rest = Emit e x' r' -> CInv x' r'.
  Proof.
    intros x r body rest e x' r' H. unfold deliver in H.
    destruct (resp (nreq x)); [destruct (pers x)|]; inversion H; subst; exact I.
  Qed.

  Lemma line_received_CInv : forall x line rest e x' r',
    line_received resp x line rest = Emit e x' r' -> CInv x' r'.
  Proof.
    intros x line rest e x' r' H. unfold line_received in H. destruct (N.ltb _ _); [discriminate|].
    destruct (ph x) as [sk|m t v pending h| | | |]; try discriminate.
    - destruct (negb (pers x)); [inversion H; exact I|].
      destruct (is_nil line && negb sk)%bool; [inversion H; exact I|].
      destruct (parse_request_line true line) as [[[m t] v]|]; inversion H; exact I.
    - destruct line as [|c0 l].
      + destruct (flush h pending); [|discriminate]. unfold end_of_headers in H.
        destruct (h_dec h0) as [|n|]; [| destruct (N.eqb n 0)|];
          try (inversion H; subst; unfold CInv; simpl; try exact I; apply Inv_start0);
          match type of H with context [deliver ?a ?b ?c ?d ?f] => destruct (deliver a b c d f) eqn:Ed end;
          try discriminate; inversion H; subst; apply (deliver_CInv _ _ _ _ _ _ _ Ed).
      + destruct (is_ws c0); [inversion H; exact I|]. destruct (flush h pending); inversion H; exact I.
  Qed.

  Lemma deliver_not_wait : forall x r body rest x', deliver resp x r body rest <> Wait x'.
  Proof. intros. unfold deliver. destruct (resp (nreq x)); [destruct (pers x)|]; discriminate. Qed.

  Lemma line_received_not_wait : forall x line rest x',
    (match ph x with PFirst _ | PHeaders _ _ _ _ _ => True | _ => False end) ->
    line_received resp x line rest <> Wait x'.
  Proof.
    intros x line rest x' Hp H. unfold line_received in H. destruct (N.ltb _ _); [discriminate|].
    destruct (ph x) as [sk|m t v pending h| | | |]; try contradiction.
    - destruct (negb (pers x)); [discriminate|]. destruct (is_nil line && negb sk)%bool; [discriminate|].
      destruct (parse_request_line true line) as [[[m t] v]|]; discriminate.
    - destruct line as [|c0 l].
      + destruct (flush h pending); [|discriminate]. unfold end_of_headers in H.
        destruct (h_dec h0) as [|n|]; [| destruct (N.eqb n 0)|]; try discriminate;
          match type of H with context [deliver ?a ?b ?c ?d ?f] => destruct (deliver a b c d f) eqn:Ed end;
          try discriminate; exact (deliver_not_wait _ _ _ _ _ Ed).
      + destruct (is_ws c0); [discriminate|]. destruct (flush h pending); discriminate.
  Qed.

  (* is the first handler call independent of what follows the buffer? *)
  Definition stable (x : cst) (b : bytes) : Prop :=
    match ph x with
    | PBodyLen _ n _ => (n <= N.of_nat (length b))%N
    | PBodyChunk _ d _ => d_md d = MBody -> (d_rem d <= N.of_nat (length b))%N
    | PDead => False
    | _ => True
    end.

  Lemma step_ext : forall x b c, CInv x b -> b <> [] ->
    match step x b with
    | Fail e => step x (b ++ c) = Fail e
    | Wait x' => CInv x' b /\ step x' (b ++ c) = step x (b ++ c)
    | Emit e x' r => CInv x' r /\ (stable x b -> step x (b ++ c) = Emit e x' (r ++ c))
    end.
  Proof.
    intros x b c HI Hb. unfold C18.Model.step.
    destruct (ph x) as [sk|m t v pending h|rh n acc|rh d acc| |] eqn:Ep.
    1,2: destruct (find_crlf b) as [i|] eqn:Ef;
      [ rewrite (find_crlf_app_some _ c _ Ef); pose proof (find_crlf_bound _ _ Ef) as Hi;
        destruct (N.ltb MAX_LENGTH (N.of_nat i)); [reflexivity|];
        rewrite (firstn_app_le b c i) by lia; rewrite (skipn_app_le b c (i + 2)) by lia;
        rewrite line_received_rest;
        destruct (line_received resp x (firstn i b) (skipn (i + 2) b)) as [e x' r|x'|e] eqn:El; simpl;
        [ split; [eapply line_received_CInv; eauto|intros _; reflexivity]
        | exfalso; apply (line_received_not_wait _ _ _ _ ltac:(rewrite Ep; exact I) El)
        | reflexivity ]
      | destruct (N.leb (MAX_LENGTH + 2) (N.of_nat (length b))) eqn:El;
        [ destruct (find_crlf (b ++ c)) as [j|] eqn:Ef2;
          [ destruct (find_crlf_app_none _ _ _ Ef Ef2) as [Hj|[Hj _]];
            (destruct (N.ltb MAX_LENGTH (N.of_nat j)) eqn:E3; [reflexivity|lia])
          | destruct (N.leb (MAX_LENGTH + 2) (N.of_nat (length (b ++ c)))) eqn:E3; [reflexivity|];
            rewrite app_length in E3; lia ]
        | split; [exact HI|rewrite Ep; reflexivity] ] ].
    - (* identity decoder *)
      destruct (N.ltb (N.of_nat (length b)) n) eqn:El.
      + split; [exact I|]. unfold stable. rewrite Ep. lia.
      + destruct (deliver resp x rh (acc ++ firstn (N.to_nat n) b) (skipn (N.to_nat n) b)) as [e x' r|x'|e] eqn:Ed.
        * split; [eapply deliver_CInv; eauto|]. intros _.
          destruct (N.ltb (N.of_nat (length (b ++ c))) n) eqn:E2; [rewrite app_length in E2; lia|].
          rewrite firstn_app_le, skipn_app_le by lia. rewrite deliver_rest, Ed. reflexivity.
        * unfold deliver in Ed. destruct (resp (nreq x)); [destruct (pers x)|]; discriminate.
        * destruct (N.ltb (N.of_nat (length (b ++ c))) n) eqn:E2; [rewrite app_length in E2; lia|].
          rewrite firstn_app_le, skipn_app_le by lia. rewrite deliver_rest, Ed. reflexivity.
    - (* chunked decoder: C22's lemmas *)
      unfold CInv in HI. rewrite Ep in HI. rewrite dec_of_ext.
      assert (Hb' : buf (dec_of d b) <> []) by exact Hb.
      destruct (C22.Model.step true default_maxtr (dec_of d b)) as [s'|s' out|ex|er] eqn:Es.
      + destruct (step_more_ext default_maxtr _ _ HI Es) as (HI' & Hbuf & Hstep).
        simpl in Hbuf. split.
        * unfold CInv. simpl. rewrite <- Hbuf, dec_of_d_of. exact HI'.
        * simpl. rewrite dec_of_ext. rewrite <- Hbuf at 1. rewrite dec_of_d_of.
          rewrite (Hstep c). reflexivity.
      + split.
        * unfold CInv. simpl. rewrite dec_of_d_of. eapply step_go_inv; eauto.
        * intros Hst. unfold stable in Hst. rewrite Ep in Hst.
          destruct (step_go_ext default_maxtr _ _ _ c HI Es) as [Hs _]; [exact Hst|].
          rewrite Hs. reflexivity.
      + rewrite (step_fin_ext default_maxtr _ _ c HI Es).
        destruct (deliver resp x rh acc ex) as [e x' r|x'|e] eqn:Ed.
        * split; [eapply deliver_CInv; eauto|]. intros _. rewrite deliver_rest, Ed. reflexivity.
        * unfold deliver in Ed. destruct (resp (nreq x)); [destruct (pers x)|]; discriminate.
        * rewrite deliver_rest, Ed. reflexivity.
      + rewrite (step_bad_ext default_maxtr _ _ c HI Hb' Es). reflexivity.
    - split; [exact HI|rewrite Ep; reflexivity].
    - split; [unfold CInv; rewrite Ep; exact I|]. unfold stable. rewrite Ep. tauto.
  Qed.
End Seg.

Section Seg2.
  Variable resp : nat -> bool.
  Notation step := (C18.Model.step resp).
  Notation D := (C18.Model.D resp).

  (* what a second delivery [c] does after the outcome of the first *)
  Definition bind (r : list ev * state) (c : bytes) : list ev * state :=
    match r with
    | (e, Some (x', r')) => let '(e', s') := D x' (r' ++ c) in (e ++ e', s')
    | (e, None) => (e, None)
    end.

  Lemma D_nil : forall x, D x [] = ([], Some (x, [])).
  Proof. intros. rewrite D_unfold. reflexivity. Qed.

  Lemma stable_dec : forall x b, {stable x b} + {~ stable x b}.
  Proof.
    intros x b. unfold stable. destruct (ph x) as [| |rh n acc|rh d acc| |]; auto.
    - destruct (N.leb n (N.of_nat (length b))) eqn:E; [left|right]; lia.
    - destruct (d_md d); try (left; discriminate).
      destruct (N.leb (d_rem d) (N.of_nat (length b))) eqn:E; [left; intros _|right; intros H; specialize (H eq_refl)]; lia.
  Qed.

  Lemma deliver_same : forall x1 x2 r body rest, pers x1 = pers x2 -> nreq x1 = nreq x2 ->
    deliver resp x1 r body rest = deliver resp x2 r body rest.
  Proof. intros x1 x2 r body rest H1 H2. unfold deliver. rewrite H1, H2. reflexivity. Qed.

  Lemma D_ne : forall x b, b <> [] -> D x b =
    match step x b with
    | Emit e x' r => let '(e', s) := D x' r in (e ++ e', s)
    | Wait x' => ([], Some (x', b))
    | Fail e => (e, None)
    end.
  Proof. intros x b Hb. rewrite D_unfold. destruct b; [congruence|reflexivity]. Qed.

  Lemma app_ne : forall (b c : bytes), b <> [] -> b ++ c <> [].
  Proof. intros [|x b] c H; [congruence|discriminate]. Qed.

  Lemma D_app : forall n x b c, cmu x b < n -> CInv x b -> D x (b ++ c) = bind (D x b) c.
  Proof.
    induction n as [|n IH]; intros x b c Hn HI; [lia|].
    destruct b as [|b0 bl].
    { rewrite D_nil. unfold bind. simpl. destruct (D x c). reflexivity. }
    remember (b0 :: bl) as b eqn:Hbeq. assert (Hb : b <> []) by (subst; discriminate). clear Hbeq b0 bl.
    pose proof (app_ne b c Hb) as Hbc.
    pose proof (step_ext resp x b c HI Hb) as Hext.
    rewrite (D_ne x b Hb).
    destruct (step x b) as [e x' r|x'|e] eqn:Es.
    - destruct Hext as [HI' Hst].
      assert (Hmu : cmu x' r < cmu x b) by (eapply step_emit_mu; eauto).
      destruct (stable_dec x b) as [Hs|Hns].
      + (* the first handler call does not look beyond the buffer *)
        specialize (Hst Hs). rewrite (D_ne x (b ++ c) Hbc), Hst.
        rewrite (IH x' r c) by (lia || exact HI').
        destruct (D x' r) as [e1 [[x2 r2]|]]; unfold bind.
        * destruct (D x2 (r2 ++ c)) as [e2 s2]. rewrite app_assoc. reflexivity.
        * reflexivity.
      + (* it does: a body that continues beyond the buffer, or a dead channel *)
        clear Hst. unfold stable in Hns. unfold C18.Model.step in Es.
        destruct (ph x) as [sk|m t v pending h|rh nn acc|rh d acc| |] eqn:Ep; try tauto.
        * (* identity decoder *)
          destruct (N.ltb (N.of_nat (length b)) nn) eqn:El; [|lia].
          injection Es as <- <- <-. rewrite D_nil. unfold bind. cbn [app].
          destruct c as [|c0 cl].
          { rewrite app_nil_r. rewrite (D_ne x b Hb).
            unfold C18.Model.step. rewrite Ep, El. rewrite !D_nil. reflexivity. }
          remember (c0 :: cl) as c eqn:Hceq. assert (Hc : c <> []) by (subst; discriminate). clear Hceq c0 cl.
          rewrite (D_ne x (b ++ c) Hbc). rewrite (D_ne _ c Hc).
          unfold C18.Model.step. rewrite Ep. cbn [ph hsize pers nreq].
          assert (Hlen : length (b ++ c) = length b + length c) by apply app_length.
          destruct (N.ltb (N.of_nat (length c)) (nn - N.of_nat (length b))) eqn:E2.
          -- destruct (N.ltb (N.of_nat (length (b ++ c))) nn) eqn:E3; [|lia].
             rewrite !D_nil. cbn [app].
             replace (nn - N.of_nat (length (b ++ c)))%N with (nn - N.of_nat (length b) - N.of_nat (length c))%N by lia.
             rewrite app_assoc. reflexivity.
          -- destruct (N.ltb (N.of_nat (length (b ++ c))) nn) eqn:E3; [lia|].
             rewrite firstn_app, (@firstn_all2 _ (N.to_nat nn) b) by lia.
             rewrite skipn_app, (@skipn_all2 _ (N.to_nat nn) b) by lia. cbn [app].
             replace (N.to_nat nn - length b) with (N.to_nat (nn - N.of_nat (length b))) by lia.
             rewrite <- app_assoc.
             unfold deliver. cbn [pers nreq].
             destruct (resp (nreq x)); [destruct (pers x)|]; try reflexivity;
               match goal with |- context [D ?u ?w] => destruct (D u w) end; reflexivity.
        * (* chunked decoder in the middle of a chunk *)
          destruct (d_md d) eqn:Emd; try (exfalso; apply Hns; discriminate).
          assert (Hlt : (N.of_nat (length b) < d_rem d)%N)
            by (destruct (N.leb (d_rem d) (N.of_nat (length b))) eqn:E; [exfalso; apply Hns; intros _; lia|lia]).
          destruct d as [dm ds dr dc]. cbn [d_md d_rem] in *. subst dm.
          unfold C22.Model.step, dec_of in Es.
          cbn [md buf C22.Model.start remaining rcvd d_md d_start d_rem d_rcvd] in Es.
          destruct (N.leb dr (N.of_nat (length b))) eqn:El; [lia|].
          injection Es as <- <- <-. rewrite D_nil. unfold bind. cbn [app concat]. rewrite app_nil_r.
          destruct c as [|c0 cl].
          { rewrite app_nil_r. rewrite (D_ne x b Hb).
            unfold C18.Model.step. rewrite Ep. unfold C22.Model.step, dec_of.
            cbn [md buf C22.Model.start remaining rcvd d_md d_start d_rem d_rcvd]. rewrite El.
            rewrite !D_nil. cbn [concat app]. rewrite !app_nil_r. reflexivity. }
          remember (c0 :: cl) as c eqn:Hceq. assert (Hc : c <> []) by (subst; discriminate). clear Hceq c0 cl.
          rewrite (D_ne x (b ++ c) Hbc). rewrite (D_ne _ c Hc).
          unfold C18.Model.step. rewrite Ep. cbn [ph hsize pers nreq].
          unfold C22.Model.step, dec_of, d_of.
          cbn [md buf C22.Model.start remaining rcvd d_md d_start d_rem d_rcvd].
          assert (Hlen : length (b ++ c) = length b + length c) by apply app_length.
          destruct (N.leb (dr - N.of_nat (length b)) (N.of_nat (length c))) eqn:E2.
          -- destruct (N.leb dr (N.of_nat (length (b ++ c)))) eqn:E3; [|lia].
             cbn [md buf C22.Model.start remaining rcvd concat].
             rewrite firstn_app, (@firstn_all2 _ (N.to_nat dr) b) by lia.
             rewrite skipn_app, (@skipn_all2 _ (N.to_nat dr) b) by lia. cbn [app].
             replace (N.to_nat dr - length b) with (N.to_nat (dr - N.of_nat (length b))) by lia.
             rewrite !app_nil_r. rewrite <- app_assoc.
             match goal with |- context [D ?u ?w] => destruct (D u w) end; reflexivity.
          -- destruct (N.leb dr (N.of_nat (length (b ++ c)))) eqn:E3; [lia|].
             cbn [md buf C22.Model.start remaining rcvd concat].
             replace (dr - N.of_nat (length (b ++ c)))%N with (dr - N.of_nat (length b) - N.of_nat (length c))%N by lia.
             rewrite !app_nil_r. rewrite <- app_assoc.
             match goal with |- context [D ?u ?w] => destruct (D u w) end; reflexivity.
        * (* dead *)
          injection Es as <- <- <-. rewrite D_nil. unfold bind. cbn [app].
          rewrite (D_ne x (b ++ c) Hbc).
          unfold C18.Model.step. rewrite Ep. rewrite D_nil.
          destruct c as [|c0 cl]; [rewrite D_nil; reflexivity|].
          rewrite (D_ne x (c0 :: cl)) by discriminate. unfold C18.Model.step. rewrite Ep, D_nil. reflexivity.
    - (* waiting: only decoder bookkeeping changed *)
      destruct Hext as [HI' Hs]. unfold bind. cbn [app].
      rewrite (D_ne x (b ++ c) Hbc), (D_ne x' (b ++ c) Hbc), Hs.
      destruct (step x (b ++ c)) as [e2 x2 r2|x2|e2]; try reflexivity. destruct (D x2 r2); reflexivity.
    - rewrite (D_ne x (b ++ c) Hbc), Hext. reflexivity.
  Qed.
End Seg2.

(** ---- any number of deliveries (Seg.v, layer 1) ---- *)
From TwLib Require Import Seg.

Section Seg3.
  Variable resp : nat -> bool.
  Notation step := (C18.Model.step resp).
  Notation D := (C18.Model.D resp).
  Notation feed := (C18.Model.feed resp).

  Lemma D_CInv : forall n x b e x' r, cmu x b < n -> CInv x b -> D x b = (e, Some (x', r)) -> CInv x' r.
  Proof.
    induction n as [|n IH]; intros x b e x' r Hn HI H; [lia|].
    destruct b as [|b0 bl].
    { rewrite D_nil in H. inversion H; subst. exact HI. }
    assert (Hb : b0 :: bl <> []) by discriminate.
    pose proof (step_ext resp x (b0 :: bl) [] HI Hb) as Hext.
    rewrite (D_ne resp x _ Hb) in H.
    destruct (step x (b0 :: bl)) as [e1 x1 r1|x1|e1] eqn:Es.
    - destruct Hext as [HI1 _].
      assert (Hmu : cmu x1 r1 < cmu x (b0 :: bl)) by (eapply step_emit_mu; eauto).
      destruct (D x1 r1) as [e2 s2] eqn:Ed. inversion H; subst.
      eapply (IH x1 r1); [lia|exact HI1|exact Ed].
    - destruct Hext as [HI1 _]. inversion H; subst. exact HI1.
    - discriminate.
  Qed.

  (* nothing is left to do until more bytes arrive *)
  Definition SInv (s : state) : Prop :=
    match s with Some (x, b) => CInv x b /\ D x b = ([], Some (x, b)) | None => True end.

  Lemma D_settled : forall x b e x' r, CInv x b -> D x b = (e, Some (x', r)) -> D x' r = ([], Some (x', r)).
  Proof.
    intros x b e x' r HI H.
    pose proof (D_app resp (S (cmu x b)) x b [] (Nat.lt_succ_diag_r _) HI) as Ha.
    rewrite app_nil_r, H in Ha. unfold bind in Ha. rewrite app_nil_r in Ha.
    destruct (D x' r) as [e' s']. inversion Ha as [[H1 H2]].
    assert (e' = []) as -> by (apply (app_inv_head e); rewrite app_nil_r; symmetry; exact H1).
    reflexivity.
  Qed.

  Lemma feed_SInv : forall s c, SInv s -> SInv (snd (feed s c)).
  Proof.
    intros [[x b]|] c H; simpl; [|exact I]. destruct H as [HI _].
    destruct (D x (b ++ c)) as [e [[x' r]|]] eqn:Ed; simpl; [|exact I].
    split.
    - eapply (D_CInv (S (cmu x (b ++ c)))); [apply Nat.lt_succ_diag_r|apply CInv_ext; exact HI|exact Ed].
    - eapply D_settled; [apply CInv_ext; exact HI|exact Ed].
  Qed.

  Lemma feed_nil : forall s, SInv s -> feed s [] = ([], s).
  Proof. intros [[x b]|] H; simpl; [|reflexivity]. rewrite app_nil_r. apply H. Qed.

  Lemma feed_app : forall s a b, SInv s ->
    feed s (a ++ b) = let (e1, s1) := feed s a in let (e2, s2) := feed s1 b in (e1 ++ e2, s2).
  Proof.
    intros [[x buf]|] a b H; simpl; [|reflexivity]. destruct H as [HI _].
    rewrite app_assoc.
    rewrite (D_app resp (S (cmu x (buf ++ a))) x (buf ++ a) b (Nat.lt_succ_diag_r _) (CInv_ext _ _ _ HI)).
    unfold bind. destruct (D x (buf ++ a)) as [e1 [[x1 r1]|]]; simpl.
    - destruct (D x1 (r1 ++ b)); reflexivity.
    - rewrite app_nil_r. reflexivity.
  Qed.

  Lemma SInv_start : SInv start.
  Proof. split; [exact I|apply D_nil]. Qed.

  (** deliveries only: what the channel does is a function of the concatenation *)
  Theorem deliveries_concat : forall cs, Seg.run feed start cs = feed start (concat cs).
  Proof.
    intros cs. apply (run_concat feed SInv); auto using feed_SInv, feed_nil, feed_app, SInv_start.
  Qed.

  Lemma run_deliveries : forall cs s, C18.Model.run resp s (map Deliver cs) = Seg.run feed s cs.
  Proof.
    induction cs as [|c cs IH]; intros s; simpl; [reflexivity|].
    destruct (feed s c) as [e s1]. rewrite IH. reflexivity.
  Qed.
End Seg3.
