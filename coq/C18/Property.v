(** C18 property theorems.  [run resp start ops] = the events of an HTTPChannel (requests handed to the
    application with method, target, version, headers and body; 100 Continue, responses, 400 and
    connection-close in the order they are written / requested) and its final state, for a history
    [ops] of deliveries [Deliver c] and resource completions [Finish]; request number i is answered
    inside requestReceived iff [resp i].  [feed resp start s] = the same channel receiving [s] in one
    delivery.  All statements are for every byte string, every number of deliveries and requests. *)
From Coq Require Import List NArith Bool Arith.
From TwLib Require Import HttpGrammar Seg.
From C22 Require Import Model.
From C19 Require Import Model.
From C18 Require Import Model Proofs SegProofs Async.
Import ListNotations.

(** however the stream is cut into deliveries, the application sees the same requests, the server writes
    the same things in the same order and ends in the same state as for the stream in one piece (up to
    the first close request, after which nothing is processed) *)
Theorem http_server_segmentation_invariant : forall (resp : nat -> bool) (cs : list bytes),
  run resp start (map Deliver cs) = feed resp start (concat cs).
Proof. intros. rewrite run_deliveries. apply deliveries_concat. Qed.
Print Assumptions http_server_segmentation_invariant.

Theorem http_server_all_chunkings_agree : forall (resp : nat -> bool) (cs1 cs2 : list bytes),
  concat cs1 = concat cs2 -> run resp start (map Deliver cs1) = run resp start (map Deliver cs2).
Proof. intros resp cs1 cs2 H. rewrite !http_server_segmentation_invariant, H. reflexivity. Qed.
Print Assumptions http_server_all_chunkings_agree.

(** nor does it matter when the resource answers: any history of deliveries and completions, with any
    assignment of immediate / later answers to the requests, that ends with no request still being
    handled, gives exactly the events and state of the whole stream delivered at once to a channel whose
    resource answers immediately -- in particular data that arrives while a request is being handled
    (buffered in _dataBuffer and replayed by requestDone) is parsed exactly as if it had arrived later *)
Theorem resource_timing_and_segmentation_do_not_matter : forall (resp : nat -> bool) (ops : list op),
  ~ handling (snd (run resp start ops)) ->
  run resp start ops = feed sync start (bytes_of ops).
Proof. exact history_independent. Qed.
Print Assumptions resource_timing_and_segmentation_do_not_matter.

(** before the last response is written, the events so far are a prefix of that run: completing the
    pending response synchronously gives it *)
Theorem pending_history_completes_to_the_whole_stream_run : forall (resp : nat -> bool) (ops : list op),
  then_complete (run resp start ops) = feed sync start (bytes_of ops).
Proof. exact history_inv. Qed.
Print Assumptions pending_history_completes_to_the_whole_stream_run.

(** a non-trivial instance: two pipelined requests, the first with a chunked body, cut inside the chunk
    size line; the first request answered late, after everything has arrived *)
Definition ex_stream : bytes :=
  [80;79;83;84;32;47;32;72;84;84;80;47;49;46;49;13;10;84;114;97;110;115;102;101;114;45;69;110;99;111;100;105;110;103;58;32;
   99;104;117;110;107;101;100;13;10;13;10;51;13;10;97;98;99;13;10;48;13;10;13;10;71;69;84;32;47;120;32;72;84;84;80;47;49;46;49;13;10;13;10]%N.
Example ex_history :
  let ops := [Deliver (firstn 46 ex_stream); Deliver (skipn 46 ex_stream); Finish] in
  let r := run (fun i => negb (Nat.eqb i 0)) start ops in
  ~ handling (snd r) /\ length (flat_map (fun e => match e with EvReq q => [q] | _ => [] end) (fst r)) = 2.
Proof. vm_compute. split; [intros H; discriminate|reflexivity]. Qed.

(** ---- link to C19: the incremental channel computes C19's [serve_stream] ---- *)
From C19 Require Import Pipeline.
From C18 Require Import Link.

(** [obs] keeps the delivered requests and how the connection ended (400 / closed after the last
    response / still open); [nodrop] = no line exceeded LineReceiver.MAX_LENGTH (such a connection is
    closed without a response, which C19's parser does not model).  For every history of deliveries
    and resource completions that ends with no request being handled, the requests the application saw
    and the ending are exactly what C19's whole-stream parser computes from the concatenated bytes. *)
Theorem every_history_agrees_with_whole_stream_parser : forall (resp : nat -> bool) (ops : list op),
  ~ handling (snd (run resp start ops)) -> nodrop (run resp start ops) ->
  obs (run resp start ops) = serve_stream true (bytes_of ops).
Proof. exact history_is_serve_stream. Qed.
Print Assumptions every_history_agrees_with_whole_stream_parser.

(** hence C19's pipeline theorem for every segmentation and resource timing: if the bytes delivered are a
    pipeline of well-formed keep-alive requests (RFC 9112 rendering, any bodies), the application receives
    exactly those requests with exactly those bodies, whatever the cuts and whenever the resource answers *)
Theorem wellformed_pipeline_parsed_exactly_under_every_history :
  forall (resp : nat -> bool) (ops : list op) (qs : list wreq),
  Forall wf_wreq qs -> forallb keeps_alive qs = true ->
  bytes_of ops = flat_map render qs ->
  ~ handling (snd (run resp start ops)) -> nodrop (run resp start ops) ->
  obs (run resp start ops) = (map parsed qs, EWait).
Proof.
  intros resp ops qs Hw Hk Hb Hh Hnd.
  rewrite (history_is_serve_stream resp ops Hh Hnd), Hb. apply pipeline_complete; assumption.
Qed.
Print Assumptions wellformed_pipeline_parsed_exactly_under_every_history.

(** ---- the three buffers ---- *)
From C18 Require Import Buffers Total.

(** [krun] is the channel with LineReceiver._buffer, the chunked decoder's own buffer and
    HTTPChannel._dataBuffer kept apart, the decoder's whole loop run inside one rawDataReceived call, and
    the finish callback's extra bytes travelling _dataBuffer -> requestDone -> setLineMode -> re-entrant
    dataReceived -> _buffer (Model.v, "Channel3"; it is the machine the correspondence check evaluates).
    It completes every history (its loop fuel never runs out: [krun .. = Some ..], Total.v), and the
    single-buffer machine produces the same events and
    ends in the corresponding state ([alpha]: the one buffer = decoder buffer ++ _buffer, or
    _dataBuffer joined ++ _buffer while a request is handled).  So all theorems above are theorems about
    the three-buffer channel. *)
Theorem three_buffer_channel_refines_single_buffer : forall (resp : nat -> bool) (ops : list op),
  exists e r, krun resp (Some kinit) ops = Some (e, r) /\ run resp start ops = (e, option_map alpha r).
Proof. exact three_buffers_total. Qed.
Print Assumptions three_buffer_channel_refines_single_buffer.

(** in particular: its events do not depend on the segmentation *)
Theorem three_buffer_channel_segmentation_invariant : forall (resp : nat -> bool) (cs1 cs2 : list bytes) e1 r1 e2 r2,
  concat cs1 = concat cs2 ->
  krun resp (Some kinit) (map Deliver cs1) = Some (e1, r1) ->
  krun resp (Some kinit) (map Deliver cs2) = Some (e2, r2) ->
  e1 = e2 /\ option_map alpha r1 = option_map alpha r2.
Proof.
  intros resp cs1 cs2 e1 r1 e2 r2 Hc H1 H2.
  apply three_buffers_refine in H1. apply three_buffers_refine in H2.
  rewrite (http_server_all_chunkings_agree resp cs1 cs2 Hc) in H1. rewrite H1 in H2.
  inversion H2. split; reflexivity.
Qed.
Print Assumptions three_buffer_channel_segmentation_invariant.
