(** C18: HTTPChannel as an incremental receiver (src/twisted/web/http.py HTTPChannel.lineReceived /
    headerReceived / allHeadersReceived / rawDataReceived / allContentReceived / requestDone, on top of
    src/twisted/protocols/basic.py LineReceiver.dataReceived with its line / raw mode switch).

    State = control state [cst] + ONE buffer of bytes received and not yet consumed.  In the code these
    bytes sit, depending on the moment, in LineReceiver._buffer, in the chunked decoder's _buffer, or
    in HTTPChannel._dataBuffer (while a request is being handled); every hand-over between them
    (rawDataReceived(all of _buffer), finishCallback(extra) -> _dataBuffer -> setLineMode(extra), the
    _busyReceiving re-entrancy branch) moves the whole unconsumed tail, which the model renders as
    "the buffer stays, the control state changes".  That rendering is what the correspondence run
    checks against the real channel at every split point.

    One [step] = one iteration of LineReceiver's [while self._buffer] loop (line mode: one line to
    lineReceived; raw mode: one handler call of the transfer decoder -- the chunked decoder is the C22
    model's [step], the identity decoder is [PBodyLen]).  The per-line logic reuses the C19 model's
    functions ([parse_request_line], [header_received], [flush], [persistent]); C19 is about what is
    accepted, this file about when.

    The resource: request number i is answered inside requestReceived when [resp i = true]
    (synchronous), otherwise at a later [Finish] operation; until then the channel is in
    [PHandling] and only buffers.  Responses are the fixed bytes the harness's resource writes; the
    model records [EvResp] where they are written.

    Not modelled: timeouts, producer pause/resume above _optimisticEagerReadSize (16 KiB buffered
    while handling; the harness stays below), HTTP/2 negotiation, the response side (C20/C21). *)
From Coq Require Import List NArith Bool Arith.
From TwLib Require Import HttpGrammar.
From C22 Require Import Model.
From C19 Require Import Model.
Import ListNotations.

Definition MAX_LENGTH : N := 16384%N.          (* LineReceiver.MAX_LENGTH *)
Definition expect_name : bytes := [101;120;112;101;99;116]%N.
Definition continue_name : bytes := [49;48;48;45;99;111;110;116;105;110;117;101]%N.   (* 100-continue *)

Record rhead := mkrh { rh_m : bytes; rh_t : bytes; rh_v : bytes; rh_hdrs : list (bytes * bytes) }.
(* the chunked decoder without its buffer *)
Record dst := mkd { d_md : mode; d_start : nat; d_rem : N; d_rcvd : N }.
Definition dec_of (d : dst) (b : bytes) : st := mkst (d_md d) b (d_start d) (d_rem d) (d_rcvd d).
Definition d_of (s : st) : dst := mkd (md s) (start s) (remaining s) (rcvd s).
Definition dinit : dst := mkd MLen 0 0%N 0%N.

Inductive phase :=
| PFirst (skipped : bool)                                  (* __first_line = 1 / 2 *)
| PHeaders (m t v pending : bytes) (h : hst)               (* __first_line = 0, line mode *)
| PBodyLen (r : rhead) (n : N) (acc : bytes)               (* raw mode, _IdentityTransferDecoder, n > 0 left *)
| PBodyChunk (r : rhead) (d : dst) (acc : bytes)           (* raw mode, _ChunkedTransferDecoder *)
| PHandling                                                (* _handlingRequest: raw mode, buffer everything *)
| PDead.                                                   (* dataReceived replaced by a no-op *)

Record cst := mkc { ph : phase; hsize : N; pers : bool; nreq : nat }.

Inductive ev :=
| EvReq (r : req)        (* requestReceived: the application sees the request *)
| Ev100                  (* HTTP/1.1 100 Continue written *)
| EvResp                 (* the resource's response written *)
| Ev400                  (* HTTP/1.1 400 Bad Request written, loseConnection *)
| EvClose                (* loseConnection after the response of a non-persistent request *)
| EvDrop.                (* lineLengthExceeded: loseConnection without a response *)

Inductive sres :=
| Emit (e : list ev) (x : cst) (rest : bytes)
| Wait (x : cst)                               (* nothing consumed; only decoder bookkeeping may change *)
| Fail (e : list ev).                          (* connection closing: nothing further is processed *)

Definition init : cst := mkc (PFirst false) 0%N true 0.

Section Channel.
  Variable resp : nat -> bool.       (* request i answered synchronously? *)

  (* allContentReceived -> requestReceived -> (resource) -> requestDone *)
  Definition deliver (x : cst) (r : rhead) (body : bytes) (rest : bytes) : sres :=
    let rq := EvReq (mkreq (rh_m r) (rh_t r) (rh_v r) (rh_hdrs r) body) in
    if resp (nreq x) then
      if pers x then Emit [rq; EvResp] (mkc (PFirst false) 0%N true (S (nreq x))) rest
      else Fail [rq; EvResp; EvClose]
    else Emit [rq] (mkc PHandling 0%N (pers x) (S (nreq x))) rest.

  Definition wants_continue (v : bytes) (hs : list (bytes * bytes)) : bool :=
    match first_value expect_name hs with
    | Some e => (octets_eqb (lower e) continue_name && octets_eqb v HTTP_1_1)%bool
    | None => false
    end.

  (* the empty line that ends the header block *)
  Definition end_of_headers (x : cst) (m t v : bytes) (h : hst) (rest : bytes) : sres :=
    let r := mkrh m t v (h_hdrs h) in
    let x1 := mkc (ph x) (hsize x) (persistent v (h_hdrs h)) (nreq x) in
    let pre := if wants_continue v (h_hdrs h) then [Ev100] else [] in
    let add e s := match s with
                   | Emit e' x' r' => Emit (e ++ e') x' r'
                   | Fail e' => Fail (e ++ e')
                   | Wait x' => Wait x'
                   end in
    match h_dec h with
    | DNone => add pre (deliver x1 r [] rest)
    | DLen n => if N.eqb n 0 then add pre (deliver x1 r [] rest)
                else Emit pre (mkc (PBodyLen r n []) (hsize x) (pers x1) (nreq x)) rest
    | DChunk => Emit pre (mkc (PBodyChunk r dinit []) (hsize x) (pers x1) (nreq x)) rest
    end.

  (* lineReceived *)
  Definition line_received (x : cst) (line rest : bytes) : sres :=
    let size := (hsize x + N.of_nat (length line))%N in
    if N.ltb total_headers_size size then Fail [Ev400] else
    let x' p := mkc p size (pers x) (nreq x) in
    match ph x with
    | PFirst skipped =>
        if negb (pers x) then Emit [] (x' PDead) rest else
        if (is_nil line && negb skipped)%bool then Emit [] (x' (PFirst true)) rest else
        match parse_request_line true line with
        | None => Fail [Ev400]
        | Some (m, t, v) => Emit [] (x' (PHeaders m t v [] (mkh DNone [] 0))) rest
        end
    | PHeaders m t v pending h =>
        match line with
        | [] => match flush h pending with
                | Some h' => end_of_headers (x' (ph x)) m t v h' rest
                | None => Fail [Ev400]
                end
        | c :: _ =>
            if is_ws c then Emit [] (x' (PHeaders m t v (pending ++ SP :: lstrip line) h)) rest
            else match flush h pending with
                 | Some h' => Emit [] (x' (PHeaders m t v line h')) rest
                 | None => Fail [Ev400]
                 end
        end
    | _ => Wait x        (* not reached: other phases are raw mode *)
    end.

  (** one iteration of [while self._buffer]; [b] is non-empty *)
  Definition step (x : cst) (b : bytes) : sres :=
    match ph x with
    | PFirst _ | PHeaders _ _ _ _ _ =>
        match find_crlf b with
        | None => if N.leb (MAX_LENGTH + 2) (N.of_nat (length b)) then Fail [EvDrop] else Wait x
        | Some i => if N.ltb MAX_LENGTH (N.of_nat i) then Fail [EvDrop]
                    else line_received x (firstn i b) (skipn (i + 2) b)
        end
    | PBodyLen r n acc =>
        if N.ltb (N.of_nat (length b)) n
        then Emit [] (mkc (PBodyLen r (n - N.of_nat (length b))%N (acc ++ b)) (hsize x) (pers x) (nreq x)) []
        else deliver x r (acc ++ firstn (N.to_nat n) b) (skipn (N.to_nat n) b)
    | PBodyChunk r d acc =>
        match Model.step true default_maxtr (dec_of d b) with
        | More s' => Wait (mkc (PBodyChunk r (d_of s') acc) (hsize x) (pers x) (nreq x))
        | Go s' out => Emit [] (mkc (PBodyChunk r (d_of s') (acc ++ concat out)) (hsize x) (pers x) (nreq x)) (buf s')
        | Fin extra => deliver x r acc extra
        | Bad _ => Fail [Ev400]
        end
    | PHandling => Wait x
    | PDead => Emit [] x []
    end.

  (** LineReceiver.dataReceived's loop; [None] = connection closing *)
  Fixpoint drain (fuel : nat) (x : cst) (b : bytes) : list ev * option (cst * bytes) :=
    match fuel with
    | O => ([], Some (x, b))
    | S f =>
        match b with
        | [] => ([], Some (x, b))
        | _ :: _ =>
            match step x b with
            | Emit e x' r => let '(e', s) := drain f x' r in (e ++ e', s)
            | Wait x' => ([], Some (x', b))
            | Fail e => (e, None)
            end
        end
    end.
  (* each Emit removes a byte or leaves the chunked decoder's BODY state: never exhausted (Proofs.v) *)
  Definition D (x : cst) (b : bytes) := drain (2 * length b + 2) x b.

  Definition state := option (cst * bytes).

  (* dataReceived *)
  Definition feed (s : state) (c : bytes) : list ev * state :=
    match s with None => ([], None) | Some (x, b) => D x (b ++ c) end.

  (* the resource finishes the request being handled: Request.finish -> requestDone *)
  Definition finish (s : state) : list ev * state :=
    match s with
    | Some (x, b) =>
        match ph x with
        | PHandling => if pers x
                       then let '(e, s') := D (mkc (PFirst false) 0%N true (nreq x)) b in (EvResp :: e, s')
                       else ([EvResp; EvClose], None)
        | _ => ([], s)
        end
    | None => ([], None)
    end.

  Inductive op := Deliver (c : bytes) | Finish.
  Definition apply (s : state) (o : op) : list ev * state :=
    match o with Deliver c => feed s c | Finish => finish s end.
  Fixpoint run (s : state) (ops : list op) : list ev * state :=
    match ops with
    | [] => ([], s)
    | o :: r => let '(e, s1) := apply s o in let '(e', s2) := run s1 r in (e ++ e', s2)
    end.
  (* let every pending response be written ("the resource answers eventually") *)
  Fixpoint quiesce (fuel : nat) (s : state) : list ev * state :=
    match fuel with
    | O => ([], s)
    | S f =>
        match s with
        | Some (x, b) => match ph x with
                         | PHandling => let '(e, s1) := finish s in let '(e', s2) := quiesce f s1 in (e ++ e', s2)
                         | _ => ([], s)
                         end
        | None => ([], s)
        end
    end.
End Channel.

Definition start : state := Some (init, []).
Definition bytes_of (ops : list op) : bytes :=
  concat (map (fun o => match o with Deliver c => c | Finish => [] end) ops).

(** ---- the same channel with its three buffers kept apart ----
    [k_lbuf] = LineReceiver._buffer, the chunked decoder's own _buffer (inside the C22 state [st]),
    [k_dbuf] = HTTPChannel._dataBuffer (a list of byte strings, joined by requestDone).  One iteration of
    LineReceiver's loop: line mode as above; raw mode hands ALL of _buffer to rawDataReceived, which
    runs the transfer decoder's whole internal loop (C22's [D]) or, while a request is handled, appends
    to _dataBuffer.  The finish callback's extra bytes go _dataBuffer -> requestDone -> setLineMode ->
    (re-entrant dataReceived, _busyReceiving) -> appended to _buffer.  Proofs (Buffers.v): this machine
    and the single-buffer one above produce the same events, and their states correspond ([alpha]). *)
Inductive kphase :=
| KFirst (skipped : bool)
| KHeaders (m t v pending : bytes) (h : hst)
| KBodyLen (r : rhead) (n : N) (acc : bytes)
| KBodyChunk (r : rhead) (s : st) (acc : bytes)        (* the decoder with its own buffer *)
| KHandling
| KDead.

Record kst := mkk { k_ph : kphase; k_lbuf : bytes; k_dbuf : list bytes;
                    k_hsize : N; k_pers : bool; k_nreq : nat }.

Definition kinit : kst := mkk (KFirst false) [] [] 0%N true 0.

(* the single-buffer view of a three-buffer state *)
Definition alpha_ph (p : kphase) : phase :=
  match p with
  | KFirst sk => PFirst sk
  | KHeaders m t v pend h => PHeaders m t v pend h
  | KBodyLen r n acc => PBodyLen r n acc
  | KBodyChunk r s acc => PBodyChunk r (d_of s) acc
  | KHandling => PHandling
  | KDead => PDead
  end.
Definition alpha_buf (k : kst) : bytes :=
  match k_ph k with
  | KBodyChunk _ s _ => buf s ++ k_lbuf k
  | KHandling => concat (k_dbuf k) ++ k_lbuf k
  | _ => k_lbuf k
  end.
Definition alpha (k : kst) : cst * bytes :=
  (mkc (alpha_ph (k_ph k)) (k_hsize k) (k_pers k) (k_nreq k), alpha_buf k).

Definition kphase_of (p : phase) : kphase :=
  match p with
  | PFirst sk => KFirst sk
  | PHeaders m t v pend h => KHeaders m t v pend h
  | PBodyLen r n acc => KBodyLen r n acc
  | PBodyChunk r d acc => KBodyChunk r (dec_of d []) acc      (* a fresh decoder: empty buffer *)
  | PHandling => KHandling
  | PDead => KDead
  end.

Inductive kres :=
| KGo (e : list ev) (k : kst)      (* loop continues *)
| KStop (e : list ev).             (* connection closing *)

Section Channel3.
  Variable resp : nat -> bool.

  (* after a line-mode step of the single-buffer machine: the new parser state, the rest stays in _buffer *)
  Definition of_sres (k : kst) (s : sres) : kres :=
    match s with
    | Emit e x rest => KGo e (mkk (kphase_of (ph x)) rest (k_dbuf k) (hsize x) (pers x) (nreq x))
    | Wait _ => KGo [] k
    | Fail e => KStop e
    end.

  (* _finishRequestBody(extra): _dataBuffer.append(extra); allContentReceived(); the resource; requestDone *)
  Definition kfinish_body (k : kst) (r : rhead) (body extra : bytes) : kres :=
    let rq := EvReq (mkreq (rh_m r) (rh_t r) (rh_v r) (rh_hdrs r) body) in
    let dbuf := k_dbuf k ++ [extra] in
    if resp (k_nreq k) then
      if k_pers k
      then KGo [rq; EvResp] (mkk (KFirst false) (k_lbuf k ++ concat dbuf) [] 0%N true (S (k_nreq k)))
      else KStop [rq; EvResp; EvClose]
    else KGo [rq] (mkk KHandling (k_lbuf k) dbuf 0%N (k_pers k) (S (k_nreq k))).

  (** one iteration of [while self._buffer]; [k_lbuf k] is non-empty; [None] = must wait for more data *)
  Definition kstep (k : kst) : option kres :=
    match k_ph k with
    | KFirst _ | KHeaders _ _ _ _ _ =>
        let x := mkc (alpha_ph (k_ph k)) (k_hsize k) (k_pers k) (k_nreq k) in
        match step resp x (k_lbuf k) with
        | Wait _ => None
        | s => Some (of_sres k s)
        end
    | KBodyLen r n acc =>
        let data := k_lbuf k in
        let k0 := mkk (k_ph k) [] (k_dbuf k) (k_hsize k) (k_pers k) (k_nreq k) in
        if N.ltb (N.of_nat (length data)) n
        then Some (KGo [] (mkk (KBodyLen r (n - N.of_nat (length data))%N (acc ++ data)) [] (k_dbuf k)
                               (k_hsize k) (k_pers k) (k_nreq k)))
        else Some (kfinish_body k0 r (acc ++ firstn (N.to_nat n) data) (skipn (N.to_nat n) data))
    | KBodyChunk r s acc =>
        let k0 := mkk (k_ph k) [] (k_dbuf k) (k_hsize k) (k_pers k) (k_nreq k) in
        match C22.Model.D true default_maxtr (with_buf s (buf s ++ k_lbuf k)) with
        | (o, DMore s') => Some (KGo [] (mkk (KBodyChunk r s' (acc ++ concat o)) [] (k_dbuf k)
                                             (k_hsize k) (k_pers k) (k_nreq k)))
        | (o, DFin extra) => Some (kfinish_body k0 r (acc ++ concat o) extra)
        | (o, DBad _) => Some (KStop [Ev400])
        end
    | KHandling =>
        Some (KGo [] (mkk KHandling [] (k_dbuf k ++ [k_lbuf k]) (k_hsize k) (k_pers k) (k_nreq k)))
    | KDead => Some (KGo [] (mkk KDead [] (k_dbuf k) (k_hsize k) (k_pers k) (k_nreq k)))
    end.

  (* the loop; outer [None] = out of fuel (excluded in the theorems; never happens with [kfuel]) *)
  Fixpoint kdrain (fuel : nat) (k : kst) : option (list ev * option kst) :=
    match fuel with
    | O => None
    | S f =>
        match k_lbuf k with
        | [] => Some ([], Some k)
        | _ :: _ =>
            match kstep k with
            | None => Some ([], Some k)
            | Some (KStop e) => Some (e, None)
            | Some (KGo e k') =>
                match kdrain f k' with
                | Some (e', r) => Some (e ++ e', r)
                | None => None
                end
            end
        end
    end.
  Definition kfuel (k : kst) : nat := 2 * length (alpha_buf k) + 4.

  (* dataReceived *)
  Definition kfeed (s : option kst) (c : bytes) : option (list ev * option kst) :=
    match s with
    | None => Some ([], None)
    | Some k => let k1 := mkk (k_ph k) (k_lbuf k ++ c) (k_dbuf k) (k_hsize k) (k_pers k) (k_nreq k) in
                kdrain (kfuel k1) k1
    end.

  (* the resource finishes: requestDone *)
  Definition kfinish (s : option kst) : option (list ev * option kst) :=
    match s with
    | None => Some ([], None)
    | Some k =>
        match k_ph k with
        | KHandling =>
            if k_pers k
            then let k1 := mkk (KFirst false) (k_lbuf k ++ concat (k_dbuf k)) [] 0%N true (k_nreq k) in
                 match kdrain (kfuel k1) k1 with
                 | Some (e, r) => Some (EvResp :: e, r)
                 | None => None
                 end
            else Some ([EvResp; EvClose], None)
        | _ => Some ([], s)
        end
    end.

  Definition kapply (s : option kst) (o : op) := match o with Deliver c => kfeed s c | Finish => kfinish s end.
  Fixpoint krun (s : option kst) (ops : list op) : option (list ev * option kst) :=
    match ops with
    | [] => Some ([], s)
    | o :: r =>
        match kapply s o with
        | Some (e, s1) => match krun s1 r with Some (e', s2) => Some (e ++ e', s2) | None => None end
        | None => None
        end
    end.
End Channel3.
