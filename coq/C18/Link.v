(** C18 proofs, part 4: the whole-stream run of the incremental channel, with a resource that answers
    at once, delivers the requests and ends the way C19's whole-stream parser [serve_stream] says --
    so every C19 stream-level theorem holds for every segmentation and every resource timing. *)
From Coq Require Import List NArith Bool Arith Lia ZifyBool.
From TwLib Require Import HttpGrammar Seg.
From C22 Require Import Gen Model Proofs SegProofs Lengths.
From C19 Require Import Model Pipeline.
From C18 Require Import Model Proofs SegProofs Async.
Import ListNotations.

Arguments find_crlf : simpl never.
Arguments find_crlf_from : simpl never.
Arguments hexint : simpl never.
Arguments firstn : simpl nomatch.
Arguments skipn : simpl nomatch.
Opaque MAX_LENGTH total_headers_size max_size_line.

Notation Ds := (C18.Model.D sync).

(** ---- the chunked body phase is C22's decoder loop ---- *)
Lemma step_more_buf : forall s s', C22.Model.step true default_maxtr s = More s' -> buf s' = buf s.
Proof.
  intros [m b st rem rc] s' H. unfold C22.Model.step in H. simpl in H. destruct m.
  - destruct (find_crlf_from st b); [|destruct (Nat.ltb _ _); [discriminate|inversion H; reflexivity]].
    destruct (Nat.leb _ _); [discriminate|]. destruct (hexint _); [|discriminate].
    destruct (forallb _ _); discriminate.
  - destruct (N.leb _ _); discriminate.
  - destruct (Nat.ltb _ _); [inversion H; reflexivity|]. destruct (starts_with_crlf b); discriminate.
  - destruct (find_crlf_from st b) as [[|eol]|].
    + destruct (N.ltb default_maxtr (rc + 2)); discriminate.
    + destruct (N.ltb _ _); discriminate.
    + destruct (N.ltb _ _); [discriminate|inversion H; reflexivity].
Qed.

Definition chunk_state (x : cst) (r : rhead) (d : dst) (acc : bytes) : cst :=
  mkc (PBodyChunk r d acc) (hsize x) (pers x) (nreq x).

Definition run_res (s : sres) (b : bytes) : list ev * option (cst * bytes) :=
  match s with
  | Emit e x' rest => let '(e', st) := Ds x' rest in (e ++ e', st)
  | Fail e => (e, None)
  | Wait x' => ([], Some (x', b))
  end.

Lemma chunk_phase : forall n x r d acc b, mu (dec_of d b) < n -> ph x = PBodyChunk r d acc ->
  Ds x b =
  match C22.Model.D true default_maxtr (dec_of d b) with
  | (o, DMore s') => ([], Some (chunk_state x r (d_of s') (acc ++ concat o), buf s'))
  | (o, DFin extra) => run_res (deliver sync x r (acc ++ concat o) extra) extra
  | (o, DBad _) => ([Ev400], None)
  end.
Proof.
  induction n as [|n IH]; intros x r d acc b Hn Hp; [lia|].
  destruct b as [|b0 bl].
  { rewrite D_nil. rewrite (C22.SegProofs.D_unfold true default_maxtr (dec_of d [])). cbn [buf dec_of concat].
    rewrite app_nil_r. unfold chunk_state. destruct x as [p hs pe nr]. simpl in *. subst p.
    destruct d; reflexivity. }
  assert (Hb : b0 :: bl <> []) by discriminate.
  rewrite (D_ne sync x _ Hb). rewrite (C22.SegProofs.D_unfold true default_maxtr (dec_of d (b0 :: bl))).
  cbn [buf dec_of]. unfold C18.Model.step. rewrite Hp.
  change (mkst (d_md d) (b0 :: bl) (d_start d) (d_rem d) (d_rcvd d)) with (dec_of d (b0 :: bl)).
  destruct (C22.Model.step true default_maxtr (dec_of d (b0 :: bl))) as [s'|s' out|ex|er] eqn:Es.
  - pose proof (step_more_buf _ _ Es) as Hbuf. cbn [buf dec_of] in Hbuf. rewrite Hbuf.
    cbn [concat]. rewrite app_nil_r. reflexivity.
  - assert (Hmu : mu s' < mu (dec_of d (b0 :: bl))) by (eapply step_go_mu; [|exact Es]; exact Hb).
    fold (chunk_state x r (d_of s') (acc ++ concat out)).
    rewrite (IH (chunk_state x r (d_of s') (acc ++ concat out)) r (d_of s') (acc ++ concat out) (buf s'))
      by (rewrite ?dec_of_d_of; try reflexivity; lia).
    rewrite dec_of_d_of, let_pre. unfold pre.
    destruct (C22.Model.D true default_maxtr s') as [o [s2|x2|e2]]; cbn [fst snd app].
    + unfold chunk_state. cbn [hsize pers nreq]. rewrite concat_app, app_assoc. reflexivity.
    + rewrite concat_app, app_assoc.
      rewrite (deliver_same sync (chunk_state x r (d_of s') (acc ++ concat out)) x) by reflexivity.
      destruct (deliver sync x r _ x2) as [e3 x3 r3|x3|e3]; unfold run_res; try reflexivity.
      destruct (Ds x3 r3); reflexivity.
    + reflexivity.
  - cbn [concat]. rewrite app_nil_r. unfold run_res. destruct (deliver sync x r acc ex) as [e x' r'| |e] eqn:Ed; try reflexivity.
    exfalso. exact (deliver_not_wait _ _ _ _ _ _ Ed).
  - reflexivity.
Qed.

(** ---- observations ---- *)
Definition is400 (e : ev) : bool := match e with Ev400 => true | _ => false end.
Definition isclose (e : ev) : bool := match e with EvClose => true | _ => false end.
Definition isdrop (e : ev) : bool := match e with EvDrop => true | _ => false end.
Definition reqs_of (es : list ev) : list req := flat_map (fun e => match e with EvReq r => [r] | _ => [] end) es.
Definition ending_of (es : list ev) : C19.Model.ending :=
  if existsb is400 es then EBad else if existsb isclose es then EClosed else EWait.
Definition obs (r : list ev * option (cst * bytes)) : list req * C19.Model.ending := (reqs_of (fst r), ending_of (fst r)).
Definition nodrop (r : list ev * option (cst * bytes)) : Prop := existsb isdrop (fst r) = false.

Lemma read_line_step : forall b, read_line b =
  match find_crlf b with Some i => Some (firstn i b, skipn (i + 2) b) | None => None end.
Proof. reflexivity. Qed.

Lemma end_of_headers_not_wait : forall resp x m t v h rest x', end_of_headers resp x m t v h rest <> Wait x'.
Proof.
  intros resp x m t v h rest x' H. unfold end_of_headers in H.
  destruct (h_dec h) as [|n|]; [| destruct (N.eqb n 0)|]; try discriminate;
    match type of H with context [deliver ?a ?b ?c ?d ?f] => destruct (deliver a b c d f) eqn:Ed end;
    try discriminate; exact (deliver_not_wait _ _ _ _ _ _ Ed).
Qed.

(** ---- the header block: HTTPChannel.lineReceived vs headers_loop ---- *)
Lemma headers_phase : forall fuel b pend h size m t v k, length b < fuel ->
  nodrop (Ds (mkc (PHeaders m t v pend h) size true k) b) ->
  match headers_loop fuel b pend h size with
  | HBad => Ds (mkc (PHeaders m t v pend h) size true k) b = ([Ev400], None)
  | HWait => fst (Ds (mkc (PHeaders m t v pend h) size true k) b) = []
  | HDone h' r2 =>
      length r2 + 2 <= length b /\
      exists xe, nreq xe = k /\
        Ds (mkc (PHeaders m t v pend h) size true k) b = run_res (end_of_headers sync xe m t v h' r2) r2
  end.
Proof.
  induction fuel as [|fuel IH]; intros b pend h size m t v k Hf Hnd; [lia|].
  destruct b as [|b0 bl].
  { rewrite D_nil. reflexivity. }
  assert (Hb : b0 :: bl <> []) by discriminate.
  remember (b0 :: bl) as b eqn:Hbeq. clear Hbeq b0 bl.
  cbn [headers_loop]. rewrite read_line_step.
  rewrite (D_ne sync _ b Hb) in *. unfold C18.Model.step in *. cbn [ph] in *.
  destruct (find_crlf b) as [i|] eqn:Ef.
  - pose proof (find_crlf_bound _ _ Ef) as Hi.
    destruct (N.ltb MAX_LENGTH (N.of_nat i)); [unfold nodrop in Hnd; simpl in Hnd; discriminate|].
    unfold line_received in *. cbn [hsize ph pers nreq] in *.
    destruct (N.ltb total_headers_size (size + N.of_nat (length (firstn i b)))); [reflexivity|].
    assert (Hrl : length (skipn (i + 2) b) < fuel) by (rewrite skipn_length; lia).
    destruct (firstn i b) as [|c l] eqn:El.
    + destruct (flush h pend) as [h'|]; [|reflexivity].
      split; [rewrite skipn_length; lia|].
      match goal with |- context [end_of_headers sync ?xe0 m t v h' _] => exists xe0 end.
      split; [reflexivity|].
      match goal with |- context [end_of_headers sync ?xe m t v h' ?r] =>
        destruct (end_of_headers sync xe m t v h' r) as [e1 x1 r1|x1|e1] eqn:Ee end; try reflexivity.
      exfalso. exact (end_of_headers_not_wait _ _ _ _ _ _ _ _ Ee).
    + destruct (is_ws c).
      * cbn [run_res] in *.
        specialize (IH (skipn (i + 2) b) (pend ++ SP :: lstrip (c :: l)) h
                       (size + N.of_nat (length (c :: l)))%N m t v k Hrl).
        destruct (Ds _ (skipn (i + 2) b)) as [e' st'] eqn:Ed. cbn [app] in *.
        specialize (IH Hnd).
        destruct (headers_loop fuel (skipn (i + 2) b) _ h _) as [| |h' r2].
        -- rewrite IH. reflexivity.
        -- exact IH.
        -- destruct IH as [Hl (xe & Hk & He)]. split; [rewrite skipn_length in *; lia|].
           exists xe. split; [exact Hk|]. rewrite He. reflexivity.
      * destruct (flush h pend) as [h'|]; [|reflexivity].
        specialize (IH (skipn (i + 2) b) (c :: l) h' (size + N.of_nat (length (c :: l)))%N m t v k Hrl).
        destruct (Ds _ (skipn (i + 2) b)) as [e' st'] eqn:Ed. cbn [app] in *.
        specialize (IH Hnd).
        destruct (headers_loop fuel (skipn (i + 2) b) _ h' _) as [| |h2 r2].
        -- rewrite IH. reflexivity.
        -- exact IH.
        -- destruct IH as [Hl (xe & Hk & He)]. split; [rewrite skipn_length in *; lia|].
           exists xe. split; [exact Hk|]. rewrite He. reflexivity.
  - destruct (N.leb (MAX_LENGTH + 2) (N.of_nat (length b))); [unfold nodrop in Hnd; simpl in Hnd; discriminate|].
    reflexivity.
Qed.

(** ---- the whole connection ---- *)
Lemma obs_pre : forall e es (st : option (cst * bytes)), existsb is400 e = false -> existsb isclose e = false ->
  obs (e ++ es, st) = (reqs_of e ++ fst (obs (es, st)), snd (obs (es, st))).
Proof.
  intros e es st H1 H2. unfold obs, ending_of, reqs_of. cbn [fst snd].
  rewrite flat_map_app, !existsb_app, H1, H2. reflexivity.
Qed.

Lemma nodrop_pre : forall e es (st : option (cst * bytes)), nodrop (e ++ es, st) -> nodrop (es, st).
Proof.
  intros e es st H. unfold nodrop in *. cbn [fst] in *. rewrite existsb_app in H.
  apply orb_false_iff in H. tauto.
Qed.

Lemma first_phase : forall n b, length b < n -> forall sk size k f, length b < f ->
  nodrop (Ds (mkc (PFirst sk) size true k) b) ->
  obs (Ds (mkc (PFirst sk) size true k) b) = serve true f b sk size.
Proof.
  induction n as [|n IH]; intros b Hn sk size k f Hf Hnd; [lia|].
  destruct f as [|f]; [lia|]. rewrite serve_S, read_line_step.
  destruct b as [|b0 bl].
  { rewrite D_nil. reflexivity. }
  assert (Hb : b0 :: bl <> []) by discriminate.
  remember (b0 :: bl) as b eqn:Hbeq. clear Hbeq b0 bl.
  rewrite (D_ne sync _ b Hb) in *. unfold C18.Model.step in *. cbn [ph] in *.
  destruct (find_crlf b) as [i|] eqn:Ef.
  2:{ destruct (N.leb (MAX_LENGTH + 2) (N.of_nat (length b))); [unfold nodrop in Hnd; simpl in Hnd; discriminate|].
      reflexivity. }
  pose proof (find_crlf_bound _ _ Ef) as Hi.
  destruct (N.ltb MAX_LENGTH (N.of_nat i)); [unfold nodrop in Hnd; simpl in Hnd; discriminate|].
  unfold line_received in *. cbn [hsize ph pers nreq negb] in *. cbv zeta.
  set (line := firstn i b) in *. set (rest := skipn (i + 2) b) in *.
  assert (Hrest : length rest + 2 <= length b) by (unfold rest; rewrite skipn_length; lia).
  destruct (N.ltb total_headers_size (size + N.of_nat (length line))); [reflexivity|].
  destruct (is_nil line && negb sk)%bool.
  { (* the one ignored blank line *)
    destruct (Ds (mkc (PFirst true) (size + N.of_nat (length line)) true k) rest) as [e' st'] eqn:Ed.
    cbn [app] in *. rewrite <- Ed in *. apply (IH rest ltac:(lia) true _ k f ltac:(lia)). exact Hnd. }
  destruct (parse_request_line true line) as [[[m t] v]|]; [|reflexivity].
  set (size' := (size + N.of_nat (length line))%N) in *.
  set (xh := mkc (PHeaders m t v [] (mkh DNone [] 0)) size' true k) in *.
  destruct (Ds xh rest) as [eh sth] eqn:Edh. cbn [app] in *.
  pose proof (headers_phase (S (length rest)) rest [] (mkh DNone [] 0) size' m t v k (Nat.lt_succ_diag_r _)) as HB.
  fold xh in HB. rewrite Edh in HB. specialize (HB Hnd).
  destruct (headers_loop (S (length rest)) rest [] (mkh DNone [] 0) size') as [| |h' r2].
  { inversion HB; subst. reflexivity. }
  { cbn [fst] in HB. subst eh. reflexivity. }
  destruct HB as [Hl2 (xe & Hk & He)]. rewrite He in *. clear He Edh eh sth.
  (* what happens after the empty line *)
  remember (mkrh m t v (h_hdrs h')) as r eqn:Hr.
  set (rq := fun body => mkreq m t v (h_hdrs h') body).
  assert (Hdel : forall pre body rest3, existsb is400 pre = false -> existsb isclose pre = false ->
             reqs_of pre = [] -> length rest3 <= length r2 ->
             forall xd, pers xd = persistent v (h_hdrs h') ->
             let res := match deliver sync xd r body rest3 with
                        | Emit e' x' r' => Emit (pre ++ e') x' r' | Fail e' => Fail (pre ++ e') | Wait x' => Wait x' end in
             nodrop (run_res res rest3) ->
             obs (run_res res rest3) =
             (if persistent v (h_hdrs h')
              then let '(rs, e) := serve true f rest3 false 0%N in (rq body :: rs, e)
              else ([rq body], EClosed))).
  { intros pre body rest3 Hp1 Hp2 Hp3 Hl3 xd Hxd res Hnd3. unfold res in *. unfold deliver in *.
    rewrite Hr in *. cbn [rh_m rh_t rh_v rh_hdrs] in *.
    change (sync (nreq xd)) with true in *. cbv iota in Hnd3 |- *.
    rewrite Hxd in *. destruct (persistent v (h_hdrs h')).
    - cbn [run_res] in *.
      destruct (Ds (mkc (PFirst false) 0%N true (S (nreq xd))) rest3) as [e3 st3] eqn:Ed3.
      cbv beta iota in Hnd3 |- *.
      match goal with |- obs (?pp ++ _, _) = _ =>
        assert (Hq1 : existsb is400 pp = false) by (rewrite existsb_app, Hp1; reflexivity);
        assert (Hq2 : existsb isclose pp = false) by (rewrite existsb_app, Hp2; reflexivity);
        rewrite (obs_pre pp e3 st3 Hq1 Hq2)
      end.
      unfold reqs_of at 1. rewrite flat_map_app. fold (reqs_of pre). rewrite Hp3. cbn [app flat_map].
      apply nodrop_pre in Hnd3.
      rewrite <- Ed3 in *. rewrite (IH rest3 ltac:(lia) false 0%N (S (nreq xd)) f ltac:(lia) Hnd3).
      destruct (serve true f rest3 false 0%N). reflexivity.
    - cbn [run_res]. rewrite (obs_pre pre _ None Hp1 Hp2), Hp3. reflexivity. }
  unfold end_of_headers in *. rewrite <- Hr in *.
  set (pre := if wants_continue v (h_hdrs h') then [Ev100] else []) in *.
  assert (Hp1 : existsb is400 pre = false) by (unfold pre; destruct (wants_continue _ _); reflexivity).
  assert (Hp2 : existsb isclose pre = false) by (unfold pre; destruct (wants_continue _ _); reflexivity).
  assert (Hp3 : reqs_of pre = []) by (unfold pre; destruct (wants_continue _ _); reflexivity).
  destruct (h_dec h') as [|nn|] eqn:Edec.
  - apply (Hdel pre [] r2 Hp1 Hp2 Hp3 (le_n _) (mkc (ph xe) (hsize xe) (persistent v (h_hdrs h')) (nreq xe)) eq_refl). exact Hnd.
  - destruct (N.eqb nn 0) eqn:En0.
    + apply N.eqb_eq in En0. subst nn.
      destruct (N.leb 0 (N.of_nat (length r2))) eqn:E0; [|lia].
      change (N.to_nat 0) with 0. rewrite firstn_O, skipn_O.
      apply (Hdel pre [] r2 Hp1 Hp2 Hp3 (le_n _) (mkc (ph xe) (hsize xe) (persistent v (h_hdrs h')) (nreq xe)) eq_refl). exact Hnd.
    + (* identity body *)
      cbn [run_res pers hsize nreq] in *.
      set (xb := mkc (PBodyLen r nn []) (hsize xe) (persistent v (h_hdrs h')) (nreq xe)) in *.
      destruct (Ds xb r2) as [eb stb] eqn:Edb. cbv beta iota in Hnd |- *.
      rewrite (obs_pre pre eb stb Hp1 Hp2), Hp3. cbn [app]. apply nodrop_pre in Hnd.
      destruct r2 as [|c0 cl].
      { rewrite D_nil in Edb. inversion Edb; subst. destruct (N.leb nn (N.of_nat (length (@nil N)))) eqn:E; [simpl in E; lia|]. reflexivity. }
      assert (Hr2 : c0 :: cl <> []) by discriminate.
      remember (c0 :: cl) as r2 eqn:Hr2eq. clear Hr2eq c0 cl.
      rewrite (D_ne sync xb r2 Hr2) in Edb. unfold C18.Model.step in Edb. cbn [ph xb] in Edb.
      destruct (N.ltb (N.of_nat (length r2)) nn) eqn:Elt.
      * rewrite D_nil in Edb. inversion Edb; subst.
        destruct (N.leb nn (N.of_nat (length r2))) eqn:E; [lia|]. reflexivity.
      * destruct (N.leb nn (N.of_nat (length r2))) eqn:E; [|lia]. cbn [app] in Edb.
        pose proof (Hdel [] (firstn (N.to_nat nn) r2) (skipn (N.to_nat nn) r2) eq_refl eq_refl eq_refl
                      ltac:(rewrite skipn_length; lia) xb eq_refl) as Hd. cbn [app] in Hd.
        assert (Heq : run_res (match deliver sync xb r (firstn (N.to_nat nn) r2) (skipn (N.to_nat nn) r2) with
                               | Emit e' x' r' => Emit e' x' r' | Fail e' => Fail e' | Wait x' => Wait x' end)
                        (skipn (N.to_nat nn) r2) = (eb, stb)).
        { rewrite <- Edb. destruct (deliver sync xb r _ _) as [e4 x4 r4|x4|e4] eqn:Ed4; try reflexivity.
          exfalso. exact (deliver_not_wait _ _ _ _ _ _ Ed4). }
        rewrite Heq in Hd. apply Hd. exact Hnd.
  - (* chunked body: C22's decoder *)
    cbn [run_res pers hsize nreq] in *.
    set (xb := mkc (PBodyChunk r dinit []) (hsize xe) (persistent v (h_hdrs h')) (nreq xe)) in *.
    destruct (Ds xb r2) as [eb stb] eqn:Edb. cbv beta iota in Hnd |- *.
    rewrite (obs_pre pre eb stb Hp1 Hp2), Hp3. cbn [app]. apply nodrop_pre in Hnd.
    destruct r2 as [|c0 cl].
    { rewrite D_nil in Edb. inversion Edb; subst. reflexivity. }
    cbv iota. set (r2 := c0 :: cl) in *.
    rewrite (chunk_phase (S (mu (dec_of dinit r2))) xb r dinit [] r2 (Nat.lt_succ_diag_r _) eq_refl) in Edb.
    unfold decode, summary. cbn [C22.Model.run]. unfold C22.Model.feed. cbn [buf C22.Model.init app].
    change (with_buf C22.Model.init r2) with (dec_of dinit r2).
    destruct (C22.Model.D true default_maxtr (dec_of dinit r2)) as [o [s2|x2|e2]] eqn:Ec22; cbn [fst snd app] in *.
    + inversion Edb; subst. reflexivity.
    + rewrite app_nil_r.
      pose proof (Hdel [] (concat o) x2 eq_refl eq_refl eq_refl) as Hd. cbn [app] in Hd.
      assert (Hx2 : length x2 <= length r2).
      { pose proof (D_fin_length true default_maxtr (S (mu (dec_of dinit r2))) _ _ _ (Nat.lt_succ_diag_r _) Ec22) as Hlen.
        cbn [buf dec_of] in Hlen. lia. }
      specialize (Hd Hx2 xb eq_refl).
      assert (Heq : run_res (match deliver sync xb r (concat o) x2 with
                             | Emit e' x' r' => Emit e' x' r' | Fail e' => Fail e' | Wait x' => Wait x' end) x2 = (eb, stb)).
      { rewrite <- Edb. destruct (deliver sync xb r _ _) as [e4 x4 r4|x4|e4] eqn:Ed4; reflexivity. }
      rewrite Heq in Hd. apply Hd. exact Hnd.
    + inversion Edb; subst. reflexivity.
Qed.

Theorem whole_stream_run_is_serve_stream : forall s,
  nodrop (feed sync start s) -> obs (feed sync start s) = serve_stream true s.
Proof.
  intros s H. unfold feed, start in *. cbn [app] in *. unfold serve_stream.
  apply (first_phase (S (length s)) s (Nat.lt_succ_diag_r _) false 0%N 0 (S (length s)) (Nat.lt_succ_diag_r _) H).
Qed.

(** every history: any segmentation, any resource timing *)
Theorem history_is_serve_stream : forall (resp : nat -> bool) (ops : list op),
  ~ handling (snd (run resp start ops)) -> nodrop (run resp start ops) ->
  obs (run resp start ops) = serve_stream true (bytes_of ops).
Proof.
  intros resp ops Hh Hnd. rewrite (history_independent resp ops Hh) in *.
  apply whole_stream_run_is_serve_stream. exact Hnd.
Qed.
