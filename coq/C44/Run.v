(** C44: printers used by the correspondence check only. *)
From Coq Require Import List NArith ZArith Bool String.
From TwLib Require Import Show PyInt.
From C44 Require Import Model.
Import ListNotations.
Local Open Scope string_scope.

Fixpoint show_sexp (e : sexp) : string :=
  match e with
  | SInt z => "i" ++ show_Z z
  | SStr b => "s" ++ show_hex b
  | SFloat b => "f" ++ show_hex b
  | SList l => "[" ++ String.concat "," (map show_sexp l) ++ "]"
  end.

Definition show_exn (e : pyexn) : string :=
  match e with
  | ValueError => "BananaError" | TypeError => "NotImplementedError" | IndexError => "KeyError"
  | AssertionError => "AssertionError" | StructError => "StructError" | OverflowError => "OverflowError"
  | EOFError => "EOFError"
  end.

Definition show_state (s : state) : string :=
  String.concat " " (map show_sexp (st_outs s)) ++ "|"
  ++ match st_err s with None => "ok" | Some e => show_exn e end.

Inductive case :=
| CRt (lim : N) (pb : bool) (e : sexp) (cuts : list N)      (* encode, then feed in chunks of the given sizes *)
| CRaw (lim : N) (pb : bool) (data : list N) (cuts : list N)
| CB128 (n : N)
| CFrom (digits : list N)
| CHist (lim : N) (pb : bool) (es : list sexp) (cuts : list N).   (* several sendEncoded calls on one connection *)

(** cut [data] into chunks of the given sizes (a zero or missing size takes the rest) *)
Fixpoint chunks (cuts : list N) (data : list N) : list (list N) :=
  match cuts with
  | [] => match data with [] => [] | _ => [data] end
  | k :: r => match data with
              | [] => []
              | _ => if (k =? 0)%N then [data] else takeN k data :: chunks r (dropN k data)
              end
  end.

Definition run_show (c : case) : string :=
  match c with
  | CRt lim pb e cuts =>
      match encode lim pb e with
      | Err x => "E:" ++ show_exn x
      | Ok b => show_hex b ++ "|" ++ show_state (feed_all lim pb init (chunks cuts b))
      end
  | CRaw lim pb d cuts => show_state (feed_all lim pb init (chunks cuts d))
  | CB128 n => show_hex (b128 n) ++ "|" ++ show_N (from_le128 (b128 n))
  | CFrom d => show_N (from_le128 d)
  | CHist lim pb es cuts =>
      String.concat "" (map (fun e => if accepts lim pb e then "A" else "R") es) ++ "|" ++ show_hex (send_all lim pb es)
      ++ "|" ++ show_state (feed_all lim pb init (chunks cuts (send_all lim pb es)))
  end.
