(** C44 property theorems (nothing else lives here; each is closed by [exact]).
    Model: coq/C44/Model.v (hand-written from twisted/spread/banana.py).  [lim] is the prefix limit
    (Banana.setPrefixLimit; 64 by default), the same on both peers; it bounds the base-128 digits in
    front of a type byte and, as 2^(7 lim) - 1 = [largest_long lim], the integers that are sent.
    In the model BananaError is [ValueError], NotImplementedError is [TypeError], KeyError is [IndexError]. *)
From Coq Require Import List NArith ZArith Bool.
From TwLib Require Import PyInt.
From C44 Require Import Model Proofs.
Import ListNotations.
Open Scope N_scope.

(** b1282int(int2b128(n)) == n for every n >= 0; digits are < 128 *)
Theorem b1282int_int2b128 : forall n : N,
  from_le128 (b128 n) = n /\ forallb (fun d => d <? 128) (b128 n) = true.
Proof. intros n. exact (conj (from_b128 n) (b128_digits n)). Qed.
Print Assumptions b1282int_int2b128.

(** segmentation invariance for EVERY byte stream (well-formed or not), every prefix limit and every
    way of cutting the stream into non-empty deliveries: same expressions delivered in the same
    order, same exception (if any), and - when nothing was raised - the same parser state *)
Theorem decode_any_split : forall (lim : N) (pb : bool) (chunks : list (list N)),
  Forall (fun c => c <> []) chunks ->
  let a := feed_all lim pb init chunks in
  let b := feed lim pb init (concat chunks) in
  st_outs a = st_outs b /\ st_err a = st_err b /\
  (st_err a = None -> st_stack a = st_stack b /\ st_buf a = st_buf b).
Proof. exact any_split. Qed.
Print Assumptions decode_any_split.

(** a stream of well-formed expressions (any nesting depth, any length), encoded back to back
    and delivered in ANY segmentation to a peer with the SAME prefix limit (any limit >= 1), is
    decoded to exactly those expressions, with nothing left in the buffer, no open list and no
    exception; with and without the pb vocabulary.  [wf lim e]: ints within +-(2^(7 lim) - 1),
    strings and lists within SIZE_LIMIT and with a length below 128^lim, floats of 8 bytes *)
Theorem decode_encode_any_split :
  forall (lim : N) (pb : bool) (es : list sexp) (b : list N) (chunks : list (list N)),
  1 <= lim -> Forall (wf lim) es -> encode_all lim pb es = Ok b ->
  concat chunks = b -> Forall (fun c => c <> []) chunks ->
  let s := feed_all lim pb init chunks in
  st_outs s = es /\ st_err s = None /\ st_stack s = [] /\ st_buf s = [].
Proof. exact roundtrip_any_split. Qed.
Print Assumptions decode_encode_any_split.

(** an integer is accepted by the encoder IF AND ONLY IF it needs at most [lim] base-128 digits -
    exactly the integers a peer with the same limit will read *)
Theorem int_sent_iff_it_fits_the_prefix : forall (lim : N), 1 <= lim -> forall (pb : bool) (z : Z),
  (exists b, encode lim pb (SInt z) = Ok b) <-> blen (b128 (Z.abs_N z)) <= lim.
Proof. exact int_encodable_iff_digits. Qed.
Print Assumptions int_sent_iff_it_fits_the_prefix.

(** a HISTORY of sendEncoded calls on one connection, some of which are refused (BananaError, at
    any nesting position of the offending element): the transport receives exactly the
    concatenation of the encodings of the accepted expressions - a refusal writes nothing and
    leaves nothing behind for the next call *)
Theorem encode_sequence : forall (lim : N) (pb : bool) (es : list sexp),
  encode_all lim pb (filter (accepts lim pb) es) = Ok (send_all lim pb es).
Proof. exact encode_sequence_lemma. Qed.
Print Assumptions encode_sequence.

(** ... and the receiver, under any segmentation, gets exactly the accepted expressions, in order *)
Theorem sender_history_roundtrip : forall (lim : N), 1 <= lim -> forall (pb : bool) (es : list sexp) (chunks : list (list N)),
  Forall (wf lim) (filter (accepts lim pb) es) -> concat chunks = send_all lim pb es -> Forall (fun c => c <> []) chunks ->
  let s := feed_all lim pb init chunks in
  st_outs s = filter (accepts lim pb) es /\ st_err s = None /\ st_stack s = [] /\ st_buf s = [].
Proof. exact sender_history. Qed.
Print Assumptions sender_history_roundtrip.

(** every well-formed expression is accepted by the encoder *)
Theorem wellformed_is_encodable : forall lim pb e, wf lim e -> exists b, encode lim pb e = Ok b.
Proof. exact encode_total. Qed.
Print Assumptions wellformed_is_encodable.

(** values outside the limits are refused when encoding (BananaError, nothing written) *)
Theorem out_of_range_refused_on_encode : forall lim pb z l s,
  ((z < - largest_long lim \/ largest_long lim < z)%Z -> encode lim pb (SInt z) = Err ValueError) /\
  (SIZE_LIMIT < blen l -> encode lim pb (SList l) = Err ValueError) /\
  (SIZE_LIMIT < blen s -> encode lim false (SStr s) = Err ValueError).
Proof. exact refusals_on_encode. Qed.
Print Assumptions out_of_range_refused_on_encode.

(** oversized prefixes (more than [lim] digit bytes, with or without a type byte yet) and list /
    string lengths above SIZE_LIMIT are refused when decoding *)
Theorem oversized_prefix_or_length_refused_on_decode : forall lim pb digits,
  forallb (fun d => d <? 128) digits = true ->
  (lim < blen digits ->
     forall tl, (tl = [] \/ exists ty rest, tl = ty :: rest /\ 128 <= ty) ->
     step lim pb (digits ++ tl) = Fail ValueError) /\
  (blen digits <= lim -> SIZE_LIMIT < from_le128 digits ->
     forall ty rest, (ty = LIST \/ ty = STRING) -> step lim pb (digits ++ ty :: rest) = Fail ValueError).
Proof. exact refusals_on_decode. Qed.
Print Assumptions oversized_prefix_or_length_refused_on_decode.

(** the decoding loop terminates: the fuel [length buffer] given by [feed] is never exhausted *)
Theorem fuel_never_exhausted : forall lim pb stack buf outs,
  r_fuel_ok (run lim (length buf) pb stack buf outs) = true.
Proof. exact fuel_ok_lemma. Qed.
Print Assumptions fuel_never_exhausted.
