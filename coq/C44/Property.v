(** C44 property theorems (nothing else lives here; each is closed by [exact]).
    Model: coq/C44/Model.v (hand-written from twisted/spread/banana.py).  In the model
    BananaError is [ValueError], NotImplementedError is [TypeError], KeyError is [IndexError]. *)
From Coq Require Import List NArith ZArith Bool.
From TwLib Require Import PyInt.
From C44 Require Import Model Proofs.
Import ListNotations.
Open Scope N_scope.

(** b1282int(int2b128(n)) == n for every n >= 0; digits are < 128 *)
Theorem b1282int_int2b128 : forall n : N,
  from_le128 (b128 n) = n /\ forallb (fun d => d <? 128) (b128 n) = true.
Proof. intros n. exact (conj (from_b128 n) (b128_digits n)). Qed.
Print Assumptions b1282int_int2b128.

(** segmentation invariance for EVERY byte stream (well-formed or not) and every way of cutting it
    into non-empty deliveries: same expressions delivered in the same order, same exception (if
    any), and - when nothing was raised - the same parser state *)
Theorem decode_any_split : forall (pb : bool) (chunks : list (list N)),
  Forall (fun c => c <> []) chunks ->
  let a := feed_all pb init chunks in
  let b := feed pb init (concat chunks) in
  st_outs a = st_outs b /\ st_err a = st_err b /\
  (st_err a = None -> st_stack a = st_stack b /\ st_buf a = st_buf b).
Proof. exact any_split. Qed.
Print Assumptions decode_any_split.

(** a stream of well-formed expressions (any nesting depth, any length), encoded back to back
    and delivered in ANY segmentation, is decoded to exactly those expressions, with nothing left
    in the buffer, no open list and no exception; with and without the pb vocabulary *)
Theorem decode_encode_any_split : forall (pb : bool) (es : list sexp) (b : list N) (chunks : list (list N)),
  Forall wf es -> encode_all pb es = Ok b ->
  concat chunks = b -> Forall (fun c => c <> []) chunks ->
  let s := feed_all pb init chunks in
  st_outs s = es /\ st_err s = None /\ st_stack s = [] /\ st_buf s = [].
Proof.
  intros pb es b chunks W E C F s.
  destruct (any_split pb chunks F) as (H1 & H2 & H3).
  rewrite C, feed_whole, (run_encoded_all pb es b W E []) in H1, H2, H3.
  cbn in H1, H2, H3. destruct (H3 H2) as [H4 H5]. subst s. auto.
Qed.
Print Assumptions decode_encode_any_split.

(** a HISTORY of sendEncoded calls on one connection, some of which are refused (BananaError, at
    any nesting position of the offending element): the transport receives exactly the
    concatenation of the encodings of the accepted expressions - a refusal writes nothing and
    leaves nothing behind for the next call *)
Theorem encode_sequence : forall (pb : bool) (es : list sexp),
  encode_all pb (filter (accepts pb) es) = Ok (send_all pb es).
Proof. exact encode_sequence_lemma. Qed.
Print Assumptions encode_sequence.

(** ... and the receiver, under any segmentation, gets exactly the accepted expressions, in order *)
Theorem sender_history_roundtrip : forall (pb : bool) (es : list sexp) (chunks : list (list N)),
  Forall wf (filter (accepts pb) es) -> concat chunks = send_all pb es -> Forall (fun c => c <> []) chunks ->
  let s := feed_all pb init chunks in
  st_outs s = filter (accepts pb) es /\ st_err s = None /\ st_stack s = [] /\ st_buf s = [].
Proof. exact sender_history. Qed.
Print Assumptions sender_history_roundtrip.

(** every well-formed expression is accepted by the encoder *)
Theorem wellformed_is_encodable : forall pb e, wf e -> exists b, encode pb e = Ok b.
Proof. exact encode_total. Qed.
Print Assumptions wellformed_is_encodable.

(** values outside the limits are refused when encoding (BananaError, nothing written) *)
Theorem out_of_range_refused_on_encode : forall pb z l s,
  ((z < - LARGEST_LONG \/ LARGEST_LONG < z)%Z -> encode pb (SInt z) = Err ValueError) /\
  (SIZE_LIMIT < blen l -> encode pb (SList l) = Err ValueError) /\
  (SIZE_LIMIT < blen s -> encode false (SStr s) = Err ValueError).
Proof.
  intros pb z l s.
  exact (conj (encode_refuses_int pb z) (conj (encode_refuses_long_list pb l) (encode_refuses_long_str s))).
Qed.
Print Assumptions out_of_range_refused_on_encode.

(** oversized prefixes (more than 64 digit bytes, with or without a type byte yet) and list /
    string lengths above SIZE_LIMIT are refused when decoding *)
Theorem oversized_prefix_or_length_refused_on_decode : forall pb digits,
  forallb (fun d => d <? 128) digits = true ->
  (PREFIX_LIMIT < blen digits ->
     forall tl, (tl = [] \/ exists ty rest, tl = ty :: rest /\ 128 <= ty) ->
     step pb (digits ++ tl) = Fail ValueError) /\
  (blen digits <= PREFIX_LIMIT -> SIZE_LIMIT < from_le128 digits ->
     forall ty rest, (ty = LIST \/ ty = STRING) -> step pb (digits ++ ty :: rest) = Fail ValueError).
Proof.
  intros pb digits D. split.
  - intros L tl T. exact (step_refuses_long_prefix pb digits tl D L T).
  - intros L S ty rest T. exact (step_refuses_big_length pb digits ty rest D L T S).
Qed.
Print Assumptions oversized_prefix_or_length_refused_on_decode.

(** the decoding loop terminates: the fuel [length buffer] given by [feed] is never exhausted *)
Theorem fuel_never_exhausted : forall pb stack buf outs,
  r_fuel_ok (run (length buf) pb stack buf outs) = true.
Proof. intros pb stack buf outs. exact (runL_fuel_ok pb (length buf) stack buf outs (le_n _)). Qed.
Print Assumptions fuel_never_exhausted.
