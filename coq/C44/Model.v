(** C44: hand-written model of twisted/spread/banana.py (H-tie).

    [b128] / [from_le128]     int2b128 / b1282int
    [encode]                  Banana._encode (with sendEncoded: nothing is written when it raises)
    [step], [run], [feed]     Banana.dataReceived: one pass of the `while buffer` loop, the loop, one
                              delivery; state = (buffer, listStack); outputs = the expressions
                              handed to expressionReceived, in order; an exception ends the run
    Floats are 8 opaque bytes (struct.pack("!d") / unpack are inverse on bit patterns: trusted).
    The dialect is fixed before data flows (pb = true: VOCAB ids for the 31 known words). *)
From Coq Require Import List NArith ZArith Bool.
From TwLib Require Import PyInt.
Import ListNotations.
Open Scope N_scope.

Inductive sexp :=
| SInt (z : Z)
| SStr (b : list N)
| SFloat (b : list N)
| SList (l : list sexp).

(** Banana.prefixLimit: setPrefixLimit(n); 64 unless changed.  It bounds the number of base-128 digits in
    front of a type byte (decoder) and, through 2 ** (7 n) - 1, the integers that are sent (encoder). *)
Definition DEFAULT_lim : N := 64.
Definition SIZE_LIMIT : N := 655360.            (* 640 * 1024 *)
Definition largest_long (lim : N) : Z := (2 ^ (7 * Z.of_N lim) - 1)%Z.   (* 2 ** (prefixLimit * 7) - 1 *)
Definition LARGEST_INT : Z := (2 ^ 31 - 1)%Z.
Definition SMALLEST_INT : Z := (- 2 ^ 31)%Z.

Definition LIST : N := 128.   Definition INT : N := 129.     Definition STRING : N := 130.
Definition NEG : N := 131.    Definition FLOAT : N := 132.   Definition LONGINT : N := 133.
Definition LONGNEG : N := 134. Definition VOCAB : N := 135.

(** int2b128 (n >= 0) *)
Definition b128 (n : N) : list N := match n with 0 => [0] | _ => to_le128 n end.

Fixpoint lists_eqb (a b : list N) : bool :=
  match a, b with
  | [], [] => true
  | x :: a', y :: b' => (x =? y) && lists_eqb a' b'
  | _, _ => false
  end.

(** Banana.outgoingVocabulary *)
Definition vocab : list (list N * N) :=
  [([78;111;110;101]%N, 1%N);
   ([99;108;97;115;115]%N, 2%N);
   ([100;101;114;101;102;101;114;101;110;99;101]%N, 3%N);
   ([114;101;102;101;114;101;110;99;101]%N, 4%N);
   ([100;105;99;116;105;111;110;97;114;121]%N, 5%N);
   ([102;117;110;99;116;105;111;110]%N, 6%N);
   ([105;110;115;116;97;110;99;101]%N, 7%N);
   ([108;105;115;116]%N, 8%N);
   ([109;111;100;117;108;101]%N, 9%N);
   ([112;101;114;115;105;115;116;101;110;116]%N, 10%N);
   ([116;117;112;108;101]%N, 11%N);
   ([117;110;112;101;114;115;105;115;116;97;98;108;101]%N, 12%N);
   ([99;111;112;121]%N, 13%N);
   ([99;97;99;104;101]%N, 14%N);
   ([99;97;99;104;101;100]%N, 15%N);
   ([114;101;109;111;116;101]%N, 16%N);
   ([108;111;99;97;108]%N, 17%N);
   ([108;99;97;99;104;101]%N, 18%N);
   ([118;101;114;115;105;111;110]%N, 19%N);
   ([108;111;103;105;110]%N, 20%N);
   ([112;97;115;115;119;111;114;100]%N, 21%N);
   ([99;104;97;108;108;101;110;103;101]%N, 22%N);
   ([108;111;103;103;101;100;95;105;110]%N, 23%N);
   ([110;111;116;95;108;111;103;103;101;100;95;105;110]%N, 24%N);
   ([99;97;99;104;101;109;101;115;115;97;103;101]%N, 25%N);
   ([109;101;115;115;97;103;101]%N, 26%N);
   ([97;110;115;119;101;114]%N, 27%N);
   ([101;114;114;111;114]%N, 28%N);
   ([100;101;99;114;101;102]%N, 29%N);
   ([100;101;99;97;99;104;101]%N, 30%N);
   ([117;110;99;97;99;104;101]%N, 31%N)].

Fixpoint assoc_word (t : list (list N * N)) (w : list N) : option N :=
  match t with [] => None | (k, i) :: r => if lists_eqb k w then Some i else assoc_word r w end.
Fixpoint assoc_id (t : list (list N * N)) (n : N) : option (list N) :=
  match t with [] => None | (k, i) :: r => if i =? n then Some k else assoc_id r n end.
Definition vocab_id := assoc_word vocab.
Definition vocab_word := assoc_id vocab.

Section Limit.
Variable lim : N.     (* the prefix limit, the same on both peers *)

(** ---- encoder ---- *)
Definition encode_int (z : Z) : res (list N) :=
  if ((z <? - (largest_long lim)) || (z >? (largest_long lim)))%Z then Err ValueError   (* BananaError *)
  else if (z <? SMALLEST_INT)%Z then Ok (b128 (Z.to_N (- z)) ++ [LONGNEG])
  else if (z <? 0)%Z then Ok (b128 (Z.to_N (- z)) ++ [NEG])
  else if (z <=? LARGEST_INT)%Z then Ok (b128 (Z.to_N z) ++ [INT])
  else Ok (b128 (Z.to_N z) ++ [LONGINT]).

Definition encode_str (pb : bool) (b : list N) : res (list N) :=
  match (if pb then vocab_id b else None) with
  | Some i => Ok (b128 i ++ [VOCAB])
  | None => if SIZE_LIMIT <? blen b then Err ValueError else Ok (b128 (blen b) ++ [STRING] ++ b)
  end.

Fixpoint encode (pb : bool) (e : sexp) : res (list N) :=
  match e with
  | SInt z => encode_int z
  | SStr b => encode_str pb b
  | SFloat b => Ok ([FLOAT] ++ b)
  | SList l =>
      if SIZE_LIMIT <? blen l then Err ValueError
      else bind ((fix go (l : list sexp) : res (list N) :=
                    match l with
                    | [] => Ok []
                    | x :: r => bind (encode pb x) (fun a => bind (go r) (fun b => Ok (a ++ b)))
                    end) l)
                (fun body => Ok (b128 (blen l) ++ [LIST] ++ body))
  end.

Fixpoint encode_all (pb : bool) (l : list sexp) : res (list N) :=
  match l with
  | [] => Ok []
  | x :: r => bind (encode pb x) (fun a => bind (encode_all pb r) (fun b => Ok (a ++ b)))
  end.

(** ---- a history of sendEncoded calls on one connection ----
    sendEncoded encodes into a buffer of its own and writes it to the transport only when _encode
    returned: a refused expression (BananaError) writes nothing and leaves no state behind. *)
Definition accepts (pb : bool) (e : sexp) : bool :=
  match encode pb e with Ok _ => true | Err _ => false end.

(** what the transport has received after the calls [es] *)
Fixpoint send_all (pb : bool) (es : list sexp) : list N :=
  match es with
  | [] => []
  | e :: r => match encode pb e with Ok b => b ++ send_all pb r | Err _ => send_all pb r end
  end.

(** ---- decoder ---- *)
Inductive step_res :=
| NeedMore
| Fail (e : pyexn)
| Got (v : sexp) (rest : list N)
| Open (n : N) (rest : list N).

(** leading bytes below 0x80, and what follows *)
Fixpoint span128 (buf : list N) : list N * list N :=
  match buf with
  | [] => ([], [])
  | c :: r => if c <? 128 then let '(a, b) := span128 r in (c :: a, b) else ([], buf)
  end.

Definition step (pb : bool) (buf : list N) : step_res :=
  let '(num, tl) := span128 buf in
  match tl with
  | [] => if lim <? blen num then Fail ValueError else NeedMore
  | ty :: rest =>
    if lim <? blen num then Fail ValueError else
    let n := from_le128 num in
    if ty =? LIST then (if SIZE_LIMIT <? n then Fail ValueError else Open n rest)
    else if ty =? STRING then
      (if SIZE_LIMIT <? n then Fail ValueError
       else if n <=? blen rest then Got (SStr (takeN n rest)) (dropN n rest) else NeedMore)
    else if (ty =? INT) || (ty =? LONGINT) then Got (SInt (Z.of_N n)) rest
    else if (ty =? LONGNEG) || (ty =? NEG) then Got (SInt (- Z.of_N n)) rest
    else if ty =? VOCAB then
      match vocab_word n with
      | None => Fail IndexError                      (* KeyError *)
      | Some w => if pb then Got (SStr w) rest else Fail TypeError   (* NotImplementedError *)
      end
    else if ty =? FLOAT then
      (if 8 <=? blen rest then Got (SFloat (takeN 8 rest)) (dropN 8 rest) else NeedMore)
    else Fail TypeError                               (* NotImplementedError: invalid type byte *)
  end.

Definition frame := (N * list sexp)%type.

(** gotItem *)
Definition got (stack : list frame) (outs : list sexp) (v : sexp) : list frame * list sexp :=
  match stack with
  | [] => ([], outs ++ [v])
  | (n, items) :: r => ((n, items ++ [v]) :: r, outs)
  end.

(** while listStack and len(listStack[-1][1]) == listStack[-1][0]: pop, gotItem *)
Fixpoint close (fuel : nat) (stack : list frame) (outs : list sexp) : list frame * list sexp :=
  match fuel with
  | O => (stack, outs)
  | S f =>
    match stack with
    | (n, items) :: r =>
        if blen items =? n then let '(s1, o1) := got r outs (SList items) in close f s1 o1
        else (stack, outs)
    | [] => (stack, outs)
    end
  end.

Definition deliver (stack : list frame) (outs : list sexp) (v : sexp) : list frame * list sexp :=
  let '(s1, o1) := got stack outs v in close (length s1) s1 o1.

Record result := mkResult {
  r_stack : list frame; r_buf : list N; r_outs : list sexp; r_err : option pyexn; r_fuel_ok : bool }.

(** the `while buffer` loop; every pass that continues consumes at least the type byte *)
Fixpoint run (fuel : nat) (pb : bool) (stack : list frame) (buf : list N) (outs : list sexp) : result :=
  match buf with
  | [] => mkResult stack [] outs None true
  | _ :: _ =>
    match fuel with
    | O => mkResult stack buf outs None false
    | S f =>
      match step pb buf with
      | NeedMore => mkResult stack buf outs None true
      | Fail e => mkResult stack buf outs (Some e) true
      | Got v rest => let '(s1, o1) := deliver stack outs v in run f pb s1 rest o1
      | Open n rest =>
          let s0 := (n, []) :: stack in
          let '(s1, o1) := close (length s0) s0 outs in run f pb s1 rest o1
      end
    end
  end.

(** protocol state between deliveries; [st_outs] is the ghost log of every expression handed to
    expressionReceived so far; after an exception ([st_err]) nothing more happens *)
Record state := mkState { st_stack : list frame; st_buf : list N; st_outs : list sexp; st_err : option pyexn }.
Definition init : state := mkState [] [] [] None.

(** dataReceived(chunk) *)
Definition feed (pb : bool) (st : state) (chunk : list N) : state :=
  match st_err st with
  | Some _ => st
  | None =>
    match chunk, st_buf st with
    | [], [] => st
    | [], _ :: _ => mkState (st_stack st) (st_buf st) (st_outs st) (Some AssertionError)
    | _, _ =>
      let buf := st_buf st ++ chunk in
      let r := run (length buf) pb (st_stack st) buf (st_outs st) in
      mkState (r_stack r) (r_buf r) (r_outs r) (r_err r)
    end
  end.

Definition feed_all (pb : bool) (st : state) (chunks : list (list N)) : state :=
  fold_left (feed pb) chunks st.

(** ---- well-formed expressions (what the encoder accepts) ---- *)
Fixpoint wf (e : sexp) : Prop :=
  match e with
  | SInt z => (- (largest_long lim) <= z <= (largest_long lim))%Z
  | SStr b => blen b <= SIZE_LIMIT /\ blen b < 128 ^ lim
  | SFloat b => blen b = 8
  | SList l => blen l <= SIZE_LIMIT /\ blen l < 128 ^ lim /\ (fix all (l : list sexp) : Prop :=
                                          match l with [] => True | x :: r => wf x /\ all r end) l
  end.
End Limit.
