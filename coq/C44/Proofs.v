(** C44: proofs about the Banana model. *)
From Coq Require Import List NArith ZArith Bool Lia ZifyBool.
From TwLib Require Import PyInt.
From C44 Require Import Model.
Import ListNotations.
Open Scope N_scope.

(** ---------------------------------------------------------------- base 128 --- *)

Lemma from_b128 n : from_le128 (b128 n) = n.
Proof. destruct n; [reflexivity|]. unfold b128. apply from_to_le128. Qed.

Lemma b128_digits n : forallb (fun d => d <? 128) (b128 n) = true.
Proof. destruct n; [reflexivity|]. unfold b128. apply to_le128_digits. Qed.

Lemma le128_pos_len fuel : forall p k, N.pos p < 128 ^ N.of_nat k -> (length (le128_pos p fuel) <= k)%nat.
Proof.
  induction fuel as [|f IH]; intros p k H; [cbn; lia|].
  destruct k as [|k]; [cbn in H; lia|].
  cbn [le128_pos length]. rewrite shr7.
  destruct (N.pos p / 128) as [|q] eqn:Q; [cbn; lia|].
  apply le_n_S. apply IH. rewrite <- Q.
  rewrite Nnat.Nat2N.inj_succ, N.pow_succ_r' in H.
  apply N.div_lt_upper_bound; lia.
Qed.

Lemma b128_len n k : n < 128 ^ N.of_nat k -> (1 <= k)%nat -> (length (b128 n) <= k)%nat.
Proof.
  intros H K. destruct n as [|p]; [cbn; lia|]. unfold b128, to_le128. now apply le128_pos_len.
Qed.

Lemma b128_blen_lim lim n : 1 <= lim -> n < 128 ^ lim -> blen (b128 n) <= lim.
Proof.
  intros L H. unfold blen. pose proof (b128_len n (N.to_nat lim)) as B.
  rewrite Nnat.N2Nat.id in B. specialize (B H ltac:(lia)). lia.
Qed.

Lemma from_le128_bound l : forallb (fun d => d <? 128) l = true -> from_le128 l < 128 ^ blen l.
Proof.
  induction l as [|d r IH]; intros H; [cbn; lia|].
  cbn [forallb] in H. apply andb_true_iff in H as [Hd Hr]. specialize (IH Hr).
  rewrite from_le128_cons, blen_cons, N.pow_add_r, N.pow_1_r.
  revert IH. generalize (128 ^ blen r) (from_le128 r). intros P F IH. lia.
Qed.

Lemma b128_fits_iff lim n : 1 <= lim -> (blen (b128 n) <= lim <-> n < 128 ^ lim).
Proof.
  intros L. split; [|now apply b128_blen_lim].
  intros B. pose proof (from_le128_bound (b128 n) (b128_digits n)) as F. rewrite from_b128 in F.
  eapply N.lt_le_trans; [exact F|]. apply N.pow_le_mono_r; lia.
Qed.

Lemma largest_long_pow lim : largest_long lim = (Z.of_N (128 ^ lim) - 1)%Z.
Proof.
  unfold largest_long. f_equal. rewrite N2Z.inj_pow. change (Z.of_N 128) with (2 ^ 7)%Z.
  rewrite <- Z.pow_mul_r by lia. reflexivity.
Qed.

(** ---------------------------------------------------------------- span128 --- *)

Lemma span128_eq buf : forall num tl, span128 buf = (num, tl) -> buf = num ++ tl.
Proof.
  induction buf as [|c r IH]; intros num tl H; cbn in H.
  - inversion H; reflexivity.
  - destruct (c <? 128) eqn:E.
    + destruct (span128 r) as [a b] eqn:S. inversion H; subst. cbn. f_equal. now apply IH.
    + inversion H; subst. reflexivity.
Qed.

Lemma span128_digits num : forall ty rest,
  forallb (fun d => d <? 128) num = true -> 128 <= ty ->
  span128 (num ++ ty :: rest) = (num, ty :: rest).
Proof.
  induction num as [|d num IH]; intros ty rest D T.
  - cbn. destruct (ty <? 128) eqn:E; [lia|reflexivity].
  - cbn in D. apply andb_true_iff in D as [D1 D2]. cbn. rewrite D1, (IH ty rest D2 T). reflexivity.
Qed.

Lemma span128_app_ty buf c : forall num ty rest,
  span128 buf = (num, ty :: rest) -> span128 (buf ++ c) = (num, ty :: rest ++ c).
Proof.
  induction buf as [|x r IH]; intros num ty rest H; cbn in H; [inversion H|].
  cbn. destruct (x <? 128) eqn:E.
  - destruct (span128 r) as [a b] eqn:S. inversion H; subst. now rewrite (IH a ty rest eq_refl).
  - inversion H; subst. reflexivity.
Qed.

Lemma span128_nil_tl buf : forall num, span128 buf = (num, []) -> num = buf /\ forallb (fun d => d <? 128) buf = true.
Proof.
  induction buf as [|x r IH]; intros num H; cbn in H; [inversion H; auto|].
  destruct (x <? 128) eqn:E.
  - destruct (span128 r) as [a b] eqn:S. inversion H; subst. destruct (IH a eq_refl) as [-> D].
    cbn. now rewrite E, D.
  - inversion H.
Qed.

Lemma span128_all_digits buf c :
  forallb (fun d => d <? 128) buf = true ->
  span128 (buf ++ c) = (buf ++ fst (span128 c), snd (span128 c)).
Proof.
  induction buf as [|x r IH]; intros D; cbn; [now destruct (span128 c)|].
  cbn in D. apply andb_true_iff in D as [D1 D2]. rewrite D1, (IH D2). reflexivity.
Qed.

Section Limit.
Variable lim : N.

(** ---------------------------------------------------------------- step: prefix stability --- *)

Lemma step_shrinks pb buf :
  match step lim pb buf with
  | Got _ rest | Open _ rest => (length rest < length buf)%nat
  | _ => True
  end.
Proof.
  unfold step. destruct (span128 buf) as [num tl] eqn:S. apply span128_eq in S. subst buf.
  destruct tl as [|ty rest]; [destruct (lim <? blen num); exact I|].
  assert (L : forall n, (length (dropN n rest) < length (num ++ ty :: rest))%nat).
  { intros n. pose proof (blen_dropN n rest) as B. unfold blen in B. rewrite app_length. cbn [length]. lia. }
  assert (L0 : (length rest < length (num ++ ty :: rest))%nat) by (rewrite app_length; cbn [length]; lia).
  destruct (lim <? blen num); [exact I|].
  repeat match goal with
         | |- context [if ?c then _ else _] => destruct c
         | |- context [match vocab_word ?n with _ => _ end] => destruct (vocab_word n)
         end; auto.
Qed.

Lemma blen_app_le {A} (a b : list A) : blen a <= blen (a ++ b).
Proof. rewrite blen_app. lia. Qed.

Lemma takeN_app_le {A} n (a b : list A) : n <= blen a -> takeN n (a ++ b) = takeN n a.
Proof.
  revert n; induction a as [|x a IH]; intros n H.
  - cbn in H. assert (n = 0) by lia. subst. now rewrite !takeN_0.
  - rewrite blen_cons in H. cbn [app takeN]. destruct (n =? 0); [reflexivity|]. f_equal. apply IH. lia.
Qed.

Lemma dropN_app_le {A} n (a b : list A) : n <= blen a -> dropN n (a ++ b) = dropN n a ++ b.
Proof.
  revert n; induction a as [|x a IH]; intros n H.
  - cbn in H. assert (n = 0) by lia. subst. now rewrite !dropN_0.
  - rewrite blen_cons in H. cbn [app dropN]. destruct (n =? 0) eqn:E; [reflexivity|]. apply IH. lia.
Qed.

Lemma step_app pb buf c :
  match step lim pb buf with
  | Got v rest => step lim pb (buf ++ c) = Got v (rest ++ c)
  | Open n rest => step lim pb (buf ++ c) = Open n (rest ++ c)
  | Fail e => step lim pb (buf ++ c) = Fail e
  | NeedMore => True
  end.
Proof.
  unfold step at 1. destruct (span128 buf) as [num tl] eqn:S.
  destruct tl as [|ty rest].
  - destruct (lim <? blen num) eqn:P; [|exact I].
    apply span128_nil_tl in S as [-> D]. unfold step. rewrite (span128_all_digits buf c D).
    destruct (span128 c) as [a b]. cbn [fst snd].
    assert (lim <? blen (buf ++ a) = true) as P2.
    { pose proof (blen_app_le buf a). lia. }
    destruct b; now rewrite P2.
  - unfold step. rewrite (span128_app_ty buf c num ty rest S).
    destruct (lim <? blen num); [reflexivity|].
    destruct (ty =? LIST); [destruct (SIZE_LIMIT <? from_le128 num); reflexivity|].
    destruct (ty =? STRING).
    { destruct (SIZE_LIMIT <? from_le128 num); [reflexivity|].
      destruct (from_le128 num <=? blen rest) eqn:L; [|exact I].
      assert (from_le128 num <=? blen (rest ++ c) = true) as L2 by (rewrite blen_app; lia).
      rewrite L2, takeN_app_le, dropN_app_le by lia. reflexivity. }
    destruct ((ty =? INT) || (ty =? LONGINT))%bool; [reflexivity|].
    destruct ((ty =? LONGNEG) || (ty =? NEG))%bool; [reflexivity|].
    destruct (ty =? VOCAB). { destruct (vocab_word (from_le128 num)); [destruct pb|]; reflexivity. }
    destruct (ty =? FLOAT); [|reflexivity].
    destruct (8 <=? blen rest) eqn:L; [|exact I].
    assert (8 <=? blen (rest ++ c) = true) as L2 by (rewrite blen_app; lia).
    rewrite L2, takeN_app_le, dropN_app_le by lia. reflexivity.
Qed.

(** ---------------------------------------------------------------- run: fuel and extension --- *)

Lemma run_fuel pb : forall f1 f2 stack buf outs,
  (length buf <= f1)%nat -> (length buf <= f2)%nat -> run lim f1 pb stack buf outs = run lim f2 pb stack buf outs.
Proof.
  induction f1 as [|f1 IH]; intros f2 stack buf outs H1 H2.
  - destruct buf; [destruct f2; reflexivity|cbn in H1; lia].
  - destruct buf as [|x buf]; [destruct f2; reflexivity|].
    destruct f2 as [|f2]; [cbn in H2; lia|].
    cbn [run]. pose proof (step_shrinks pb (x :: buf)) as Sh.
    destruct (step lim pb (x :: buf)) as [| |v rest|n rest]; try reflexivity.
    + destruct (deliver stack outs v) as [s1 o1]. apply IH; cbn [length] in *; lia.
    + destruct (close _ _ outs) as [s1 o1]. apply IH; cbn [length] in *; lia.
Qed.

Definition runL pb stack buf outs := run lim (length buf) pb stack buf outs.

Lemma run_runL pb f stack buf outs : (length buf <= f)%nat -> run lim f pb stack buf outs = runL pb stack buf outs.
Proof. intros H. apply run_fuel; [exact H|lia]. Qed.

Lemma runL_nil pb stack outs : runL pb stack [] outs = mkResult stack [] outs None true.
Proof. reflexivity. Qed.

Lemma runL_unfold pb stack buf outs :
  buf <> [] ->
  runL pb stack buf outs =
  match step lim pb buf with
  | NeedMore => mkResult stack buf outs None true
  | Fail e => mkResult stack buf outs (Some e) true
  | Got v rest => let '(s1, o1) := deliver stack outs v in runL pb s1 rest o1
  | Open n rest => let s0 := (n, []) :: stack in
                   let '(s1, o1) := close (length s0) s0 outs in runL pb s1 rest o1
  end.
Proof.
  intros NE. destruct buf as [|x buf]; [congruence|]. unfold runL at 1. cbn [length run].
  pose proof (step_shrinks pb (x :: buf)) as Sh.
  destruct (step lim pb (x :: buf)) as [| |v rest|n rest]; try reflexivity.
  - destruct (deliver stack outs v) as [s1 o1]. apply run_runL. cbn [length] in Sh. lia.
  - cbn zeta. destruct (close _ _ outs) as [s1 o1]. apply run_runL. cbn [length] in Sh. lia.
Qed.

(** the fuel [length buf] always suffices *)
Lemma runL_fuel_ok pb : forall n stack buf outs, (length buf <= n)%nat -> r_fuel_ok (runL pb stack buf outs) = true.
Proof.
  induction n as [|n IH]; intros stack buf outs H.
  - destruct buf; [reflexivity|cbn in H; lia].
  - destruct buf as [|x buf]; [reflexivity|]. rewrite runL_unfold by congruence.
    pose proof (step_shrinks pb (x :: buf)) as Sh.
    destruct (step lim pb (x :: buf)) as [| |v rest|k rest]; try reflexivity.
    + destruct (deliver stack outs v). apply IH. cbn [length] in *. lia.
    + cbn zeta. destruct (close _ _ outs). apply IH. cbn [length] in *. lia.
Qed.

(** prefix stability of the whole loop: what was decided on [buf] is decided the same way on
    [buf ++ c]; the loop then goes on with the left-over buffer *)
Lemma runL_app pb c : forall n stack buf outs,
  (length buf <= n)%nat ->
  let r := runL pb stack buf outs in
  match r_err r with
  | None => runL pb stack (buf ++ c) outs = runL pb (r_stack r) (r_buf r ++ c) (r_outs r)
  | Some e => let r2 := runL pb stack (buf ++ c) outs in r_err r2 = Some e /\ r_outs r2 = r_outs r
  end.
Proof.
  induction n as [|n IH]; intros stack buf outs H.
  - destruct buf; [cbn; reflexivity|cbn in H; lia].
  - destruct buf as [|x buf]; [cbn; reflexivity|].
    cbn zeta. rewrite (runL_unfold pb stack (x :: buf)) by congruence.
    pose proof (step_shrinks pb (x :: buf)) as Sh. pose proof (step_app pb (x :: buf) c) as Ap.
    destruct (step lim pb (x :: buf)) as [|e|v rest|k rest] eqn:St.
    + cbn [r_err r_stack r_buf r_outs]. reflexivity.
    + cbn [r_err r_outs]. rewrite (runL_unfold pb stack ((x :: buf) ++ c)) by (cbn; congruence).
      rewrite Ap. cbn. auto.
    + rewrite (runL_unfold pb stack ((x :: buf) ++ c)) by (cbn; congruence). rewrite Ap.
      destruct (deliver stack outs v) as [s1 o1]. apply IH. cbn [length] in *. lia.
    + rewrite (runL_unfold pb stack ((x :: buf) ++ c)) by (cbn; congruence). rewrite Ap.
      cbn zeta. destruct (close _ _ outs) as [s1 o1]. apply IH. cbn [length] in *. lia.
Qed.

(** ---------------------------------------------------------------- segmentation invariance --- *)

Definition state_of (r : result) : state := mkState (r_stack r) (r_buf r) (r_outs r) (r_err r).

(** same observable behaviour: same expressions delivered, same exception; and when nothing was
    raised, the same internal state *)
Definition same_obs (a b : state) : Prop :=
  st_outs a = st_outs b /\ st_err a = st_err b /\
  (st_err a = None -> st_stack a = st_stack b /\ st_buf a = st_buf b).

Lemma feed_whole pb B : feed lim pb init B = state_of (runL pb [] B []).
Proof. destruct B; reflexivity. Qed.

Lemma feed_dead pb st c : st_err st <> None -> feed lim pb st c = st.
Proof. unfold feed. destruct (st_err st); [reflexivity|congruence]. Qed.

Lemma feed_all_dead pb cs : forall st, st_err st <> None -> feed_all lim pb st cs = st.
Proof.
  induction cs as [|c cs IH]; intros st H; [reflexivity|].
  cbn. rewrite feed_dead by exact H. now apply IH.
Qed.

Lemma feed_after pb B c :
  c <> [] ->
  same_obs (feed lim pb (state_of (runL pb [] B [])) c) (state_of (runL pb [] (B ++ c) [])).
Proof.
  intros NE. destruct c as [|y c]; [congruence|].
  pose proof (runL_app pb (y :: c) (length B) [] B [] (le_n _)) as A. cbn zeta in A.
  remember (runL pb [] B []) as R eqn:HR.
  destruct R as [rs rb ro re rf]. cbn [r_err r_stack r_buf r_outs] in A.
  unfold feed, state_of. cbn [st_err st_buf st_stack st_outs r_err r_stack r_buf r_outs].
  destruct re as [e|].
  - destruct A as [A1 A2]. unfold same_obs. cbn [st_outs st_err]. rewrite A1, A2. repeat split; congruence.
  - change (run lim (length (rb ++ y :: c)) pb rs (rb ++ y :: c) ro) with (runL pb rs (rb ++ y :: c) ro).
    rewrite <- A. unfold same_obs. cbn. auto.
Qed.

Lemma same_obs_refl a : same_obs a a.
Proof. unfold same_obs; auto. Qed.

Lemma same_obs_trans a b c : same_obs a b -> same_obs b c -> same_obs a c.
Proof.
  unfold same_obs. intros (A1 & A2 & A3) (B1 & B2 & B3). split; [congruence|]. split; [congruence|].
  intros H. destruct (A3 H) as [X1 X2]. assert (H2 : st_err b = None) by congruence.
  destruct (B3 H2) as [Y1 Y2]. split; congruence.
Qed.

(** feeding respects same_obs *)
Lemma feed_same_obs pb a b c : same_obs a b -> same_obs (feed lim pb a c) (feed lim pb b c).
Proof.
  intros (H1 & H2 & H3). destruct (st_err a) as [e|] eqn:E.
  - rewrite !feed_dead by congruence. unfold same_obs. rewrite E. repeat split; congruence.
  - destruct (H3 eq_refl) as [S B]. destruct a as [sa ba oa ea], b as [sb bb ob eb]. cbn in *. subst.
    apply same_obs_refl.
Qed.

Lemma feed_all_cons pb st c cs : feed_all lim pb st (c :: cs) = feed_all lim pb (feed lim pb st c) cs.
Proof. reflexivity. Qed.

Lemma feed_all_same_obs pb cs : forall s1 s2,
  same_obs s1 s2 -> same_obs (feed_all lim pb s1 cs) (feed_all lim pb s2 cs).
Proof.
  induction cs as [|c cs IH]; intros s1 s2 A; [exact A|].
  rewrite !feed_all_cons. apply IH. now apply feed_same_obs.
Qed.

Lemma feed_all_split pb : forall cs B,
  Forall (fun c => c <> []) cs ->
  same_obs (feed_all lim pb (state_of (runL pb [] B [])) cs) (state_of (runL pb [] (B ++ concat cs) [])).
Proof.
  induction cs as [|c cs IH]; intros B F.
  - cbn. rewrite app_nil_r. apply same_obs_refl.
  - inversion F as [|? ? Fc Fcs]; subst. rewrite feed_all_cons. cbn [concat].
    eapply same_obs_trans.
    + apply feed_all_same_obs. apply feed_after. exact Fc.
    + rewrite app_assoc. apply IH. exact Fcs.
Qed.

Lemma any_split pb cs :
  Forall (fun c => c <> []) cs -> same_obs (feed_all lim pb init cs) (feed lim pb init (concat cs)).
Proof.
  intros F. rewrite feed_whole. exact (feed_all_split pb cs [] F).
Qed.

(** ---------------------------------------------------------------- decoding an encoding --- *)

Lemma got_length stack outs v : length (fst (got stack outs v)) = length stack.
Proof. destruct stack as [|[n items] r]; reflexivity. Qed.

Lemma deliver_nil outs v : deliver [] outs v = ([], outs ++ [v]).
Proof. reflexivity. Qed.

Lemma deliver_frame n items stack outs x :
  deliver ((n, items) :: stack) outs x =
  if blen (items ++ [x]) =? n then deliver stack outs (SList (items ++ [x]))
  else ((n, items ++ [x]) :: stack, outs).
Proof.
  unfold deliver at 1. cbn [got length close].
  destruct (blen (items ++ [x]) =? n); [|reflexivity].
  unfold deliver. pose proof (got_length stack outs (SList (items ++ [x]))) as L.
  destruct (got stack outs (SList (items ++ [x]))) as [s1 o1]. cbn [fst] in L. now rewrite L.
Qed.

Lemma open_frame n stack outs :
  close (length ((n, @nil sexp) :: stack)) ((n, []) :: stack) outs =
  if n =? 0 then deliver stack outs (SList []) else ((n, []) :: stack, outs).
Proof.
  cbn [length close]. change (blen (@nil sexp)) with 0.
  destruct (0 =? n) eqn:E.
  - replace (n =? 0) with true by lia. unfold deliver.
    pose proof (got_length stack outs (SList [])) as L.
    destruct (got stack outs (SList [])) as [s1 o1]. cbn [fst] in L. now rewrite L.
  - replace (n =? 0) with false by lia. reflexivity.
Qed.

(** a proper induction principle for the nested type *)
Fixpoint sexp_ind2 (P : sexp -> Prop)
  (Hi : forall z, P (SInt z)) (Hs : forall b, P (SStr b)) (Hf : forall b, P (SFloat b))
  (Hl : forall l, Forall P l -> P (SList l)) (e : sexp) : P e :=
  match e with
  | SInt z => Hi z
  | SStr b => Hs b
  | SFloat b => Hf b
  | SList l => Hl l ((fix go (l : list sexp) : Forall P l :=
                        match l with
                        | [] => Forall_nil P
                        | x :: r => Forall_cons x (sexp_ind2 P Hi Hs Hf Hl x) (go r)
                        end) l)
  end.

Lemma encode_list pb l :
  encode lim pb (SList l) =
  if SIZE_LIMIT <? blen l then Err ValueError
  else bind (encode_all lim pb l) (fun body => Ok (b128 (blen l) ++ [LIST] ++ body)).
Proof.
  cbn [encode]. destruct (SIZE_LIMIT <? blen l); [reflexivity|]. f_equal.
  induction l as [|x r IH]; [reflexivity|]. cbn [encode_all]. now rewrite IH.
Qed.

Lemma wf_list l : wf lim (SList l) <-> (blen l <= SIZE_LIMIT /\ blen l < 128 ^ lim) /\ Forall (wf lim) l.
Proof.
  cbn [wf]. split.
  - intros (H1 & H0 & H2). split; [split; assumption|]. clear H1 H0.
    induction l as [|x r IH]; [constructor|]. destruct H2 as [Hx Hr]. constructor; [exact Hx|]. now apply IH.
  - intros ((H1 & H0) & H2). split; [exact H1|]. split; [exact H0|]. clear H1 H0.
    induction H2 as [|x r Hx _ IH]; [exact I|]. split; [exact Hx|exact IH].
Qed.

(** vocabulary table: ids and words are inverse, ids are one digit *)
Lemma lists_eqb_eq a : forall b, lists_eqb a b = true -> a = b.
Proof.
  induction a as [|x a IH]; intros [|y b] H; cbn in H; try discriminate; [reflexivity|].
  apply andb_true_iff in H as [H1 H2]. apply N.eqb_eq in H1. subst. f_equal. now apply IH.
Qed.

Definition vocab_ok : bool :=
  forallb (fun '(w, i) => match vocab_word i with Some w' => lists_eqb w' w && (i <? 128) | None => false end) vocab.

Lemma vocab_ok_true : vocab_ok = true.
Proof. vm_compute. reflexivity. Qed.

Lemma assoc_word_in t w i : assoc_word t w = Some i -> exists k, In (k, i) t /\ k = w.
Proof.
  induction t as [|[k j] r IH]; cbn; [discriminate|].
  destruct (lists_eqb k w) eqn:E.
  - intros H; inversion H; subst. exists k. split; [now left|now apply lists_eqb_eq].
  - intros H. destruct (IH H) as [k' [I' E']]. exists k'. split; [now right|exact E'].
Qed.

Lemma vocab_roundtrip w i : vocab_id w = Some i -> vocab_word i = Some w /\ i < 128.
Proof.
  intros H. apply assoc_word_in in H as [k [I ->]].
  pose proof vocab_ok_true as V. unfold vocab_ok in V. rewrite forallb_forall in V.
  specialize (V _ I). cbv beta iota in V. destruct (vocab_word i) as [w'|]; [|discriminate].
  apply andb_true_iff in V as [V1 V2]. apply lists_eqb_eq in V1. subst. split; [reflexivity|lia].
Qed.

(** from here on the limit is at least 1 (with 0 not even the integer 0 could be read back) *)
Hypothesis LIM : 1 <= lim.

Lemma pow128_ge lim' : 1 <= lim' -> 128 <= 128 ^ lim'.
Proof. intros L. replace 128 with (128 ^ 1) at 1 by reflexivity. apply N.pow_le_mono_r; lia. Qed.

Lemma b128_one_digit i : i < 128 -> blen (b128 i) <= lim.
Proof. intros H. apply b128_blen_lim; [exact LIM|]. pose proof (pow128_ge lim LIM). lia. Qed.

(** decoding one encoded atom *)
Lemma step_prefix (pb : bool) n ty rest :
  128 <= ty -> blen (b128 n) <= lim ->
  span128 (b128 n ++ ty :: rest) = (b128 n, ty :: rest) /\ (lim <? blen (b128 n)) = false
  /\ from_le128 (b128 n) = n.
Proof.
  intros T L. split; [apply span128_digits; [apply b128_digits|exact T]|].
  split; [lia|apply from_b128].
Qed.

(** evaluate the comparisons between type-byte constants *)
Ltac tyconst :=
  repeat match goal with
         | |- context [N.eqb ?a ?b] =>
             let v := eval vm_compute in (N.eqb a b) in
             match v with
             | true => change (N.eqb a b) with true
             | false => change (N.eqb a b) with false
             end
         end;
  cbn [orb]; cbv beta iota.


Lemma step_encoded_int pb z b tail :
  encode_int lim z = Ok b -> step lim pb (b ++ tail) = Got (SInt z) tail.
Proof.
  unfold encode_int. rewrite largest_long_pow.
  destruct ((z <? - (Z.of_N (128 ^ lim) - 1)) || (z >? Z.of_N (128 ^ lim) - 1))%Z eqn:R; [discriminate|].
  assert (Hn : forall m, m = Z.to_N (- z) \/ m = Z.to_N z -> blen (b128 m) <= lim).
  { intros m Hm. apply b128_blen_lim; [exact LIM|]. lia. }
  unfold SMALLEST_INT, LARGEST_INT.
  destruct (z <? - 2 ^ 31)%Z eqn:E1; [|destruct (z <? 0)%Z eqn:E2; [|destruct (z <=? 2 ^ 31 - 1)%Z eqn:E3]];
    intros H; inversion H; subst b; clear H; rewrite <- app_assoc; cbn [app]; unfold step.
  - destruct (step_prefix pb (Z.to_N (- z)) LONGNEG tail) as (S & P & F); [unfold LONGNEG; lia|apply Hn; auto|].
    rewrite S, P, F. tyconst. f_equal. f_equal. lia.
  - destruct (step_prefix pb (Z.to_N (- z)) NEG tail) as (S & P & F); [unfold NEG; lia|apply Hn; auto|].
    rewrite S, P, F. tyconst. f_equal. f_equal. lia.
  - destruct (step_prefix pb (Z.to_N z) INT tail) as (S & P & F); [unfold INT; lia|apply Hn; auto|].
    rewrite S, P, F. tyconst. f_equal. f_equal. lia.
  - destruct (step_prefix pb (Z.to_N z) LONGINT tail) as (S & P & F); [unfold LONGINT; lia|apply Hn; auto|].
    rewrite S, P, F. tyconst. f_equal. f_equal. lia.
Qed.

Lemma step_encoded_str pb s b tail :
  blen s < 128 ^ lim -> encode_str pb s = Ok b -> step lim pb (b ++ tail) = Got (SStr s) tail.
Proof.
  intros FIT. unfold encode_str. destruct pb.
  - destruct (vocab_id s) as [i|] eqn:V.
    + intros H; inversion H; subst b; clear H. apply vocab_roundtrip in V as [W I].
      rewrite <- app_assoc; cbn [app]. unfold step.
      destruct (step_prefix true i VOCAB tail) as (S & P & F); [unfold VOCAB; lia|now apply b128_one_digit|].
      rewrite S, P, F. tyconst. now rewrite W.
    + destruct (SIZE_LIMIT <? blen s) eqn:L; [discriminate|].
      intros H; inversion H; subst b; clear H. rewrite <- !app_assoc; cbn [app]. unfold step.
      destruct (step_prefix true (blen s) STRING (s ++ tail)) as (S & P & F);
        [unfold STRING; lia|apply b128_blen_lim; [exact LIM|exact FIT]|].
      rewrite S, P, F. tyconst. rewrite L.
      replace (blen s <=? blen (s ++ tail)) with true by (rewrite blen_app; lia).
      now rewrite takeN_app_exact, dropN_app_exact.
  - destruct (SIZE_LIMIT <? blen s) eqn:L; [discriminate|].
    intros H; inversion H; subst b; clear H. rewrite <- !app_assoc; cbn [app]. unfold step.
    destruct (step_prefix false (blen s) STRING (s ++ tail)) as (S & P & F);
      [unfold STRING; lia|apply b128_blen_lim; [exact LIM|exact FIT]|].
    rewrite S, P, F. tyconst. rewrite L.
    replace (blen s <=? blen (s ++ tail)) with true by (rewrite blen_app; lia).
    now rewrite takeN_app_exact, dropN_app_exact.
Qed.

Lemma step_encoded_float pb f tail :
  blen f = 8 -> step lim pb (FLOAT :: f ++ tail) = Got (SFloat f) tail.
Proof.
  intros L. unfold step. cbn [span128]. change (FLOAT <? 128) with false. cbv beta iota.
  replace (lim <? blen (@nil N)) with false by (change (blen (@nil N)) with 0; lia). tyconst.
  replace (8 <=? blen (f ++ tail)) with true by (rewrite blen_app; lia).
  rewrite <- L. now rewrite takeN_app_exact, dropN_app_exact.
Qed.

Lemma step_encoded_open pb n tail :
  n <= SIZE_LIMIT -> n < 128 ^ lim -> step lim pb (b128 n ++ LIST :: tail) = Open n tail.
Proof.
  intros L FIT. unfold step.
  destruct (step_prefix pb n LIST tail) as (S & P & F); [unfold LIST; lia|now apply b128_blen_lim|].
  rewrite S, P, F. tyconst.
  replace (SIZE_LIMIT <? n) with false by lia. reflexivity.
Qed.

Lemma app_not_nil_l {A} (a b : list A) : a <> [] -> a ++ b <> [].
Proof. destruct a; [congruence|cbn; congruence]. Qed.

Lemma b128_not_nil n : b128 n <> [].
Proof.
  destruct n as [|p]; [cbn; congruence|]. unfold b128, to_le128.
  pose proof (N.size_log2 (N.pos p) ltac:(lia)) as Sz.
  destruct (N.to_nat (N.size (N.pos p))) eqn:E; [lia|]. cbn. congruence.
Qed.

(** one encoded expression in front of any tail, under any stack of open lists *)
Lemma run_encoded pb e :
  wf lim e -> forall b, encode lim pb e = Ok b -> forall stack tail outs,
  runL pb stack (b ++ tail) outs = let '(s1, o1) := deliver stack outs e in runL pb s1 tail o1.
Proof.
  induction e as [z|s|f|l IH] using sexp_ind2; intros W b E stack tail outs.
  - cbn [encode] in E. rewrite runL_unfold.
    + now rewrite (step_encoded_int pb z b tail E).
    + unfold encode_int in E. repeat match type of E with context [if ?c then _ else _] => destruct c end;
        try discriminate; inversion E; apply app_not_nil_l, app_not_nil_l, b128_not_nil.
  - cbn [encode] in E. rewrite runL_unfold.
    + cbn [wf] in W. now rewrite (step_encoded_str pb s b tail (proj2 W) E).
    + unfold encode_str in E.
      repeat match type of E with
             | context [match ?c with Some _ => _ | None => _ end] => destruct c
             | context [if ?c then _ else _] => destruct c
             end; try discriminate; inversion E; apply app_not_nil_l, app_not_nil_l, b128_not_nil.
  - cbn [encode] in E. inversion E; subst b. cbn [wf] in W. cbn [app].
    rewrite runL_unfold by congruence.
    now rewrite (step_encoded_float pb f tail W).
  - rewrite encode_list in E. apply wf_list in W as [[WL WFIT] WF].
    destruct (SIZE_LIMIT <? blen l) eqn:SL; [discriminate|].
    destruct (encode_all lim pb l) as [body|] eqn:EA; [|discriminate]. cbn [bind] in E. inversion E; subst b; clear E.
    rewrite <- !app_assoc. cbn [app]. rewrite runL_unfold by (apply app_not_nil_l, b128_not_nil).
    rewrite step_encoded_open by assumption. cbn zeta. rewrite open_frame.
    destruct (blen l =? 0) eqn:Z.
    + assert (l = []) by (destruct l; [reflexivity|rewrite blen_cons in Z; lia]). subst l.
      cbn in EA. inversion EA; subst body. reflexivity.
    + (* the elements, one after the other, into the open frame *)
      assert (G : forall rest done body,
                 Forall (fun e => wf lim e -> forall b, encode lim pb e = Ok b -> forall stack tail outs,
                           runL pb stack (b ++ tail) outs
                           = let '(s1, o1) := deliver stack outs e in runL pb s1 tail o1) rest ->
                 Forall (wf lim) rest -> encode_all lim pb rest = Ok body -> rest <> [] ->
                 blen done + blen rest = blen l ->
                 runL pb ((blen l, done) :: stack) (body ++ tail) outs
                 = let '(s1, o1) := deliver stack outs (SList (done ++ rest)) in runL pb s1 tail o1).
      { clear IH WF EA body. induction rest as [|x rest IHr]; intros done body FI FW EA NE LEN; [congruence|].
        inversion FI as [|? ? Hx FI']; subst. inversion FW as [|? ? Wx FW']; subst.
        cbn [encode_all] in EA. destruct (encode lim pb x) as [bx|] eqn:Ex; [|discriminate].
        remember (encode_all lim pb rest) as ea eqn:Er in EA. symmetry in Er.
        destruct ea as [br|]; [|discriminate]. cbn [bind] in EA.
        inversion EA; subst body; clear EA. rewrite <- app_assoc.
        rewrite (Hx Wx bx eq_refl). rewrite deliver_frame.
        rewrite blen_cons in LEN.
        destruct rest as [|y rest].
        - change (blen (@nil sexp)) with 0 in LEN.
          replace (blen (done ++ [x]) =? blen l) with true by (rewrite blen_app; change (blen [x]) with 1; lia).
          cbn in Er. inversion Er; subst br. reflexivity.
        - replace (blen (done ++ [x]) =? blen l) with false.
          2:{ rewrite blen_app. change (blen [x]) with 1. rewrite blen_cons in LEN. lia. }
          rewrite (IHr (done ++ [x]) br FI' FW' Er ltac:(congruence)).
          + now rewrite <- app_assoc.
          + rewrite blen_app. change (blen [x]) with 1. rewrite blen_cons in LEN |- *. lia. }
      apply (G l [] body IH WF EA); [destruct l; [cbn in Z; lia|congruence]|cbn; lia].
Qed.

(** a stream of expressions *)
Lemma run_encoded_all pb : forall es b, Forall (wf lim) es -> encode_all lim pb es = Ok b -> forall outs,
  runL pb [] b outs = mkResult [] [] (outs ++ es) None true.
Proof.
  induction es as [|e es IH]; intros b W E outs.
  - cbn in E. inversion E. rewrite app_nil_r. reflexivity.
  - inversion W as [|? ? We Wes]; subst. cbn [encode_all] in E.
    destruct (encode lim pb e) as [be|] eqn:Ee; [|discriminate].
    destruct (encode_all lim pb es) as [bes|] eqn:Ees; [|discriminate]. cbn [bind] in E. inversion E; subst b.
    rewrite (run_encoded pb e We be Ee [] bes outs). rewrite deliver_nil.
    rewrite (IH bes Wes eq_refl). now rewrite <- app_assoc.
Qed.

(** the encoder accepts exactly the well-formed expressions *)
Lemma encode_total pb e : wf lim e -> exists b, encode lim pb e = Ok b.
Proof. clear LIM.
  induction e as [z|s|f|l IH] using sexp_ind2; intros W.
  - cbn [wf] in W. cbn [encode]. unfold encode_int.
    destruct ((z <? - (largest_long lim)) || (z >? (largest_long lim)))%Z eqn:R; [lia|].
    repeat match goal with |- context [if ?c then _ else _] => destruct c end; eauto.
  - cbn [wf] in W. cbn [encode]. unfold encode_str.
    destruct (if pb then vocab_id s else None); [eauto|].
    destruct (SIZE_LIMIT <? blen s) eqn:L; [lia|eauto].
  - cbn [encode]. eauto.
  - apply wf_list in W as [[WL WFIT] WF]. rewrite encode_list.
    destruct (SIZE_LIMIT <? blen l) eqn:L; [lia|].
    assert (exists body, encode_all lim pb l = Ok body) as [body EB].
    { clear WL L WFIT. induction WF as [|x r Wx Wr IHr]; [eexists; reflexivity|].
      inversion IH as [|? ? Hx Hr]; subst. destruct (Hx Wx) as [bx Ex]. destruct (IHr Hr) as [br Er].
      cbn [encode_all]. rewrite Ex, Er. eexists; reflexivity. }
    rewrite EB. eexists; reflexivity.
Qed.

(** an integer is sent iff it needs at most [lim] base-128 digits *)
Lemma int_encodable_iff_digits pb z :
  (exists b, encode lim pb (SInt z) = Ok b) <-> blen (b128 (Z.abs_N z)) <= lim.
Proof.
  rewrite (b128_fits_iff lim (Z.abs_N z) LIM). split.
  - intros [b E]. cbn [encode] in E. unfold encode_int in E. rewrite largest_long_pow in E.
    destruct ((z <? - (Z.of_N (128 ^ lim) - 1)) || (z >? Z.of_N (128 ^ lim) - 1))%Z eqn:R; [discriminate|]. lia.
  - intros H. apply encode_total. cbn [wf]. rewrite largest_long_pow. lia.
Qed.

Lemma encode_refuses_int pb z : (z < - (largest_long lim) \/ (largest_long lim) < z)%Z -> encode lim pb (SInt z) = Err ValueError.
Proof. clear LIM.
  intros H. cbn [encode]. unfold encode_int.
  destruct ((z <? - (largest_long lim)) || (z >? (largest_long lim)))%Z eqn:R; [reflexivity|lia].
Qed.

Lemma encode_refuses_long_list pb l : SIZE_LIMIT < blen l -> encode lim pb (SList l) = Err ValueError.
Proof. clear LIM. intros H. rewrite encode_list. destruct (SIZE_LIMIT <? blen l) eqn:L; [reflexivity|lia]. Qed.

Lemma encode_refuses_long_str s : SIZE_LIMIT < blen s -> encode lim false (SStr s) = Err ValueError.
Proof. clear LIM. intros H. cbn. unfold encode_str. destruct (SIZE_LIMIT <? blen s) eqn:L; [reflexivity|lia]. Qed.

(** refusal on decode *)
Lemma step_refuses_long_prefix pb digits tl :
  forallb (fun d => d <? 128) digits = true -> lim < blen digits ->
  (tl = [] \/ exists ty rest, tl = ty :: rest /\ 128 <= ty) ->
  step lim pb (digits ++ tl) = Fail ValueError.
Proof. clear LIM.
  intros D L [->|(ty & rest & -> & T)]; unfold step.
  - rewrite (span128_all_digits digits [] D). cbn [span128 fst snd]. rewrite app_nil_r.
    replace (lim <? blen digits) with true by lia. reflexivity.
  - rewrite (span128_digits digits ty rest D T). replace (lim <? blen digits) with true by lia. reflexivity.
Qed.

Lemma step_refuses_big_length pb digits ty rest :
  forallb (fun d => d <? 128) digits = true -> blen digits <= lim ->
  (ty = LIST \/ ty = STRING) -> SIZE_LIMIT < from_le128 digits ->
  step lim pb (digits ++ ty :: rest) = Fail ValueError.
Proof. clear LIM.
  intros D L T S. unfold step. rewrite (span128_digits digits ty rest D) by (destruct T; subst; unfold LIST, STRING; lia).
  replace (lim <? blen digits) with false by lia.
  destruct T; subst ty; tyconst;
    replace (SIZE_LIMIT <? from_le128 digits) with true by lia; reflexivity.
Qed.

(** ---------------------------------------------------------------- sender histories --- *)

Lemma encode_sequence_lemma pb es : encode_all lim pb (filter (accepts lim pb) es) = Ok (send_all lim pb es).
Proof. clear LIM.
  induction es as [|e r IH]; [reflexivity|].
  cbn [filter send_all]. unfold accepts at 1. destruct (encode lim pb e) as [b|x] eqn:E; [|exact IH].
  cbn [encode_all]. rewrite E, IH. reflexivity.
Qed.

Lemma sender_history pb es chunks :
  Forall (wf lim) (filter (accepts lim pb) es) -> concat chunks = send_all lim pb es -> Forall (fun c => c <> []) chunks ->
  let s := feed_all lim pb init chunks in
  st_outs s = filter (accepts lim pb) es /\ st_err s = None /\ st_stack s = [] /\ st_buf s = [].
Proof.
  intros W C F s.
  destruct (any_split pb chunks F) as (H1 & H2 & H3).
  rewrite C, feed_whole, (run_encoded_all pb _ _ W (encode_sequence_lemma pb es) []) in H1, H2, H3.
  cbn in H1, H2, H3. destruct (H3 H2) as [H4 H5]. subst s. auto.
Qed.

End Limit.

Example wf_example :
  wf 64 (SList [SInt (-5); SInt (2 ^ 447); SStr [108;105;115;116]; SFloat [64;9;33;251;84;68;45;24]; SList []; SList [SList [SInt 0]]])
  /\ wf 2 (SList [SInt 16383; SInt (-16383); SStr [1;2;3]]) /\ ~ wf 2 (SInt 16384).
Proof.
  unfold wf, largest_long, SIZE_LIMIT.
  change (7 * Z.of_N 64)%Z with 448%Z. change (7 * Z.of_N 2)%Z with 14%Z. change (2 ^ 14 - 1)%Z with 16383%Z.
  repeat split; try lia; try (vm_compute; reflexivity); try (vm_compute; discriminate).
Qed.

(** ---------------------------------------------------------------- statements as exported --- *)

Lemma roundtrip_any_split lim pb es b chunks :
  1 <= lim -> Forall (wf lim) es -> encode_all lim pb es = Ok b ->
  concat chunks = b -> Forall (fun c => c <> []) chunks ->
  let s := feed_all lim pb init chunks in
  st_outs s = es /\ st_err s = None /\ st_stack s = [] /\ st_buf s = [].
Proof.
  intros LIM W E C F s.
  destruct (any_split lim pb chunks F) as (H1 & H2 & H3).
  rewrite C, feed_whole, (run_encoded_all lim LIM pb es b W E []) in H1, H2, H3.
  cbn in H1, H2, H3. destruct (H3 H2) as [H4 H5]. subst s. auto.
Qed.

Lemma refusals_on_encode lim pb z l s :
  ((z < - largest_long lim \/ largest_long lim < z)%Z -> encode lim pb (SInt z) = Err ValueError) /\
  (SIZE_LIMIT < blen l -> encode lim pb (SList l) = Err ValueError) /\
  (SIZE_LIMIT < blen s -> encode lim false (SStr s) = Err ValueError).
Proof.
  exact (conj (encode_refuses_int lim pb z) (conj (encode_refuses_long_list lim pb l) (encode_refuses_long_str lim s))).
Qed.

Lemma refusals_on_decode lim pb digits :
  forallb (fun d => d <? 128) digits = true ->
  (lim < blen digits ->
     forall tl, (tl = [] \/ exists ty rest, tl = ty :: rest /\ 128 <= ty) ->
     step lim pb (digits ++ tl) = Fail ValueError) /\
  (blen digits <= lim -> SIZE_LIMIT < from_le128 digits ->
     forall ty rest, (ty = LIST \/ ty = STRING) -> step lim pb (digits ++ ty :: rest) = Fail ValueError).
Proof.
  intros D. split.
  - intros L tl T. exact (step_refuses_long_prefix lim pb digits tl D L T).
  - intros L S ty rest T. exact (step_refuses_big_length lim pb digits ty rest D L T S).
Qed.

Lemma fuel_ok_lemma lim pb stack buf outs : r_fuel_ok (run lim (length buf) pb stack buf outs) = true.
Proof. exact (runL_fuel_ok lim pb (length buf) stack buf outs (le_n _)). Qed.
