(** C23 proofs: invariants of the event machine over EVERY event history. *)
From Coq Require Import List NArith Bool Arith Lia.
From TwLib Require Import HttpClientBytes.
From C23 Require Import Model.
Import ListNotations.
Local Open Scope N_scope.

Record Inv (s : mstate) : Prop := mkInv {
  i_fired :
    (m_head s = false /\ m_gone s = false /\ m_fired s = [])
    \/ (m_head s = true /\ exists c, m_fired s = [FResponse c])
    \/ (m_head s = false /\ m_gone s = true /\ (m_fired s = [FFailed] \/ m_fired s = [FNever]));
  i_body : m_delivered s ++ m_buf s = m_received s;
  i_resp :
    match m_resp s with
    | RNone => m_head s = false /\ m_closed s = [] /\ m_asked s = false /\ m_delivered s = []
               /\ m_buf s = []
    | RInitial => m_head s = true /\ m_gone s = false /\ m_closed s = [] /\ m_asked s = false
                  /\ m_delivered s = []
    | RConnected => m_head s = true /\ m_gone s = false /\ m_closed s = [] /\ m_buf s = []
                    /\ m_asked s = true
    | RDeferredClose r => m_head s = true /\ m_gone s = true /\ m_closed s = []
                          /\ r = reason_of (m_frame s) (m_fin s) /\ m_asked s = false
                          /\ m_delivered s = []
    | RFinished => m_head s = true /\ m_gone s = true /\ m_buf s = [] /\ m_asked s = true
                   /\ m_closed s = [reason_of (m_frame s) (m_fin s)]
    end;
  i_fin : m_fin s = true -> m_gone s = true }.

Lemma inv_init : Inv init.
Proof. constructor; cbn; auto; try discriminate. Qed.

Ltac t :=
  cbn; auto;
  try (right; left; split; eauto; fail);
  try (right; right; repeat split; auto; match goal with |- context [if ?e then _ else _] => destruct e; auto end; fail);
  try (repeat split; auto; fail);
  try discriminate; try (intros; discriminate);
  try (rewrite ?app_nil_r in *; subst; auto; fail).

Lemma inv_step : forall s e, Inv s -> Inv (step s e).
Proof.
  intros [ever gone head fr fin resp buf fired deliv closed recv asked] e [Hf Hb Hr Hfin].
  cbn in *.
  destruct e as [ | code f | d | | | | ]; cbn [step disconnect body_finished m_gone m_head m_resp m_fin m_ever
    m_frame m_buf m_fired m_delivered m_closed m_received m_asked].
  - (* PRecv *) constructor; t.
  - (* PHead *)
    destruct gone, head; cbn [orb]; try (constructor; t; fail).
    destruct Hf as [(_ & _ & Hf) | [(Hx & _) | (_ & Hx & _)]]; try discriminate. subst fired.
    destruct resp; try (destruct Hr as (Hx & _); discriminate).
    destruct Hr as (_ & Hc & Ha & Hd & Hbuf). subst.
    destruct (immediate f) eqn:Ei.
    + constructor; t.
      repeat split; auto. unfold reason_of, frame_done. unfold immediate in Ei.
      destruct f; try discriminate; auto. now rewrite Ei.
    + constructor; t.
  - (* PData *)
    destruct gone; cbn [orb]; [constructor; t|].
    destruct head; cbn [negb orb]; [|constructor; t].
    destruct fin; [constructor; t|].
    destruct resp; try (constructor; t; fail).
    + destruct Hr as (H1 & H2 & H3 & H4 & H5). subst. constructor; t.
    + destruct Hr as (H1 & H2 & H3 & H4 & H5). subst. constructor; t.
  - (* PFinish *)
    destruct gone; cbn [orb]; [constructor; t|].
    destruct head; cbn [negb orb]; [|constructor; t].
    destruct Hf as [(Hx & _) | [(_ & Hf) | (Hx & _)]]; try discriminate.
    destruct resp; cbn.
    + destruct Hr as (Hx & _); discriminate.
    + destruct Hr as (H1 & H2 & H3 & H4 & H5). subst. constructor; t.
    + destruct Hr as (H1 & H2 & H3 & H4 & H5). subst. constructor; t.
    + destruct Hr as (_ & Hx & _); discriminate.
    + destruct Hr as (_ & Hx & _); discriminate.
  - (* PBad *)
    destruct gone; [constructor; t|].
    destruct head.
    + destruct Hf as [(Hx & _) | [(_ & Hf) | (Hx & _)]]; try discriminate.
      assert (Hfin' : fin = false) by (destruct fin; auto; specialize (Hfin eq_refl); discriminate).
      subst fin.
      destruct resp; cbn.
      * destruct Hr as (Hx & _); discriminate.
      * destruct Hr as (H1 & H2 & H3 & H4 & H5). subst. constructor; t.
      * destruct Hr as (H1 & H2 & H3 & H4 & H5). subst. constructor; t.
      * destruct Hr as (_ & Hx & _); discriminate.
      * destruct Hr as (_ & Hx & _); discriminate.
    + destruct Hf as [(_ & _ & Hf) | [(Hx & _) | (_ & Hx & _)]]; try discriminate. subst fired.
      destruct resp; try (destruct Hr as (Hx & _); discriminate).
      constructor; t.
  - (* PLost *)
    destruct gone; [constructor; t|].
    destruct head.
    + destruct Hf as [(Hx & _) | [(_ & Hf) | (Hx & _)]]; try discriminate.
      assert (Hfin' : fin = false) by (destruct fin; auto; specialize (Hfin eq_refl); discriminate).
      subst fin.
      destruct resp; cbn.
      * destruct Hr as (Hx & _); discriminate.
      * destruct Hr as (H1 & H2 & H3 & H4 & H5). subst. constructor; t.
      * destruct Hr as (H1 & H2 & H3 & H4 & H5). subst. constructor; t.
      * destruct Hr as (_ & Hx & _); discriminate.
      * destruct Hr as (_ & Hx & _); discriminate.
    + destruct Hf as [(_ & _ & Hf) | [(Hx & _) | (_ & Hx & _)]]; try discriminate. subst fired.
      destruct resp; try (destruct Hr as (Hx & _); discriminate).
      constructor; t.
  - (* UDeliver *)
    destruct resp; try (constructor; t; fail).
    + destruct Hr as (H1 & H2 & H3 & H4 & H5). subst. constructor; t.
    + destruct Hr as (H1 & H2 & H3 & H4 & H5 & H6). subst. constructor; t.
Qed.

Lemma fold_inv : forall evs s, Inv s -> Inv (fold_left step evs s).
Proof. induction evs as [|e evs IH]; intros s H; [assumption|]. cbn. apply IH. now apply inv_step. Qed.

Lemma inv_run : forall evs, Inv (run evs).
Proof. intro evs. apply fold_inv. apply inv_init. Qed.

(** [m_gone] is monotone and set by PLost / PBad *)
Lemma gone_step : forall s e, m_gone s = true -> m_gone (step s e) = true.
Proof.
  intros s e H. destruct e; cbn [step]; unfold disconnect, body_finished; rewrite ?H; cbn [orb]; auto;
    repeat match goal with
           | |- context [match ?x with _ => _ end] => destruct x; cbn; auto
           end.
Qed.

Lemma gone_fold : forall evs s, m_gone s = true -> m_gone (fold_left step evs s) = true.
Proof. induction evs as [|e evs IH]; intros s H; [assumption|]. cbn. apply IH. now apply gone_step. Qed.

Lemma disconnect_gone : forall s, m_gone (disconnect s) = true.
Proof.
  intro s. unfold disconnect, body_finished. destruct (m_gone s) eqn:E; [assumption|].
  destruct (m_head s); cbn; auto. destruct (m_resp s); cbn; auto.
Qed.

Lemma lost_gone : forall evs, (In PLost evs \/ In PBad evs) -> m_gone (run evs) = true.
Proof.
  intros evs H. unfold run. generalize init.
  induction evs as [|e evs IH]; intros s; [destruct H as [[]|[]]|].
  cbn [fold_left].
  destruct H as [[H | H] | [H | H]].
  - subst e. apply gone_fold. apply disconnect_gone.
  - apply IH. now left.
  - subst e. apply gone_fold. apply disconnect_gone.
  - apply IH. now right.
Qed.

(** * request_deferred_fires_once *)
Lemma fires_once : forall evs,
  (length (m_fired (run evs)) <= 1)%nat
  /\ ((In PLost evs \/ In PBad evs) -> length (m_fired (run evs)) = 1%nat)
  /\ (m_head (run evs) = true <-> exists c, m_fired (run evs) = [FResponse c]).
Proof.
  intro evs. pose proof (inv_run evs) as [Hf _ _ _].
  repeat split.
  - destruct Hf as [(_ & _ & H) | [(_ & c & H) | (_ & _ & [H | H])]]; rewrite H; cbn; lia.
  - intro Hl. apply lost_gone in Hl.
    destruct Hf as [(_ & Hg & _) | [(_ & c & H) | (_ & _ & [H | H])]]; try (rewrite H; reflexivity).
    congruence.
  - intro Hh. destruct Hf as [(Hx & _) | [(_ & H) | (Hx & _)]]; try congruence; try exact H.
  - intros (c & Hc). destruct Hf as [(_ & _ & H) | [(H & _) | (_ & _ & [H | H])]]; try congruence.
Qed.

(** * body_delivered_equals_body_received *)
Lemma body_exact : forall evs,
  let s := run evs in
  m_delivered s ++ m_buf s = m_received s
  /\ (m_closed s <> [] -> m_delivered s = m_received s)
  /\ (m_asked s = true -> m_delivered s = m_received s).
Proof.
  intros evs s. pose proof (inv_run evs) as [_ Hb Hr _]. fold s in Hb, Hr.
  split; [assumption|]. split.
  - intro Hc. destruct (m_resp s); try (destruct Hr as (_ & _ & Hx & _); congruence).
    + destruct Hr as (_ & Hx & _); congruence.
    + destruct Hr as (_ & _ & Hx & _). rewrite Hx, app_nil_r in Hb. assumption.
  - intro Ha. destruct (m_resp s).
    + destruct Hr as (_ & _ & Hx & _); congruence.
    + destruct Hr as (_ & _ & _ & Hx & _); congruence.
    + destruct Hr as (_ & _ & _ & Hx & _). rewrite Hx, app_nil_r in Hb. assumption.
    + destruct Hr as (_ & _ & _ & _ & Hx & _); congruence.
    + destruct Hr as (_ & _ & Hx & _). rewrite Hx, app_nil_r in Hb. assumption.
Qed.

(** * consumer_connectionLost_once_with_classified_reason *)
Lemma closed_once : forall evs,
  let s := run evs in
  (length (m_closed s) <= 1)%nat
  /\ (forall r, In r (m_closed s) -> r = reason_of (m_frame s) (m_fin s))
  /\ (m_head s = true -> m_gone s = true -> m_asked s = true -> length (m_closed s) = 1%nat)
  /\ (m_asked s = false -> m_closed s = []).
Proof.
  intros evs s. pose proof (inv_run evs) as [_ _ Hr _]. fold s in Hr.
  destruct (m_resp s); repeat split; intros;
    repeat match goal with H : _ /\ _ |- _ => destruct H end;
    try match goal with H : m_closed s = _ |- _ => rewrite H in * end;
    cbn in *; try lia; try congruence; try contradiction; try tauto.
  destruct H as [H | []]. now subst.
Qed.

Lemma reason_table : forall f fin,
  reason_of f fin =
  match f with
  | FClose => RPotentialDataLoss
  | FNoBody => RDone
  | FLen n => if N.eqb n 0 || fin then RDone else RFailed
  | FChunked => if fin then RDone else RFailed
  end.
Proof. intros [| n | |] fin; reflexivity. Qed.
