(** C23: the three local facts about [pstep] that make the parser a framed receiver (Lib/Seg.v),
    hence segmentation-invariant and prefix-monotone. *)
From Coq Require Import List NArith Bool Arith Lia.
From TwLib Require Import HttpClientBytes Seg.
From C23 Require Import Model.
Import ListNotations.
Local Open Scope N_scope.

Lemma split_at_stable : forall x b c a r,
  split_at x b = Some (a, r) -> split_at x (b ++ c) = Some (a, r ++ c).
Proof.
  induction b as [|y b IH]; intros c a r H; [discriminate|].
  cbn [split_at app] in *. destruct (y =? x).
  - inversion H; subst. reflexivity.
  - destruct (split_at x b) as [[a' r']|] eqn:E; [|discriminate].
    inversion H; subst. now rewrite (IH c a' r eq_refl).
Qed.

Lemma split_at_shrinks : forall x b a r,
  split_at x b = Some (a, r) -> (length r < length b)%nat.
Proof.
  induction b as [|y b IH]; intros a r H; [discriminate|].
  cbn [split_at] in H. destruct (y =? x).
  - inversion H; subst. cbn. lia.
  - destruct (split_at x b) as [[a' r']|] eqn:E; [|discriminate].
    inversion H; subst. specialize (IH a' r eq_refl). cbn. lia.
Qed.

Lemma split_crlf_cons2 : forall y z r,
  split_crlf (y :: z :: r) =
  if (y =? 13) && (z =? 10) then Some ([], r)
  else match split_crlf (z :: r) with Some (a, b) => Some (y :: a, b) | None => None end.
Proof. reflexivity. Qed.

Lemma split_crlf_stable : forall b c a r,
  split_crlf b = Some (a, r) -> split_crlf (b ++ c) = Some (a, r ++ c).
Proof.
  induction b as [|y b IH]; intros c a r H; [discriminate|].
  destruct b as [|z b']; [discriminate|].
  change ((y :: z :: b') ++ c) with (y :: z :: (b' ++ c)).
  rewrite split_crlf_cons2 in *.
  destruct ((y =? 13) && (z =? 10)).
  - inversion H; subst. reflexivity.
  - change (z :: b' ++ c) with ((z :: b') ++ c).
    destruct (split_crlf (z :: b')) as [[a' r']|] eqn:E; [|discriminate H].
    inversion H; subst; clear H. now rewrite (IH c _ _ eq_refl).
Qed.

Lemma split_crlf_shrinks : forall b a r,
  split_crlf b = Some (a, r) -> (length r < length b)%nat.
Proof.
  induction b as [|y b IH]; intros a r H; [discriminate|].
  destruct b as [|z b']; [discriminate|].
  rewrite split_crlf_cons2 in H.
  destruct ((y =? 13) && (z =? 10)).
  - inversion H; subst. cbn. lia.
  - destruct (split_crlf (z :: b')) as [[a' r']|] eqn:E; [|discriminate H].
    inversion H; subst; clear H. specialize (IH _ _ eq_refl). cbn in *. lia.
Qed.

Section Facts.
  Variable hm : bool.

  Lemma pstep_shrinks : forall x b ev x' r, pstep hm x b = Emit ev x' r -> (length r < length b)%nat.
  Proof.
    intros x b ev x' r H. destruct x; cbn [pstep] in H.
    - destruct (split_at 10 b) as [[a rest]|] eqn:E; [|discriminate].
      destruct (status_code (strip_cr a)); inversion H; subst. eapply split_at_shrinks; eauto.
    - destruct (split_at 10 b) as [[a rest]|] eqn:E; [|discriminate].
      apply split_at_shrinks in E.
      destruct (is_lws (strip_cr a)).
      + destruct partial; inversion H; subst; assumption.
      + destruct (flush hm partial te cl) as [[te' cl']|]; [|discriminate].
        destruct (is_nil (strip_cr a)).
        * destruct ((100 <=? code) && (code <? 200)); [inversion H; subst; assumption|].
          destruct (choose_framing hm code te' cl'); inversion H; subst; assumption.
        * inversion H; subst; assumption.
    - destruct b as [|c r0]; [discriminate|]. destruct (n <=? 1); inversion H; subst; cbn; lia.
    - destruct b as [|c r0]; [discriminate|]. inversion H; subst; cbn; lia.
    - destruct (split_crlf b) as [[sz rest]|] eqn:E; [|discriminate].
      apply split_crlf_shrinks in E.
      destruct (chunk_size sz) as [n|]; [|discriminate].
      destruct (n =? 0); inversion H; subst; assumption.
    - destruct b as [|c r0]; [discriminate|]. inversion H; subst; cbn; lia.
    - destruct b as [|c [|d r0]]; try discriminate.
      destruct ((c =? 13) && (d =? 10)); inversion H; subst; cbn; lia.
    - destruct (split_crlf b) as [[line rest]|] eqn:E; [|discriminate].
      apply split_crlf_shrinks in E.
      destruct (is_nil line); inversion H; subst; assumption.
    - discriminate.
  Qed.

  Lemma pstep_emit_stable : forall x b c ev x' r,
    pstep hm x b = Emit ev x' r -> pstep hm x (b ++ c) = Emit ev x' (r ++ c).
  Proof.
    intros x b c ev x' r H. destruct x; cbn [pstep] in *.
    - destruct (split_at 10 b) as [[a rest]|] eqn:E; [|discriminate].
      rewrite (split_at_stable _ _ c _ _ E).
      destruct (status_code (strip_cr a)); inversion H; subst. reflexivity.
    - destruct (split_at 10 b) as [[a rest]|] eqn:E; [|discriminate].
      rewrite (split_at_stable _ _ c _ _ E).
      destruct (is_lws (strip_cr a)).
      + destruct partial; inversion H; subst; reflexivity.
      + destruct (flush hm partial te cl) as [[te' cl']|]; [|discriminate].
        destruct (is_nil (strip_cr a)).
        * destruct ((100 <=? code) && (code <? 200)); [inversion H; subst; reflexivity|].
          destruct (choose_framing hm code te' cl'); inversion H; subst; reflexivity.
        * inversion H; subst; reflexivity.
    - destruct b as [|y r0]; [discriminate|]. cbn [app].
      destruct (n <=? 1); inversion H; subst; reflexivity.
    - destruct b as [|y r0]; [discriminate|]. cbn [app]. inversion H; subst; reflexivity.
    - destruct (split_crlf b) as [[sz rest]|] eqn:E; [|discriminate].
      rewrite (split_crlf_stable _ c _ _ E).
      destruct (chunk_size sz) as [n|]; [|discriminate].
      destruct (n =? 0); inversion H; subst; reflexivity.
    - destruct b as [|y r0]; [discriminate|]. cbn [app]. inversion H; subst; reflexivity.
    - destruct b as [|y [|d r0]]; try discriminate. cbn [app].
      destruct ((y =? 13) && (d =? 10)); inversion H; subst; reflexivity.
    - destruct (split_crlf b) as [[line rest]|] eqn:E; [|discriminate].
      rewrite (split_crlf_stable _ c _ _ E).
      destruct (is_nil line); inversion H; subst; reflexivity.
    - discriminate.
  Qed.

  Lemma pstep_fail_stable : forall x b c ev,
    pstep hm x b = Fail ev -> pstep hm x (b ++ c) = Fail ev.
  Proof.
    intros x b c ev H. destruct x; cbn [pstep] in *.
    - destruct (split_at 10 b) as [[a rest]|] eqn:E; [|discriminate].
      rewrite (split_at_stable _ _ c _ _ E).
      destruct (status_code (strip_cr a)); [discriminate | assumption].
    - destruct (split_at 10 b) as [[a rest]|] eqn:E; [|discriminate].
      rewrite (split_at_stable _ _ c _ _ E).
      destruct (is_lws (strip_cr a)).
      + destruct partial; [discriminate | assumption].
      + destruct (flush hm partial te cl) as [[te' cl']|]; [|assumption].
        destruct (is_nil (strip_cr a)).
        * destruct ((100 <=? code) && (code <? 200)); [discriminate|].
          destruct (choose_framing hm code te' cl'); [discriminate | assumption].
        * discriminate.
    - destruct b as [|y r0]; [discriminate|]. destruct (n <=? 1); discriminate.
    - destruct b as [|y r0]; discriminate.
    - destruct (split_crlf b) as [[sz rest]|] eqn:E; [|discriminate].
      rewrite (split_crlf_stable _ c _ _ E).
      destruct (chunk_size sz) as [n|]; [|assumption].
      destruct (n =? 0); discriminate.
    - destruct b as [|y r0]; discriminate.
    - destruct b as [|y [|d r0]]; try discriminate. cbn [app].
      destruct ((y =? 13) && (d =? 10)); [discriminate | assumption].
    - destruct (split_crlf b) as [[line rest]|] eqn:E; [|discriminate].
      destruct (is_nil line); discriminate.
    - discriminate.
  Qed.

  (** the parser sees the same events and ends in the same state however the stream is cut *)
  Theorem parse_all_chunkings : forall cs s,
    chunks cs s -> Seg.run (pfeed hm) pinit cs = parse hm MStatus s.
  Proof.
    intros cs s Hc. unfold pfeed, pinit, parse.
    apply framed_all_chunkings; try assumption; try reflexivity.
    - exact pstep_shrinks.
    - exact pstep_emit_stable.
    - exact pstep_fail_stable.
  Qed.

  Corollary parser_events_whole : forall cs, parser_events hm cs = whole_events hm (concat cs).
  Proof. intro cs. unfold parser_events, whole_events. now rewrite (parse_all_chunkings cs (concat cs) eq_refl). Qed.

  (** what the parser has emitted for a prefix of the stream is a prefix of what it emits for the stream *)
  Theorem whole_events_monotone : forall a b, exists more, whole_events hm (a ++ b) = whole_events hm a ++ more.
  Proof.
    intros a b. unfold whole_events, parse.
    apply events_monotone.
    - apply framed_prefix_stable; [exact pstep_shrinks | exact pstep_emit_stable].
    - apply framed_close_stable; [exact pstep_shrinks | exact pstep_emit_stable | exact pstep_fail_stable].
  Qed.

  (** splitting the deliveries in two (the application acts in between) *)
  Lemma run_split : forall cs1 cs2,
    let '(e1, s1) := Seg.run (pfeed hm) pinit cs1 in
    let '(e2, s2) := Seg.run (pfeed hm) s1 cs2 in
    Seg.run (pfeed hm) pinit (cs1 ++ cs2) = (e1 ++ e2, s2).
  Proof.
    intros cs1. generalize (pinit).
    induction cs1 as [|c cs1 IH]; intros s0 cs2.
    - cbn. destruct (Seg.run (pfeed hm) s0 cs2). reflexivity.
    - cbn [Seg.run app]. destruct (pfeed hm s0 c) as [e0 s0'].
      specialize (IH s0' cs2).
      destruct (Seg.run (pfeed hm) s0' cs1) as [e1 s1].
      destruct (Seg.run (pfeed hm) s1 cs2) as [e2 s2].
      rewrite IH. now rewrite app_assoc.
  Qed.
End Facts.
