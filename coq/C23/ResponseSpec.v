(** C23 Spec: HTTP/1.1 responses as a sender writes them (RFC 9112: status-line, field lines,
    message body length 6.3, chunked coding 7.1), described structurally, and the parser events a
    correct client must derive from them.  Independent of the parser model.  No proofs here. *)
From Coq Require Import List NArith Bool.
From TwLib Require Import HttpClientBytes.
From C23 Require Import Model.
Import ListNotations.
Local Open Scope N_scope.

Inductive rbody :=
| BNone                          (* no body: response to HEAD, or 204 / 304 *)
| BLen (body : bytes)            (* Content-Length: |body| *)
| BChunked (chunks : list bytes) (* Transfer-Encoding: chunked; the chunks, each non-empty *)
| BClose (body : bytes).         (* neither: the body ends with the connection *)

Record response := mkResp {
  r_interim : list (N * list (bytes * bytes));
                                 (* interim (1xx) responses sent first: status code and header lines -
                                    ANY header lines, framing headers included; they belong to the interim
                                    response and are discarded with it (RFC 9110 15.2) *)
  r_code : N;
  r_phrase : bytes;
  r_headers : list (bytes * bytes);
  r_body : rbody }.

Definition status_line (c : N) (phrase : bytes) : bytes :=
  HTTP11 ++ 32 :: show_dec c ++ 32 :: phrase ++ [13; 10].
Definition header_line (h : bytes * bytes) : bytes := fst h ++ 58 :: snd h ++ [13; 10].
Definition interim_bytes (i : N * list (bytes * bytes)) : bytes :=
  status_line (fst i) [] ++ concat (map header_line (snd i)) ++ [13; 10].
Definition chunk (d : bytes) : bytes := show_hexN (lenN d) ++ [13; 10] ++ d ++ [13; 10].
Definition last_chunk : bytes := [48; 13; 10; 13; 10].

Definition CL_PREFIX : bytes :=   (* "Content-Length: " *)
  [67; 111; 110; 116; 101; 110; 116; 45; 76; 101; 110; 103; 116; 104; 58; 32].
Definition TE_LINE : bytes :=     (* "Transfer-Encoding: chunked\r\n" *)
  [84; 114; 97; 110; 115; 102; 101; 114; 45; 69; 110; 99; 111; 100; 105; 110; 103; 58; 32;
   99; 104; 117; 110; 107; 101; 100; 13; 10].

Definition framing_lines (b : rbody) : bytes :=
  match b with
  | BLen body => CL_PREFIX ++ show_dec (lenN body) ++ [13; 10]
  | BChunked _ => TE_LINE
  | _ => []
  end.

Definition body_bytes (b : rbody) : bytes :=
  match b with
  | BNone => []
  | BLen body => body
  | BChunked cs => concat (map chunk cs) ++ last_chunk
  | BClose body => body
  end.

Definition serialize (r : response) : bytes :=
  concat (map interim_bytes (r_interim r))
  ++ status_line (r_code r) (r_phrase r)
  ++ concat (map header_line (r_headers r))
  ++ framing_lines (r_body r) ++ [13; 10] ++ body_bytes (r_body r).

Definition no_body_status (hm : bool) (c : N) : bool := (c =? 204) || (c =? 304) || hm.

(** well-formed for a request whose method is HEAD iff [hm] *)
Definition wf_response (hm : bool) (r : response) : Prop :=
  Forall (fun i => 100 <= fst i < 200
                   /\ Forall (fun h => is_token (lower (fst h)) = true /\ ~ In 10 (snd h)) (snd i)) (r_interim r)
  /\ (r_code r < 100 \/ 200 <= r_code r)
  /\ ~ In 10 (r_phrase r)
  /\ Forall (fun h => is_token (lower (fst h)) = true
                      /\ eqb_bytes (lower (fst h)) H_TE = false
                      /\ eqb_bytes (lower (fst h)) H_CL = false
                      /\ ~ In 10 (snd h)) (r_headers r)
  /\ match r_body r with
     | BNone => no_body_status hm (r_code r) = true
     | BLen _ | BClose _ => no_body_status hm (r_code r) = false
     | BChunked cs => no_body_status hm (r_code r) = false /\ Forall (fun d => d <> []) cs
     end.

(** what a correct client reads from [serialize r ++ extra] *)
Definition expected_reading (r : response) (extra : bytes) : list ev :=
  let data := map (fun c => PData [c]) in
  match r_body r with
  | BNone => [PHead (r_code r) FNoBody]
  | BLen body => PHead (r_code r) (FLen (lenN body)) :: data body
                 ++ (match body with [] => [] | _ => [PFinish] end)
  | BChunked cs => PHead (r_code r) FChunked :: data (concat cs) ++ [PFinish]
  | BClose body => PHead (r_code r) FClose :: data (body ++ extra)
  end.
