(** C23: the parser model reads a well-formed response (ResponseSpec.v) back as exactly the
    intended events, whatever follows it; with prefix monotonicity this pins what is read from
    every truncation of it. *)
From Coq Require Import List NArith Bool Arith Lia.
From TwLib Require Import HttpClientBytes Seg.
From C23 Require Import Model Proofs ParserFacts SessionFacts ResponseSpec.
Import ListNotations.
Local Open Scope N_scope.

(** * small facts about bytes *)
Lemma strip_cr_snoc : forall l, strip_cr (l ++ [13]) = l.
Proof.
  induction l as [|a l IH]; [reflexivity|].
  change ((a :: l) ++ [13]) with (a :: (l ++ [13])).
  destruct (l ++ [13]) as [|b r] eqn:E; [destruct l; discriminate|].
  change (strip_cr (a :: b :: r)) with (a :: strip_cr (b :: r)). now rewrite IH.
Qed.

Lemma not_In_app : forall (c : N) a b, ~ In c a -> ~ In c b -> ~ In c (a ++ b).
Proof. intros c a b Ha Hb H. apply in_app_or in H. tauto. Qed.

Lemma dec_not : forall n c, (c < 48 \/ 57 < c) -> ~ In c (show_dec n).
Proof. intros n c Hc H. apply show_dec_digits in H. lia. Qed.

Lemma hex_bytes_chars : forall u c, In c (hex_bytes u) -> (48 <= c <= 57) \/ (97 <= c <= 102).
Proof.
  induction u; cbn [hex_bytes]; intros c H; try easy;
    (destruct H as [H | H]; [subst; lia | now apply IHu]).
Qed.

Lemma hex_not : forall n c, (c < 48 \/ (57 < c /\ c < 97) \/ 102 < c) -> ~ In c (show_hexN n).
Proof. intros n c Hc H. apply hex_bytes_chars in H. lia. Qed.

Lemma token_lower_excludes : forall n c,
  is_token (lower n) = true -> is_tchar (lower1 c) = false -> ~ In c n.
Proof.
  intros n c Ht Hc Hin. unfold is_token in Ht. apply andb_true_iff in Ht. destruct Ht as [_ Ht].
  rewrite forallb_forall in Ht. specialize (Ht (lower1 c)).
  rewrite Hc in Ht. assert (In (lower1 c) (lower n)) by (unfold lower; now apply in_map).
  specialize (Ht H). discriminate.
Qed.

Lemma token_lower_nonempty : forall n, is_token (lower n) = true -> n <> [].
Proof. intros [|a n] H; [discriminate | discriminate]. Qed.

Lemma digits_lstrip : forall l, (forall c, In c l -> 48 <= c <= 57) -> lstrip l = l.
Proof.
  intros [|c l] H; [reflexivity|]. cbn [lstrip]. unfold is_space.
  specialize (H c (or_introl eq_refl)).
  assert (E1 : c =? 32 = false) by (apply N.eqb_neq; lia).
  assert (E2 : c <=? 13 = false) by (apply N.leb_gt; lia).
  now rewrite E1, E2, andb_false_r.
Qed.

Lemma strip_sp_digits : forall l, (forall c, In c l -> 48 <= c <= 57) -> strip (32 :: l) = l.
Proof.
  intros l H. unfold strip. change (lstrip (32 :: l)) with (lstrip l).
  rewrite (digits_lstrip l H). rewrite digits_lstrip.
  - apply rev_involutive.
  - intros c Hc. apply in_rev in Hc. auto.
Qed.

Lemma trim_digits : forall l, (forall c, In c l -> 48 <= c <= 57) -> trim_ows l = l.
Proof.
  intros l H.
  assert (Hd : forall l, (forall c, In c l -> 48 <= c <= 57) -> drop_ows l = l).
  { intros [|c l0] H0; [reflexivity|]. cbn [drop_ows]. unfold is_ows.
    specialize (H0 c (or_introl eq_refl)).
    assert (c =? 32 = false) by (apply N.eqb_neq; lia).
    assert (c =? 9 = false) by (apply N.eqb_neq; lia).
    now rewrite H1, H2. }
  unfold trim_ows. rewrite (Hd l H). rewrite Hd.
  - apply rev_involutive.
  - intros c Hc. apply in_rev in Hc. auto.
Qed.

Lemma split_commas_none : forall l, ~ In 44 l -> split_commas l = [l].
Proof.
  induction l as [|c l IH]; intro H; [reflexivity|].
  cbn [split_commas]. assert (c =? 44 = false) by (apply N.eqb_neq; intro; subst; apply H; now left).
  rewrite H0, IH; [reflexivity|]. intro; apply H; now right.
Qed.

Section ReadBack.
  Variable hm : bool.

  Lemma parse_emit : forall x b ev x' r,
    pstep hm x b = Emit ev x' r ->
    parse hm x b = (ev ++ fst (parse hm x' r), snd (parse hm x' r)).
  Proof.
    intros x b ev x' r H. rewrite parse_unfold, H. destruct (parse hm x' r); reflexivity.
  Qed.

  Lemma parse_done : forall b, parse hm MDone b = ([], Some (MDone, b)).
  Proof. intro b. rewrite parse_unfold. reflexivity. Qed.

  (** ** status line *)
  Lemma status_code_line : forall c p, status_code (HTTP11 ++ 32 :: show_dec c ++ 32 :: p) = Some c.
  Proof.
    intros c p. unfold status_code.
    rewrite split_at_app by (cbn; intuition discriminate).
    rewrite split_at_app by (apply dec_not; lia).
    rewrite read_show_dec. unfold version_ok. now rewrite eqb_bytes_refl.
  Qed.

  Lemma parse_status : forall c p rest,
    ~ In 10 p ->
    parse hm MStatus (status_line c p ++ rest) = parse hm (MHeaders c None [] []) rest.
  Proof.
    intros c p rest Hp.
    assert (E : status_line c p ++ rest
                = ((HTTP11 ++ 32 :: show_dec c ++ 32 :: p) ++ [13]) ++ 10 :: rest).
    { unfold status_line. repeat (rewrite <- app_assoc; cbn [app]). reflexivity. }
    rewrite E. erewrite parse_emit.
    2:{ cbn [pstep]. rewrite split_at_app.
        - rewrite strip_cr_snoc, status_code_line. reflexivity.
        - apply not_In_app; [|cbn; intuition discriminate].
          apply not_In_app; [cbn; intuition discriminate|].
          intros [H | H]; [discriminate|]. apply in_app_or in H. destruct H as [H | H].
          + revert H. apply dec_not. lia.
          + destruct H as [H | H]; [discriminate | contradiction]. }
    cbn [app]. now destruct (parse hm (MHeaders c None [] []) rest).
  Qed.

  (** ** field lines *)
  Definition line_ok (h : bytes * bytes) : Prop := is_token (lower (fst h)) = true /\ ~ In 10 (snd h).
  Definition neutral (P : option bytes) : Prop := forall te cl, flush hm P te cl = Some (te, cl).

  Lemma neutral_none : neutral None.
  Proof. intros te cl. reflexivity. Qed.

  Lemma flush_line : forall n v te cl,
    is_token (lower n) = true ->
    flush hm (Some (n ++ 58 :: v)) te cl =
    if eqb_bytes (lower n) H_TE then Some (te ++ [strip v], cl)
    else if eqb_bytes (lower n) H_CL && negb hm then Some (te, cl ++ [strip v])
    else Some (te, cl).
  Proof.
    intros n v te cl Ht. unfold flush.
    rewrite split_at_app by (eapply token_lower_excludes; eauto).
    now rewrite Ht.
  Qed.

  Lemma neutral_header : forall h,
    is_token (lower (fst h)) = true -> eqb_bytes (lower (fst h)) H_TE = false ->
    eqb_bytes (lower (fst h)) H_CL = false -> neutral (Some (fst h ++ 58 :: snd h)).
  Proof. intros [n v] Ht H1 H2 te cl. cbn [fst snd] in *. rewrite flush_line by assumption. now rewrite H1, H2. Qed.

  Lemma parse_header : forall c P te cl h rest,
    line_ok h -> neutral P ->
    parse hm (MHeaders c P te cl) (header_line h ++ rest)
    = parse hm (MHeaders c (Some (fst h ++ 58 :: snd h)) te cl) rest.
  Proof.
    intros c P te cl [n v] rest [Ht Hv] HP. cbn [fst snd] in *.
    assert (E : header_line (n, v) ++ rest = ((n ++ 58 :: v) ++ [13]) ++ 10 :: rest).
    { unfold header_line. cbn [fst snd]. repeat (rewrite <- app_assoc; cbn [app]). reflexivity. }
    rewrite E. erewrite parse_emit.
    2:{ cbn [pstep]. rewrite split_at_app.
        - rewrite strip_cr_snoc.
          pose proof (token_lower_nonempty n Ht) as Hne.
          destruct n as [|a n']; [contradiction|].
          assert (Ha : is_lws ((a :: n') ++ 58 :: v) = false).
          { cbn [app is_lws].
            assert (a <> 32) by (intro; subst; eapply (token_lower_excludes (32 :: n') 32); eauto; now left).
            assert (a <> 9) by (intro; subst; eapply (token_lower_excludes (9 :: n') 9); eauto; now left).
            apply N.eqb_neq in H, H0. now rewrite H, H0. }
          rewrite Ha, HP. reflexivity.
        - apply not_In_app; [|cbn; intuition discriminate].
          apply not_In_app; [eapply token_lower_excludes; eauto|].
          intros [H | H]; [discriminate | contradiction]. }
    cbn [app]. now destruct (parse hm _ rest).
  Qed.

  Lemma parse_headers : forall hs c P te cl rest,
    Forall (fun h => is_token (lower (fst h)) = true /\ eqb_bytes (lower (fst h)) H_TE = false
                     /\ eqb_bytes (lower (fst h)) H_CL = false /\ ~ In 10 (snd h)) hs ->
    neutral P ->
    exists P', neutral P' /\
      parse hm (MHeaders c P te cl) (concat (map header_line hs) ++ rest)
      = parse hm (MHeaders c P' te cl) rest.
  Proof.
    induction hs as [|h hs IH]; intros c P te cl rest Hall HP.
    - exists P. split; [assumption | reflexivity].
    - inversion Hall as [|? ? (H1 & H2 & H3 & H4) Hall']; subst.
      cbn [map concat]. rewrite <- app_assoc. rewrite parse_header by (assumption || (split; assumption)).
      apply IH; [assumption|]. now apply neutral_header.
  Qed.

  (** ** the empty line ending the field section *)
  Lemma parse_blank : forall c P te cl te' cl' rest,
    flush hm P te cl = Some (te', cl') ->
    parse hm (MHeaders c P te cl) (13 :: 10 :: rest) =
    if (100 <=? c) && (c <? 200) then parse hm MStatus rest
    else match choose_framing hm c te' cl' with
         | None => ([PBad], None)
         | Some f => (PHead c f :: fst (parse hm (body_mode f) rest), snd (parse hm (body_mode f) rest))
         end.
  Proof.
    intros c P te cl te' cl' rest Hf. rewrite parse_unfold. cbn [pstep].
    change (split_at 10 (13 :: 10 :: rest)) with (Some ([13], rest)).
    cbn [strip_cr is_lws is_nil]. change (13 =? 13) with true. cbn iota. rewrite Hf.
    destruct ((100 <=? c) && (c <? 200)); cbn [is_lws is_nil].
    - now destruct (parse hm MStatus rest).
    - destruct (choose_framing hm c te' cl') as [f|]; [|reflexivity].
      cbn [app]. now destruct (parse hm (body_mode f) rest).
  Qed.

  (** header lines of any kind: the field section is consumed, whatever it makes of te / cl *)
  Definition flushable (P : option bytes) : Prop :=
    forall te cl, exists te' cl', flush hm P te cl = Some (te', cl').

  Lemma flushable_none : flushable None.
  Proof. intros te cl. exists te, cl. reflexivity. Qed.

  Lemma flushable_line : forall h, is_token (lower (fst h)) = true -> flushable (Some (fst h ++ 58 :: snd h)).
  Proof.
    intros [n v] Ht te cl. cbn [fst snd] in *. rewrite flush_line by assumption.
    destruct (eqb_bytes (lower n) H_TE); [eauto|]. destruct (eqb_bytes (lower n) H_CL && negb hm); eauto.
  Qed.

  Lemma parse_header_any : forall c P te cl te' cl' h rest,
    line_ok h -> flush hm P te cl = Some (te', cl') ->
    parse hm (MHeaders c P te cl) (header_line h ++ rest)
    = parse hm (MHeaders c (Some (fst h ++ 58 :: snd h)) te' cl') rest.
  Proof.
    intros c P te cl te' cl' [n v] rest [Ht Hv] HP. cbn [fst snd] in *.
    assert (E : header_line (n, v) ++ rest = ((n ++ 58 :: v) ++ [13]) ++ 10 :: rest).
    { unfold header_line. cbn [fst snd]. repeat (rewrite <- app_assoc; cbn [app]). reflexivity. }
    rewrite E. erewrite parse_emit.
    2:{ cbn [pstep]. rewrite split_at_app.
        - rewrite strip_cr_snoc.
          pose proof (token_lower_nonempty n Ht) as Hne.
          destruct n as [|a n']; [contradiction|].
          assert (Ha : is_lws ((a :: n') ++ 58 :: v) = false).
          { cbn [app is_lws].
            assert (a <> 32) by (intro; subst; eapply (token_lower_excludes (32 :: n') 32); eauto; now left).
            assert (a <> 9) by (intro; subst; eapply (token_lower_excludes (9 :: n') 9); eauto; now left).
            apply N.eqb_neq in H, H0. now rewrite H, H0. }
          rewrite Ha, HP. reflexivity.
        - apply not_In_app; [|cbn; intuition discriminate].
          apply not_In_app; [eapply token_lower_excludes; eauto|].
          intros [H | H]; [discriminate | contradiction]. }
    cbn [app]. now destruct (parse hm _ rest).
  Qed.

  Lemma parse_headers_any : forall hs c P te cl rest,
    Forall (fun h => is_token (lower (fst h)) = true /\ ~ In 10 (snd h)) hs -> flushable P ->
    exists P' te' cl', flushable P' /\
      parse hm (MHeaders c P te cl) (concat (map header_line hs) ++ rest)
      = parse hm (MHeaders c P' te' cl') rest.
  Proof.
    induction hs as [|h hs IH]; intros c P te cl rest Hall HP.
    - exists P, te, cl. split; [assumption | reflexivity].
    - inversion Hall as [|? ? (H1 & H2) Hall']; subst.
      destruct (HP te cl) as (te1 & cl1 & Hf).
      cbn [map concat]. rewrite <- app_assoc.
      rewrite (parse_header_any c P te cl te1 cl1 h) by (assumption || (split; assumption)).
      apply IH; [assumption|]. now apply flushable_line.
  Qed.

  (** interim responses - with whatever header lines - leave no trace *)
  Lemma parse_interim : forall cs rest,
    Forall (fun i => 100 <= fst i < 200
                     /\ Forall (fun h => is_token (lower (fst h)) = true /\ ~ In 10 (snd h)) (snd i)) cs ->
    parse hm MStatus (concat (map interim_bytes cs) ++ rest) = parse hm MStatus rest.
  Proof.
    induction cs as [|[c hs] cs IH]; intros rest H; [reflexivity|].
    inversion H as [|? ? [Hc Hhs] H']; subst. cbn [fst snd] in *.
    cbn [map concat]. rewrite <- app_assoc.
    unfold interim_bytes at 1. cbn [fst snd]. rewrite <- !app_assoc.
    rewrite parse_status by (intros []).
    destruct (parse_headers_any hs c None [] [] ([13; 10] ++ concat (map interim_bytes cs) ++ rest) Hhs flushable_none)
      as (P & te & cl & HP & E).
    rewrite E. destruct (HP te cl) as (te' & cl' & Hf).
    cbn [app]. rewrite (parse_blank c P te cl te' cl' _ Hf).
    assert (E1 : (100 <=? c) && (c <? 200) = true).
    { apply andb_true_iff. split; [apply N.leb_le | apply N.ltb_lt]; lia. }
    rewrite E1. now apply IH.
  Qed.

  (** ** bodies *)
  Lemma parse_close : forall b, fst (parse hm MClose b) = datas b.
  Proof.
    induction b as [|c b IH]; [rewrite parse_unfold; reflexivity|].
    erewrite parse_emit by reflexivity. cbn [fst app datas map]. now rewrite IH.
  Qed.

  Lemma parse_ident : forall body n rest,
    body <> [] -> lenN body = n ->
    parse hm (MIdent n) (body ++ rest) = (datas body ++ [PFinish], Some (MDone, rest)).
  Proof.
    induction body as [|c body IH]; intros n rest Hne Hn; [contradiction|].
    cbn [app]. destruct body as [|d body'].
    - assert (n = 1) by (subst n; reflexivity). subst n.
      erewrite parse_emit by reflexivity. rewrite parse_done. reflexivity.
    - assert (Hn1 : n <=? 1 = false).
      { apply N.leb_gt. subst n. unfold lenN. cbn [length]. lia. }
      erewrite parse_emit by (cbn [pstep]; rewrite Hn1; reflexivity).
      rewrite (IH (n - 1) rest) by (try discriminate; subst n; unfold lenN; cbn [length]; lia).
      reflexivity.
  Qed.

  Lemma parse_chunk_body : forall d n rest,
    d <> [] -> lenN d = n ->
    parse hm (MChunkBody n) (d ++ rest)
    = (datas d ++ fst (parse hm MChunkCRLF rest), snd (parse hm MChunkCRLF rest)).
  Proof.
    induction d as [|c d IH]; intros n rest Hne Hn; [contradiction|].
    cbn [app]. destruct d as [|e d'].
    - assert (n = 1) by (subst n; reflexivity). subst n.
      erewrite parse_emit by reflexivity. reflexivity.
    - assert (Hn1 : n <=? 1 = false).
      { apply N.leb_gt. subst n. unfold lenN. cbn [length]. lia. }
      erewrite parse_emit by (cbn [pstep]; rewrite Hn1; reflexivity).
      rewrite (IH (n - 1) rest) by (try discriminate; subst n; unfold lenN; cbn [length]; lia).
      reflexivity.
  Qed.

  Lemma chunk_size_hex : forall n, chunk_size (show_hexN n) = Some n.
  Proof.
    intro n. unfold chunk_size.
    assert (E : split_at 59 (show_hexN n) = None).
    { assert (H : forall l, ~ In 59 l -> split_at 59 l = None).
      { induction l as [|c l IH]; intro Hn; [reflexivity|]. cbn [split_at].
        assert (c =? 59 = false) by (apply N.eqb_neq; intro; subst; apply Hn; now left).
        rewrite H. rewrite IH; [reflexivity|]. intro; apply Hn; now right. }
      apply H. apply hex_not. lia. }
    rewrite E, read_show_hex. reflexivity.
  Qed.

  Lemma parse_last_chunk : forall rest,
    parse hm MChunkLen (last_chunk ++ rest) = ([PFinish], Some (MDone, rest)).
  Proof.
    intro rest. erewrite parse_emit by reflexivity. cbn [app].
    erewrite parse_emit by reflexivity. rewrite parse_done. reflexivity.
  Qed.

  Lemma parse_chunks : forall cs rest,
    Forall (fun d => d <> []) cs ->
    parse hm MChunkLen (concat (map chunk cs) ++ last_chunk ++ rest)
    = (datas (concat cs) ++ [PFinish], Some (MDone, rest)).
  Proof.
    induction cs as [|d cs IH]; intros rest H.
    - cbn [map concat app datas]. apply parse_last_chunk.
    - inversion H as [|? ? Hd H']; subst.
      cbn [map concat]. unfold chunk at 1.
      assert (E : ((show_hexN (lenN d) ++ [13; 10] ++ d ++ [13; 10]) ++ concat (map chunk cs))
                    ++ last_chunk ++ rest
                  = show_hexN (lenN d) ++ 13 :: 10 :: (d ++ 13 :: 10 :: (concat (map chunk cs) ++ last_chunk ++ rest))).
      { repeat (rewrite <- app_assoc; cbn [app]). reflexivity. }
      rewrite E. clear E.
      assert (Hz : lenN d =? 0 = false).
      { apply N.eqb_neq. intro Ez. apply lenN_nil_iff in Ez. contradiction. }
      erewrite parse_emit.
      2:{ cbn [pstep]. rewrite split_crlf_app by (apply hex_not; lia).
          rewrite chunk_size_hex, Hz. reflexivity. }
      cbn [app]. rewrite (parse_chunk_body d (lenN d)) by auto.
      erewrite (parse_emit MChunkCRLF) by reflexivity.
      cbn [app]. rewrite IH by assumption. cbn [fst snd].
      unfold datas. rewrite map_app, <- app_assoc. reflexivity.
  Qed.

  (** * the response is read back *)
  Theorem response_read_back : forall r extra,
    wf_response hm r -> whole_events hm (serialize r ++ extra) = expected_reading r extra.
  Proof.
    intros r extra (Hi & Hc & Hp & Hh & Hb).
    unfold whole_events, serialize. rewrite <- !app_assoc.
    rewrite parse_interim by assumption.
    rewrite parse_status by assumption.
    destruct (parse_headers (r_headers r) (r_code r) None [] []
                (framing_lines (r_body r) ++ [13; 10] ++ body_bytes (r_body r) ++ extra) Hh neutral_none)
      as (P & HP & E).
    rewrite E. clear E.
    assert (H1xx : (100 <=? r_code r) && (r_code r <? 200) = false).
    { apply andb_false_iff. destruct Hc; [left; apply N.leb_gt | right; apply N.ltb_ge]; lia. }
    unfold expected_reading.
    destruct (r_body r) as [| body | cs | body]; cbn [framing_lines body_bytes app].
    - (* no body *)
      rewrite (parse_blank _ P [] [] [] []) by apply HP. rewrite H1xx.
      unfold choose_framing. unfold no_body_status in Hb. rewrite Hb.
      change (body_mode FNoBody) with MDone. rewrite parse_done. reflexivity.
    - (* Content-Length *)
      unfold no_body_status in Hb.
      assert (Hhm : hm = false) by (destruct hm; auto; rewrite !orb_true_r in Hb; discriminate).
      set (CLNAME := [67; 111; 110; 116; 101; 110; 116; 45; 76; 101; 110; 103; 116; 104]).
      match goal with
      | |- fst (parse hm _ ?l) = _ =>
          replace l with (header_line (CLNAME, 32 :: show_dec (lenN body)) ++ 13 :: 10 :: body ++ extra)
      end.
      2:{ unfold header_line, CL_PREFIX, CLNAME. cbn [fst snd].
          repeat (rewrite <- app_assoc; cbn [app]). reflexivity. }
      rewrite (parse_header (r_code r) P [] [] (CLNAME, 32 :: show_dec (lenN body))).
      2:{ split; [reflexivity|]. cbn [snd]. intros [H | H]; [discriminate|]. revert H. apply dec_not. lia. }
      2:{ assumption. }
      cbn [fst snd].
      assert (Hfl : flush hm (Some (CLNAME ++ 58 :: 32 :: show_dec (lenN body))) [] []
                    = Some ([], [show_dec (lenN body)])).
      { rewrite flush_line by reflexivity. rewrite Hhm.
        change (eqb_bytes (lower CLNAME) H_TE) with false. change (eqb_bytes (lower CLNAME) H_CL) with true.
        cbn [andb negb app]. now rewrite strip_sp_digits by apply show_dec_digits. }
      rewrite (parse_blank _ _ [] [] _ _ _ Hfl). rewrite H1xx.
      assert (Hcf : choose_framing hm (r_code r) [] [show_dec (lenN body)] = Some (FLen (lenN body))).
      { unfold choose_framing. rewrite Hb. unfold content_length. cbn [flat_map app].
        rewrite split_commas_none by (apply dec_not; lia). cbn [app map].
        unfold strip_blank. rewrite trim_digits by apply show_dec_digits.
        rewrite read_show_dec. reflexivity. }
      rewrite Hcf. cbn [fst]. unfold body_mode.
      destruct body as [|b0 body'].
      + change (lenN [] =? 0) with true. rewrite parse_done. reflexivity.
      + assert (Hz : lenN (b0 :: body') =? 0 = false) by (apply N.eqb_neq; unfold lenN; cbn [length]; lia).
        rewrite Hz. rewrite parse_ident by (discriminate || reflexivity). reflexivity.
    - (* chunked *)
      destruct Hb as [Hb Hcs]. unfold no_body_status in Hb.
      set (TENAME := [84; 114; 97; 110; 115; 102; 101; 114; 45; 69; 110; 99; 111; 100; 105; 110; 103]).
      set (CHK := [99; 104; 117; 110; 107; 101; 100]).
      change TE_LINE with (header_line (TENAME, 32 :: CHK)).
      rewrite <- app_assoc.
      rewrite (parse_header (r_code r) P [] [] (TENAME, 32 :: CHK)).
      2:{ split; [reflexivity|]. cbn. intuition discriminate. }
      2:{ assumption. }
      cbn [fst snd].
      assert (Hfl : flush hm (Some (TENAME ++ 58 :: 32 :: CHK)) [] [] = Some ([CHK], [])).
      { rewrite flush_line by reflexivity. reflexivity. }
      cbn [app]. rewrite (parse_blank _ _ [] [] _ _ _ Hfl). rewrite H1xx.
      assert (Hcf : choose_framing hm (r_code r) [CHK] [] = Some FChunked).
      { unfold choose_framing. rewrite Hb. reflexivity. }
      rewrite Hcf. cbn [fst body_mode]. rewrite <- ?app_assoc.
      rewrite parse_chunks by assumption. reflexivity.
    - (* close-delimited *)
      unfold no_body_status in Hb.
      rewrite (parse_blank _ P [] [] [] []) by apply HP. rewrite H1xx.
      assert (Hcf : choose_framing hm (r_code r) [] [] = Some FClose).
      { unfold choose_framing. rewrite Hb. reflexivity. }
      rewrite Hcf. cbn [fst body_mode]. now rewrite parse_close.
  Qed.

  (** every truncation of a well-formed response is read as a prefix of the intended events *)
  Corollary truncated_response_reading : forall r extra k,
    wf_response hm r ->
    exists more, expected_reading r extra = whole_events hm (firstn k (serialize r ++ extra)) ++ more.
  Proof.
    intros r extra k Hwf.
    destruct (whole_events_monotone hm (firstn k (serialize r ++ extra)) (skipn k (serialize r ++ extra)))
      as [more H].
    rewrite firstn_skipn in H. exists more. rewrite <- H. symmetry. now apply response_read_back.
  Qed.

  (** end to end: a complete well-formed response (possibly followed by other bytes), cut into
      deliveries in any way, deliverBody called at any time, then the connection is lost *)
  Definition content (r : response) (extra : bytes) : bytes :=
    match r_body r with
    | BNone => []
    | BLen body => body
    | BChunked cs => concat cs
    | BClose body => body ++ extra
    end.

  Definition final_reason (r : response) : reason :=
    match r_body r with BClose _ => RPotentialDataLoss | _ => RDone end.

  Theorem complete_response_session : forall r extra cs1 cs2 t,
    wf_response hm r -> concat (cs1 ++ cs2) = serialize r ++ extra ->
    let s := run (session hm cs1 cs2 t true) in
    m_fired s = [FResponse (r_code r)]
    /\ m_delivered s = (if asked_for t then content r extra else [])
    /\ m_closed s = (if asked_for t then [final_reason r] else []).
  Proof.
    intros r extra cs1 cs2 t Hwf Hc s.
    destruct (session_outcome hm cs1 cs2 t true) as (Hf & Hd & Hcl).
    fold s in Hf, Hd, Hcl. rewrite Hc in *. rewrite (response_read_back r extra Hwf) in *.
    rewrite Hf, Hd, Hcl. clear Hf Hd Hcl.
    unfold expected_fired, expected_delivered, expected_closed, expected_reading, content, final_reason.
    assert (F1 : forall c f l, finished (PHead c f :: l) = finished l) by reflexivity.
    assert (F2 : forall b l, finished (map (fun c => PData [c]) b ++ l) = finished l) by exact finished_datas.
    assert (B1 : forall c f l, body_of (PHead c f :: l) = body_of l) by reflexivity.
    assert (B2 : forall b l, body_of (map (fun c => PData [c]) b ++ l) = b ++ body_of l) by exact body_of_datas.
    destruct (r_body r) as [| body | cs | body]; cbn [head_of]; rewrite ?F1, ?F2, ?B1, ?B2.
    - cbn. destruct (asked_for t); auto.
    - destruct (asked_for t); cbn [andb orb]; repeat split; auto.
      + destruct body; cbn; now rewrite ?app_nil_r.
      + destruct body as [|b0 body']; cbn; rewrite ?orb_true_r; reflexivity.
    - destruct (asked_for t); cbn [andb orb]; repeat split; auto. cbn. now rewrite app_nil_r.
    - rewrite <- (app_nil_r (map (fun c => PData [c]) (body ++ extra))), B2.
      destruct (asked_for t); cbn [andb orb]; repeat split; auto. cbn. now rewrite app_nil_r.
  Qed.
End ReadBack.

(** the hypotheses are inhabited: an interim 100 carrying `Content-Length: 9` (discarded), a header, a
    chunked body *)
Example wf_example :
  let r := mkResp [(100, [([67; 111; 110; 116; 101; 110; 116; 45; 76; 101; 110; 103; 116; 104], [32; 57])])]
                  200 [79; 75] [([88; 45; 65], [32; 49])] (BChunked [[97; 98]; [99]]) in
  wf_response false r
  /\ whole_events false (serialize r ++ [72]) = expected_reading r [72]
  /\ expected_reading r [72] = [PHead 200 FChunked; PData [97]; PData [98]; PData [99]; PFinish].
Proof.
  cbn zeta. split; [|split].
  - unfold wf_response. cbn [r_interim r_code r_phrase r_headers r_body].
    repeat split; try reflexivity; try (repeat constructor; cbn; try lia; intuition discriminate).
  - vm_compute. reflexivity.
  - reflexivity.
Qed.
