(** C23 Model: the HTTP/1.1 client's response side (twisted.web._newclient).

    Two layers.
    (1) [pstep]/[parse]: HTTPClientParser (+ LineReceiver with delimiter "\n", _contentLength,
        _IdentityTransferDecoder, _ChunkedTransferDecoder) as a FRAMED receiver in the sense of
        Lib/Seg.v: a parser mode plus a buffer; one [pstep] consumes one frame (a line, a chunk-size
        line, one body byte, a CRLF) and emits parser events, waits for more bytes, or fails.
        [parse] iterates it; the incremental receiver is "append the delivery to the buffer, then
        parse" ([Seg.bfeed]).  Body bytes are emitted one [PData] per byte so that the events do not
        depend on how the stream is cut (the machine only ever concatenates them).
    (2) [step]/[run]: the event machine made of HTTPClientParser.allHeadersReceived /
        connectionLost, HTTP11ClientProtocol._finishResponse / _giveUp / _connectionLost_WAITING /
        _disconnectParser and the Response delivery states (INITIAL / CONNECTED / DEFERRED_CLOSE /
        FINISHED), over the parser's events and the application's deliverBody call, with ghost logs
        of what the request Deferred and the body consumer have seen.  The theorems are about (2),
        for every event history.  No proofs here. *)
From Coq Require Import List NArith Bool.
From TwLib Require Import HttpClientBytes Seg.
Import ListNotations.
Local Open Scope N_scope.

(** * (2) the event machine *)

Inductive framing :=
| FNoBody                (* HEAD, 204, 304 *)
| FLen (n : N)           (* Content-Length: n *)
| FChunked
| FClose.                (* neither: body ends when the connection closes *)

Inductive reason := RDone | RPotentialDataLoss | RFailed.   (* ResponseDone / PotentialDataLoss / ResponseFailed *)

Inductive fire :=
| FResponse (code : N)   (* request Deferred fired with the Response *)
| FFailed                (* ... with ResponseFailed *)
| FNever.                (* ... with ResponseNeverReceived *)

Inductive rstate := RNone | RInitial | RConnected | RDeferredClose (r : reason) | RFinished.

Inductive ev :=
| PRecv                        (* some bytes arrived (HTTPClientParser.dataReceived) *)
| PHead (code : N) (f : framing)   (* allHeadersReceived of a non-1xx response, framing chosen *)
| PData (d : bytes)            (* the body decoder hands decoded bytes to Response._bodyDataReceived *)
| PFinish                      (* the body decoder calls its finishCallback (HTTPClientParser._finished) *)
| PBad                         (* an exception escapes HTTPClientParser.dataReceived (-> _giveUp) *)
| PLost                        (* HTTP11ClientProtocol.connectionLost *)
| UDeliver.                    (* the application calls response.deliverBody(consumer) *)

Record mstate := mkM {
  m_ever : bool;               (* _everReceivedData *)
  m_gone : bool;               (* _disconnectParser has run (protocol._parser is None) *)
  m_head : bool;               (* the response exists and was given to the application *)
  m_frame : framing;
  m_fin : bool;                (* the decoder finished *)
  m_resp : rstate;             (* Response._state *)
  m_buf : bytes;               (* Response._bodyBuffer, concatenated *)
  (* ghost logs *)
  m_fired : list fire;         (* firings of the request Deferred *)
  m_delivered : bytes;         (* consumer.dataReceived payloads, concatenated *)
  m_closed : list reason;      (* consumer.connectionLost calls *)
  m_received : bytes;          (* body bytes accepted from the decoder, concatenated *)
  m_asked : bool }.            (* deliverBody has been called on an existing response *)

Definition init : mstate := mkM false false false FClose false RNone [] [] [] [] [] false.

Definition frame_done (f : framing) (fin : bool) : bool :=
  match f with
  | FNoBody => true
  | FLen n => (n =? 0) || fin
  | FChunked => fin
  | FClose => false
  end.

(** the reason HTTPClientParser.connectionLost gives the response *)
Definition reason_of (f : framing) (fin : bool) : reason :=
  match f with
  | FClose => RPotentialDataLoss
  | _ => if frame_done f fin then RDone else RFailed
  end.

(** Response._bodyDataFinished(reason) *)
Definition body_finished (s : mstate) (r : reason) : mstate :=
  match m_resp s with
  | RInitial => mkM (m_ever s) (m_gone s) (m_head s) (m_frame s) (m_fin s) (RDeferredClose r) (m_buf s)
                    (m_fired s) (m_delivered s) (m_closed s) (m_received s) (m_asked s)
  | RConnected => mkM (m_ever s) (m_gone s) (m_head s) (m_frame s) (m_fin s) RFinished (m_buf s)
                      (m_fired s) (m_delivered s) (m_closed s ++ [r]) (m_received s) (m_asked s)
  | _ => s       (* RuntimeError, swallowed by _ignoreDecoderErrors *)
  end.

(** _disconnectParser -> HTTPClientParser.connectionLost *)
Definition disconnect (s : mstate) : mstate :=
  if m_gone s then s
  else
    let s1 := mkM (m_ever s) true (m_head s) (m_frame s) (m_fin s) (m_resp s) (m_buf s)
                  (m_fired s) (m_delivered s) (m_closed s) (m_received s) (m_asked s) in
    if m_head s then body_finished s1 (reason_of (m_frame s) (m_fin s))
    else mkM (m_ever s) true false (m_frame s) (m_fin s) (m_resp s) (m_buf s)
             (m_fired s ++ [if m_ever s then FFailed else FNever])
             (m_delivered s) (m_closed s) (m_received s) (m_asked s).

Definition immediate (f : framing) : bool :=
  match f with FNoBody => true | FLen n => n =? 0 | _ => false end.

Definition step (s : mstate) (e : ev) : mstate :=
  match e with
  | PRecv => mkM true (m_gone s) (m_head s) (m_frame s) (m_fin s) (m_resp s) (m_buf s)
                 (m_fired s) (m_delivered s) (m_closed s) (m_received s) (m_asked s)
  | PHead code f =>
      if m_gone s || m_head s then s
      else if immediate f then
        (* _finished(rest) -> protocol disconnects the parser (nothing to report: state is DONE);
           response._bodyDataFinished(); then the Deferred fires *)
        mkM (m_ever s) true true f true (RDeferredClose RDone) []
            (m_fired s ++ [FResponse code]) (m_delivered s) (m_closed s) (m_received s) (m_asked s)
      else
        mkM (m_ever s) false true f false RInitial []
            (m_fired s ++ [FResponse code]) (m_delivered s) (m_closed s) (m_received s) (m_asked s)
  | PData d =>
      if m_gone s || negb (m_head s) || m_fin s then s
      else match m_resp s with
           | RInitial => mkM (m_ever s) (m_gone s) (m_head s) (m_frame s) (m_fin s) RInitial (m_buf s ++ d)
                             (m_fired s) (m_delivered s) (m_closed s) (m_received s ++ d) (m_asked s)
           | RConnected => mkM (m_ever s) (m_gone s) (m_head s) (m_frame s) (m_fin s) RConnected (m_buf s)
                               (m_fired s) (m_delivered s ++ d) (m_closed s) (m_received s ++ d) (m_asked s)
           | _ => s
           end
  | PFinish =>
      if m_gone s || negb (m_head s) then s
      else disconnect (mkM (m_ever s) (m_gone s) (m_head s) (m_frame s) true (m_resp s) (m_buf s)
                           (m_fired s) (m_delivered s) (m_closed s) (m_received s) (m_asked s))
  | PBad => disconnect s
  | PLost => disconnect s
  | UDeliver =>
      match m_resp s with
      | RInitial => mkM (m_ever s) (m_gone s) (m_head s) (m_frame s) (m_fin s) RConnected []
                        (m_fired s) (m_delivered s ++ m_buf s) (m_closed s) (m_received s) true
      | RDeferredClose r => mkM (m_ever s) (m_gone s) (m_head s) (m_frame s) (m_fin s) RFinished []
                                (m_fired s) (m_delivered s ++ m_buf s) (m_closed s ++ [r]) (m_received s) true
      | _ => s     (* RuntimeError to the caller (second deliverBody), or no response yet *)
      end
  end.

Definition run (evs : list ev) : mstate := fold_left step evs init.

(** * (1) the parser as a framed receiver *)

Definition is_nil (l : bytes) : bool := match l with [] => true | _ => false end.

Fixpoint strip_cr (l : bytes) : bytes :=
  match l with
  | [] => []
  | [c] => if c =? 13 then [] else [c]
  | c :: r => c :: strip_cr r
  end.

Definition token_chars : bytes :=
  [33; 35; 36; 37; 38; 39; 42; 43; 45; 46; 94; 95; 96; 124; 126].
Definition is_tchar (c : N) : bool :=
  ((48 <=? c) && (c <=? 57)) || ((65 <=? c) && (c <=? 90)) || ((97 <=? c) && (c <=? 122)) || memb c token_chars.
Definition is_token (l : bytes) : bool := negb (is_nil l) && forallb is_tchar l.

(** bytes.strip(): ASCII white space *)
Definition is_space (c : N) : bool := (c =? 32) || ((9 <=? c) && (c <=? 13)).
Fixpoint lstrip (l : bytes) : bytes :=
  match l with c :: r => if is_space c then lstrip r else l | [] => [] end.
Definition strip (l : bytes) : bytes := List.rev (lstrip (List.rev (lstrip l))).
(** bytes.strip(b" \t") *)
Definition strip_blank (l : bytes) : bytes := trim_ows l.

Definition H_TE : bytes := [116; 114; 97; 110; 115; 102; 101; 114; 45; 101; 110; 99; 111; 100; 105; 110; 103].
Definition H_CL : bytes := [99; 111; 110; 116; 101; 110; 116; 45; 108; 101; 110; 103; 116; 104].
Definition V_CHUNKED : bytes := [99; 104; 117; 110; 107; 101; 100].
Definition HEAD : bytes := [72; 69; 65; 68].
Definition HTTP11 : bytes := [72; 84; 84; 80; 47; 49; 46; 49].

(** headerReceived for the header accumulated in _partialHeader; None = an exception *)
Definition flush (head_method : bool) (partial : option bytes) (te cl : list bytes)
  : option (list bytes * list bytes) :=
  match partial with
  | None => Some (te, cl)
  | Some h =>
      match split_at 58 h with
      | None => None
      | Some (name, value) =>
          let name := lower name in
          if is_token name then
            if eqb_bytes name H_TE then Some (te ++ [strip value], cl)
            else if eqb_bytes name H_CL && negb head_method then Some (te, cl ++ [strip value])
            else Some (te, cl)
          else None
      end
  end.

(** parseVersion: b"HTTP/1.1", or proto "/" 1*DIGIT "." 1*DIGIT *)
Definition version_ok (v : bytes) : bool :=
  eqb_bytes v HTTP11 ||
  match split_at 47 v with
  | Some (proto, num) =>
      negb (memb 47 num) &&
      match split_at 46 num with
      | Some (a, b) => negb (memb 46 b) &&
                       match read_dec a, read_dec b with Some _, Some _ => true | _, _ => false end
      | None => false
      end
  | None => false
  end.

(** statusReceived: Some code, or None for ParseError / BadResponseVersion *)
Definition status_code (line : bytes) : option N :=
  match split_at 32 line with
  | None => None
  | Some (ver, r1) =>
      let code := match split_at 32 r1 with Some (c, _) => c | None => r1 end in
      match read_dec code with
      | Some n => if version_ok ver then Some n else None
      | None => None
      end
  end.

(** s.split(b",") *)
Fixpoint split_commas (l : bytes) : list bytes :=
  match l with
  | [] => [[]]
  | c :: r => if c =? 44 then [] :: split_commas r
              else match split_commas r with
                   | s :: ss => (c :: s) :: ss
                   | [] => [[c]]
                   end
  end.

Fixpoint all_some {A} (l : list (option A)) : option (list A) :=
  match l with
  | [] => Some []
  | Some x :: r => match all_some r with Some xs => Some (x :: xs) | None => None end
  | None :: _ => None
  end.

(** _contentLength: Some None = no header; None = ValueError *)
Definition content_length (cl : list bytes) : option (option N) :=
  match cl with
  | [] => Some None
  | _ =>
      let fields := flat_map split_commas cl in
      match all_some (map (fun v => read_dec (strip_blank v)) fields) with
      | Some (n :: ns) => if forallb (N.eqb n) ns then Some (Some n) else None
      | _ => None
      end
  end.

(** _chunkExtChars *)
Definition ext_char (c : N) : bool := (c =? 9) || ((32 <=? c) && (c <=? 126)) || (128 <=? c).

(** allHeadersReceived: framing from the status code, the request method and the connection headers *)
Definition choose_framing (head_method : bool) (code : N) (te cl : list bytes) : option framing :=
  if (code =? 204) || (code =? 304) || head_method then Some FNoBody
  else match te with
       | v :: _ => if eqb_bytes (lower v) V_CHUNKED then Some FChunked else None   (* KeyError *)
       | [] => match content_length cl with
               | Some (Some n) => Some (FLen n)
               | Some None => Some FClose
               | None => None
               end
       end.

(** parser modes: HTTPParser.state + _partialHeader + connHeaders, then the body decoder's state *)
Inductive pmode :=
| MStatus
| MHeaders (code : N) (partial : option bytes) (te cl : list bytes)
| MIdent (n : N)             (* _IdentityTransferDecoder, n > 0 bytes still expected *)
| MClose                     (* _IdentityTransferDecoder(None) *)
| MChunkLen                  (* _ChunkedTransferDecoder: CHUNK_LENGTH *)
| MChunkBody (n : N)         (*   BODY, n > 0 bytes left in the chunk *)
| MChunkCRLF                 (*   CRLF *)
| MTrailer                   (*   TRAILER *)
| MDone.                     (* HTTPParser.state = DONE: later bytes are not this response's *)

Definition body_mode (f : framing) : pmode :=
  match f with
  | FNoBody => MDone
  | FLen n => if n =? 0 then MDone else MIdent n
  | FChunked => MChunkLen
  | FClose => MClose
  end.

Definition is_lws (line : bytes) : bool :=
  match line with c :: _ => (c =? 32) || (c =? 9) | [] => false end.

(** chunk-size line: 1*HEXDIG [ ";" ext ]  ->  Some size / None = _MalformedChunkedDataError *)
Definition chunk_size (szline : bytes) : option N :=
  let (raw, ext) := match split_at 59 szline with Some p => p | None => (szline, []) end in
  match read_hex raw with
  | None => None
  | Some n => if forallb ext_char ext then Some n else None
  end.

Section Parser.
  Variable head_method : bool.   (* the request's method is HEAD *)

  (** one frame *)
  Definition pstep (x : pmode) (b : bytes) : step_result N ev pmode :=
    match x with
    | MStatus =>
        match split_at 10 b with
        | None => Wait
        | Some (a, rest) =>
            match status_code (strip_cr a) with
            | None => Fail [PBad]
            | Some code => Emit [] (MHeaders code None [] []) rest
            end
        end
    | MHeaders code partial te cl =>
        match split_at 10 b with
        | None => Wait
        | Some (a, rest) =>
            let line := strip_cr a in
            if is_lws line then
              match partial with
              | None => Fail [PBad]                    (* None.append -> AttributeError *)
              | Some p => Emit [] (MHeaders code (Some (p ++ line)) te cl) rest
              end
            else
              match flush head_method partial te cl with
              | None => Fail [PBad]
              | Some (te', cl') =>
                  if is_nil line then
                    if (100 <=? code) && (code <? 200) then Emit [] MStatus rest
                    else match choose_framing head_method code te' cl' with
                         | None => Fail [PBad]
                         | Some f => Emit [PHead code f] (body_mode f) rest
                         end
                  else Emit [] (MHeaders code (Some line) te' cl') rest
              end
        end
    | MIdent n =>
        match b with
        | [] => Wait
        | c :: r => if n <=? 1 then Emit [PData [c]; PFinish] MDone r
                    else Emit [PData [c]] (MIdent (n - 1)) r
        end
    | MClose =>
        match b with
        | [] => Wait
        | c :: r => Emit [PData [c]] MClose r
        end
    | MChunkLen =>
        match split_crlf b with
        | None => Wait
        | Some (szline, rest) =>
            match chunk_size szline with
            | None => Fail [PBad]
            | Some n => if n =? 0 then Emit [] MTrailer rest else Emit [] (MChunkBody n) rest
            end
        end
    | MChunkBody n =>
        match b with
        | [] => Wait
        | c :: r => Emit [PData [c]] (if n <=? 1 then MChunkCRLF else MChunkBody (n - 1)) r
        end
    | MChunkCRLF =>
        match b with
        | c :: d :: r => if (c =? 13) && (d =? 10) then Emit [] MChunkLen r else Fail [PBad]
        | _ => Wait
        end
    | MTrailer =>
        match split_crlf b with
        | None => Wait
        | Some (line, rest) => if is_nil line then Emit [PFinish] MDone rest else Emit [] MTrailer rest
        end
    | MDone => Wait
    end.

  (** everything the parser makes of a buffer: events, and the mode + unconsumed bytes it is left
      with ([None] after a failure: the protocol has given up) *)
  Definition parse : pmode -> bytes -> list ev * option (pmode * bytes) := fdrain pstep.

  Definition pstate : Type := option (pmode * bytes).
  Definition pinit : pstate := Some (MStatus, []).

  (** HTTP11ClientProtocol.dataReceived *)
  Definition pfeed : pstate -> bytes -> list ev * pstate := bfeed parse.

  (** the parser events of a connection whose bytes arrive as the deliveries [cs] *)
  Definition parser_events (cs : list bytes) : list ev := fst (Seg.run pfeed pinit cs).

  (** ... and of the same bytes arriving at once *)
  Definition whole_events (received : bytes) : list ev := fst (parse MStatus received).
End Parser.

(** * the session: deliveries, the application's deliverBody call, connection loss *)

(** when the application calls deliverBody: never; between the deliveries [cs1] and [cs2] (if there
    is no response yet, as soon as it arrives, i.e. from the Deferred's callback); after the
    connection was lost *)
Inductive dtime := TNever | TBetween | TAfterLost.

Fixpoint deliver_at_head (evs : list ev) : list ev :=
  match evs with
  | [] => []
  | PHead c f :: r => PHead c f :: UDeliver :: r
  | e :: r => e :: deliver_at_head r
  end.

Definition has_head (evs : list ev) : bool :=
  existsb (fun e => match e with PHead _ _ => true | _ => false end) evs.

Definition all_empty (cs : list bytes) : bool := forallb is_nil cs.

Definition session (head_method : bool) (cs1 cs2 : list bytes) (t : dtime) (lost : bool) : list ev :=
  let '(e1, s1) := Seg.run (pfeed head_method) pinit cs1 in
  let e2 := fst (Seg.run (pfeed head_method) s1 cs2) in
  (if all_empty (cs1 ++ cs2) then [] else [PRecv]) ++
  match t with
  | TNever => e1 ++ e2
  | TBetween => if has_head e1 then e1 ++ UDeliver :: e2 else e1 ++ deliver_at_head e2
  | TAfterLost => e1 ++ e2
  end ++
  (if lost then [PLost] else []) ++
  match t with TAfterLost => [UDeliver] | _ => [] end.

(** * readings of the parser's event list (what the property talks about) *)
Fixpoint head_of (evs : list ev) : option (N * framing) :=
  match evs with
  | [] => None
  | PHead c f :: _ => Some (c, f)
  | _ :: r => head_of r
  end.

Fixpoint body_of (evs : list ev) : bytes :=
  match evs with
  | [] => []
  | PData d :: r => d ++ body_of r
  | _ :: r => body_of r
  end.

Definition finished (evs : list ev) : bool :=
  existsb (fun e => match e with PFinish => true | _ => false end) evs.
Definition failed (evs : list ev) : bool :=
  existsb (fun e => match e with PBad => true | _ => false end) evs.

(** what the application must see, as a function of the parser's reading [W] of all the bytes
    received, of whether anything was received, of when deliverBody is called and of whether the
    connection was lost *)
Definition asked_for (t : dtime) : bool := match t with TNever => false | _ => true end.

Definition expected_fired (W : list ev) (nothing_received lost : bool) : list fire :=
  match head_of W with
  | Some (c, _) => [FResponse c]
  | None => if lost || failed W then [if nothing_received then FNever else FFailed] else []
  end.

Definition expected_delivered (W : list ev) (t : dtime) : bytes :=
  match head_of W with
  | Some _ => if asked_for t then body_of W else []
  | None => []
  end.

Definition expected_closed (W : list ev) (t : dtime) (lost : bool) : list reason :=
  match head_of W with
  | Some (_, f) =>
      if asked_for t && (lost || finished W || failed W || immediate f)
      then [reason_of f (finished W)] else []
  | None => []
  end.
