(** C23 Model: the HTTP/1.1 client's response side (twisted.web._newclient).

    Two layers.
    (1) [scan]: what HTTPClientParser (+ LineReceiver with delimiter "\n", _contentLength,
        _IdentityTransferDecoder, _ChunkedTransferDecoder) has made of ALL the bytes received so far,
        as a function of those bytes (a "whole prefix" view: head complete / bad / still missing,
        the framing chosen, the body bytes decoded so far, body finished / malformed / still open).
        Executable; tied to the code by the correspondence run on every truncation point and random
        segmentations (segmentation invariance of the real parser is checked there, not proved).
    (2) [step]/[run]: the event machine made of HTTPClientParser.allHeadersReceived /
        connectionLost, HTTP11ClientProtocol._finishResponse / _giveUp / _connectionLost_WAITING /
        _disconnectParser and the Response delivery states (INITIAL / CONNECTED / DEFERRED_CLOSE /
        FINISHED), over the parser's events and the application's deliverBody call, with ghost logs
        of what the request Deferred and the body consumer have seen.  The theorems are about (2),
        for every event history.  No proofs here. *)
From Coq Require Import List NArith Bool.
From TwLib Require Import HttpClientBytes.
Import ListNotations.
Local Open Scope N_scope.

(** * (2) the event machine *)

Inductive framing :=
| FNoBody                (* HEAD, 204, 304 *)
| FLen (n : N)           (* Content-Length: n *)
| FChunked
| FClose.                (* neither: body ends when the connection closes *)

Inductive reason := RDone | RPotentialDataLoss | RFailed.   (* ResponseDone / PotentialDataLoss / ResponseFailed *)

Inductive fire :=
| FResponse (code : N)   (* request Deferred fired with the Response *)
| FFailed                (* ... with ResponseFailed *)
| FNever.                (* ... with ResponseNeverReceived *)

Inductive rstate := RNone | RInitial | RConnected | RDeferredClose (r : reason) | RFinished.

Inductive ev :=
| PRecv                        (* some bytes arrived (HTTPClientParser.dataReceived) *)
| PHead (code : N) (f : framing)   (* allHeadersReceived of a non-1xx response, framing chosen *)
| PData (d : bytes)            (* the body decoder hands decoded bytes to Response._bodyDataReceived *)
| PFinish                      (* the body decoder calls its finishCallback (HTTPClientParser._finished) *)
| PBad                         (* an exception escapes HTTPClientParser.dataReceived (-> _giveUp) *)
| PLost                        (* HTTP11ClientProtocol.connectionLost *)
| UDeliver.                    (* the application calls response.deliverBody(consumer) *)

Record mstate := mkM {
  m_ever : bool;               (* _everReceivedData *)
  m_gone : bool;               (* _disconnectParser has run (protocol._parser is None) *)
  m_head : bool;               (* the response exists and was given to the application *)
  m_frame : framing;
  m_fin : bool;                (* the decoder finished *)
  m_resp : rstate;             (* Response._state *)
  m_buf : bytes;               (* Response._bodyBuffer, concatenated *)
  (* ghost logs *)
  m_fired : list fire;         (* firings of the request Deferred *)
  m_delivered : bytes;         (* consumer.dataReceived payloads, concatenated *)
  m_closed : list reason;      (* consumer.connectionLost calls *)
  m_received : bytes;          (* body bytes accepted from the decoder, concatenated *)
  m_asked : bool }.            (* deliverBody has been called on an existing response *)

Definition init : mstate := mkM false false false FClose false RNone [] [] [] [] [] false.

Definition frame_done (f : framing) (fin : bool) : bool :=
  match f with
  | FNoBody => true
  | FLen n => (n =? 0) || fin
  | FChunked => fin
  | FClose => false
  end.

(** the reason HTTPClientParser.connectionLost gives the response *)
Definition reason_of (f : framing) (fin : bool) : reason :=
  match f with
  | FClose => RPotentialDataLoss
  | _ => if frame_done f fin then RDone else RFailed
  end.

(** Response._bodyDataFinished(reason) *)
Definition body_finished (s : mstate) (r : reason) : mstate :=
  match m_resp s with
  | RInitial => mkM (m_ever s) (m_gone s) (m_head s) (m_frame s) (m_fin s) (RDeferredClose r) (m_buf s)
                    (m_fired s) (m_delivered s) (m_closed s) (m_received s) (m_asked s)
  | RConnected => mkM (m_ever s) (m_gone s) (m_head s) (m_frame s) (m_fin s) RFinished (m_buf s)
                      (m_fired s) (m_delivered s) (m_closed s ++ [r]) (m_received s) (m_asked s)
  | _ => s       (* RuntimeError, swallowed by _ignoreDecoderErrors *)
  end.

(** _disconnectParser -> HTTPClientParser.connectionLost *)
Definition disconnect (s : mstate) : mstate :=
  if m_gone s then s
  else
    let s1 := mkM (m_ever s) true (m_head s) (m_frame s) (m_fin s) (m_resp s) (m_buf s)
                  (m_fired s) (m_delivered s) (m_closed s) (m_received s) (m_asked s) in
    if m_head s then body_finished s1 (reason_of (m_frame s) (m_fin s))
    else mkM (m_ever s) true false (m_frame s) (m_fin s) (m_resp s) (m_buf s)
             (m_fired s ++ [if m_ever s then FFailed else FNever])
             (m_delivered s) (m_closed s) (m_received s) (m_asked s).

Definition immediate (f : framing) : bool :=
  match f with FNoBody => true | FLen n => n =? 0 | _ => false end.

Definition step (s : mstate) (e : ev) : mstate :=
  match e with
  | PRecv => mkM true (m_gone s) (m_head s) (m_frame s) (m_fin s) (m_resp s) (m_buf s)
                 (m_fired s) (m_delivered s) (m_closed s) (m_received s) (m_asked s)
  | PHead code f =>
      if m_gone s || m_head s then s
      else if immediate f then
        (* _finished(rest) -> protocol disconnects the parser (nothing to report: state is DONE);
           response._bodyDataFinished(); then the Deferred fires *)
        mkM (m_ever s) true true f true (RDeferredClose RDone) []
            (m_fired s ++ [FResponse code]) (m_delivered s) (m_closed s) (m_received s) (m_asked s)
      else
        mkM (m_ever s) false true f false RInitial []
            (m_fired s ++ [FResponse code]) (m_delivered s) (m_closed s) (m_received s) (m_asked s)
  | PData d =>
      if m_gone s || negb (m_head s) || m_fin s then s
      else match m_resp s with
           | RInitial => mkM (m_ever s) (m_gone s) (m_head s) (m_frame s) (m_fin s) RInitial (m_buf s ++ d)
                             (m_fired s) (m_delivered s) (m_closed s) (m_received s ++ d) (m_asked s)
           | RConnected => mkM (m_ever s) (m_gone s) (m_head s) (m_frame s) (m_fin s) RConnected (m_buf s)
                               (m_fired s) (m_delivered s ++ d) (m_closed s) (m_received s ++ d) (m_asked s)
           | _ => s
           end
  | PFinish =>
      if m_gone s || negb (m_head s) then s
      else disconnect (mkM (m_ever s) (m_gone s) (m_head s) (m_frame s) true (m_resp s) (m_buf s)
                           (m_fired s) (m_delivered s) (m_closed s) (m_received s) (m_asked s))
  | PBad => disconnect s
  | PLost => disconnect s
  | UDeliver =>
      match m_resp s with
      | RInitial => mkM (m_ever s) (m_gone s) (m_head s) (m_frame s) (m_fin s) RConnected []
                        (m_fired s) (m_delivered s ++ m_buf s) (m_closed s) (m_received s) true
      | RDeferredClose r => mkM (m_ever s) (m_gone s) (m_head s) (m_frame s) (m_fin s) RFinished []
                                (m_fired s) (m_delivered s ++ m_buf s) (m_closed s ++ [r]) (m_received s) true
      | _ => s     (* RuntimeError to the caller (second deliverBody), or no response yet *)
      end
  end.

Definition run (evs : list ev) : mstate := fold_left step evs init.

(** * (1) the whole-prefix view of the parser *)

Inductive shead := HNone | HBad | HOk (code : N) (f : framing).
Inductive sbody := BOpen | BFinished | BMalformed.
Record sview := mkView { s_head : shead; s_body : bytes; s_end : sbody }.

Definition is_nil (l : bytes) : bool := match l with [] => true | _ => false end.

Fixpoint strip_cr (l : bytes) : bytes :=
  match l with
  | [] => []
  | [c] => if c =? 13 then [] else [c]
  | c :: r => c :: strip_cr r
  end.

(** LineReceiver(delimiter = "\n") + `if line[-1:] == b"\r": line = line[:-1]` *)
Definition next_line (l : bytes) : option (bytes * bytes) :=
  match split_at 10 l with
  | Some (a, b) => Some (strip_cr a, b)
  | None => None
  end.

Definition token_chars : bytes :=
  [33; 35; 36; 37; 38; 39; 42; 43; 45; 46; 94; 95; 96; 124; 126].
Definition is_tchar (c : N) : bool :=
  ((48 <=? c) && (c <=? 57)) || ((65 <=? c) && (c <=? 90)) || ((97 <=? c) && (c <=? 122)) || memb c token_chars.
Definition is_token (l : bytes) : bool := negb (is_nil l) && forallb is_tchar l.

(** bytes.strip(): ASCII white space *)
Definition is_space (c : N) : bool := (c =? 32) || ((9 <=? c) && (c <=? 13)).
Fixpoint lstrip (l : bytes) : bytes :=
  match l with c :: r => if is_space c then lstrip r else l | [] => [] end.
Definition strip (l : bytes) : bytes := List.rev (lstrip (List.rev (lstrip l))).
(** bytes.strip(b" \t") *)
Definition strip_blank (l : bytes) : bytes := trim_ows l.

Definition H_TE : bytes := [116; 114; 97; 110; 115; 102; 101; 114; 45; 101; 110; 99; 111; 100; 105; 110; 103].
Definition H_CL : bytes := [99; 111; 110; 116; 101; 110; 116; 45; 108; 101; 110; 103; 116; 104].
Definition V_CHUNKED : bytes := [99; 104; 117; 110; 107; 101; 100].
Definition HEAD : bytes := [72; 69; 65; 68].
Definition HTTP11 : bytes := [72; 84; 84; 80; 47; 49; 46; 49].

(** headerReceived for the header accumulated in _partialHeader; None = an exception *)
Definition flush (head_method : bool) (partial : option bytes) (te cl : list bytes)
  : option (list bytes * list bytes) :=
  match partial with
  | None => Some (te, cl)
  | Some h =>
      match split_at 58 h with
      | None => None
      | Some (name, value) =>
          let name := lower name in
          if is_token name then
            if eqb_bytes name H_TE then Some (te ++ [strip value], cl)
            else if eqb_bytes name H_CL && negb head_method then Some (te, cl ++ [strip value])
            else Some (te, cl)
          else None
      end
  end.

Inductive hres := HRIncomplete | HRBad | HRDone (te cl : list bytes) (rest : bytes).

Fixpoint headers (fuel : nat) (head_method : bool) (l : bytes) (partial : option bytes)
         (te cl : list bytes) : hres :=
  match fuel with
  | O => HRIncomplete
  | S f =>
      match next_line l with
      | None => HRIncomplete
      | Some (line, rest) =>
          let lws := match line with c :: _ => (c =? 32) || (c =? 9) | [] => false end in
          if lws then
            match partial with
            | None => HRBad
            | Some p => headers f head_method rest (Some (p ++ line)) te cl
            end
          else
            match flush head_method partial te cl with
            | None => HRBad
            | Some (te', cl') =>
                if is_nil line then HRDone te' cl' rest
                else headers f head_method rest (Some line) te' cl'
            end
      end
  end.

(** parseVersion: b"HTTP/1.1", or proto "/" 1*DIGIT "." 1*DIGIT *)
Definition version_ok (v : bytes) : bool :=
  eqb_bytes v HTTP11 ||
  match split_at 47 v with
  | Some (proto, num) =>
      negb (memb 47 num) &&
      match split_at 46 num with
      | Some (a, b) => negb (memb 46 b) &&
                       match read_dec a, read_dec b with Some _, Some _ => true | _, _ => false end
      | None => false
      end
  | None => false
  end.

(** statusReceived: Some code, or None for ParseError / BadResponseVersion *)
Definition status_code (line : bytes) : option N :=
  match split_at 32 line with
  | None => None
  | Some (ver, r1) =>
      let code := match split_at 32 r1 with Some (c, _) => c | None => r1 end in
      match read_dec code with
      | Some n => if version_ok ver then Some n else None
      | None => None
      end
  end.

(** s.split(b",") *)
Fixpoint split_commas (l : bytes) : list bytes :=
  match l with
  | [] => [[]]
  | c :: r => if c =? 44 then [] :: split_commas r
              else match split_commas r with
                   | s :: ss => (c :: s) :: ss
                   | [] => [[c]]
                   end
  end.

Fixpoint all_some {A} (l : list (option A)) : option (list A) :=
  match l with
  | [] => Some []
  | Some x :: r => match all_some r with Some xs => Some (x :: xs) | None => None end
  | None :: _ => None
  end.

(** _contentLength: Some None = no header; None = ValueError *)
Definition content_length (cl : list bytes) : option (option N) :=
  match cl with
  | [] => Some None
  | _ =>
      let fields := flat_map split_commas cl in
      match all_some (map (fun v => read_dec (strip_blank v)) fields) with
      | Some (n :: ns) => if forallb (N.eqb n) ns then Some (Some n) else None
      | _ => None
      end
  end.

(** _chunkExtChars *)
Definition ext_char (c : N) : bool := (c =? 9) || ((32 <=? c) && (c <=? 126)) || (128 <=? c).

Definition starts_crlf (l : bytes) : option bytes :=
  match l with
  | c :: d :: r => if (c =? 13) && (d =? 10) then Some r else None
  | _ => None
  end.

(** trailer section of _ChunkedTransferDecoder: lines up to the empty one *)
Fixpoint trailer (fuel : nat) (l : bytes) : sbody :=
  match fuel with
  | O => BOpen
  | S f =>
      match split_crlf l with
      | None => BOpen
      | Some (line, rest) => if is_nil line then BFinished else trailer f rest
      end
  end.

Fixpoint dechunk (fuel : nat) (l : bytes) (acc : bytes) : bytes * sbody :=
  match fuel with
  | O => (acc, BOpen)
  | S f =>
      match l with
      | [] => (acc, BOpen)
      | _ =>
        match split_crlf l with
        | None => (acc, BOpen)
        | Some (szline, rest) =>
            let (raw, ext) := match split_at 59 szline with Some p => p | None => (szline, []) end in
            match read_hex raw with
            | None => (acc, BMalformed)
            | Some n =>
                if negb (forallb ext_char ext) then (acc, BMalformed)
                else if n =? 0 then (acc, trailer (S (length rest)) rest)
                else
                  match take_n n rest with
                  | None => (acc ++ rest, BOpen)
                  | Some (d, rest') =>
                      match rest' with
                      | [] | [_] => (acc ++ d, BOpen)
                      | _ => match starts_crlf rest' with
                             | Some rest'' => dechunk f rest'' (acc ++ d)
                             | None => (acc ++ d, BMalformed)
                             end
                      end
                  end
            end
        end
      end
  end.

Definition body_view (f : framing) (rest : bytes) : bytes * sbody :=
  match f with
  | FNoBody => ([], BFinished)
  | FLen n => if n =? 0 then ([], BFinished)
              else match take_n n rest with
                   | Some (d, _) => (d, BFinished)
                   | None => (rest, BOpen)
                   end
  | FChunked => dechunk (S (length rest)) rest []
  | FClose => (rest, BOpen)
  end.

(** allHeadersReceived: framing from the status code, the request method and the connection headers *)
Definition choose_framing (head_method : bool) (code : N) (te cl : list bytes) : option framing :=
  if (code =? 204) || (code =? 304) || head_method then Some FNoBody
  else match te with
       | v :: _ => if eqb_bytes (lower v) V_CHUNKED then Some FChunked else None   (* KeyError *)
       | [] => match content_length cl with
               | Some (Some n) => Some (FLen n)
               | Some None => Some FClose
               | None => None
               end
       end.

Fixpoint scan_msgs (fuel : nat) (head_method : bool) (l : bytes) : sview :=
  match fuel with
  | O => mkView HNone [] BOpen
  | S f =>
      match next_line l with
      | None => mkView HNone [] BOpen
      | Some (status, rest) =>
          match status_code status with
          | None => mkView HBad [] BOpen
          | Some code =>
              match headers (S (length rest)) head_method rest None [] [] with
              | HRIncomplete => mkView HNone [] BOpen
              | HRBad => mkView HBad [] BOpen
              | HRDone te cl rest' =>
                  if (100 <=? code) && (code <? 200) then scan_msgs f head_method rest'
                  else match choose_framing head_method code te cl with
                       | None => mkView HBad [] BOpen
                       | Some fr => let (b, e) := body_view fr rest' in mkView (HOk code fr) b e
                       end
              end
          end
      end
  end.

Definition scan (method : bytes) (received : bytes) : sview :=
  scan_msgs (S (length received)) (eqb_bytes method HEAD) received.

(** the parser events a view stands for *)
Definition events_of (received : bytes) (v : sview) : list ev :=
  (if is_nil received then [] else [PRecv]) ++
  match s_head v with
  | HNone => []
  | HBad => [PBad]
  | HOk code f =>
      PHead code f :: (if is_nil (s_body v) then [] else [PData (s_body v)]) ++
      match s_end v with
      | BOpen => []
      | BFinished => if immediate f then [] else [PFinish]
      | BMalformed => [PBad]
      end
  end.
