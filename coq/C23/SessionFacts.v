(** C23: the shape of the parser's event list, and what the event machine makes of a session. *)
From Coq Require Import List NArith Bool Arith Lia.
From TwLib Require Import HttpClientBytes Seg.
From C23 Require Import Model Proofs ParserFacts.
Import ListNotations.
Local Open Scope N_scope.

Definition datas (ds : bytes) : list ev := map (fun c => PData [c]) ds.
Inductive tl_kind := TOpen | TFin | TBad.
Definition tail_events (tl : tl_kind) : list ev :=
  match tl with TOpen => [] | TFin => [PFinish] | TBad => [PBad] end.

Definition body_mode_p (x : pmode) : Prop :=
  match x with MStatus | MHeaders _ _ _ _ => False | _ => True end.

Section Shape.
  Variable hm : bool.

  Lemma parse_unfold : forall x b,
    parse hm x b = match pstep hm x b with
                   | Emit ev x' rest => let (ev', s) := parse hm x' rest in (ev ++ ev', s)
                   | Wait => ([], Some (x, b))
                   | Fail ev => (ev, None)
                   end.
  Proof. intros. unfold parse. apply fdrain_unfold. exact (pstep_shrinks hm). Qed.

  Lemma pstep_body : forall x b, body_mode_p x ->
    match pstep hm x b with
    | Emit ev x' r =>
        body_mode_p x' /\
        (ev = [] \/ (exists c, ev = [PData [c]])
         \/ (x' = MDone /\ (ev = [PFinish] \/ exists c, ev = [PData [c]; PFinish])))
    | Wait => True
    | Fail ev => ev = [PBad]
    end.
  Proof.
    intros x b Hx. destruct x; try contradiction; cbn [pstep].
    - destruct b as [|c r]; [exact I|]. destruct (n <=? 1); cbn; split; eauto 8.
    - destruct b as [|c r]; [exact I|]. cbn; split; eauto.
    - destruct (split_crlf b) as [[sz rest]|]; [|exact I].
      destruct (chunk_size sz) as [n|]; [|reflexivity].
      destruct (n =? 0); cbn; auto.
    - destruct b as [|c r]; [exact I|]. destruct (n <=? 1); cbn; split; eauto.
    - destruct b as [|c [|d r]]; try exact I.
      destruct ((c =? 13) && (d =? 10)); cbn; auto.
    - destruct (split_crlf b) as [[line rest]|]; [|exact I].
      destruct (is_nil line); cbn; auto 6.
    - exact I.
  Qed.

  Lemma body_shape : forall n x b, length b = n -> body_mode_p x ->
    exists ds tl, fst (parse hm x b) = datas ds ++ tail_events tl
                  /\ (x = MDone -> ds = [] /\ tl = TOpen).
  Proof.
    induction n as [n IH] using lt_wf_ind. intros x b Hn Hx.
    rewrite parse_unfold. pose proof (pstep_body x b Hx) as Hs.
    destruct (pstep hm x b) as [ev x' r| |ev] eqn:Es.
    - destruct Hs as [Hx' Hev].
      pose proof (pstep_shrinks hm _ _ _ _ _ Es) as Hlt.
      destruct (IH (length r) ltac:(lia) x' r eq_refl Hx') as (ds & tl & Hd & Hdone).
      destruct (parse hm x' r) as [ev' s']. cbn [fst] in *. subst ev'.
      assert (Hnd : x <> MDone) by (intro; subst x; discriminate Es).
      destruct Hev as [-> | [[c ->] | [-> [-> | [c ->]]]]].
      + exists ds, tl. split; [reflexivity | intro; contradiction].
      + exists (c :: ds), tl. split; [reflexivity | intro; contradiction].
      + destruct (Hdone eq_refl) as [-> ->]. exists [], TFin. split; [reflexivity | intro; contradiction].
      + destruct (Hdone eq_refl) as [-> ->]. exists [c], TFin. split; [reflexivity | intro; contradiction].
    - exists [], TOpen. split; [reflexivity | auto].
    - subst ev. exists [], TBad. split; [reflexivity|]. intro; subst x; discriminate Es.
  Qed.

  Lemma pstep_pre : forall x b, ~ body_mode_p x ->
    match pstep hm x b with
    | Emit ev x' r => (ev = [] /\ ~ body_mode_p x') \/ (exists c f, ev = [PHead c f] /\ x' = body_mode f)
    | Wait => True
    | Fail ev => ev = [PBad]
    end.
  Proof.
    intros x b Hx. destruct x; try (exfalso; apply Hx; exact I); cbn [pstep].
    - destruct (split_at 10 b) as [[a rest]|]; [|exact I].
      destruct (status_code (strip_cr a)); [left; split; [reflexivity | intros []] | reflexivity].
    - destruct (split_at 10 b) as [[a rest]|]; [|exact I].
      destruct (is_lws (strip_cr a)).
      + destruct partial; [left; split; [reflexivity | intros []] | reflexivity].
      + destruct (flush hm partial te cl) as [[te' cl']|]; [|reflexivity].
        destruct (is_nil (strip_cr a)).
        * destruct ((100 <=? code) && (code <? 200)); [left; split; [reflexivity | intros []]|].
          destruct (choose_framing hm code te' cl'); [right; eauto | reflexivity].
        * left; split; [reflexivity | intros []].
  Qed.

  Definition shaped (evs : list ev) : Prop :=
    evs = [] \/ evs = [PBad]
    \/ exists c f ds tl, evs = PHead c f :: datas ds ++ tail_events tl
                         /\ (immediate f = true -> ds = [] /\ tl = TOpen).

  Lemma immediate_done : forall f, immediate f = true -> body_mode f = MDone.
  Proof. intros [| n | |] H; cbn in *; try discriminate; auto. now rewrite H. Qed.

  Lemma body_mode_is_body : forall f, body_mode_p (body_mode f).
  Proof. intros [| n | |]; cbn; auto. destruct (n =? 0); exact I. Qed.

  Lemma head_shape : forall n x b, length b = n -> ~ body_mode_p x -> shaped (fst (parse hm x b)).
  Proof.
    induction n as [n IH] using lt_wf_ind. intros x b Hn Hx.
    rewrite parse_unfold. pose proof (pstep_pre x b Hx) as Hs.
    destruct (pstep hm x b) as [ev x' r| |ev] eqn:Es.
    - pose proof (pstep_shrinks hm _ _ _ _ _ Es) as Hlt.
      destruct Hs as [[-> Hx'] | (c & f & -> & ->)].
      + specialize (IH (length r) ltac:(lia) x' r eq_refl Hx').
        destruct (parse hm x' r) as [ev' s']. exact IH.
      + destruct (body_shape (length r) (body_mode f) r eq_refl (body_mode_is_body f)) as (ds & tl & Hd & Hdone).
        destruct (parse hm (body_mode f) r) as [ev' s']. cbn [fst] in *. subst ev'.
        right; right. exists c, f, ds, tl. split; [reflexivity|].
        intro Hi. apply Hdone. now apply immediate_done.
    - left. reflexivity.
    - subst ev. right; left. reflexivity.
  Qed.

  Theorem whole_events_shaped : forall received, shaped (whole_events hm received).
  Proof. intro r. unfold whole_events. eapply head_shape; [reflexivity | intros []]. Qed.
End Shape.

(** * deliverBody commutes with every later parser / connection event (but the response's arrival) *)
Lemma deliver_commute : forall s e,
  (forall c f, e <> PHead c f) -> step (step s UDeliver) e = step (step s e) UDeliver.
Proof.
  intros [ever gone head fr fin resp buf fired deliv closed recv asked] e Hne.
  destruct e as [ | c f | d | | | | ]; try (exfalso; eapply Hne; reflexivity);
    destruct resp, gone, head, fin;
    cbn; rewrite ?app_nil_r, <- ?app_assoc; try reflexivity.
Qed.

Lemma deliver_later : forall B s,
  has_head B = false -> fold_left step (UDeliver :: B) s = fold_left step (B ++ [UDeliver]) s.
Proof.
  induction B as [|e B IH]; intros s Hh; [reflexivity|].
  cbn [has_head existsb] in Hh. apply orb_false_iff in Hh. destruct Hh as [He Hh].
  cbn [fold_left app]. rewrite deliver_commute.
  - apply (IH (step s e) Hh).
  - intros c f ->. discriminate He.
Qed.

Lemma fold_app : forall a b s, fold_left step (a ++ b) s = fold_left step b (fold_left step a s).
Proof. intros. apply fold_left_app. Qed.

(** body bytes one at a time or all at once *)
Lemma data_step_app : forall s a b, step (step s (PData a)) (PData b) = step s (PData (a ++ b)).
Proof.
  intros [ever gone head fr fin resp buf fired deliv closed recv asked] a b.
  destruct resp, gone, head, fin; cbn; rewrite <- ?app_assoc; reflexivity.
Qed.

Lemma data_step_nil : forall s, step s (PData []) = s.
Proof.
  intros [ever gone head fr fin resp buf fired deliv closed recv asked].
  destruct resp, gone, head, fin; cbn; rewrite ?app_nil_r; reflexivity.
Qed.

Lemma datas_coalesce : forall ds s, fold_left step (datas ds) s = step s (PData ds).
Proof.
  induction ds as [|c ds IH]; intro s.
  - cbn [datas map fold_left]. now rewrite data_step_nil.
  - cbn [datas map fold_left]. fold (datas ds). rewrite IH. apply data_step_app.
Qed.

Lemma has_head_datas : forall ds, has_head (datas ds) = false.
Proof. induction ds; cbn; auto. Qed.

Lemma has_head_tail : forall tl, has_head (tail_events tl) = false.
Proof. destruct tl; reflexivity. Qed.

Lemma has_head_app : forall a b, has_head (a ++ b) = has_head a || has_head b.
Proof. intros. unfold has_head. apply existsb_app. Qed.

Lemma body_of_datas : forall ds r, body_of (datas ds ++ r) = ds ++ body_of r.
Proof. induction ds as [|c ds IH]; intro r; cbn; [reflexivity | now rewrite IH]. Qed.

Lemma all_empty_concat : forall cs, all_empty cs = is_nil (concat cs).
Proof.
  induction cs as [|c cs IH]; [reflexivity|]. cbn [all_empty forallb concat].
  fold (all_empty cs). rewrite IH. destruct c; reflexivity.
Qed.

Lemma finished_datas : forall ds r, finished (datas ds ++ r) = finished r.
Proof. induction ds as [|c ds IH]; intro r; cbn; [reflexivity | apply IH]. Qed.

Lemma failed_datas : forall ds r, failed (datas ds ++ r) = failed r.
Proof. induction ds as [|c ds IH]; intro r; cbn; [reflexivity | apply IH]. Qed.

(** the machine on a session in canonical order: bytes, then loss, then (possibly) deliverBody *)
Lemma canonical_outcome : forall hm received (rn lost d : bool) (t : dtime),
  let W := whole_events hm received in
  asked_for t = d ->
  let s := run ((if rn then [] else [PRecv]) ++ W ++ (if lost then [PLost] else [])
                ++ (if d then [UDeliver] else [])) in
  m_fired s = expected_fired W rn lost
  /\ m_delivered s = expected_delivered W t
  /\ m_closed s = expected_closed W t lost.
Proof.
  intros hm received rn lost d t W Hd.
  pose proof (whole_events_shaped hm received) as Hs. fold W in Hs.
  unfold expected_fired, expected_delivered, expected_closed. rewrite Hd.
  destruct Hs as [-> | [-> | (c & f & ds & tl & -> & Himm)]].
  - destruct rn, lost, d; cbn; auto.
  - destruct rn, lost, d; cbn; auto.
  - unfold run.
    rewrite !fold_app. cbn [fold_left]. rewrite !fold_app, datas_coalesce.
    cbn [head_of].
    change (body_of (PHead c f :: datas ds ++ tail_events tl)) with (body_of (datas ds ++ tail_events tl)).
    change (finished (PHead c f :: datas ds ++ tail_events tl)) with (finished (datas ds ++ tail_events tl)).
    change (failed (PHead c f :: datas ds ++ tail_events tl)) with (failed (datas ds ++ tail_events tl)).
    rewrite body_of_datas, finished_datas, failed_datas.
    destruct (immediate f) eqn:Ei.
    + destruct (Himm eq_refl) as [-> ->].
      destruct f as [| n | |]; cbn in Ei; try discriminate;
        destruct rn, lost, d; cbn; rewrite ?Ei; cbn; auto.
    + destruct f as [| n | |]; cbn in Ei; try discriminate;
        destruct rn, lost, d, tl; cbn; rewrite ?Ei; cbn; rewrite ?app_nil_r, ?Ei, ?orb_true_r; cbn; auto.
Qed.

Lemma deliver_to_end : forall A B s,
  has_head B = false ->
  fold_left step (A ++ UDeliver :: B) s = fold_left step (A ++ B ++ [UDeliver]) s.
Proof.
  intros A B s H. rewrite (fold_app A (UDeliver :: B)), (fold_app A (B ++ [UDeliver])).
  now apply deliver_later.
Qed.

Lemma deliver_at_head_no_head : forall evs, has_head evs = false -> deliver_at_head evs = evs.
Proof.
  induction evs as [|e evs IH]; intro H; [reflexivity|].
  cbn [has_head existsb] in H. apply orb_false_iff in H. destruct H as [He H].
  destruct e; cbn [deliver_at_head]; try discriminate He; now rewrite (IH H).
Qed.

(** deliverBody without a response does nothing *)
Lemma deliver_noop_without_head : forall evs,
  has_head evs = false -> fold_left step (evs ++ [UDeliver]) init = fold_left step evs init.
Proof.
  intros evs H. rewrite fold_app. cbn [fold_left].
  assert (Hr : forall evs s, has_head evs = false -> m_resp s = RNone -> m_resp (fold_left step evs s) = RNone).
  { clear. induction evs as [|e evs IH]; intros s H Hs; [assumption|].
    cbn [has_head existsb] in H. apply orb_false_iff in H. destruct H as [He H].
    cbn [fold_left]. apply IH; [assumption|].
    destruct s as [ever gone head fr fin resp buf fired deliv closed recv asked]. cbn in Hs. subst resp.
    destruct e; try discriminate He; destruct gone, head, fin; cbn; auto. }
  specialize (Hr evs init H eq_refl).
  destruct (fold_left step evs init) as [ever gone head fr fin resp buf fired deliv closed recv asked].
  cbn in Hr. subst resp. reflexivity.
Qed.

Lemma shaped_heads : forall W, shaped W ->
  has_head W = false \/ exists c f R, W = PHead c f :: R /\ has_head R = false.
Proof.
  intros W [-> | [-> | (c & f & ds & tl & -> & _)]]; [now left | now left |].
  right. exists c, f, (datas ds ++ tail_events tl). split; [reflexivity|].
  now rewrite has_head_app, has_head_datas, has_head_tail.
Qed.

Theorem session_outcome : forall hm cs1 cs2 t lost,
  let received := concat (cs1 ++ cs2) in
  let W := whole_events hm received in
  let s := run (session hm cs1 cs2 t lost) in
  m_fired s = expected_fired W (is_nil received) lost
  /\ m_delivered s = expected_delivered W t
  /\ m_closed s = expected_closed W t lost.
Proof.
  intros hm cs1 cs2 t lost received W s.
  pose proof (canonical_outcome hm received (is_nil received) lost (asked_for t) t eq_refl) as Hc.
  cbn zeta in Hc. fold W in Hc.
  enough (Hs : s = run ((if is_nil received then [] else [PRecv]) ++ W
                        ++ (if lost then [PLost] else []) ++ (if asked_for t then [UDeliver] else [])))
    by (rewrite Hs; exact Hc).
  unfold s, session.
  pose proof (run_split hm cs1 cs2) as Hsp.
  destruct (Seg.run (pfeed hm) pinit cs1) as [e1 s1].
  destruct (Seg.run (pfeed hm) s1 cs2) as [e2 s2]. cbn [fst].
  assert (HW : W = e1 ++ e2).
  { unfold W, whole_events. rewrite <- (parse_all_chunkings hm (cs1 ++ cs2) received eq_refl).
    now rewrite Hsp. }
  rewrite all_empty_concat. unfold received in *. unfold bytes in *.
  set (pre := if is_nil (concat (cs1 ++ cs2)) then [] else [PRecv]).
  assert (Hp : has_head pre = false) by (unfold pre; destruct (is_nil (concat (cs1 ++ cs2))); reflexivity).
  set (lostl := if lost then [PLost] else []).
  assert (Hl : has_head lostl = false) by (unfold lostl; destruct lost; reflexivity).
  clearbody pre lostl.
  destruct t; cbn [asked_for].
  - (* TNever *) now rewrite HW.
  - (* TBetween *)
    rewrite app_nil_r.
    pose proof (shaped_heads W (whole_events_shaped hm received)) as Hsh.
    rewrite HW in *.
    destruct Hsh as [Hnh | (c & f & R & He & HR)].
    + rewrite has_head_app in Hnh. apply orb_false_iff in Hnh. destruct Hnh as [H1 H2].
      rewrite H1, (deliver_at_head_no_head e2 H2).
      unfold run.
      replace (pre ++ (e1 ++ e2) ++ lostl ++ [UDeliver]) with ((pre ++ (e1 ++ e2) ++ lostl) ++ [UDeliver])
        by (now rewrite <- !app_assoc).
      rewrite deliver_noop_without_head; [reflexivity|].
      now rewrite !has_head_app, Hp, H1, H2, Hl.
    + destruct e1 as [|x e1'].
      * cbn [app] in He. subst e2. cbn [has_head existsb app deliver_at_head].
        unfold run.
        transitivity (fold_left step ((pre ++ [PHead c f]) ++ UDeliver :: (R ++ lostl)) init);
          [f_equal; now rewrite <- !app_assoc|].
        rewrite deliver_to_end by (now rewrite has_head_app, HR, Hl).
        f_equal. now rewrite <- !app_assoc.
      * cbn [app] in He. inversion He; subst x R. clear He.
        cbn [has_head existsb orb].
        rewrite has_head_app in HR. apply orb_false_iff in HR. destruct HR as [_ H2].
        unfold run.
        transitivity (fold_left step ((pre ++ PHead c f :: e1') ++ UDeliver :: (e2 ++ lostl)) init);
          [f_equal; now rewrite <- !app_assoc|].
        rewrite deliver_to_end by (now rewrite has_head_app, H2, Hl).
        f_equal. now rewrite <- !app_assoc.
  - (* TAfterLost *) now rewrite HW.
Qed.

(** * the three statements of the property, for every byte stream / segmentation / truncation *)
Section Corollaries.
  Variables (hm : bool) (cs1 cs2 : list bytes) (t : dtime) (lost : bool).
  Let received := concat (cs1 ++ cs2).
  Let W := whole_events hm received.
  Let s := run (session hm cs1 cs2 t lost).

  Lemma fires_once_bytes :
    (length (m_fired s) <= 1)%nat
    /\ (lost = true -> length (m_fired s) = 1%nat)
    /\ (forall c, m_fired s = [FResponse c] <-> exists f, head_of W = Some (c, f))
    /\ (head_of W = None -> lost = true -> m_fired s = [if is_nil received then FNever else FFailed]).
  Proof.
    destruct (session_outcome hm cs1 cs2 t lost) as (Hf & _ & _).
    fold received W s in Hf. rewrite Hf. unfold expected_fired.
    unfold W, received in *. unfold bytes in *.
    destruct (head_of (whole_events hm (concat (cs1 ++ cs2)))) as [[c f]|].
    - split; [cbn; lia|]. split; [reflexivity|]. split.
      + intro c'. split.
        * intros [=]; subst; eauto.
        * intros (f' & [=]); subst; reflexivity.
      + discriminate.
    - split; [destruct (lost || failed _); cbn; lia|]. split; [intros ->; reflexivity|]. split.
      + intro c'. split.
        * destruct (lost || failed _); [destruct (is_nil _)|]; discriminate.
        * intros (f & [=]).
      + intros _ ->. reflexivity.
  Qed.

  Lemma body_exact_bytes :
    m_delivered s = match head_of W with
                    | Some _ => if asked_for t then body_of W else []
                    | None => []
                    end.
  Proof. destruct (session_outcome hm cs1 cs2 t lost) as (_ & Hd & _). exact Hd. Qed.

  Lemma closed_once_bytes :
    (length (m_closed s) <= 1)%nat
    /\ m_closed s =
       match head_of W with
       | Some (_, f) =>
           if asked_for t && (lost || finished W || failed W || immediate f)
           then [match f with
                 | FClose => RPotentialDataLoss
                 | FNoBody => RDone
                 | FLen n => if N.eqb n 0 || finished W then RDone else RFailed
                 | FChunked => if finished W then RDone else RFailed
                 end]
           else []
       | None => []
       end.
  Proof.
    destruct (session_outcome hm cs1 cs2 t lost) as (_ & _ & Hc).
    fold received W s in Hc. rewrite Hc. unfold expected_closed.
    unfold W, received in *. unfold bytes in *.
    destruct (head_of (whole_events hm (concat (cs1 ++ cs2)))) as [[c f]|]; [|split; [cbn; lia | reflexivity]].
    rewrite reason_table.
    destruct (asked_for t && _); split; cbn; auto.
  Qed.
End Corollaries.

(** * non-trivial instances *)
Definition ex_wire : bytes :=   (* HTTP/1.1 100 C\r\n\r\nHTTP/1.1 200 OK\r\nTransfer-Encoding: chunked\r\n\r\n3\r\nabc\r\n0\r\n\r\n *)
  [72;84;84;80;47;49;46;49;32;49;48;48;32;67;13;10;13;10;
   72;84;84;80;47;49;46;49;32;50;48;48;32;79;75;13;10;
   84;114;97;110;115;102;101;114;45;69;110;99;111;100;105;110;103;58;32;99;104;117;110;107;101;100;13;10;13;10;
   51;13;10;97;98;99;13;10;48;13;10;13;10].

Example read_complete :
  whole_events false ex_wire = [PHead 200 FChunked; PData [97]; PData [98]; PData [99]; PFinish].
Proof. vm_compute. reflexivity. Qed.

Example read_truncated :
  whole_events false (firstn 70 ex_wire) = [PHead 200 FChunked; PData [97]; PData [98]]
  /\ whole_events false (firstn 40 ex_wire) = [].
Proof. split; vm_compute; reflexivity. Qed.

Example session_truncated :
  let s := run (session false [firstn 30 ex_wire; firstn 38 (skipn 30 ex_wire)] [firstn 2 (skipn 68 ex_wire)] TBetween true) in
  m_fired s = [FResponse 200] /\ m_delivered s = [97; 98] /\ m_closed s = [RFailed].
Proof. vm_compute. repeat split. Qed.
