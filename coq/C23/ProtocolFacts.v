(** C23: the protocol layer - the request Deferred fires at most once in every history, exactly once
    once the connection is lost or the request cancelled (repaired code); witnesses for the pinned
    code. *)
From Coq Require Import List NArith Bool Arith Lia.
From TwLib Require Import HttpClientBytes Seg.
From C23 Require Import Model Proofs Protocol.
Import ListNotations.
Local Open Scope N_scope.

(** * facts about the inner machine *)
Lemma inv_fired_le1 : forall i, Inv i -> (length (m_fired i) <= 1)%nat.
Proof.
  intros i [Hf _ _ _].
  destruct Hf as [(_ & _ & H) | [(_ & c & H) | (_ & _ & [H | H])]]; rewrite H; cbn; lia.
Qed.

Lemma inv_gone_fired : forall i, Inv i -> m_gone i = true -> m_fired i <> [].
Proof.
  intros i [Hf _ _ _] Hg.
  destruct Hf as [(_ & Hx & _) | [(_ & c & H) | (_ & _ & [H | H])]]; try congruence; rewrite H; discriminate.
Qed.

Lemma inv_head_fired : forall i, Inv i -> m_head i = true -> m_fired i <> [].
Proof.
  intros i [Hf _ _ _] Hh.
  destruct Hf as [(Hx & _) | [(_ & c & H) | (Hx & _)]]; try congruence; rewrite H; discriminate.
Qed.

Lemma inv_unfired : forall i, Inv i -> m_fired i = [] -> m_gone i = false /\ m_head i = false.
Proof.
  intros i Hi Hf. split.
  - destruct (m_gone i) eqn:E; [|reflexivity]. exfalso. now apply (inv_gone_fired i Hi E).
  - destruct (m_head i) eqn:E; [|reflexivity]. exfalso. now apply (inv_head_fired i Hi E).
Qed.

Lemma fired_grows : forall i e, exists l, m_fired (step i e) = m_fired i ++ l.
Proof.
  intros [ever gone head fr fin resp buf fired deliv closed recv asked] e.
  destruct e as [ | c f | d | | | | ]; destruct resp, gone, head, fin; cbn;
    try (destruct (immediate f); cbn);
    try (exists []; now rewrite app_nil_r); eexists; reflexivity.
Qed.

Lemma fired_stays : forall i e, m_fired i <> [] -> m_fired (step i e) <> [].
Proof.
  intros i e H. destruct (fired_grows i e) as [l Hl]. rewrite Hl.
  destruct (m_fired i); [contradiction | discriminate].
Qed.

Lemma lost_gone_step : forall i, m_gone (step i PLost) = true.
Proof. intro i. apply disconnect_gone. Qed.

Lemma bad_gone_step : forall i, m_gone (step i PBad) = true.
Proof. intro i. apply disconnect_gone. Qed.

Lemma head_step_head : forall i c f,
  m_gone i = false -> m_head i = false -> m_head (step i (PHead c f)) = true.
Proof.
  intros [ever gone head fr fin resp buf fired deliv closed recv asked] c f Hg Hh. cbn in *. subst.
  cbn. destruct (immediate f); reflexivity.
Qed.

Lemma finish_step_gone : forall i,
  m_gone i = false -> m_head i = true -> m_gone (step i PFinish) = true.
Proof.
  intros [ever gone head fr fin resp buf fired deliv closed recv asked] Hg Hh. cbn in *. subst.
  cbn. destruct resp; reflexivity.
Qed.

(** * the invariant of the repaired protocol layer *)
Definition fired_ne (s : xstate) : Prop := request_fired s <> [].

Record XInv (s : xstate) : Prop := mkXInv {
  xi_inner : Inv (x_in s);
  xi_orphan : x_orphan s = false;
  xi_excl : x_chained s = true -> x_direct s = [];
  xi_direct : (length (x_direct s) <= 1)%nat;
  xi_state :
    match x_pst s with
    | STransmitting => x_chained s = false /\ x_direct s = []
    | SWaiting => x_chained s = true
    | SAborting => x_chained s = true \/ x_direct s <> []
    | SAfter | SQuiescent => x_chained s = true /\ m_fired (x_in s) <> []
    | SGenFailed => x_direct s <> []
    | SLost => fired_ne s
    end }.

Lemma xinv_init_waiting : XInv xinit_waiting.
Proof. constructor; cbn; auto using inv_init. Qed.

Lemma xinv_init_transmitting : XInv xinit_transmitting.
Proof. constructor; cbn; auto using inv_init. Qed.

Lemma fired_ne_chained : forall s, x_chained s = true -> m_fired (x_in s) <> [] -> fired_ne s.
Proof.
  intros s Hc Hf. unfold fired_ne, request_fired. rewrite Hc.
  destruct (m_fired (x_in s)); [contradiction|]. destruct (x_direct s); discriminate.
Qed.

Lemma fired_ne_direct : forall s, x_direct s <> [] -> fired_ne s.
Proof. intros s H. unfold fired_ne, request_fired. destruct (x_direct s); [contradiction | discriminate]. Qed.

Lemma request_fired_le1 : forall s, XInv s -> (length (request_fired s) <= 1)%nat.
Proof.
  intros s [Hi _ He Hd _]. unfold request_fired. destruct (x_chained s).
  - rewrite (He eq_refl). cbn. rewrite map_length. now apply inv_fired_le1.
  - now rewrite app_nil_r.
Qed.

Lemma is_unfired_false : forall s, fired_ne s -> is_unfired s = false.
Proof. intros s H. unfold is_unfired, fired_ne in *. destruct (request_fired s); [contradiction | reflexivity]. Qed.

Lemma is_unfired_true : forall s, is_unfired s = true -> request_fired s = [].
Proof. intros s H. unfold is_unfired in H. destruct (request_fired s); [reflexivity | discriminate]. Qed.

(** a transition that only lets the inner machine take a step keeps the invariant *)
Lemma xinv_with_in : forall s e, XInv s -> XInv (with_in s (step (x_in s) e)).
Proof.
  intros [pst chained inn direct stops orphan] e [Hi Ho He Hd Hs]. cbn in *.
  constructor; cbn; auto using inv_step.
  destruct pst; auto.
  - destruct Hs as [Hc Hf]. split; [assumption | now apply fired_stays].
  - unfold fired_ne, request_fired in *. cbn in *. destruct chained.
    + rewrite (He eq_refl) in *. cbn in *.
      destruct (m_fired inn) eqn:E; [contradiction|].
      assert (Hn : m_fired (step inn e) <> []) by (apply fired_stays; rewrite E; discriminate).
      destruct (m_fired (step inn e)); [contradiction | discriminate].
    + assumption.
  - destruct Hs as [Hc Hf]. split; [assumption | now apply fired_stays].
Qed.


Ltac xs := cbn [x_pst x_chained x_in x_direct x_stops x_orphan with_in fire_direct request_fired app map fired_ne] in *.
Ltac xg := cbn [x_pst x_chained x_in x_direct x_stops x_orphan with_in fire_direct length app].
Ltac fin := xg; auto; try (intros; discriminate); try (cbn; lia).

Lemma xinv_step : forall s e, XInv s -> XInv (xstep false s e).
Proof.
  intros s e HX. pose proof HX as [Hi Ho He Hd Hs].
  destruct e as [e' | | | | ].
  - (* parser / connection / deliverBody events *)
    destruct e' as [ | c f | d | | | | ].
    + apply (xinv_with_in s PRecv HX).
    + (* PHead *)
      cbn [xstep]. destruct (m_gone (x_in s) || m_head (x_in s)) eqn:Eg; [assumption|].
      apply orb_false_iff in Eg. destruct Eg as [Eg Eh].
      destruct (immediate f); [|apply (xinv_with_in s (PHead c f) HX)].
      unfold finish_response. cbn [andb].
      assert (Hf : m_fired (step (x_in s) (PHead c f)) <> []).
      { apply inv_head_fired; [now apply inv_step | now apply head_step_head]. }
      destruct s as [pst chained inn direct stops orphan]; xs.
      destruct pst; try apply (xinv_with_in (mkX _ chained inn direct stops orphan) (PHead c f) HX).
      * destruct Hs as [Hc Hdd]. subst. constructor; fin; auto using inv_step.
      * subst. constructor; fin; auto using inv_step.
    + apply (xinv_with_in s (PData d) HX).
    + (* PFinish *)
      cbn [xstep]. destruct (m_gone (x_in s) || negb (m_head (x_in s)) || m_fin (x_in s)) eqn:Eg; [assumption|].
      apply orb_false_iff in Eg. destruct Eg as [Eg _]. apply orb_false_iff in Eg. destruct Eg as [Eg Eh].
      apply negb_false_iff in Eh.
      unfold finish_response. cbn [andb].
      assert (Hf : m_fired (step (x_in s) PFinish) <> []).
      { apply fired_stays. now apply inv_head_fired. }
      destruct s as [pst chained inn direct stops orphan]; xs.
      destruct pst; try apply (xinv_with_in (mkX _ chained inn direct stops orphan) PFinish HX).
      * destruct Hs as [Hc Hdd]. subst. constructor; fin; auto using inv_step.
      * subst. constructor; fin; auto using inv_step.
    + (* PBad *)
      cbn [xstep].
      destruct s as [pst chained inn direct stops orphan]; xs.
      destruct pst; try apply (xinv_with_in (mkX _ chained inn direct stops orphan) PBad HX).
      destruct (m_gone inn) eqn:Eg; [assumption|].
      destruct Hs as [Hc Hdd]. subst. constructor; fin; auto using inv_step.
      split; [reflexivity|]. apply inv_gone_fired; [now apply inv_step | apply bad_gone_step].
    + (* PLost *)
      cbn [xstep].
      destruct s as [pst chained inn direct stops orphan]; xs. subst orphan.
      destruct pst; cbn [fire_direct x_orphan].
      * destruct Hs as [Hc Hdd]. subst. constructor; fin; try (apply fired_ne_direct; discriminate).
      * subst. constructor; fin; auto using inv_step;
          try (apply fired_ne_chained; xg; [reflexivity|];
               apply inv_gone_fired; [now apply inv_step | apply lost_gone_step]).
      * destruct Hs as [Hc Hf]. constructor; fin; try (now apply fired_ne_chained).
      * constructor; fin; try (now apply fired_ne_direct).
      * constructor; fin; auto using inv_step;
          try (destruct Hs as [Hc | Hdd];
               [subst; apply fired_ne_chained; xg; [reflexivity|];
                apply inv_gone_fired; [now apply inv_step | apply lost_gone_step]
               | now apply fired_ne_direct]).
      * assumption.
      * destruct Hs as [Hc Hf]. constructor; fin; try (now apply fired_ne_chained).
    + (* UDeliver *)
      cbn [xstep]. destruct (has_response s); [apply (xinv_with_in s UDeliver HX) | assumption].
  - (* QDone *)
    cbn [xstep]. destruct s as [pst chained inn direct stops orphan]; xs. subst orphan.
    destruct pst; try assumption.
    destruct Hs as [Hc Hdd]. subst. constructor; fin.
  - (* QFail *)
    cbn [xstep]. destruct s as [pst chained inn direct stops orphan]; xs. subst orphan.
    destruct pst; try assumption. cbn [fire_direct x_orphan].
    destruct Hs as [Hc Hdd]. subst. constructor; fin; discriminate.
  - (* UAbort *)
    cbn [xstep]. destruct s as [pst chained inn direct stops orphan]; xs. subst orphan.
    destruct pst; try assumption; try (constructor; fin; fail).
    + destruct Hs as [Hc Hdd]. subst. constructor; fin.
    + destruct Hs as [Hc Hf]. constructor; fin.
    + destruct Hs as [Hc Hf]. constructor; fin.
  - (* UCancel *)
    cbn [xstep]. destruct (is_unfired s) eqn:Eu; cbn [negb]; [|assumption].
    pose proof (is_unfired_true s Eu) as Hnil.
    destruct s as [pst chained inn direct stops orphan]; xs. subst orphan.
    unfold request_fired in Hnil. xs. apply app_eq_nil in Hnil. destruct Hnil as [Hd0 Hin0]. subst direct.
    destruct pst.
    + (* STransmitting *)
      cbn [fire_direct x_orphan]. destruct Hs as [Hc _]. subst chained.
      cbn. constructor; fin; discriminate.
    + (* SWaiting *)
      subst chained. xs. apply map_eq_nil in Hin0.
      set (s1 := with_in (mkX SWaiting true inn [] stops false) (step inn PLost)).
      assert (H1 : XInv s1) by (apply (xinv_with_in (mkX SWaiting true inn [] stops false) PLost HX)).
      assert (Hf1 : fired_ne s1).
      { apply fired_ne_chained; xg; [reflexivity|].
        apply inv_gone_fired; [now apply inv_step | apply lost_gone_step]. }
      rewrite (is_unfired_false s1 Hf1). exact H1.
    + (* SAfter *)
      destruct Hs as [Hc Hf]. subst chained. xs. apply map_eq_nil in Hin0. contradiction.
    + (* SGenFailed *) contradiction.
    + (* SAborting *)
      destruct Hs as [Hc | Hdd]; [|contradiction]. subst chained.
      set (s1 := with_in (mkX SAborting true inn [] stops false) (step inn PLost)).
      assert (H1 : XInv s1) by (apply (xinv_with_in (mkX SAborting true inn [] stops false) PLost HX)).
      assert (Hf1 : fired_ne s1).
      { apply fired_ne_chained; xg; [reflexivity|].
        apply inv_gone_fired; [now apply inv_step | apply lost_gone_step]. }
      rewrite (is_unfired_false s1 Hf1). exact H1.
    + (* SLost *)
      exfalso. apply Hs. unfold request_fired. cbn. now rewrite Hin0.
    + (* SQuiescent *)
      destruct Hs as [Hc Hf]. subst chained. xs. apply map_eq_nil in Hin0. contradiction.
Qed.

Lemma xinv_run : forall evs s, XInv s -> XInv (xrun false s evs).
Proof.
  induction evs as [|e evs IH]; intros s H; [assumption|].
  cbn [xrun fold_left]. apply IH. now apply xinv_step.
Qed.

(** * at most once, in every history *)
Theorem request_at_most_once : forall evs s0,
  (s0 = xinit_waiting \/ s0 = xinit_transmitting) ->
  (length (request_fired (xrun false s0 evs)) <= 1)%nat.
Proof.
  intros evs s0 H. apply request_fired_le1. apply xinv_run.
  destruct H; subst; [apply xinv_init_waiting | apply xinv_init_transmitting].
Qed.

(** * exactly once after the connection is lost *)
Lemma lost_sets_lost : forall s, x_pst (xstep false s (XP PLost)) = SLost.
Proof.
  intros [pst chained inn direct stops orphan]. cbn [xstep x_pst].
  destruct pst; cbn [fire_direct x_orphan x_pst]; try reflexivity. destruct orphan; reflexivity.
Qed.

Lemma lost_absorbing : forall s e, x_pst s = SLost -> x_pst (xstep false s e) = SLost.
Proof.
  intros [pst chained inn direct stops orphan] e H. cbn in H. subst pst.
  destruct e as [e' | | | | ]; try reflexivity.
  - destruct e'; cbn [xstep x_pst x_in with_in finish_response andb];
      repeat match goal with
             | |- context [if ?c then _ else _] => destruct c
             end; reflexivity.
  - cbn [xstep]. destruct (negb (is_unfired _)); [reflexivity|].
    cbn [x_pst with_in]. destruct (is_unfired _); reflexivity.
Qed.

Lemma lost_run : forall evs s, x_pst s = SLost -> x_pst (xrun false s evs) = SLost.
Proof.
  induction evs as [|e evs IH]; intros s H; [assumption|].
  cbn [xrun fold_left]. apply IH. now apply lost_absorbing.
Qed.

Lemma lost_in_run : forall evs s, In (XP PLost) evs -> x_pst (xrun false s evs) = SLost.
Proof.
  induction evs as [|e evs IH]; intros s H; [contradiction|].
  cbn [xrun fold_left]. destruct H as [-> | H].
  - apply lost_run. apply lost_sets_lost.
  - now apply IH.
Qed.

Theorem request_exactly_once_after_loss : forall evs s0,
  (s0 = xinit_waiting \/ s0 = xinit_transmitting) -> In (XP PLost) evs ->
  length (request_fired (xrun false s0 evs)) = 1%nat.
Proof.
  intros evs s0 H0 Hl.
  assert (HX : XInv (xrun false s0 evs)).
  { apply xinv_run. destruct H0; subst; [apply xinv_init_waiting | apply xinv_init_transmitting]. }
  pose proof (request_fired_le1 _ HX) as Hle.
  pose proof (lost_in_run evs s0 Hl) as Hp.
  destruct HX as [_ _ _ _ Hs]. rewrite Hp in Hs. unfold fired_ne in Hs.
  destruct (request_fired (xrun false s0 evs)); [contradiction|]. cbn in *. lia.
Qed.

(** * the pinned code: three histories after which the request Deferred has never fired *)
Lemma legacy_abort_while_transmitting :
  request_fired (xrun true xinit_transmitting [UAbort; XP PLost]) = []
  /\ request_fired (xrun true xinit_transmitting [UAbort; QDone; XP PLost]) = [].
Proof. split; vm_compute; reflexivity. Qed.

Lemma legacy_bodyless_response_while_aborting :
  request_fired (xrun true xinit_waiting [UAbort; XP PRecv; XP (PHead 204 FNoBody); XP PLost]) = [].
Proof. vm_compute. reflexivity. Qed.

Lemma legacy_parse_error_while_transmitting :
  request_fired (xrun true xinit_transmitting [XP PRecv; XP PBad; QDone; XP PLost]) = []
  /\ request_fired (xrun true xinit_transmitting [XP PRecv; XP PBad; XP PLost]) = [].
Proof. split; vm_compute; reflexivity. Qed.

Lemma legacy_refuted :
  exists s0 evs, (s0 = xinit_waiting \/ s0 = xinit_transmitting) /\ In (XP PLost) evs
                 /\ length (request_fired (xrun true s0 evs)) <> 1%nat.
Proof.
  exists xinit_transmitting, [UAbort; XP PLost]. split; [now right|]. split; [right; now left|].
  vm_compute. discriminate.
Qed.

(** * a connection driven by deliveries and application calls is such a history *)
Lemma play_is_xrun : forall hm ops ps s,
  exists evs, play false hm ops ps s = xrun false s evs
              /\ (In OLost ops -> In (XP PLost) evs).
Proof.
  induction ops as [|o ops IH]; intros ps s.
  - exists []. split; [reflexivity | intros []].
  - destruct o; cbn [play].
    + destruct (pfeed hm ps b) as [pe ps'].
      set (es := map XP ((if is_nil b then [] else [PRecv]) ++ pe)).
      destruct (IH ps' (fold_left (xstep false) es s)) as (evs & He & Hl).
      exists (es ++ evs). split.
      * unfold xrun in *. now rewrite fold_left_app.
      * intros [Hd | Hin]; [discriminate|]. apply in_or_app. right. now apply Hl.
    + destruct (IH ps (xstep false s QDone)) as (evs & He & Hl). exists (QDone :: evs).
      split; [exact He|]. intros [Hd | Hin]; [discriminate | right; now apply Hl].
    + destruct (IH ps (xstep false s QFail)) as (evs & He & Hl). exists (QFail :: evs).
      split; [exact He|]. intros [Hd | Hin]; [discriminate | right; now apply Hl].
    + destruct (IH ps (xstep false s UAbort)) as (evs & He & Hl). exists (UAbort :: evs).
      split; [exact He|]. intros [Hd | Hin]; [discriminate | right; now apply Hl].
    + destruct (IH ps (xstep false s UCancel)) as (evs & He & Hl). exists (UCancel :: evs).
      split; [exact He|]. intros [Hd | Hin]; [discriminate | right; now apply Hl].
    + destruct (IH ps (xstep false s (XP UDeliver))) as (evs & He & Hl). exists (XP UDeliver :: evs).
      split; [exact He|]. intros [Hd | Hin]; [discriminate | right; now apply Hl].
    + destruct (IH ps (xstep false s (XP PLost))) as (evs & He & Hl). exists (XP PLost :: evs).
      split; [exact He|]. intros _. now left.
Qed.

Theorem connection_completes_request_exactly_once : forall hm transmitting ops,
  let s := play false hm ops pinit (if transmitting : bool then xinit_transmitting else xinit_waiting) in
  (length (request_fired s) <= 1)%nat
  /\ (In OLost ops -> length (request_fired s) = 1%nat)
  /\ (length (m_closed (x_in s)) <= 1)%nat
  /\ (m_asked (x_in s) = true -> m_delivered (x_in s) = m_received (x_in s)).
Proof.
  intros hm transmitting ops s.
  set (s0 := if transmitting then xinit_transmitting else xinit_waiting) in *.
  assert (H0 : s0 = xinit_waiting \/ s0 = xinit_transmitting) by (unfold s0; destruct transmitting; auto).
  destruct (play_is_xrun hm ops pinit s0) as (evs & He & Hl). fold s in He.
  assert (HX : XInv s).
  { rewrite He. apply xinv_run. destruct H0 as [-> | ->]; [apply xinv_init_waiting | apply xinv_init_transmitting]. }
  split; [rewrite He; now apply request_at_most_once|].
  split; [intro Hlo; rewrite He; apply request_exactly_once_after_loss; auto|].
  destruct HX as [[_ Hb Hr _] _ _ _ _].
  split.
  - destruct (m_resp (x_in s));
      repeat match goal with H : _ /\ _ |- _ => destruct H end;
      match goal with H : m_closed _ = _ |- _ => rewrite H end; cbn; lia.
  - intro Ha. destruct (m_resp (x_in s));
      repeat match goal with H : _ /\ _ |- _ => destruct H end; try congruence;
      match goal with H : m_buf _ = [] |- _ => rewrite H, app_nil_r in Hb end; assumption.
Qed.

(** * re-entrancy: when the body decoder finishes on a connection whose request was written, the
      protocol is already QUIESCENT (and, in the code, the per-request attributes already cleared)
      at the moment the consumer is told; a request the application issues from there is accepted
      and runs on a clean protocol ([two_requests]) *)
Lemma consumer_told_when_quiescent : forall s,
  x_pst s = SWaiting -> m_gone (x_in s) = false -> m_head (x_in s) = true -> m_fin (x_in s) = false ->
  m_resp (x_in s) = RConnected ->
  let s' := xstep false s (XP PFinish) in
  x_pst s' = SQuiescent
  /\ m_closed (x_in s') = m_closed (x_in s) ++ [reason_of (m_frame (x_in s)) true]
  /\ hit TrClose s s' = is_nil_list (m_closed (x_in s)).
Proof.
  intros [pst chained [ever gone head fr fin resp buf fired deliv closed recv asked] direct stops orphan]
         Hp Hg Hh Hf Hr. cbn in *. subst. cbn.
  repeat split. unfold hit. cbn. destruct closed; reflexivity.
Qed.

Lemma second_request_on_clean_protocol : forall hm1 cs1 t1 tr hm2 tx2 ops2 s2,
  snd (two_requests hm1 cs1 t1 tr hm2 tx2 ops2) = Ran s2 ->
  s2 = play false hm2 ops2 pinit (if tx2 then xinit_transmitting else xinit_waiting).
Proof.
  intros hm1 cs1 t1 tr hm2 tx2 ops2 s2. unfold two_requests.
  destruct (run_until tr _ xinit_waiting) as [s1 [p|]]; cbn [snd]; [|discriminate].
  destruct p; try discriminate. now intros [=].
Qed.
