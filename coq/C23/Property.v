(** C23 property theorems.  Model.v has two layers: [scan] (what the parser has made of all the bytes
    received so far; byte level, tied to the code by the correspondence run on every truncation
    point x random segmentation) and the event machine [run] (allHeadersReceived / body decoder
    callbacks / _giveUp / connectionLost / Response delivery states).

    FULL statements (properties.jsonl C23): for any response bytes, any segmentation and connection
    loss at any byte position, (a) the request Deferred fires exactly once, with the response iff
    its headers are complete; (b) the body delivered equals the body bytes received; (c) the
    consumer's connectionLost is called exactly once with ResponseDone / PotentialDataLoss /
    a failure.  What is PROVED below is each statement for EVERY history of parser events and
    deliverBody calls of the event machine (any order, any length); the step from bytes and
    segmentations to parser events ([scan], [Run.ops]) is validated by the correspondence run only.
    Hence the names `_partial`. *)
From Coq Require Import List NArith Bool.
From TwLib Require Import HttpClientBytes.
From C23 Require Import Model Proofs.
Import ListNotations.

(** (a) at most one firing in every history; exactly one once the connection was lost or the
    parser gave up; it is the response exactly when the headers were completed before that *)
Theorem request_deferred_fires_once_partial : forall evs,
  (length (m_fired (run evs)) <= 1)%nat
  /\ ((In PLost evs \/ In PBad evs) -> length (m_fired (run evs)) = 1%nat)
  /\ (m_head (run evs) = true <-> exists c, m_fired (run evs) = [FResponse c]).
Proof. exact fires_once. Qed.
Print Assumptions request_deferred_fires_once_partial.

(** (b) in every history: delivered ++ still buffered = accepted from the decoder; once the consumer
    has been asked for (deliverBody) or closed, nothing is buffered: delivered = received, in order,
    nothing lost, nothing duplicated, whenever deliverBody was called *)
Theorem body_delivered_equals_body_received_partial : forall evs,
  let s := run evs in
  m_delivered s ++ m_buf s = m_received s
  /\ (m_closed s <> [] -> m_delivered s = m_received s)
  /\ (m_asked s = true -> m_delivered s = m_received s).
Proof. exact body_exact. Qed.
Print Assumptions body_delivered_equals_body_received_partial.

(** (c) in every history the consumer's connectionLost is called at most once, only after
    deliverBody, exactly once when the response exists, the parser has been disconnected and
    deliverBody was called; its reason is [reason_of framing finished]: ResponseDone iff no body
    was expected or the decoder finished, PotentialDataLoss iff the body is close-delimited,
    ResponseFailed otherwise *)
Theorem consumer_connectionLost_once_with_classified_reason_partial : forall evs,
  let s := run evs in
  (length (m_closed s) <= 1)%nat
  /\ (forall r, In r (m_closed s) -> r = reason_of (m_frame s) (m_fin s))
  /\ (m_head s = true -> m_gone s = true -> m_asked s = true -> length (m_closed s) = 1%nat)
  /\ (m_asked s = false -> m_closed s = []).
Proof. exact closed_once. Qed.
Print Assumptions consumer_connectionLost_once_with_classified_reason_partial.

Theorem reason_classification : forall f fin,
  reason_of f fin =
  match f with
  | FClose => RPotentialDataLoss
  | FNoBody => RDone
  | FLen n => if N.eqb n 0 || fin then RDone else RFailed
  | FChunked => if fin then RDone else RFailed
  end.
Proof. exact reason_table. Qed.
Print Assumptions reason_classification.
