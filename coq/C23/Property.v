(** C23 property theorems: the HTTP client completes every request exactly once with the exact body.

    Model.v: [pstep]/[parse] = HTTPClientParser with its line receiver and body decoders as a framed
    receiver (Lib/Seg.v), fed delivery by delivery ([pfeed]); [step]/[run] = the event machine
    (allHeadersReceived, decoder callbacks, _giveUp, connectionLost, Response delivery states) with
    ghost logs; [session hm cs1 cs2 t lost] = the events of a connection on which the bytes arrive
    as the deliveries [cs1] then [cs2], deliverBody is called at time [t] (never / between the two
    groups, or from the Deferred's callback if the response is not there yet / after the loss)
    and the connection is finally lost or not.  [whole_events hm received] is the parser's reading
    of the received bytes taken as one piece.

    Every theorem quantifies over ALL byte strings (hence every response, well-formed or not, and
    every truncation point: [received] is whatever arrived), ALL segmentations, ALL four deliverBody
    timings, lost or not, HEAD or not. *)
From Coq Require Import List NArith Bool.
From TwLib Require Import HttpClientBytes Seg.
From C23 Require Import Model Proofs ParserFacts SessionFacts ResponseSpec ReadBack Protocol ProtocolFacts.
Import ListNotations.

(** the parser emits the same events and ends in the same state however the stream is cut *)
Theorem parser_is_segmentation_invariant : forall hm cs s,
  concat cs = s -> Seg.run (pfeed hm) pinit cs = parse hm MStatus s.
Proof. exact parse_all_chunkings. Qed.
Print Assumptions parser_is_segmentation_invariant.

(** what it has emitted for a prefix (= at a truncation point) is a prefix of what it emits for
    the whole stream: events never change retroactively *)
Theorem parser_reading_is_prefix_monotone : forall hm a b,
  exists more, whole_events hm (a ++ b) = whole_events hm a ++ more.
Proof. exact whole_events_monotone. Qed.
Print Assumptions parser_reading_is_prefix_monotone.

(** its reading has one of three shapes: nothing yet / failed before a response / a response
    followed by body bytes and at most one terminal event *)
Theorem parser_reading_shape : forall hm received,
  let W := whole_events hm received in
  W = [] \/ W = [PBad]
  \/ exists c f ds tl, W = PHead c f :: map (fun x => PData [x]) ds ++ tail_events tl
                       /\ (immediate f = true -> ds = [] /\ tl = TOpen).
Proof. exact whole_events_shaped. Qed.
Print Assumptions parser_reading_shape.

(** THE outcome of a session, for every stream / segmentation / truncation / timing: it depends on
    the bytes received only through [whole_events] (not on how they were cut, nor on when
    deliverBody was called) *)
Theorem session_outcome_for_every_stream_segmentation_and_truncation : forall hm cs1 cs2 t lost,
  let received := concat (cs1 ++ cs2) in
  let W := whole_events hm received in
  let s := run (session hm cs1 cs2 t lost) in
  m_fired s = expected_fired W (is_nil received) lost
  /\ m_delivered s = expected_delivered W t
  /\ m_closed s = expected_closed W t lost.
Proof. exact session_outcome. Qed.
Print Assumptions session_outcome_for_every_stream_segmentation_and_truncation.

(** (a) the request Deferred fires at most once, exactly once when the connection is lost; with the
    response exactly when the parser's reading of the received bytes contains a complete head;
    otherwise with ResponseFailed, or ResponseNeverReceived when nothing at all arrived *)
Theorem request_deferred_fires_once : forall hm cs1 cs2 t lost,
  let received := concat (cs1 ++ cs2) in
  let W := whole_events hm received in
  let s := run (session hm cs1 cs2 t lost) in
  (length (m_fired s) <= 1)%nat
  /\ (lost = true -> length (m_fired s) = 1%nat)
  /\ (forall c, m_fired s = [FResponse c] <-> exists f, head_of W = Some (c, f))
  /\ (head_of W = None -> lost = true -> m_fired s = [if is_nil received then FNever else FFailed]).
Proof. exact fires_once_bytes. Qed.
Print Assumptions request_deferred_fires_once.

(** (b) whenever deliverBody is called on a response, the consumer receives exactly the body bytes
    decoded from what was received, in order, whatever the segmentation and the timing *)
Theorem body_delivered_equals_body_received : forall hm cs1 cs2 t lost,
  let W := whole_events hm (concat (cs1 ++ cs2)) in
  m_delivered (run (session hm cs1 cs2 t lost)) =
  match head_of W with
  | Some _ => if asked_for t then body_of W else []
  | None => []
  end.
Proof. exact body_exact_bytes. Qed.
Print Assumptions body_delivered_equals_body_received.

(** (c) the consumer's connectionLost is called at most once; once deliverBody was called on a
    response and the body has ended (decoder finished, no body expected, malformed, or connection
    lost) exactly once, with ResponseDone if no body was expected or the decoder finished,
    PotentialDataLoss for a close-delimited body, ResponseFailed for a truncated or malformed one *)
Theorem consumer_connectionLost_once_with_classified_reason : forall hm cs1 cs2 t lost,
  let W := whole_events hm (concat (cs1 ++ cs2)) in
  let s := run (session hm cs1 cs2 t lost) in
  (length (m_closed s) <= 1)%nat
  /\ m_closed s =
     match head_of W with
     | Some (_, f) =>
         if asked_for t && (lost || finished W || failed W || immediate f)
         then [match f with
               | FClose => RPotentialDataLoss
               | FNoBody => RDone
               | FLen n => if N.eqb n 0 || finished W then RDone else RFailed
               | FChunked => if finished W then RDone else RFailed
               end]
         else []
     | None => []
     end.
Proof. exact closed_once_bytes. Qed.
Print Assumptions consumer_connectionLost_once_with_classified_reason.

(** link to the response grammar (ResponseSpec.v, independent of the parser): ANY well-formed
    response - interim 1xx responses carrying ANY header lines (framing headers included: they are
    discarded with the interim response), any status line, any header lines other than the framing
    ones, body absent / Content-Length / chunked (any chunking) / close-delimited - followed by
    ANY bytes is read as exactly the intended events ... *)
Theorem well_formed_response_read_back : forall hm r extra,
  wf_response hm r -> whole_events hm (serialize r ++ extra) = expected_reading r extra.
Proof. exact response_read_back. Qed.
Print Assumptions well_formed_response_read_back.

(** ... every truncation of it as a prefix of them (head not yet / head and a prefix of the body /
    everything) ... *)
Theorem truncated_response_read_as_prefix : forall hm r extra k,
  wf_response hm r ->
  exists more, expected_reading r extra = whole_events hm (firstn k (serialize r ++ extra)) ++ more.
Proof. exact truncated_response_reading. Qed.
Print Assumptions truncated_response_read_as_prefix.

(** ... so that a complete response, cut into deliveries in ANY way, with deliverBody called at
    ANY time, followed by the loss of the connection: the Deferred fires once with the response,
    the consumer gets exactly the body (for a close-delimited body: everything that followed the
    head) and is closed once with ResponseDone (PotentialDataLoss when close-delimited) *)
Theorem complete_response_delivered_exactly : forall hm r extra cs1 cs2 t,
  wf_response hm r -> concat (cs1 ++ cs2) = serialize r ++ extra ->
  let s := run (session hm cs1 cs2 t true) in
  m_fired s = [FResponse (r_code r)]
  /\ m_delivered s = (if asked_for t
                     then match r_body r with
                          | BNone => []
                          | BLen body => body
                          | BChunked cs => concat cs
                          | BClose body => body ++ extra
                          end
                     else [])
  /\ m_closed s = (if asked_for t
                  then [match r_body r with BClose _ => RPotentialDataLoss | _ => RDone end]
                  else []).
Proof. exact complete_response_session. Qed.
Print Assumptions complete_response_delivered_exactly.

(** the same three statements for EVERY history of parser events and deliverBody calls of the event
    machine (any order, any length), not only those a parser can produce *)
Theorem request_deferred_fires_once_all_histories : forall evs,
  (length (m_fired (run evs)) <= 1)%nat
  /\ ((In PLost evs \/ In PBad evs) -> length (m_fired (run evs)) = 1%nat)
  /\ (m_head (run evs) = true <-> exists c, m_fired (run evs) = [FResponse c]).
Proof. exact fires_once. Qed.
Print Assumptions request_deferred_fires_once_all_histories.

Theorem body_delivered_equals_body_received_all_histories : forall evs,
  let s := run evs in
  m_delivered s ++ m_buf s = m_received s
  /\ (m_closed s <> [] -> m_delivered s = m_received s)
  /\ (m_asked s = true -> m_delivered s = m_received s).
Proof. exact body_exact. Qed.
Print Assumptions body_delivered_equals_body_received_all_histories.

Theorem consumer_connectionLost_once_all_histories : forall evs,
  let s := run evs in
  (length (m_closed s) <= 1)%nat
  /\ (forall r, In r (m_closed s) -> r = reason_of (m_frame s) (m_fin s))
  /\ (m_head s = true -> m_gone s = true -> m_asked s = true -> length (m_closed s) = 1%nat)
  /\ (m_asked s = false -> m_closed s = []).
Proof. exact closed_once. Qed.
Print Assumptions consumer_connectionLost_once_all_histories.

(** * the protocol layer (Protocol.v): request still being transmitted, request generation failing,
    abort(), cancellation.  [xrun false] / [play false] model the code repaired by
    fixes/C23-abort-completes-request.patch and fixes/C23-parse-error-while-transmitting.patch,
    [xrun true] the pinned code. *)

(** in EVERY history of parser events, request-writing events, deliverBody / abort / cancel calls and
    connection loss, from either initial state, the request Deferred fires at most once ... *)
Theorem request_fires_at_most_once_in_every_protocol_history : forall evs s0,
  (s0 = xinit_waiting \/ s0 = xinit_transmitting) ->
  (length (request_fired (xrun false s0 evs)) <= 1)%nat.
Proof. exact request_at_most_once. Qed.
Print Assumptions request_fires_at_most_once_in_every_protocol_history.

(** ... and exactly once as soon as the connection has been lost *)
Theorem request_fires_exactly_once_after_loss_in_every_protocol_history : forall evs s0,
  (s0 = xinit_waiting \/ s0 = xinit_transmitting) -> In (XP PLost) evs ->
  length (request_fired (xrun false s0 evs)) = 1%nat.
Proof. exact request_exactly_once_after_loss. Qed.
Print Assumptions request_fires_exactly_once_after_loss_in_every_protocol_history.

(** FULL statement above is FALSE of the pinned code: abort() while the request is being
    transmitted; a body-less response completing after abort(); a parse error while the request is
    being transmitted - the connection is lost and the request Deferred has never fired *)
Theorem request_fires_exactly_once_after_loss_legacy_refuted :
  (exists s0 evs, (s0 = xinit_waiting \/ s0 = xinit_transmitting) /\ In (XP PLost) evs
                  /\ length (request_fired (xrun true s0 evs)) <> 1%nat)
  /\ request_fired (xrun true xinit_transmitting [UAbort; XP PLost]) = []
  /\ request_fired (xrun true xinit_waiting [UAbort; XP PRecv; XP (PHead 204 FNoBody); XP PLost]) = []
  /\ request_fired (xrun true xinit_transmitting [XP PRecv; XP PBad; QDone; XP PLost]) = [].
Proof.
  exact (conj legacy_refuted
          (conj (proj1 legacy_abort_while_transmitting)
             (conj legacy_bodyless_response_while_aborting (proj1 legacy_parse_error_while_transmitting)))).
Qed.
Print Assumptions request_fires_exactly_once_after_loss_legacy_refuted.

(** a connection driven by ANY sequence of byte deliveries (parsed incrementally), of the body
    producer finishing or failing, of deliverBody / abort() / cancel() calls and of the connection
    loss: at most one firing, exactly one once lost; the consumer is closed at most once and, once
    asked for, has received exactly what the decoder produced *)
Theorem connection_completes_request_exactly_once : forall hm transmitting ops,
  let s := play false hm ops pinit (if transmitting : bool then xinit_transmitting else xinit_waiting) in
  (length (request_fired s) <= 1)%nat
  /\ (In OLost ops -> length (request_fired s) = 1%nat)
  /\ (length (m_closed (x_in s)) <= 1)%nat
  /\ (m_asked (x_in s) = true -> m_delivered (x_in s) = m_received (x_in s)).
Proof. exact ProtocolFacts.connection_completes_request_exactly_once. Qed.
Print Assumptions connection_completes_request_exactly_once.

(** re-entrant use: when the decoder finishes the body of a response whose request was written, the
    protocol is QUIESCENT by the time the consumer's connectionLost runs, so a request the
    application issues from there is accepted ... *)
Theorem consumer_is_told_after_the_protocol_is_quiescent : forall s,
  x_pst s = SWaiting -> m_gone (x_in s) = false -> m_head (x_in s) = true -> m_fin (x_in s) = false ->
  m_resp (x_in s) = RConnected ->
  let s' := xstep false s (XP PFinish) in
  x_pst s' = SQuiescent
  /\ m_closed (x_in s') = m_closed (x_in s) ++ [reason_of (m_frame (x_in s)) true]
  /\ hit TrClose s s' = is_nil_list (m_closed (x_in s)).
Proof. exact consumer_told_when_quiescent. Qed.
Print Assumptions consumer_is_told_after_the_protocol_is_quiescent.

(** ... and, once accepted, is an exchange of its own on a clean protocol (to which every theorem
    above applies): nothing of the first exchange reaches it *)
Theorem second_request_runs_on_a_clean_protocol : forall hm1 cs1 t1 tr hm2 tx2 ops2 s2,
  snd (two_requests hm1 cs1 t1 tr hm2 tx2 ops2) = Ran s2 ->
  s2 = play false hm2 ops2 pinit (if tx2 then xinit_transmitting else xinit_waiting).
Proof. exact second_request_on_clean_protocol. Qed.
Print Assumptions second_request_runs_on_a_clean_protocol.
