(** C23 Model, protocol layer: HTTP11ClientProtocol's own state (TRANSMITTING / WAITING /
    TRANSMITTING_AFTER_RECEIVING_RESPONSE / GENERATION_FAILED / ABORTING / CONNECTION_LOST /
    QUIESCENT), the request Deferred as distinct from the parser's Deferred (they are chained only
    once the request is written, or the response is complete, or - repaired - abort() is called),
    request generation finishing or failing, abort() and cancellation of the request Deferred,
    wrapped around the event machine of Model.v (whose [m_fired] is the PARSER's Deferred).

    [legacy = false] is the behaviour with fixes/C23-abort-completes-request.patch:
      - abort() while TRANSMITTING chains the two Deferreds and stops the request being written;
      - a response that completes while ABORTING lets go of the parser (_finishResponse_ABORTING).
      - (fixes/C23-parse-error-while-transmitting.patch) when the protocol gives up on the parser
        (an exception in dataReceived) while TRANSMITTING, the two Deferreds are chained first and the
        state becomes TRANSMITTING_AFTER_RECEIVING_RESPONSE.
    [legacy = true] is the pinned code: in all three situations the request Deferred never fires
    (in the third, _disconnectParser forgets the request Deferred before anything was connected to
    it: [x_orphan]; a later connectionLost then raises AttributeError).
    No proofs here. *)
From Coq Require Import List NArith Bool.
From TwLib Require Import HttpClientBytes Seg.
From C23 Require Import Model.
Import ListNotations.
Local Open Scope N_scope.

Inductive pst := STransmitting | SWaiting | SAfter | SGenFailed | SAborting | SLost | SQuiescent.

Inductive xfire :=
| XInner (f : fire)     (* through the parser's Deferred: the response / ResponseFailed / ResponseNeverReceived *)
| XGenFailed            (* RequestGenerationFailed *)
| XTransFailed          (* RequestTransmissionFailed *)
| XCancelled.           (* CancelledError (Deferred.cancel's own errback) *)

Inductive xev :=
| XP (e : ev)           (* a parser / connection / deliverBody event of Model.v *)
| QDone                 (* Request.writeTo's Deferred fires: the request is written *)
| QFail                 (* ... fails: request generation failed *)
| UAbort                (* the application calls abort() *)
| UCancel.              (* the application cancels the request Deferred *)

Record xstate := mkX {
  x_pst : pst;
  x_chained : bool;            (* parser Deferred chained to the request Deferred *)
  x_in : mstate;
  x_direct : list xfire;       (* firings of the request Deferred not coming through the parser's *)
  x_stops : nat;               (* Request.stopWriting() calls *)
  x_orphan : bool }.           (* legacy only: the protocol has forgotten the request Deferred *)

(** everything the request Deferred's callbacks have seen *)
Definition request_fired (s : xstate) : list xfire :=
  x_direct s ++ (if x_chained s then map XInner (m_fired (x_in s)) else []).

Definition has_response (s : xstate) : bool := x_chained s && m_head (x_in s).

Definition xinit_waiting : xstate := mkX SWaiting true init [] 0 false.          (* body-less request: written at once *)
Definition xinit_transmitting : xstate := mkX STransmitting false init [] 0 false.

(** the parser is dropped without telling anybody (RuntimeError from the state dispatcher while the
    parser is in the DONE state: nothing is reported) *)
Definition kill_silently (s : mstate) : mstate :=
  mkM (m_ever s) true (m_head s) (m_frame s) (m_fin s) (m_resp s) (m_buf s)
      (m_fired s) (m_delivered s) (m_closed s) (m_received s) (m_asked s).

Definition is_nil_list {A} (l : list A) : bool := match l with [] => true | _ => false end.

Definition is_unfired (s : xstate) : bool := match request_fired s with [] => true | _ => false end.

Section Protocol.
  Variable legacy : bool.

  Definition with_in (s : xstate) (i : mstate) : xstate :=
    mkX (x_pst s) (x_chained s) i (x_direct s) (x_stops s) (x_orphan s).

  (** HTTPClientParser._finished -> _finishResponse_<state>, then the inner machine's reaction *)
  Definition finish_response (s : xstate) (e : ev) (immediate_head : bool) : xstate :=
    match x_pst s with
    | SWaiting => mkX SQuiescent (x_chained s) (step (x_in s) e) (x_direct s) (x_stops s) (x_orphan s)
    | STransmitting => mkX SAfter true (step (x_in s) e) (x_direct s) (x_stops s) (x_orphan s)
    | SAborting =>
        if legacy && immediate_head then with_in s (kill_silently (x_in s))
        else with_in s (step (x_in s) e)
    | _ =>
        (* GENERATION_FAILED / CONNECTION_LOST (the others have no parser any more): there is no
           _finishResponse_<state>, a RuntimeError ends in _giveUp.  The request Deferred has
           already fired and is not chained, no consumer can exist: whatever the parser's Deferred
           does is unobservable, so the inner machine simply takes its step *)
        with_in s (step (x_in s) e)
    end.

  (** a direct errback on the request Deferred (impossible once the protocol has forgotten it) *)
  Definition fire_direct (s : xstate) (p : pst) (f : xfire) (stops : nat) : xstate :=
    if x_orphan s then mkX p (x_chained s) (x_in s) (x_direct s) (x_stops s) true
    else mkX p (x_chained s) (x_in s) (x_direct s ++ [f]) stops false.

  Definition xstep (s : xstate) (e : xev) : xstate :=
    match e with
    | XP (PHead c f) =>
        if m_gone (x_in s) || m_head (x_in s) then s
        else if immediate f then finish_response s (PHead c f) true
        else with_in s (step (x_in s) (PHead c f))
    | XP PFinish =>
        if m_gone (x_in s) || negb (m_head (x_in s)) || m_fin (x_in s) then s
        else finish_response s PFinish false
    | XP PBad =>
        (* an exception escapes the parser: _giveUp *)
        match x_pst s with
        | STransmitting =>
            if m_gone (x_in s) then s
            else if legacy then mkX STransmitting (x_chained s) (step (x_in s) PBad) (x_direct s) (x_stops s) true
            else mkX SAfter true (step (x_in s) PBad) (x_direct s) (x_stops s) (x_orphan s)
        | _ => with_in s (step (x_in s) PBad)
        end
    | XP PLost =>
        match x_pst s with
        | STransmitting => fire_direct s SLost XTransFailed (S (x_stops s))
        | SWaiting | SAborting => mkX SLost (x_chained s) (step (x_in s) PLost) (x_direct s) (x_stops s) (x_orphan s)
        | SLost => s
        | _ => mkX SLost (x_chained s) (x_in s) (x_direct s) (x_stops s) (x_orphan s)
        end
    | XP UDeliver => if has_response s then with_in s (step (x_in s) UDeliver) else s
    | XP e' => with_in s (step (x_in s) e')          (* PRecv, PData *)
    | QDone =>
        match x_pst s with
        | STransmitting => mkX SWaiting (negb (x_orphan s)) (x_in s) (x_direct s) (x_stops s) (x_orphan s)
        | _ => s
        end
    | QFail =>
        match x_pst s with
        | STransmitting => fire_direct s SGenFailed XGenFailed (x_stops s)
        | _ => s
        end
    | UAbort =>
        match x_pst s with
        | SLost => s
        | STransmitting =>
            if legacy then mkX SAborting (x_chained s) (x_in s) (x_direct s) (x_stops s) (x_orphan s)
            else mkX SAborting true (x_in s) (x_direct s) (S (x_stops s)) (x_orphan s)
        | _ => mkX SAborting (x_chained s) (x_in s) (x_direct s) (x_stops s) (x_orphan s)
        end
    | UCancel =>
        if negb (is_unfired s) then s
        else
          let s1 := match x_pst s with
                    | STransmitting =>
                        (* _requestDeferred.cancel() -> ebRequestWriting *)
                        fire_direct s SGenFailed XGenFailed (x_stops s)
                    | SAfter => s
                    | _ =>
                        (* transport.abortConnection(); _disconnectParser(CancelledError) *)
                        with_in s (step (x_in s) PLost)
                    end in
          (* if nothing fired the Deferred, Deferred.cancel() fails it with CancelledError *)
          if is_unfired s1
          then mkX (x_pst s1) (x_chained s1) (x_in s1) (x_direct s1 ++ [XCancelled]) (x_stops s1) (x_orphan s1)
          else s1
    end.

  Definition xrun (s0 : xstate) (evs : list xev) : xstate := fold_left xstep evs s0.

  (** ** a connection as the application and the network drive it *)
  Inductive op :=
  | OData (b : bytes)    (* a delivery *)
  | OQDone | OQFail      (* the body producer finishes / fails *)
  | OAbort | OCancel | ODeliver
  | OLost.

  Fixpoint play (hm : bool) (ops : list op) (ps : pstate) (s : xstate) : xstate :=
    match ops with
    | [] => s
    | o :: r =>
        match o with
        | OData b =>
            let (evs, ps') := pfeed hm ps b in
            play hm r ps'
                 (fold_left xstep (map XP ((if is_nil b then [] else [PRecv]) ++ evs)) s)
        | OQDone => play hm r ps (xstep s QDone)
        | OQFail => play hm r ps (xstep s QFail)
        | OAbort => play hm r ps (xstep s UAbort)
        | OCancel => play hm r ps (xstep s UCancel)
        | ODeliver => play hm r ps (xstep s (XP UDeliver))
        | OLost => play hm r ps (xstep s (XP PLost))
        end
    end.
End Protocol.

(** * two requests on one connection: the second one issued by the application from inside the
      first response's body consumer (re-entrantly), or after the first exchange.

    HTTP11ClientProtocol.request refuses (RequestNotSent) unless the state is QUIESCENT.  When a
    response is complete the state becomes QUIESCENT and the per-request attributes are cleared
    BEFORE the consumer is told (HTTPClientParser.connectionLost is the last thing
    _disconnectParser does), so a request issued from the consumer's connectionLost runs on a clean
    protocol: it is modelled as a fresh [play] from the initial state. *)
Inductive trigger :=
| TrClose                (* from the first consumer's connectionLost *)
| TrLastData (n : nat)   (* from its dataReceived, when the n-th (= last) body byte has arrived *)
| TrEnd.                 (* after the first exchange's events *)

Definition hit (tr : trigger) (s s' : xstate) : bool :=
  match tr with
  | TrClose => is_nil_list (m_closed (x_in s)) && negb (is_nil_list (m_closed (x_in s')))
  | TrLastData n => Nat.ltb (length (m_delivered (x_in s))) n && Nat.leb n (length (m_delivered (x_in s')))
  | TrEnd => false
  end.

(** run the first exchange; report the protocol state at the moment the trigger fires *)
Fixpoint run_until (tr : trigger) (evs : list xev) (s : xstate) : xstate * option pst :=
  match evs with
  | [] => (s, match tr with TrEnd => Some (x_pst s) | _ => None end)
  | e :: r =>
      let s' := xstep false s e in
      if hit tr s s' then (xrun false s' r, Some (x_pst s')) else run_until tr r s'
  end.

Inductive second_outcome :=
| NotIssued                       (* the trigger never fired *)
| NotSent                         (* RequestNotSent: the protocol was not QUIESCENT *)
| Ran (s : xstate).               (* accepted: a fresh exchange *)

Definition two_requests (hm1 : bool) (cs1 : list bytes) (t1 : dtime) (tr : trigger)
           (hm2 transmitting2 : bool) (ops2 : list op) : xstate * second_outcome :=
  let '(s1, at_issue) := run_until tr (map XP (session hm1 [] cs1 t1 false)) xinit_waiting in
  (s1, match at_issue with
       | None => NotIssued
       | Some SQuiescent =>
           Ran (play false hm2 ops2 pinit (if transmitting2 then xinit_transmitting else xinit_waiting))
       | Some _ => NotSent
       end).
