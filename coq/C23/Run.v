(** C23: printers (correspondence only). *)
From Coq Require Import List NArith Bool String.
From TwLib Require Import Show HttpClientBytes.
From C23 Require Import Model.
Import ListNotations.

Local Open Scope string_scope.
Definition show_fire (f : fire) : string :=
  match f with FResponse c => "R" ++ show_N c | FFailed => "F" | FNever => "N" end.
Definition show_reason (r : reason) : string :=
  match r with RDone => "D" | RPotentialDataLoss => "P" | RFailed => "F" end.

(** (method, deliveries before deliverBody, deliveries after, when, lost) *)
Definition run_show (c : bytes * list bytes * list bytes * dtime * bool) : string :=
  let '(m, cs1, cs2, t, lose) := c in
  let s := run (session (eqb_bytes m HEAD) cs1 cs2 t lose) in
  String.concat "," (map show_fire (m_fired s)) ++ "|" ++ show_hex (m_delivered s) ++ "|"
  ++ String.concat "," (map show_reason (m_closed s)).

(** protocol-layer cases: (method, starts transmitting?, ops) *)
From C23 Require Import Protocol.

Definition show_xfire (f : xfire) : string :=
  match f with
  | XInner i => show_fire i
  | XGenFailed => "G" | XTransFailed => "T" | XCancelled => "C"
  end.

Definition run_show_proto (c : bytes * bool * list op) : string :=
  let '(m, transmitting, ops) := c in
  let s := play false (eqb_bytes m HEAD) ops pinit (if transmitting then xinit_transmitting else xinit_waiting) in
  String.concat "," (map show_xfire (request_fired s)) ++ "|" ++ show_hex (m_delivered (x_in s)) ++ "|"
  ++ String.concat "," (map show_reason (m_closed (x_in s))) ++ "|s" ++ show_nat (x_stops s).

Inductive anycase :=
| CSession (c : bytes * list bytes * list bytes * dtime * bool)
| CProto (c : bytes * bool * list op).

Definition run_show_any (c : anycase) : string :=
  match c with CSession x => run_show x | CProto x => run_show_proto x end.
