(** C23: printers (correspondence only). *)
From Coq Require Import List NArith Bool String.
From TwLib Require Import Show HttpClientBytes.
From C23 Require Import Model.
Import ListNotations.

Local Open Scope string_scope.
Definition show_fire (f : fire) : string :=
  match f with FResponse c => "R" ++ show_N c | FFailed => "F" | FNever => "N" end.
Definition show_reason (r : reason) : string :=
  match r with RDone => "D" | RPotentialDataLoss => "P" | RFailed => "F" end.

(** (method, deliveries before deliverBody, deliveries after, when, lost) *)
Definition run_show (c : bytes * list bytes * list bytes * dtime * bool) : string :=
  let '(m, cs1, cs2, t, lose) := c in
  let s := run (session (eqb_bytes m HEAD) cs1 cs2 t lose) in
  String.concat "," (map show_fire (m_fired s)) ++ "|" ++ show_hex (m_delivered s) ++ "|"
  ++ String.concat "," (map show_reason (m_closed s)).

(** protocol-layer cases: (method, starts transmitting?, ops) *)
From C23 Require Import Protocol.

Definition show_xfire (f : xfire) : string :=
  match f with
  | XInner i => show_fire i
  | XGenFailed => "G" | XTransFailed => "T" | XCancelled => "C"
  end.

Definition run_show_proto (c : bytes * bool * list op) : string :=
  let '(m, transmitting, ops) := c in
  let s := play false (eqb_bytes m HEAD) ops pinit (if transmitting then xinit_transmitting else xinit_waiting) in
  String.concat "," (map show_xfire (request_fired s)) ++ "|" ++ show_hex (m_delivered (x_in s)) ++ "|"
  ++ String.concat "," (map show_reason (m_closed (x_in s))) ++ "|s" ++ show_nat (x_stops s)
  ++ "|a" ++ show_bool (m_asked (x_in s)).

Inductive anycase :=
| CSession (c : bytes * list bytes * list bytes * dtime * bool)
| CProto (c : bytes * bool * list op).

Definition run_show_any (c : anycase) : string :=
  match c with CSession x => run_show x | CProto x => run_show_proto x end.

(** two requests on one connection *)
Definition show_x (s : xstate) : string :=
  String.concat "," (map show_xfire (request_fired s)) ++ "|" ++ show_hex (m_delivered (x_in s)) ++ "|"
  ++ String.concat "," (map show_reason (m_closed (x_in s))).

Definition run_show_two (c : bytes * list bytes * dtime * trigger * bytes * bool * list op) : string :=
  let '(m1, cs1, t1, tr, m2, tx2, ops2) := c in
  let '(s1, o2) := two_requests (eqb_bytes m1 HEAD) cs1 t1 tr (eqb_bytes m2 HEAD) tx2 ops2 in
  show_x s1 ++ "#" ++
  match o2 with
  | NotIssued => "unissued"
  | NotSent => "X"
  | Ran s2 => show_x s2
  end.

Inductive anycase2 :=
| C1 (c : anycase)
| CTwo (c : bytes * list bytes * dtime * trigger * bytes * bool * list op).

Definition run_show_all (c : anycase2) : string :=
  match c with C1 x => run_show_any x | CTwo x => run_show_two x end.
