(** C23: glue between the byte-level view and the event machine + printers (correspondence only). *)
From Coq Require Import List NArith Bool String.
From TwLib Require Import Show HttpClientBytes.
From C23 Require Import Model.
Import ListNotations.

Inductive timing := DNever | DAtResponse | DAfter | DAfterLost.

Fixpoint deliver_at_head (evs : list ev) : list ev :=
  match evs with
  | [] => []
  | PHead c f :: r => PHead c f :: UDeliver :: r
  | e :: r => e :: deliver_at_head r
  end.

(** events when deliverBody is called after the bytes [p1] (a prefix of [all]) have been fed *)
Definition split_events (m p1 all : bytes) : list ev :=
  let v1 := scan m p1 in
  let v := scan m all in
  match s_head v1 with
  | HOk _ f =>
      events_of p1 v1 ++ [UDeliver] ++
      match s_end v1 with
      | BOpen =>
          let more := skipn (List.length (s_body v1)) (s_body v) in
          (if is_nil more then [] else [PData more]) ++
          match s_end v with
          | BOpen => []
          | BFinished => if immediate f then [] else [PFinish]
          | BMalformed => [PBad]
          end
      | _ => []
      end
  | _ => deliver_at_head (events_of all v)
  end.

Definition ops (m p1 all : bytes) (t : timing) (lose : bool) : list ev :=
  let full := events_of all (scan m all) in
  let tl := if lose then [PLost] else [] in
  match t with
  | DNever => full ++ tl
  | DAfterLost => full ++ tl ++ [UDeliver]
  | DAtResponse => deliver_at_head full ++ tl
  | DAfter => split_events m p1 all ++ tl
  end.

Local Open Scope string_scope.
Definition show_fire (f : fire) : string :=
  match f with FResponse c => "R" ++ show_N c | FFailed => "F" | FNever => "N" end.
Definition show_reason (r : reason) : string :=
  match r with RDone => "D" | RPotentialDataLoss => "P" | RFailed => "F" end.

Definition run_show (c : bytes * bytes * bytes * timing * bool) : string :=
  let '(m, p1, all, t, lose) := c in
  let s := run (ops m p1 all t lose) in
  String.concat "," (map show_fire (m_fired s)) ++ "|" ++ show_hex (m_delivered s) ++ "|"
  ++ String.concat "," (map show_reason (m_closed s)).
