(** C21 proofs, part 2: what acceptance by the protocol monitor means, spelled out on the flat event log
    (these lemmas are about the monitor alone, not about the channel model). *)
From Coq Require Import List NArith Bool Arith Lia.
From C21 Require Import Model ProofsSim.
Import ListNotations.

Lemma mon_run_split m A : forall B m', mon_run m (A ++ B) = Some m' ->
  exists mA, mon_run m A = Some mA /\ mon_run mA B = Some m'.
Proof.
  revert m. induction A as [|e A IH]; intros m B m' H; cbn in *.
  - exists m. auto.
  - destruct (mon_step m e) as [m1|]; [|discriminate]. apply IH, H.
Qed.

Lemma mon_ops_flat logs : forall m m', mon_ops m logs = Some m' -> mon_run m (concat logs) = Some m'.
Proof.
  induction logs as [|l logs IH]; intros m m' H; cbn in *; [exact H|].
  destruct (mon_run m l) as [m1|] eqn:E; [|discriminate]. destruct (quiescent m1); [|discriminate].
  rewrite mon_run_app, E. apply IH, H.
Qed.

Lemma is_open_some m i : is_open m i = true -> m_open m = Some i.
Proof. unfold is_open. destruct (m_open m) as [j|]; [|discriminate]. intro H. apply Nat.eqb_eq in H. congruence. Qed.

(** the effect of one accepted event on (number of requests handed over, open request, head written) *)
Lemma step_shape m e m' : mon_step m e = Some m' ->
  match e with
  | EProcess i => m_open m = None /\ i = length (m_rq m) /\ length (m_rq m') = S (length (m_rq m)) /\
                  m_open m' = Some i /\ m_head m' = false
  | EHead i => m_open m = Some i /\ m_head m = false /\ length (m_rq m') = length (m_rq m) /\ m_open m' = Some i /\ m_head m' = true
  | EWrite i _ => m_open m = Some i /\ m_head m = true /\ length (m_rq m') = length (m_rq m) /\ m_open m' = Some i /\ m_head m' = true
  | EEnd i => m_open m = Some i /\ m_head m = true /\ length (m_rq m') = length (m_rq m) /\ m_open m' = None
  | _ => length (m_rq m') = length (m_rq m) /\ m_open m' = m_open m /\ m_head m' = m_head m
  end.
Proof.
  destruct e; cbn [mon_step]; intro H;
    repeat match type of H with
           | context [match nth_error ?l ?i with _ => _ end] => destruct (nth_error l i)
           | context [match m_open ?m with _ => _ end] => let E := fresh "Eo" in destruct (m_open m) eqn:E
           | context [if ?b then _ else _] => let E := fresh "Eb" in destruct b eqn:E
           end; try discriminate; inversion H; subst; cbn; rewrite ?upd_length, ?app_length; cbn;
    repeat match goal with
           | E : _ && _ = true |- _ => apply andb_true_iff in E; destruct E
           | E : negb _ = true |- _ => apply negb_true_iff in E
           | E : is_open _ _ = true |- _ => apply is_open_some in E
           | E : Nat.eqb _ _ = true |- _ => apply Nat.eqb_eq in E
           end; repeat split; auto; try lia; try congruence.
Qed.

Definition is_wire_of (i : nat) (e : ev) : Prop :=
  e = EHead i \/ (exists j, e = EWrite i j) \/ e = EEnd i.

(** what the monitor's state says about the log consumed so far *)
Definition Q (A : list ev) (m : mon) : Prop :=
  (forall i, i < length (m_rq m) <-> In (EProcess i) A) /\
  (forall i, i < length (m_rq m) -> (m_open m = Some i /\ ~ In (EEnd i) A) \/ (m_open m <> Some i /\ In (EEnd i) A)) /\
  (forall i, m_open m = Some i -> S i = length (m_rq m)) /\
  (forall i, In (EEnd i) A \/ In (EHead i) A -> i < length (m_rq m)) /\
  (forall i, m_open m = Some i -> (m_head m = true <-> In (EHead i) A)).

Lemma in_snoc {A} (x y : A) l : In x (l ++ [y]) <-> In x l \/ x = y.
Proof. rewrite in_app_iff. cbn. intuition. Qed.

Lemma Q_run : forall A m, mon_run mon0 A = Some m -> Q A m.
Proof.
  induction A as [|e A IH] using rev_ind; intros m H.
  - inversion H; subst. unfold Q, mon0. cbn. repeat split; try (intros; try lia; try discriminate; tauto).
  - apply mon_run_split in H as (m1 & H1 & H2). cbn in H2. destruct (mon_step m1 e) as [m2|] eqn:Es; [|discriminate].
    inversion H2; subst m2; clear H2. pose proof (step_shape _ _ _ Es) as Sh.
    destruct (IH m1 H1) as (Qa & Qb & Qc & Qd & Qe). unfold Q.
    assert (Hother : (length (m_rq m) = length (m_rq m1) /\ m_open m = m_open m1 /\ m_head m = m_head m1) ->
                     (forall k, e <> EProcess k /\ e <> EEnd k /\ e <> EHead k) -> Q (A ++ [e]) m).
    { intros (Sl & So & Sh') Hne. unfold Q. rewrite Sl, So, Sh'.
      refine (conj _ (conj _ (conj _ (conj _ _)))).
      - intros k. rewrite in_snoc. specialize (Qa k). destruct (Hne k) as (N1 & _). intuition congruence.
      - intros k Hk. rewrite in_snoc. destruct (Hne k) as (_ & N2 & _). specialize (Qb k Hk). intuition congruence.
      - exact Qc.
      - intros k. rewrite !in_snoc. destruct (Hne k) as (_ & N2 & N3). specialize (Qd k). intuition congruence.
      - intros k Hk. rewrite in_snoc. destruct (Hne k) as (_ & _ & N3). specialize (Qe k Hk). intuition congruence. }
    destruct e as [p|h|w wj|en|ni nd|fi fd fok|li| | | |pp|pr| | |]; cbn in Sh;
      try (apply Hother; [exact Sh|intros k; repeat split; discriminate]).
    + (* EProcess *)
      destruct Sh as (So & -> & Sl & So' & Sh'). unfold Q. rewrite Sl, So', Sh'.
      set (n := length (m_rq m1)) in *.
      refine (conj _ (conj _ (conj _ (conj _ _)))).
      * intros k. rewrite in_snoc. split.
        -- intros H. destruct (Nat.eq_dec k n) as [->|Hne]; [right; reflexivity|]. left. apply Qa. lia.
        -- intros [H|H]; [apply Qa in H; lia|inversion H; lia].
      * intros k H. rewrite in_snoc. destruct (Nat.eq_dec k n) as [->|Hne].
        -- left. split; [reflexivity|]. intros [C|C]; [|discriminate]. assert (n < n) by (apply Qd; auto). lia.
        -- right. destruct (Qb k) as [[C _]|[_ C]]; [lia|congruence|]. split; [congruence|auto].
      * intros k E. inversion E. reflexivity.
      * intros k. rewrite !in_snoc. intros [[H|H]|[H|H]]; try discriminate; assert (k < n) by (apply Qd; auto); lia.
      * intros k E. inversion E; subst. split; [discriminate|]. rewrite in_snoc. intros [C|C]; [|discriminate].
        assert (n < n) by (apply Qd; auto). lia.
    + (* EHead *)
      destruct Sh as (So & Sh0 & Sl & So' & Sh'). unfold Q. rewrite Sl, So', Sh'.
      refine (conj _ (conj _ (conj _ (conj _ _)))).
      * intros k. rewrite in_snoc. specialize (Qa k). intuition discriminate.
      * intros k H. rewrite in_snoc. destruct (Qb k H) as [[C1 C2]|[C1 C2]].
        -- left. split; [congruence|]. intros [C|C]; [tauto|discriminate].
        -- right. split; [congruence|auto].
      * intros k E. inversion E; subst. apply Qc, So.
      * intros k. rewrite !in_snoc. intros [[H|H]|[H|H]]; try discriminate; try (apply Qd; auto; fail).
        inversion H; subst. pose proof (Qc _ So). lia.
      * intros k E. inversion E; subst. split; [|reflexivity]. intros _. rewrite in_snoc. right. reflexivity.
    + (* EWrite *)
      destruct Sh as (So & Sh0 & Sl & So' & Sh'). unfold Q. rewrite Sl, So', Sh'.
      refine (conj _ (conj _ (conj _ (conj _ _)))).
      * intros k. rewrite in_snoc. specialize (Qa k). intuition discriminate.
      * intros k H. rewrite in_snoc. destruct (Qb k H) as [[C1 C2]|[C1 C2]].
        -- left. split; [congruence|]. intros [C|C]; [tauto|discriminate].
        -- right. split; [congruence|auto].
      * intros k E. inversion E; subst. apply Qc, So.
      * intros k. rewrite !in_snoc. intros [[H|H]|[H|H]]; try discriminate; apply Qd; auto.
      * intros k E. inversion E; subst. split; [|reflexivity]. intros _. rewrite in_snoc. left. apply (Qe _ So), Sh0.
    + (* EEnd *)
      destruct Sh as (So & Sh0 & Sl & So'). unfold Q. rewrite Sl, So'.
      refine (conj _ (conj _ (conj _ (conj _ _)))).
      * intros k. rewrite in_snoc. specialize (Qa k). intuition discriminate.
      * intros k H. rewrite in_snoc. right. split; [discriminate|]. destruct (Qb k H) as [[C1 C2]|[C1 C2]].
        -- right. congruence.
        -- left. exact C2.
      * discriminate.
      * intros k. rewrite !in_snoc. intros [[H|H]|[H|H]]; try discriminate; try (apply Qd; auto; fail).
        inversion H; subst. pose proof (Qc _ So). lia.
      * discriminate.
Qed.

(** ---------- the explicit order properties of any accepted log ---------- *)

Lemma accepted_prefix L m A B : mon_run mon0 L = Some m -> L = A ++ B -> exists mA, mon_run mon0 A = Some mA /\ Q A mA /\ mon_run mA B = Some m.
Proof.
  intros H E. subst L. apply mon_run_split in H. destruct H as (mA & H1 & H2). exists mA. split; [exact H1|]. split; [apply Q_run, H1|exact H2].
Qed.

Lemma next_after_prev L m A j B : mon_run mon0 L = Some m -> L = A ++ EProcess j :: B ->
  (forall i, i < j <-> In (EProcess i) A) /\ (forall i, i < j -> In (EEnd i) A).
Proof.
  intros H E. destruct (accepted_prefix _ _ _ _ H E) as (mA & _ & (Qa & Qb & _) & H2).
  cbn [mon_run] in H2. destruct (mon_step mA (EProcess j)) as [m2|] eqn:Es; [|discriminate H2].
  apply step_shape in Es as (So & -> & _). split; [exact Qa|].
  intros i Hi. destruct (Qb i Hi) as [[C _]|[_ C]]; [congruence|exact C].
Qed.

Lemma one_open L m A B : mon_run mon0 L = Some m -> L = A ++ B ->
  forall i i', In (EProcess i) A -> ~ In (EEnd i) A -> In (EProcess i') A -> ~ In (EEnd i') A -> i = i'.
Proof.
  intros H E i i' P1 N1 P2 N2. destruct (accepted_prefix _ _ _ _ H E) as (mA & _ & (Qa & Qb & _) & _).
  apply Qa in P1, P2. destruct (Qb i P1) as [[C1 _]|[_ C1]]; [|contradiction].
  destruct (Qb i' P2) as [[C2 _]|[_ C2]]; [|contradiction]. congruence.
Qed.

Lemma wire_order L m A e B i : mon_run mon0 L = Some m -> L = A ++ e :: B -> is_wire_of i e ->
  In (EProcess i) A /\ ~ In (EEnd i) A /\ (forall k, k < i -> In (EEnd k) A) /\
  (e = EHead i -> ~ In (EHead i) A) /\ (e <> EHead i -> In (EHead i) A).
Proof.
  intros H E W. destruct (accepted_prefix _ _ _ _ H E) as (mA & _ & (Qa & Qb & Qc & Qd & Qe) & H2).
  cbn [mon_run] in H2. destruct (mon_step mA e) as [m2|] eqn:Es; [|discriminate H2]. apply step_shape in Es.
  assert (Hop : m_open mA = Some i /\ (e = EHead i -> m_head mA = false) /\ (e <> EHead i -> m_head mA = true)).
  { destruct W as [->|[[j ->]| ->]]; cbn in Es; destruct Es as (So & Sh & _); repeat split; auto; try congruence. }
  destruct Hop as (So & Hh1 & Hh2). pose proof (Qc _ So) as HS.
  assert (Hlt : i < length (m_rq mA)) by lia.
  split; [apply Qa, Hlt|]. split.
  { destruct (Qb i Hlt) as [[_ C]|[C _]]; [exact C|congruence]. }
  split.
  { intros k Hk. destruct (Qb k) as [[C _]|[_ C]]; [lia| |exact C]. rewrite So in C. inversion C. lia. }
  split.
  - intros Eh C. apply (Qe _ So) in C. rewrite (Hh1 Eh) in C. discriminate.
  - intros Eh. apply (Qe _ So), Hh2, Eh.
Qed.

(** ---------- the Deferreds ---------- *)

Definition is_fired (i d : nat) (e : ev) : bool :=
  match e with EFired i' d' _ => Nat.eqb i' i && Nat.eqb d' d | _ => false end.

Definition count_fired (A : list ev) (i d : nat) : nat := length (filter (is_fired i d) A).

Lemma count_fired_snoc A e i d : count_fired (A ++ [e]) i d = count_fired A i d + (if is_fired i d e then 1 else 0).
Proof. unfold count_fired. rewrite filter_app, app_length. cbn. destruct (is_fired i d e); reflexivity. Qed.

Definition concerns (i : nat) (e : ev) : bool :=
  match e with
  | ENotify i' _ | EFired i' _ _ | EEnd i' | ELost i' => Nat.eqb i' i
  | _ => false
  end.

(** what the monitor's entry [x] for request [i] says about the log [A] *)
Definition Dinv (A : list ev) (i : nat) (x : mreq) : Prop :=
  (forall d, In (ENotify i d) A <-> d < x_ndef x) /\
  NoDup (x_pend x) /\ (forall d, In d (x_pend x) -> d < x_ndef x) /\
  (forall d, count_fired A i d = if (d <? x_ndef x) && negb (existsb (Nat.eqb d) (x_pend x)) then 1 else 0) /\
  (x_fin x = true <-> In (EEnd i) A) /\ (x_lost x = true <-> In (ELost i) A) /\
  (forall d ok, In (EFired i d ok) A -> In (ENotify i d) A /\ (if ok then In (EEnd i) A else In (ELost i) A)).

Definition Dnone (A : list ev) (i : nat) : Prop :=
  (forall d, ~ In (ENotify i d) A) /\ ~ In (EEnd i) A /\ ~ In (ELost i) A /\ (forall d ok, ~ In (EFired i d ok) A) /\
  (forall d, count_fired A i d = 0).

Lemma concerns_false_fired i d e : concerns i e = false -> is_fired i d e = false.
Proof. destruct e; cbn; try reflexivity. intros ->. reflexivity. Qed.

Lemma Dinv_other A i x e : concerns i e = false -> Dinv A i x -> Dinv (A ++ [e]) i x.
Proof.
  intros Hc (D1 & D2 & D3 & D4 & D5 & D6 & D7).
  assert (Hne : forall e', concerns i e' = true -> In e' (A ++ [e]) <-> In e' A).
  { intros e' Ht. rewrite in_snoc. split; [|auto]. intros [H|H]; [exact H|]. subst e'. congruence. }
  unfold Dinv. refine (conj _ (conj D2 (conj D3 (conj _ (conj _ (conj _ _)))))).
  - intros d. rewrite Hne by (cbn; apply Nat.eqb_refl). apply D1.
  - intros d. rewrite count_fired_snoc, (concerns_false_fired _ _ _ Hc), Nat.add_0_r. apply D4.
  - rewrite Hne by (cbn; apply Nat.eqb_refl). exact D5.
  - rewrite Hne by (cbn; apply Nat.eqb_refl). exact D6.
  - intros d ok. rewrite !Hne by (cbn; apply Nat.eqb_refl). intros H. destruct (D7 d ok H) as [X Y]. split; [exact X|].
    destruct ok; rewrite Hne by (cbn; apply Nat.eqb_refl); exact Y.
Qed.

Lemma Dnone_other A i e : concerns i e = false -> Dnone A i -> Dnone (A ++ [e]) i.
Proof.
  intros Hc (D1 & D2 & D3 & D4 & D5).
  assert (Hne : forall e', concerns i e' = true -> In e' (A ++ [e]) -> In e' A).
  { intros e' Ht. rewrite in_snoc. intros [H|H]; [exact H|]. subst e'. congruence. }
  unfold Dnone. repeat split.
  - intros d H. apply (D1 d), Hne; [cbn; apply Nat.eqb_refl|exact H].
  - intros H. apply D2, Hne; [cbn; apply Nat.eqb_refl|exact H].
  - intros H. apply D3, Hne; [cbn; apply Nat.eqb_refl|exact H].
  - intros d ok H. apply (D4 d ok), Hne; [cbn; apply Nat.eqb_refl|exact H].
  - intros d. rewrite count_fired_snoc, (concerns_false_fired _ _ _ Hc), Nat.add_0_r. apply D5.
Qed.

Lemma existsb_remove_first_other d d' l : d' <> d -> existsb (Nat.eqb d') (remove_first d l) = existsb (Nat.eqb d') l.
Proof.
  intro Hne. induction l as [|y l IH]; cbn; [reflexivity|]. destruct (Nat.eqb d y) eqn:E.
  - apply Nat.eqb_eq in E. subst y. assert (Nat.eqb d' d = false) as -> by (apply Nat.eqb_neq; exact Hne). reflexivity.
  - cbn. rewrite IH. reflexivity.
Qed.

Lemma in_remove_first d x l : In x (remove_first d l) -> In x l.
Proof.
  induction l as [|y l IH]; cbn; [tauto|]. destruct (Nat.eqb d y); [auto|]. cbn. intros [H|H]; auto.
Qed.

Lemma nodup_remove_first d l : NoDup l -> NoDup (remove_first d l) /\ (existsb (Nat.eqb d) (remove_first d l) = false).
Proof.
  induction 1 as [|y l Hy Hl IH]; cbn; [split; [constructor|reflexivity]|].
  destruct (Nat.eqb d y) eqn:E.
  - apply Nat.eqb_eq in E. subst y. split; [exact Hl|].
    destruct (existsb (Nat.eqb d) l) eqn:Ex; [|reflexivity]. apply existsb_exists in Ex as (z & Hz & Ez).
    apply Nat.eqb_eq in Ez. subst z. contradiction.
  - destruct IH as [I1 I2]. split.
    + constructor; [|exact I1]. intro C. apply Hy. eapply in_remove_first, C.
    + cbn. rewrite E, I2. reflexivity.
Qed.

Lemma existsb_false_notin d l : (forall y, In y l -> y <> d) -> existsb (Nat.eqb d) l = false.
Proof.
  intro H. destruct (existsb (Nat.eqb d) l) eqn:E; [|reflexivity]. apply existsb_exists in E as (z & Hz & Ez).
  apply Nat.eqb_eq in Ez. subst z. exfalso. exact (H d Hz eq_refl).
Qed.

Lemma NoDup_snoc {A} (l : list A) x : NoDup l -> ~ In x l -> NoDup (l ++ [x]).
Proof.
  induction 1 as [|y l Hy Hl IH]; intro Hx; cbn; [constructor; [intros []|constructor]|].
  constructor.
  - rewrite in_app_iff. cbn. intros [C|[C|[]]]; [contradiction|]. subst. apply Hx. left. reflexivity.
  - apply IH. intro C. apply Hx. right. exact C.
Qed.

(** the four events that concern request i *)
Lemma Dinv_notify A i x : Dinv A i x ->
  Dinv (A ++ [ENotify i (x_ndef x)]) i (mkM (x_fin x) (x_lost x) (S (x_ndef x)) (x_pend x ++ [x_ndef x])).
Proof.
  intros (D1 & D2 & D3 & D4 & D5 & D6 & D7). unfold Dinv. cbn [x_fin x_lost x_ndef x_pend].
  assert (Hfresh : existsb (Nat.eqb (x_ndef x)) (x_pend x) = false).
  { apply existsb_false_notin. intros y Hy. apply D3 in Hy. lia. }
  refine (conj _ (conj _ (conj _ (conj _ (conj _ (conj _ _)))))).
  - intros d. rewrite in_snoc, D1. split; [intros [H|H]; [lia|inversion H; lia]|].
    intros H. destruct (Nat.eq_dec d (x_ndef x)) as [->|Hne]; [right; reflexivity|left; lia].
  - apply NoDup_snoc; [exact D2|]. intro C. apply D3 in C. lia.
  - intros d. rewrite in_snoc. intros [H | ->]; [apply D3 in H; lia|lia].
  - intros d. rewrite count_fired_snoc. cbn [is_fired]. rewrite Nat.add_0_r, D4, existsb_app. cbn [existsb]. rewrite orb_false_r.
    destruct (Nat.eq_dec d (x_ndef x)) as [->|Hne].
    + rewrite Nat.eqb_refl, orb_true_r, Nat.ltb_irrefl. cbn. rewrite andb_false_r. reflexivity.
    + assert (Nat.eqb d (x_ndef x) = false) as -> by (apply Nat.eqb_neq; exact Hne). rewrite orb_false_r.
      assert ((d <? S (x_ndef x)) = (d <? x_ndef x)) as ->; [|reflexivity].
      destruct (d <? x_ndef x) eqn:E1; [apply Nat.ltb_lt in E1; apply Nat.ltb_lt; lia|apply Nat.ltb_ge in E1; apply Nat.ltb_ge; lia].
  - rewrite in_snoc. split; [intros H; left; apply D5, H|intros [H|H]; [apply D5, H|discriminate]].
  - rewrite in_snoc. split; [intros H; left; apply D6, H|intros [H|H]; [apply D6, H|discriminate]].
  - intros d ok. rewrite !in_snoc. intros [H|H]; [|discriminate]. destruct (D7 d ok H) as [X Y]. split; [left; exact X|].
    destruct ok; rewrite in_snoc; left; exact Y.
Qed.

Lemma Dinv_fired A i x d (ok : bool) : Dinv A i x -> existsb (Nat.eqb d) (x_pend x) = true ->
  (if ok then x_fin x else x_lost x) = true ->
  Dinv (A ++ [EFired i d ok]) i (mkM (x_fin x) (x_lost x) (x_ndef x) (remove_first d (x_pend x))).
Proof.
  intros (D1 & D2 & D3 & D4 & D5 & D6 & D7) Hin Hok. unfold Dinv. cbn [x_fin x_lost x_ndef x_pend].
  assert (Hd : In d (x_pend x)).
  { apply existsb_exists in Hin as (z & Hz & Ez). apply Nat.eqb_eq in Ez. subst z. exact Hz. }
  destruct (nodup_remove_first d _ D2) as [N1 N2].
  refine (conj _ (conj N1 (conj _ (conj _ (conj _ (conj _ _)))))).
  - intros d'. rewrite in_snoc, <- D1. split; [intros [H|H]; [exact H|discriminate]|auto].
  - intros d' H. apply D3. eapply in_remove_first, H.
  - intros d'. rewrite count_fired_snoc. cbn [is_fired]. rewrite Nat.eqb_refl. cbn [andb]. rewrite D4.
    destruct (Nat.eq_dec d d') as [<-|Hne].
    + rewrite Nat.eqb_refl, Hin, N2. assert (d <? x_ndef x = true) as -> by (apply Nat.ltb_lt, D3, Hd). reflexivity.
    + assert (Nat.eqb d d' = false) as -> by (apply Nat.eqb_neq; exact Hne).
      rewrite existsb_remove_first_other by congruence. lia.
  - rewrite in_snoc. split; [intros H; left; apply D5, H|intros [H|H]; [apply D5, H|discriminate]].
  - rewrite in_snoc. split; [intros H; left; apply D6, H|intros [H|H]; [apply D6, H|discriminate]].
  - intros d' ok'. rewrite !in_snoc. intros [H|H].
    + destruct (D7 d' ok' H) as [X Y]. split; [left; exact X|]. destruct ok'; rewrite in_snoc; left; exact Y.
    + inversion H; subst d' ok'. split; [left; apply D1, D3, Hd|].
      destruct ok; rewrite in_snoc; left; [apply D5|apply D6]; exact Hok.
Qed.

Lemma Dinv_end A i x : Dinv A i x -> Dinv (A ++ [EEnd i]) i (mkM true (x_lost x) (x_ndef x) (x_pend x)).
Proof.
  intros (D1 & D2 & D3 & D4 & D5 & D6 & D7). unfold Dinv. cbn [x_fin x_lost x_ndef x_pend].
  refine (conj _ (conj D2 (conj D3 (conj _ (conj _ (conj _ _)))))).
  - intros d. rewrite in_snoc, <- D1. split; [intros [H|H]; [exact H|discriminate]|auto].
  - intros d. rewrite count_fired_snoc. cbn [is_fired]. rewrite Nat.add_0_r. apply D4.
  - rewrite in_snoc. split; auto.
  - rewrite in_snoc. split; [intros H; left; apply D6, H|intros [H|H]; [apply D6, H|discriminate]].
  - intros d ok. rewrite !in_snoc. intros [H|H]; [|discriminate]. destruct (D7 d ok H) as [X Y]. split; [left; exact X|].
    destruct ok; rewrite in_snoc; left; exact Y.
Qed.

Lemma Dinv_lost A i x : Dinv A i x -> Dinv (A ++ [ELost i]) i (mkM (x_fin x) true (x_ndef x) (x_pend x)).
Proof.
  intros (D1 & D2 & D3 & D4 & D5 & D6 & D7). unfold Dinv. cbn [x_fin x_lost x_ndef x_pend].
  refine (conj _ (conj D2 (conj D3 (conj _ (conj _ (conj _ _)))))).
  - intros d. rewrite in_snoc, <- D1. split; [intros [H|H]; [exact H|discriminate]|auto].
  - intros d. rewrite count_fired_snoc. cbn [is_fired]. rewrite Nat.add_0_r. apply D4.
  - rewrite in_snoc. split; [intros H; left; apply D5, H|intros [H|H]; [apply D5, H|discriminate]].
  - rewrite in_snoc. split; auto.
  - intros d ok. rewrite !in_snoc. intros [H|H]; [|discriminate]. destruct (D7 d ok H) as [X Y]. split; [left; exact X|].
    destruct ok; rewrite in_snoc; left; exact Y.
Qed.

Lemma Dinv_fresh A i : Dnone A i -> Dinv A i (mkM false false 0 []).
Proof.
  intros (D1 & D2 & D3 & D4 & D5). unfold Dinv. cbn.
  refine (conj _ (conj _ (conj _ (conj _ (conj _ (conj _ _)))))).
  - intros d. split; [intros H; exfalso; exact (D1 d H)|lia].
  - constructor.
  - intros d [].
  - intros d. apply D5.
  - split; [discriminate|intros H; contradiction].
  - split; [discriminate|intros H; contradiction].
  - intros d ok H. exfalso. exact (D4 d ok H).
Qed.

Definition Ninv (A : list ev) (m : mon) : Prop :=
  (forall i x, nth_error (m_rq m) i = Some x -> Dinv A i x) /\ (forall i, length (m_rq m) <= i -> Dnone A i).

(** an event that concerns request i is only accepted if the monitor has an entry for i, which it updates *)
Lemma N_run : forall A m, mon_run mon0 A = Some m -> Ninv A m.
Proof.
  induction A as [|e A IH] using rev_ind; intros m H.
  - inversion H; subst. split; [intros i x Hx; destruct i; discriminate|]. intros i _. unfold Dnone, count_fired. cbn. repeat split; auto.
  - apply mon_run_split in H. destruct H as (m1 & H1 & H2). cbn [mon_run] in H2.
    destruct (mon_step m1 e) as [m2|] eqn:Es; [|discriminate H2]. inversion H2; subst m2; clear H2.
    destruct (IH m1 H1) as (Nin & Nout).
    (* events that leave the entries alone *)
    assert (Hsame : m_rq m = m_rq m1 -> (forall i, concerns i e = false) -> Ninv (A ++ [e]) m).
    { intros E Hc. split; rewrite E.
      - intros i x Hx. apply Dinv_other; [apply Hc|exact (Nin i x Hx)].
      - intros i Hi. apply Dnone_other; [apply Hc|exact (Nout i Hi)]. }
    (* events that replace the entry of request k by x', under the lemma for that event *)
    assert (Hupd : forall k x x', nth_error (m_rq m1) k = Some x -> m_rq m = upd (m_rq m1) k x' ->
                   (forall i, i <> k -> concerns i e = false) -> Dinv (A ++ [e]) k x' -> Ninv (A ++ [e]) m).
    { intros k x x' Hk E Hc Hd. pose proof (nth_some_lt _ _ _ Hk) as Hlt. split; rewrite E.
      - intros i y Hy. destruct (Nat.eq_dec i k) as [->|Hne].
        + rewrite nth_upd_same in Hy by exact Hlt. inversion Hy; subst y. exact Hd.
        + rewrite nth_upd_other in Hy by congruence. apply Dinv_other; [apply Hc, Hne|exact (Nin i y Hy)].
      - rewrite upd_length. intros i Hi. apply Dnone_other; [apply Hc; lia|exact (Nout i Hi)]. }
    destruct e as [p|h|w wj|en|ni nd|fi fd fok|li| | | |pp|pr| | |]; cbn [mon_step] in Es.
    + (* EProcess *)
      destruct (m_open m1); [discriminate Es|]. destruct (Nat.eqb p (length (m_rq m1))) eqn:Ep; [|discriminate Es].
      destruct (negb (m_gone m1)); [|discriminate Es]. cbn [andb] in Es. inversion Es; subst m; clear Es. apply Nat.eqb_eq in Ep. subst p. unfold Ninv. cbn [m_rq]. split.
      * intros i x Hx. destruct (Nat.lt_ge_cases i (length (m_rq m1))) as [L|G].
        -- rewrite nth_error_app1 in Hx by exact L. apply Dinv_other; [reflexivity|exact (Nin i x Hx)].
        -- rewrite nth_error_app2 in Hx by exact G. destruct (i - length (m_rq m1)) as [|k] eqn:Ek; [|destruct k; discriminate Hx].
           cbn in Hx. inversion Hx; subst x. apply Dinv_fresh. apply Dnone_other; [reflexivity|]. apply Nout. lia.
      * rewrite app_length. cbn. intros i Hi. apply Dnone_other; [reflexivity|]. apply Nout. lia.
    + destruct (is_open m1 h && negb (m_head m1) && negb (m_dead m1)); [|discriminate Es]. inversion Es; subst m.
      apply Hsame; [reflexivity|intros i; reflexivity].
    + destruct (is_open m1 w && m_head m1 && negb (m_dead m1) && Nat.eqb wj (m_nw m1)); [|discriminate Es]. inversion Es; subst m.
      apply Hsame; [reflexivity|intros i; reflexivity].
    + (* EEnd *)
      destruct (nth_error (m_rq m1) en) as [x|] eqn:Ex; [|discriminate Es].
      destruct (is_open m1 en && m_head m1 && negb (m_dead m1)); [|discriminate Es]. inversion Es; subst m.
      eapply (Hupd en x); [exact Ex|reflexivity| |apply Dinv_end, (Nin en x Ex)].
      intros i Hne. cbn. apply Nat.eqb_neq. congruence.
    + (* ENotify *)
      destruct (nth_error (m_rq m1) ni) as [x|] eqn:Ex; [|discriminate Es].
      destruct (Nat.eqb nd (x_ndef x)) eqn:En; [|discriminate Es]. inversion Es; subst m. apply Nat.eqb_eq in En. subst nd.
      eapply (Hupd ni x); [exact Ex|reflexivity| |apply Dinv_notify, (Nin ni x Ex)].
      intros i Hne. cbn. apply Nat.eqb_neq. congruence.
    + (* EFired *)
      destruct (nth_error (m_rq m1) fi) as [x|] eqn:Ex; [|discriminate Es].
      destruct (existsb (Nat.eqb fd) (x_pend x)) eqn:Ein; [|discriminate Es].
      destruct (if fok then x_fin x else x_lost x) eqn:Eok; [|discriminate Es]. inversion Es; subst m.
      eapply (Hupd fi x); [exact Ex|reflexivity| |apply Dinv_fired; [exact (Nin fi x Ex)|exact Ein|exact Eok]].
      intros i Hne. cbn. apply Nat.eqb_neq. congruence.
    + (* ELost *)
      destruct (nth_error (m_rq m1) li) as [x|] eqn:Ex; [|discriminate Es].
      destruct (is_open m1 li && negb (m_dead m1) && m_gone m1); [|discriminate Es]. inversion Es; subst m.
      eapply (Hupd li x); [exact Ex|reflexivity| |apply Dinv_lost, (Nin li x Ex)].
      intros i Hne. cbn. apply Nat.eqb_neq. congruence.
    + destruct (m_gone m1); [discriminate Es|]. inversion Es; subst m. apply Hsame; [reflexivity|intros i; reflexivity].
    + inversion Es; subst m. apply Hsame; [reflexivity|intros i; reflexivity].
    + inversion Es; subst m. apply Hsame; [reflexivity|intros i; reflexivity].
    + inversion Es; subst m. apply Hsame; [reflexivity|intros i; reflexivity].
    + inversion Es; subst m. apply Hsame; [reflexivity|intros i; reflexivity].
    + inversion Es; subst m. apply Hsame; [reflexivity|intros i; reflexivity].
    + inversion Es; subst m. apply Hsame; [reflexivity|intros i; reflexivity].
    + inversion Es; subst m. apply Hsame; [reflexivity|intros i; reflexivity].
Qed.

(** ---------- the explicit Deferred properties of any accepted log ---------- *)

Lemma N_prefix L m A B : mon_run mon0 L = Some m -> L = A ++ B -> exists mA, mon_run mon0 A = Some mA /\ Ninv A mA /\ mon_run mA B = Some m.
Proof.
  intros H E. subst L. apply mon_run_split in H. destruct H as (mA & H1 & H2). exists mA.
  split; [exact H1|]. split; [apply N_run, H1|exact H2].
Qed.

Lemma fires_at_most_once L m A B i d : mon_run mon0 L = Some m -> L = A ++ B -> count_fired A i d <= 1.
Proof.
  intros H E. destruct (N_prefix _ _ _ _ H E) as (mA & _ & (Nin & Nout) & _).
  destruct (nth_error (m_rq mA) i) as [x|] eqn:Ex.
  - destruct (Nin i x Ex) as (_ & _ & _ & D4 & _). rewrite D4. destruct (_ && _); lia.
  - apply nth_error_None in Ex. destruct (Nout i Ex) as (_ & _ & _ & _ & D5). rewrite D5. lia.
Qed.

Lemma fired_justified L m A i d (ok : bool) B : mon_run mon0 L = Some m -> L = A ++ EFired i d ok :: B ->
  In (ENotify i d) A /\ (if ok then In (EEnd i) A else In (ELost i) A) /\ count_fired A i d = 0.
Proof.
  intros H E. destruct (N_prefix _ _ _ _ H E) as (mA & _ & (Nin & _) & H2). cbn [mon_run mon_step] in H2.
  destruct (nth_error (m_rq mA) i) as [x|] eqn:Ex; [|discriminate H2].
  destruct (existsb (Nat.eqb d) (x_pend x)) eqn:Ein; [|discriminate H2].
  destruct (if ok then x_fin x else x_lost x) eqn:Eok; [|discriminate H2].
  destruct (Nin i x Ex) as (D1 & D2 & D3 & D4 & D5 & D6 & D7).
  assert (Hd : In d (x_pend x)).
  { apply existsb_exists in Ein as (z & Hz & Ez). apply Nat.eqb_eq in Ez. subst z. exact Hz. }
  split; [apply D1, D3, Hd|]. split.
  - destruct ok; [apply D5|apply D6]; exact Eok.
  - rewrite D4, Ein, andb_false_r. reflexivity.
Qed.

Lemma boundary_prefix logs : forall m m', mon_ops m logs = Some m' -> quiescent m = true ->
  forall k, exists mk, mon_run m (concat (firstn k logs)) = Some mk /\ quiescent mk = true.
Proof.
  induction logs as [|l logs IH]; intros m m' H Hq k.
  - rewrite firstn_nil. exists m. auto.
  - destruct k as [|k]; [exists m; auto|]. cbn [mon_ops firstn concat] in *.
    destruct (mon_run m l) as [m1|] eqn:E; [|discriminate H]. destruct (quiescent m1) eqn:Eq; [|discriminate H].
    destruct (IH m1 m' H Eq k) as (mk & A & B). exists mk. split; [rewrite mon_run_app, E; exact A|exact B].
Qed.

Lemma fired_when_complete logs m k i d : mon_ops mon0 logs = Some m ->
  let A := concat (firstn k logs) in
  In (ENotify i d) A -> In (EEnd i) A \/ In (ELost i) A -> count_fired A i d = 1.
Proof.
  intros H A Hn Hc. destruct (boundary_prefix logs mon0 m H eq_refl k) as (mk & H1 & Hq). fold A in H1.
  destruct (N_run A mk H1) as (Nin & Nout).
  destruct (nth_error (m_rq mk) i) as [x|] eqn:Ex.
  2:{ apply nth_error_None in Ex. destruct (Nout i Ex) as (D1 & _). exfalso. exact (D1 d Hn). }
  destruct (Nin i x Ex) as (D1 & D2 & D3 & D4 & D5 & D6 & D7).
  assert (Hflag : x_fin x || x_lost x = true).
  { destruct Hc as [C|C]; [apply D5 in C|apply D6 in C]; rewrite C; [reflexivity|apply orb_true_r]. }
  assert (Hp : x_pend x = []).
  { unfold quiescent in Hq. rewrite forallb_forall in Hq. apply nth_error_In in Ex. specialize (Hq x Ex).
    rewrite Hflag in Hq. destruct (x_pend x); [reflexivity|discriminate]. }
  rewrite D4, Hp. cbn [existsb negb]. rewrite andb_true_r. apply D1 in Hn.
  assert (d <? x_ndef x = true) as -> by (apply Nat.ltb_lt; exact Hn). reflexivity.
Qed.

(** ---------- reading is not left paused ---------- *)


Lemma paused_run l : forall m m', mon_run m l = Some m' -> m_paused m' = net_paused (m_paused m) l.
Proof.
  induction l as [|e l IH]; intros m m' H; cbn in *; [inversion H; reflexivity|].
  destruct (mon_step m e) as [m1|] eqn:Es; [|discriminate]. rewrite (IH m1 m' H). f_equal.
  destruct e; cbn [mon_step] in Es;
    repeat match type of Es with
           | context [match nth_error ?l ?i with _ => _ end] => destruct (nth_error l i)
           | context [match m_open ?m with _ => _ end] => destruct (m_open m)
           | context [if ?b then _ else _] => destruct b
           end; try discriminate; inversion Es; reflexivity.
Qed.

(** ---------- no request is handed over once the connection is gone ---------- *)

Lemma gone_step m e m' : mon_step m e = Some m' -> m_gone m' = match e with EGone => true | _ => m_gone m end /\
  (e = EGone -> m_gone m = false).
Proof.
  destruct e; cbn [mon_step]; intro H;
    repeat match type of H with
           | context [match nth_error ?l ?i with _ => _ end] => destruct (nth_error l i)
           | context [match m_open ?m with _ => _ end] => destruct (m_open m)
           | context [if ?b then _ else _] => let E := fresh "Eb" in destruct b eqn:E
           end; try discriminate; inversion H; subst; cbn; split; auto; try discriminate.
Qed.

Lemma gone_run : forall A m, mon_run mon0 A = Some m -> (m_gone m = true <-> In EGone A).
Proof.
  induction A as [|e A IH] using rev_ind; intros m H.
  - inversion H; subst. cbn. split; [discriminate|tauto].
  - apply mon_run_split in H. destruct H as (m1 & H1 & H2). cbn [mon_run] in H2.
    destruct (mon_step m1 e) as [m2|] eqn:Es; [|discriminate H2]. inversion H2; subst m2; clear H2.
    destruct (gone_step _ _ _ Es) as [G _]. rewrite G, in_snoc. specialize (IH m1 H1).
    destruct e; try (split; [intros X; left; apply IH, X|intros [X|X]; [apply IH, X|discriminate X]]).
    split; auto.
Qed.

Lemma no_process_after_gone L m A j B : mon_run mon0 L = Some m -> L = A ++ EProcess j :: B -> ~ In EGone A.
Proof.
  intros H E. subst L. apply mon_run_split in H. destruct H as (mA & H1 & H2). cbn [mon_run mon_step] in H2.
  intro C. apply (gone_run _ _ H1) in C. rewrite C in H2. destruct (m_open mA); [discriminate H2|].
  rewrite andb_false_r in H2. discriminate H2.
Qed.

Lemma lost_only_after_gone L m A i B : mon_run mon0 L = Some m -> L = A ++ ELost i :: B -> In EGone A.
Proof.
  intros H E. subst L. apply mon_run_split in H. destruct H as (mA & H1 & H2). cbn [mon_run mon_step] in H2.
  apply (gone_run _ _ H1). destruct (nth_error (m_rq mA) i); [|discriminate H2].
  destruct (m_gone mA); [reflexivity|]. rewrite andb_false_r in H2. discriminate H2.
Qed.

(** ---------- assembled for Property.v: every history of the channel model ---------- *)

Section Final.
  Variable eager : N.
  Variable sync : bool.
  Variable reqs : list reqspec.
  Variables tmo abt : option N.
  Variable ops : list top.

  Notation logs := (snd (srun eager sync reqs tmo abt (sst0 tmo) ops)).
  Notation final := (t_st (k_t (fst (srun eager sync reqs tmo abt (sst0 tmo) ops)))).

  Lemma flat_accepted : exists m, mon_run mon0 (concat logs) = Some m.
  Proof. destruct (srun_sim eager sync reqs tmo abt ops (sst0 tmo) mon0 R0) as (m & H & _). exists m. apply mon_ops_flat, H. Qed.

  Lemma final_accepted : mon_ops mon0 logs <> None.
  Proof. destruct (srun_sim eager sync reqs tmo abt ops (sst0 tmo) mon0 R0) as (m & H & _). rewrite H. discriminate. Qed.

  Lemma final_one_open A B : concat logs = A ++ B ->
    forall i i', In (EProcess i) A -> ~ In (EEnd i) A -> In (EProcess i') A -> ~ In (EEnd i') A -> i = i'.
  Proof. destruct flat_accepted as [m H]. intro E. eapply one_open; eauto. Qed.

  Lemma final_next A j B : concat logs = A ++ EProcess j :: B ->
    (forall i, i < j <-> In (EProcess i) A) /\ (forall i, i < j -> In (EEnd i) A).
  Proof. destruct flat_accepted as [m H]. intro E. eapply next_after_prev; eauto. Qed.

  Lemma final_wire A e B i : concat logs = A ++ e :: B -> is_wire_of i e ->
    In (EProcess i) A /\ ~ In (EEnd i) A /\ (forall k, k < i -> In (EEnd k) A) /\
    (e = EHead i -> ~ In (EHead i) A) /\ (e <> EHead i -> In (EHead i) A).
  Proof. destruct flat_accepted as [m H]. intros E W. eapply wire_order; eauto. Qed.

  Lemma final_gone A j B : concat logs = A ++ EProcess j :: B -> ~ In EGone A.
  Proof. destruct flat_accepted as [m H]. intro E. eapply no_process_after_gone; eauto. Qed.

  Lemma final_notify :
    (forall A B i d, concat logs = A ++ B -> count_fired A i d <= 1) /\
    (forall A i d (ok : bool) B, concat logs = A ++ EFired i d ok :: B ->
       In (ENotify i d) A /\ (if ok then In (EEnd i) A else In (ELost i) A) /\ count_fired A i d = 0) /\
    (forall k i d, let A := concat (firstn k logs) in
       In (ENotify i d) A -> In (EEnd i) A \/ In (ELost i) A -> count_fired A i d = 1).
  Proof.
    destruct flat_accepted as [m H]. destruct (srun_sim eager sync reqs tmo abt ops (sst0 tmo) mon0 R0) as (m' & H' & _).
    split; [|split].
    - intros A B i d E. eapply fires_at_most_once; eauto.
    - intros A i d ok B E. eapply fired_justified; eauto.
    - intros k i d. eapply fired_when_complete; eauto.
  Qed.

  Lemma final_reading : s_handling final = false -> s_waiting final = false -> net_paused false (concat logs) = false.
  Proof.
    destruct (srun_sim eager sync reqs tmo abt ops (sst0 tmo) mon0 R0) as (m & H & HR). intros Hh Hw.
    pose proof (paused_run _ mon0 m (mon_ops_flat _ _ _ H)) as P. cbn [m_paused mon0] in P. rewrite <- P.
    destruct HR as (_ & _ & _ & _ & _ & G & _). exact (G Hh Hw).
  Qed.

  (** connectionLost has been delivered exactly when EGone is in the log *)
  Lemma final_lost : s_lost final = true <-> In EGone (concat logs).
  Proof.
    destruct (srun_sim eager sync reqs tmo abt ops (sst0 tmo) mon0 R0) as (m & H & HR).
    destruct HR as (_ & _ & _ & _ & _ & _ & _ & _ & L). rewrite <- L. apply gone_run, mon_ops_flat, H.
  Qed.
End Final.

Lemma pinned_notify_rejected :
  mon_ops mon0 [[EProcess 0; EHead 0; EEnd 0]; [ENotify 0 0]] = None /\
  mon_ops mon0 [[EProcess 0; EHead 0; EEnd 0]; [ENotify 0 0; EFired 0 0 true]] <> None.
Proof. split; [vm_compute; reflexivity|vm_compute; discriminate]. Qed.
