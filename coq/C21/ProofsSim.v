(** C21 proofs, part 1: every log the channel model produces is accepted by the protocol monitor (simulation). *)
From Coq Require Import List NArith Bool Arith Lia.
From C21 Require Import Model.
Import ListNotations.

(** ---------- lists ---------- *)

Lemma upd_length {A} (l : list A) : forall i x, length (upd l i x) = length l.
Proof. induction l as [|y l IH]; intros [|i] x; cbn; auto. Qed.

Lemma nth_upd_same {A} (l : list A) : forall i x, i < length l -> nth_error (upd l i x) i = Some x.
Proof. induction l as [|y l IH]; intros [|i] x H; cbn in *; try lia; auto. apply IH. lia. Qed.

Lemma nth_upd_other {A} (l : list A) : forall i j x, i <> j -> nth_error (upd l i x) j = nth_error l j.
Proof. induction l as [|y l IH]; intros [|i] [|j] x H; cbn; auto; try congruence. Qed.

Lemma map_upd {A B} (f : A -> B) (l : list A) : forall i x, map f (upd l i x) = upd (map f l) i (f x).
Proof. induction l as [|y l IH]; intros [|i] x; cbn; auto. rewrite IH. reflexivity. Qed.

Lemma nth_some_lt {A} (l : list A) i x : nth_error l i = Some x -> i < length l.
Proof. intro H. apply nth_error_Some. congruence. Qed.

Lemma nth_map_some {A B} (f : A -> B) (l : list A) i x : nth_error l i = Some x -> nth_error (map f l) i = Some (f x).
Proof. intro H. rewrite nth_error_map, H. reflexivity. Qed.

Lemma mon_run_app m a : forall b, mon_run m (a ++ b) = match mon_run m a with Some m1 => mon_run m1 b | None => None end.
Proof.
  revert m. induction a as [|e a IH]; intros m b; cbn; [reflexivity|].
  destruct (mon_step m e); [apply IH|reflexivity].
Qed.

(** ---------- the simulation relation ---------- *)

Definition abs (r : rq) : mreq := mkM (r_finished r) (r_disc r) (r_ndef r) (map fst (r_pending r)).

Definition open_ok (s : st) (m : mon) : Prop :=
  match m_open m with
  | None => s_inchan s = false
  | Some i => s_inchan s = true /\ S i = length (s_rq s) /\
              exists r, nth_error (s_rq s) i = Some r /\ r_finished r = false /\
                        m_head m = r_started r /\ m_dead m = r_disc r /\ m_nw m = r_nw r
  end.

(** [ex]: requests that are finished but whose Deferreds have not been fired yet (inside Request.finish) *)
Definition R (ex : list nat) (s : st) (m : mon) : Prop :=
  m_rq m = map abs (s_rq s) /\
  open_ok s m /\
  (forall i r, nth_error (s_rq s) i = Some r ->
     (s_inchan s = true /\ S i = length (s_rq s)) \/ (r_finished r = true /\ r_disc r = false)) /\
  (s_handling s = false -> s_inchan s = false) /\
  (forall i r, nth_error (s_rq s) i = Some r -> ~ In i ex -> r_finished r || r_disc r = true -> r_pending r = []) /\
  (s_handling s = false -> s_waiting s = false -> m_paused m = false) /\
  (s_lost s = false -> forall i r, nth_error (s_rq s) i = Some r -> r_disc r = false) /\
  (forall i r, nth_error (s_rq s) i = Some r -> forall d, In d (map fst (r_pending r)) -> d < r_ndef r) /\
  m_gone m = s_lost s.

Lemma R_quiescent s m : R [] s m -> quiescent m = true.
Proof.
  unfold R. intros (Hrq & _ & _ & _ & HF & _). unfold quiescent. rewrite Hrq. apply forallb_forall.
  intros x Hx. apply in_map_iff in Hx. destruct Hx as [r [E Hr]]. subst x. apply In_nth_error in Hr. destruct Hr as [i Hi]. cbn.
  destruct (r_finished r || r_disc r) eqn:E; [|reflexivity]. rewrite (HF i r Hi (fun f => f) E). reflexivity.
Qed.

Lemma R0 : R [] st0 mon0.
Proof.
  unfold R, open_ok. cbn. repeat split; auto.
  - intros i r H; destruct i; discriminate.
  - intros i r H; destruct i; discriminate.
  - intros _ i r H; destruct i; discriminate.
  - intros i r H; destruct i; discriminate.
Qed.

(** an open request is the last one and is the only unfinished one *)
Lemma live_is_open ex s m i r : R ex s m -> nth_error (s_rq s) i = Some r -> r_finished r = false ->
  m_open m = Some i /\ m_head m = r_started r /\ m_dead m = r_disc r /\ m_nw m = r_nw r /\ S i = length (s_rq s).
Proof.
  unfold R. intros (Hrq & Ho & HC & _) Hi Hf. destruct (HC i r Hi) as [[Hin HS]|[C _]]; [|congruence].
  unfold open_ok in Ho. destruct (m_open m) as [j|]; [|congruence].
  destruct Ho as (_ & HS' & r' & Hj & _ & A & B & C). assert (j = i) by lia. subst j.
  rewrite Hi in Hj. inversion Hj; subst r'. auto.
Qed.

(** ---------- updating one request without changing whether it is finished / disconnected ---------- *)

Definition same_ctl (s s' : st) : Prop :=
  s_inchan s' = s_inchan s /\ s_handling s' = s_handling s /\ s_waiting s' = s_waiting s /\ s_lost s' = s_lost s.

Lemma R_upd ex s m s' m' i r r' :
  R ex s m -> nth_error (s_rq s) i = Some r ->
  s_rq s' = upd (s_rq s) i r' -> same_ctl s s' ->
  m_rq m' = upd (m_rq m) i (abs r') -> m_open m' = m_open m -> m_paused m' = m_paused m -> m_gone m' = m_gone m ->
  r_finished r' = r_finished r -> r_disc r' = r_disc r ->
  (m_open m = Some i -> m_head m' = r_started r' /\ m_dead m' = r_disc r' /\ m_nw m' = r_nw r') ->
  (m_open m <> Some i -> m_head m' = m_head m /\ m_dead m' = m_dead m /\ m_nw m' = m_nw m) ->
  (~ In i ex -> r_finished r' || r_disc r' = true -> r_pending r' = []) ->
  (forall d, In d (map fst (r_pending r')) -> d < r_ndef r') ->
  R ex s' m'.
Proof.
  unfold R. intros (Hrq & Ho & HC & HD & HF & HG & HJ & HK & HL) Hi Hs (C1 & C2 & C3 & C4) Hm Hop Hpa Hgo Hfin Hdisc Hcur Hoth Hpend HK'.
  pose proof (nth_some_lt _ _ _ Hi) as Hlt.
  assert (Hnth : forall j rj, nth_error (s_rq s') j = Some rj ->
                   (j = i /\ rj = r') \/ (j <> i /\ nth_error (s_rq s) j = Some rj)).
  { intros j rj Hj. rewrite Hs in Hj. destruct (Nat.eq_dec j i) as [->|Hne].
    - rewrite nth_upd_same in Hj by exact Hlt. inversion Hj. auto.
    - rewrite nth_upd_other in Hj by congruence. auto. }
  repeat split.
  - rewrite Hm, Hs, Hrq, map_upd. reflexivity.
  - unfold open_ok in *. rewrite Hop. destruct (m_open m) as [k|]; [|congruence].
    destruct Ho as (A & B & rk & Hk & Fk & H1 & H2 & H3). rewrite C1, Hs, upd_length. split; [exact A|]. split; [exact B|].
    destruct (Nat.eq_dec k i) as [->|Hne].
    + exists r'. rewrite nth_upd_same by exact Hlt. rewrite Hi in Hk. inversion Hk; subst rk.
      destruct (Hcur eq_refl) as (X & Y & Z). repeat split; congruence.
    + exists rk. rewrite nth_upd_other by congruence.
      destruct Hoth as (X & Y & Z); [congruence|]. repeat split; congruence.
  - intros j rj Hj. rewrite C1, Hs, upd_length. destruct (Hnth j rj Hj) as [[-> ->]|[Hne Hj']].
    + rewrite Hfin, Hdisc. exact (HC i r Hi).
    + exact (HC j rj Hj').
  - rewrite C1, C2. exact HD.
  - intros j rj Hj Hex Hc. destruct (Hnth j rj Hj) as [[-> ->]|[Hne Hj']]; [exact (Hpend Hex Hc)|exact (HF j rj Hj' Hex Hc)].
  - rewrite C2, C3, Hpa. exact HG.
  - rewrite C4. intros Hl j rj Hj. destruct (Hnth j rj Hj) as [[-> ->]|[Hne Hj']]; [rewrite Hdisc; exact (HJ Hl i r Hi)|exact (HJ Hl j rj Hj')].
  - intros j rj Hj. destruct (Hnth j rj Hj) as [[-> ->]|[Hne Hj']]; [exact HK'|exact (HK j rj Hj')].
  - rewrite Hgo, C4. exact HL.
Qed.

Lemma same_ctl_set_rq s l : same_ctl s (set_rq s l).
Proof. repeat split. Qed.

(** the monitor's view of request i *)
Lemma mon_nth ex s m i r : R ex s m -> nth_error (s_rq s) i = Some r -> nth_error (m_rq m) i = Some (abs r).
Proof. unfold R. intros (Hrq & _) Hi. rewrite Hrq. apply nth_map_some, Hi. Qed.

Lemma is_open_true m i : m_open m = Some i -> is_open m i = true.
Proof. unfold is_open. intros ->. apply Nat.eqb_refl. Qed.

Lemma upd_upd {A} (l : list A) : forall i a b, upd (upd l i a) i b = upd l i b.
Proof. induction l as [|y l IH]; intros [|i] a b; cbn; auto. rewrite IH. reflexivity. Qed.

Lemma upd_nth_same {A} (l : list A) : forall i x, nth_error l i = Some x -> upd l i x = l.
Proof. induction l as [|y l IH]; intros [|i] x H; cbn in *; try discriminate; [inversion H; reflexivity|]. rewrite IH by exact H. reflexivity. Qed.

Lemma existsb_app_last d l : existsb (Nat.eqb d) (l ++ [d]) = true.
Proof. rewrite existsb_app. cbn. rewrite Nat.eqb_refl. apply orb_true_iff. right. reflexivity. Qed.

Lemma open_facts ex s m i r : R ex s m -> nth_error (s_rq s) i = Some r -> m_open m = Some i ->
  m_head m = r_started r /\ m_dead m = r_disc r /\ m_nw m = r_nw r.
Proof.
  unfold R, open_ok. intros (_ & Ho & _) Hi Hop. rewrite Hop in Ho.
  destruct Ho as (_ & _ & r0 & H0 & _ & A & B & C). rewrite Hi in H0. inversion H0; subst r0. auto.
Qed.

(** ---------- finished / disconnected requests stay so, the list of requests only grows ---------- *)

Definition keeps (s s' : st) : Prop :=
  length (s_rq s) <= length (s_rq s') /\
  forall j r, nth_error (s_rq s) j = Some r ->
              exists r', nth_error (s_rq s') j = Some r' /\
                         (r_finished r = true -> r_finished r' = true) /\ (r_disc r = true -> r_disc r' = true).

Lemma keeps_refl s : keeps s s.
Proof. split; [lia|]. intros j r H. exists r. auto. Qed.

Lemma keeps_trans a b c : keeps a b -> keeps b c -> keeps a c.
Proof.
  intros [L1 K1] [L2 K2]. split; [lia|]. intros j r H. destruct (K1 j r H) as (r1 & H1 & F1 & D1).
  destruct (K2 j r1 H1) as (r2 & H2 & F2 & D2). exists r2. auto.
Qed.

Lemma keeps_upd s s' i r r' : nth_error (s_rq s) i = Some r -> s_rq s' = upd (s_rq s) i r' ->
  (r_finished r = true -> r_finished r' = true) -> (r_disc r = true -> r_disc r' = true) -> keeps s s'.
Proof.
  intros Hi Hs Hf Hd. split; [rewrite Hs, upd_length; lia|]. intros j rj Hj. rewrite Hs.
  destruct (Nat.eq_dec j i) as [->|Hne].
  - rewrite nth_upd_same by (eapply nth_some_lt, Hi). exists r'. rewrite Hi in Hj. inversion Hj; subst rj. auto.
  - rewrite nth_upd_other by congruence. exists rj. auto.
Qed.

Lemma keeps_same_rq s s' : s_rq s' = s_rq s -> keeps s s'.
Proof. intro E. split; [rewrite E; lia|]. intros j r H. exists r. rewrite E. auto. Qed.

(** request i has finished (ok) / lost its connection (not ok) *)
Definition flag_ok (s : st) (i : nat) (ok : bool) : Prop :=
  exists r, nth_error (s_rq s) i = Some r /\ (if ok then r_finished r else r_disc r) = true.

Definition completed (s : st) (i : nat) : Prop :=
  exists r, nth_error (s_rq s) i = Some r /\ r_disc r || r_finished r = true.

Lemma keeps_flag s s' i ok : keeps s s' -> flag_ok s i ok -> flag_ok s' i ok.
Proof. intros [_ K] (r & H & F). destruct (K i r H) as (r' & H' & A & B). exists r'. split; [exact H'|]. destruct ok; auto. Qed.

Lemma keeps_completed s s' i : keeps s s' -> completed s i -> completed s' i.
Proof.
  intros [_ K] (r & H & F). destruct (K i r H) as (r' & H' & A & B). exists r'. split; [exact H'|].
  apply orb_true_iff in F as [F|F]; [rewrite (B F); reflexivity|rewrite (A F); apply orb_true_r].
Qed.

Lemma flag_completed s i ok : flag_ok s i ok -> completed s i.
Proof. intros (r & H & F). exists r. split; [exact H|]. destruct ok; rewrite F; [apply orb_true_r|reflexivity]. Qed.

Definition pend_of (s : st) (i : nat) : option (list (nat * list ract)) := option_map r_pending (nth_error (s_rq s) i).

Lemma remove_first_fresh d l : ~ In d l -> remove_first d (l ++ [d]) = l.
Proof.
  induction l as [|y l IH]; intro H; cbn; [rewrite Nat.eqb_refl; reflexivity|].
  destruct (Nat.eqb d y) eqn:E; [apply Nat.eqb_eq in E; subst; exfalso; apply H; left; reflexivity|].
  rewrite IH; [reflexivity|]. intro C. apply H. right. exact C.
Qed.

(** ---------- notifyFinish on a completed request: the new Deferred fires at once ---------- *)

Lemma notify_now_sim ex s m i s' evs : R ex s m -> completed s i -> notify_now i s = (s', evs) ->
  exists m', mon_run m evs = Some m' /\ R ex s' m' /\ keeps s s' /\ (forall j, pend_of s' j = pend_of s j).
Proof.
  intros HR (r & Hi & Hc). unfold notify_now. rewrite Hi. intro E; inversion E; subst; clear E.
  pose proof (mon_nth _ _ _ _ _ HR Hi) as Hmi. pose proof (nth_some_lt _ _ _ Hi) as Hlt.
  assert (Hfresh : ~ In (r_ndef r) (map fst (r_pending r))).
  { destruct HR as (_ & _ & _ & _ & _ & _ & _ & HK & _). intro C. apply (HK i r Hi) in C. lia. }
  cbn [mon_run mon_step]. rewrite Hmi. cbn [abs x_ndef x_fin x_lost x_pend]. rewrite Nat.eqb_refl.
  cbn [with_rq m_rq]. rewrite nth_upd_same by (rewrite (proj1 HR), map_length; exact Hlt).
  cbn [x_pend x_fin x_lost x_ndef]. rewrite existsb_app_last. cbn [andb].
  assert ((if negb (r_disc r) then r_finished r else r_disc r) = true) as ->.
  { destruct (r_disc r); cbn in *; [reflexivity|exact Hc]. }
  eexists. split; [reflexivity|]. split; [|split].
  - eapply (R_upd ex s m _ _ i r); try eassumption; try reflexivity.
    + apply same_ctl_set_rq.
    + cbn [m_rq with_rq]. rewrite upd_upd, remove_first_fresh by exact Hfresh. reflexivity.
    + intros Hop. cbn. exact (open_facts _ _ _ _ _ HR Hi Hop).
    + intros _. cbn. auto.
    + intros Hex Hc'. cbn [r_pending]. destruct HR as (_ & _ & _ & _ & HF & _). exact (HF i r Hi Hex Hc').
    + intros d Hd. cbn [r_pending r_ndef] in *. destruct HR as (_ & _ & _ & _ & _ & _ & _ & HK & _). pose proof (HK i r Hi d Hd). lia.
  - eapply keeps_upd; [exact Hi|reflexivity|cbn; auto|cbn; auto].
  - intros j. unfold pend_of. cbn [s_rq set_rq]. destruct (Nat.eq_dec j i) as [->|Hne].
    + rewrite nth_upd_same by exact Hlt. rewrite Hi. reflexivity.
    + rewrite nth_upd_other by congruence. reflexivity.
Qed.

(** ---------- firing the Deferreds of a completed request, with their reactions ---------- *)

Definition react_spec (rf : nat -> st -> ract -> st * list ev) : Prop :=
  forall ex s m i a s' evs, R ex s m -> completed s i -> rf i s a = (s', evs) ->
    exists m', mon_run m evs = Some m' /\ R ex s' m' /\ keeps s s' /\
               (forall j, completed s j -> pend_of s' j = pend_of s j).

Section Firing.
  Variable rf : nat -> st -> ract -> st * list ev.
  Hypothesis Hrf : react_spec rf.

  Lemma run_react_sim re : forall ex s m i s' evs, R ex s m -> completed s i -> run_react rf i re s = (s', evs) ->
    exists m', mon_run m evs = Some m' /\ R ex s' m' /\ keeps s s' /\
               (forall j, completed s j -> pend_of s' j = pend_of s j).
  Proof.
    induction re as [|a re IH]; intros ex s m i s' evs HR Hc; cbn [run_react].
    - intro E; inversion E; subst. exists m. split; [reflexivity|]. split; [exact HR|]. split; [apply keeps_refl|auto].
    - destruct (rf i s a) as [s1 e1] eqn:E1. destruct (run_react rf i re s1) as [s2 e2] eqn:E2.
      intro E; inversion E; subst; clear E.
      destruct (Hrf _ _ _ _ _ _ _ HR Hc E1) as (m1 & A1 & R1 & K1 & P1).
      destruct (IH _ _ _ _ _ _ R1 (keeps_completed _ _ _ K1 Hc) E2) as (m2 & A2 & R2 & K2 & P2).
      exists m2. split; [rewrite mon_run_app, A1; exact A2|]. split; [exact R2|]. split; [eapply keeps_trans; eauto|].
      intros j Hj. rewrite (P2 j (keeps_completed _ _ _ K1 Hj)). apply P1, Hj.
  Qed.

  Lemma fire_list_sim l : forall ex s m i (ok : bool) s' evs,
    R ex s m -> In i ex -> pend_of s i = Some l -> flag_ok s i ok -> fire_list rf i ok l s = (s', evs) ->
    exists m', mon_run m evs = Some m' /\ R ex s' m' /\ keeps s s' /\ pend_of s' i = Some [] /\
               (forall j, j <> i -> completed s j -> pend_of s' j = pend_of s j).
  Proof.
    induction l as [|[d re] l IH]; intros ex s m i ok s' evs HR Hex Hp Hf; cbn [fire_list].
    - intro E; inversion E; subst. exists m. split; [reflexivity|]. split; [exact HR|]. split; [apply keeps_refl|]. split; auto.
    - unfold pend_of in Hp. destruct (nth_error (s_rq s) i) as [r|] eqn:Hi; [|discriminate Hp]. cbn in Hp. inversion Hp as [Hpl]; clear Hp.
      pose proof (nth_some_lt _ _ _ Hi) as Hlt. pose proof (mon_nth _ _ _ _ _ HR Hi) as Hmi.
      set (r1 := mkRq (r_started r) (r_finished r) (r_disc r) l (r_ndef r) (r_nw r) (r_prod r)).
      assert (Es1 : set_pending i l s = set_rq s (upd (s_rq s) i r1)) by (unfold set_pending; rewrite Hi; reflexivity).
      rewrite Es1. set (s1 := set_rq s (upd (s_rq s) i r1)).
      destruct (run_react rf i re s1) as [s2 e2] eqn:E2. destruct (fire_list rf i ok l s2) as [s3 e3] eqn:E3.
      intro E; inversion E; subst; clear E.
      assert (Hflag : (if ok then r_finished r else r_disc r) = true).
      { destruct Hf as (r' & Hi' & F). rewrite Hi in Hi'. inversion Hi'; subst r'. exact F. }
      set (m1 := with_rq m (upd (m_rq m) i (mkM (r_finished r) (r_disc r) (r_ndef r) (map fst l)))).
      assert (Hstep : mon_step m (EFired i d ok) = Some m1).
      { cbn [mon_step]. rewrite Hmi. cbn [abs x_pend x_fin x_lost x_ndef]. rewrite Hpl. cbn [map fst existsb remove_first].
        rewrite Nat.eqb_refl. cbn [orb andb]. rewrite Hflag. reflexivity. }
      assert (R1 : R ex s1 m1).
      { eapply (R_upd ex s m s1 m1 i r r1); try eassumption; try reflexivity.
        - apply same_ctl_set_rq.
        - intros Hop. cbn. exact (open_facts _ _ _ _ _ HR Hi Hop).
        - intros _. cbn. auto.
        - intros C. contradiction.
        - intros d' Hd'. cbn [r1 r_pending r_ndef] in *. destruct HR as (_ & _ & _ & _ & _ & _ & _ & HK & _).
          apply (HK i r Hi). rewrite Hpl. cbn. right. exact Hd'. }
      assert (K01 : keeps s s1) by (eapply keeps_upd; [exact Hi|reflexivity|cbn; auto|cbn; auto]).
      assert (Hp1 : forall j, pend_of s1 j = if Nat.eqb j i then Some l else pend_of s j).
      { intros j. unfold pend_of, s1. cbn [s_rq set_rq]. destruct (Nat.eqb j i) eqn:Ej.
        - apply Nat.eqb_eq in Ej. subst j. rewrite nth_upd_same by exact Hlt. reflexivity.
        - apply Nat.eqb_neq in Ej. rewrite nth_upd_other by congruence. reflexivity. }
      pose proof (flag_completed _ _ _ Hf) as Hc.
      destruct (run_react_sim re ex s1 m1 i s2 e2 R1 (keeps_completed _ _ _ K01 Hc) E2) as (m2 & A2 & R2 & K12 & P2).
      assert (Hp2 : pend_of s2 i = Some l).
      { rewrite (P2 i (keeps_completed _ _ _ K01 Hc)), Hp1, Nat.eqb_refl. reflexivity. }
      destruct (IH ex s2 m2 i ok s' e3 R2 Hex Hp2 (keeps_flag _ _ _ _ (keeps_trans _ _ _ K01 K12) Hf) E3)
        as (m3 & A3 & R3 & K23 & P3 & O3).
      exists m3. split; [cbn [mon_run]; rewrite Hstep, mon_run_app, A2; exact A3|]. split; [exact R3|].
      split; [eapply keeps_trans; [exact K01|eapply keeps_trans; eauto]|]. split; [exact P3|].
      intros j Hne Hj. rewrite (O3 j Hne (keeps_completed _ _ _ (keeps_trans _ _ _ K01 K12) Hj)).
      rewrite (P2 j (keeps_completed _ _ _ K01 Hj)), Hp1.
      assert (Nat.eqb j i = false) as -> by (apply Nat.eqb_neq; exact Hne). reflexivity.
  Qed.
End Firing.

Lemma R_shrink i ex s m : R (i :: ex) s m -> (forall r, nth_error (s_rq s) i = Some r -> r_pending r = []) -> R ex s m.
Proof.
  unfold R. intros (A & B & C & D & F & G & J & K & L) Hp. repeat split; auto.
  intros j r Hj Hex Hc. destruct (Nat.eq_dec j i) as [->|Hne]; [apply Hp, Hj|].
  apply (F j r Hj); [|exact Hc]. intros [E|E]; [congruence|contradiction].
Qed.

Lemma R_grow i ex s m : R ex s m -> R (i :: ex) s m.
Proof.
  unfold R. intros (A & B & C & D & F & G & J & K & L). repeat split; auto.
  intros j r Hj Hex Hc. apply (F j r Hj); [|exact Hc]. intro E. apply Hex. right. exact E.
Qed.

Lemma R_ctl ex s m s' : R ex s m -> s_rq s' = s_rq s -> same_ctl s s' -> R ex s' m.
Proof.
  unfold R, open_ok. intros (A & B & C & D & F & G & J & K & L) E (C1 & C2 & C3 & C4).
  rewrite E, C1, C2, C3, C4. repeat split; auto.
Qed.

  Lemma react0_spec sync : react_spec (react0 sync).
  Proof.
    intros ex s m i a s' evs HR Hc. unfold react0. destruct (nth_error (s_rq s) i) as [r|] eqn:Hi.
    2:{ intro E; inversion E; subst. exists m. split; [reflexivity|]. split; [exact HR|]. split; [apply keeps_refl|auto]. }
    destruct a.
    - intro E; inversion E; subst. exists m. split; [destruct (r_disc r); reflexivity|]. split; [exact HR|]. split; [apply keeps_refl|auto].
    - intro E; inversion E; subst. exists m. split; [destruct (r_finished r); reflexivity|]. split; [exact HR|]. split; [apply keeps_refl|auto].
    - intro E. destruct (notify_now_sim _ _ _ _ _ _ HR Hc E) as (m' & A & B & K & P). exists m'. auto.
    - destruct sync; intro E; inversion E; subst.
      + exists m. split; [reflexivity|]. split; [eapply R_ctl; [exact HR|reflexivity|repeat split]|].
        split; [apply keeps_same_rq; reflexivity|auto].
      + exists m. split; [reflexivity|]. split; [exact HR|]. split; [apply keeps_refl|auto].
  Qed.

  Lemma lose0_sim sync ex s m s' evs : R ex s m -> lose0 sync s = (s', evs) ->
    exists m', mon_run m evs = Some m' /\ R ex s' m' /\ keeps s s' /\
               (forall j, completed s j -> pend_of s' j = pend_of s j).
  Proof.
    intros HR. unfold lose0. destruct (s_lost s) eqn:El.
    { intro E; inversion E; subst. exists m. split; [reflexivity|]. split; [exact HR|]. split; [apply keeps_refl|auto]. }
    pose proof HR as (Hrq & Ho & HC & HD & HF & HG & HJ & HK & HL).
    assert (Hgone : mon_step m EGone = Some (mkMon (m_rq m) (m_open m) (m_head m) (m_dead m) (m_nw m) (m_paused m) true)).
    { cbn [mon_step]. rewrite HL, El. reflexivity. }
    destruct (s_inchan s) eqn:Ein.
    - unfold open_ok in Ho. destruct (m_open m) as [i|] eqn:Hop; [|congruence].
      destruct Ho as (_ & HS & r & Hi & Hf & Hh & Hd & Hn).
      replace (pred (length (s_rq s))) with i by lia. rewrite Hi.
      pose proof (HJ El i r Hi) as Hdisc. pose proof (nth_some_lt _ _ _ Hi) as Hlt.
      set (r' := mkRq (r_started r) (r_finished r) true (r_pending r) (r_ndef r) (r_nw r) (r_prod r)).
      set (s2 := set_rq (mkSt (s_rq s) (s_handling s) true (s_recv s) (s_cons s) (s_waiting s) (s_cprod s) (s_closing s) true)
                        (upd (s_rq s) i r')).
      set (m2 := mkMon (upd (m_rq m) i (mkM (r_finished r) true (r_ndef r) (map fst (r_pending r)))) (Some i) (m_head m) true
                       (m_nw m) (m_paused m) true).
      assert (Hstep : mon_run m [EGone; ELost i] = Some m2).
      { cbn [mon_run]. rewrite Hgone. cbn [mon_step m_rq m_dead m_gone]. rewrite (mon_nth _ _ _ _ _ HR Hi).
        unfold is_open. cbn [m_open m_head m_nw m_paused]. rewrite ?Hop, Nat.eqb_refl, Hd, Hdisc. reflexivity. }
      assert (R2 : R (i :: ex) s2 m2).
      { unfold R. refine (conj _ (conj _ (conj _ (conj _ (conj _ (conj _ (conj _ (conj _ _)))))))).
        - unfold m2, s2. cbn [m_rq s_rq set_rq]. rewrite map_upd, Hrq. reflexivity.
        - unfold open_ok, m2, s2. cbn [m_open s_inchan s_rq set_rq m_head m_dead m_nw]. rewrite upd_length.
          split; [reflexivity|]. split; [exact HS|]. exists r'. rewrite nth_upd_same by exact Hlt. repeat split; auto.
        - intros j rj Hj. unfold s2 in *. cbn [s_rq set_rq s_inchan] in *. rewrite upd_length.
          destruct (Nat.eq_dec j i) as [->|Hne]; [left; auto|].
          rewrite nth_upd_other in Hj by congruence.
          destruct (HC j rj Hj) as [[_ X]|X]; [left; split; [reflexivity|exact X]|right; exact X].
        - unfold s2. cbn. intros Hh0. pose proof (HD Hh0). congruence.
        - intros j rj Hj Hex Hc. unfold s2 in Hj. cbn [s_rq set_rq] in Hj.
          destruct (Nat.eq_dec j i) as [->|Hne]; [exfalso; apply Hex; left; reflexivity|].
          rewrite nth_upd_other in Hj by congruence. apply (HF j rj Hj); [|exact Hc]. intro C. apply Hex. right. exact C.
        - unfold s2, m2. cbn. exact HG.
        - unfold s2. cbn. discriminate.
        - intros j rj Hj. unfold s2 in Hj. cbn [s_rq set_rq] in Hj. destruct (Nat.eq_dec j i) as [->|Hne].
          + rewrite nth_upd_same in Hj by exact Hlt. inversion Hj; subst rj. cbn. exact (HK i r Hi).
          + rewrite nth_upd_other in Hj by congruence. exact (HK j rj Hj).
        - reflexivity. }
      assert (Hp2 : pend_of s2 i = Some (r_pending r)).
      { unfold pend_of, s2. cbn [s_rq set_rq]. rewrite nth_upd_same by exact Hlt. reflexivity. }
      assert (Hf2 : flag_ok s2 i false).
      { exists r'. split; [unfold s2; cbn [s_rq set_rq]; apply nth_upd_same, Hlt|reflexivity]. }
      assert (K02 : keeps s s2).
      { eapply keeps_upd; [exact Hi|reflexivity|cbn; auto|cbn; auto]. }
      fold r'. fold s2. destruct (fire0 sync i false (r_pending r) s2) as [s3 e3] eqn:Ef.
      destruct (fire_list_sim (react0 sync) (react0_spec sync) _ _ _ _ _ _ _ _ R2 (or_introl eq_refl) Hp2 Hf2 Ef)
        as (m3 & A3 & R3 & K23 & P3 & O3).
      intro E; inversion E; subst; clear E.
      exists m3. split.
      { change (EGone :: ELost i :: e3) with ([EGone; ELost i] ++ e3). rewrite mon_run_app, Hstep. exact A3. }
      split.
      { apply (R_shrink i); [exact R3|]. intros r3 H3. unfold pend_of in P3. rewrite H3 in P3. cbn in P3. congruence. }
      split; [eapply keeps_trans; eauto|].
      intros j Hj. assert (Hne : j <> i).
      { intro C. subst j. destruct Hj as (rj & Hj & Fj). rewrite Hi in Hj. inversion Hj; subst rj. rewrite Hdisc, Hf in Fj. discriminate. }
      rewrite (O3 j Hne (keeps_completed _ _ _ K02 Hj)). unfold pend_of, s2. cbn [s_rq set_rq].
      rewrite nth_upd_other by congruence. reflexivity.
    - intro E; inversion E; subst; clear E. eexists. split; [cbn [mon_run]; rewrite Hgone; reflexivity|]. split.
      + unfold R, open_ok in *. cbn. rewrite Ein in *. repeat split; auto. intros C0. discriminate.
      + split; [apply keeps_same_rq; reflexivity|auto].
  Qed.

  Lemma react1_spec sync : react_spec (react1 sync).
  Proof.
    intros ex s m i a s' evs HR Hc. destruct a; try (apply (react0_spec sync); assumption).
    unfold react1. destruct sync.
    - destruct (lose0 true (mark_closing s)) as [s1 e1] eqn:El. intro E; inversion E; subst; clear E.
      assert (R0' : R ex (mark_closing s) m) by (eapply R_ctl; [exact HR|reflexivity|repeat split]).
      destruct (lose0_sim true ex _ m _ _ R0' El) as (m1 & A1 & R1 & K1 & P1).
      exists m1. split; [cbn [mon_run mon_step]; exact A1|]. split; [exact R1|]. split.
      + eapply keeps_trans; [apply (keeps_same_rq s (mark_closing s)); reflexivity|exact K1].
      + intros j Hj. apply (P1 j). exact Hj.
    - intro E; inversion E; subst. exists m. split; [reflexivity|]. split; [exact HR|]. split; [apply keeps_refl|auto].
  Qed.

  Lemma fire_sim sync ex s m i (ok : bool) r : R (i :: ex) s m -> nth_error (s_rq s) i = Some r ->
    (if ok then r_finished r else r_disc r) = true ->
    exists m', mon_run m (snd (fire sync i ok s)) = Some m' /\ R ex (fst (fire sync i ok s)) m' /\ keeps s (fst (fire sync i ok s)).
  Proof.
    intros HR Hi Hok. unfold fire. rewrite Hi.
    destruct (fire1 sync i ok (r_pending r) s) as [s1 e1] eqn:Ef. cbn [fst snd].
    assert (Hp : pend_of s i = Some (r_pending r)) by (unfold pend_of; rewrite Hi; reflexivity).
    assert (Hf : flag_ok s i ok) by (exists r; auto).
    destruct (fire_list_sim (react1 sync) (react1_spec sync) _ _ _ _ _ _ _ _ HR (or_introl eq_refl) Hp Hf Ef)
      as (m1 & A1 & R1 & K1 & P1 & _).
    exists m1. split; [exact A1|]. split; [|exact K1].
    apply (R_shrink i); [exact R1|]. intros r1 H1. unfold pend_of in P1. rewrite H1 in P1. cbn in P1. congruence.
  Qed.

(** ---------- notifyFinish / write / (un)registerProducer / refused finish ---------- *)

Lemma K_of ex s m i r : R ex s m -> nth_error (s_rq s) i = Some r -> forall d, In d (map fst (r_pending r)) -> d < r_ndef r.
Proof. unfold R. intros (_ & _ & _ & _ & _ & _ & _ & HK & _) Hi. exact (HK i r Hi). Qed.

Lemma F_of ex s m i r : R ex s m -> nth_error (s_rq s) i = Some r -> ~ In i ex -> r_finished r || r_disc r = true -> r_pending r = [].
Proof. unfold R. intros (_ & _ & _ & _ & HF & _) Hi. exact (HF i r Hi). Qed.

Lemma app_simple_sim sync ex s m i a s' evs :
  R ex s m -> ~ In i ex -> app_simple sync i a s = Some (s', evs) ->
  exists m', mon_run m evs = Some m' /\ R ex s' m' /\ keeps s s'.
Proof.
  intros HR Hex. unfold app_simple. destruct (nth_error (s_rq s) i) as [r|] eqn:Hi.
  2:{ intro H; inversion H; subst. exists m. split; [reflexivity|]. split; [exact HR|apply keeps_refl]. }
  pose proof (mon_nth _ _ _ _ _ HR Hi) as Hmi. pose proof (nth_some_lt _ _ _ Hi) as Hlt.
  assert (Hsame : exists m', mon_run m [] = Some m' /\ R ex s m' /\ keeps s s)
    by (exists m; split; [reflexivity|]; split; [exact HR|apply keeps_refl]).
  destruct a as [re| | | |].
  - (* notifyFinish *)
    destruct (r_disc r || r_finished r) eqn:Elate.
    + (* after completion: fires at once, and its reaction runs *)
      assert (Hc : completed s i) by (exists r; auto).
      destruct (notify_now i s) as [s1 e1] eqn:E1. destruct (run_react1 sync i re s1) as [s2 e2] eqn:E2.
      intro H; inversion H; subst; clear H.
      destruct (notify_now_sim _ _ _ _ _ _ HR Hc E1) as (m1 & A1 & R1 & K1 & _).
      destruct (run_react_sim (react1 sync) (react1_spec sync) re _ _ _ _ _ _ R1 (keeps_completed _ _ _ K1 Hc) E2)
        as (m2 & A2 & R2 & K2 & _).
      exists m2. split; [rewrite mon_run_app, A1; exact A2|]. split; [exact R2|eapply keeps_trans; eauto].
    + intro H; inversion H; subst; clear H. apply orb_false_iff in Elate as [E1 E2].
      cbn [mon_run mon_step]. rewrite Hmi. cbn [abs x_ndef x_fin x_lost x_pend]. rewrite Nat.eqb_refl.
      eexists. split; [reflexivity|]. split.
      * eapply (R_upd ex s m _ _ i r);
          [exact HR|exact Hi|reflexivity|apply same_ctl_set_rq| |reflexivity|reflexivity|reflexivity|reflexivity|reflexivity| | | | ].
        -- cbn [m_rq with_rq]. unfold abs. cbn [r_finished r_disc r_ndef r_pending]. rewrite map_app. reflexivity.
        -- intros Hop. cbn. exact (open_facts _ _ _ _ _ HR Hi Hop).
        -- intros _. cbn. auto.
        -- intros _. cbn [r_finished r_disc]. rewrite E1, E2. discriminate.
        -- intros d. cbn [r_pending r_ndef]. rewrite map_app, in_app_iff. cbn. intros [Hd|[<-|[]]]; [pose proof (K_of _ _ _ _ _ HR Hi d Hd)|]; lia.
      * eapply keeps_upd; [exact Hi|reflexivity|cbn; auto|cbn; auto].
  - (* write *)
    destruct (r_finished r) eqn:Ef.
    { intro H; inversion H; subst. exists m. split; [reflexivity|]. split; [exact HR|apply keeps_refl]. }
    destruct (r_disc r) eqn:Ed.
    { intro H; inversion H; subst. exact Hsame. }
    destruct (live_is_open _ _ _ _ _ HR Hi Ef) as (Hop & Hh & Hd & Hn & _).
    assert (HK := K_of _ _ _ _ _ HR Hi).
    unfold do_head. destruct (r_started r) eqn:Es; intro H; inversion H; subst; clear H.
    + cbn [app mon_run mon_step]. rewrite (is_open_true _ _ Hop), Hh, Hd, Ed, Hn, Nat.eqb_refl. cbn [andb negb].
      eexists. split; [reflexivity|]. split.
      * eapply (R_upd ex s m _ _ i r);
          [exact HR|exact Hi|reflexivity|apply same_ctl_set_rq| |reflexivity|reflexivity|reflexivity| | | | | | ].
        -- cbn [m_rq]. unfold abs. cbn. rewrite upd_nth_same; [reflexivity|]. rewrite Hmi. unfold abs. rewrite ?Ef, ?Ed. reflexivity.
        -- cbn. congruence.
        -- cbn. congruence.
        -- intros _. cbn. rewrite ?Hn. auto.
        -- intros C. congruence.
        -- intros _. cbn [r_finished r_disc]. rewrite ?Ef, ?Ed. discriminate.
        -- exact HK.
      * eapply keeps_upd; [exact Hi|reflexivity|cbn; congruence|cbn; congruence].
    + cbn [app mon_run mon_step]. rewrite (is_open_true _ _ Hop), Hh, Hd, Ed. cbn [andb negb m_open m_head m_dead m_nw is_open].
      unfold is_open. cbn [m_open]. rewrite Hop, Nat.eqb_refl, Hn, Nat.eqb_refl. cbn [andb negb].
      eexists. split; [reflexivity|]. split.
      * eapply (R_upd ex s m _ _ i r);
          [exact HR|exact Hi|reflexivity|apply same_ctl_set_rq| | |reflexivity|reflexivity| | | | | | ].
        -- cbn [m_rq]. unfold abs. cbn. rewrite upd_nth_same; [reflexivity|]. rewrite Hmi. unfold abs. rewrite ?Ef, ?Ed. reflexivity.
        -- cbn. congruence.
        -- cbn. congruence.
        -- cbn. congruence.
        -- intros _. cbn. rewrite ?Hn. auto.
        -- intros C. congruence.
        -- intros _. cbn [r_finished r_disc]. rewrite ?Ef, ?Ed. discriminate.
        -- exact HK.
      * eapply keeps_upd; [exact Hi|reflexivity|cbn; congruence|cbn; congruence].
  - (* finish that does not go through *)
    destruct (r_disc r); [intro H; inversion H; subst; exists m; split; [reflexivity|]; split; [exact HR|apply keeps_refl]|].
    destruct (r_finished r); [intro H; inversion H; subst; exact Hsame|discriminate].
  - (* registerProducer *)
    destruct (r_prod r || s_cprod s || r_finished r || r_disc r);
      intro H; inversion H; subst; clear H; exists m; (split; [reflexivity|]); [split; [exact HR|apply keeps_refl]|].
    split; [|eapply keeps_upd; [exact Hi|reflexivity|cbn; auto|cbn; auto]].
    eapply (R_upd ex s m _ m i r);
      [exact HR|exact Hi|reflexivity|repeat split| |reflexivity|reflexivity|reflexivity|reflexivity|reflexivity| | | | ].
    + unfold abs. cbn. rewrite upd_nth_same; [reflexivity|]. rewrite Hmi. reflexivity.
    + intros Hop. cbn. exact (open_facts _ _ _ _ _ HR Hi Hop).
    + auto.
    + intros _ Hc. exact (F_of _ _ _ _ _ HR Hi Hex Hc).
    + exact (K_of _ _ _ _ _ HR Hi).
  - (* unregisterProducer *)
    destruct (r_finished r || r_disc r);
      intro H; inversion H; subst; clear H; exists m; (split; [reflexivity|]); [split; [exact HR|apply keeps_refl]|].
    split; [|eapply keeps_upd; [exact Hi|reflexivity|cbn; auto|cbn; auto]].
    eapply (R_upd ex s m _ m i r);
      [exact HR|exact Hi|reflexivity|repeat split| |reflexivity|reflexivity|reflexivity|reflexivity|reflexivity| | | | ].
    + unfold abs. cbn. rewrite upd_nth_same; [reflexivity|]. rewrite Hmi. reflexivity.
    + intros Hop. cbn. exact (open_facts _ _ _ _ _ HR Hi Hop).
    + auto.
    + intros _ Hc. exact (F_of _ _ _ _ _ HR Hi Hex Hc).
    + exact (K_of _ _ _ _ _ HR Hi).
Qed.

Lemma app_simple_none sync i a s : app_simple sync i a s = None ->
  exists r, nth_error (s_rq s) i = Some r /\ r_disc r = false /\ r_finished r = false.
Proof.
  unfold app_simple. destruct (nth_error (s_rq s) i) as [r|]; [|discriminate].
  destruct a as [re| | | |].
  - destruct (r_disc r || r_finished r); [|discriminate].
    destruct (notify_now i s). destruct (run_react1 sync i re s0). discriminate.
  - destruct (r_finished r); [discriminate|]. destruct (r_disc r); [discriminate|]. destruct (do_head i r). discriminate.
  - destruct (r_disc r) eqn:E1; [discriminate|]. destruct (r_finished r) eqn:E2; [discriminate|]. intros _. exists r. auto.
  - destruct (r_prod r || s_cprod s || r_finished r || r_disc r); discriminate.
  - destruct (r_finished r || r_disc r); discriminate.
Qed.

(** ---------- Request.finish up to requestDone ---------- *)

Section Sim.
  Variable eager : N.
  Variable sync : bool.
  Variable reqs : list reqspec.

  Lemma finish_core_sim ex s m i r s' evs :
    R ex s m -> nth_error (s_rq s) i = Some r -> r_finished r = false -> r_disc r = false ->
    finish_core sync reqs i r s = (s', evs) ->
    exists m', mon_run m evs = Some m' /\ R (i :: ex) s' m' /\
               (exists r', nth_error (s_rq s') i = Some r' /\ r_finished r' = true) /\
               length (s_rq s') = length (s_rq s) /\ keeps s s'.
  Proof.
    intros HR Hi Hf Hd. destruct (live_is_open _ _ _ _ _ HR Hi Hf) as (Hop & Hh & Hdd & Hn & HS).
    pose proof (mon_nth _ _ _ _ _ HR Hi) as Hmi. pose proof (nth_some_lt _ _ _ Hi) as Hlt.
    unfold finish_core.
    set (m1 := mkMon (upd (m_rq m) i (mkM true false (r_ndef r) (map fst (r_pending r)))) None false false 0 (m_paused m) (m_gone m)).
    assert (Hrun1 : forall r1 e1, do_head i r = (r1, e1) ->
              mon_run m (e1 ++ [EEnd i]) = Some m1 /\ r_disc r1 = r_disc r /\ r_pending r1 = r_pending r /\
              r_ndef r1 = r_ndef r /\ r_nw r1 = r_nw r /\ r_prod r1 = r_prod r).
    { intros r1 e1. unfold do_head. destruct (r_started r) eqn:Es; intro E; inversion E; subst; clear E.
      - cbn [app mon_run mon_step]. rewrite Hmi, (is_open_true _ _ Hop), Hh, Hdd, Hd. cbn [andb negb abs x_lost x_ndef x_pend].
        rewrite ?Hd. repeat split; reflexivity.
      - cbn [app mon_run mon_step]. rewrite (is_open_true _ _ Hop), Hh, Hdd, Hd. cbn [andb negb m_rq].
        rewrite Hmi. unfold is_open. cbn [m_open m_head m_dead]. rewrite Hop, Nat.eqb_refl, ?Hdd, ?Hd.
        cbn [andb negb abs x_lost x_ndef x_pend]. rewrite ?Hd. repeat split; reflexivity. }
    destruct (do_head i r) as [r1 e1] eqn:Eh. destruct (Hrun1 r1 e1 eq_refl) as (Hr1 & Hd1 & Hp1 & Hnd1 & Hnw1 & Hpr1).
    unfold request_done. cbn [s_waiting s_rq s_handling s_inchan s_recv s_cons s_cprod s_closing s_lost].
    set (r2 := mkRq true true (r_disc r1) (r_pending r1) (r_ndef r1) (r_nw r1) false).
    assert (Hm1rq : m_rq m1 = map abs (upd (s_rq s) i r2)).
    { unfold m1. cbn [m_rq]. rewrite map_upd, (proj1 HR). f_equal. unfold abs, r2. cbn. rewrite Hd1, Hnd1, Hp1, Hd. reflexivity. }
    pose proof HR as (Hrq & Ho & HC & HD & HF & HG & HJ & HK & HL).
    assert (Hcommon : forall hand (m2 : mon), m_rq m2 = m_rq m1 -> m_open m2 = None ->
               (hand = false -> s_waiting s = false -> m_paused m2 = false) ->
               forall s2, s_rq s2 = upd (s_rq s) i r2 -> s_inchan s2 = false -> s_handling s2 = hand ->
                          s_waiting s2 = s_waiting s -> (s_lost s2 = false -> s_lost s = false) -> m_gone m2 = s_lost s2 ->
               R (i :: ex) s2 m2).
    { intros hand m2 E1 E2 E3 s2 S1 S2 S3 S4 S5 S6. unfold R.
      refine (conj _ (conj _ (conj _ (conj _ (conj _ (conj _ (conj _ (conj _ _)))))))).
      - rewrite E1, S1. exact Hm1rq.
      - unfold open_ok. rewrite E2. exact S2.
      - intros j rj Hj. rewrite S1 in Hj. right. destruct (Nat.eq_dec j i) as [->|Hne].
        + rewrite nth_upd_same in Hj by exact Hlt. inversion Hj; subst rj. cbn. rewrite Hd1. auto.
        + rewrite nth_upd_other in Hj by congruence. destruct (HC j rj Hj) as [[_ HSj]|Hfin]; [lia|exact Hfin].
      - intros _. exact S2.
      - intros j rj Hj Hex Hc. rewrite S1 in Hj. destruct (Nat.eq_dec j i) as [->|Hne]; [exfalso; apply Hex; left; reflexivity|].
        rewrite nth_upd_other in Hj by congruence. apply (HF j rj Hj); [|exact Hc]. intro E. apply Hex. right. exact E.
      - rewrite S3, S4. exact E3.
      - intros Hl j rj Hj. rewrite S1 in Hj. destruct (Nat.eq_dec j i) as [->|Hne].
        + rewrite nth_upd_same in Hj by exact Hlt. inversion Hj; subst rj. cbn. rewrite Hd1. exact Hd.
        + rewrite nth_upd_other in Hj by congruence. exact (HJ (S5 Hl) j rj Hj).
      - intros j rj Hj. rewrite S1 in Hj. destruct (Nat.eq_dec j i) as [->|Hne].
        + rewrite nth_upd_same in Hj by exact Hlt. inversion Hj; subst rj. cbn [r2 r_pending r_ndef]. rewrite Hp1, Hnd1. exact (HK i r Hi).
        + rewrite nth_upd_other in Hj by congruence. exact (HK j rj Hj).
      - exact S6. }
    assert (Hfacts : (exists r', nth_error (upd (s_rq s) i r2) i = Some r' /\ r_finished r' = true) /\
                     length (upd (s_rq s) i r2) = length (s_rq s)).
    { rewrite upd_length, nth_upd_same by exact Hlt. split; [exists r2; split; reflexivity|reflexivity]. }
    assert (Hkeep : forall s2, s_rq s2 = upd (s_rq s) i r2 -> keeps s s2).
    { intros s2 E. eapply keeps_upd; [exact Hi|exact E|reflexivity|]. cbn. rewrite Hd1. auto. }
    assert (Hnohand : s_handling s = false -> False).
    { intros Hh0. pose proof (HD Hh0) as C0. unfold open_ok in Ho. rewrite Hop in Ho. destruct Ho as [C _]. congruence. }
    destruct (q_persist (spec_of reqs i)).
    - (* persistent *)
      destruct (s_waiting s) eqn:Ew; intro E; inversion E; subst; clear E; cbn [app] in *.
      + exists m1. split; [rewrite ?app_nil_r; exact Hr1|]. split.
        * eapply (Hcommon false m1); cbn; try reflexivity; try congruence; try (intros _ C; congruence); try exact HL.
        * destruct Hfacts as [A B]. cbn [s_rq]. split; [exact A|]. split; [exact B|]. apply Hkeep. reflexivity.
      + exists (mkMon (m_rq m1) None false false 0 false (m_gone m)). split.
        * change (e1 ++ [EEnd i; ENetResume]) with (e1 ++ [EEnd i] ++ [ENetResume]). rewrite app_assoc, mon_run_app, Hr1. reflexivity.
        * split; [eapply (Hcommon false); cbn; try reflexivity; try congruence; auto|].
          destruct Hfacts as [A B]. cbn [s_rq]. split; [exact A|]. split; [exact B|]. apply Hkeep. reflexivity.
    - (* Connection: close *)
      destruct (sync && negb (s_lost s)) eqn:Esl.
      + (* the transport reports the loss at once *)
        apply andb_true_iff in Esl as [_ El]. apply negb_true_iff in El.
        assert (Hg : m_gone m = false) by congruence.
        destruct (s_waiting s) eqn:Ew; intro E; inversion E; subst; clear E; cbn [app] in *.
        * exists (mkMon (m_rq m1) None false false 0 (m_paused m) true). split.
          -- change (e1 ++ [EEnd i; EClose; EGone]) with (e1 ++ [EEnd i] ++ [EClose; EGone]).
             rewrite app_assoc, mon_run_app, Hr1. cbn [mon_run mon_step m_gone m1]. rewrite Hg. reflexivity.
          -- split; [eapply (Hcommon (s_handling s)); cbn; try reflexivity; try congruence; try (intros C; exfalso; exact (Hnohand C))|].
             destruct Hfacts as [A B]. cbn [s_rq]. split; [exact A|]. split; [exact B|]. apply Hkeep. reflexivity.
        * exists (mkMon (m_rq m1) None false false 0 false true). split.
          -- change (e1 ++ [EEnd i; ENetResume; EClose; EGone]) with (e1 ++ [EEnd i] ++ [ENetResume; EClose; EGone]).
             rewrite app_assoc, mon_run_app, Hr1. cbn [mon_run mon_step m_gone m1]. rewrite Hg. reflexivity.
          -- split; [eapply (Hcommon (s_handling s)); cbn; try reflexivity; try congruence; auto|].
             destruct Hfacts as [A B]. cbn [s_rq]. split; [exact A|]. split; [exact B|]. apply Hkeep. reflexivity.
      + destruct (s_waiting s) eqn:Ew; intro E; inversion E; subst; clear E; cbn [app] in *.
        * exists m1. split.
          -- change (e1 ++ [EEnd i; EClose]) with (e1 ++ [EEnd i] ++ [EClose]). rewrite app_assoc, mon_run_app, Hr1. reflexivity.
          -- split; [eapply (Hcommon (s_handling s) m1); cbn; try reflexivity; try congruence; try (intros C; exfalso; exact (Hnohand C)); try exact HL|].
             destruct Hfacts as [A B]. cbn [s_rq]. split; [exact A|]. split; [exact B|]. apply Hkeep. reflexivity.
        * exists (mkMon (m_rq m1) None false false 0 false (m_gone m)). split.
          -- change (e1 ++ [EEnd i; ENetResume; EClose]) with (e1 ++ [EEnd i] ++ [ENetResume; EClose]).
             rewrite app_assoc, mon_run_app, Hr1. reflexivity.
          -- split; [eapply (Hcommon (s_handling s)); cbn; try reflexivity; try congruence; auto|].
             destruct Hfacts as [A B]. cbn [s_rq]. split; [exact A|]. split; [exact B|]. apply Hkeep. reflexivity.
  Qed.
End Sim.

Section Sim2.
  Variable eager : N.
  Variable sync : bool.
  Variable reqs : list reqspec.

  Lemma app_sync_sim ex s m i a s' evs :
    R ex s m -> ~ In i ex -> app_sync sync reqs i s a = (s', evs) ->
    exists m', mon_run m evs = Some m' /\ R ex s' m' /\ keeps s s'.
  Proof.
    intros HR Hex. unfold app_sync. destruct (app_simple sync i a s) as [[s1 e1]|] eqn:Ea.
    - intro E; inversion E; subst. eapply app_simple_sim; eauto.
    - destruct (app_simple_none _ _ _ _ Ea) as (r & Hi & Hd & Hf). rewrite Hi.
      destruct (finish_core sync reqs i r s) as [s1 e1] eqn:Ef.
      destruct (finish_core_sim sync reqs _ _ _ _ _ _ _ HR Hi Hf Hd Ef) as (m1 & A1 & R1 & (r' & Hi' & Hf') & _ & K1).
      destruct (fire_sim sync ex s1 m1 i true r' R1 Hi' Hf') as (m2 & A2 & R2 & K2).
      destruct (fire sync i true s1) as [s2 e2] eqn:Efi. cbn [fst snd] in *. intro E; inversion E; subst.
      exists m2. split; [rewrite mon_run_app, A1; exact A2|]. split; [exact R2|eapply keeps_trans; eauto].
  Qed.

  Lemma run_script_sim ex i acts : forall s m s' evs,
    R ex s m -> ~ In i ex -> run_script sync reqs i acts s = (s', evs) ->
    exists m', mon_run m evs = Some m' /\ R ex s' m' /\ keeps s s'.
  Proof.
    induction acts as [|a acts IH]; intros s m s' evs HR Hex; cbn [run_script].
    - intro E; inversion E; subst. exists m. split; [reflexivity|]. split; [exact HR|apply keeps_refl].
    - destruct (app_sync sync reqs i s a) as [s1 e1] eqn:E1. destruct (run_script sync reqs i acts s1) as [s2 e2] eqn:E2.
      intro E; inversion E; subst.
      destruct (app_sync_sim _ _ _ _ _ _ _ HR Hex E1) as (m1 & A1 & R1 & K1).
      destruct (IH _ _ _ _ R1 Hex E2) as (m2 & A2 & R2 & K2).
      exists m2. split; [rewrite mon_run_app, A1; exact A2|]. split; [exact R2|]. eapply keeps_trans; eauto.
  Qed.

  Lemma R_set_paused ex s m b : R ex s m -> s_handling s = true ->
    R ex s (mkMon (m_rq m) (m_open m) (m_head m) (m_dead m) (m_nw m) b (m_gone m)).
  Proof.
    unfold R, open_ok. intros (A & B & C & D & F & G & J & K & L) Hh. cbn. repeat split; auto. intros C0. congruence.
  Qed.

  Lemma eager_check_sim ex s m : R ex s m -> s_handling s = true ->
    exists m', mon_run m (eager_check eager s) = Some m' /\ R ex s m'.
  Proof.
    intros HR Hh. unfold eager_check. destruct ((eager <? s_recv s - s_cons s)%N && negb (s_waiting s)).
    - eexists. split; [reflexivity|]. apply R_set_paused; assumption.
    - exists m. split; [reflexivity|exact HR].
  Qed.

  Lemma drain_sim ex rest : forall s m s' evs,
    R ex s m -> (forall j, In j ex -> j < length (s_rq s)) -> drain eager sync reqs rest s = (s', evs) ->
    exists m', mon_run m evs = Some m' /\ R ex s' m' /\ keeps s s'.
  Proof.
    induction rest as [|q rest IH]; intros s m s' evs HR Hlt; cbn [drain].
    { intro E; inversion E; subst. exists m. split; [reflexivity|]. split; [exact HR|apply keeps_refl]. }
    destruct (s_handling s || s_lost s) eqn:Ehl.
    { intro E; inversion E; subst. exists m. split; [reflexivity|]. split; [exact HR|apply keeps_refl]. }
    destruct (s_recv s <? s_cons s + q_len q)%N.
    { intro E; inversion E; subst. exists m. split; [reflexivity|]. split; [exact HR|apply keeps_refl]. }
    apply orb_false_iff in Ehl as [Eh El].
    set (n := length (s_rq s)).
    set (s1 := mkSt (s_rq s ++ [rq0]) true true (s_recv s) (s_cons s + q_len q) (s_waiting s) (s_cprod s) (s_closing s) (s_lost s)).
    set (m1 := mkMon (m_rq m ++ [mkM false false 0 []]) (Some n) false false 0 (m_paused m) false).
    assert (Hopen : m_open m = None).
    { destruct HR as (_ & Ho & _ & HD & _). unfold open_ok in Ho. destruct (m_open m); [|reflexivity].
      destruct Ho as [C _]. rewrite (HD Eh) in C. discriminate. }
    assert (Hstep : mon_step m (EProcess n) = Some m1).
    { cbn [mon_step]. rewrite Hopen. replace (length (m_rq m)) with n by (rewrite (proj1 HR), map_length; reflexivity).
      destruct HR as (_ & _ & _ & _ & _ & _ & _ & _ & HL). rewrite Nat.eqb_refl, HL, El. reflexivity. }
    assert (R1 : R ex s1 m1).
    { destruct HR as (Hrq & Ho & HC & HD & HF & HG & HJ & HK & HL). pose proof (HD Eh) as Hin.
      assert (Hsplit : forall j rj, nth_error (s_rq s ++ [rq0]) j = Some rj ->
                (j < n /\ nth_error (s_rq s) j = Some rj) \/ (j = n /\ rj = rq0)).
      { intros j rj Hj. destruct (Nat.lt_ge_cases j n) as [L|G].
        - rewrite nth_error_app1 in Hj by exact L. auto.
        - rewrite nth_error_app2 in Hj by exact G. fold n in Hj. destruct (j - n) as [|k] eqn:Ek.
          + cbn in Hj. inversion Hj. right. split; [lia|reflexivity].
          + cbn in Hj. destruct k; discriminate. }
      unfold R. refine (conj _ (conj _ (conj _ (conj _ (conj _ (conj _ (conj _ (conj _ _)))))))).
      - unfold m1, s1. cbn [m_rq s_rq]. rewrite map_app, Hrq. reflexivity.
      - unfold open_ok, m1, s1. cbn [m_open s_inchan s_rq m_head m_dead m_nw]. split; [reflexivity|]. split; [rewrite app_length; cbn; fold n; lia|].
        exists rq0. rewrite nth_error_app2 by (fold n; lia). fold n. rewrite Nat.sub_diag. repeat split.
      - intros j rj Hj. unfold s1 in *. cbn [s_rq s_inchan] in *. rewrite app_length. cbn [length]. fold n.
        destruct (Hsplit j rj Hj) as [[L Hj']|[-> ->]].
        + right. destruct (HC j rj Hj') as [[C _]|Fin]; [congruence|exact Fin].
        + left. split; [reflexivity|lia].
      - unfold s1. cbn. discriminate.
      - intros j rj Hj Hex Hc. unfold s1 in Hj. cbn [s_rq] in Hj. destruct (Hsplit j rj Hj) as [[L Hj']|[-> ->]].
        + exact (HF j rj Hj' Hex Hc).
        + reflexivity.
      - unfold s1. cbn. discriminate.
      - unfold s1. cbn [s_lost s_rq]. intros Hl j rj Hj. destruct (Hsplit j rj Hj) as [[L Hj']|[-> ->]].
        + exact (HJ Hl j rj Hj').
        + reflexivity.
      - intros j rj Hj. unfold s1 in Hj. cbn [s_rq] in Hj. destruct (Hsplit j rj Hj) as [[L Hj']|[-> ->]].
        + exact (HK j rj Hj').
        + intros d [].
      - unfold m1, s1. cbn. congruence. }
    assert (Hexn : ~ In n ex) by (intro C; apply Hlt in C; unfold n in C; lia).
    assert (K01 : keeps s s1).
    { split; [unfold s1; cbn [s_rq]; rewrite app_length; lia|]. intros j r Hj. exists r. split; [|auto].
      unfold s1. cbn [s_rq]. rewrite nth_error_app1 by (eapply nth_some_lt, Hj). exact Hj. }
    fold n. fold s1.
    destruct (run_script sync reqs n (q_script q) s1) as [s2 e2] eqn:Es.
    destruct (run_script_sim _ _ _ _ _ _ _ R1 Hexn Es) as (m2 & A2 & R2 & K12).
    destruct (s_handling s2) eqn:Eh2.
    - intro E; inversion E; subst; clear E.
      destruct ((s_cons s' <? s_recv s')%N && negb (s_closing s') && negb (q_body q)).
      + destruct (eager_check_sim ex s' m2 R2 Eh2) as (m3 & A3 & R3).
        exists m3. split; [|split; [exact R3|eapply keeps_trans; eauto]].
        cbn [mon_run]. rewrite Hstep, mon_run_app, A2. exact A3.
      + exists m2. split; [|split; [exact R2|eapply keeps_trans; eauto]].
        cbn [mon_run]. rewrite Hstep, app_nil_r. exact A2.
    - destruct (drain eager sync reqs rest s2) as [s3 e3] eqn:Ed. intro E; inversion E; subst; clear E.
      assert (Hlt2 : forall j, In j ex -> j < length (s_rq s2)).
      { intros j Hj. apply Hlt in Hj. destruct K01 as [L1 _]. destruct K12 as [L2 _]. lia. }
      destruct (IH _ _ _ _ R2 Hlt2 Ed) as (m3 & A3 & R3 & K23).
      exists m3. split; [|split; [exact R3|eapply keeps_trans; [exact K01|eapply keeps_trans; eauto]]].
      cbn [mon_run]. rewrite Hstep, mon_run_app, A2. exact A3.
  Qed.

  (** ---------- one operation ---------- *)

  Lemma step_sim s m o s' evs :
    R [] s m -> step eager sync reqs s o = (s', evs) ->
    exists m', mon_run m evs = Some m' /\ R [] s' m'.
  Proof.
    intros HR. destruct o as [n| | | |i a]; cbn [step].
    - (* Data *)
      destruct (s_lost s || s_closing s) eqn:Elc; [intro E; inversion E; subst; exists m; split; [reflexivity|exact HR]|].
      destruct (s_handling s) eqn:Eh.
      + assert (R1 : R [] (mkSt (s_rq s) true (s_inchan s) (s_recv s + n) (s_cons s) (s_waiting s) (s_cprod s) (s_closing s) (s_lost s)) m).
        { eapply R_ctl; [exact HR|reflexivity|]. repeat split; cbn; congruence. }
        intro E; inversion E; subst. destruct (0 <? n)%N.
        * apply eager_check_sim; [exact R1|reflexivity].
        * exists m. split; [reflexivity|exact R1].
      + assert (R1 : R [] (mkSt (s_rq s) false (s_inchan s) (s_recv s + n) (s_cons s) (s_waiting s) (s_cprod s) (s_closing s) (s_lost s)) m).
        { eapply R_ctl; [exact HR|reflexivity|]. repeat split; cbn; congruence. }
        intro E. destruct (drain_sim [] _ _ _ _ _ R1 (fun j (H : In j []) => match H with end) E) as (m' & A & B & _).
        exists m'. auto.
    - (* transport pauses the channel *)
      destruct (s_lost s) eqn:El; [intro E; inversion E; subst; exists m; split; [reflexivity|exact HR]|].
      intro E; inversion E; subst; clear E.
      assert (Hp : mon_run m (if s_cprod s then [EProdPause (pred (length (s_rq s)))] else []) = Some m)
        by (destruct (s_cprod s); reflexivity).
      rewrite mon_run_app, Hp. destruct HR as (A & B & C & D & F & G & J & K & L).
      destruct (s_handling s) eqn:Eh; eexists; (split; [reflexivity|]); unfold R, open_ok in *; cbn; repeat split; auto;
        try (intros; congruence); try (intros _; exact (J El)).
    - (* transport resumes the channel *)
      destruct (s_lost s) eqn:El; [intro E; inversion E; subst; exists m; split; [reflexivity|exact HR]|].
      intro E; inversion E; subst; clear E.
      assert (Hp : mon_run m (if s_cprod s then [EProdResume (pred (length (s_rq s)))] else []) = Some m)
        by (destruct (s_cprod s); reflexivity).
      rewrite mon_run_app, Hp. destruct HR as (A & B & C & D & F & G & J & K & L).
      destruct (s_handling s) eqn:Eh; cbn [andb]; [destruct (eager <? s_recv s - s_cons s)%N|];
        eexists; (split; [reflexivity|]); unfold R, open_ok in *; cbn; repeat split; auto;
        try (intros; congruence); try (intros _; exact (J El)).
    - (* connection lost *)
      intro E. destruct (lose0_sim sync [] _ _ _ _ HR E) as (m' & A & B & _). exists m'. auto.
    - (* the application acts on request i *)
      destruct (app_simple sync i a s) as [[s1 e1]|] eqn:Ea.
      + intro E; inversion E; subst. destruct (app_simple_sim sync [] _ _ _ _ _ _ HR (fun f => f) Ea) as (m' & A & B & _). exists m'. auto.
      + destruct (app_simple_none _ _ _ _ Ea) as (r & Hi & Hd & Hf). rewrite Hi.
        destruct (finish_core sync reqs i r s) as [s1 e1] eqn:Ef.
        destruct (finish_core_sim sync reqs _ _ _ _ _ _ _ HR Hi Hf Hd Ef) as (m1 & A1 & R1 & (r1 & Hi1 & Hf1) & Hlen & _).
        destruct (drain eager sync reqs (remaining reqs s1) s1) as [s2 e2] eqn:Ed.
        assert (Hlt1 : forall j, In j [i] -> j < length (s_rq s1)).
        { intros j [<-|[]]. rewrite Hlen. eapply nth_some_lt, Hi. }
        destruct (drain_sim [i] _ _ _ _ _ R1 Hlt1 Ed) as (m2 & A2 & R2 & [_ K2]).
        destruct (K2 i r1 Hi1) as (r2 & Hi2 & Hf2 & _).
        destruct (fire_sim sync [] s2 m2 i true r2 R2 Hi2 (Hf2 Hf1)) as (m3 & A3 & R3 & _).
        destruct (fire sync i true s2) as [s3 e3]. cbn [fst snd] in *.
        intro E; inversion E; subst. exists m3. split; [|exact R3].
        rewrite mon_run_app, A1, mon_run_app, A2. exact A3.
  Qed.

  (** ---------- the idle timeout layer ---------- *)
  Variable tmo : option N.
  Variable abt : option N.

  Lemma close_sim s m s1 e1 : R [] s m ->
    (if sync then lose0 sync (mark_closing s) else (mark_closing s, [])) = (s1, e1) ->
    exists m', mon_run m e1 = Some m' /\ R [] s1 m'.
  Proof.
    intros HR. assert (R0' : R [] (mark_closing s) m) by (eapply R_ctl; [exact HR|reflexivity|repeat split]).
    destruct sync eqn:Es.
    - intro E. rewrite <- Es in E. destruct (lose0_sim sync [] _ _ _ _ R0' E) as (m' & A & B & _). exists m'. auto.
    - intro E; inversion E; subst. exists m. split; [reflexivity|exact R0'].
  Qed.

  Lemma tstep_sim t m o t' evs :
    R [] (t_st t) m -> tstep eager sync reqs tmo abt t o = (t', evs) ->
    exists m', mon_run m evs = Some m' /\ R [] (t_st t') m'.
  Proof.
    intros HR. destruct o as [o|dt]; cbn [tstep].
    - destruct (step eager sync reqs (t_st t) o) as [s1 e1] eqn:Es. intro E; inversion E; subst; clear E. cbn [t_st].
      eapply step_sim; eauto.
    - destruct (s_lost (t_st t)); [intro E; inversion E; subst; exists m; split; [reflexivity|exact HR]|].
      destruct (due (t_dl t) (t_now t + dt)).
      + destruct (if sync then lose0 sync (mark_closing (t_st t)) else (mark_closing (t_st t), [])) as [s1 e1] eqn:Ec.
        intro E; inversion E; subst; clear E. destruct (close_sim _ _ _ _ HR Ec) as (m' & A & B).
        exists m'. split; [cbn [mon_run mon_step]; exact A|exact B].
      + destruct (due (t_ab t) (t_now t + dt)).
        * destruct (if sync then lose0 sync (mark_closing (t_st t)) else (mark_closing (t_st t), [])) as [s1 e1] eqn:Ec.
          intro E; inversion E; subst; clear E. destruct (close_sim _ _ _ _ HR Ec) as (m' & A & B).
          exists m'. split; [cbn [mon_run mon_step]; exact A|exact B].
        * intro E; inversion E; subst. exists m. split; [reflexivity|exact HR].
  Qed.

  Theorem trun_sim ops : forall t m, R [] (t_st t) m ->
    exists m', mon_ops m (snd (trun eager sync reqs tmo abt t ops)) = Some m' /\
               R [] (t_st (fst (trun eager sync reqs tmo abt t ops))) m'.
  Proof.
    induction ops as [|o ops IH]; intros t m HR; cbn [trun].
    - exists m. split; [reflexivity|exact HR].
    - destruct (tstep eager sync reqs tmo abt t o) as [t1 e] eqn:Es. destruct (trun eager sync reqs tmo abt t1 ops) as [t2 es] eqn:Er.
      destruct (tstep_sim _ _ _ _ _ HR Es) as (m1 & A & R1). destruct (IH t1 m1 R1) as (m2 & B & R2). rewrite Er in B, R2.
      cbn [fst snd mon_ops] in *. rewrite A, (R_quiescent _ _ R1). exists m2. auto.
  Qed.

  (** ---------- the socket layer: deliveries deferred while reading is paused are steps of the same channel ---------- *)
  Lemma settle_sim k t1 evs pc m m1 k' evs' :
    mon_run m evs = Some m1 -> R [] (t_st t1) m1 ->
    settle eager sync reqs tmo abt k t1 evs pc = (k', evs') ->
    exists m', mon_run m evs' = Some m' /\ R [] (t_st (k_t k')) m'.
  Proof.
    intros A HR. unfold settle.
    destruct (negb (net_paused (k_paused k) evs) && (0 <? k_queued k)%N).
    - destruct (tstep eager sync reqs tmo abt t1 (Op (Data (k_queued k)))) as [t2 e2] eqn:E2.
      destruct (tstep_sim _ _ _ _ _ HR E2) as (m2 & A2 & R2).
      destruct (negb (net_paused (net_paused (k_paused k) evs) e2) && pc && negb (s_lost (t_st t2))).
      + destruct (tstep eager sync reqs tmo abt t2 (Op Lose)) as [t3 e3] eqn:E3.
        destruct (tstep_sim _ _ _ _ _ R2 E3) as (m3 & A3 & R3).
        intro E; inversion E; subst; clear E. cbn [k_t]. exists m3. split; [|exact R3].
        rewrite mon_run_app, A, mon_run_app, A2. exact A3.
      + intro E; inversion E; subst; clear E. cbn [k_t]. exists m2. split; [|exact R2].
        rewrite mon_run_app, A, mon_run_app, A2. reflexivity.
    - destruct (negb (net_paused (k_paused k) evs) && pc && negb (s_lost (t_st t1))).
      + destruct (tstep eager sync reqs tmo abt t1 (Op Lose)) as [t3 e3] eqn:E3.
        destruct (tstep_sim _ _ _ _ _ HR E3) as (m3 & A3 & R3).
        intro E; inversion E; subst; clear E. cbn [k_t]. exists m3. split; [|exact R3].
        rewrite mon_run_app, A. exact A3.
      + intro E; inversion E; subst; clear E. cbn [k_t]. exists m1. split; [|exact HR].
        rewrite mon_run_app, A. reflexivity.
  Qed.

  Lemma sstep_sim k m o k' evs :
    R [] (t_st (k_t k)) m -> sstep eager sync reqs tmo abt k o = (k', evs) ->
    exists m', mon_run m evs = Some m' /\ R [] (t_st (k_t k')) m'.
  Proof.
    intros HR.
    assert (Hgen : forall o', (let (t1, e1) := tstep eager sync reqs tmo abt (k_t k) o' in
                               settle eager sync reqs tmo abt k t1 e1 (match o' with Op Lose => true | _ => k_peerclosed k end)) = (k', evs) ->
                              exists m', mon_run m evs = Some m' /\ R [] (t_st (k_t k')) m').
    { intros o'. destruct (tstep eager sync reqs tmo abt (k_t k) o') as [t1 e1] eqn:Es.
      destruct (tstep_sim _ _ _ _ _ HR Es) as (m1 & A1 & R1). intro E. eapply settle_sim; eauto. }
    assert (Hsame : forall kk, t_st (k_t kk) = t_st (k_t k) -> (kk, @nil ev) = (k', evs) ->
                               exists m', mon_run m evs = Some m' /\ R [] (t_st (k_t k')) m').
    { intros kk Hk E; inversion E; subst. exists m. split; [reflexivity|]. rewrite Hk. exact HR. }
    unfold sstep. destruct o as [o|dt]; [destruct o|]; try (exact (Hgen _)).
    - destruct (k_paused k); [|exact (Hgen (Op (Data n)))].
      destruct (s_lost (t_st (k_t k)) || s_closing (t_st (k_t k))); apply Hsame; reflexivity.
    - destruct (k_paused k); [|exact (Hgen (Op Lose))]. apply Hsame; reflexivity.
  Qed.

  Theorem srun_sim ops : forall k m, R [] (t_st (k_t k)) m ->
    exists m', mon_ops m (snd (srun eager sync reqs tmo abt k ops)) = Some m' /\
               R [] (t_st (k_t (fst (srun eager sync reqs tmo abt k ops)))) m'.
  Proof.
    induction ops as [|o ops IH]; intros k m HR; cbn [srun].
    - exists m. split; [reflexivity|exact HR].
    - destruct (sstep eager sync reqs tmo abt k o) as [k1 e] eqn:Es. destruct (srun eager sync reqs tmo abt k1 ops) as [k2 es] eqn:Er.
      destruct (sstep_sim _ _ _ _ _ HR Es) as (m1 & A & R1). destruct (IH k1 m1 R1) as (m2 & B & R2). rewrite Er in B, R2.
      cbn [fst snd mon_ops] in *. rewrite A, (R_quiescent _ _ R1). exists m2. auto.
  Qed.

  Theorem run_sim ops : forall s m, R [] s m ->
    exists m', mon_ops m (snd (run eager sync reqs s ops)) = Some m' /\ R [] (fst (run eager sync reqs s ops)) m'.
  Proof.
    induction ops as [|o ops IH]; intros s m HR; cbn [run].
    - exists m. split; [reflexivity|exact HR].
    - destruct (step eager sync reqs s o) as [s1 e] eqn:Es. destruct (run eager sync reqs s1 ops) as [s2 es] eqn:Er.
      destruct (step_sim _ _ _ _ _ HR Es) as (m1 & A & R1). destruct (IH s1 m1 R1) as (m2 & B & R2). rewrite Er in B, R2.
      cbn [fst snd mon_ops] in *. rewrite A, (R_quiescent _ _ R1). exists m2. auto.
  Qed.

  Corollary every_log_accepted ops : mon_ops mon0 (snd (run eager sync reqs st0 ops)) <> None.
  Proof. destruct (run_sim ops st0 mon0 R0) as [m' [H _]]. rewrite H. discriminate. Qed.
End Sim2.
