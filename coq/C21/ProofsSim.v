(** C21 proofs, part 1: every log the channel model produces is accepted by the protocol monitor (simulation). *)
From Coq Require Import List NArith Bool Arith Lia.
From C21 Require Import Model.
Import ListNotations.

(** ---------- lists ---------- *)

Lemma upd_length {A} (l : list A) : forall i x, length (upd l i x) = length l.
Proof. induction l as [|y l IH]; intros [|i] x; cbn; auto. Qed.

Lemma nth_upd_same {A} (l : list A) : forall i x, i < length l -> nth_error (upd l i x) i = Some x.
Proof. induction l as [|y l IH]; intros [|i] x H; cbn in *; try lia; auto. apply IH. lia. Qed.

Lemma nth_upd_other {A} (l : list A) : forall i j x, i <> j -> nth_error (upd l i x) j = nth_error l j.
Proof. induction l as [|y l IH]; intros [|i] [|j] x H; cbn; auto; try congruence. Qed.

Lemma map_upd {A B} (f : A -> B) (l : list A) : forall i x, map f (upd l i x) = upd (map f l) i (f x).
Proof. induction l as [|y l IH]; intros [|i] x; cbn; auto. rewrite IH. reflexivity. Qed.

Lemma nth_some_lt {A} (l : list A) i x : nth_error l i = Some x -> i < length l.
Proof. intro H. apply nth_error_Some. congruence. Qed.

Lemma nth_map_some {A B} (f : A -> B) (l : list A) i x : nth_error l i = Some x -> nth_error (map f l) i = Some (f x).
Proof. intro H. rewrite nth_error_map, H. reflexivity. Qed.

Lemma mon_run_app m a : forall b, mon_run m (a ++ b) = match mon_run m a with Some m1 => mon_run m1 b | None => None end.
Proof.
  revert m. induction a as [|e a IH]; intros m b; cbn; [reflexivity|].
  destruct (mon_step m e); [apply IH|reflexivity].
Qed.

(** ---------- the simulation relation ---------- *)

Definition abs (r : rq) : mreq := mkM (r_finished r) (r_disc r) (r_ndef r) (r_pending r).

Definition open_ok (s : st) (m : mon) : Prop :=
  match m_open m with
  | None => s_inchan s = false
  | Some i => s_inchan s = true /\ S i = length (s_rq s) /\
              exists r, nth_error (s_rq s) i = Some r /\ r_finished r = false /\
                        m_head m = r_started r /\ m_dead m = r_disc r /\ m_nw m = r_nw r
  end.

(** [ex]: requests that are finished but whose Deferreds have not been fired yet (inside Request.finish) *)
Definition R (ex : list nat) (s : st) (m : mon) : Prop :=
  m_rq m = map abs (s_rq s) /\
  open_ok s m /\
  (forall i r, nth_error (s_rq s) i = Some r ->
     (s_inchan s = true /\ S i = length (s_rq s)) \/ (r_finished r = true /\ r_disc r = false)) /\
  (s_handling s = false -> s_inchan s = false) /\
  (forall i r, nth_error (s_rq s) i = Some r -> ~ In i ex -> r_finished r || r_disc r = true -> r_pending r = []) /\
  (s_handling s = false -> s_waiting s = false -> m_paused m = false) /\
  (s_lost s = false -> forall i r, nth_error (s_rq s) i = Some r -> r_disc r = false).

Lemma R_quiescent s m : R [] s m -> quiescent m = true.
Proof.
  unfold R. intros (Hrq & _ & _ & _ & HF & _). unfold quiescent. rewrite Hrq. apply forallb_forall.
  intros x Hx. apply in_map_iff in Hx. destruct Hx as [r [E Hr]]. subst x. apply In_nth_error in Hr. destruct Hr as [i Hi]. cbn.
  destruct (r_finished r || r_disc r) eqn:E; [|reflexivity]. rewrite (HF i r Hi (fun f => f) E). reflexivity.
Qed.

Lemma R0 : R [] st0 mon0.
Proof.
  unfold R, open_ok. cbn. repeat split; auto.
  - intros i r H; destruct i; discriminate.
  - intros i r H; destruct i; discriminate.
  - intros _ i r H; destruct i; discriminate.
Qed.

(** an open request is the last one and is the only unfinished one *)
Lemma live_is_open ex s m i r : R ex s m -> nth_error (s_rq s) i = Some r -> r_finished r = false ->
  m_open m = Some i /\ m_head m = r_started r /\ m_dead m = r_disc r /\ m_nw m = r_nw r /\ S i = length (s_rq s).
Proof.
  unfold R. intros (Hrq & Ho & HC & _) Hi Hf. destruct (HC i r Hi) as [[Hin HS]|[C _]]; [|congruence].
  unfold open_ok in Ho. destruct (m_open m) as [j|]; [|congruence].
  destruct Ho as (_ & HS' & r' & Hj & _ & A & B & C). assert (j = i) by lia. subst j.
  rewrite Hi in Hj. inversion Hj; subst r'. auto.
Qed.

(** ---------- updating one request without changing whether it is finished / disconnected ---------- *)

Definition same_ctl (s s' : st) : Prop :=
  s_inchan s' = s_inchan s /\ s_handling s' = s_handling s /\ s_waiting s' = s_waiting s /\ s_lost s' = s_lost s.

Lemma R_upd ex s m s' m' i r r' :
  R ex s m -> nth_error (s_rq s) i = Some r ->
  s_rq s' = upd (s_rq s) i r' -> same_ctl s s' ->
  m_rq m' = upd (m_rq m) i (abs r') -> m_open m' = m_open m -> m_paused m' = m_paused m ->
  r_finished r' = r_finished r -> r_disc r' = r_disc r ->
  (m_open m = Some i -> m_head m' = r_started r' /\ m_dead m' = r_disc r' /\ m_nw m' = r_nw r') ->
  (m_open m <> Some i -> m_head m' = m_head m /\ m_dead m' = m_dead m /\ m_nw m' = m_nw m) ->
  (~ In i ex -> r_finished r' || r_disc r' = true -> r_pending r' = []) ->
  R ex s' m'.
Proof.
  unfold R. intros (Hrq & Ho & HC & HD & HF & HG & HJ) Hi Hs (C1 & C2 & C3 & C4) Hm Hop Hpa Hfin Hdisc Hcur Hoth Hpend.
  pose proof (nth_some_lt _ _ _ Hi) as Hlt.
  assert (Hnth : forall j rj, nth_error (s_rq s') j = Some rj ->
                   (j = i /\ rj = r') \/ (j <> i /\ nth_error (s_rq s) j = Some rj)).
  { intros j rj Hj. rewrite Hs in Hj. destruct (Nat.eq_dec j i) as [->|Hne].
    - rewrite nth_upd_same in Hj by exact Hlt. inversion Hj. auto.
    - rewrite nth_upd_other in Hj by congruence. auto. }
  repeat split.
  - rewrite Hm, Hs, Hrq, map_upd. reflexivity.
  - unfold open_ok in *. rewrite Hop. destruct (m_open m) as [k|]; [|congruence].
    destruct Ho as (A & B & rk & Hk & Fk & H1 & H2 & H3). rewrite C1, Hs, upd_length. split; [exact A|]. split; [exact B|].
    destruct (Nat.eq_dec k i) as [->|Hne].
    + exists r'. rewrite nth_upd_same by exact Hlt. rewrite Hi in Hk. inversion Hk; subst rk.
      destruct (Hcur eq_refl) as (X & Y & Z). repeat split; congruence.
    + exists rk. rewrite nth_upd_other by congruence.
      destruct Hoth as (X & Y & Z); [congruence|]. repeat split; congruence.
  - intros j rj Hj. rewrite C1, Hs, upd_length. destruct (Hnth j rj Hj) as [[-> ->]|[Hne Hj']].
    + rewrite Hfin, Hdisc. exact (HC i r Hi).
    + exact (HC j rj Hj').
  - rewrite C1, C2. exact HD.
  - intros j rj Hj Hex Hc. destruct (Hnth j rj Hj) as [[-> ->]|[Hne Hj']]; [exact (Hpend Hex Hc)|exact (HF j rj Hj' Hex Hc)].
  - rewrite C2, C3, Hpa. exact HG.
  - rewrite C4. intros Hl j rj Hj. destruct (Hnth j rj Hj) as [[-> ->]|[Hne Hj']]; [rewrite Hdisc; exact (HJ Hl i r Hi)|exact (HJ Hl j rj Hj')].
Qed.

Lemma same_ctl_set_rq s l : same_ctl s (set_rq s l).
Proof. repeat split. Qed.

(** the monitor's view of request i *)
Lemma mon_nth ex s m i r : R ex s m -> nth_error (s_rq s) i = Some r -> nth_error (m_rq m) i = Some (abs r).
Proof. unfold R. intros (Hrq & _) Hi. rewrite Hrq. apply nth_map_some, Hi. Qed.

Lemma is_open_true m i : m_open m = Some i -> is_open m i = true.
Proof. unfold is_open. intros ->. apply Nat.eqb_refl. Qed.

Lemma upd_upd {A} (l : list A) : forall i a b, upd (upd l i a) i b = upd l i b.
Proof. induction l as [|y l IH]; intros [|i] a b; cbn; auto. rewrite IH. reflexivity. Qed.

Lemma upd_nth_same {A} (l : list A) : forall i x, nth_error l i = Some x -> upd l i x = l.
Proof. induction l as [|y l IH]; intros [|i] x H; cbn in *; try discriminate; [inversion H; reflexivity|]. rewrite IH by exact H. reflexivity. Qed.

Lemma existsb_app_last d l : existsb (Nat.eqb d) (l ++ [d]) = true.
Proof. rewrite existsb_app. cbn. rewrite Nat.eqb_refl. apply orb_true_iff. right. reflexivity. Qed.

Lemma open_facts ex s m i r : R ex s m -> nth_error (s_rq s) i = Some r -> m_open m = Some i ->
  m_head m = r_started r /\ m_dead m = r_disc r /\ m_nw m = r_nw r.
Proof.
  unfold R, open_ok. intros (_ & Ho & _) Hi Hop. rewrite Hop in Ho.
  destruct Ho as (_ & _ & r0 & H0 & _ & A & B & C). rewrite Hi in H0. inversion H0; subst r0. auto.
Qed.

(** ---------- notifyFinish / write / (un)registerProducer / refused finish ---------- *)

Lemma app_simple_sim ex s m i a s' evs :
  R ex s m -> ~ In i ex -> app_simple i a s = Some (s', evs) ->
  exists m', mon_run m evs = Some m' /\ R ex s' m'.
Proof.
  intros HR Hex. unfold app_simple. destruct (nth_error (s_rq s) i) as [r|] eqn:Hi.
  2:{ intro H; inversion H; subst. exists m. split; [reflexivity|exact HR]. }
  pose proof (mon_nth _ _ _ _ _ HR Hi) as Hmi.
  destruct a.
  - (* notifyFinish *)
    destruct (r_disc r || r_finished r) eqn:Elate; intro H; inversion H; subst; clear H.
    + (* after completion: fires at once *)
      assert (Hp : r_pending r = []).
      { destruct HR as (_ & _ & _ & _ & HF & _). apply (HF i r Hi Hex). rewrite orb_comm. exact Elate. }
      cbn [mon_run mon_step]. rewrite Hmi. cbn [abs x_ndef x_fin x_lost x_pend]. rewrite Nat.eqb_refl.
      cbn [m_rq]. rewrite nth_upd_same by (rewrite (proj1 HR), map_length; eapply nth_some_lt, Hi).
      cbn [x_pend x_fin x_lost x_ndef]. rewrite existsb_app_last. cbn [andb].
      assert ((if negb (r_disc r) then r_finished r else r_disc r) = true) as ->.
      { destruct (r_disc r); cbn in *; [reflexivity|exact Elate]. }
      eexists. split; [reflexivity|].
      eapply (R_upd ex s m _ _ i r); try eassumption; try reflexivity.
      * apply same_ctl_set_rq.
      * cbn [m_rq]. rewrite upd_upd, Hp. cbn [app remove_first]. rewrite Nat.eqb_refl. reflexivity.
      * intros Hop. cbn. exact (open_facts _ _ _ _ _ HR Hi Hop).
      * intros _. cbn. auto.
      * intros _ _. exact Hp.
    + cbn [mon_run mon_step]. rewrite Hmi. cbn [abs x_ndef x_fin x_lost x_pend]. rewrite Nat.eqb_refl.
      eexists. split; [reflexivity|].
      eapply (R_upd ex s m _ _ i r); try eassumption; try reflexivity.
      * apply same_ctl_set_rq.
      * intros Hop. cbn. exact (open_facts _ _ _ _ _ HR Hi Hop).
      * intros _. cbn. auto.
      * intros _. cbn [r_finished r_disc]. apply orb_false_iff in Elate as [E1 E2]. rewrite E1, E2. discriminate.
  - (* write *)
    destruct (r_finished r) eqn:Ef.
    { intro H; inversion H; subst. exists m. split; [reflexivity|exact HR]. }
    destruct (r_disc r) eqn:Ed.
    { intro H; inversion H; subst. exists m. split; [reflexivity|exact HR]. }
    destruct (live_is_open _ _ _ _ _ HR Hi Ef) as (Hop & Hh & Hd & Hn & _).
    unfold do_head. destruct (r_started r) eqn:Es; intro H; inversion H; subst; clear H.
    + cbn [app mon_run mon_step]. rewrite (is_open_true _ _ Hop), Hh, Hd, Ed, Hn, Nat.eqb_refl. cbn [andb negb].
      eexists. split; [reflexivity|].
      eapply (R_upd ex s m _ _ i r); try eassumption; try reflexivity.
      * apply same_ctl_set_rq.
      * cbn [m_rq]. unfold abs. cbn. rewrite upd_nth_same; [reflexivity|]. rewrite Hmi. unfold abs. rewrite ?Ef, ?Ed. reflexivity.
      * cbn. congruence.
      * intros _. cbn. rewrite ?Hn. auto.
      * intros C. congruence.
      * intros _. cbn [r_finished r_disc]. rewrite ?Ef, ?Ed. discriminate.
    + cbn [app mon_run mon_step]. rewrite (is_open_true _ _ Hop), Hh, Hd, Ed. cbn [andb negb m_open m_head m_dead m_nw is_open].
      unfold is_open. cbn [m_open]. rewrite Hop, Nat.eqb_refl, Hn, Nat.eqb_refl. cbn [andb negb].
      eexists. split; [reflexivity|].
      eapply (R_upd ex s m _ _ i r); try eassumption; try reflexivity.
      * apply same_ctl_set_rq.
      * cbn [m_rq]. unfold abs. cbn. rewrite upd_nth_same; [reflexivity|]. rewrite Hmi. unfold abs. rewrite ?Ef, ?Ed. reflexivity.
      * cbn. congruence.
      * intros _. cbn. rewrite ?Hn. auto.
      * intros C. congruence.
      * intros _. cbn [r_finished r_disc]. rewrite ?Ef, ?Ed. discriminate.
  - (* finish that does not go through *)
    destruct (r_disc r); [intro H; inversion H; subst; exists m; split; [reflexivity|exact HR]|].
    destruct (r_finished r); [intro H; inversion H; subst; exists m; split; [reflexivity|exact HR]|discriminate].
  - (* registerProducer *)
    destruct (r_prod r || s_cprod s || r_finished r || r_disc r);
      intro H; inversion H; subst; clear H; exists m; (split; [reflexivity|]); [exact HR|].
    eapply (R_upd ex s m _ m i r); try eassumption; try reflexivity.
    + repeat split.
    + unfold abs. cbn. rewrite upd_nth_same; [reflexivity|]. rewrite Hmi. reflexivity.
    + intros Hop. cbn. exact (open_facts _ _ _ _ _ HR Hi Hop).
    + auto.
    + intros _ Hc. destruct HR as (_ & _ & _ & _ & HF & _). exact (HF i r Hi Hex Hc).
  - (* unregisterProducer *)
    destruct (r_finished r || r_disc r);
      intro H; inversion H; subst; clear H; exists m; (split; [reflexivity|]); [exact HR|].
    eapply (R_upd ex s m _ m i r); try eassumption; try reflexivity.
    + repeat split.
    + unfold abs. cbn. rewrite upd_nth_same; [reflexivity|]. rewrite Hmi. reflexivity.
    + intros Hop. cbn. exact (open_facts _ _ _ _ _ HR Hi Hop).
    + auto.
    + intros _ Hc. destruct HR as (_ & _ & _ & _ & HF & _). exact (HF i r Hi Hex Hc).
Qed.
