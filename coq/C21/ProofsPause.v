(** C21 proofs, part 4: reading from the transport is paused only with a cause.  Whenever reading is paused (per the
    pause / resume events of the log) and the transport is not asking the channel to wait, a request is being handled and
    more than the eager-read limit is buffered behind it.  (With resumeProducing as repaired by
    fixes/C21-resume-reading-after-transport-resume.patch.) *)
From Coq Require Import List NArith Bool Arith Lia.
From C21 Require Import Model ProofsSim ProofsLog ProofsLive.
Import ListNotations.

(** ---------- event lists without pause / resume of the transport; functions that leave _waitingForTransport alone ---------- *)

Definition quiet (l : list ev) : Prop := forall b, net_paused b l = b.

Definition not_net (e : ev) : Prop := match e with ENetPause | ENetResume => False | _ => True end.

Lemma quiet_nil : quiet [].
Proof. intro b. reflexivity. Qed.

Lemma quiet_app a c : quiet a -> quiet c -> quiet (a ++ c).
Proof. intros A C b. rewrite net_paused_app, A, C. reflexivity. Qed.

Lemma quiet_cons e l : not_net e -> quiet l -> quiet (e :: l).
Proof.
  intros H Q b. unfold quiet, net_paused in *. cbn [fold_left]. destruct e; cbn in H; try contradiction; apply Q.
Qed.

Definition wq (s : st) (r : st * list ev) : Prop := s_waiting (fst r) = s_waiting s /\ quiet (snd r).

Lemma wq_same s : wq s (s, []).
Proof. split; [reflexivity|apply quiet_nil]. Qed.

Lemma wq_step s s1 e1 s2 e2 : wq s (s1, e1) -> wq s1 (s2, e2) -> wq s (s2, e1 ++ e2).
Proof. intros [A1 Q1] [A2 Q2]. split; cbn [fst snd] in *; [congruence|apply quiet_app; assumption]. Qed.

Lemma wq_cons s s' e l : not_net e -> wq s (s', l) -> wq s (s', e :: l).
Proof. intros H [A Q]. split; [exact A|apply quiet_cons; assumption]. Qed.

Lemma set_pending_waiting i l s : s_waiting (set_pending i l s) = s_waiting s.
Proof. unfold set_pending. destruct (nth_error (s_rq s) i); reflexivity. Qed.

Lemma notify_now_wq i s : wq s (notify_now i s).
Proof.
  unfold notify_now. destruct (nth_error (s_rq s) i); [|apply wq_same].
  split; [reflexivity|]. intro b. reflexivity.
Qed.

Lemma react0_wq sync i s a : wq s (react0 sync i s a).
Proof.
  unfold react0. destruct (nth_error (s_rq s) i) as [r|]; [|apply wq_same].
  destruct a.
  - destruct (r_disc r); [|apply wq_same]. split; [reflexivity|intro b; reflexivity].
  - destruct (r_finished r); [|apply wq_same]. split; [reflexivity|intro b; reflexivity].
  - apply notify_now_wq.
  - destruct sync; [|apply wq_same]. split; [reflexivity|intro b; reflexivity].
Qed.

Section Firing.
  Variable rf : nat -> st -> ract -> st * list ev.
  Hypothesis Hrf : forall i s a, wq s (rf i s a).

  Lemma run_react_wq re : forall i s, wq s (run_react rf i re s).
  Proof.
    induction re as [|a re IH]; intros i s; cbn [run_react]; [apply wq_same|].
    pose proof (Hrf i s a) as F1. destruct (rf i s a) as [s1 e1].
    pose proof (IH i s1) as F2. destruct (run_react rf i re s1) as [s2 e2]. eapply wq_step; eauto.
  Qed.

  Lemma fire_list_wq l : forall i ok s, wq s (fire_list rf i ok l s).
  Proof.
    induction l as [|[d re] l IH]; intros i ok s; cbn [fire_list]; [apply wq_same|].
    pose proof (run_react_wq re i (set_pending i l s)) as F1.
    destruct (run_react rf i re (set_pending i l s)) as [s2 e2].
    pose proof (IH i ok s2) as F2. destruct (fire_list rf i ok l s2) as [s3 e3].
    apply wq_cons; [exact I|].
    assert (F0 : wq s (set_pending i l s, [])) by (split; [apply set_pending_waiting|apply quiet_nil]).
    change (e2 ++ e3) with ([] ++ e2 ++ e3). eapply wq_step; [exact F0|]. eapply wq_step; eauto.
  Qed.
End Firing.

Lemma lose0_wq sync s : wq s (lose0 sync s).
Proof.
  unfold lose0. destruct (s_lost s) eqn:El; [apply wq_same|].
  destruct (s_inchan s); [|split; [reflexivity|intro b; reflexivity]].
  destruct (nth_error (s_rq s) (pred (length (s_rq s)))) as [r|]; [|split; [reflexivity|intro b; reflexivity]].
  match goal with |- context [fire0 sync ?i false ?l ?s2] =>
    pose proof (fire_list_wq (react0 sync) (react0_wq sync) l i false s2) as F;
    unfold fire0; destruct (fire_list (react0 sync) i false l s2) as [s3 e3] end.
  apply wq_cons; [exact I|]. apply wq_cons; [exact I|]. destruct F as [A Q]. split; [exact A|exact Q].
Qed.

Lemma react1_wq sync i s a : wq s (react1 sync i s a).
Proof.
  destruct a; try apply react0_wq. unfold react1. destruct sync; [|apply wq_same].
  pose proof (lose0_wq true (mark_closing s)) as F. destruct (lose0 true (mark_closing s)) as [s1 e1].
  apply wq_cons; [exact I|]. destruct F as [A Q]. split; [exact A|exact Q].
Qed.

Lemma fire_wq sync i ok s : wq s (fire sync i ok s).
Proof.
  unfold fire. destruct (nth_error (s_rq s) i) as [r|]; [|apply wq_same].
  apply (fire_list_wq (react1 sync) (react1_wq sync)).
Qed.

Lemma app_simple_wq sync i a s s' evs : app_simple sync i a s = Some (s', evs) -> wq s (s', evs).
Proof.
  unfold app_simple. destruct (nth_error (s_rq s) i) as [r|] eqn:Hi; [|intro H; inversion H; apply wq_same].
  destruct a as [re| | | |].
  - destruct (r_disc r || r_finished r).
    + pose proof (notify_now_wq i s) as F1. destruct (notify_now i s) as [s1 e1].
      pose proof (run_react_wq (react1 sync) (react1_wq sync) re i s1) as F2. unfold run_react1.
      destruct (run_react (react1 sync) i re s1) as [s2 e2]. intro H; inversion H; subst. eapply wq_step; eauto.
    + intro H; inversion H; subst. split; [reflexivity|intro b; reflexivity].
  - destruct (r_finished r); [intro H; inversion H; split; [reflexivity|intro b; reflexivity]|].
    destruct (r_disc r); [intro H; inversion H; apply wq_same|].
    unfold do_head. destruct (r_started r); intro H; inversion H; subst; (split; [reflexivity|intro b; reflexivity]).
  - destruct (r_disc r); [intro H; inversion H; split; [reflexivity|intro b; reflexivity]|].
    destruct (r_finished r); [intro H; inversion H; apply wq_same|discriminate].
  - destruct (r_prod r || s_cprod s || r_finished r || r_disc r); intro H; inversion H; subst; (split; [reflexivity|intro b; reflexivity]).
  - destruct (r_finished r || r_disc r); intro H; inversion H; subst; (split; [reflexivity|intro b; reflexivity]).
Qed.

(** ---------- the invariant ---------- *)

Section Pause.
  Variable eager : N.
  Variable sync : bool.
  Variable reqs : list reqspec.

  (** [p]: is reading paused *)
  Definition Cause (s : st) (p : bool) : Prop :=
    s_waiting s = false -> p = true -> s_handling s = true /\ (eager < s_recv s - s_cons s)%N.

  Lemma cause_wq s p s' evs : Cause s p -> frame s s' -> wq s (s', evs) -> Cause s' (net_paused p evs).
  Proof.
    intros C (F1 & F2 & F3 & _) [W Q]. cbn [fst snd] in *. unfold Cause. rewrite Q, W, F1, F2, F3. exact C.
  Qed.

  (** requestDone resumes reading unless the transport is full: afterwards there is nothing to justify *)
  Lemma request_done_cause i s p :
    Cause (fst (request_done sync reqs i s)) (net_paused p (snd (request_done sync reqs i s))).
  Proof.
    unfold request_done, Cause. destruct (s_waiting s) eqn:W; destruct (q_persist (spec_of reqs i));
      [|destruct (sync && negb (s_lost s))| |destruct (sync && negb (s_lost s))]; cbn; rewrite ?W; intros; discriminate.
  Qed.

  Lemma finish_core_cause i r s p :
    Cause (fst (finish_core sync reqs i r s)) (net_paused p (snd (finish_core sync reqs i r s))).
  Proof.
    unfold finish_core. destruct (do_head i r) as [r1 e1].
    match goal with |- context [request_done sync reqs i ?s1] =>
      pose proof (fun q => request_done_cause i s1 q) as H; destruct (request_done sync reqs i s1) as [s2 e2] end.
    cbn [fst snd] in *. rewrite app_assoc, net_paused_app. apply H.
  Qed.

  Lemma app_sync_cause i s a p : Cause s p ->
    Cause (fst (app_sync sync reqs i s a)) (net_paused p (snd (app_sync sync reqs i s a))).
  Proof.
    intro C. unfold app_sync. destruct (app_simple sync i a s) as [[s1 e1]|] eqn:Ea.
    - cbn [fst snd]. eapply cause_wq; [exact C|eapply app_simple_frame, Ea|eapply app_simple_wq, Ea].
    - destruct (nth_error (s_rq s) i) as [r|]; [|exact C].
      pose proof (finish_core_cause i r s p) as C1. destruct (finish_core sync reqs i r s) as [s1 e1]. cbn [fst snd] in C1.
      pose proof (fire_frame sync i true s1) as F. pose proof (fire_wq sync i true s1) as W.
      destruct (fire sync i true s1) as [s2 e2]. cbn [fst snd] in *.
      rewrite net_paused_app. eapply cause_wq; eauto.
  Qed.

  Lemma run_script_cause i acts : forall s p, Cause s p ->
    Cause (fst (run_script sync reqs i acts s)) (net_paused p (snd (run_script sync reqs i acts s))).
  Proof.
    induction acts as [|a acts IH]; intros s p C; cbn [run_script]; [exact C|].
    pose proof (app_sync_cause i s a p C) as C1. destruct (app_sync sync reqs i s a) as [s1 e1]. cbn [fst snd] in C1.
    pose proof (IH s1 _ C1) as C2. destruct (run_script sync reqs i acts s1) as [s2 e2]. cbn [fst snd] in *.
    rewrite net_paused_app. exact C2.
  Qed.

  Lemma eager_check_cause s p : Cause s p -> s_handling s = true -> Cause s (net_paused p (eager_check eager s)).
  Proof.
    intros C Hh. unfold eager_check. destruct ((eager <? s_recv s - s_cons s)%N && negb (s_waiting s)) eqn:Ec; [|exact C].
    apply andb_true_iff in Ec as [A _]. intros _ _. split; [exact Hh|apply N.ltb_lt, A].
  Qed.

  Lemma drain_cause rest : forall s p, Cause s p ->
    Cause (fst (drain eager sync reqs rest s)) (net_paused p (snd (drain eager sync reqs rest s))).
  Proof.
    induction rest as [|q rest IH]; intros s p C; cbn [drain]; [exact C|].
    destruct (s_handling s || s_lost s) eqn:Eh; [exact C|]. destruct (s_recv s <? s_cons s + q_len q)%N; [exact C|].
    apply orb_false_iff in Eh as [Eh _].
    match goal with |- context [run_script sync reqs ?i ?sc ?s1] =>
      assert (C1 : Cause s1 p) by (intros W P; destruct (C W P) as [X _]; congruence);
      pose proof (run_script_cause i sc s1 p C1) as C2; destruct (run_script sync reqs i sc s1) as [s2 e2] end.
    cbn [fst snd] in C2. destruct (s_handling s2) eqn:Eh2.
    - cbn [fst snd]. change (net_paused p (EProcess (length (s_rq s)) :: ?l)) with (net_paused p l).
      rewrite net_paused_app.
      destruct ((s_cons s2 <? s_recv s2)%N && negb (s_closing s2) && negb (q_body q)); [|exact C2].
      apply eager_check_cause; assumption.
    - pose proof (IH s2 _ C2) as C3. destruct (drain eager sync reqs rest s2) as [s3 e3]. cbn [fst snd] in *.
      change (net_paused p (EProcess (length (s_rq s)) :: ?l)) with (net_paused p l).
      rewrite net_paused_app. exact C3.
  Qed.

  Lemma step_cause s o p : Cause s p ->
    Cause (fst (step eager sync reqs s o)) (net_paused p (snd (step eager sync reqs s o))).
  Proof.
    intro C. destruct o as [n| | | |i a]; cbn [step].
    - destruct (s_lost s || s_closing s); [exact C|].
      match goal with |- context [if s_handling s then (?s1, _) else _] =>
        assert (C1 : Cause s1 p) by (intros W P; destruct (C W P) as [X Y]; split; [exact X|cbn in *; lia]) end.
      destruct (s_handling s) eqn:Eh.
      + cbn [fst snd]. destruct (0 <? n)%N; [|exact C1]. apply eager_check_cause; [exact C1|reflexivity].
      + apply drain_cause. exact C1.
    - destruct (s_lost s); [exact C|]. cbn [fst snd]. intros W. cbn in W. discriminate W.
    - destruct (s_lost s); [exact C|]. cbn [fst snd]. rewrite net_paused_app.
      destruct (s_handling s && (eager <? s_recv s - s_cons s)%N) eqn:Ec.
      + apply andb_true_iff in Ec as [A B]. intros _ _. cbn. split; [exact A|apply N.ltb_lt, B].
      + intros _ P. cbn in P. discriminate P.
    - pose proof (lose0_frame sync s) as F. pose proof (lose0_wq sync s) as W. destruct (lose0 sync s) as [s1 e1].
      cbn [fst snd] in *. eapply cause_wq; eauto.
    - destruct (app_simple sync i a s) as [[s1 e1]|] eqn:Ea.
      + cbn [fst snd]. eapply cause_wq; [exact C|eapply app_simple_frame, Ea|eapply app_simple_wq, Ea].
      + destruct (nth_error (s_rq s) i) as [r|]; [|exact C].
        pose proof (finish_core_cause i r s p) as C1. destruct (finish_core sync reqs i r s) as [s1 e1]. cbn [fst snd] in C1.
        pose proof (drain_cause (remaining reqs s1) s1 _ C1) as C2.
        destruct (drain eager sync reqs (remaining reqs s1) s1) as [s2 e2]. cbn [fst snd] in C2.
        pose proof (fire_frame sync i true s2) as F. pose proof (fire_wq sync i true s2) as W.
        destruct (fire sync i true s2) as [s3 e3]. cbn [fst snd] in *.
        rewrite !net_paused_app. eapply cause_wq; eauto.
  Qed.

  Variables tmo abt : option N.

  Lemma tstep_cause t o p : Cause (t_st t) p ->
    Cause (t_st (fst (tstep eager sync reqs tmo abt t o))) (net_paused p (snd (tstep eager sync reqs tmo abt t o))).
  Proof.
    intro C. destruct o as [o|dt]; cbn [tstep].
    - pose proof (step_cause (t_st t) o p C) as C1. destruct (step eager sync reqs (t_st t) o) as [s1 e1]. exact C1.
    - assert (Hc : forall s1 e1 (e : ev), not_net e ->
                     (if sync then lose0 sync (mark_closing (t_st t)) else (mark_closing (t_st t), [])) = (s1, e1) ->
                     Cause s1 (net_paused p (e :: e1))).
      { intros s1 e1 e He. destruct sync eqn:Es.
        - intro E. pose proof (lose0_frame true (mark_closing (t_st t))) as F. pose proof (lose0_wq true (mark_closing (t_st t))) as W.
          rewrite E in F, W. cbn [fst] in F. eapply cause_wq; [exact C|eapply frame_trans; [apply frame_closing|exact F]|].
          apply wq_cons; [exact He|]. destruct W as [A Q]. split; [exact A|exact Q].
        - intro E; inversion E; subst. eapply cause_wq; [exact C|apply frame_closing|].
          apply wq_cons; [exact He|]. split; [reflexivity|apply quiet_nil]. }
      destruct (s_lost (t_st t)); [exact C|]. destruct (due (t_dl t) (t_now t + dt)).
      + destruct (if sync then lose0 sync (mark_closing (t_st t)) else (mark_closing (t_st t), [])) as [s1 e1] eqn:Ec.
        cbn [fst snd t_st]. exact (Hc _ _ EClose I eq_refl).
      + destruct (due (t_ab t) (t_now t + dt)); [|exact C].
        destruct (if sync then lose0 sync (mark_closing (t_st t)) else (mark_closing (t_st t), [])) as [s1 e1] eqn:Ec.
        cbn [fst snd t_st]. exact (Hc _ _ EAbort I eq_refl).
  Qed.

  (** the socket layer: [k_paused] is the reading state *)
  Definition KC (k : sst) : Prop := Cause (t_st (k_t k)) (k_paused k).

  Lemma settle_cause k t1 evs pc k' evs' : Cause (t_st t1) (net_paused (k_paused k) evs) ->
    settle eager sync reqs tmo abt k t1 evs pc = (k', evs') -> KC k'.
  Proof.
    intro C. unfold settle, KC.
    destruct (negb (net_paused (k_paused k) evs) && (0 <? k_queued k)%N).
    - pose proof (tstep_cause t1 (Op (Data (k_queued k))) _ C) as C2.
      destruct (tstep eager sync reqs tmo abt t1 (Op (Data (k_queued k)))) as [t2 e2]. cbn [fst snd] in C2.
      destruct (negb (net_paused (net_paused (k_paused k) evs) e2) && pc && negb (s_lost (t_st t2))).
      + pose proof (tstep_cause t2 (Op Lose) _ C2) as C3. destruct (tstep eager sync reqs tmo abt t2 (Op Lose)) as [t3 e3].
        cbn [fst snd] in C3. intro E; inversion E; subst; clear E. exact C3.
      + intro E; inversion E; subst; clear E. exact C2.
    - destruct (negb (net_paused (k_paused k) evs) && pc && negb (s_lost (t_st t1))).
      + pose proof (tstep_cause t1 (Op Lose) _ C) as C3. destruct (tstep eager sync reqs tmo abt t1 (Op Lose)) as [t3 e3].
        cbn [fst snd] in C3. intro E; inversion E; subst; clear E. exact C3.
      + intro E; inversion E; subst; clear E. exact C.
  Qed.

  Lemma sstep_cause k o : KC k -> KC (fst (sstep eager sync reqs tmo abt k o)).
  Proof.
    intro C.
    assert (Hgen : forall o' pc, KC (fst (let (t1, e1) := tstep eager sync reqs tmo abt (k_t k) o' in
                                          settle eager sync reqs tmo abt k t1 e1 pc))).
    { intros o' pc. pose proof (tstep_cause (k_t k) o' _ C) as C1. destruct (tstep eager sync reqs tmo abt (k_t k) o') as [t1 e1].
      cbn [fst snd] in C1. destruct (settle eager sync reqs tmo abt k t1 e1 pc) as [k' evs'] eqn:E. cbn [fst].
      eapply settle_cause; eauto. }
    unfold sstep. destruct o as [o|dt]; [destruct o|]; try (apply Hgen).
    - destruct (k_paused k) eqn:Ep; [|apply Hgen].
      destruct (s_lost (t_st (k_t k)) || s_closing (t_st (k_t k))); cbn [fst]; [exact C|].
      unfold KC in *. cbn [k_t k_paused]. rewrite Ep in C. exact C.
    - destruct (k_paused k) eqn:Ep; [|apply Hgen]. cbn [fst]. unfold KC in *. cbn [k_t k_paused]. rewrite Ep in C. exact C.
  Qed.

  Lemma srun_cause ops : forall k, KC k -> KC (fst (srun eager sync reqs tmo abt k ops)).
  Proof.
    induction ops as [|o ops IH]; intros k C; cbn [srun]; [exact C|].
    pose proof (sstep_cause k o C) as C1. destruct (sstep eager sync reqs tmo abt k o) as [k1 e]. cbn [fst] in C1.
    pose proof (IH k1 C1) as C2. destruct (srun eager sync reqs tmo abt k1 ops) as [k2 es]. exact C2.
  Qed.

  Lemma KC0 : KC (sst0 tmo).
  Proof. intros _ P. discriminate P. Qed.
End Pause.

(** every history: if reading is paused at the end and the transport is not asking the channel to wait, then a request is
    being handled and more than the eager-read limit is buffered behind it *)
Lemma final_cause (eager : N) (sync : bool) (reqs : list reqspec) (tmo abt : option N) (ops : list top) :
  let s := t_st (k_t (fst (srun eager sync reqs tmo abt (sst0 tmo) ops))) in
  s_waiting s = false -> net_paused false (concat (snd (srun eager sync reqs tmo abt (sst0 tmo) ops))) = true ->
  s_handling s = true /\ (eager < s_recv s - s_cons s)%N.
Proof.
  intros s W P. destruct (final_socket eager sync reqs tmo abt ops) as [A _]. cbn zeta in A. rewrite <- A in P.
  exact (srun_cause eager sync reqs tmo abt ops (sst0 tmo) (KC0 eager tmo) W P).
Qed.
