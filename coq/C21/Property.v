(** C21 property theorems.  [srun eager sync reqs tmo abt (sst0 tmo) ops] is the channel model of Model.v, behind a socket
    that delivers the peer's bytes and the peer's close only while the channel lets the transport read, on ANY request stream [reqs]
    (any number of pipelined requests, with or without bodies, any lengths, any process() scripts, persistent or
    "Connection: close"), ANY idle timeout [tmo] / [abt] with the clock advancing by any amounts ([Tick]), ANY
    eager-read limit and ANY history [ops] (bytes arriving in any cuts, transport pause / resume, connection loss,
    the application calling notifyFinish / write / finish / registerProducer / unregisterProducer on any request at
    any time, every notifyFinish Deferred carrying ANY reaction = calls its callback/errback makes synchronously when
    it fires: finish, write, notifyFinish, and dropping the connection on a transport [sync] that reports the loss at
    once); [snd] of it is the event log, one list per operation.  The model has the repaired notifyFinish
    (fixes/C21-notifyfinish-after-completion.patch) and the repaired resumeProducing
    (fixes/C21-resume-reading-after-transport-resume.patch).  EProcess i = request i handed to the application;
    EHead / EWrite / EEnd i = head, body write, terminator of response i on the transport (EEnd = response
    finished); ENotify i d / EFired i d ok = the d-th notifyFinish Deferred of request i handed out / fired with
    None (ok) or a failure; ELost i = connection loss delivered to request i. *)
From Coq Require Import List NArith Bool Arith.
From C21 Require Import Model ProofsSim ProofsLog ProofsLive ProofsPause.
Import ListNotations.

(** every log is accepted by the protocol monitor of Model.v (one open request, wire bytes only for it and in
    order, Deferreds fire only once, only after completion, with the matching value, and none is left waiting at
    the end of any operation) *)
Theorem log_accepted_by_protocol_monitor : forall (eager : N) (sync : bool) (reqs : list reqspec) (tmo abt : option N) (ops : list top),
  mon_ops mon0 (snd (srun eager sync reqs tmo abt (sst0 tmo) ops)) <> None.
Proof. exact final_accepted. Qed.
Print Assumptions log_accepted_by_protocol_monitor.

(** at every point of every history at most one request is in the application (handed over and not finished) *)
Theorem at_most_one_request_in_application : forall (eager : N) (sync : bool) (reqs : list reqspec) (tmo abt : option N) (ops : list top) (A B : list ev),
  concat (snd (srun eager sync reqs tmo abt (sst0 tmo) ops)) = A ++ B ->
  forall i i', In (EProcess i) A -> ~ In (EEnd i) A -> In (EProcess i') A -> ~ In (EEnd i') A -> i = i'.
Proof. exact final_one_open. Qed.
Print Assumptions at_most_one_request_in_application.

(** request j is handed over exactly after requests 0..j-1, and only when each of them has finished *)
Theorem next_only_after_previous_finished : forall (eager : N) (sync : bool) (reqs : list reqspec) (tmo abt : option N) (ops : list top) A j B,
  concat (snd (srun eager sync reqs tmo abt (sst0 tmo) ops)) = A ++ EProcess j :: B ->
  (forall i, i < j <-> In (EProcess i) A) /\ (forall i, i < j -> In (EEnd i) A).
Proof. exact final_next. Qed.
Print Assumptions next_only_after_previous_finished.

(** every byte of response i goes to the transport after request i was handed over, after ALL earlier responses
    are finished, before response i is finished; the head comes first and once: responses are on the wire in
    request order and never interleaved *)
Theorem responses_in_request_order_not_interleaved : forall (eager : N) (sync : bool) (reqs : list reqspec) (tmo abt : option N) (ops : list top) A e B i,
  concat (snd (srun eager sync reqs tmo abt (sst0 tmo) ops)) = A ++ e :: B ->
  e = EHead i \/ (exists j, e = EWrite i j) \/ e = EEnd i ->
  In (EProcess i) A /\ ~ In (EEnd i) A /\ (forall k, k < i -> In (EEnd k) A) /\
  (e = EHead i -> ~ In (EHead i) A) /\ (e <> EHead i -> In (EHead i) A).
Proof. exact final_wire. Qed.
Print Assumptions responses_in_request_order_not_interleaved.

(** once the connection is gone (EGone = HTTPChannel.connectionLost) no request is handed to the application *)
Theorem no_request_handed_over_after_connection_lost : forall (eager : N) (sync : bool) (reqs : list reqspec) (tmo abt : option N) (ops : list top) A j B,
  concat (snd (srun eager sync reqs tmo abt (sst0 tmo) ops)) = A ++ EProcess j :: B -> ~ In EGone A.
Proof. exact final_gone. Qed.
Print Assumptions no_request_handed_over_after_connection_lost.

(** every notifyFinish Deferred fires exactly once, with None if the response finished and with a failure if the
    connection was lost first: (1) never more than once, in any prefix of any history; (2) whenever one fires it
    was handed out before, has not fired before, and its request has already finished (None) / lost its connection
    (failure); (3) at the end of every operation, every Deferred handed out so far whose request has finished or
    lost its connection so far has fired (exactly once) *)
Theorem notifyFinish_fires_exactly_once_with_None_or_failure : forall (eager : N) (sync : bool) (reqs : list reqspec) (tmo abt : option N) (ops : list top),
  (forall A B i d, concat (snd (srun eager sync reqs tmo abt (sst0 tmo) ops)) = A ++ B -> count_fired A i d <= 1) /\
  (forall A i d (ok : bool) B, concat (snd (srun eager sync reqs tmo abt (sst0 tmo) ops)) = A ++ EFired i d ok :: B ->
     In (ENotify i d) A /\ (if ok then In (EEnd i) A else In (ELost i) A) /\ count_fired A i d = 0) /\
  (forall k i d, let A := concat (firstn k (snd (srun eager sync reqs tmo abt (sst0 tmo) ops))) in
     In (ENotify i d) A -> In (EEnd i) A \/ In (ELost i) A -> count_fired A i d = 1).
Proof. exact final_notify. Qed.
Print Assumptions notifyFinish_fires_exactly_once_with_None_or_failure.

(** pause / resume bookkeeping: whenever the channel is idle (no request being handled) and the transport is not
    asking it to wait, reading from the transport is not paused *)
Theorem reading_resumed_when_idle : forall (eager : N) (sync : bool) (reqs : list reqspec) (tmo abt : option N) (ops : list top),
  s_handling (t_st (k_t (fst (srun eager sync reqs tmo abt (sst0 tmo) ops)))) = false -> s_waiting (t_st (k_t (fst (srun eager sync reqs tmo abt (sst0 tmo) ops)))) = false ->
  net_paused false (concat (snd (srun eager sync reqs tmo abt (sst0 tmo) ops))) = false.
Proof. exact final_reading. Qed.
Print Assumptions reading_resumed_when_idle.

(** reading is paused only with a cause: whenever reading from the transport is paused and the transport is not asking
    the channel to wait (its send buffer is not full), a request is being handled and more than the eager-read limit is
    buffered behind it - a pause never outlives its reason, so a peer that goes away is noticed (next theorem) unless the
    transport is full or the eager-read limit is exceeded.  (resumeProducing as repaired by
    fixes/C21-resume-reading-after-transport-resume.patch.) *)
Theorem reading_paused_only_with_cause : forall (eager : N) (sync : bool) (reqs : list reqspec) (tmo abt : option N) (ops : list top),
  let s := t_st (k_t (fst (srun eager sync reqs tmo abt (sst0 tmo) ops))) in
  s_waiting s = false -> net_paused false (concat (snd (srun eager sync reqs tmo abt (sst0 tmo) ops))) = true ->
  s_handling s = true /\ (eager < s_recv s - s_cons s)%N.
Proof. exact final_cause. Qed.
Print Assumptions reading_paused_only_with_cause.

(** the peer behind a socket: the transport's reading state is exactly what the pause / resume events of the log say;
    and at the end of every history in which reading is not paused, no byte the peer sent is waiting undelivered, and if
    the peer has closed the connection, connectionLost has been delivered (EGone is in the log) - so, by the theorem
    above, every notifyFinish Deferred of the request that was being handled has fired with a failure *)
Theorem peer_close_noticed_whenever_reading : forall (eager : N) (sync : bool) (reqs : list reqspec) (tmo abt : option N) (ops : list top),
  let k := fst (srun eager sync reqs tmo abt (sst0 tmo) ops) in
  let log := concat (snd (srun eager sync reqs tmo abt (sst0 tmo) ops)) in
  k_paused k = net_paused false log /\
  (net_paused false log = false -> k_queued k = 0%N /\ (In (Op Lose) ops -> In EGone log)).
Proof. exact final_peer_close. Qed.
Print Assumptions peer_close_noticed_whenever_reading.

(** liveness of the pipeline: the bytes consumed are exactly the requests handed over, and whenever the channel is
    idle (nothing being handled, connection neither lost nor closing) the next request of the stream has NOT been
    completely received — a completely received request is never held back *)
Theorem idle_channel_holds_no_complete_request_back : forall (eager : N) (sync : bool) (reqs : list reqspec) (tmo abt : option N) (ops : list top),
  Forall (fun q => (0 < q_len q)%N) reqs ->
  let s := t_st (k_t (fst (srun eager sync reqs tmo abt (sst0 tmo) ops))) in
  s_cons s = sumlen (firstn (length (s_rq s)) reqs) /\
  (s_handling s = false /\ s_lost s = false /\ s_closing s = false ->
   match nth_error reqs (length (s_rq s)) with
   | Some q => (s_recv s < s_cons s + q_len q)%N
   | None => True
   end).
Proof. exact final_live. Qed.
Print Assumptions idle_channel_holds_no_complete_request_back.

(** the code before the repair: finish, then notifyFinish() queues a Deferred that nothing will fire — the
    protocol monitor rejects that log and accepts the repaired one *)
Theorem notifyFinish_after_completion_refuted_for_unrepaired_notifyFinish :
  mon_ops mon0 [[EProcess 0; EHead 0; EEnd 0]; [ENotify 0 0]] = None /\
  mon_ops mon0 [[EProcess 0; EHead 0; EEnd 0]; [ENotify 0 0; EFired 0 0 true]] <> None.
Proof. exact pinned_notify_rejected. Qed.
Print Assumptions notifyFinish_after_completion_refuted_for_unrepaired_notifyFinish.

(** a non-trivial history: three pipelined requests (the second with a body) on a transport that reports loss at
    once; the first request's Deferred, when it fires, drops the connection, calls finish() and asks for another one;
    and an idle timeout that fires while half a request is buffered *)
Example pipeline_example :
  snd (srun 16384 true [mkQ 37 true false [ANotify [RLose; RFinish; RNotify]]; mkQ 37 true true [ANotify [RNotify]];
                        mkQ 56 false false [AFinish]] (Some 5%N) (Some 3%N) (sst0 (Some 5%N))
            [Op (Data 74); Op (App 0 AWrite); Op TPause; Tick 100; Op (App 0 AFinish); Op (Data 56); Op (App 1 AFinish)])
  = [[EProcess 0; ENotify 0 0]; [EHead 0; EWrite 0 0]; []; [];
     [EEnd 0; EProcess 1; ENotify 1 0; EFired 0 0 true; EClose; EGone; ELost 1; EFired 1 0 false; ENotify 1 1; EFired 1 1 false;
      ENotify 0 1; EFired 0 1 true]; []; [ERaise]] /\
  snd (srun 16384 false [mkQ 37 true false [AFinish]; mkQ 37 true false []] (Some 5%N) (Some 3%N) (sst0 (Some 5%N))
            [Op (Data 50); Tick 4; Tick 1; Tick 3; Op Lose])
  = [[EProcess 0; EHead 0; EEnd 0; ENetResume]; []; [EClose]; [EAbort]; [EGone]] /\
  (* the send buffer fills and drains while a long poll is handled, then the client goes away: noticed at once *)
  snd (srun 16384 false [mkQ 28 true false [ANotify []]] None None (sst0 None)
            [Op (Data 28); Op TPause; Op TResume; Op Lose; Op (App 0 AWrite)])
  = [[EProcess 0; ENotify 0 0]; []; [ENetResume]; [EGone; ELost 0; EFired 0 0 false]; []] /\
  (* the client sends two requests and closes while the idle channel was asked to wait: nothing arrives until the
     transport resumes, then the bytes and after them the close *)
  snd (srun 16384 false [mkQ 28 true false [ANotify []]; mkQ 28 true false [AFinish]] None None (sst0 None)
            [Op TPause; Op (Data 56); Op Lose; Op TResume])
  = [[ENetPause]; []; []; [ENetResume; EProcess 0; ENotify 0 0; EGone; ELost 0; EFired 0 0 false]] /\
  (* reading paused by the eager-read limit for request 0 is resumed when the transport drains while request 1 is handled *)
  snd (srun 20 false [mkQ 28 true false []; mkQ 28 true false [ANotify []]; mkQ 28 true false []] None None (sst0 None)
            [Op (Data 28); Op (Data 46); Op TPause; Op (App 0 AFinish); Op TResume; Op Lose])
  = [[EProcess 0]; [ENetPause]; []; [EHead 0; EEnd 0; EProcess 1; ENotify 1 0]; [ENetResume]; [EGone; ELost 1; EFired 1 0 false]].
Proof. vm_compute. repeat split; reflexivity. Qed.
