(** C21 proofs, part 3: liveness of the pipeline — whenever the channel is idle (no request being handled, connection
    neither lost nor closing), the next request of the stream has not been completely received: a complete request
    is never held back.  Also: the bytes consumed so far are exactly the lengths of the requests handed over. *)
From Coq Require Import List NArith Bool Arith Lia.
From C21 Require Import Model ProofsSim ProofsLog.
Import ListNotations.

(** ---------- what reactions, losses and Deferred firings leave alone ---------- *)

Definition frame (s s' : st) : Prop :=
  s_recv s' = s_recv s /\ s_cons s' = s_cons s /\ s_handling s' = s_handling s /\ length (s_rq s') = length (s_rq s) /\
  (s_lost s = true -> s_lost s' = true) /\ (s_closing s = true -> s_closing s' = true).

Lemma frame_refl s : frame s s.
Proof. repeat split; auto. Qed.

Lemma frame_trans a b c : frame a b -> frame b c -> frame a c.
Proof. intros (A1 & A2 & A3 & A4 & A5 & A6) (B1 & B2 & B3 & B4 & B5 & B6). repeat split; try congruence; auto. Qed.

Lemma frame_set_rq s i r : frame s (set_rq s (upd (s_rq s) i r)).
Proof. repeat split; cbn; auto. apply upd_length. Qed.

Lemma frame_closing s : frame s (mark_closing s).
Proof. repeat split; cbn; auto. Qed.

Lemma set_pending_frame i l s : frame s (set_pending i l s).
Proof. unfold set_pending. destruct (nth_error (s_rq s) i); [apply frame_set_rq|apply frame_refl]. Qed.

Lemma notify_now_frame i s : frame s (fst (notify_now i s)).
Proof. unfold notify_now. destruct (nth_error (s_rq s) i); cbn [fst]; [apply frame_set_rq|apply frame_refl]. Qed.

Lemma react0_frame sync i s a : frame s (fst (react0 sync i s a)).
Proof.
  unfold react0. destruct (nth_error (s_rq s) i) as [r|] eqn:E; [|apply frame_refl].
  destruct a; cbn [fst]; try apply frame_refl.
  - pose proof (notify_now_frame i s) as F. exact F.
  - destruct sync; cbn [fst]; [apply frame_closing|apply frame_refl].
Qed.

Section Firing.
  Variable rf : nat -> st -> ract -> st * list ev.
  Hypothesis Hrf : forall i s a, frame s (fst (rf i s a)).

  Lemma run_react_frame re : forall i s, frame s (fst (run_react rf i re s)).
  Proof.
    induction re as [|a re IH]; intros i s; cbn [run_react]; [apply frame_refl|].
    pose proof (Hrf i s a) as F1. destruct (rf i s a) as [s1 e1]. cbn [fst] in F1.
    pose proof (IH i s1) as F2. destruct (run_react rf i re s1) as [s2 e2]. cbn [fst] in *. eapply frame_trans; eauto.
  Qed.

  Lemma fire_list_frame l : forall i ok s, frame s (fst (fire_list rf i ok l s)).
  Proof.
    induction l as [|[d re] l IH]; intros i ok s; cbn [fire_list]; [apply frame_refl|].
    pose proof (run_react_frame re i (set_pending i l s)) as F1.
    destruct (run_react rf i re (set_pending i l s)) as [s2 e2]. cbn [fst] in F1.
    pose proof (IH i ok s2) as F2. destruct (fire_list rf i ok l s2) as [s3 e3]. cbn [fst] in *.
    eapply frame_trans; [apply set_pending_frame|]. eapply frame_trans; eauto.
  Qed.
End Firing.

Lemma lose0_frame sync s : frame s (fst (lose0 sync s)).
Proof.
  unfold lose0. destruct (s_lost s) eqn:El; [apply frame_refl|].
  destruct (s_inchan s); [|cbn [fst]; repeat split; cbn; auto].
  destruct (nth_error (s_rq s) (pred (length (s_rq s)))) as [r|]; [|cbn [fst]; repeat split; cbn; auto].
  match goal with |- context [fire0 sync ?i false ?l ?s2] =>
    pose proof (fire_list_frame (react0 sync) (react0_frame sync) l i false s2) as F;
    unfold fire0; destruct (fire_list (react0 sync) i false l s2) as [s3 e3] end.
  cbn [fst] in *. eapply frame_trans; [|exact F]. repeat split; cbn; auto. apply upd_length.
Qed.

Lemma react1_frame sync i s a : frame s (fst (react1 sync i s a)).
Proof.
  destruct a; try apply react0_frame. unfold react1. destruct sync; [|apply frame_refl].
  pose proof (lose0_frame true (mark_closing s)) as F. destruct (lose0 true (mark_closing s)) as [s1 e1]. cbn [fst] in *.
  eapply frame_trans; [apply frame_closing|exact F].
Qed.

Lemma fire_frame sync i ok s : frame s (fst (fire sync i ok s)).
Proof.
  unfold fire. destruct (nth_error (s_rq s) i) as [r|]; [|apply frame_refl].
  apply (fire_list_frame (react1 sync) (react1_frame sync)).
Qed.

Lemma app_simple_frame sync i a s s' evs : app_simple sync i a s = Some (s', evs) -> frame s s'.
Proof.
  unfold app_simple. destruct (nth_error (s_rq s) i) as [r|] eqn:Hi; [|intro H; inversion H; apply frame_refl].
  destruct a as [re| | | |].
  - destruct (r_disc r || r_finished r).
    + pose proof (notify_now_frame i s) as F1. destruct (notify_now i s) as [s1 e1]. cbn [fst] in F1.
      pose proof (run_react_frame (react1 sync) (react1_frame sync) re i s1) as F2. unfold run_react1.
      destruct (run_react (react1 sync) i re s1) as [s2 e2]. cbn [fst] in F2. intro H; inversion H; subst. eapply frame_trans; eauto.
    + intro H; inversion H; subst. apply frame_set_rq.
  - destruct (r_finished r); [intro H; inversion H; apply frame_refl|]. destruct (r_disc r); [intro H; inversion H; apply frame_refl|].
    destruct (do_head i r). intro H; inversion H; subst. apply frame_set_rq.
  - destruct (r_disc r); [intro H; inversion H; apply frame_refl|]. destruct (r_finished r); [intro H; inversion H; apply frame_refl|discriminate].
  - destruct (r_prod r || s_cprod s || r_finished r || r_disc r); intro H; inversion H; subst; [apply frame_refl|].
    repeat split; cbn; auto. apply upd_length.
  - destruct (r_finished r || r_disc r); intro H; inversion H; subst; [apply frame_refl|].
    repeat split; cbn; auto. apply upd_length.
Qed.

(** ---------- the invariant ---------- *)

Fixpoint sumlen (l : list reqspec) : N := match l with [] => 0%N | q :: r => (q_len q + sumlen r)%N end.

Lemma sumlen_app a b : sumlen (a ++ b) = (sumlen a + sumlen b)%N.
Proof. induction a as [|q a IH]; cbn; [reflexivity|]. rewrite IH. lia. Qed.

Section Live.
  Variable eager : N.
  Variable sync : bool.
  Variable reqs : list reqspec.

  (** the bytes consumed are exactly the requests handed over *)
  Definition Cons (s : st) : Prop := s_cons s = sumlen (firstn (length (s_rq s)) reqs).

  Definition Idle (s : st) : Prop := s_handling s = false /\ s_lost s = false /\ s_closing s = false.

  Definition Live (s : st) : Prop :=
    Cons s /\
    (Idle s -> match nth_error reqs (length (s_rq s)) with
               | Some q => (s_recv s < s_cons s + q_len q)%N
               | None => True
               end).

  Lemma frame_live s s' : frame s s' -> Live s -> Live s'.
  Proof.
    intros (F1 & F2 & F3 & F4 & F5 & F6) [C L]. unfold Live, Cons, Idle in *. rewrite F1, F2, F3, F4. split; [exact C|].
    intros (I1 & I2 & I3). apply L. repeat split; auto.
    - destruct (s_lost s) eqn:E; [rewrite (F5 eq_refl) in I2; discriminate|reflexivity].
    - destruct (s_closing s) eqn:E; [rewrite (F6 eq_refl) in I3; discriminate|reflexivity].
  Qed.

  (** Request.finish up to requestDone, and whole process() scripts: bytes and the list of requests stay *)
  Definition cframe (s s' : st) : Prop :=
    s_recv s' = s_recv s /\ s_cons s' = s_cons s /\ length (s_rq s') = length (s_rq s).

  Lemma cframe_trans a b c : cframe a b -> cframe b c -> cframe a c.
  Proof. intros (A1 & A2 & A3) (B1 & B2 & B3). repeat split; congruence. Qed.

  Lemma frame_cframe s s' : frame s s' -> cframe s s'.
  Proof. intros (F1 & F2 & _ & F4 & _). repeat split; assumption. Qed.

  Lemma finish_core_cframe i r s : cframe s (fst (finish_core sync reqs i r s)).
  Proof.
    unfold finish_core, request_done. destruct (do_head i r) as [r1 e1]. cbn [s_waiting s_rq s_lost].
    destruct (q_persist (spec_of reqs i)); [|destruct (sync && negb (s_lost s))]; cbn [fst]; repeat split; cbn; auto; apply upd_length.
  Qed.

  Lemma app_sync_cframe i s a : cframe s (fst (app_sync sync reqs i s a)).
  Proof.
    unfold app_sync. destruct (app_simple sync i a s) as [[s1 e1]|] eqn:Ea.
    - cbn [fst]. apply frame_cframe. eapply app_simple_frame, Ea.
    - destruct (nth_error (s_rq s) i) as [r|]; [|repeat split; reflexivity].
      pose proof (finish_core_cframe i r s) as F1. destruct (finish_core sync reqs i r s) as [s1 e1]. cbn [fst] in F1.
      pose proof (fire_frame sync i true s1) as F2. destruct (fire sync i true s1) as [s2 e2]. cbn [fst] in *.
      eapply cframe_trans; [exact F1|apply frame_cframe, F2].
  Qed.

  Lemma run_script_cframe i acts : forall s, cframe s (fst (run_script sync reqs i acts s)).
  Proof.
    induction acts as [|a acts IH]; intro s; cbn [run_script]; [repeat split; reflexivity|].
    pose proof (app_sync_cframe i s a) as F1. destruct (app_sync sync reqs i s a) as [s1 e1]. cbn [fst] in F1.
    pose proof (IH s1) as F2. destruct (run_script sync reqs i acts s1) as [s2 e2]. cbn [fst] in *. eapply cframe_trans; eauto.
  Qed.

  Lemma skipn_cons_nth {A} (l : list A) n x r : skipn n l = x :: r -> nth_error l n = Some x /\ skipn (S n) l = r.
  Proof.
    revert l. induction n as [|n IH]; intros [|y l] H; cbn in *; try discriminate.
    - inversion H. auto.
    - apply IH, H.
  Qed.

  Lemma skipn_nil_nth {A} (l : list A) n : skipn n l = [] -> nth_error l n = None.
  Proof.
    revert l. induction n as [|n IH]; intros [|y l] H; cbn in *; try discriminate; auto.
  Qed.

  Lemma firstn_S_nth {A} (l : list A) n x : nth_error l n = Some x -> firstn (S n) l = firstn n l ++ [x].
  Proof.
    revert l. induction n as [|n IH]; intros [|y l] H; cbn in *; try discriminate.
    - inversion H. reflexivity.
    - rewrite (IH l H). reflexivity.
  Qed.

  (** the LineReceiver loop stops only when nothing complete is left, or a request is being handled *)
  Lemma drain_live rest : forall s, rest = skipn (length (s_rq s)) reqs -> Cons s -> Live (fst (drain eager sync reqs rest s)).
  Proof.
    induction rest as [|q rest IH]; intros s Hr Hc; cbn [drain].
    - cbn [fst]. split; [exact Hc|]. intros _. rewrite (skipn_nil_nth _ _ (eq_sym Hr)). exact I.
    - destruct (skipn_cons_nth _ _ _ _ (eq_sym Hr)) as [Hn Hs].
      destruct (s_handling s || s_lost s) eqn:Ehl.
      { cbn [fst]. split; [exact Hc|]. intros (I1 & I2 & _). rewrite I1, I2 in Ehl. discriminate. }
      destruct (s_recv s <? s_cons s + q_len q)%N eqn:El.
      { cbn [fst]. split; [exact Hc|]. intros _. rewrite Hn. apply N.ltb_lt, El. }
      set (n := length (s_rq s)) in *.
      set (s1 := mkSt (s_rq s ++ [rq0]) true true (s_recv s) (s_cons s + q_len q) (s_waiting s) (s_cprod s) (s_closing s) (s_lost s)).
      assert (C1 : Cons s1).
      { unfold Cons, s1. cbn [s_cons s_rq]. rewrite app_length. cbn [length]. fold n. rewrite Nat.add_1_r.
        rewrite (firstn_S_nth _ _ _ Hn), sumlen_app. cbn [sumlen]. unfold Cons in Hc. fold n in Hc. lia. }
      pose proof (run_script_cframe n (q_script q) s1) as (F1 & F2 & F3).
      destruct (run_script sync reqs n (q_script q) s1) as [s2 e2]. cbn [fst] in F1, F2, F3.
      assert (C2 : Cons s2).
      { unfold Cons in *. rewrite F2, F3. exact C1. }
      destruct (s_handling s2) eqn:Eh2.
      + cbn [fst]. split; [exact C2|]. intros (I1 & _). congruence.
      + assert (Hr2 : rest = skipn (length (s_rq s2)) reqs).
        { rewrite F3. unfold s1. cbn [s_rq]. rewrite app_length. cbn [length]. fold n. rewrite Nat.add_1_r. symmetry. exact Hs. }
        pose proof (IH s2 Hr2 C2) as L. destruct (drain eager sync reqs rest s2) as [s3 e3]. exact L.
  Qed.

  Lemma step_live s o : Live s -> Live (fst (step eager sync reqs s o)).
  Proof.
    intros HL. destruct o as [n| | | |i a]; cbn [step].
    - destruct (s_lost s || s_closing s); [exact HL|]. destruct (s_handling s) eqn:Eh.
      + cbn [fst]. destruct HL as [C _]. split; [exact C|]. intros (I1 & _). cbn in I1. discriminate.
      + apply drain_live; [reflexivity|]. destruct HL as [C _]. exact C.
    - destruct (s_lost s) eqn:El; [exact HL|]. cbn [fst]. eapply frame_live; [|exact HL]. repeat split; cbn; auto; intros; congruence.
    - destruct (s_lost s) eqn:El; [exact HL|]. cbn [fst]. eapply frame_live; [|exact HL]. repeat split; cbn; auto; intros; congruence.
    - eapply frame_live; [apply lose0_frame|exact HL].
    - destruct (app_simple sync i a s) as [[s1 e1]|] eqn:Ea.
      + cbn [fst]. eapply frame_live; [eapply app_simple_frame, Ea|exact HL].
      + destruct (nth_error (s_rq s) i) as [r|]; [|exact HL].
        pose proof (finish_core_cframe i r s) as (F1 & F2 & F3).
        destruct (finish_core sync reqs i r s) as [s1 e1]. cbn [fst] in F1, F2, F3.
        assert (C1 : Cons s1) by (destruct HL as [C _]; unfold Cons in *; rewrite F2, F3; exact C).
        pose proof (drain_live (remaining reqs s1) s1 eq_refl C1) as L2.
        destruct (drain eager sync reqs (remaining reqs s1) s1) as [s2 e2]. cbn [fst] in L2.
        pose proof (fire_frame sync i true s2) as F. destruct (fire sync i true s2) as [s3 e3]. cbn [fst] in *.
        eapply frame_live; eauto.
  Qed.

  Variables tmo abt : option N.

  Lemma tstep_live t o : Live (t_st t) -> Live (t_st (fst (tstep eager sync reqs tmo abt t o))).
  Proof.
    intros HL. destruct o as [o|dt]; cbn [tstep].
    - pose proof (step_live (t_st t) o HL) as L. destruct (step eager sync reqs (t_st t) o) as [s1 e1]. exact L.
    - assert (Hc : forall s1 e1, (if sync then lose0 sync (mark_closing (t_st t)) else (mark_closing (t_st t), [])) = (s1, e1) -> Live s1).
      { intros s1 e1. destruct sync eqn:Es.
        - intro E. pose proof (lose0_frame true (mark_closing (t_st t))) as F. rewrite E in F. cbn [fst] in F.
          eapply frame_live; [eapply frame_trans; [apply frame_closing|exact F]|exact HL].
        - intro E; inversion E; subst. eapply frame_live; [apply frame_closing|exact HL]. }
      destruct (s_lost (t_st t)); [exact HL|]. destruct (due (t_dl t) (t_now t + dt)).
      + destruct (if sync then lose0 sync (mark_closing (t_st t)) else (mark_closing (t_st t), [])) as [s1 e1] eqn:Ec.
        cbn [fst t_st]. exact (Hc _ _ eq_refl).
      + destruct (due (t_ab t) (t_now t + dt)); [|exact HL].
        destruct (if sync then lose0 sync (mark_closing (t_st t)) else (mark_closing (t_st t), [])) as [s1 e1] eqn:Ec.
        cbn [fst t_st]. exact (Hc _ _ eq_refl).
  Qed.

  Lemma trun_live ops : forall t, Live (t_st t) -> Live (t_st (fst (trun eager sync reqs tmo abt t ops))).
  Proof.
    induction ops as [|o ops IH]; intros t HL; cbn [trun]; [exact HL|].
    pose proof (tstep_live t o HL) as L1. destruct (tstep eager sync reqs tmo abt t o) as [t1 e]. cbn [fst] in L1.
    pose proof (IH t1 L1) as L2. destruct (trun eager sync reqs tmo abt t1 ops) as [t2 es]. exact L2.
  Qed.

  (** the socket layer *)
  Lemma settle_live k t1 evs pc : Live (t_st t1) -> Live (t_st (k_t (fst (settle eager sync reqs tmo abt k t1 evs pc)))).
  Proof.
    intros HL. unfold settle.
    destruct (negb (net_paused (k_paused k) evs) && (0 <? k_queued k)%N).
    - pose proof (tstep_live t1 (Op (Data (k_queued k))) HL) as L2.
      destruct (tstep eager sync reqs tmo abt t1 (Op (Data (k_queued k)))) as [t2 e2]. cbn [fst] in L2.
      destruct (negb (net_paused (net_paused (k_paused k) evs) e2) && pc && negb (s_lost (t_st t2))).
      + pose proof (tstep_live t2 (Op Lose) L2) as L3. destruct (tstep eager sync reqs tmo abt t2 (Op Lose)) as [t3 e3]. exact L3.
      + exact L2.
    - destruct (negb (net_paused (k_paused k) evs) && pc && negb (s_lost (t_st t1))).
      + pose proof (tstep_live t1 (Op Lose) HL) as L3. destruct (tstep eager sync reqs tmo abt t1 (Op Lose)) as [t3 e3]. exact L3.
      + exact HL.
  Qed.

  Lemma sstep_live k o : Live (t_st (k_t k)) -> Live (t_st (k_t (fst (sstep eager sync reqs tmo abt k o)))).
  Proof.
    intros HL.
    assert (Hgen : forall o' pc, Live (t_st (k_t (fst (let (t1, e1) := tstep eager sync reqs tmo abt (k_t k) o' in
                                                          settle eager sync reqs tmo abt k t1 e1 pc))))).
    { intros o' pc. pose proof (tstep_live (k_t k) o' HL) as L1. destruct (tstep eager sync reqs tmo abt (k_t k) o') as [t1 e1].
      apply settle_live. exact L1. }
    unfold sstep. destruct o as [o|dt]; [destruct o|]; try (apply Hgen).
    - destruct (k_paused k); [|apply Hgen]. destruct (s_lost (t_st (k_t k)) || s_closing (t_st (k_t k))); exact HL.
    - destruct (k_paused k); [exact HL|apply Hgen].
  Qed.

  Lemma srun_live ops : forall k, Live (t_st (k_t k)) -> Live (t_st (k_t (fst (srun eager sync reqs tmo abt k ops)))).
  Proof.
    induction ops as [|o ops IH]; intros k HL; cbn [srun]; [exact HL|].
    pose proof (sstep_live k o HL) as L1. destruct (sstep eager sync reqs tmo abt k o) as [k1 e]. cbn [fst] in L1.
    pose proof (IH k1 L1) as L2. destruct (srun eager sync reqs tmo abt k1 ops) as [k2 es]. exact L2.
  Qed.

  (** ---------- what the socket layer guarantees: nothing the peer did waits behind a transport that reads ---------- *)
  Lemma lose0_lost s : s_lost (fst (lose0 sync s)) = true.
  Proof.
    unfold lose0. destruct (s_lost s) eqn:El; [exact El|].
    destruct (s_inchan s); [|reflexivity].
    destruct (nth_error (s_rq s) (pred (length (s_rq s)))) as [r|]; [|reflexivity].
    match goal with |- context [fire0 sync ?i false ?l ?s2] =>
      pose proof (fire_list_frame (react0 sync) (react0_frame sync) l i false s2) as F;
      unfold fire0; destruct (fire_list (react0 sync) i false l s2) as [s3 e3] end.
    cbn [fst] in *. destruct F as (_ & _ & _ & _ & F5 & _). apply F5. reflexivity.
  Qed.

  Lemma tstep_lose_lost t : s_lost (t_st (fst (tstep eager sync reqs tmo abt t (Op Lose)))) = true.
  Proof.
    cbn [tstep step]. pose proof (lose0_lost (t_st t)) as L. destruct (lose0 sync (t_st t)) as [s1 e1]. exact L.
  Qed.

  Definition Kinv (k : sst) : Prop :=
    k_paused k = false -> k_queued k = 0%N /\ (k_peerclosed k = true -> s_lost (t_st (k_t k)) = true).

  Lemma net_paused_app b a c : net_paused b (a ++ c) = net_paused (net_paused b a) c.
  Proof. unfold net_paused. apply fold_left_app. Qed.

  Lemma settle_K k t1 evs pc k' evs' : settle eager sync reqs tmo abt k t1 evs pc = (k', evs') ->
    Kinv k' /\ k_peerclosed k' = pc /\ (exists e', evs' = evs ++ e' /\ k_paused k' = net_paused (k_paused k) evs').
  Proof.
    unfold settle. set (p := net_paused (k_paused k) evs).
    destruct (negb p && (0 <? k_queued k)%N) eqn:Ec.
    - apply andb_true_iff in Ec as [Ep _]. apply negb_true_iff in Ep.
      destruct (tstep eager sync reqs tmo abt t1 (Op (Data (k_queued k)))) as [t2 e2].
      destruct (negb (net_paused p e2) && pc && negb (s_lost (t_st t2))) eqn:Ed.
      + pose proof (tstep_lose_lost t2) as L. destruct (tstep eager sync reqs tmo abt t2 (Op Lose)) as [t3 e3]. cbn [fst] in L.
        intro E; inversion E; subst k' evs'; clear E. unfold Kinv. cbn [k_paused k_queued k_peerclosed k_t].
        split; [intros _; split; [reflexivity|intros _; exact L]|]. split; [reflexivity|].
        exists (e2 ++ e3). split; [reflexivity|]. rewrite !net_paused_app. reflexivity.
      + intro E; inversion E; subst k' evs'; clear E. unfold Kinv. cbn [k_paused k_queued k_peerclosed k_t].
        split; [|split; [reflexivity|exists (e2 ++ []); split; [reflexivity|rewrite !net_paused_app; reflexivity]]].
        cbn [net_paused fold_left]. intros Hp. split; [reflexivity|]. intros Hpc. rewrite Hp, Hpc in Ed. cbn in Ed.
        apply negb_false_iff in Ed. exact Ed.
    - destruct (negb p && pc && negb (s_lost (t_st t1))) eqn:Ed.
      + pose proof (tstep_lose_lost t1) as L. destruct (tstep eager sync reqs tmo abt t1 (Op Lose)) as [t3 e3]. cbn [fst] in L.
        apply andb_true_iff in Ed as [Ed _]. apply andb_true_iff in Ed as [Ep _]. apply negb_true_iff in Ep. rewrite Ep in Ec. cbn in Ec.
        intro E; inversion E; subst k' evs'; clear E. unfold Kinv. cbn [k_paused k_queued k_peerclosed k_t].
        split; [intros _; split; [apply N.ltb_ge in Ec; lia|intros _; exact L]|]. split; [reflexivity|].
        exists ([] ++ e3). split; [reflexivity|]. rewrite !net_paused_app. reflexivity.
      + intro E; inversion E; subst k' evs'; clear E. unfold Kinv. cbn [k_paused k_queued k_peerclosed k_t].
        split; [|split; [reflexivity|exists ([] ++ []); split; [reflexivity|rewrite !net_paused_app; reflexivity]]].
        cbn [net_paused fold_left]. fold p. intros Hp. rewrite Hp in Ec, Ed. cbn in Ec, Ed. split; [apply N.ltb_ge in Ec; lia|].
        intros Hpc. rewrite Hpc in Ed. cbn in Ed. apply negb_false_iff in Ed. exact Ed.
  Qed.

  Definition is_lose (o : top) : bool := match o with Op Lose => true | _ => false end.

  Lemma sstep_K k o k' evs : Kinv k -> sstep eager sync reqs tmo abt k o = (k', evs) ->
    Kinv k' /\ k_peerclosed k' = k_peerclosed k || is_lose o /\ k_paused k' = net_paused (k_paused k) evs.
  Proof.
    intros HK.
    assert (Hgen : forall o' pc, (let (t1, e1) := tstep eager sync reqs tmo abt (k_t k) o' in
                                  settle eager sync reqs tmo abt k t1 e1 pc) = (k', evs) ->
                                 Kinv k' /\ k_peerclosed k' = pc /\ k_paused k' = net_paused (k_paused k) evs).
    { intros o' pc. destruct (tstep eager sync reqs tmo abt (k_t k) o') as [t1 e1]. intro E.
      destruct (settle_K _ _ _ _ _ _ E) as (A & B & e' & C & D). auto. }
    unfold sstep. destruct o as [o|dt]; [destruct o|]; cbn [is_lose]; rewrite ?orb_false_r; try (apply Hgen).
    - destruct (k_paused k) eqn:Ep; [|apply Hgen].
      destruct (s_lost (t_st (k_t k)) || s_closing (t_st (k_t k))); intro E; inversion E; subst; clear E.
      + split; [exact HK|]. split; [reflexivity|exact Ep].
      + split; [intro C; discriminate C|]. split; reflexivity.
    - rewrite orb_true_r. destruct (k_paused k) eqn:Ep; [|apply Hgen].
      intro E; inversion E; subst; clear E. split; [intro C; discriminate C|]. split; reflexivity.
  Qed.

  Lemma srun_K ops : forall k ks logs, Kinv k -> srun eager sync reqs tmo abt k ops = (ks, logs) ->
    Kinv ks /\ k_peerclosed ks = k_peerclosed k || existsb is_lose ops /\ k_paused ks = net_paused (k_paused k) (concat logs).
  Proof.
    induction ops as [|o ops IH]; intros k ks logs HK; cbn [srun].
    - intro E; inversion E; subst. cbn. rewrite orb_false_r. auto.
    - destruct (sstep eager sync reqs tmo abt k o) as [k1 e] eqn:Es. destruct (srun eager sync reqs tmo abt k1 ops) as [k2 es] eqn:Er.
      intro E; inversion E; subst; clear E. destruct (sstep_K _ _ _ _ HK Es) as (K1 & P1 & Q1).
      destruct (IH _ _ _ K1 Er) as (K2 & P2 & Q2). split; [exact K2|]. cbn [existsb concat].
      rewrite P2, P1, Q2, Q1, net_paused_app, orb_assoc. auto.
  Qed.

  Lemma Kinv0 : Kinv (sst0 tmo).
  Proof. intros _. split; [reflexivity|intro C; discriminate C]. Qed.

  (** every history: the socket's reading flag is what the log says; and if the peer closed and reading is not paused
      now, nothing is waiting and connectionLost has been delivered *)
  Lemma final_socket ops :
    let k := fst (srun eager sync reqs tmo abt (sst0 tmo) ops) in
    let logs := snd (srun eager sync reqs tmo abt (sst0 tmo) ops) in
    k_paused k = net_paused false (concat logs) /\
    (net_paused false (concat logs) = false ->
     k_queued k = 0%N /\ (In (Op Lose) ops -> s_lost (t_st (k_t k)) = true)).
  Proof.
    destruct (srun eager sync reqs tmo abt (sst0 tmo) ops) as [k logs] eqn:E. cbn [fst snd].
    destruct (srun_K _ _ _ _ Kinv0 E) as (K & P & Q). cbn [sst0 k_paused k_peerclosed orb] in P, Q.
    split; [exact Q|]. intro Hp. rewrite <- Q in Hp. destruct (K Hp) as [Kq Kl]. split; [exact Kq|].
    intro Hin. apply Kl. rewrite P. apply existsb_exists. exists (Op Lose). split; [exact Hin|reflexivity].
  Qed.

  Lemma live0 : Forall (fun q => (0 < q_len q)%N) reqs -> Live (t_st (tst0 tmo)).
  Proof.
    intro Hpos. unfold Live, Cons, tst0, st0. cbn. split; [reflexivity|]. intros _.
    destruct reqs as [|q r]; [exact I|]. cbn. inversion Hpos; subst. lia.
  Qed.
End Live.

Lemma final_peer_close (eager : N) (sync : bool) (reqs : list reqspec) (tmo abt : option N) (ops : list top) :
  let k := fst (srun eager sync reqs tmo abt (sst0 tmo) ops) in
  let log := concat (snd (srun eager sync reqs tmo abt (sst0 tmo) ops)) in
  k_paused k = net_paused false log /\
  (net_paused false log = false -> k_queued k = 0%N /\ (In (Op Lose) ops -> In EGone log)).
Proof.
  destruct (final_socket eager sync reqs tmo abt ops) as [A B]. split; [exact A|].
  intro H. destruct (B H) as [C D]. split; [exact C|]. intro L. apply final_lost, D, L.
Qed.

Lemma final_live (eager : N) (sync : bool) (reqs : list reqspec) (tmo abt : option N) (ops : list top) :
  Forall (fun q => (0 < q_len q)%N) reqs ->
  let s := t_st (k_t (fst (srun eager sync reqs tmo abt (sst0 tmo) ops))) in
  s_cons s = sumlen (firstn (length (s_rq s)) reqs) /\
  (s_handling s = false /\ s_lost s = false /\ s_closing s = false ->
   match nth_error reqs (length (s_rq s)) with
   | Some q => (s_recv s < s_cons s + q_len q)%N
   | None => True
   end).
Proof. intros Hpos. exact (srun_live eager sync reqs tmo abt ops (sst0 tmo) (live0 reqs tmo Hpos)). Qed.
