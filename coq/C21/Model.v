(** C21 — HTTP/1.1 server: pipelined requests are handled one at a time; notifyFinish fires exactly once
    (src/twisted/web/http.py: HTTPChannel.lineReceived/allContentReceived/rawDataReceived/requestDone/
    connectionLost/pauseProducing/resumeProducing/registerProducer/loseConnection, _handlingRequest, _dataBuffer,
    _waitingForTransport, _networkProducer; Request.notifyFinish/write/finish/_cleanup/connectionLost/
    registerProducer; basic.LineReceiver.dataReceived/setLineMode).

    The request stream is a sequence of body-less HTTP/1.1 requests; request i occupies [q_len] bytes, is
    persistent unless it carries "Connection: close", and its resource runs [q_script] synchronously inside
    process().  A history is a list of [op]s: bytes arriving (cut anywhere), the transport pausing / resuming
    the channel, the connection being lost, and the application acting on any request it was handed.
    Every API-level effect is an [ev] in the log.  The model has the REPAIRED notifyFinish (see ANotify);
    [notify_unrepaired] below is the pinned behaviour.  No proofs here. *)
From Coq Require Import List NArith Bool Arith.
Import ListNotations.

(** what a callback / errback attached to a notifyFinish Deferred does, synchronously, when the Deferred fires *)
Inductive ract :=
| RFinish      (* request.finish() *)
| RWrite       (* request.write(...) *)
| RNotify      (* request.notifyFinish() (no reaction attached to the new Deferred) *)
| RLose.       (* request.transport.loseConnection() — an effect only on a transport that reports the loss at once *)

Inductive act :=
| ANotify (re : list ract)   (* request.notifyFinish(), with the reaction attached to the Deferred *)
| AWrite       (* request.write(b"<i.j>") *)
| AFinish      (* request.finish() *)
| AReg         (* request.registerProducer(push producer, True) *)
| AUnreg.      (* request.unregisterProducer() *)

Record reqspec := mkQ {
  q_len : N;               (* bytes of the whole request, head and body *)
  q_persist : bool;        (* no "Connection: close" *)
  q_body : bool;           (* the body goes through a transfer decoder (Content-Length > 0 or chunked) *)
  q_script : list act }.

Inductive op :=
| Data (n : N)               (* the next n bytes of the request stream are delivered to dataReceived *)
| TPause | TResume           (* the transport calls channel.pauseProducing() / resumeProducing() *)
| Lose                       (* channel.connectionLost(reason) *)
| App (i : nat) (a : act).   (* the application calls the method on request i (later, outside process()) *)

Inductive ev :=
| EProcess (i : nat)                 (* request i handed to the application: process() called *)
| EHead (i : nat)                    (* response head of request i written to the transport *)
| EWrite (i j : nat)                 (* j-th body write of request i written to the transport *)
| EEnd (i : nat)                     (* last-chunk of response i written: the response is finished *)
| ENotify (i d : nat)                (* notifyFinish() on request i returned its d-th Deferred *)
| EFired (i d : nat) (ok : bool)     (* that Deferred fired: callback(None) / errback(reason) *)
| ELost (i : nat)                    (* Request.connectionLost called on request i *)
| EGone                              (* HTTPChannel.connectionLost called: the connection is gone *)
| ENetPause | ENetResume             (* transport.pauseProducing() / resumeProducing(): reading paused / resumed *)
| EProdPause (i : nat) | EProdResume (i : nat)    (* the request's push producer paused / resumed *)
| EClose                             (* transport.loseConnection() *)
| EAbort                             (* transport.abortConnection() (forceAbortClient) *)
| ERaise.                            (* the call raised RuntimeError / ValueError *)

(** per-request state (Request attributes) *)
Record rq := mkRq {
  r_started : bool;        (* startedWriting *)
  r_finished : bool;       (* finished *)
  r_disc : bool;           (* _disconnected *)
  r_pending : list (nat * list ract);    (* notifications: Deferreds not yet fired, with their reactions *)
  r_ndef : nat;            (* how many Deferreds were handed out *)
  r_nw : nat;              (* body writes so far *)
  r_prod : bool }.         (* producer registered on the request *)

Definition rq0 : rq := mkRq false false false [] 0 0 false.

Record st := mkSt {
  s_rq : list rq;          (* the requests handed to the application so far (index = request number) *)
  s_handling : bool;       (* _handlingRequest *)
  s_inchan : bool;         (* the last handed request is still in channel.requests *)
  s_recv : N;              (* bytes delivered so far *)
  s_cons : N;              (* stream offset just after the last handed request *)
  s_waiting : bool;        (* _waitingForTransport *)
  s_cprod : bool;          (* channel._requestProducer is set *)
  s_closing : bool;        (* transport.loseConnection() was called *)
  s_lost : bool }.         (* connectionLost was delivered *)

Definition st0 : st := mkSt [] false false 0 0 false false false false.

Definition set_rq (s : st) (l : list rq) : st :=
  mkSt l (s_handling s) (s_inchan s) (s_recv s) (s_cons s) (s_waiting s) (s_cprod s) (s_closing s) (s_lost s).

Fixpoint upd {A} (l : list A) (i : nat) (x : A) : list A :=
  match l, i with
  | [], _ => []
  | _ :: r, O => x :: r
  | y :: r, S k => y :: upd r k x
  end.

(** is reading from the transport paused after these events? (transport.pauseProducing / resumeProducing) *)
Definition net_paused (b : bool) (l : list ev) : bool :=
  fold_left (fun b e => match e with ENetPause => true | ENetResume => false | _ => b end) l b.

Section WithStream.
  Variable eager : N.                 (* _optimisticEagerReadSize *)
  Variable sync : bool.               (* the transport reports a loss synchronously from loseConnection() *)
  Variable reqs : list reqspec.       (* the whole request stream *)

  Definition spec_of (i : nat) : reqspec := nth i reqs (mkQ 0 true false []).

  (** rawDataReceived while a request is being handled: buffer, maybe pause reading *)
  Definition eager_check (s : st) : list ev :=
    if (eager <? s_recv s - s_cons s)%N && negb (s_waiting s) then [ENetPause] else [].

  (** Request.write's first-write part + one body chunk *)
  Definition do_head (i : nat) (r : rq) : rq * list ev :=
    if r_started r then (r, [])
    else (mkRq true (r_finished r) (r_disc r) (r_pending r) (r_ndef r) (r_nw r) (r_prod r), [EHead i]).

  (** HTTPChannel.requestDone (without the replay of buffered data) *)
  Definition request_done (i : nat) (s : st) : st * list ev :=
    let e1 := if s_waiting s then [] else [ENetResume] in
    if q_persist (spec_of i)
    then (mkSt (s_rq s) false false (s_recv s) (s_cons s) (s_waiting s) (s_cprod s) (s_closing s) (s_lost s), e1)
    else if sync && negb (s_lost s)
         then (* loseConnection() -> connectionLost at once; channel.requests is empty by now *)
              (mkSt (s_rq s) (s_handling s) false (s_recv s) (s_cons s) (s_waiting s) (s_cprod s) true true,
               e1 ++ [EClose; EGone])
         else (mkSt (s_rq s) (s_handling s) false (s_recv s) (s_cons s) (s_waiting s) (s_cprod s) true (s_lost s),
               e1 ++ [EClose]).

  (** Request.finish up to and including channel.requestDone: head if needed, last chunk, _cleanup's producer
      unregistration, requestDone *)
  Definition finish_core (i : nat) (r : rq) (s : st) : st * list ev :=
    let (r1, e1) := do_head i r in
    let r2 := mkRq true true (r_disc r1) (r_pending r1) (r_ndef r1) (r_nw r1) false in
    let s1 := mkSt (upd (s_rq s) i r2) (s_handling s) (s_inchan s) (s_recv s) (s_cons s) (s_waiting s)
                   (if r_prod r1 then false else s_cprod s) (s_closing s) (s_lost s) in
    let (s2, e2) := request_done i s1 in
    (s2, e1 ++ [EEnd i] ++ e2).

  Definition set_pending (i : nat) (l : list (nat * list ract)) (s : st) : st :=
    match nth_error (s_rq s) i with
    | None => s
    | Some r => set_rq s (upd (s_rq s) i (mkRq (r_started r) (r_finished r) (r_disc r) l (r_ndef r) (r_nw r) (r_prod r)))
    end.

  (** notifyFinish() on a request that is finished or disconnected (repaired): the new Deferred fires at once *)
  Definition notify_now (i : nat) (s : st) : st * list ev :=
    match nth_error (s_rq s) i with
    | None => (s, [])
    | Some r =>
        (set_rq s (upd (s_rq s) i (mkRq (r_started r) (r_finished r) (r_disc r) (r_pending r) (S (r_ndef r)) (r_nw r) (r_prod r))),
         [ENotify i (r_ndef r); EFired i (r_ndef r) (negb (r_disc r))])
    end.

  Definition mark_closing (s : st) : st :=
    mkSt (s_rq s) (s_handling s) (s_inchan s) (s_recv s) (s_cons s) (s_waiting s) (s_cprod s) true (s_lost s).

  (** one reaction step on request i, which has finished or lost its connection; the connection is not dropped here *)
  Definition react0 (i : nat) (s : st) (a : ract) : st * list ev :=
    match nth_error (s_rq s) i with
    | None => (s, [])
    | Some r =>
        match a with
        | RFinish => (s, if r_disc r then [ERaise] else [])        (* finished: a warning only *)
        | RWrite => (s, if r_finished r then [ERaise] else [])     (* disconnected: ignored *)
        | RNotify => notify_now i s
        | RLose => if sync then (mark_closing s, [EClose]) else (s, [])
        end
    end.

  (** a reaction = its steps in turn; for d in notifications: fire d, whose reaction runs at once
      (parametrised by the step function: reactions that run while the connection is being torn down cannot tear it
      down again) *)
  Section Firing.
    Variable rf : nat -> st -> ract -> st * list ev.

    Fixpoint run_react (i : nat) (re : list ract) (s : st) : st * list ev :=
      match re with
      | [] => (s, [])
      | a :: r => let (s1, e1) := rf i s a in
                  let (s2, e2) := run_react i r s1 in (s2, e1 ++ e2)
      end.

    Fixpoint fire_list (i : nat) (ok : bool) (l : list (nat * list ract)) (s : st) : st * list ev :=
      match l with
      | [] => (s, [])
      | (d, re) :: l' =>
          let s1 := set_pending i l' s in
          let (s2, e2) := run_react i re s1 in
          let (s3, e3) := fire_list i ok l' s2 in
          (s3, EFired i d ok :: e2 ++ e3)
      end.
  End Firing.

  Definition fire0 := fire_list react0.

  (** HTTPChannel.connectionLost: fan out to the request in channel.requests (Request.connectionLost: mark it
      disconnected, then errback its Deferreds) *)
  Definition lose0 (s : st) : st * list ev :=
    if s_lost s then (s, [])       (* connectionLost is delivered once *)
    else
      let s1 := mkSt (s_rq s) (s_handling s) (s_inchan s) (s_recv s) (s_cons s) (s_waiting s) (s_cprod s)
                     (s_closing s) true in
      if s_inchan s
      then let i := pred (length (s_rq s)) in
           match nth_error (s_rq s) i with
           | None => (s1, [EGone])
           | Some r =>
               let s2 := set_rq s1 (upd (s_rq s) i (mkRq (r_started r) (r_finished r) true (r_pending r) (r_ndef r)
                                                         (r_nw r) (r_prod r))) in
               let (s3, e3) := fire0 i false (r_pending r) s2 in (s3, EGone :: ELost i :: e3)
           end
      else (s1, [EGone]).

  (** a reaction step that may drop the connection *)
  Definition react1 (i : nat) (s : st) (a : ract) : st * list ev :=
    match a with
    | RLose => if sync then let (s1, e1) := lose0 (mark_closing s) in (s1, EClose :: e1) else (s, [])
    | _ => react0 i s a
    end.

  Definition run_react1 := run_react react1.
  Definition fire1 := fire_list react1.

  (** the end of _cleanup: for d in self.notifications: d.callback(None) *)
  Definition fire (i : nat) (ok : bool) (s : st) : st * list ev :=
    match nth_error (s_rq s) i with
    | None => (s, [])
    | Some r => fire1 i ok (r_pending r) s
    end.

  (** everything except finish; [None] = this is a finish that goes through *)
  Definition app_simple (i : nat) (a : act) (s : st) : option (st * list ev) :=
    match nth_error (s_rq s) i with
    | None => Some (s, [])
    | Some r =>
        match a with
        | ANotify re =>
            (* repaired (fixes/C21-notifyfinish-after-completion.patch): a Deferred asked for after the request
               completed fires at once instead of never; its reaction runs at once, too *)
            if r_disc r || r_finished r
            then let (s1, e1) := notify_now i s in
                 let (s2, e2) := run_react1 i re s1 in Some (s2, e1 ++ e2)
            else Some (set_rq s (upd (s_rq s) i (mkRq (r_started r) (r_finished r) (r_disc r) (r_pending r ++ [(r_ndef r, re)])
                                                      (S (r_ndef r)) (r_nw r) (r_prod r))),
                       [ENotify i (r_ndef r)])
        | AWrite =>
            if r_finished r then Some (s, [ERaise])
            else if r_disc r then Some (s, [])
            else let (r1, e1) := do_head i r in
                 Some (set_rq s (upd (s_rq s) i (mkRq (r_started r1) (r_finished r1) (r_disc r1) (r_pending r1)
                                                      (r_ndef r1) (S (r_nw r1)) (r_prod r1))),
                       e1 ++ [EWrite i (r_nw r)])
        | AFinish =>
            if r_disc r then Some (s, [ERaise])
            else if r_finished r then Some (s, [])
            else None
        | AReg =>
            if r_prod r || s_cprod s || r_finished r || r_disc r then Some (s, [ERaise])
            else Some (mkSt (upd (s_rq s) i (mkRq (r_started r) (r_finished r) (r_disc r) (r_pending r) (r_ndef r)
                                                  (r_nw r) true))
                            (s_handling s) (s_inchan s) (s_recv s) (s_cons s) (s_waiting s) true (s_closing s) (s_lost s),
                       [])
        | AUnreg =>
            if r_finished r || r_disc r then Some (s, [ERaise])
            else Some (mkSt (upd (s_rq s) i (mkRq (r_started r) (r_finished r) (r_disc r) (r_pending r) (r_ndef r)
                                                  (r_nw r) false))
                            (s_handling s) (s_inchan s) (s_recv s) (s_cons s) (s_waiting s)
                            (if r_prod r then false else s_cprod s) (s_closing s) (s_lost s),
                       [])
        end
    end.

  (** a call made synchronously inside process(): finish does not replay buffered data itself — the
      LineReceiver loop that called process() goes on with the rest of its buffer *)
  Definition app_sync (i : nat) (s : st) (a : act) : st * list ev :=
    match app_simple i a s with
    | Some r => r
    | None =>
        match nth_error (s_rq s) i with
        | None => (s, [])
        | Some r => let (s1, e1) := finish_core i r s in
                    let (s2, e2) := fire i true s1 in (s2, e1 ++ e2)
        end
    end.

  Fixpoint run_script (i : nat) (acts : list act) (s : st) : st * list ev :=
    match acts with
    | [] => (s, [])
    | a :: r => let (s1, e1) := app_sync i s a in
                let (s2, e2) := run_script i r s1 in (s2, e1 ++ e2)
    end.

  (** LineReceiver.dataReceived loop over the not yet handed requests [rest]: hand over each request whose
      bytes are all there, as long as none is being handled *)
  Fixpoint drain (rest : list reqspec) (s : st) : st * list ev :=
    match rest with
    | [] => (s, [])
    | q :: rest' =>
        if s_handling s || s_lost s then (s, [])
        else if (s_recv s <? s_cons s + q_len q)%N then (s, [])
        else
          let i := length (s_rq s) in
          let s1 := mkSt (s_rq s ++ [rq0]) true true (s_recv s) (s_cons s + q_len q) (s_waiting s) (s_cprod s)
                         (s_closing s) (s_lost s) in
          let (s2, e2) := run_script i (q_script q) s1 in
          if s_handling s2
          then (* still being handled (or closing): the rest of the buffer goes to rawDataReceived — unless the request
                  had a body: its decoder hands the rest straight to _dataBuffer (_finishRequestBody) *)
               (s2, EProcess i :: e2 ++ (if (s_cons s2 <? s_recv s2)%N && negb (s_closing s2) && negb (q_body q) then eager_check s2 else []))
          else let (s3, e3) := drain rest' s2 in (s3, EProcess i :: e2 ++ e3)
    end.

  Definition remaining (s : st) : list reqspec := skipn (length (s_rq s)) reqs.

  Definition step (s : st) (o : op) : st * list ev :=
    match o with
    | Data n =>
        if s_lost s || s_closing s then (s, [])      (* a transport stops reading once loseConnection() was called *)
        else
          let s1 := mkSt (s_rq s) (s_handling s) (s_inchan s) (s_recv s + n) (s_cons s) (s_waiting s) (s_cprod s)
                         (s_closing s) (s_lost s) in
          if s_handling s
          then (s1, if (0 <? n)%N then eager_check s1 else [])
          else drain (remaining s1) s1
    | TPause =>
        if s_lost s then (s, []) else
        let cur := pred (length (s_rq s)) in
        (mkSt (s_rq s) (s_handling s) (s_inchan s) (s_recv s) (s_cons s) true (s_cprod s) (s_closing s) (s_lost s),
         (if s_cprod s then [EProdPause cur] else []) ++ (if s_handling s then [] else [ENetPause]))
    | TResume =>
        if s_lost s then (s, []) else
        let cur := pred (length (s_rq s)) in
        (mkSt (s_rq s) (s_handling s) (s_inchan s) (s_recv s) (s_cons s) false (s_cprod s) (s_closing s) (s_lost s),
         (* repaired (fixes/C21-resume-reading-after-transport-resume.patch): reading is resumed also while a request is
            handled, unless the eager-read limit holds it back - it may still be paused from an earlier request *)
         (if s_cprod s then [EProdResume cur] else []) ++
         (if s_handling s && (eager <? s_recv s - s_cons s)%N then [] else [ENetResume]))
    | Lose => lose0 s
    | App i a =>
        match app_simple i a s with
        | Some r => r
        | None =>
            (* finish outside process(): requestDone replays the buffered data before the Deferreds fire *)
            match nth_error (s_rq s) i with
            | None => (s, [])
            | Some r => let (s1, e1) := finish_core i r s in
                        let (s2, e2) := drain (remaining s1) s1 in
                        let (s3, e3) := fire i true s2 in (s3, e1 ++ e2 ++ e3)
            end
        end
    end.

  (** the log, one event list per operation *)
  Fixpoint run (s : st) (ops : list op) : st * list (list ev) :=
    match ops with
    | [] => (s, [])
    | o :: r => let (s1, e) := step s o in
                let (s2, es) := run s1 r in (s2, e :: es)
    end.
  (** ---------- the idle timeout (policies.TimeoutMixin as HTTPChannel uses it) ---------- *)
  Variable tmo : option N.     (* HTTPChannel.timeOut (seconds); None = no idle timeout *)
  Variable abt : option N.     (* HTTPChannel.abortTimeout *)

  Record tst := mkT {
    t_st : st;
    t_now : N;                 (* the clock *)
    t_dl : option N;           (* when the pending idle-timeout call fires *)
    t_ab : option N }.         (* when the pending forceAbortClient call fires *)

  Inductive top := Op (o : op) | Tick (dt : N).     (* an operation, or the clock advancing by dt *)

  Definition due (d : option N) (now : N) : bool := match d with Some x => (x <=? now)%N | None => false end.
  Definition after (now : N) (d : option N) : option N := match d with Some x => Some (now + x)%N | None => None end.

  Definition tst0 : tst := mkT st0 0 (after 0 tmo) None.      (* connectionMade: setTimeout(timeOut) *)

  Definition is_data (o : op) : bool := match o with Data _ => true | _ => false end.

  Definition tstep (t : tst) (o : top) : tst * list ev :=
    let s := t_st t in
    match o with
    | Tick dt =>
        let now := (t_now t + dt)%N in
        if s_lost s then (mkT s now None None, [])
        else if due (t_dl t) now then
          (* timeoutConnection: schedule forceAbortClient, then loseConnection() *)
          let (s1, e1) := if sync then lose0 (mark_closing s) else (mark_closing s, []) in
          (mkT s1 now None (if s_lost s1 then None else after now abt), EClose :: e1)
        else if due (t_ab t) now then
          (* forceAbortClient: transport.abortConnection() *)
          let (s1, e1) := if sync then lose0 (mark_closing s) else (mark_closing s, []) in
          (mkT s1 now None None, EAbort :: e1)
        else (mkT s now (t_dl t) (t_ab t), [])
    | Op o =>
        let (s1, e1) := step s o in
        (* the idle timeout is disabled while a request is handled (allContentReceived: setTimeout(None)), re-armed by
           requestDone on a persistent connection, reset by every dataReceived while it is armed, and cancelled by
           connectionLost *)
        let dl := if s_handling s1 || s_lost s1 || s_closing s1 then None
                  else if (is_data o && negb (s_lost s || s_closing s) && negb (s_handling s))
                          || (s_handling s && negb (s_handling s1)) then after (t_now t) tmo
                  else t_dl t in
        (mkT s1 (t_now t) dl (if s_lost s1 then None else t_ab t), e1)
    end.

  (** ---------- the peer behind a socket ----------
      A TCP transport delivers what the peer sends - bytes, and its close - only while it is reading; while the channel
      has paused it (transport.pauseProducing()) bytes wait in the kernel and the close is not noticed.  [Op (Data n)]
      and [Op Lose] are what the PEER does; [sstep] delivers them when the transport reads, at the latest right after
      the operation that makes it read again. *)
  Record sst := mkK {
    k_t : tst;
    k_paused : bool;           (* transport.pauseProducing() is in effect *)
    k_queued : N;              (* bytes the peer sent that were not read yet *)
    k_peerclosed : bool }.     (* the peer closed; the close may not have been noticed yet *)

  Definition sst0 : sst := mkK tst0 false 0 false.

  (** after an operation produced [evs]: if the transport reads again, the waiting bytes and then the close arrive *)
  Definition settle (k : sst) (t1 : tst) (evs : list ev) (peerclosed : bool) : sst * list ev :=
    let p := net_paused (k_paused k) evs in
    let '(t2, e2, q2, p2) :=
      if negb p && (0 <? k_queued k)%N
      then let (t2, e2) := tstep t1 (Op (Data (k_queued k))) in (t2, e2, 0%N, net_paused p e2)
      else (t1, [], k_queued k, p) in
    let (t3, e3) :=
      if negb p2 && peerclosed && negb (s_lost (t_st t2)) then tstep t2 (Op Lose) else (t2, []) in
    (mkK t3 (net_paused p2 e3) q2 peerclosed, evs ++ e2 ++ e3).

  Definition sstep (k : sst) (o : top) : sst * list ev :=
    match o with
    | Op (Data n) =>
        if k_paused k
        then (if s_lost (t_st (k_t k)) || s_closing (t_st (k_t k)) then (k, [])
              else (mkK (k_t k) true (k_queued k + n) (k_peerclosed k), []))
        else let (t1, e1) := tstep (k_t k) o in settle k t1 e1 (k_peerclosed k)
    | Op Lose =>
        if k_paused k
        then (mkK (k_t k) true (k_queued k) true, [])
        else let (t1, e1) := tstep (k_t k) o in settle k t1 e1 true
    | _ => let (t1, e1) := tstep (k_t k) o in settle k t1 e1 (k_peerclosed k)
    end.

  Fixpoint srun (k : sst) (ops : list top) : sst * list (list ev) :=
    match ops with
    | [] => (k, [])
    | o :: r => let (k1, e) := sstep k o in
                let (k2, es) := srun k1 r in (k2, e :: es)
    end.

  Fixpoint trun (t : tst) (ops : list top) : tst * list (list ev) :=
    match ops with
    | [] => (t, [])
    | o :: r => let (t1, e) := tstep t o in
                let (t2, es) := trun t1 r in (t2, e :: es)
    end.
End WithStream.

(** ========================================================================================== *)
(** Spec: the protocol the property describes, as an acceptor of event logs (it knows nothing about the channel's
    buffers or flags).  One request at a time is "open" (in the application); the next may only be handed over
    when none is open; bytes go to the wire only for the open request, head first, then its writes in order, the
    terminator last; a request that lost its connection stays open (nothing follows it) and writes nothing;
    a Deferred can only fire if it was handed out and has not fired, with None only for a finished response and
    with a failure only for a request that lost its connection; and at the end of every operation no Deferred of a
    completed request is still waiting. *)

Record mreq := mkM { x_fin : bool; x_lost : bool; x_ndef : nat; x_pend : list nat }.

Record mon := mkMon {
  m_rq : list mreq;          (* one entry per request handed over so far *)
  m_open : option nat;       (* the request in the application *)
  m_head : bool;             (* its head is on the wire *)
  m_dead : bool;             (* it lost its connection *)
  m_nw : nat;                (* its body writes so far *)
  m_paused : bool;           (* reading from the transport is paused *)
  m_gone : bool }.           (* the connection is gone *)

Definition mon0 : mon := mkMon [] None false false 0 false false.

Fixpoint remove_first (d : nat) (l : list nat) : list nat :=
  match l with
  | [] => []
  | x :: r => if Nat.eqb d x then r else x :: remove_first d r
  end.

Definition is_open (m : mon) (i : nat) : bool :=
  match m_open m with Some j => Nat.eqb i j | None => false end.

Definition with_rq (m : mon) (l : list mreq) : mon :=
  mkMon l (m_open m) (m_head m) (m_dead m) (m_nw m) (m_paused m) (m_gone m).

Definition mon_step (m : mon) (e : ev) : option mon :=
  match e with
  | EProcess i =>
      match m_open m with
      | None => if Nat.eqb i (length (m_rq m)) && negb (m_gone m)
                then Some (mkMon (m_rq m ++ [mkM false false 0 []]) (Some i) false false 0 (m_paused m) (m_gone m))
                else None
      | Some _ => None
      end
  | EHead i =>
      if is_open m i && negb (m_head m) && negb (m_dead m)
      then Some (mkMon (m_rq m) (m_open m) true (m_dead m) (m_nw m) (m_paused m) (m_gone m)) else None
  | EWrite i j =>
      if is_open m i && m_head m && negb (m_dead m) && Nat.eqb j (m_nw m)
      then Some (mkMon (m_rq m) (m_open m) (m_head m) (m_dead m) (S (m_nw m)) (m_paused m) (m_gone m)) else None
  | EEnd i =>
      match nth_error (m_rq m) i with
      | Some x => if is_open m i && m_head m && negb (m_dead m)
                  then Some (mkMon (upd (m_rq m) i (mkM true (x_lost x) (x_ndef x) (x_pend x))) None false false 0
                                   (m_paused m) (m_gone m))
                  else None
      | None => None
      end
  | EGone => if m_gone m then None
             else Some (mkMon (m_rq m) (m_open m) (m_head m) (m_dead m) (m_nw m) (m_paused m) true)
  | ELost i =>
      match nth_error (m_rq m) i with
      | Some x => if is_open m i && negb (m_dead m) && m_gone m
                  then Some (mkMon (upd (m_rq m) i (mkM (x_fin x) true (x_ndef x) (x_pend x))) (m_open m) (m_head m) true
                                   (m_nw m) (m_paused m) (m_gone m))
                  else None
      | None => None
      end
  | ENotify i d =>
      match nth_error (m_rq m) i with
      | Some x => if Nat.eqb d (x_ndef x)
                  then Some (with_rq m (upd (m_rq m) i (mkM (x_fin x) (x_lost x) (S (x_ndef x)) (x_pend x ++ [d]))))
                  else None
      | None => None
      end
  | EFired i d ok =>
      match nth_error (m_rq m) i with
      | Some x => if existsb (Nat.eqb d) (x_pend x) && (if ok then x_fin x else x_lost x)
                  then Some (with_rq m (upd (m_rq m) i (mkM (x_fin x) (x_lost x) (x_ndef x) (remove_first d (x_pend x)))))
                  else None
      | None => None
      end
  | ENetPause => Some (mkMon (m_rq m) (m_open m) (m_head m) (m_dead m) (m_nw m) true (m_gone m))
  | ENetResume => Some (mkMon (m_rq m) (m_open m) (m_head m) (m_dead m) (m_nw m) false (m_gone m))
  | EProdPause _ | EProdResume _ | EClose | EAbort | ERaise => Some m
  end.

Fixpoint mon_run (m : mon) (l : list ev) : option mon :=
  match l with
  | [] => Some m
  | e :: r => match mon_step m e with Some m1 => mon_run m1 r | None => None end
  end.

(** nothing that should have fired is still waiting *)
Definition quiescent (m : mon) : bool :=
  forallb (fun x => if x_fin x || x_lost x then match x_pend x with [] => true | _ => false end else true) (m_rq m).

(** a whole history: the events of each operation in turn, quiescent after each *)
Fixpoint mon_ops (m : mon) (logs : list (list ev)) : option mon :=
  match logs with
  | [] => Some m
  | l :: r => match mon_run m l with
              | Some m1 => if quiescent m1 then mon_ops m1 r else None
              | None => None
              end
  end.

(** Request.notifyFinish as it is at the pinned commit: the Deferred is queued whatever the state of the request *)
Definition notify_unrepaired (i : nat) (r : rq) : rq * list ev :=
  (mkRq (r_started r) (r_finished r) (r_disc r) (r_pending r ++ [(r_ndef r, [])]) (S (r_ndef r)) (r_nw r) (r_prod r),
   [ENotify i (r_ndef r)]).
