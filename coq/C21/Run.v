(** C21: printers used by the correspondence check only. *)
From Coq Require Import List NArith Bool String.
From TwLib Require Import Show.
From C21 Require Import Model.
Import ListNotations.
Local Open Scope string_scope.

Definition show_ev (e : ev) : string :=
  match e with
  | EProcess i => "P" ++ show_nat i
  | EHead i => "H" ++ show_nat i
  | EWrite i j => "W" ++ show_nat i ++ "." ++ show_nat j
  | EEnd i => "E" ++ show_nat i
  | ENotify i d => "D" ++ show_nat i ++ "." ++ show_nat d
  | EFired i d ok => "F" ++ show_nat i ++ "." ++ show_nat d ++ (if ok then "+" else "-")
  | ELost i => "L" ++ show_nat i
  | EGone => "G"
  | ENetPause => "NP"
  | ENetResume => "NR"
  | EProdPause i => "PP" ++ show_nat i
  | EProdResume i => "PR" ++ show_nat i
  | EClose => "CL"
  | EAbort => "AB"
  | ERaise => "X"
  end.

Definition show_op_log (l : list ev) : string :=
  match l with [] => "-" | _ => String.concat "," (map show_ev l) end.

(** case = (eager read limit, synchronous-loss transport?, timeOut, abortTimeout, request stream, history) *)
Definition run_show (c : N * bool * option N * option N * list reqspec * list top) : string :=
  let '(eager, sync, tmo, abt, reqs, ops) := c in
  let '(k, log) := srun eager sync reqs tmo abt (sst0 tmo) ops in
  String.concat " " (map show_op_log log) ++ " |" ++ show_bool (s_closing (t_st (k_t k))).
