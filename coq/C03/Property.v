(** C03 property theorems.  Every statement is for ALL programs: any number of Deferreds with any canceller
    behaviours, any history of addCallbacks (with any callback behaviours, including callbacks returning other
    Deferreds) / callback / errback / pause / unpause / cancel, of any length.  [fx] ranges over both the
    repaired and the pinned callback loop.  [ctl d log] is the projection of the run's event log onto Deferred d. *)
From Coq Require Import List Arith ZArith Bool.
From TwLib Require Import DeferredK DeferredKFacts.
From C03 Require Import Model Proofs.
Import ListNotations.

(** The control events of every Deferred, over every history, form a word of the protocol automaton
    [Model.proto_step] started in "unfired", and the automaton ends in the state the Deferred record is in:
    a result is accepted only while unfired; AlreadyCalledError only when fired; a swallowed result only right
    after a canceller-less cancel; the canceller is invoked only while unfired and is followed at once by the
    firing it causes (its own callback/errback value, or CancelledError if it did nothing) or by its exception. *)
Theorem protocol_conformance : forall fx cs ops d c,
  nth_error cs d = Some c ->
  let r := run_program fx (cs, ops) in
  exists D st, get (heap_of (fst r)) d = Some D /\ canc D = c /\ pstate D = Some st
               /\ proto_run c PU (ctl d (concat (snd r))) = Some st.
Proof. exact conformance. Qed.
Print Assumptions protocol_conformance.

(** exactly one result: at most one acceptance in any history, and [called] says whether it happened *)
Theorem fire_exactly_once : forall fx cs ops d c,
  nth_error cs d = Some c ->
  let r := run_program fx (cs, ops) in
  let w := ctl d (concat (snd r)) in
  exists D, get (heap_of (fst r)) d = Some D
            /\ cnt is_cfired w = (if called D then 1 else 0) /\ cnt is_cfired w <= 1.
Proof. exact fired_once. Qed.
Print Assumptions fire_exactly_once.

(** every callback()/errback() call on d is answered by exactly one of: accepted (at most once, above),
    AlreadyCalledError, or silently swallowed; at most one is ever swallowed, and only on a Deferred without a
    canceller whose result was the CancelledError stored by cancel() *)
Theorem late_results_raise_except_one_swallowed : forall fx cs ops d c,
  nth_error cs d = Some c ->
  let r := run_program fx (cs, ops) in
  let w := ctl d (concat (snd r)) in
  cnt (is_attempt d) ops = cnt is_canswer w
  /\ cnt is_cswallow w <= 1
  /\ (cnt is_cswallow w = 1 -> c = CNone /\ 1 <= cnt is_cancel_fire w).
Proof. exact answers. Qed.
Print Assumptions late_results_raise_except_one_swallowed.

(** the canceller runs at most once, except that a canceller which raises leaves the Deferred unfired and may
    run again on the next cancel(); never when there is no canceller *)
Theorem canceller_called_once : forall fx cs ops d c,
  nth_error cs d = Some c ->
  let r := run_program fx (cs, ops) in
  let w := ctl d (concat (snd r)) in
  cnt is_ccanceller w <= 1 + cnt is_ccancraise w
  /\ ((forall e, c <> CRaise e) -> cnt is_ccanceller w <= 1 /\ cnt is_ccancraise w = 0)
  /\ (c = CNone -> cnt is_ccanceller w = 0).
Proof. exact canceller_once. Qed.
Print Assumptions canceller_called_once.

(** cancel() of an unfired Deferred, in any heap: the canceller (if any) is invoked once, then the Deferred
    accepts the canceller's own result, or Failure(CancelledError) if the canceller did not fire it (or there is
    none, in which case one late result will be swallowed); afterwards it is fired *)
Theorem cancel_unfired_yields_CancelledError_unless_fired : forall fx fuel h t T pre v s sup,
  get h t = Some T -> called T = false -> cancel_plan (canc T) t = Some (pre, v, s, sup) ->
  exists h' l T', cancel fx (S fuel) h t = (h', pre ++ EFired t v s :: l) /\ only_runs l
                  /\ get h' t = Some T' /\ called T' = true /\ canc T' = canc T
                  /\ suppress T' = (if sup then true else suppress T).
Proof.
  intros fx fuel h t T pre v s sup HT HC HP. rewrite (cancel_unfired_eq fx fuel h t T HT HC).
  exact (cancel_unfired_fires fx h t T pre v s sup HT HC HP).
Qed.
Print Assumptions cancel_unfired_yields_CancelledError_unless_fired.

(** ... unless the canceller raises: the exception leaves cancel() and nothing else changes *)
Theorem cancel_unfired_canceller_raises : forall fx fuel h t T e,
  get h t = Some T -> called T = false -> canc T = CRaise e ->
  cancel fx (S fuel) h t = (h, [ECanceller t; ECancRaise t e]).
Proof.
  intros fx fuel h t T e HT HC EC. rewrite (cancel_unfired_eq fx fuel h t T HT HC).
  exact (cancel_raises fx h t T e EC).
Qed.
Print Assumptions cancel_unfired_canceller_raises.

(** cancel() of a fired Deferred: forwarded to the Deferred it is waiting on, otherwise no effect at all *)
Theorem cancel_fired_forwards_or_noop : forall fx fuel h d D,
  get h d = Some D -> called D = true ->
  cancel fx (S fuel) h d = match res D with Some (VDef r) => cancel fx fuel h r | _ => (h, []) end.
Proof. exact cancel_fired_eq. Qed.
Print Assumptions cancel_fired_forwards_or_noop.

(** the callback loop always terminates: [runCallbacks] (fuel = [measure]) never runs out of fuel *)
Theorem callback_loop_terminates : forall fx h d,
  iter fx (measure h [d]) h [d] = Some (runCallbacks fx h d).
Proof. exact runCallbacks_iter. Qed.
Print Assumptions callback_loop_terminates.
