(** C03 proofs: every history of kernel operations conforms, per Deferred, to the protocol automaton. *)
From Coq Require Import List Arith ZArith Bool Lia.
From TwLib Require Import DeferredK DeferredKFacts.
From C03 Require Import Model.
Import ListNotations.

(** ---- the projection ---- *)
Lemma ctl_app d l1 l2 : ctl d (l1 ++ l2) = ctl d l1 ++ ctl d l2.
Proof. unfold ctl. apply flat_map_app. Qed.

Lemma ctl_only_runs d l : only_runs l -> ctl d l = [].
Proof.
  induction 1 as [|e l He _ IH]; [reflexivity|]. unfold ctl in *. cbn [flat_map]. rewrite IH.
  destruct e; cbn in He; try contradiction. reflexivity.
Qed.

Lemma proto_run_app c w1 : forall st w2,
  proto_run c st (w1 ++ w2) = match proto_run c st w1 with Some st' => proto_run c st' w2 | None => None end.
Proof.
  induction w1 as [|e r IH]; intros st w2; cbn; [reflexivity|].
  destruct (proto_step c st e); [apply IH|reflexivity].
Qed.

Lemma pstate_static D D' : static D' = static D -> pstate D' = pstate D /\ canc D' = canc D.
Proof. unfold static, pstate. intros E. inversion E as [[E1 E2 E3]]. rewrite E1, E2. auto. Qed.

(** ---- conformance of one stretch of events between two heaps ---- *)
Definition conf (h h' : heap) (l : list ev) : Prop :=
  forall d D st, get h d = Some D -> pstate D = Some st ->
    exists D' st', get h' d = Some D' /\ canc D' = canc D /\ pstate D' = Some st'
                   /\ proto_run (canc D) st (ctl d l) = Some st'.

Lemma conf_frame h h' l : sframe h h' -> only_runs l -> conf h h' l.
Proof.
  intros F R d D st HD HS. destruct (sframe_get _ _ _ _ F HD) as [D' [HD' ES]].
  destruct (pstate_static _ _ ES) as [EP EC]. exists D', st.
  rewrite (ctl_only_runs _ _ R). cbn. rewrite EP. auto.
Qed.

Lemma conf_trans h1 h2 h3 l1 l2 : conf h1 h2 l1 -> conf h2 h3 l2 -> conf h1 h3 (l1 ++ l2).
Proof.
  intros A B d D st HD HS.
  destruct (A d D st HD HS) as [D2 [st2 [HD2 [EC2 [HS2 R2]]]]].
  destruct (B d D2 st2 HD2 HS2) as [D3 [st3 [HD3 [EC3 [HS3 R3]]]]].
  exists D3, st3. repeat split; auto; try congruence.
  rewrite ctl_app, proto_run_app, R2. rewrite <- EC2. exact R3.
Qed.

(** an operation that concerns one Deferred [t] only *)
Lemma conf_target h h' t T l w st' :
  get h t = Some T ->
  (forall d D, d <> t -> get h d = Some D -> exists D', get h' d = Some D' /\ static D' = static D) ->
  (exists T', get h' t = Some T' /\ canc T' = canc T /\ pstate T' = Some st') ->
  (forall d, d <> t -> ctl d l = []) -> ctl t l = w ->
  (forall st, pstate T = Some st -> proto_run (canc T) st w = Some st') ->
  conf h h' l.
Proof.
  intros HT Hoth [T' [HT' [EC HP']]] Hctl Hw Hrun d D st HD HS.
  destruct (Nat.eq_dec d t) as [->|Hne].
  - rewrite HT in HD. inversion HD; subst D. exists T', st'. rewrite Hw. auto.
  - destruct (Hoth d D Hne HD) as [D' [HD' ES]]. destruct (pstate_static _ _ ES) as [EP EC'].
    exists D', st. rewrite (Hctl d Hne). cbn. rewrite EP. auto.
Qed.

Lemma others_upd h t f : forall d D, d <> t -> get h d = Some D ->
  exists D', get (upd h t f) d = Some D' /\ static D' = static D.
Proof. intros d D Hne HD. exists D. rewrite get_upd_other by congruence. auto. Qed.

Lemma others_sframe h1 h2 (P : nat -> Prop) :
  (forall d D, P d -> get h1 d = Some D -> exists D', get h2 d = Some D' /\ static D' = static D) ->
  forall h0 h3, (forall d D, P d -> get h0 d = Some D -> exists D', get h1 d = Some D' /\ static D' = static D) ->
  sframe h2 h3 ->
  forall d D, P d -> get h0 d = Some D -> exists D', get h3 d = Some D' /\ static D' = static D.
Proof.
  intros A h0 h3 B F d D Pd HD.
  destruct (B d D Pd HD) as [D1 [H1 E1]]. destruct (A d D1 Pd H1) as [D2 [H2 E2]].
  destruct (sframe_get _ _ _ _ F H2) as [D3 [H3 E3]]. exists D3. split; [exact H3|congruence].
Qed.

(** ---- firing an unfired Deferred ---- *)
Lemma fire_uncalled fx h t T v s :
  get h t = Some T -> called T = false ->
  fire fx h t v s =
  (let '(h2, l) := runCallbacks fx (upd h t (fun D => set_res (Some v) (set_called true D))) t in
   (h2, EFired t v s :: l)).
Proof. intros HT HC. unfold fire. rewrite HT, HC. reflexivity. Qed.

(** heap after "mark called, store the result, run the callbacks" *)
Lemma fired_heap fx h t T v h2 l :
  get h t = Some T ->
  runCallbacks fx (upd h t (fun D => set_res (Some v) (set_called true D))) t = (h2, l) ->
  only_runs l
  /\ (forall d D, d <> t -> get h d = Some D -> exists D', get h2 d = Some D' /\ static D' = static D)
  /\ (exists T', get h2 t = Some T' /\ static T' = (true, suppress T, canc T)).
Proof.
  intros HT HR. destruct (runCallbacks_frame _ _ _ _ _ HR) as [F R]. split; [exact R|]. split.
  - intros d D Hne HD.
    assert (H1 : get (upd h t (fun D => set_res (Some v) (set_called true D))) d = Some D)
      by (rewrite get_upd_other by congruence; exact HD).
    apply (sframe_get _ _ _ _ F H1).
  - assert (H1 : get (upd h t (fun D => set_res (Some v) (set_called true D))) t
                 = Some (set_res (Some v) (set_called true T))) by (rewrite get_upd_same, HT; reflexivity).
    destruct (sframe_get _ _ _ _ F H1) as [T' [HT' ES]]. exists T'. split; [exact HT'|]. rewrite ES. reflexivity.
Qed.

Ltac ctl_simpl :=
  cbn [ctl flat_map ctl_of app];
  repeat first [ rewrite Nat.eqb_refl
               | match goal with H : ?a <> ?b |- context [Nat.eqb ?b ?a] =>
                   rewrite (proj2 (Nat.eqb_neq b a)) by congruence end
               | match goal with H : ?a <> ?b |- context [Nat.eqb ?a ?b] =>
                   rewrite (proj2 (Nat.eqb_neq a b)) by congruence end ];
  cbn [app].

Lemma ctl_fired_cons d t v s l : only_runs l ->
  ctl d (EFired t v s :: l) = if Nat.eqb t d then [CFired v s] else [].
Proof.
  intros R. change (EFired t v s :: l) with ([EFired t v s] ++ l). rewrite ctl_app, (ctl_only_runs _ _ R).
  cbn. destruct (Nat.eqb t d); reflexivity.
Qed.

Lemma value_eqb_refl v : value_eqb v v = true.
Proof. destruct v; cbn; auto using Z.eqb_refl, Nat.eqb_refl. Qed.

Lemma fire_conf fx h t v h' l : fire fx h t v ByUser = (h', l) -> conf h h' l.
Proof.
  unfold fire. destruct (get h t) as [T|] eqn:HT.
  2:{ intros E; inversion E; subst. apply conf_frame; [apply sframe_refl|constructor]. }
  destruct (called T) eqn:HC; [destruct (suppress T) eqn:HS|].
  - intros E; inversion E; subst.
    eapply (conf_target h _ t T _ [CSwallow] PF HT).
    + apply others_upd.
    + exists (set_suppress false T). rewrite get_upd_same, HT. cbn. unfold pstate. cbn. rewrite HC. auto.
    + intros d Hne. ctl_simpl. reflexivity.
    + ctl_simpl. reflexivity.
    + unfold pstate. rewrite HC, HS. intros st E1; inversion E1; subst. reflexivity.
  - intros E; inversion E; subst.
    eapply (conf_target h' _ t T _ [CAlready] PF HT).
    + intros d D _ HD. eauto.
    + exists T. unfold pstate. rewrite HC, HS. auto.
    + intros d Hne. ctl_simpl. reflexivity.
    + ctl_simpl. reflexivity.
    + unfold pstate. rewrite HC, HS. intros st E1; inversion E1; subst. reflexivity.
  - destruct (runCallbacks fx _ t) as [h2 l2] eqn:HR. intros E; inversion E; subst.
    destruct (fired_heap _ _ _ _ _ _ _ HT HR) as [R [Hoth [T' [HT' ES]]]].
    destruct (suppress T) eqn:HS.
    + (* not a protocol state: nothing to show for t itself *)
      intros d D st HD HP. destruct (Nat.eq_dec d t) as [->|Hne].
      * rewrite HT in HD. inversion HD; subst D. unfold pstate in HP. rewrite HC, HS in HP. discriminate.
      * destruct (Hoth d D Hne HD) as [D' [HD' ESd]]. destruct (pstate_static _ _ ESd) as [EP EC'].
        exists D', st. rewrite (ctl_fired_cons _ _ _ _ _ R), (proj2 (Nat.eqb_neq t d)) by congruence.
        cbn. rewrite EP. auto.
    + eapply (conf_target h h' t T _ [CFired v ByUser] PF HT Hoth).
      * exists T'. destruct (pstate_static (set_called true T) T') as [EP EC]; [rewrite ES; unfold static; cbn; rewrite ?HS; reflexivity|].
        rewrite EP, EC. unfold pstate. cbn. rewrite HS. auto.
      * intros d Hne. rewrite (ctl_fired_cons _ _ _ _ _ R), (proj2 (Nat.eqb_neq t d)) by congruence. reflexivity.
      * rewrite (ctl_fired_cons _ _ _ _ _ R), Nat.eqb_refl. reflexivity.
      * unfold pstate. rewrite HC, HS. intros st E1; inversion E1; subst. reflexivity.
Qed.

(** ---- cancel ---- *)
Lemma cancel_factor fx fuel : forall h d,
  cancel fx fuel h d =
  match cancel_walk fuel h d with
  | WNoop => (h, [])
  | WRecursion x => (h, [ERecursion x])
  | WTarget t T => cancel_unfired fx h t T
  end.
Proof.
  induction fuel as [|f IH]; intros h d; cbn [cancel cancel_walk]; [reflexivity|].
  destruct (get h d) as [D|] eqn:HD; [|reflexivity].
  destruct (called D) eqn:HC.
  - destruct (res D) as [[| | |r]|]; try reflexivity. apply IH.
  - unfold cancel_unfired. destruct (canc D) eqn:EC; cbn [cancel_plan].
    + assert (H1 : get (upd h d (set_suppress true)) d = Some (set_suppress true D))
        by (rewrite get_upd_same, HD; reflexivity).
      rewrite (fire_uncalled _ _ _ _ _ _ H1) by (cbn; exact HC).
      destruct (runCallbacks fx _ d); reflexivity.
    + rewrite (fire_uncalled _ _ _ _ _ _ HD HC). destruct (runCallbacks fx _ d); reflexivity.
    + rewrite (fire_uncalled _ _ _ _ _ _ HD HC). destruct (runCallbacks fx _ d); reflexivity.
    + rewrite (fire_uncalled _ _ _ _ _ _ HD HC). destruct (runCallbacks fx _ d); reflexivity.
    + reflexivity.
Qed.

Lemma cancel_walk_target fuel : forall h d t T,
  cancel_walk fuel h d = WTarget t T -> get h t = Some T /\ called T = false.
Proof.
  induction fuel as [|f IH]; intros h d t T; cbn [cancel_walk]; [discriminate|].
  destruct (get h d) as [D|] eqn:HD; [|discriminate].
  destruct (called D) eqn:HC.
  - destruct (res D) as [[| | |r]|]; try discriminate. apply IH.
  - intros E; inversion E; subst. auto.
Qed.

Lemma cancel_unfired_conf fx h t T h' l :
  get h t = Some T -> called T = false -> cancel_unfired fx h t T = (h', l) -> conf h h' l.
Proof.
  intros HT HC. unfold cancel_unfired.
  destruct (canc T) eqn:EC; cbn [cancel_plan].
  - (* no canceller *)
    assert (H1 : get (upd h t (set_suppress true)) t = Some (set_suppress true T))
      by (rewrite get_upd_same, HT; reflexivity).
    destruct (runCallbacks fx _ t) as [h2 l2] eqn:HR. intros E; inversion E; subst.
    destruct (fired_heap _ _ _ _ _ _ _ H1 HR) as [R [Hoth [T' [HT' ES]]]].
    eapply (conf_target h h' t T _ [CCancelNone; CFired (VFail cancelled_error) ByCancel] PFS HT).
    + intros d D Hne HD. apply (Hoth d D Hne). rewrite get_upd_other by congruence. exact HD.
    + exists T'. destruct (pstate_static (set_suppress true (set_called true T)) T') as [EP EC']; [rewrite ES; unfold static; cbn; rewrite ?HS; reflexivity|]. rewrite EP, EC'. unfold pstate. cbn. auto.
    + intros d Hne. change (?a :: EFired t ?v ?s :: l2) with ([a] ++ EFired t v s :: l2).
      rewrite ctl_app, (ctl_fired_cons _ _ _ _ _ R), (proj2 (Nat.eqb_neq t d)) by congruence.
      ctl_simpl. reflexivity.
    + change (?a :: EFired t ?v ?s :: l2) with ([a] ++ EFired t v s :: l2).
      rewrite ctl_app, (ctl_fired_cons _ _ _ _ _ R), Nat.eqb_refl. ctl_simpl. reflexivity.
    + unfold pstate. rewrite HC. destruct (suppress T); intros st E1; inversion E1; subst.
      cbn. rewrite EC. reflexivity.
  - (* canceller that does not fire *)
    destruct (runCallbacks fx _ t) as [h2 l2] eqn:HR. intros E; inversion E; subst.
    destruct (fired_heap _ _ _ _ _ _ _ HT HR) as [R [Hoth [T' [HT' ES]]]].
    destruct (suppress T) eqn:HS.
    { intros d D st HD HP. destruct (Nat.eq_dec d t) as [->|Hne].
      - rewrite HT in HD. inversion HD; subst D. unfold pstate in HP. rewrite HC, HS in HP. discriminate.
      - destruct (Hoth d D Hne HD) as [D' [HD' ESd]]. destruct (pstate_static _ _ ESd) as [EP EC'].
        exists D', st. change (?a :: EFired t ?v ?s :: l2) with ([a] ++ EFired t v s :: l2).
        rewrite ctl_app, (ctl_fired_cons _ _ _ _ _ R), (proj2 (Nat.eqb_neq t d)) by congruence.
        ctl_simpl. cbn. rewrite EP. auto. }
    eapply (conf_target h h' t T _ [CCanceller; CFired (VFail cancelled_error) ByCancel] PF HT Hoth).
    + exists T'. destruct (pstate_static (set_called true T) T') as [EP EC']; [rewrite ES; unfold static; cbn; rewrite ?HS; reflexivity|]. rewrite EP, EC'. unfold pstate. cbn. rewrite HS. auto.
    + intros d Hne. change (?a :: EFired t ?v ?s :: l2) with ([a] ++ EFired t v s :: l2).
      rewrite ctl_app, (ctl_fired_cons _ _ _ _ _ R), (proj2 (Nat.eqb_neq t d)) by congruence.
      ctl_simpl. reflexivity.
    + change (?a :: EFired t ?v ?s :: l2) with ([a] ++ EFired t v s :: l2).
      rewrite ctl_app, (ctl_fired_cons _ _ _ _ _ R), Nat.eqb_refl. ctl_simpl. reflexivity.
    + unfold pstate. rewrite HC, HS. intros st E1; inversion E1; subst. cbn. rewrite EC. reflexivity.
  - (* canceller that calls callback(z) *)
    destruct (runCallbacks fx _ t) as [h2 l2] eqn:HR. intros E; inversion E; subst.
    destruct (fired_heap _ _ _ _ _ _ _ HT HR) as [R [Hoth [T' [HT' ES]]]].
    destruct (suppress T) eqn:HS.
    { intros d D st HD HP. destruct (Nat.eq_dec d t) as [->|Hne].
      - rewrite HT in HD. inversion HD; subst D. unfold pstate in HP. rewrite HC, HS in HP. discriminate.
      - destruct (Hoth d D Hne HD) as [D' [HD' ESd]]. destruct (pstate_static _ _ ESd) as [EP EC'].
        exists D', st. change (?a :: EFired t ?v ?s :: l2) with ([a] ++ EFired t v s :: l2).
        rewrite ctl_app, (ctl_fired_cons _ _ _ _ _ R), (proj2 (Nat.eqb_neq t d)) by congruence.
        ctl_simpl. cbn. rewrite EP. auto. }
    eapply (conf_target h h' t T _ [CCanceller; CFired (VInt z) ByCanceller] PF HT Hoth).
    + exists T'. destruct (pstate_static (set_called true T) T') as [EP EC']; [rewrite ES; unfold static; cbn; rewrite ?HS; reflexivity|]. rewrite EP, EC'. unfold pstate. cbn. rewrite HS. auto.
    + intros d Hne. change (?a :: EFired t ?v ?s :: l2) with ([a] ++ EFired t v s :: l2).
      rewrite ctl_app, (ctl_fired_cons _ _ _ _ _ R), (proj2 (Nat.eqb_neq t d)) by congruence.
      ctl_simpl. reflexivity.
    + change (?a :: EFired t ?v ?s :: l2) with ([a] ++ EFired t v s :: l2).
      rewrite ctl_app, (ctl_fired_cons _ _ _ _ _ R), Nat.eqb_refl. ctl_simpl. reflexivity.
    + unfold pstate. rewrite HC, HS. intros st E1; inversion E1; subst. cbn. rewrite EC.
      cbn. rewrite Z.eqb_refl. reflexivity.
  - (* canceller that calls errback(e) *)
    destruct (runCallbacks fx _ t) as [h2 l2] eqn:HR. intros E; inversion E; subst.
    destruct (fired_heap _ _ _ _ _ _ _ HT HR) as [R [Hoth [T' [HT' ES]]]].
    destruct (suppress T) eqn:HS.
    { intros d D st HD HP. destruct (Nat.eq_dec d t) as [->|Hne].
      - rewrite HT in HD. inversion HD; subst D. unfold pstate in HP. rewrite HC, HS in HP. discriminate.
      - destruct (Hoth d D Hne HD) as [D' [HD' ESd]]. destruct (pstate_static _ _ ESd) as [EP EC'].
        exists D', st. change (?a :: EFired t ?v ?s :: l2) with ([a] ++ EFired t v s :: l2).
        rewrite ctl_app, (ctl_fired_cons _ _ _ _ _ R), (proj2 (Nat.eqb_neq t d)) by congruence.
        ctl_simpl. cbn. rewrite EP. auto. }
    eapply (conf_target h h' t T _ [CCanceller; CFired (VFail e) ByCanceller] PF HT Hoth).
    + exists T'. destruct (pstate_static (set_called true T) T') as [EP EC']; [rewrite ES; unfold static; cbn; rewrite ?HS; reflexivity|]. rewrite EP, EC'. unfold pstate. cbn. rewrite HS. auto.
    + intros d Hne. change (?a :: EFired t ?v ?s :: l2) with ([a] ++ EFired t v s :: l2).
      rewrite ctl_app, (ctl_fired_cons _ _ _ _ _ R), (proj2 (Nat.eqb_neq t d)) by congruence.
      ctl_simpl. reflexivity.
    + change (?a :: EFired t ?v ?s :: l2) with ([a] ++ EFired t v s :: l2).
      rewrite ctl_app, (ctl_fired_cons _ _ _ _ _ R), Nat.eqb_refl. ctl_simpl. reflexivity.
    + unfold pstate. rewrite HC, HS. intros st E1; inversion E1; subst. cbn. rewrite EC.
      cbn. rewrite Z.eqb_refl. reflexivity.
  - (* canceller that raises *)
    intros E; inversion E; subst.
    destruct (suppress T) eqn:HS.
    { intros d D st HD HP. destruct (Nat.eq_dec d t) as [->|Hne].
      - rewrite HT in HD. inversion HD; subst D. unfold pstate in HP. rewrite HC, HS in HP. discriminate.
      - exists D, st. ctl_simpl. cbn. auto. }
    eapply (conf_target h' h' t T _ [CCanceller; CCancRaise e] PU HT).
    + intros d D _ HD. eauto.
    + exists T. unfold pstate. rewrite HC, HS. auto.
    + intros d Hne. ctl_simpl. reflexivity.
    + ctl_simpl. reflexivity.
    + unfold pstate. rewrite HC, HS. intros st E1; inversion E1; subst. cbn. rewrite EC.
      cbn. rewrite Z.eqb_refl. reflexivity.
Qed.

Lemma cancel_conf fx fuel h d h' l : cancel fx fuel h d = (h', l) -> conf h h' l.
Proof.
  rewrite cancel_factor. destruct (cancel_walk fuel h d) as [|x|t T] eqn:W.
  - intros E; inversion E; subst. apply conf_frame; [apply sframe_refl|constructor].
  - intros E; inversion E; subst. intros d0 D st HD HP. exists D, st. cbn. auto.
  - destruct (cancel_walk_target _ _ _ _ _ W) as [HT HC]. apply cancel_unfired_conf; assumption.
Qed.

(** ---- every operation, every history ---- *)
Lemma exec_conf fx s o s' l : exec fx s o = (s', l) -> conf (heap_of s) (heap_of s') l.
Proof.
  destruct s as [h k]. unfold exec. cbn [heap_of next_k]. destruct o as [d cb eb|d z|d e|d|d|d].
  - destruct (get h d) as [D|] eqn:HD.
    2:{ intros E; inversion E; subst. apply conf_frame; [apply sframe_refl|constructor]. }
    destruct (called D).
    + destruct (runCallbacks fx _ d) as [h2 l2] eqn:HR. intros E; inversion E; subst. cbn.
      destruct (runCallbacks_frame _ _ _ _ _ HR) as [F R].
      apply conf_frame; [|exact R]. eapply sframe_trans; [|exact F]. apply sframe_upd. intros ?; reflexivity.
    + intros E; inversion E; subst. cbn. apply conf_frame; [|constructor]. apply sframe_upd. intros ?; reflexivity.
  - destruct (fire fx h d (VInt z) ByUser) as [h2 l2] eqn:HF. intros E; inversion E; subst. cbn.
    eapply fire_conf; eauto.
  - destruct (fire fx h d (VFail e) ByUser) as [h2 l2] eqn:HF. intros E; inversion E; subst. cbn.
    eapply fire_conf; eauto.
  - intros E; inversion E; subst. cbn. apply conf_frame; [|constructor]. apply sframe_upd. intros ?; reflexivity.
  - destruct (get h d) as [D|] eqn:HD.
    2:{ intros E; inversion E; subst. apply conf_frame; [apply sframe_refl|constructor]. }
    destruct ((paused D - 1 =? 0)%Z && called D).
    + destruct (runCallbacks fx _ d) as [h2 l2] eqn:HR. intros E; inversion E; subst. cbn.
      destruct (runCallbacks_frame _ _ _ _ _ HR) as [F R].
      apply conf_frame; [|exact R]. eapply sframe_trans; [|exact F]. apply sframe_upd. intros ?; reflexivity.
    + intros E; inversion E; subst. cbn. apply conf_frame; [|constructor]. apply sframe_upd. intros ?; reflexivity.
  - destruct (cancel fx (S (length h)) h d) as [h2 l2] eqn:HK. intros E; inversion E; subst. cbn.
    eapply cancel_conf; eauto.
Qed.

Lemma run_conf fx ops : forall s s' ls, run fx s ops = (s', ls) -> conf (heap_of s) (heap_of s') (concat ls).
Proof.
  induction ops as [|o r IH]; intros s s' ls; cbn [run].
  - intros E; inversion E; subst. apply conf_frame; [apply sframe_refl|constructor].
  - destruct (exec fx s o) as [s1 l] eqn:HE. destruct (run fx s1 r) as [s2 ls2] eqn:HR.
    intros E; inversion E; subst. cbn [concat]. eapply conf_trans; [eapply exec_conf; eauto | eapply IH; eauto].
Qed.

Lemma init_get cs d c : nth_error cs d = Some c -> get (heap_of (init cs)) d = Some (new_dfr c).
Proof. intros H. cbn. unfold get. rewrite nth_error_map, H. reflexivity. Qed.

Theorem conformance fx cs ops d c :
  nth_error cs d = Some c ->
  let r := run_program fx (cs, ops) in
  exists D st, get (heap_of (fst r)) d = Some D /\ canc D = c /\ pstate D = Some st
               /\ proto_run c PU (ctl d (concat (snd r))) = Some st.
Proof.
  intros Hc r. subst r. unfold run_program. cbn [fst snd].
  destruct (run fx (init cs) ops) as [s' ls] eqn:HR.
  destruct (run_conf _ _ _ _ _ HR d (new_dfr c) PU (init_get _ _ _ Hc) eq_refl) as [D [st [HD [EC [HP RUN]]]]].
  exists D, st. cbn [fst snd]. cbn in EC, RUN. auto.
Qed.

(** ---- consequences of acceptance by the protocol automaton (pure facts about words) ---- *)
Definition is_cancel_fire (e : cev) : bool :=
  match e with CFired v ByCancel => value_eqb v (VFail cancelled_error) | _ => false end.
Definition is_canswer (e : cev) : bool :=
  match e with CFired _ ByUser | CAlready | CSwallow => true | _ => false end.

Definition fired_st s := match s with PF | PFS => 1 | _ => 0 end.
Definition sup_st s := match s with PUn | PFS => 1 | _ => 0 end.
Definition phi_st s := match s with PU | PUk => 0 | _ => 1 end.
Definition b_st s := match s with PUk | PF | PFS => 1 | _ => 0 end.
Definition pun_st s := match s with PUn => 1 | _ => 0 end.

Lemma cnt_cons {A} (p : A -> bool) a w : cnt p (a :: w) = (if p a then 1 else 0) + cnt p w.
Proof. unfold cnt. cbn. destruct (p a); reflexivity. Qed.

Lemma cnt_app {A} (p : A -> bool) w1 w2 : cnt p (w1 ++ w2) = cnt p w1 + cnt p w2.
Proof. unfold cnt. rewrite filter_app, app_length. reflexivity. Qed.

Ltac pstep E :=
  repeat match type of E with
         | context [match ?x with _ => _ end] => destruct x eqn:?; try discriminate
         | context [if ?x then _ else _] => destruct x eqn:?; try discriminate
         end;
  inversion E; subst; clear E.

Lemma accepted_counts c : forall w s s', proto_run c s w = Some s' ->
  cnt is_cfired w + fired_st s = fired_st s'
  /\ cnt is_cswallow w + sup_st s' = cnt is_ccancelnone w + sup_st s
  /\ cnt is_ccancelnone w + phi_st s <= phi_st s'
  /\ cnt is_ccanceller w + b_st s <= cnt is_ccancraise w + b_st s'
  /\ cnt is_ccancelnone w + pun_st s <= cnt is_cancel_fire w + pun_st s'.
Proof.
  induction w as [|a w IH]; intros s s' H.
  - cbn in H. inversion H; subst. cbn. lia.
  - cbn [proto_run] in H. destruct (proto_step c s a) as [s1|] eqn:E; [|discriminate].
    specialize (IH _ _ H). rewrite !cnt_cons.
    destruct s; destruct a; cbn [proto_step] in E; try discriminate; pstep E;
      cbn [is_cfired is_cswallow is_ccancelnone is_ccanceller is_ccancraise is_cancel_fire
           fired_st sup_st phi_st b_st pun_st] in *;
      repeat match goal with H : value_eqb _ _ = true |- _ => rewrite H end; lia.
Qed.

Lemma accepted_kinds c : forall w s s', proto_run c s w = Some s' ->
  (0 < cnt is_ccancelnone w -> c = CNone)
  /\ (0 < cnt is_ccancraise w -> exists e, c = CRaise e)
  /\ (0 < cnt is_ccanceller w -> c <> CNone).
Proof.
  induction w as [|a w IH]; intros s s' H.
  - cbn. repeat split; intros; lia.
  - cbn [proto_run] in H. destruct (proto_step c s a) as [s1|] eqn:E; [|discriminate].
    specialize (IH _ _ H). rewrite !cnt_cons.
    destruct s; destruct a; cbn [proto_step] in E; try discriminate; pstep E;
      cbn [is_ccancelnone is_ccanceller is_ccancraise] in *;
      (repeat split; intros; try (apply IH; lia); try reflexivity; try discriminate; eauto).
Qed.

(** ---- each user attempt is answered exactly once ---- *)
Lemma ctl_fired_cons' d t v s l : only_runs l -> ctl d (EFired t v s :: l) = ctl d [EFired t v s].
Proof.
  intros R. rewrite (ctl_fired_cons _ _ _ _ _ R). cbn. destruct (Nat.eqb t d); reflexivity.
Qed.

Lemma fire_answer fx h t v d :
  (exists T, get h t = Some T) ->
  cnt is_canswer (ctl d (snd (fire fx h t v ByUser))) = if Nat.eqb t d then 1 else 0.
Proof.
  intros [T HT]. unfold fire. rewrite HT.
  destruct (called T); [destruct (suppress T)|]; cbn [snd].
  - cbn. destruct (Nat.eqb t d); reflexivity.
  - cbn. destruct (Nat.eqb t d); reflexivity.
  - destruct (runCallbacks fx _ t) as [h2 l2] eqn:HR. cbn [snd].
    destruct (runCallbacks_frame _ _ _ _ _ HR) as [_ R]. rewrite (ctl_fired_cons' _ _ _ _ _ R).
    cbn. destruct (Nat.eqb t d); reflexivity.
Qed.

Lemma fire_answer_none fx h t v d :
  get h t = None -> cnt is_canswer (ctl d (snd (fire fx h t v ByUser))) = 0.
Proof. intros HT. unfold fire. rewrite HT. reflexivity. Qed.

Lemma cancel_unfired_no_answer fx h t T d :
  cnt is_canswer (ctl d (snd (cancel_unfired fx h t T))) = 0.
Proof.
  unfold cancel_unfired. destruct (canc T); cbn [cancel_plan];
    try (destruct (runCallbacks fx _ t) as [h2 l2] eqn:HR; cbn [snd];
         destruct (runCallbacks_frame _ _ _ _ _ HR) as [_ R];
         rewrite ctl_app, (ctl_fired_cons' _ _ _ _ _ R), cnt_app; cbn; destruct (Nat.eqb t d); reflexivity).
  cbn. destruct (Nat.eqb t d); reflexivity.
Qed.

Lemma exec_answer fx s o d :
  (exists D, get (heap_of s) d = Some D) ->
  cnt is_canswer (ctl d (snd (exec fx s o))) = if is_attempt d o then 1 else 0.
Proof.
  intros [D HD]. destruct s as [h k]. cbn [heap_of] in HD. unfold exec. cbn [heap_of next_k].
  destruct o as [t cb eb|t z|t e|t|t|t]; cbn [is_attempt].
  - destruct (get h t) as [T|]; [|reflexivity]. destruct (called T).
    + destruct (runCallbacks fx _ t) as [h2 l2] eqn:HR. cbn [snd].
      destruct (runCallbacks_frame _ _ _ _ _ HR) as [_ R]. rewrite (ctl_only_runs _ _ R). reflexivity.
    + reflexivity.
  - destruct (fire fx h t (VInt z) ByUser) as [h2 l2] eqn:HF. cbn [snd].
    change l2 with (snd (h2, l2)). rewrite <- HF.
    destruct (get h t) as [T|] eqn:HT.
    + apply fire_answer. eauto.
    + rewrite (fire_answer_none _ _ _ _ _ HT). destruct (Nat.eqb_spec t d); [congruence|reflexivity].
  - destruct (fire fx h t (VFail e) ByUser) as [h2 l2] eqn:HF. cbn [snd].
    change l2 with (snd (h2, l2)). rewrite <- HF.
    destruct (get h t) as [T|] eqn:HT.
    + apply fire_answer. eauto.
    + rewrite (fire_answer_none _ _ _ _ _ HT). destruct (Nat.eqb_spec t d); [congruence|reflexivity].
  - reflexivity.
  - destruct (get h t) as [T|]; [|reflexivity]. destruct ((paused T - 1 =? 0)%Z && called T).
    + destruct (runCallbacks fx _ t) as [h2 l2] eqn:HR. cbn [snd].
      destruct (runCallbacks_frame _ _ _ _ _ HR) as [_ R]. rewrite (ctl_only_runs _ _ R). reflexivity.
    + reflexivity.
  - destruct (cancel fx (S (length h)) h t) as [h2 l2] eqn:HK. cbn [snd].
    change l2 with (snd (h2, l2)). rewrite <- HK. rewrite cancel_factor.
    destruct (cancel_walk (S (length h)) h t); try reflexivity. apply cancel_unfired_no_answer.
Qed.

Lemma run_answers fx ops : forall s d D st,
  get (heap_of s) d = Some D -> pstate D = Some st ->
  cnt is_canswer (ctl d (concat (snd (run fx s ops)))) = cnt (is_attempt d) ops.
Proof.
  induction ops as [|o r IH]; intros s d D st HD HP; cbn [run]; [reflexivity|].
  destruct (exec fx s o) as [s1 l] eqn:HE. destruct (run fx s1 r) as [s2 ls] eqn:HR. cbn [snd concat].
  rewrite ctl_app, cnt_app, cnt_cons.
  change l with (snd (s1, l)). rewrite <- HE. rewrite exec_answer by eauto.
  destruct (exec_conf _ _ _ _ _ HE d D st HD HP) as [D1 [st1 [HD1 [_ [HP1 _]]]]].
  specialize (IH s1 d D1 st1 HD1 HP1). rewrite HR in IH. cbn [snd] in IH. rewrite IH. reflexivity.
Qed.

(** ---- the theorems exported by Property.v ---- *)
Section Histories.
  Variables (fx : bool) (cs : list canceller) (ops : list op) (d : nat) (c : canceller).
  Hypothesis Hd : nth_error cs d = Some c.
  Let r := run_program fx (cs, ops).
  Let w := ctl d (concat (snd r)).

  Lemma final_state :
    exists D st, get (heap_of (fst r)) d = Some D /\ canc D = c /\ pstate D = Some st
                 /\ proto_run c PU w = Some st.
  Proof. exact (conformance fx cs ops d c Hd). Qed.

  Lemma fired_once :
    exists D, get (heap_of (fst r)) d = Some D
              /\ cnt is_cfired w = (if called D then 1 else 0) /\ cnt is_cfired w <= 1.
  Proof.
    destruct final_state as [D [st [HD [_ [HP RUN]]]]]. exists D. split; [exact HD|].
    destruct (accepted_counts _ _ _ _ RUN) as [A _]. cbn in A.
    unfold pstate in HP. destruct (called D), (suppress D); inversion HP; subst; cbn in A; lia.
  Qed.

  Lemma answers :
    cnt (is_attempt d) ops = cnt is_canswer w
    /\ cnt is_cswallow w <= 1
    /\ (cnt is_cswallow w = 1 -> c = CNone /\ 1 <= cnt is_cancel_fire w).
  Proof.
    destruct final_state as [D [st [HD [_ [HP RUN]]]]].
    destruct (accepted_counts _ _ _ _ RUN) as [_ [B [C [_ E]]]].
    destruct (accepted_kinds _ _ _ _ RUN) as [K _]. cbn in B, C, E.
    split; [|split].
    - subst w r. unfold run_program. cbn [fst snd]. symmetry.
      apply (run_answers fx ops (init cs) d (new_dfr c) PU (init_get _ _ _ Hd) eq_refl).
    - assert (phi_st st <= 1) by (destruct st; cbn; lia). lia.
    - intros S1. assert (0 < cnt is_ccancelnone w) by lia. split; [auto|].
      assert (pun_st st = 0) by (unfold pstate in HP; destruct (called D), (suppress D); inversion HP; reflexivity).
      lia.
  Qed.

  Lemma canceller_once :
    cnt is_ccanceller w <= 1 + cnt is_ccancraise w
    /\ ((forall e, c <> CRaise e) -> cnt is_ccanceller w <= 1 /\ cnt is_ccancraise w = 0)
    /\ (c = CNone -> cnt is_ccanceller w = 0).
  Proof.
    destruct final_state as [D [st [HD [_ [HP RUN]]]]].
    destruct (accepted_counts _ _ _ _ RUN) as [_ [_ [_ [B _]]]].
    destruct (accepted_kinds _ _ _ _ RUN) as [_ [K1 K2]]. cbn in B.
    assert (b_st st <= 1) by (destruct st; cbn; lia).
    split; [lia|]. split.
    - intros NR. assert (cnt is_ccancraise w = 0).
      { destruct (cnt is_ccancraise w) eqn:E0; [reflexivity|]. destruct K1 as [e He]; [lia|]. exfalso. eapply NR; eauto. }
      lia.
    - intros EC. destruct (cnt is_ccanceller w) eqn:E0; [reflexivity|]. exfalso. apply K2; [lia|exact EC].
  Qed.
End Histories.

(** ---- cancel(), operation level ---- *)
Lemma cancel_unfired_eq fx fuel h t T :
  get h t = Some T -> called T = false -> cancel fx (S fuel) h t = cancel_unfired fx h t T.
Proof. intros HT HC. rewrite cancel_factor. cbn [cancel_walk]. rewrite HT, HC. reflexivity. Qed.

Lemma cancel_unfired_fires fx h t T pre v s sup :
  get h t = Some T -> called T = false -> cancel_plan (canc T) t = Some (pre, v, s, sup) ->
  exists h' l T', cancel_unfired fx h t T = (h', pre ++ EFired t v s :: l) /\ only_runs l
                  /\ get h' t = Some T' /\ called T' = true /\ canc T' = canc T
                  /\ suppress T' = (if sup then true else suppress T).
Proof.
  intros HT HC HP. unfold cancel_unfired. rewrite HP.
  set (h1 := if sup then upd h t (set_suppress true) else h).
  assert (H1 : get h1 t = Some (if sup then set_suppress true T else T)).
  { subst h1. destruct sup; [rewrite get_upd_same, HT; reflexivity|exact HT]. }
  destruct (runCallbacks fx _ t) as [h2 l2] eqn:HR.
  destruct (fired_heap _ _ _ _ _ _ _ H1 HR) as [R [_ [T' [HT' ES]]]].
  exists h2, l2, T'. split; [reflexivity|]. split; [exact R|]. split; [exact HT'|].
  unfold static in ES. inversion ES as [[E1 E2 E3]]. destruct sup; cbn; auto.
Qed.

Lemma cancel_raises fx h t T e :
  canc T = CRaise e -> cancel_unfired fx h t T = (h, [ECanceller t; ECancRaise t e]).
Proof. intros EC. unfold cancel_unfired. rewrite EC. reflexivity. Qed.

Lemma cancel_fired_eq fx fuel h d D :
  get h d = Some D -> called D = true ->
  cancel fx (S fuel) h d = match res D with Some (VDef r) => cancel fx fuel h r | _ => (h, []) end.
Proof. intros HD HC. cbn [cancel]. rewrite HD, HC. reflexivity. Qed.

(** a non-trivial history that exercises everything above: d1's callback returns the unfired d0 (which has no
    canceller); cancel d1 (forwarded to d0, which fails with CancelledError and resumes d1); two late results *)
Definition example_program : program :=
  ([CNone; CCallback 7],
   [OAdd 1 (Some (BRet (VDef 0))) None; OCallback 1 1; OCancel 1; OCallback 0 5; OCallback 0 6; OCancel 1]).

Example example_conforms :
  ctl 0 (concat (snd (run_program true example_program)))
  = [CCancelNone; CFired (VFail cancelled_error) ByCancel; CSwallow; CAlready]
  /\ proto_run CNone PU (ctl 0 (concat (snd (run_program true example_program)))) = Some PF.
Proof. vm_compute. split; reflexivity. Qed.
