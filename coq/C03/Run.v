(** C03: printer used by the correspondence check only (the kernel's canonical observation). *)
From Coq Require Import List Arith ZArith Bool String.
From TwLib Require Import Show DeferredK DeferredKShow DeferredKR DeferredKRShow.
Import ListNotations.

(** the model of the code as it is meant to be (with the C01 repair of the callback loop) *)
Definition run_show (p : program) : string := show_program true p.

(** programs whose callbacks run kernel operations (scripts) are evaluated on the re-entrant kernel DeferredKR *)
Definition show_any (c : program + rprogram) : string :=
  match c with inl p => run_show p | inr p => show_rprogram p end.
