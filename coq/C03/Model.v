(** C03: "a Deferred delivers one result; cancellation follows its protocol".
    The model of the code is the shared kernel TwLib.DeferredK (callback/errback/cancel/_startRunCallbacks
    and the callback loop, transcribed from defer.py).  This file adds what the property talks about:
      - the per-Deferred *protocol automaton* [proto_step] (the Spec): which control events may happen to one
        Deferred, in which order, given its canceller;
      - the projection [ctl] of a run's event log onto one Deferred;
      - counters over such projections, and the decomposition of [cancel] used in the theorem statements. *)
From Coq Require Import List Arith ZArith Bool.
From TwLib Require Export DeferredK.
Import ListNotations.

Definition value_eqb (a b : value) : bool :=
  match a, b with
  | VNone, VNone => true
  | VInt x, VInt y => Z.eqb x y
  | VFail x, VFail y => Z.eqb x y
  | VDef i, VDef j => Nat.eqb i j
  | _, _ => false
  end.

(** control events of one Deferred *)
Inductive cev :=
| CFired (v : value) (s : src)   (* accepted a result *)
| CAlready                       (* callback/errback raised AlreadyCalledError *)
| CSwallow                       (* callback/errback silently ignored *)
| CCancelNone                    (* cancel() while unfired, no canceller *)
| CCanceller                     (* canceller invoked *)
| CCancRaise (e : Z).            (* canceller raised *)

Definition ctl_of (d : nat) (e : ev) : list cev :=
  match e with
  | ERun _ _ _ => []
  | ERecursion _ => []
  | EFired x v s => if Nat.eqb x d then [CFired v s] else []
  | EAlready x => if Nat.eqb x d then [CAlready] else []
  | ESwallow x => if Nat.eqb x d then [CSwallow] else []
  | ECancelNone x => if Nat.eqb x d then [CCancelNone] else []
  | ECanceller x => if Nat.eqb x d then [CCanceller] else []
  | ECancRaise x e => if Nat.eqb x d then [CCancRaise e] else []
  end.
Definition ctl (d : nat) (l : list ev) : list cev := flat_map (ctl_of d) l.

(** protocol states: unfired; unfired inside a canceller-less cancel(); unfired inside the canceller;
    fired; fired with one late result still to be swallowed *)
Inductive pst := PU | PUn | PUk | PF | PFS.

Definition proto_step (c : canceller) (st : pst) (e : cev) : option pst :=
  match st, e with
  | PU, CFired _ ByUser => Some PF
  | PU, CCancelNone => match c with CNone => Some PUn | _ => None end
  | PUn, CFired v ByCancel => if value_eqb v (VFail cancelled_error) then Some PFS else None
  | PU, CCanceller => match c with CNone => None | _ => Some PUk end
  | PUk, CFired v ByCancel =>
      match c with CNothing => if value_eqb v (VFail cancelled_error) then Some PF else None | _ => None end
  | PUk, CFired v ByCanceller =>
      match c with
      | CCallback z => if value_eqb v (VInt z) then Some PF else None
      | CErrback e => if value_eqb v (VFail e) then Some PF else None
      | _ => None
      end
  | PUk, CCancRaise e => match c with CRaise e' => if Z.eqb e e' then Some PU else None | _ => None end
  | PF, CAlready => Some PF
  | PFS, CSwallow => Some PF
  | _, _ => None
  end.

Fixpoint proto_run (c : canceller) (st : pst) (w : list cev) : option pst :=
  match w with
  | [] => Some st
  | e :: r => match proto_step c st e with Some st' => proto_run c st' r | None => None end
  end.

(** the protocol state a Deferred record is in between operations *)
Definition pstate (D : dfr) : option pst :=
  match called D, suppress D with
  | false, false => Some PU
  | true, false => Some PF
  | true, true => Some PFS
  | false, true => None
  end.

(** counters *)
Definition cnt {A} (p : A -> bool) (w : list A) : nat := length (filter p w).
Definition is_cfired (e : cev) := match e with CFired _ _ => true | _ => false end.
Definition is_calready (e : cev) := match e with CAlready => true | _ => false end.
Definition is_cswallow (e : cev) := match e with CSwallow => true | _ => false end.
Definition is_ccancelnone (e : cev) := match e with CCancelNone => true | _ => false end.
Definition is_ccanceller (e : cev) := match e with CCanceller => true | _ => false end.
Definition is_ccancraise (e : cev) := match e with CCancRaise _ => true | _ => false end.

(** user attempts to fire Deferred d in a history, and the events that answer them *)
Definition is_attempt (d : nat) (o : op) : bool :=
  match o with OCallback x _ | OErrback x _ => Nat.eqb x d | _ => false end.
Definition is_answer (d : nat) (e : ev) : bool :=
  match e with EFired x _ ByUser | EAlready x | ESwallow x => Nat.eqb x d | _ => false end.

(** ---- decomposition of cancel() ---- *)
(** where the forwarding [self.result.cancel()] ends *)
Inductive walk := WNoop | WRecursion (x : nat) | WTarget (t : nat) (T : dfr).

Fixpoint cancel_walk (fuel : nat) (h : heap) (d : nat) : walk :=
  match fuel with
  | O => WRecursion d
  | S f =>
      match get h d with
      | None => WNoop
      | Some D =>
          if called D
          then match res D with Some (VDef r) => cancel_walk f h r | _ => WNoop end
          else WTarget d D
      end
  end.

(** what cancel() does with an unfired Deferred, by canceller:
    (events before the firing, accepted result, source, whether _suppressAlreadyCalled is set);
    None = the canceller raises *)
Definition cancel_plan (c : canceller) (t : nat) : option (list ev * value * src * bool) :=
  match c with
  | CNone => Some ([ECancelNone t], VFail cancelled_error, ByCancel, true)
  | CNothing => Some ([ECanceller t], VFail cancelled_error, ByCancel, false)
  | CCallback z => Some ([ECanceller t], VInt z, ByCanceller, false)
  | CErrback e => Some ([ECanceller t], VFail e, ByCanceller, false)
  | CRaise _ => None
  end.

Definition cancel_unfired (fx : bool) (h : heap) (t : nat) (T : dfr) : heap * list ev :=
  match cancel_plan (canc T) t with
  | None => (h, [ECanceller t; ECancRaise t (match canc T with CRaise e => e | _ => 0%Z end)])
  | Some (pre, v, s, sup) =>
      let h1 := if sup then upd h t (set_suppress true) else h in
      let '(h2, l) := runCallbacks fx (upd h1 t (fun D => set_res (Some v) (set_called true D))) t in
      (h2, pre ++ EFired t v s :: l)
  end.
