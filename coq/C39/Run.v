(** C39: printers used by the correspondence check only (they also number the request Deferreds). *)
From Coq Require Import List Bool Arith String.
From TwLib Require Import Show.
From C39 Require Import Base Gen Model.
Import ListNotations.
Local Open Scope string_scope.

Definition show_msg (m : msg) : string :=
  match m with WILL => "WILL" | WONT => "WONT" | DO => "DO" | DONT => "DONT" end.
Definition show_hook (h : hook) : string :=
  match h with EnableLocal => "eL" | EnableRemote => "eR" | DisableLocal => "dL" | DisableRemote => "dR" end.
Definition show_pst (p : pst) : string := (if yes p then "yes" else "no") ++ (if neg p then "*" else "").
Definition show_ep (e : ep) : string := "us=" ++ show_pst (us e) ++ ",him=" ++ show_pst (him e).
Definition show_side (s : side) : string := match s with A => "A" | B => "B" end.

Definition slot := (side * nat * persp)%type.
Definition persp_eqb (a b : persp) : bool := match a, b with Us, Us | Him, Him => true | _, _ => false end.
Definition slot_eqb (a b : slot) : bool :=
  let '(s1, o1, p1) := a in let '(s2, o2, p2) := b in side_eqb s1 s2 && Nat.eqb o1 o2 && persp_eqb p1 p2.
Fixpoint lookup (k : slot) (l : list (slot * nat)) : option nat :=
  match l with [] => None | (k', v) :: r => if slot_eqb k k' then Some v else lookup k r end.
Definition show_id (o : option nat) : string := match o with Some n => show_nat n | None => "?" end.

Definition show_oev (pend : list (slot * nat)) (k : slot) (e : oev) : string :=
  match e with
  | OSend m => ">" ++ show_msg m
  | OFire ROk => "F" ++ show_id (lookup k pend) ++ "=ok"
  | OFire RRefused => "F" ++ show_id (lookup k pend) ++ "=ref"
  | OHook h => show_hook h
  | OCrash => "!A"
  end.

(** state of the printer: the many-option system, the pending Deferred ids (latest first), the next id *)
Fixpoint go (s : mst) (pend : list (slot * nat)) (next : nat) (ops : list mact) : list string * mst :=
  match ops with
  | [] => ([], s)
  | a :: r =>
      let '(s', ob) := mstep s a in
      let '(txt, pend', next') :=
        match ob, a with
        | MRes RNegotiating, _ => ("AN", pend, next)
        | MRes (RErr AlreadyEnabled), _ => ("AE", pend, next)
        | MRes (RErr AlreadyDisabled), _ => ("AD", pend, next)
        | MRes (RAccepted p), MReq sd o _ => ("I" ++ show_nat next, ((sd, o, p), next) :: pend, S next)
        | MRes (RAccepted p), _ => ("?", pend, next)
        | MRecv o m evs, MDlv from =>
            let k := (other from, o, handler_persp m) in
            (show_msg m ++ show_nat o ++ ":" ++ String.concat "," (map (show_oev pend k) evs), pend, next)
        | MRecv _ _ _, _ => ("?", pend, next)
        | MIdle, _ => ("-", pend, next)
        end in
      let '(rest, sf) := go s' pend' next' r in (txt :: rest, sf)
  end.

Definition show_q (q : list (nat * msg)) : string :=
  String.concat "," (map (fun x => show_msg (snd x) ++ show_nat (fst x)) q).

Definition pol_at (l : list pol) (o : nat) : pol := nth o l (mkpol false false).

(** input: policies per option for A and for B, the operations, the options whose final state is printed *)
Definition run_show (c : list pol * list pol * list mact * list nat) : string :=
  let '(pa, pb, ops, opts) := c in
  let p := fun sd o => match sd with A => pol_at pa o | B => pol_at pb o end in
  let '(txts, s) := go (minit p) [] 0 ops in
  String.concat " " txts ++ " |"
  ++ String.concat "" (map (fun o => " A" ++ show_nat o ++ ":" ++ show_ep (mep s A o)
                                      ++ " B" ++ show_nat o ++ ":" ++ show_ep (mep s B o)) opts)
  ++ " qAB=" ++ show_q (mq s A) ++ " qBA=" ++ show_q (mq s B).
