(** C39 proofs: finite reachability by reflection, then the consequences. *)
From Coq Require Import List Bool Arith Lia.
From C39 Require Import Base Gen Model.
Import ListNotations.

(** ---- decidable equality is sound ---- *)
Lemma msg_eqb_eq : forall a b, msg_eqb a b = true -> a = b.
Proof. intros [] []; cbn; intros H; try discriminate H; reflexivity. Qed.

Lemma msgs_eqb_eq : forall a b, msgs_eqb a b = true -> a = b.
Proof.
  induction a as [|x a IH]; intros [|y b] H; cbn in H; try discriminate H; [reflexivity|].
  apply andb_true_iff in H as [H1 H2]. now rewrite (msg_eqb_eq _ _ H1), (IH _ H2).
Qed.

Lemma pol_eqb_eq : forall a b, pol_eqb a b = true -> a = b.
Proof.
  intros [a1 a2] [b1 b2] H. unfold pol_eqb in H. cbn in H. apply andb_true_iff in H as [H1 H2].
  apply eqb_prop in H1. apply eqb_prop in H2. now subst.
Qed.

Lemma pst_eqb_eq : forall a b, pst_eqb a b = true -> a = b.
Proof.
  intros [a1 a2] [b1 b2] H. unfold pst_eqb in H. cbn in H. apply andb_true_iff in H as [H1 H2].
  apply eqb_prop in H1. apply eqb_prop in H2. now subst.
Qed.

Lemma ep_eqb_eq : forall a b, ep_eqb a b = true -> a = b.
Proof.
  intros [a1 a2] [b1 b2] H. unfold ep_eqb in H. cbn in H. apply andb_true_iff in H as [H1 H2].
  now rewrite (pst_eqb_eq _ _ H1), (pst_eqb_eq _ _ H2).
Qed.

Lemma cst_eqb_eq : forall a b, cst_eqb a b = true -> a = b.
Proof.
  intros [a1 a2 a3 a4 a5 a6] [b1 b2 b3 b4 b5 b6] H. unfold cst_eqb in H. cbn in H.
  apply andb_true_iff in H as [H H6]. apply andb_true_iff in H as [H H5]. apply andb_true_iff in H as [H H4].
  apply andb_true_iff in H as [H H3]. apply andb_true_iff in H as [H1 H2].
  rewrite (pol_eqb_eq _ _ H1), (pol_eqb_eq _ _ H2), (ep_eqb_eq _ _ H3), (ep_eqb_eq _ _ H4),
    (msgs_eqb_eq _ _ H5), (msgs_eqb_eq _ _ H6). reflexivity.
Qed.

Lemma mem_In : forall s l, mem s l = true -> In s l.
Proof.
  intros s l H. unfold mem in H. apply existsb_exists in H as (t & Ht & E).
  now rewrite (cst_eqb_eq _ _ E).
Qed.

(** ---- the reachable set, computed once and checked closed ---- *)
Definition R : list cst := Eval vm_compute in iter 16 inits.

Definition closed (l : list cst) : bool := forallb (fun s => forallb (fun t => mem t l) (succs s)) l.

Lemma R_closed : closed R = true.
Proof. vm_compute. reflexivity. Qed.

Lemma R_size : length R = 313.
Proof. reflexivity. Qed.

(** reachable: from any pair of policies, any sequence of requests (respecting the hypothesis) and
    deliveries *)
Inductive creach : cst -> Prop :=
| cr_init : forall pa pb, creach (cinit pa pb)
| cr_step : forall s a, creach s -> ok_act s a = true -> creach (fst (fst (cstep s a))).

Lemma all_acts_complete : forall a, In a all_acts.
Proof. intros [[|] [| | |]|[|]]; cbn; tauto. Qed.

Lemma init_in_R : forall pa pb, mem (cinit pa pb) R = true.
Proof. intros [[|] [|]] [[|] [|]]; vm_compute; reflexivity. Qed.

Lemma reach_in_R : forall s, creach s -> In s R.
Proof.
  induction 1 as [pa pb|s a Hr IH Hok].
  - apply mem_In, init_in_R.
  - apply mem_In. pose proof R_closed as Hc. unfold closed in Hc. rewrite forallb_forall in Hc.
    specialize (Hc s IH). rewrite forallb_forall in Hc. apply Hc.
    unfold succs. apply in_flat_map. exists a. split; [apply all_acts_complete|]. rewrite Hok. now left.
Qed.

(** every boolean property checked on R holds of every reachable state *)
Lemma by_reflection : forall P : cst -> bool, forallb P R = true -> forall s, creach s -> P s = true.
Proof. intros P H s Hs. rewrite forallb_forall in H. apply H, reach_in_R, Hs. Qed.

(** ---- no assertion is ever reached ---- *)
Definition crash_free (s : cst) : bool :=
  forallb (fun a => implb (ok_act s a) (negb (snd (fst (cstep s a))))) all_acts.

Lemma R_crash_free : forallb crash_free R = true.
Proof. vm_compute. reflexivity. Qed.

Lemma no_crash : forall s a, creach s -> ok_act s a = true -> snd (fst (cstep s a)) = false.
Proof.
  intros s a Hs Hok. pose proof (by_reflection _ R_crash_free s Hs) as H.
  unfold crash_free in H. rewrite forallb_forall in H. specialize (H a (all_acts_complete a)).
  rewrite Hok in H. cbn in H. now apply negb_true_iff in H.
Qed.

(** ---- quiescent states agree ---- *)
Definition quiet_ok (s : cst) : bool := implb (quiescent s) (agree s && no_flags s).

Lemma R_quiet_ok : forallb quiet_ok R = true.
Proof. vm_compute. reflexivity. Qed.

Lemma quiescent_agree : forall s, creach s -> qAB s = [] -> qBA s = [] ->
  yes (us (epA s)) = yes (him (epB s)) /\ yes (us (epB s)) = yes (him (epA s))
  /\ neg (us (epA s)) = false /\ neg (him (epA s)) = false /\ neg (us (epB s)) = false /\ neg (him (epB s)) = false.
Proof.
  intros s Hs H1 H2. pose proof (by_reflection _ R_quiet_ok s Hs) as H.
  unfold quiet_ok, quiescent in H. rewrite H1, H2 in H. cbn [implb] in H.
  apply andb_true_iff in H as [Ha Hf]. unfold agree in Ha. apply andb_true_iff in Ha as [Ha1 Ha2].
  apply eqb_prop in Ha1. apply eqb_prop in Ha2. unfold no_flags in Hf. apply negb_true_iff in Hf.
  repeat (apply orb_false_iff in Hf as [Hf ?]). repeat split; assumption.
Qed.

(** ---- the measure decreases on every delivery ---- *)
Definition enabled (s : cst) (sd : side) : bool :=
  match sd with A => match qAB s with [] => false | _ => true end | B => match qBA s with [] => false | _ => true end end.
Definition mu_ok (s : cst) : bool :=
  forallb (fun sd => implb (enabled s sd) (Nat.ltb (mu (fst (fst (cstep s (Dlv sd))))) (mu s))) [A; B].

Lemma R_mu_ok : forallb mu_ok R = true.
Proof. vm_compute. reflexivity. Qed.

Lemma mu_decreases : forall s sd, creach s -> enabled s sd = true ->
  mu (fst (fst (cstep s (Dlv sd)))) < mu s.
Proof.
  intros s sd Hs He. pose proof (by_reflection _ R_mu_ok s Hs) as H. unfold mu_ok in H.
  rewrite forallb_forall in H. assert (Hin : In sd [A; B]) by (destruct sd; cbn; tauto).
  specialize (H sd Hin). rewrite He in H. cbn [implb] in H. now apply Nat.ltb_lt in H.
Qed.

Definition mu_bound (s : cst) : bool := Nat.leb (mu s) 4.
Lemma R_mu_bound : forallb mu_bound R = true.
Proof. vm_compute. reflexivity. Qed.

(** a run of deliveries only (no new request) *)
Fixpoint deliver_all (s : cst) (ds : list side) : option cst :=
  match ds with
  | [] => Some s
  | d :: r => if enabled s d then deliver_all (fst (fst (cstep s (Dlv d)))) r else None
  end.

Lemma delivery_runs_are_short : forall ds s s', creach s -> deliver_all s ds = Some s' ->
  length ds + mu s' <= mu s /\ creach s'.
Proof.
  induction ds as [|d ds IH]; intros s s' Hs H; cbn in H.
  - injection H as <-. split; [cbn; lia|exact Hs].
  - destruct (enabled s d) eqn:He; [|discriminate H].
    assert (Hs1 : creach (fst (fst (cstep s (Dlv d))))) by (apply cr_step; [exact Hs|reflexivity]).
    destruct (IH _ _ Hs1 H) as [H1 H2]. pose proof (mu_decreases s d Hs He). split; [cbn [length]; lia|exact H2].
Qed.

Lemma no_loop : forall ds s s', creach s -> deliver_all s ds = Some s' -> length ds <= 4.
Proof.
  intros ds s s' Hs H. destruct (delivery_runs_are_short ds s s' Hs H) as [H1 _].
  pose proof (by_reflection _ R_mu_bound s Hs) as Hb. unfold mu_bound in Hb. apply Nat.leb_le in Hb. lia.
Qed.

(** ---- every request Deferred fires exactly once ---- *)
Definition ep_of (s : cst) (sd : side) : ep := match sd with A => epA s | B => epB s end.
(** "negotiating" on a perspective = a request Deferred is outstanding there (onResult is set) *)
Definition flag (s : cst) (sd : side) (p : persp) : bool := neg (get (ep_of s sd) p).

Definition persp_eqb (a b : persp) : bool := match a, b with Us, Us | Him, Him => true | _, _ => false end.
Definition on_slot (sd : side) (p : persp) (e : sev) : bool :=
  match e with SIssue s' p' | SFire s' p' _ => side_eqb sd s' && persp_eqb p p' end.

(** the history of one Deferred slot is Issue, Fire, Issue, Fire, ...; [open] = an issued Deferred has
    not fired yet; the result is the status after the events, None if the alternation is broken *)
Fixpoint alt (sd : side) (p : persp) (open : bool) (evs : list sev) : option bool :=
  match evs with
  | [] => Some open
  | e :: r =>
      if on_slot sd p e then
        match e with
        | SIssue _ _ => if open then None else alt sd p true r
        | SFire _ _ _ => if open then alt sd p false r else None
        end
      else alt sd p open r
  end.

Lemma alt_app : forall sd p e1 o e2,
  alt sd p o (e1 ++ e2) = match alt sd p o e1 with Some o' => alt sd p o' e2 | None => None end.
Proof.
  induction e1 as [|e e1 IH]; intros o e2; [reflexivity|]. cbn [app alt].
  destruct (on_slot sd p e); [|apply IH]. destruct e; destruct o; try reflexivity; apply IH.
Qed.

Lemma step_alt : forall s a sd p,
  alt sd p (flag s sd p) (snd (cstep s a)) = Some (flag (fst (fst (cstep s a))) sd p).
Proof.
  intros [pa pb eA eB qab qba] a sd p. destruct a as [[|] m|[|]].
  - destruct eA as [[[|] [|]] [[|] [|]]], m, sd, p; reflexivity.
  - destruct eB as [[[|] [|]] [[|] [|]]], m, sd, p; reflexivity.
  - destruct qab as [|m rest]; [reflexivity|].
    destruct pb as [[|] [|]], eB as [[[|] [|]] [[|] [|]]], m, sd, p; reflexivity.
  - destruct qba as [|m rest]; [reflexivity|].
    destruct pa as [[|] [|]], eA as [[[|] [|]] [[|] [|]]], m, sd, p; reflexivity.
Qed.

Fixpoint crun (s : cst) (acts : list act) : cst * list sev :=
  match acts with
  | [] => (s, [])
  | a :: r => let s1 := fst (fst (cstep s a)) in (fst (crun s1 r), snd (cstep s a) ++ snd (crun s1 r))
  end.
Fixpoint ok_run (s : cst) (acts : list act) : bool :=
  match acts with [] => true | a :: r => ok_act s a && ok_run (fst (fst (cstep s a))) r end.

Lemma run_alt : forall acts s sd p,
  alt sd p (flag s sd p) (snd (crun s acts)) = Some (flag (fst (crun s acts)) sd p).
Proof.
  induction acts as [|a r IH]; intros s sd p; [reflexivity|].
  cbn [crun fst snd]. rewrite alt_app, step_alt. apply IH.
Qed.

Lemma run_reach : forall acts s, creach s -> ok_run s acts = true -> creach (fst (crun s acts)).
Proof.
  induction acts as [|a r IH]; intros s Hs Hok; [exact Hs|].
  cbn [ok_run] in Hok. apply andb_true_iff in Hok as [H1 H2]. cbn [crun fst]. apply IH; [|exact H2].
  now apply cr_step.
Qed.

Definition count_issue (sd : side) (p : persp) (evs : list sev) : nat :=
  length (filter (fun e => on_slot sd p e && match e with SIssue _ _ => true | _ => false end) evs).
Definition count_fire (sd : side) (p : persp) (evs : list sev) : nat :=
  length (filter (fun e => on_slot sd p e && match e with SFire _ _ _ => true | _ => false end) evs).

Lemma alt_counts : forall sd p evs o b, alt sd p o evs = Some b ->
  count_issue sd p evs + (if o then 1 else 0) = count_fire sd p evs + (if b then 1 else 0).
Proof.
  unfold count_issue, count_fire. induction evs as [|e evs IH]; intros o b H.
  - cbn in H. injection H as <-. reflexivity.
  - cbn [alt] in H. cbn [filter]. destruct (on_slot sd p e) eqn:Es.
    + destruct e; destruct o; try discriminate H; cbn [andb length]; specialize (IH _ _ H); cbn in IH |- *; lia.
    + cbn [andb]. apply (IH _ _ H).
Qed.

Lemma fires_once : forall pa pb acts sd p,
  let r := crun (cinit pa pb) acts in
  (* at every moment: fired <= issued <= fired + 1 on each slot, in alternation *)
  (exists b, alt sd p false (snd r) = Some b
             /\ count_issue sd p (snd r) = count_fire sd p (snd r) + (if b then 1 else 0))
  (* and with nothing left in flight every issued Deferred has fired *)
  /\ (ok_run (cinit pa pb) acts = true -> qAB (fst r) = [] -> qBA (fst r) = [] ->
      count_issue sd p (snd r) = count_fire sd p (snd r)).
Proof.
  intros pa pb acts sd p r.
  pose proof (run_alt acts (cinit pa pb) sd p) as H.
  assert (H0 : flag (cinit pa pb) sd p = false) by (destruct sd, p; reflexivity).
  rewrite H0 in H. fold r in H. split.
  - exists (flag (fst r) sd p). split; [exact H|]. pose proof (alt_counts _ _ _ _ _ H) as Hc. cbn in Hc. lia.
  - intros Hok H1 H2. pose proof (run_reach acts _ (cr_init pa pb) Hok) as Hr. fold r in Hr.
    destruct (quiescent_agree _ Hr H1 H2) as (_ & _ & F1 & F2 & F3 & F4).
    assert (Hf : flag (fst r) sd p = false) by (destruct sd, p; assumption).
    rewrite Hf in H. pose proof (alt_counts _ _ _ _ _ H) as Hc. cbn in Hc. lia.
Qed.

(** ---- any number of options ---- *)
Inductive mreach : mst -> Prop :=
| mr_init : forall p, mreach (minit p)
| mr_step : forall s a, mreach s -> mok_act s a = true -> mreach (fst (mstep s a)).

Lemma only_app : forall o a b, only o (a ++ b) = only o a ++ only o b.
Proof. intros; unfold only; apply flat_map_app. Qed.

Lemma only_pairs_same : forall o xs, only o (map (pair o) xs) = xs.
Proof.
  induction xs as [|x xs IH]; [reflexivity|]. unfold only in *. cbn [map flat_map fst snd].
  rewrite Nat.eqb_refl, IH. reflexivity.
Qed.

Lemma only_pairs_other : forall o o' xs, o' <> o -> only o (map (pair o') xs) = [].
Proof.
  intros o o' xs H. induction xs as [|x xs IH]; [reflexivity|]. unfold only in *. cbn [map flat_map fst snd].
  apply Nat.eqb_neq in H. rewrite H, IH. reflexivity.
Qed.

Ltac psimp :=
  unfold proj, upd_ep, upd_q;
  cbn [fst snd mep mpol mq side_eqb andb epA epB polA polB qAB qBA other];
  rewrite ?Nat.eqb_refl, ?only_app, ?only_pairs_same;
  cbn [only flat_map fst snd app andb];
  rewrite ?Nat.eqb_refl, ?app_nil_r; cbn [app andb].

Lemma proj_step : forall o s a, mok_act s a = true ->
  proj o (fst (mstep s a)) = proj o s
  \/ exists ca, ok_act (proj o s) ca = true /\ proj o (fst (mstep s a)) = fst (fst (cstep (proj o s) ca)).
Proof.
  intros o s a Hok. destruct a as [sd o' m|from].
  - cbn [mstep]. destruct (do_request (mep s sd o') m) as [e r] eqn:Er.
    destruct r as [| |p]; try (left; reflexivity).
    destruct (Nat.eq_dec o' o) as [->|Hne].
    + right. exists (Req sd m). split.
      * destruct sd, m; exact Hok.
      * destruct sd; cbn [cstep]; unfold proj at 2; cbn [epA epB]; rewrite Er; psimp; reflexivity.
    + left. pose proof Hne as Hne2. apply Nat.eqb_neq in Hne.
      assert (Hne' : Nat.eqb o o' = false) by (rewrite Nat.eqb_sym; exact Hne).
      destruct sd; psimp; rewrite ?Hne', ?Hne, ?andb_false_r; cbn [app]; rewrite ?app_nil_r; reflexivity.
  - cbn [mstep]. destruct (mq s from) as [|[o' m] rest] eqn:Eq; [left; reflexivity|].
    destruct (recv (mpol s (other from) o') (mep s (other from) o') m) as [[e evs] c] eqn:Er.
    destruct (Nat.eq_dec o' o) as [->|Hne].
    + right. exists (Dlv from). split; [reflexivity|].
      destruct from; cbn [other] in Er; cbn [cstep]; unfold proj at 2 3 4 5 6; cbn [qAB qBA polA polB epA epB];
        rewrite Eq; cbn [only flat_map fst snd app]; rewrite Nat.eqb_refl; cbn [app]; fold (only o rest);
        rewrite Er; psimp; reflexivity.
    + left. pose proof Hne as Hne2. apply Nat.eqb_neq in Hne.
      assert (Hne' : Nat.eqb o o' = false) by (rewrite Nat.eqb_sym; exact Hne).
      destruct from; psimp; rewrite ?Hne', ?Hne, ?andb_false_r, ?(only_pairs_other o o' _ Hne2), ?app_nil_r, ?Eq;
        cbn [only flat_map fst snd app]; rewrite ?Hne; reflexivity.
Qed.

Lemma proj_reach : forall s, mreach s -> forall o, creach (proj o s).
Proof.
  induction 1 as [p|s a Hr IH Hok]; intros o.
  - apply (cr_init (p A o) (p B o)).
  - destruct (proj_step o s a Hok) as [E|(ca & Hc & E)]; rewrite E; [apply IH|].
    apply cr_step; [apply IH|exact Hc].
Qed.

Lemma only_nil : forall o, only o [] = [].
Proof. reflexivity. Qed.

Lemma many_options_agree : forall s, mreach s -> mq s A = [] -> mq s B = [] -> forall o,
  yes (us (mep s A o)) = yes (him (mep s B o)) /\ yes (us (mep s B o)) = yes (him (mep s A o))
  /\ neg (us (mep s A o)) = false /\ neg (him (mep s A o)) = false
  /\ neg (us (mep s B o)) = false /\ neg (him (mep s B o)) = false.
Proof.
  intros s Hs H1 H2 o. pose proof (proj_reach s Hs o) as Hr.
  apply (quiescent_agree (proj o s) Hr); unfold proj; cbn [qAB qBA]; [rewrite H1|rewrite H2]; reflexivity.
Qed.

Lemma many_options_no_crash : forall s, mreach s -> forall from o m rest,
  mq s from = (o, m) :: rest ->
  snd (recv (mpol s (other from) o) (mep s (other from) o) m) = false.
Proof.
  intros s Hs from o m rest Hq. pose proof (proj_reach s Hs o) as Hr.
  pose proof (no_crash (proj o s) (Dlv from) Hr eq_refl) as H.
  destruct from; cbn [cstep other] in H |- *; unfold proj in H; cbn [qAB qBA polA polB epA epB] in H;
    rewrite Hq in H; cbn [only flat_map fst snd app] in H; rewrite Nat.eqb_refl in H; cbn [app] in H;
    destruct (recv _ _ m) as [[e evs] c]; exact H.
Qed.

(** a non-trivial reachable state: crossing will/do, then a dont overtaking, three commands in flight *)
Example crossing_reachable :
  let acts := [Req A WILL; Req B DO; Dlv A; Dlv B; Req B DONT; Req A WONT] in
  ok_run (cinit (mkpol true true) (mkpol true true)) acts = true
  /\ qAB (fst (crun (cinit (mkpol true true) (mkpol true true)) acts)) = [WONT]
  /\ qBA (fst (crun (cinit (mkpol true true) (mkpol true true)) acts)) = [DONT]
  /\ mu (fst (crun (cinit (mkpol true true) (mkpol true true)) acts)) = 2.
Proof. repeat split; vm_compute; reflexivity. Qed.
