(** C39: telnet option negotiation (src/twisted/conch/telnet.py).

    The transition tables (which perspective a received command looks at, the handler chosen by
    (state, negotiating), what each handler does, the four request methods) are GENERATED from the source
    in Gen.v; this file gives them an operational meaning:
      - one endpoint and one option: [recv] (telnet_WILL/WONT/DO/DONT) and [do_request] (will/wont/do/dont);
      - [cst]/[cstep]: two endpoints A and B, one option, one FIFO channel per direction carrying the
        negotiation commands in flight, the enableLocal/enableRemote policy of each endpoint;
      - [mst]/[mstep]: the same with any number of options sharing the two channels (what the harness
        drives: two real Telnet objects whose written bytes are held in a controlled in-flight queue).
    No proofs here. *)
From Coq Require Import List Bool Arith.
From C39 Require Import Base Gen.
Import ListNotations.

(** ---- one endpoint, one option ---- *)
Record pol := mkpol { accL : bool; accR : bool }.       (* what enableLocal(opt) / enableRemote(opt) return *)
Definition hook_result (pl : pol) (h : hook) : bool :=
  match h with EnableLocal => accL pl | EnableRemote => accR pl | _ => false end.

Record pst := mkp { yes : bool; neg : bool }.            (* _Perspective.state == "yes", .negotiating *)
Record ep := mke { us : pst; him : pst }.                (* _OptionState *)
Definition get (e : ep) (p : persp) : pst := match p with Us => us e | Him => him e end.
Definition set (e : ep) (p : persp) (v : pst) : ep :=
  match p with Us => mke v (him e) | Him => mke (us e) v end.
Definition ep0 : ep := mke (mkp false false) (mkp false false).

(** what a handler does that can be seen from outside, in order *)
Inductive oev := OSend (m : msg) | OFire (r : res) | OHook (h : hook) | OCrash.

(** running a handler body on the perspective it works on: new perspective, visible effects, and whether
    an AssertionError left the handler (the remaining statements are then skipped) *)
Fixpoint exec_a (pl : pol) (a : action) (p : pst) {struct a} : pst * list oev * bool :=
  let fix exec_l (l : list action) (p : pst) {struct l} : pst * list oev * bool :=
    match l with
    | [] => (p, [], false)
    | x :: r =>
        let '(p1, e1, c1) := exec_a pl x p in
        if c1 then (p1, e1, true)
        else let '(p2, e2, c2) := exec_l r p1 in (p2, e1 ++ e2, c2)
    end in
  match a with
  | SetState b => (mkp b (neg p), [], false)
  | SetNeg b => (mkp (yes p) b, [], false)
  | Fire r => (p, [OFire r], false)
  | Send m => (p, [OSend m], false)
  | Call h => (p, [OHook h], false)
  | IfHook h a b =>
      let '(p', e, c) := if hook_result pl h then exec_l a p else exec_l b p in (p', OHook h :: e, c)
  | AssertHook h => if hook_result pl h then (p, [OHook h], false) else (p, [OHook h; OCrash], true)
  | AssertFalse => (p, [OCrash], true)
  end.

Fixpoint exec_l (pl : pol) (l : list action) (p : pst) : pst * list oev * bool :=
  match l with
  | [] => (p, [], false)
  | x :: r =>
      let '(p1, e1, c1) := exec_a pl x p in
      if c1 then (p1, e1, true)
      else let '(p2, e2, c2) := exec_l pl r p1 in (p2, e1 ++ e2, c2)
  end.

(** commandReceived(WILL/WONT/DO/DONT, option) *)
Definition recv (pl : pol) (e : ep) (m : msg) : ep * list oev * bool :=
  let P := handler_persp m in
  let ps := get e P in
  let '(ps', evs, c) := exec_l pl (handler m (yes ps) (neg ps)) ps in
  (set e P ps', evs, c).

(** will / wont / do / dont *)
Inductive rres := RNegotiating | RErr (e : reqerr) | RAccepted (p : persp).
Definition do_request (e : ep) (m : msg) : ep * rres :=
  if neg (us e) || neg (him e) then (e, RNegotiating)
  else
    let r := request m in
    let ps := get e (rq_persp r) in
    if Bool.eqb (yes ps) (rq_when r) then (e, RErr (rq_err r))
    else (set e (rq_persp r) (mkp (yes ps) true), RAccepted (rq_persp r)).

Definition sent (evs : list oev) : list msg :=
  flat_map (fun e => match e with OSend m => [m] | _ => [] end) evs.

(** ---- two endpoints, one option ---- *)
Inductive side := A | B.
Record cst := mkc { polA : pol; polB : pol; epA : ep; epB : ep; qAB : list msg; qBA : list msg }.
Inductive act := Req (s : side) (m : msg) | Dlv (from : side).

(** what happens to the request Deferreds: (side, perspective) names the Deferred slot *)
Inductive sev := SIssue (s : side) (p : persp) | SFire (s : side) (p : persp) (r : res).

Definition fires (s : side) (m : msg) (evs : list oev) : list sev :=
  flat_map (fun e => match e with OFire r => [SFire s (handler_persp m) r] | _ => [] end) evs.

(** new state, whether an AssertionError was raised, Deferred events *)
Definition cstep (s : cst) (a : act) : cst * bool * list sev :=
  match a with
  | Req A m =>
      let '(e, r) := do_request (epA s) m in
      match r with
      | RAccepted p => (mkc (polA s) (polB s) e (epB s) (qAB s ++ [rq_send (request m)]) (qBA s), false, [SIssue A p])
      | _ => (s, false, [])
      end
  | Req B m =>
      let '(e, r) := do_request (epB s) m in
      match r with
      | RAccepted p => (mkc (polA s) (polB s) (epA s) e (qAB s) (qBA s ++ [rq_send (request m)]), false, [SIssue B p])
      | _ => (s, false, [])
      end
  | Dlv A =>
      match qAB s with
      | [] => (s, false, [])
      | m :: rest =>
          let '(e, evs, c) := recv (polB s) (epB s) m in
          (mkc (polA s) (polB s) (epA s) e rest (qBA s ++ sent evs), c, fires B m evs)
      end
  | Dlv B =>
      match qBA s with
      | [] => (s, false, [])
      | m :: rest =>
          let '(e, evs, c) := recv (polA s) (epA s) m in
          (mkc (polA s) (polB s) e (epB s) (qAB s ++ sent evs) rest, c, fires A m evs)
      end
  end.

(** the property's hypothesis: "policies accept the options they themselves request" *)
Definition pol_of (s : cst) (sd : side) : pol := match sd with A => polA s | B => polB s end.
Definition ok_act (s : cst) (a : act) : bool :=
  match a with
  | Req sd WILL => accL (pol_of s sd)
  | Req sd DO => accR (pol_of s sd)
  | _ => true
  end.

Definition cinit (pa pb : pol) : cst := mkc pa pb ep0 ep0 [] [].

Definition all_pols : list pol := [mkpol false false; mkpol false true; mkpol true false; mkpol true true].
Definition all_msgs : list msg := [WILL; WONT; DO; DONT].
Definition all_acts : list act :=
  map (Req A) all_msgs ++ map (Req B) all_msgs ++ [Dlv A; Dlv B].
Definition inits : list cst := flat_map (fun pa => map (cinit pa) all_pols) all_pols.

(** ---- decidable equality of states (for the reflection) ---- *)
Definition msg_eqb (a b : msg) : bool :=
  match a, b with WILL, WILL | WONT, WONT | DO, DO | DONT, DONT => true | _, _ => false end.
Fixpoint msgs_eqb (a b : list msg) : bool :=
  match a, b with
  | [], [] => true
  | x :: r, y :: r' => msg_eqb x y && msgs_eqb r r'
  | _, _ => false
  end.
Definition pol_eqb (a b : pol) : bool := Bool.eqb (accL a) (accL b) && Bool.eqb (accR a) (accR b).
Definition pst_eqb (a b : pst) : bool := Bool.eqb (yes a) (yes b) && Bool.eqb (neg a) (neg b).
Definition ep_eqb (a b : ep) : bool := pst_eqb (us a) (us b) && pst_eqb (him a) (him b).
Definition cst_eqb (a b : cst) : bool :=
  pol_eqb (polA a) (polA b) && pol_eqb (polB a) (polB b) && ep_eqb (epA a) (epA b) && ep_eqb (epB a) (epB b)
  && msgs_eqb (qAB a) (qAB b) && msgs_eqb (qBA a) (qBA b).
Definition mem (s : cst) (l : list cst) : bool := existsb (cst_eqb s) l.

(** successors under the allowed actions; breadth-first closure *)
Definition succs (s : cst) : list cst :=
  flat_map (fun a => if ok_act s a then [fst (fst (cstep s a))] else []) all_acts.
Definition add_new (seen : list cst) (s : cst) : list cst := if mem s seen then seen else seen ++ [s].
Definition expand (seen : list cst) : list cst := fold_left (fun acc s => fold_left add_new (succs s) acc) seen seen.
Fixpoint iter (n : nat) (l : list cst) : list cst := match n with 0 => l | S k => iter k (expand l) end.

(** the measure: the length of the longest delivery-only run from a state (explored to depth [fuel]) *)
Definition deliveries (s : cst) : list cst :=
  (match qAB s with [] => [] | _ => [fst (fst (cstep s (Dlv A)))] end)
  ++ (match qBA s with [] => [] | _ => [fst (fst (cstep s (Dlv B)))] end).
Fixpoint height (fuel : nat) (s : cst) : nat :=
  match fuel with
  | 0 => 0
  | S f => fold_left Nat.max (map (fun t => S (height f t)) (deliveries s)) 0
  end.
Definition mu (s : cst) : nat := height 8 s.

Definition quiescent (s : cst) : bool := match qAB s, qBA s with [], [] => true | _, _ => false end.
Definition no_flags (s : cst) : bool :=
  negb (neg (us (epA s)) || neg (him (epA s)) || neg (us (epB s)) || neg (him (epB s))).
Definition agree (s : cst) : bool :=
  Bool.eqb (yes (us (epA s))) (yes (him (epB s))) && Bool.eqb (yes (us (epB s))) (yes (him (epA s))).

(** ---- any number of options sharing the two channels ---- *)
Record mst := mkm { mpol : side -> nat -> pol; mep : side -> nat -> ep; mq : side -> list (nat * msg) }.
Inductive mact := MReq (s : side) (o : nat) (m : msg) | MDlv (from : side).
Definition side_eqb (a b : side) : bool := match a, b with A, A | B, B => true | _, _ => false end.
Definition other (s : side) : side := match s with A => B | B => A end.
Definition upd_ep (f : side -> nat -> ep) (s : side) (o : nat) (e : ep) : side -> nat -> ep :=
  fun s' o' => if side_eqb s' s && Nat.eqb o' o then e else f s' o'.
Definition upd_q (f : side -> list (nat * msg)) (s : side) (q : list (nat * msg)) : side -> list (nat * msg) :=
  fun s' => if side_eqb s' s then q else f s'.

(** what one step shows: the request's result, or the delivered command with the handler's effects *)
Inductive mobs := MRes (r : rres) | MRecv (o : nat) (m : msg) (evs : list oev) | MIdle.

Definition mstep (s : mst) (a : mact) : mst * mobs :=
  match a with
  | MReq sd o m =>
      let '(e, r) := do_request (mep s sd o) m in
      match r with
      | RAccepted _ =>
          (mkm (mpol s) (upd_ep (mep s) sd o e) (upd_q (mq s) sd (mq s sd ++ [(o, rq_send (request m))])), MRes r)
      | _ => (s, MRes r)
      end
  | MDlv from =>
      match mq s from with
      | [] => (s, MIdle)
      | (o, m) :: rest =>
          let to := other from in
          let '(e, evs, c) := recv (mpol s to o) (mep s to o) m in
          let q1 := upd_q (mq s) from rest in
          (mkm (mpol s) (upd_ep (mep s) to o e) (upd_q q1 to (q1 to ++ map (pair o) (sent evs))), MRecv o m evs)
      end
  end.

Definition minit (p : side -> nat -> pol) : mst := mkm p (fun _ _ => ep0) (fun _ => []).

(** the one-option system seen inside the many-option one *)
Definition only (o : nat) (q : list (nat * msg)) : list msg :=
  flat_map (fun x => if Nat.eqb (fst x) o then [snd x] else []) q.
Definition proj (o : nat) (s : mst) : cst :=
  mkc (mpol s A o) (mpol s B o) (mep s A o) (mep s B o) (only o (mq s A)) (only o (mq s B)).
Definition mok_act (s : mst) (a : mact) : bool :=
  match a with
  | MReq sd o WILL => accL (mpol s sd o)
  | MReq sd o DO => accR (mpol s sd o)
  | _ => true
  end.
