(** C39: vocabulary shared by the generated tables (Gen.v) and the model. *)
From Coq Require Import List Bool.
Import ListNotations.

Inductive persp := Us | Him.
Inductive msg := WILL | WONT | DO | DONT.
Inductive hook := EnableLocal | EnableRemote | DisableLocal | DisableRemote.
Inductive res := ROk | RRefused.                 (* d.callback(True) | d.errback(OptionRefused(option)) *)
Inductive reqerr := AlreadyEnabled | AlreadyDisabled.

(** the statements the 16 negotiation handlers of telnet.py are made of; every handler works on one
    perspective (state.us or state.him), fixed by the map it belongs to *)
Inductive action :=
| SetState (yes : bool)                           (* state.P.state = "yes" / "no" *)
| SetNeg (b : bool)                               (* state.P.negotiating = b *)
| Fire (r : res)                                  (* d = state.P.onResult; state.P.onResult = None; d.callback/errback *)
| Send (m : msg)                                  (* self._do(option) ... *)
| Call (h : hook)                                 (* self.disableRemote(option) ..., result ignored *)
| IfHook (h : hook) (a b : list action)           (* if self.enableRemote(option): a else: b *)
| AssertHook (h : hook)                           (* assert self.enableRemote(option), ... *)
| AssertFalse.                                    (* assert False, ... *)

(** will/wont/do/dont: refuse with AlreadyNegotiating when either perspective is negotiating, with
    [rq_err] when the perspective [rq_persp] already has state [rq_when]; otherwise set negotiating on
    that perspective, store a new Deferred and send [rq_send] *)
Record reqspec := mkreq { rq_persp : persp; rq_when : bool; rq_err : reqerr; rq_send : msg }.
