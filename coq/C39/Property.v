(** C39 property theorems: telnet option negotiation always converges.
    The transition tables are GENERATED from telnet.py (Gen.v); Model.v runs them.
    [cst] = two endpoints A and B, ONE option, the commands in flight in each direction (FIFO), each
    endpoint's enableLocal/enableRemote answers.  [creach] = reachable from fresh endpoints with ANY
    policies by ANY sequence of will/wont/do/dont requests on either side and deliveries of the oldest
    command in flight in either direction, under the property's hypothesis [ok_act] (an endpoint calls
    will only if its own enableLocal accepts, do only if its own enableRemote accepts).
    [mst]/[mreach] = the same with any number of options sharing the two channels. *)
From Coq Require Import List Bool Arith.
From C39 Require Import Base Gen Model Proofs.
Import ListNotations.

(** the reachable state space is finite: 313 states, listed in [R] (closed under every allowed action,
    checked by computation) *)
Theorem reachable_closed : forall s : cst, creach s -> In s R.
Proof. exact reach_in_R. Qed.
Print Assumptions reachable_closed.

(** the "bogus" handlers will_yes_true / do_yes_true ([assert False]) and the assertion in will_no_true are
    never reached: no allowed action raises AssertionError in a reachable state *)
Theorem assert_false_handlers_unreachable : forall (s : cst) (a : act),
  creach s -> ok_act s a = true -> snd (fst (cstep s a)) = false.
Proof. exact no_crash. Qed.
Print Assumptions assert_false_handlers_unreachable.

(** no message loop: the measure [mu] (length of the longest delivery-only continuation) strictly
    decreases on every delivery from a reachable state ... *)
Theorem no_message_loop : forall (s : cst) (sd : side),
  creach s -> enabled s sd = true -> mu (fst (fst (cstep s (Dlv sd)))) < mu s.
Proof. exact mu_decreases. Qed.
Print Assumptions no_message_loop.

(** ... so when no new request is issued at most 4 more deliveries can happen, in any order *)
Theorem negotiation_terminates : forall (ds : list side) (s s' : cst),
  creach s -> deliver_all s ds = Some s' -> length ds <= 4.
Proof. exact no_loop. Qed.
Print Assumptions negotiation_terminates.

(** once everything is delivered both sides agree on whether the option is enabled on each side, and
    nothing is left negotiating *)
Theorem quiescent_states_agree : forall s : cst,
  creach s -> qAB s = [] -> qBA s = [] ->
  yes (us (epA s)) = yes (him (epB s)) /\ yes (us (epB s)) = yes (him (epA s))
  /\ neg (us (epA s)) = false /\ neg (him (epA s)) = false /\ neg (us (epB s)) = false /\ neg (him (epB s)) = false.
Proof. exact quiescent_agree. Qed.
Print Assumptions quiescent_states_agree.

(** every request's Deferred fires exactly once: on each Deferred slot (side, perspective) the events of
    ANY run from fresh endpoints alternate Issue, Fire, Issue, Fire, ... (so at every moment
    fired <= issued <= fired + 1, a Deferred never fires twice nor before being issued), and when the run
    respects the hypothesis and nothing is left in flight, issued = fired *)
Theorem every_request_deferred_fires_once : forall (pa pb : pol) (acts : list act) (sd : side) (p : persp),
  let r := crun (cinit pa pb) acts in
  (exists b, alt sd p false (snd r) = Some b
             /\ count_issue sd p (snd r) = count_fire sd p (snd r) + (if b then 1 else 0))
  /\ (ok_run (cinit pa pb) acts = true -> qAB (fst r) = [] -> qBA (fst r) = [] ->
      count_issue sd p (snd r) = count_fire sd p (snd r)).
Proof. exact fires_once. Qed.
Print Assumptions every_request_deferred_fires_once.

(** options are independent: every option of the many-option system behaves as a reachable one-option
    system ... *)
Theorem options_independent : forall s : mst, mreach s -> forall o : nat, creach (proj o s).
Proof. exact proj_reach. Qed.
Print Assumptions options_independent.

(** ... hence, for any number of options sharing the channels, with nothing in flight both sides agree
    on every option and nothing is negotiating *)
Theorem quiescent_states_agree_all_options : forall s : mst,
  mreach s -> mq s A = [] -> mq s B = [] -> forall o : nat,
  yes (us (mep s A o)) = yes (him (mep s B o)) /\ yes (us (mep s B o)) = yes (him (mep s A o))
  /\ neg (us (mep s A o)) = false /\ neg (him (mep s A o)) = false
  /\ neg (us (mep s B o)) = false /\ neg (him (mep s B o)) = false.
Proof. exact many_options_agree. Qed.
Print Assumptions quiescent_states_agree_all_options.

(** ... and no delivery ever reaches an assertion *)
Theorem no_assertion_any_number_of_options : forall s : mst, mreach s ->
  forall (from : side) (o : nat) (m : msg) (rest : list (nat * msg)),
  mq s from = (o, m) :: rest ->
  snd (recv (mpol s (other from) o) (mep s (other from) o) m) = false.
Proof. exact many_options_no_crash. Qed.
Print Assumptions no_assertion_any_number_of_options.
