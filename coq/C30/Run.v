(** C30: printers used by the correspondence check only. *)
From Coq Require Import List Arith NArith ZArith Bool String.
From TwLib Require Import Show PyBytes Seg FramingShow.
From C30 Require Import Text Model.
Import ListNotations.
Local Open Scope string_scope.

(** bytes order of Python (lexicographic, shorter prefix first) *)
Fixpoint ble (a b : bytes) : bool :=
  match a, b with
  | [], _ => true
  | _ :: _, [] => false
  | x :: a', y :: b' => if (x <? y)%N then true else if (y <? x)%N then false else ble a' b'
  end.
Fixpoint insert_item (p : item) (l : box) : box :=
  match l with
  | [] => [p]
  | q :: r => if ble (fst p) (fst q) then p :: l else q :: insert_item p r
  end.
Definition sort_items (b : box) : box := fold_right insert_item [] b.

Definition show_box (b : box) : string :=
  "B[" ++ String.concat "," (map (fun p => show_hex (fst p) ++ "=" ++ show_hex (snd p)) (sort_items b)) ++ "]".

Definition show_recv (r : list box * option (mode * bytes)) : string :=
  String.concat ";" (map show_box (fst r)) ++ (match snd r with None => " |closed" | Some _ => " |open" end).

Fixpoint show_val (v : val) : string :=
  match v with
  | VInt z => "i" ++ show_Z z
  | VStr s => "s" ++ show_hex s
  | VBool b => if b then "bT" else "bF"
  | VList l => "[" ++ String.concat "," (map show_val l) ++ "]"
  | VDec (DFin neg c e) => "d" ++ (if neg then "-" else "") ++ show_N c ++ "e" ++ show_Z e
  | VDec (DInf neg) => "d" ++ (if neg then "-" else "") ++ "Inf"
  | VDec (DNaN neg sig p) => "d" ++ (if neg then "-" else "") ++ (if sig then "sNaN" else "NaN") ++ show_N p
  | VDate t => "t" ++ String.concat "," (map show_N [yr t; mon t; day t; hr t; mnt t; sec t; usec t]) ++ "," ++ show_Z (off t)
  | VUni s => "u" ++ String.concat "." (map show_N s)
  end.

Inductive case :=
| Recv (cs : list bytes)
| RecvFamily (lim : nat) (s : bytes)
| Send (orig : bool) (items : box)
| Arg (t : ty) (v : val)
| SendSeq (bs : list box)
| DecHist (t : ty) (steps : list (bytes + val)).   (* fromString of raw bytes / of toString(value), one after the other on ONE argument object *)        (* sendBox called with each box in turn on one connection; then everything written is received *)

Definition run_case (c : case) : string :=
  match c with
  | Recv cs => show_recv (run amp_feed amp_init cs)
  | RecvFamily lim s => summary (map (fun cs => show_recv (run amp_feed amp_init cs)) (split_family lim s))
  | Send orig items =>
      match (if orig then serialize_orig else serialize) items with
      | Some b => "OK:" ++ show_hex b
      | None => "ERR"
      end
  | SendSeq bs =>
      let calls := map (fun b => match serialize b with Some w => "OK:" ++ show_hex w | None => "ERR:" end) bs in
      let wire := List.concat (map (fun b => match serialize b with Some w => w | None => [] end) bs) in
      String.concat " " calls ++ " => " ++ show_recv (run amp_feed amp_init [wire])
  | DecHist t steps =>
      String.concat " " (map (fun s =>
        match s with
        | inl raw => match dec t raw with Some v' => "D:" ++ show_val v' | None => "EXC" end
        | inr v => match enc t v with
                   | None => "ERR"
                   | Some b => match dec t b with Some v' => "D:" ++ show_val v' | None => "EXC" end
                   end
        end) steps)
  | Arg t v =>
      match enc t v with
      | None => "ERR"
      | Some b => "E:" ++ show_hex b ++ " D:" ++ (match dec t b with Some v' => show_val v' | None => "ERR" end)
      end
  end.
