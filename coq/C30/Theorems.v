(** C30: the property theorems with their proof scripts (Property.v restates each and closes it by [exact]). *)
From Coq Require Import Lia.
From Coq Require Import List Arith NArith ZArith Bool.
From TwLib Require Import PyBytes Seg.
From TwLib Require Import CodecsText FramingText.
From C30 Require Import Text Model ProofsText Proofs.
Import ListNotations.

Lemma amp_segmentation_invariant_proof : forall cs s, chunks cs s ->
  run amp_feed amp_init cs = run amp_feed amp_init [s].
Proof. intros cs s Hc. rewrite (amp_run cs s Hc), (amp_run [s] s (chunks_whole s)). reflexivity. 
Qed.



(** any sequence of boxes that serialize accepts (distinct keys, as in a dict), written one after the
    other and cut anywhere, is received as exactly these boxes, in order, with nothing left over *)
Lemma boxes_roundtrip_any_split_proof : forall bs ws cs,
  Forall2 (fun b w => serialize b = Some w /\ NoDup (map fst b)) bs ws ->
  chunks cs (concat ws) ->
  run amp_feed amp_init cs = (bs, Some (mode0, [])).
Proof.
  intros bs ws cs H Hc. rewrite (amp_run cs _ Hc).
  pose proof (read_boxes bs ws [] H) as HR. rewrite app_nil_r in HR. rewrite HR, amp_drain_nil. now rewrite app_nil_r.
Qed.



(** a history of sendBox calls on one connection, some of them with boxes that are refused: a refused box leaves
    nothing on the wire, so the peer receives exactly the accepted boxes, in order, whatever the segmentation *)
Lemma sendbox_history_roundtrip_proof : forall bs cs,
  Forall (fun b => NoDup (map fst b)) bs ->
  chunks cs (sent_wire bs) ->
  run amp_feed amp_init cs = (filter accepted bs, Some (mode0, [])).
Proof.
  intros bs cs H Hc. destruct (history_wires bs H) as (ws & Hf & Hw). rewrite Hw in Hc.
  rewrite (amp_run cs _ Hc).
  pose proof (read_boxes (filter accepted bs) ws [] Hf) as HR. rewrite app_nil_r in HR. rewrite HR, amp_drain_nil. now rewrite app_nil_r.
Qed.



(** serialize accepts exactly the boxes whose keys have 1..255 bytes and whose values have at most 65535 *)
Lemma representable_box_accepted_proof : forall items, forallb item_ok items = true -> exists w, serialize items = Some w.
Proof. exact serialize_accepts. 
Qed.



Lemma unrepresentable_box_refused_proof : forall items k v, In (k, v) items ->
  (length k = 0 \/ 255 < length k \/ (65535 < N.of_nat (length v))%N) -> serialize items = None.
Proof.
  intros items k v Hin Hbad. apply serialize_refuses. apply existsb_exists. exists (k, v). split; [assumption|].
  apply negb_true_iff. unfold item_ok. cbn [fst snd].
  destruct Hbad as [H|[H|H]].
  - rewrite H. reflexivity.
  - assert (E : length k <=? 255 = false) by now apply Nat.leb_gt. rewrite E. now rewrite andb_false_r.
  - assert (E : (N.of_nat (length v) <=? 65535)%N = false) by now apply N.leb_gt. rewrite E. now rewrite andb_false_r.
Qed.



(** serialize as it is at the pinned commit accepts a box with an empty key and writes the box
    terminator in its place: the receiver gets an empty box and never the box that was sent (finding F11) *)
Lemma empty_key_refuted_proof : exists items w,
  serialize_orig items = Some w /\ fst (run amp_feed amp_init [w]) <> [items] /\ serialize items = None.
Proof.
  destruct empty_key_witness as (w & H1 & H2 & H3). eexists _, w. split; [exact H1|]. split; [|exact H2].
  rewrite H3. discriminate.
Qed.



(** Integer, String, Boolean, Decimal, DateTime, Unicode and ListOf of these (nested to any depth): whatever toString
    produces, fromString maps back to the value.  Float is NOT covered: repr()/float() are CPython oracles with no model
    here; the check runs its round trip on the implementation (bit for bit).  Path is Unicode plus a FilePath wrapper
    (not modelled), AmpList is a sequence of boxes ([boxes_roundtrip_any_split]). *)
Lemma arg_roundtrip_proof : forall t v b, enc t v = Some b -> dec t b = Some v.
Proof. exact codec_roundtrip. 
Qed.



Lemma integer_roundtrip_proof : forall z, bytes_to_Z (Z_to_bytes z) = Some z.
Proof. exact int_roundtrip. 
Qed.



(** Decimal: every (sign, coefficient, exponent), every infinity and every NaN / sNaN with any payload reads back exactly
    from its to-scientific-string text: no rounding, no exponent limit (this is what a context-dependent fromString breaks) *)
Lemma decimal_roundtrip_proof : forall d, text_to_dec (dec_to_text d) = Some d.
Proof. exact decimal_text_roundtrip. 
Qed.



(** DateTime: every valid date/time with microseconds and a UTC offset of whole minutes strictly inside one day *)
Lemma datetime_roundtrip_proof : forall t, dt_valid t = true -> text_to_dt (dt_to_text t) = Some t.
Proof. exact datetime_text_roundtrip. 
Qed.



(** Unicode: every string of scalar values survives UTF-8; a string with a lone surrogate is refused *)
Lemma unicode_roundtrip_proof : forall s,
  (forallb scalar s = true -> exists b, uni_to_bytes s = Some b /\ utf8_decode b = Some s) /\
  (forallb scalar s = false -> uni_to_bytes s = None).
Proof.
  intros s. split; intros H; unfold uni_to_bytes; rewrite H; [|reflexivity].
  eexists. split; [reflexivity | now apply utf8_roundtrip].
Qed.



(** a leading U+FEFF is a character like any other: it is neither added nor stripped *)
Lemma unicode_bom_example_proof :
  uni_to_bytes [65279; 65279; 120]%N = Some [239; 187; 191; 239; 187; 191; 120]%N /\
  dec TUni [239; 187; 191; 239; 187; 191; 120]%N = Some (VUni [65279; 65279; 120]%N) /\
  dec (TList TUni) (enc16 [239; 187; 191] ++ enc16 [97; 239; 187; 191])%N = Some (VList [VUni [65279]; VUni [97; 65279]]%N).
Proof. repeat split; vm_compute; reflexivity. 
Qed.



Lemma decimal_example_proof :
  dec_to_text (DFin true 12345 (-7)) = [45; 48; 46; 48; 48; 49; 50; 51; 52; 53]%N /\
  dec_to_text (DFin false 12345 (-12)) = [49; 46; 50; 51; 52; 53; 69; 45; 56]%N /\
  text_to_dec (dec_to_text (DFin false 1234567890123456789012345678901234567890 1000000)) = Some (DFin false 1234567890123456789012345678901234567890 1000000).
Proof. repeat split; vm_compute; reflexivity. 
Qed.



(** the hypotheses are inhabited: two boxes, the second with a 1-byte key and an empty value, cut inside a length prefix *)
Lemma boxes_example_proof :
  let b1 := [([97], [1; 2; 3]); ([98; 99], [])]%N in
  let b2 := [([122], [])]%N in
  exists w1 w2, serialize b1 = Some w1 /\ serialize b2 = Some w2 /\
    run amp_feed amp_init [firstn 1 (w1 ++ w2); firstn 6 (skipn 1 (w1 ++ w2)); skipn 7 (w1 ++ w2)] = ([b1; b2], Some (mode0, [])).
Proof. eexists _, _. split; [vm_compute; reflexivity|]. split; vm_compute; reflexivity. 
Qed.
