(** C30 (model, no proofs): the text forms of the argument types Decimal, DateTime and Unicode.
    - Decimal.toString = str(d) (the to-scientific-string layout of the decimal arithmetic
      specification, as implemented by decimal.Decimal.__str__); Decimal.fromString = decimal.Decimal(text),
      modelled for the spellings __str__ produces (upper-case E, "Infinity", "NaN", "sNaN";
      other accepted spellings — "inf", "1e5", "+1", "1_000", surrounding blanks — are outside the model).
      A Decimal is (sign, coefficient, exponent) or a special; the coefficient is a natural number, so
      its digit string is canonical by construction (as_tuple() has no leading zeros).
    - DateTime: the fixed 32-character form "%04i-%02i-%02iT%02i:%02i:%02i.%06i%s%02i:%02i".
    - Unicode: UTF-8 of a string of code points; lone surrogates are refused (UnicodeEncodeError). *)
From Coq Require Import List Arith NArith ZArith Bool.
From TwLib Require Import PyBytes CodecsText FramingText.
Import ListNotations.

(** ** Decimal *)
Inductive decimal :=
| DFin (neg : bool) (c : N) (e : Z)              (* (-1)^neg * c * 10^e *)
| DInf (neg : bool)
| DNaN (neg sig : bool) (payload : N).           (* payload 0 = no diagnostic digits *)

Definition INFINITY : bytes := [73; 110; 102; 105; 110; 105; 116; 121]%N.
Definition NAN : bytes := [78; 97; 78]%N.
Definition SNAN : bytes := [115; 78; 97; 78]%N.
Definition DOT : N := 46%N.
Definition EXP : N := 69%N.
Definition sign_text (neg : bool) : bytes := if neg then [MINUSc] else [].

(** where the decimal point goes: [leftdigits] if the plain notation applies, else 1 (scientific) *)
Definition dotplace (e : Z) (n : Z) : Z :=
  let leftdigits := (e + n)%Z in
  if (e <=? 0)%Z && (-6 <? leftdigits)%Z then leftdigits else 1%Z.

Definition layout (ds : bytes) (dp : Z) : bytes * bytes :=
  let n := Z.of_nat (length ds) in
  if (dp <=? 0)%Z then ([48%N], DOT :: zeros (Z.to_nat (- dp)) ++ ds)
  else if (n <=? dp)%Z then (ds ++ zeros (Z.to_nat (dp - n)), [])
  else (firstn (Z.to_nat dp) ds, DOT :: skipn (Z.to_nat dp) ds).

Definition exp_text (leftdigits dp : Z) : bytes :=
  if (leftdigits =? dp)%Z then [] else EXP :: signed_text (leftdigits - dp).

Definition dec_to_text (d : decimal) : bytes :=
  match d with
  | DInf neg => sign_text neg ++ INFINITY
  | DNaN neg sig p => sign_text neg ++ (if sig then SNAN else NAN) ++ (if N.eqb p 0 then [] else N_to_digits p)
  | DFin neg c e =>
      let ds := N_to_digits c in
      let n := Z.of_nat (length ds) in
      let dp := dotplace e n in
      sign_text neg ++ fst (layout ds dp) ++ snd (layout ds dp) ++ exp_text (e + n) dp
  end.

(** E[-+]?digits *)
Definition parse_exp (x : bytes) : option Z :=
  match x with
  | d :: _ => if is_digit d then (if all_digits x then Some (Z.of_N (digits_to_N x)) else None) else parse_signed x
  | [] => None
  end.

Definition strip_sign (b : bytes) : bool * bytes :=
  match b with
  | x :: r => if N.eqb x MINUSc then (true, r) else (false, b)
  | [] => (false, [])
  end.

Definition parse_number (neg : bool) (r : bytes) : option decimal :=
  let mant := match split1 [EXP] r with Some (m, _) => m | None => r end in
  let ex := match split1 [EXP] r with Some (_, x) => parse_exp x | None => Some 0%Z end in
  let ip := match split1 [DOT] mant with Some (i, _) => i | None => mant end in
  let fp := match split1 [DOT] mant with Some (_, f) => f | None => [] end in
  match ex with
  | None => None
  | Some x =>
      if all_digits (ip ++ fp) && negb (match ip ++ fp with [] => true | _ => false end)
      then Some (DFin neg (digits_to_N (ip ++ fp)) (x - Z.of_nat (length fp)))
      else None
  end.

Definition text_to_dec (b : bytes) : option decimal :=
  let neg := fst (strip_sign b) in
  let r := snd (strip_sign b) in
  if beq r INFINITY then Some (DInf neg)
  else if startswith SNAN r then (if all_digits (skipn 4 r) then Some (DNaN neg true (digits_to_N (skipn 4 r))) else None)
  else if startswith NAN r then (if all_digits (skipn 3 r) then Some (DNaN neg false (digits_to_N (skipn 3 r))) else None)
  else parse_number neg r.

(** ** DateTime *)
Record datetime := mkdt { yr : N; mon : N; day : N; hr : N; mnt : N; sec : N; usec : N; off : Z }.  (* off: UTC offset in minutes *)

Definition leap (y : N) : bool := ((y mod 4 =? 0) && (negb (y mod 100 =? 0) || (y mod 400 =? 0)))%N.
Definition days_in_month (y m : N) : N :=
  if (m =? 2)%N then (if leap y then 29 else 28)%N
  else if ((m =? 4) || (m =? 6) || (m =? 9) || (m =? 11))%N then 30%N else 31%N.

(** what datetime.datetime(...) accepts, and the tzinfo offset strictly inside one day *)
Definition dt_valid (t : datetime) : bool :=
  ((1 <=? yr t) && (yr t <=? 9999) && (1 <=? mon t) && (mon t <=? 12) && (1 <=? day t) && (day t <=? days_in_month (yr t) (mon t))
   && (hr t <? 24) && (mnt t <? 60) && (sec t <? 60) && (usec t <? 1000000))%N
  && ((-1440 <? off t) && (off t <? 1440))%Z.

Definition DASH : N := 45%N.
Definition TEE : N := 84%N.
Definition COLON : N := 58%N.

Definition dt_to_text (t : datetime) : bytes :=
  let a := Z.to_N (Z.abs (off t)) in
  pad 4 (yr t) ++ [DASH] ++ pad 2 (mon t) ++ [DASH] ++ pad 2 (day t) ++ [TEE] ++
  pad 2 (hr t) ++ [COLON] ++ pad 2 (mnt t) ++ [COLON] ++ pad 2 (sec t) ++ [DOT] ++ pad 6 (usec t) ++
  [if (0 <? off t)%Z then PLUS else MINUSc] ++ pad 2 (a / 60)%N ++ [COLON] ++ pad 2 (a mod 60)%N.

Definition sub (from len : nat) (b : bytes) : bytes := firstn len (skipn from b).   (* b[from:from+len] *)

(** int(s[p]) for a slice of ASCII digits *)
Definition field (from len : nat) (b : bytes) : option N :=
  let f := sub from len b in if all_digits f && (length f =? len) then Some (digits_to_N f) else None.

Definition text_to_dt (b : bytes) : option datetime :=
  if negb (length b =? 32) then None
  else
    match field 0 4 b, field 5 2 b, field 8 2 b, field 11 2 b, field 14 2 b, field 17 2 b, field 20 6 b, field 27 2 b, field 30 2 b with
    | Some y, Some mo, Some d, Some h, Some mi, Some s, Some us, Some oh, Some om =>
        let sg := nth 26 b 0%N in
        if negb (N.eqb sg PLUS || N.eqb sg MINUSc) then None
        else
          let minutes := Z.of_N (oh * 60 + om) in
          let t := mkdt y mo d h mi s us (if N.eqb sg MINUSc then (- minutes)%Z else minutes) in
          if dt_valid t then Some t else None
    | _, _, _, _, _, _, _, _, _ => None
    end.

(** ** Unicode *)
Definition uni_to_bytes (s : list N) : option bytes := if forallb scalar s then Some (utf8_str s) else None.
