(** C30 proofs: the text forms of Decimal and DateTime read back to the value written. *)
From Coq Require Import List Arith NArith ZArith Bool Lia.
From TwLib Require Import PyBytes CodecsText FramingText.
From C30 Require Import Text.
Import ListNotations.

(* ------------------------------------------------------------------------------------------ *)
(** * Decimal *)
Lemma is_digit_range : forall d, is_digit d = true -> (48 <= d <= 57)%N.
Proof. intros d H. unfold is_digit in H. apply andb_true_iff in H as [H1 H2]. apply N.leb_le in H1, H2. lia. Qed.

Lemma all_digits_app : forall a b, all_digits (a ++ b) = all_digits a && all_digits b.
Proof. intros. unfold all_digits. apply forallb_app. Qed.

Lemma In_firstn' : forall (A : Type) k (l : list A) x, In x (firstn k l) -> In x l.
Proof. intros A k l x H. rewrite <- (firstn_skipn k l). apply in_or_app. now left. Qed.

Lemma all_digits_firstn : forall k ds, all_digits ds = true -> all_digits (firstn k ds) = true.
Proof.
  intros k ds H. unfold all_digits in *. apply forallb_forall. intros x Hx. rewrite forallb_forall in H.
  apply H. eapply In_firstn'; eauto.
Qed.

Lemma In_skipn : forall (A : Type) k (l : list A) x, In x (skipn k l) -> In x l.
Proof. intros A k l x H. rewrite <- (firstn_skipn k l). apply in_or_app. now right. Qed.

Lemma all_digits_skipn : forall k ds, all_digits ds = true -> all_digits (skipn k ds) = true.
Proof.
  intros k ds H. unfold all_digits in *. apply forallb_forall. intros x Hx. rewrite forallb_forall in H.
  apply H. eapply In_skipn; eauto.
Qed.

(** what [layout] produces when the point is not beyond the last digit *)
Lemma layout_spec : forall ds dp, all_digits ds = true -> ds <> [] -> (dp <= Z.of_nat (length ds))%Z ->
  exists ip fd, fst (layout ds dp) = ip /\ (snd (layout ds dp) = [] /\ fd = [] \/ snd (layout ds dp) = DOT :: fd) /\
    all_digits ip = true /\ ip <> [] /\ all_digits fd = true /\
    digits_to_N (ip ++ fd) = digits_to_N ds /\ Z.of_nat (length fd) = (Z.of_nat (length ds) - dp)%Z.
Proof.
  intros ds dp Hd Hne Hle. unfold layout.
  destruct (dp <=? 0)%Z eqn:E1.
  - apply Z.leb_le in E1. exists [48%N], (zeros (Z.to_nat (- dp)) ++ ds). cbn [fst snd].
    split; [reflexivity|]. split; [now right|]. split; [reflexivity|]. split; [discriminate|].
    split; [rewrite all_digits_app, zeros_digits; exact Hd|]. split.
    + change ([48%N] ++ zeros (Z.to_nat (- dp)) ++ ds) with (zeros (S (Z.to_nat (- dp))) ++ ds).
      apply digits_to_N_zeros_app.
    + rewrite app_length. unfold zeros. rewrite repeat_length. lia.
  - apply Z.leb_gt in E1. destruct (Z.of_nat (length ds) <=? dp)%Z eqn:E2.
    + apply Z.leb_le in E2. assert (dp = Z.of_nat (length ds)) as -> by lia.
      rewrite Z.sub_diag. cbn [Z.to_nat zeros repeat]. rewrite app_nil_r.
      exists ds, []. cbn [fst snd].
      split; [reflexivity|]. split; [now left|]. split; [assumption|]. split; [assumption|].
      split; [reflexivity|]. split; [now rewrite app_nil_r | simpl; lia].
    + apply Z.leb_gt in E2.
      exists (firstn (Z.to_nat dp) ds), (skipn (Z.to_nat dp) ds). cbn [fst snd].
      split; [reflexivity|]. split; [now right|]. split; [now apply all_digits_firstn|]. split.
      * destruct ds as [|x ds']; [congruence|]. destruct (Z.to_nat dp) eqn:Ek; [lia | discriminate].
      * split; [now apply all_digits_skipn|]. split; [now rewrite firstn_skipn | rewrite skipn_length; lia].
Qed.

Lemma dotplace_le : forall e n, (1 <= n)%Z -> (dotplace e n <= n)%Z.
Proof.
  intros e n Hn. unfold dotplace.
  destruct ((e <=? 0)%Z && (-6 <? e + n)%Z) eqn:E.
  - apply andb_true_iff in E. destruct E as [E1 E2]. apply Z.leb_le in E1. lia.
  - lia.
Qed.

Lemma DOT_not_digit : is_digit DOT = false. Proof. reflexivity. Qed.
Lemma EXP_not_digit : is_digit EXP = false. Proof. reflexivity. Qed.

Lemma parse_exp_signed : forall z, parse_exp (signed_text z) = Some z.
Proof.
  intros z. unfold parse_exp. pose proof (parse_signed_text z) as H.
  destruct z; cbn [signed_text] in *; (change (is_digit PLUS) with false || change (is_digit MINUSc) with false); cbv iota; exact H.
Qed.

Lemma parse_number_build : forall neg ip fd (dot : bool) (ex : option Z),
  all_digits ip = true -> ip <> [] -> all_digits fd = true -> (dot = false -> fd = []) ->
  parse_number neg (ip ++ (if dot then DOT :: fd else []) ++ (match ex with None => [] | Some z => EXP :: signed_text z end))
  = Some (DFin neg (digits_to_N (ip ++ fd)) ((match ex with None => 0 | Some z => z end) - Z.of_nat (length fd))).
Proof.
  intros neg ip fd dot ex Dip Nip Dfd Hdot.
  assert (Lip_e : lacks EXP ip = true) by apply (digits_lack EXP ip EXP_not_digit Dip).
  assert (Lfd_e : lacks EXP fd = true) by apply (digits_lack EXP fd EXP_not_digit Dfd).
  assert (Lip_d : lacks DOT ip = true) by apply (digits_lack DOT ip DOT_not_digit Dip).
  assert (Hne : forall l, ip ++ l <> []) by (intros l; destruct ip; [congruence | discriminate]).
  assert (Hfin : forall x, (if all_digits (ip ++ fd) && negb (match ip ++ fd with [] => true | _ => false end)
                            then Some (DFin neg (digits_to_N (ip ++ fd)) x) else None) = Some (DFin neg (digits_to_N (ip ++ fd)) x)).
  { intros x. rewrite all_digits_app, Dip, Dfd. destruct (ip ++ fd) eqn:Ez; [exfalso; eapply Hne; eauto | reflexivity]. }
  unfold parse_number.
  destruct dot.
  - (* a point and fraction digits *)
    assert (Lm : lacks EXP (ip ++ DOT :: fd) = true).
    { rewrite lacks_app, Lip_e. unfold lacks. cbn [forallb]. fold (lacks EXP fd). now rewrite Lfd_e. }
    destruct ex as [z|].
    + rewrite app_assoc. rewrite (lacks_split EXP (ip ++ DOT :: fd) (signed_text z) Lm). rewrite parse_exp_signed.
      rewrite (lacks_split DOT ip fd Lip_d). apply Hfin.
    + rewrite !app_nil_r. rewrite (lacks_none EXP (ip ++ DOT :: fd) Lm).
      rewrite (lacks_split DOT ip fd Lip_d). apply Hfin.
  - rewrite (Hdot eq_refl) in *. cbn [app].
    destruct ex as [z|].
    + rewrite (lacks_split EXP ip (signed_text z) Lip_e). rewrite parse_exp_signed.
      rewrite (lacks_none DOT ip Lip_d). apply Hfin.
    + rewrite !app_nil_r. rewrite (lacks_none EXP ip Lip_e). rewrite (lacks_none DOT ip Lip_d).
      rewrite app_nil_r in Hfin. rewrite app_nil_r. apply Hfin.
Qed.

Lemma number_roundtrip : forall neg ds e, all_digits ds = true -> ds <> [] ->
  let n := Z.of_nat (length ds) in
  let dp := dotplace e n in
  parse_number neg (fst (layout ds dp) ++ snd (layout ds dp) ++ exp_text (e + n) dp) = Some (DFin neg (digits_to_N ds) e).
Proof.
  intros neg ds e Hd Hne n dp.
  assert (Hn : (1 <= n)%Z) by (unfold n; destruct ds; [congruence | simpl; lia]).
  destruct (layout_spec ds dp Hd Hne (dotplace_le e n Hn)) as (ip & fd & Hip & Hsnd & Dip & Nip & Dfd & Hval & Hlen).
  rewrite Hip. fold n in Hlen. unfold exp_text.
  destruct (e + n =? dp)%Z eqn:Ee.
  - apply Z.eqb_eq in Ee. destruct Hsnd as [[Hs0 Hf0] | Hs0]; rewrite Hs0.
    + subst fd. rewrite (parse_number_build neg ip [] false None Dip Nip eq_refl (fun _ => eq_refl)).
      rewrite Hval. f_equal. f_equal. simpl in Hlen. simpl. lia.
    + rewrite (parse_number_build neg ip fd true None Dip Nip Dfd ltac:(discriminate)).
      rewrite Hval. f_equal. f_equal. lia.
  - apply Z.eqb_neq in Ee. destruct Hsnd as [[Hs0 Hf0] | Hs0]; rewrite Hs0.
    + subst fd. rewrite (parse_number_build neg ip [] false (Some (e + n - dp)%Z) Dip Nip eq_refl (fun _ => eq_refl)).
      rewrite Hval. f_equal. f_equal. simpl in Hlen. simpl. lia.
    + rewrite (parse_number_build neg ip fd true (Some (e + n - dp)%Z) Dip Nip Dfd ltac:(discriminate)).
      rewrite Hval. f_equal. f_equal. lia.
Qed.

(** the number text starts with a digit, so it is neither a sign nor a special *)
Lemma layout_head : forall ds dp, all_digits ds = true -> ds <> [] -> (dp <= Z.of_nat (length ds))%Z ->
  forall rest, exists d r, fst (layout ds dp) ++ rest = d :: r /\ is_digit d = true.
Proof.
  intros ds dp Hd Hne Hle rest.
  destruct (layout_spec ds dp Hd Hne Hle) as (ip & fd & Hip & _ & Dip & Nip & _).
  rewrite Hip. destruct ip as [|d ip']; [congruence|]. exists d, (ip' ++ rest). split; [reflexivity|].
  unfold all_digits in Dip. simpl in Dip. now apply andb_true_iff in Dip as [Dd _].
Qed.

Lemma not_special : forall neg d r, is_digit d = true ->
  text_to_dec (sign_text neg ++ d :: r) = parse_number neg (d :: r).
Proof.
  intros neg d r Hd. apply is_digit_range in Hd.
  assert (Hs : strip_sign (sign_text neg ++ d :: r) = (neg, d :: r)).
  { destruct neg; cbn [sign_text app strip_sign].
    - rewrite N.eqb_refl. reflexivity.
    - assert (E : N.eqb d MINUSc = false) by (apply N.eqb_neq; unfold MINUSc; lia). now rewrite E. }
  unfold text_to_dec. rewrite Hs. cbn [fst snd].
  assert (E1 : beq (d :: r) INFINITY = false).
  { unfold INFINITY. cbn [beq]. assert (E : N.eqb d 73 = false) by (apply N.eqb_neq; lia). now rewrite E. }
  assert (E2 : startswith SNAN (d :: r) = false).
  { unfold SNAN. cbn [startswith]. assert (E : N.eqb 115 d = false) by (apply N.eqb_neq; lia). now rewrite E. }
  assert (E3 : startswith NAN (d :: r) = false).
  { unfold NAN. cbn [startswith]. assert (E : N.eqb 78 d = false) by (apply N.eqb_neq; lia). now rewrite E. }
  now rewrite E1, E2, E3.
Qed.

Lemma nan_parse : forall (neg sig : bool) (pt : bytes), all_digits pt = true ->
  text_to_dec (sign_text neg ++ (if sig then SNAN else NAN) ++ pt) = Some (DNaN neg sig (digits_to_N pt)).
Proof. intros neg sig pt H. destruct neg, sig; unfold text_to_dec; simpl; rewrite H; reflexivity. Qed.

Theorem decimal_text_roundtrip : forall d, text_to_dec (dec_to_text d) = Some d.
Proof.
  intros [neg c e|neg|neg sig p].
  - cbn [dec_to_text].
    pose proof (N_to_digits_all_digits c) as Hd. pose proof (N_to_digits_nonempty c) as Hne.
    set (ds := N_to_digits c) in *. set (n := Z.of_nat (length ds)). set (dp := dotplace e n).
    assert (Hn : (1 <= n)%Z) by (unfold n; destruct ds; [congruence | simpl; lia]).
    destruct (layout_head ds dp Hd Hne (dotplace_le e n Hn) (snd (layout ds dp) ++ exp_text (e + n) dp)) as (d & r & Heq & Hdig).
    rewrite Heq, (not_special neg d r Hdig), <- Heq.
    pose proof (number_roundtrip neg ds e Hd Hne) as H. cbv zeta in H. fold n dp in H. rewrite H.
    unfold ds. now rewrite digits_to_N_to_digits.
  - destruct neg; reflexivity.
  - unfold dec_to_text.
    assert (Hp : all_digits (if N.eqb p 0 then [] else N_to_digits p) = true /\
                 digits_to_N (if N.eqb p 0 then [] else N_to_digits p) = p).
    { destruct (N.eqb p 0) eqn:E; [apply N.eqb_eq in E; subst; split; reflexivity|].
      split; [apply N_to_digits_all_digits | apply digits_to_N_to_digits]. }
    destruct Hp as [Hpd Hpv]. pose proof (nan_parse neg sig _ Hpd) as Hn. rewrite Hpv in Hn. exact Hn.
Qed.

(* ------------------------------------------------------------------------------------------ *)
(** * DateTime *)
Lemma sub_skip : forall (a r : bytes) from len, length a <= from -> sub from len (a ++ r) = sub (from - length a) len r.
Proof.
  intros a r from len H. unfold sub. rewrite skipn_app. rewrite (skipn_all2 a) by lia. reflexivity.
Qed.

Lemma sub_here : forall (a r : bytes) len, length a = len -> sub 0 len (a ++ r) = a.
Proof. intros a r len H. unfold sub. cbn [skipn]. rewrite <- H. rewrite firstn_app, firstn_all, Nat.sub_diag. cbn [firstn]. apply app_nil_r. Qed.

Lemma nth_skip : forall (a r : bytes) k d, length a <= k -> nth k (a ++ r) d = nth (k - length a) r d.
Proof. intros a r k d H. now apply app_nth2. Qed.

Lemma field_pad : forall w n r, 0 < w -> (n < 10 ^ N.of_nat w)%N -> field 0 w (pad w n ++ r) = Some n.
Proof.
  intros w n r Hw Hn. unfold field. rewrite (sub_here _ _ w (pad_length w n Hw Hn)).
  rewrite pad_digits, (pad_length w n Hw Hn), Nat.eqb_refl, pad_value. reflexivity.
Qed.

Lemma field_skip : forall (a r : bytes) from len, length a <= from -> field from len (a ++ r) = field (from - length a) len r.
Proof. intros. unfold field. now rewrite sub_skip. Qed.

Theorem datetime_text_roundtrip : forall t, dt_valid t = true -> text_to_dt (dt_to_text t) = Some t.
Proof.
  intros [y mo d h mi s us o] Hv. pose proof Hv as Hv0. unfold dt_valid in Hv. cbn [yr mon day hr mnt sec usec off] in Hv.
  repeat (apply andb_true_iff in Hv; destruct Hv as [Hv ?]).
  repeat match goal with H : (_ <=? _)%N = true |- _ => apply N.leb_le in H | H : (_ <? _)%N = true |- _ => apply N.ltb_lt in H
                    | H : (_ <? _)%Z = true |- _ => apply Z.ltb_lt in H end.
  apply N.leb_le in Hv.
  assert (Dm : (days_in_month y mo <= 31)%N).
  { unfold days_in_month. destruct (mo =? 2)%N; [destruct (leap y); lia|]. destruct ((mo =? 4) || (mo =? 6) || (mo =? 9) || (mo =? 11))%N; lia. }
  set (a := Z.to_N (Z.abs o)).
  assert (Ha : (a < 1440)%N) by (unfold a; lia).
  assert (L4 : length (pad 4 y) = 4) by (apply pad_length; [lia | simpl; lia]).
  assert (Lmo : length (pad 2 mo) = 2) by (apply pad_length; [lia | simpl; lia]).
  assert (Ld : length (pad 2 d) = 2) by (apply pad_length; [lia | simpl; lia]).
  assert (Lh : length (pad 2 h) = 2) by (apply pad_length; [lia | simpl; lia]).
  assert (Lmi : length (pad 2 mi) = 2) by (apply pad_length; [lia | simpl; lia]).
  assert (Ls : length (pad 2 s) = 2) by (apply pad_length; [lia | simpl; lia]).
  assert (Lus : length (pad 6 us) = 6) by (apply pad_length; [lia | simpl; lia]).
  assert (Loh : length (pad 2 (a / 60)) = 2) by (apply pad_length; [lia | simpl; lia]).
  assert (Lom : length (pad 2 (a mod 60)) = 2) by (apply pad_length; [lia | simpl; lia]).
  unfold text_to_dt, dt_to_text. cbn [yr mon day hr mnt sec usec off]. fold a.
  set (sg := if (0 <? o)%Z then PLUS else MINUSc).
  assert (Hlen : length (pad 4 y ++ [DASH] ++ pad 2 mo ++ [DASH] ++ pad 2 d ++ [TEE] ++ pad 2 h ++ [COLON] ++ pad 2 mi ++ [COLON] ++
                         pad 2 s ++ [DOT] ++ pad 6 us ++ [sg] ++ pad 2 (a / 60) ++ [COLON] ++ pad 2 (a mod 60)) = 32).
  { rewrite !app_length, L4, Lmo, Ld, Lh, Lmi, Ls, Lus, Loh, Lom. reflexivity. }
  rewrite Hlen. cbn [Nat.eqb negb].
  (* the nine fields *)
  Ltac skip1 := rewrite field_skip by (cbn [length]; lia); cbn [length Nat.sub].
  Ltac skipp L := rewrite field_skip by (rewrite L; lia); rewrite L; cbn [Nat.sub].
  rewrite (field_pad 4 y) by (try lia; simpl; lia).
  skipp L4. skip1. rewrite (field_pad 2 mo) by (try lia; simpl; lia).
  skipp L4. skip1. skipp Lmo. skip1. rewrite (field_pad 2 d) by (try lia; simpl; lia).
  skipp L4. skip1. skipp Lmo. skip1. skipp Ld. skip1. rewrite (field_pad 2 h) by (try lia; simpl; lia).
  skipp L4. skip1. skipp Lmo. skip1. skipp Ld. skip1. skipp Lh. skip1. rewrite (field_pad 2 mi) by (try lia; simpl; lia).
  skipp L4. skip1. skipp Lmo. skip1. skipp Ld. skip1. skipp Lh. skip1. skipp Lmi. skip1. rewrite (field_pad 2 s) by (try lia; simpl; lia).
  skipp L4. skip1. skipp Lmo. skip1. skipp Ld. skip1. skipp Lh. skip1. skipp Lmi. skip1. skipp Ls. skip1.
  rewrite (field_pad 6 us) by (try lia; simpl; lia).
  skipp L4. skip1. skipp Lmo. skip1. skipp Ld. skip1. skipp Lh. skip1. skipp Lmi. skip1. skipp Ls. skip1. skipp Lus. skip1.
  rewrite (field_pad 2 (a / 60)) by (try lia; simpl; lia).
  skipp L4. skip1. skipp Lmo. skip1. skipp Ld. skip1. skipp Lh. skip1. skipp Lmi. skip1. skipp Ls. skip1. skipp Lus. skip1. skipp Loh. skip1.
  replace (pad 2 (a mod 60)) with (pad 2 (a mod 60) ++ []) by apply app_nil_r.
  rewrite (field_pad 2 (a mod 60)) by (try lia; simpl; lia).
  (* the sign character *)
  assert (Hsg : nth 26 (pad 4 y ++ [DASH] ++ pad 2 mo ++ [DASH] ++ pad 2 d ++ [TEE] ++ pad 2 h ++ [COLON] ++ pad 2 mi ++ [COLON] ++
                        pad 2 s ++ [DOT] ++ pad 6 us ++ [sg] ++ pad 2 (a / 60) ++ [COLON] ++ pad 2 (a mod 60) ++ []) 0%N = sg).
  { Ltac nskipp L := rewrite nth_skip by (rewrite L; lia); rewrite L; cbn [Nat.sub].
    Ltac nskip1 := rewrite nth_skip by (cbn [length]; lia); cbn [length Nat.sub].
    nskipp L4. nskip1. nskipp Lmo. nskip1. nskipp Ld. nskip1. nskipp Lh. nskip1. nskipp Lmi. nskip1. nskipp Ls. nskip1. nskipp Lus.
    reflexivity. }
  rewrite Hsg.
  assert (Hmin : Z.of_N (a / 60 * 60 + a mod 60) = Z.abs o) by (unfold a; lia).
  rewrite Hmin. unfold sg.
  destruct (0 <? o)%Z eqn:Eo.
  - apply Z.ltb_lt in Eo. change (N.eqb PLUS PLUS || N.eqb PLUS MINUSc) with true. change (N.eqb PLUS MINUSc) with false. cbn [negb].
    replace (Z.abs o) with o by lia. now rewrite Hv0.
  - apply Z.ltb_ge in Eo. change (N.eqb MINUSc PLUS || N.eqb MINUSc MINUSc) with true. change (N.eqb MINUSc MINUSc) with true. cbn [negb].
    replace (- Z.abs o)%Z with o by lia. now rewrite Hv0.
Qed.
