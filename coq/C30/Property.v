(** C30 property theorems.  A box is the list of its items (key, value); [serialize] is
    AmpBox.serialize with the repair (empty key refused); [run amp_feed amp_init cs] delivers the
    chunks [cs] to a fresh BinaryBoxProtocol and returns (boxes handed to ampBoxReceived, state),
    [None] = connection closed.  For all boxes, all streams and EVERY segmentation. *)
From Coq Require Import List Arith NArith ZArith Bool.
From TwLib Require Import PyBytes Seg.
From TwLib Require Import CodecsText FramingText.
From C30 Require Import Text Model ProofsText Proofs Theorems.
Import ListNotations.

Theorem amp_segmentation_invariant : forall cs s, chunks cs s ->
  run amp_feed amp_init cs = run amp_feed amp_init [s].
Proof. exact amp_segmentation_invariant_proof. Qed.
Print Assumptions amp_segmentation_invariant.



(** any sequence of boxes that serialize accepts (distinct keys, as in a dict), written one after the
    other and cut anywhere, is received as exactly these boxes, in order, with nothing left over *)
Theorem boxes_roundtrip_any_split : forall bs ws cs,
  Forall2 (fun b w => serialize b = Some w /\ NoDup (map fst b)) bs ws ->
  chunks cs (concat ws) ->
  run amp_feed amp_init cs = (bs, Some (mode0, [])).
Proof. exact boxes_roundtrip_any_split_proof. Qed.
Print Assumptions boxes_roundtrip_any_split.



(** a history of sendBox calls on one connection, some of them with boxes that are refused: a refused box leaves
    nothing on the wire, so the peer receives exactly the accepted boxes, in order, whatever the segmentation *)
Theorem sendbox_history_roundtrip : forall bs cs,
  Forall (fun b => NoDup (map fst b)) bs ->
  chunks cs (sent_wire bs) ->
  run amp_feed amp_init cs = (filter accepted bs, Some (mode0, [])).
Proof. exact sendbox_history_roundtrip_proof. Qed.
Print Assumptions sendbox_history_roundtrip.



(** serialize accepts exactly the boxes whose keys have 1..255 bytes and whose values have at most 65535 *)
Theorem representable_box_accepted : forall items, forallb item_ok items = true -> exists w, serialize items = Some w.
Proof. exact representable_box_accepted_proof. Qed.
Print Assumptions representable_box_accepted.



Theorem unrepresentable_box_refused : forall items k v, In (k, v) items ->
  (length k = 0 \/ 255 < length k \/ (65535 < N.of_nat (length v))%N) -> serialize items = None.
Proof. exact unrepresentable_box_refused_proof. Qed.
Print Assumptions unrepresentable_box_refused.



(** serialize as it is at the pinned commit accepts a box with an empty key and writes the box
    terminator in its place: the receiver gets an empty box and never the box that was sent (finding F11) *)
Theorem empty_key_refuted : exists items w,
  serialize_orig items = Some w /\ fst (run amp_feed amp_init [w]) <> [items] /\ serialize items = None.
Proof. exact empty_key_refuted_proof. Qed.
Print Assumptions empty_key_refuted.



(** Integer, String, Boolean, Decimal, DateTime, Unicode and ListOf of these (nested to any depth): whatever toString
    produces, fromString maps back to the value.  Float is NOT covered: repr()/float() are CPython oracles with no model
    here; the check runs its round trip on the implementation (bit for bit).  Path is Unicode plus a FilePath wrapper
    (not modelled), AmpList is a sequence of boxes ([boxes_roundtrip_any_split]). *)
Theorem arg_roundtrip : forall t v b, enc t v = Some b -> dec t b = Some v.
Proof. exact arg_roundtrip_proof. Qed.
Print Assumptions arg_roundtrip.



Theorem integer_roundtrip : forall z, bytes_to_Z (Z_to_bytes z) = Some z.
Proof. exact integer_roundtrip_proof. Qed.
Print Assumptions integer_roundtrip.



(** Decimal: every (sign, coefficient, exponent), every infinity and every NaN / sNaN with any payload reads back exactly
    from its to-scientific-string text: no rounding, no exponent limit (this is what a context-dependent fromString breaks) *)
Theorem decimal_roundtrip : forall d, text_to_dec (dec_to_text d) = Some d.
Proof. exact decimal_roundtrip_proof. Qed.
Print Assumptions decimal_roundtrip.



(** DateTime: every valid date/time with microseconds and a UTC offset of whole minutes strictly inside one day *)
Theorem datetime_roundtrip : forall t, dt_valid t = true -> text_to_dt (dt_to_text t) = Some t.
Proof. exact datetime_roundtrip_proof. Qed.
Print Assumptions datetime_roundtrip.



(** Unicode: every string of scalar values survives UTF-8; a string with a lone surrogate is refused *)
Theorem unicode_roundtrip : forall s,
  (forallb scalar s = true -> exists b, uni_to_bytes s = Some b /\ utf8_decode b = Some s) /\
  (forallb scalar s = false -> uni_to_bytes s = None).
Proof. exact unicode_roundtrip_proof. Qed.
Print Assumptions unicode_roundtrip.



(** a leading U+FEFF is a character like any other: it is neither added nor stripped *)
Example unicode_bom_example :
  uni_to_bytes [65279; 65279; 120]%N = Some [239; 187; 191; 239; 187; 191; 120]%N /\
  dec TUni [239; 187; 191; 239; 187; 191; 120]%N = Some (VUni [65279; 65279; 120]%N) /\
  dec (TList TUni) (enc16 [239; 187; 191] ++ enc16 [97; 239; 187; 191])%N = Some (VList [VUni [65279]; VUni [97; 65279]]%N).
Proof. exact unicode_bom_example_proof. Qed.



Example decimal_example :
  dec_to_text (DFin true 12345 (-7)) = [45; 48; 46; 48; 48; 49; 50; 51; 52; 53]%N /\
  dec_to_text (DFin false 12345 (-12)) = [49; 46; 50; 51; 52; 53; 69; 45; 56]%N /\
  text_to_dec (dec_to_text (DFin false 1234567890123456789012345678901234567890 1000000)) = Some (DFin false 1234567890123456789012345678901234567890 1000000).
Proof. exact decimal_example_proof. Qed.



(** the hypotheses are inhabited: two boxes, the second with a 1-byte key and an empty value, cut inside a length prefix *)
Example boxes_example :
  let b1 := [([97], [1; 2; 3]); ([98; 99], [])]%N in
  let b2 := [([122], [])]%N in
  exists w1 w2, serialize b1 = Some w1 /\ serialize b2 = Some w2 /\
    run amp_feed amp_init [firstn 1 (w1 ++ w2); firstn 6 (skipn 1 (w1 ++ w2)); skipn 7 (w1 ++ w2)] = ([b1; b2], Some (mode0, [])).
Proof. exact boxes_example_proof. Qed.
