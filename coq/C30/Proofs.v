(** C30 proofs. *)
From Coq Require Import List Arith NArith ZArith Bool Lia.
From TwLib Require Import PyBytes Seg CodecsText FramingText.
From C30 Require Import Text Model ProofsText.
Import ListNotations.

Lemma firstn_app_le : forall (b c : bytes) k, k <= length b -> firstn k (b ++ c) = firstn k b.
Proof. intros b c k H. rewrite firstn_app. replace (k - length b) with 0 by lia. simpl. apply app_nil_r. Qed.
Lemma skipn_app_le : forall (b c : bytes) k, k <= length b -> skipn k (b ++ c) = skipn k b ++ c.
Proof. intros b c k H. rewrite skipn_app. replace (k - length b) with 0 by lia. reflexivity. Qed.

(** * a 16-bit length-prefixed string at the head of a buffer *)
Lemma enc16_head : forall s rest, (N.of_nat (length s) < 65536)%N ->
  let b := enc16 s ++ rest in
  2 <= length b /\ be_to_N (firstn 2 b) = N.of_nat (length s) /\
  (N.of_nat (length b) <? 2 + N.of_nat (length s))%N = false /\
  firstn (length s) (skipn 2 b) = s /\ skipn (2 + length s) b = rest.
Proof.
  intros s rest Hs b. unfold b, enc16.
  pose proof (N_to_be_length 2 (N.of_nat (length s))) as Hl.
  pose proof (be_roundtrip 2 (N.of_nat (length s)) Hs) as Hrt.
  remember (N_to_be 2 (N.of_nat (length s))) as pre eqn:Hp. clear Hp.
  assert (Hlen : length ((pre ++ s) ++ rest) = 2 + length s + length rest) by (rewrite !app_length; lia).
  repeat split.
  - lia.
  - rewrite <- app_assoc, firstn_app_le by lia. rewrite <- Hl, firstn_all. exact Hrt.
  - apply N.ltb_ge. lia.
  - rewrite <- app_assoc, <- Hl. rewrite skipn_app, skipn_all, Nat.sub_diag. cbn [skipn app].
    rewrite firstn_app, firstn_all, Nat.sub_diag. cbn [firstn]. now rewrite app_nil_r.
  - replace (2 + length s) with (length (pre ++ s)) by (rewrite app_length; lia).
    rewrite skipn_app, skipn_all, Nat.sub_diag. reflexivity.
Qed.

Lemma serialize_cons : forall p r,
  serialize (p :: r) = if item_ok p then match serialize r with
                                         | Some t => Some (enc16 (fst p) ++ enc16 (snd p) ++ t)
                                         | None => None
                                         end
                       else None.
Proof. reflexivity. Qed.
Local Opaque enc16.

(** * the receiver is a framed parser *)
Lemma amp_emit_inv : forall m b e m' r, amp_step m b = Emit e m' r ->
  2 <= length b /\ 2 + N.to_nat (be_to_N (firstn 2 b)) <= length b /\ r = skipn (2 + N.to_nat (be_to_N (firstn 2 b))) b.
Proof.
  intros m b e m' r H. unfold amp_step in H.
  destruct (length b <? 2) eqn:H1; [discriminate|]. apply Nat.ltb_ge in H1.
  destruct (_ <? be_to_N (firstn 2 b))%N; [discriminate|].
  destruct (N.of_nat (length b) <? 2 + be_to_N (firstn 2 b))%N eqn:H3; [discriminate|]. apply N.ltb_ge in H3.
  split; [assumption|]. split; [lia|].
  destruct (snd m); [inversion H; subst; reflexivity|]. destruct (firstn (N.to_nat _) (skipn 2 b)); inversion H; subst; reflexivity.
Qed.

Lemma amp_emit_shrinks : forall m b e m' r, amp_step m b = Emit e m' r -> length r < length b.
Proof. intros m b e m' r H. apply amp_emit_inv in H as (H1 & H2 & ->). rewrite skipn_length. lia. Qed.

Lemma amp_emit_stable : forall m b c e m' r, amp_step m b = Emit e m' r -> amp_step m (b ++ c) = Emit e m' (r ++ c).
Proof.
  intros m b c e m' r H. pose proof (amp_emit_inv _ _ _ _ _ H) as (H1 & H2 & Hr).
  unfold amp_step in *.
  assert (E1 : length b <? 2 = false) by (apply Nat.ltb_ge; lia). rewrite E1 in H.
  assert (E1' : length (b ++ c) <? 2 = false) by (apply Nat.ltb_ge; rewrite app_length; lia). rewrite E1'.
  rewrite (firstn_app_le b c 2 H1).
  destruct (_ <? be_to_N (firstn 2 b))%N; [discriminate|].
  destruct (N.of_nat (length b) <? 2 + be_to_N (firstn 2 b))%N eqn:H3; [discriminate|].
  assert (E3 : (N.of_nat (length (b ++ c)) <? 2 + be_to_N (firstn 2 b))%N = false).
  { apply N.ltb_ge. apply N.ltb_ge in H3. rewrite app_length. lia. }
  rewrite E3. rewrite !(skipn_app_le b c) by lia. rewrite firstn_app_le by (rewrite skipn_length; lia).
  destruct (snd m); [inversion H; subst; reflexivity|].
  destruct (firstn _ (skipn 2 b)); inversion H; subst; reflexivity.
Qed.

Lemma amp_fail_stable : forall m b c e, amp_step m b = Fail e -> amp_step m (b ++ c) = Fail e.
Proof.
  intros m b c e H. unfold amp_step in *.
  destruct (length b <? 2) eqn:H1; [discriminate|]. apply Nat.ltb_ge in H1.
  assert (E1' : length (b ++ c) <? 2 = false) by (apply Nat.ltb_ge; rewrite app_length; lia). rewrite E1'.
  rewrite (firstn_app_le b c 2 H1).
  destruct (_ <? be_to_N (firstn 2 b))%N; [assumption|].
  destruct (N.of_nat (length b) <? 2 + be_to_N (firstn 2 b))%N; [discriminate|].
  destruct (snd m); [discriminate|]. destruct (firstn (N.to_nat _) (skipn 2 b)); discriminate.
Qed.

Definition amp_unfold := fdrain_unfold amp_step amp_emit_shrinks.

Lemma amp_run : forall cs s, chunks cs s -> run amp_feed amp_init cs = amp_drain mode0 s.
Proof.
  intros cs s Hc. unfold amp_feed, amp_init, amp_drain.
  apply (framed_all_chunkings amp_step amp_emit_shrinks amp_emit_stable amp_fail_stable); [reflexivity | exact Hc].
Qed.

(** * reading back what serialize wrote *)
Definition keys (b : box) : list bytes := map fst b.

Lemma box_set_fresh : forall k v b, ~ In k (keys b) -> box_set k v b = b ++ [(k, v)].
Proof.
  induction b as [|[k' v'] b IH]; intros Hn; [reflexivity|]. simpl in *.
  destruct (beq k' k) eqn:E.
  - apply beq_eq in E. subst. exfalso. apply Hn. now left.
  - rewrite IH; [reflexivity|]. intros Hin. apply Hn. now right.
Qed.

Lemma step_key : forall cur k rest, 1 <= length k -> length k <= 255 ->
  amp_step (cur, None) (enc16 k ++ rest) = Emit [] (cur, Some k) rest.
Proof.
  intros cur k rest H1 H2.
  destruct (enc16_head k rest ltac:(lia)) as (A & B & C & D & E).
  unfold amp_step. cbn [snd fst].
  assert (E1 : length (enc16 k ++ rest) <? 2 = false) by (apply Nat.ltb_ge; lia). rewrite E1, B.
  assert (E2 : (255 <? N.of_nat (length k))%N = false) by (apply N.ltb_ge; lia). rewrite E2, C, Nat2N.id, D, E.
  destruct k; [simpl in H1; lia | reflexivity].
Qed.

Lemma step_value : forall cur k v rest, (N.of_nat (length v) <= 65535)%N ->
  amp_step (cur, Some k) (enc16 v ++ rest) = Emit [] (box_set k v cur, None) rest.
Proof.
  intros cur k v rest H.
  destruct (enc16_head v rest ltac:(lia)) as (A & B & C & D & E).
  unfold amp_step. cbn [snd fst].
  assert (E1 : length (enc16 v ++ rest) <? 2 = false) by (apply Nat.ltb_ge; lia). rewrite E1, B.
  assert (E2 : (65535 <? N.of_nat (length v))%N = false) by (apply N.ltb_ge; lia). rewrite E2, C, Nat2N.id, D, E.
  reflexivity.
Qed.

Lemma step_end : forall cur rest, amp_step (cur, None) ([0; 0]%N ++ rest) = Emit [cur] mode0 rest.
Proof.
  intros cur rest. change ([0; 0]%N ++ rest) with (enc16 [] ++ rest).
  destruct (enc16_head [] rest ltac:(simpl; lia)) as (A & B & C & D & E).
  unfold amp_step. cbn [snd fst].
  assert (E1 : length (enc16 [] ++ rest) <? 2 = false) by (apply Nat.ltb_ge; lia). rewrite E1, B.
  cbn [length N.of_nat] in *. change (255 <? 0)%N with false. cbv iota. rewrite C. cbn [N.to_nat].
  rewrite D, E. reflexivity.
Qed.

Lemma item_ok_inv : forall p, item_ok p = true ->
  1 <= length (fst p) /\ length (fst p) <= 255 /\ (N.of_nat (length (snd p)) <= 65535)%N.
Proof.
  intros p H. unfold item_ok in H. apply andb_true_iff in H as [H H3]. apply andb_true_iff in H as [H1 H2].
  apply Nat.leb_le in H1, H2. apply N.leb_le in H3. auto.
Qed.

Lemma read_items : forall items cur w rest,
  serialize items = Some w -> NoDup (keys cur ++ keys items) ->
  amp_drain (cur, None) (w ++ rest) = let (e, s) := amp_drain mode0 rest in ((cur ++ items) :: e, s).
Proof.
  induction items as [|[k v] items IH]; intros cur w rest Hs Hnd.
  - inversion Hs; subst. unfold amp_drain. rewrite amp_unfold, step_end. rewrite app_nil_r.
    destruct (fdrain amp_step mode0 rest). reflexivity.
  - rewrite serialize_cons in Hs. destruct (item_ok (k, v)) eqn:Hok; [|discriminate].
    destruct (serialize items) as [t|] eqn:Ht; [|discriminate]. injection Hs as Hw. subst w. cbn [fst snd].
    apply item_ok_inv in Hok as (K1 & K2 & V). cbn [fst snd] in *.
    unfold amp_drain. rewrite <- !app_assoc. rewrite amp_unfold, step_key by assumption. cbn [app].
    rewrite amp_unfold, step_value by assumption. cbn [app].
    assert (Hfresh : ~ In k (keys cur)).
    { intros Hin. simpl in Hnd. apply NoDup_remove_2 in Hnd. apply Hnd. apply in_or_app. now left. }
    rewrite (box_set_fresh k v cur Hfresh).
    specialize (IH (cur ++ [(k, v)]) t rest eq_refl). unfold amp_drain in IH. rewrite IH.
    + destruct (fdrain amp_step mode0 rest). rewrite <- app_assoc. reflexivity.
    + unfold keys in *. rewrite map_app. simpl. rewrite <- app_assoc. simpl. exact Hnd.
Qed.

Lemma read_boxes : forall bs ws rest,
  Forall2 (fun b w => serialize b = Some w /\ NoDup (keys b)) bs ws ->
  amp_drain mode0 (concat ws ++ rest) = let (e, s) := amp_drain mode0 rest in (bs ++ e, s).
Proof.
  intros bs ws rest H. induction H as [|b w bs ws [Hs Hnd] _ IH].
  - simpl. destruct (amp_drain mode0 rest); reflexivity.
  - cbn [concat]. rewrite <- app_assoc.
    pose proof (read_items b [] w (concat ws ++ rest) Hs Hnd) as HR. rewrite IH in HR.
    destruct (amp_drain mode0 rest) as [e s]. exact HR.
Qed.

Lemma amp_drain_nil : amp_drain mode0 [] = ([], Some (mode0, [])).
Proof. reflexivity. Qed.

(** * refusal *)
Lemma serialize_refuses : forall items, existsb (fun p => negb (item_ok p)) items = true -> serialize items = None.
Proof.
  induction items as [|p items IH]; intros H; [discriminate|].
  unfold serialize in *. cbn [serialize_with]. simpl in H. destruct (item_ok p); [|reflexivity].
  simpl in H. now rewrite (IH H).
Qed.

Lemma serialize_accepts : forall items, forallb item_ok items = true -> exists w, serialize items = Some w.
Proof.
  induction items as [|p items IH]; intros H; [now exists [0; 0]%N|].
  simpl in H. apply andb_true_iff in H as [Hp Hr]. destruct (IH Hr) as [w Hw].
  unfold serialize in *. cbn [serialize_with]. rewrite Hp, Hw. eauto.
Qed.

(** * argument codecs *)
Lemma digits_only_N_to_digits : forall n, digits_only (N_to_digits n) = true /\
  (forall x r, N_to_digits n = x :: r -> N.eqb x MINUS = false).
Proof.
  intros n. destruct (N.eq_dec n 0) as [->|Hn].
  - split; [reflexivity|]. intros x r H. vm_compute in H. inversion H; subst. reflexivity.
  - destruct (digits_shape (S (N.to_nat (N.log2 n))) n [] (lt_pow10_log2 n) ltac:(lia)) as (d & ds & Heq & Hd & _ & Hds & _).
    unfold N_to_digits. rewrite Heq, app_nil_r. split.
    + unfold digits_only. cbn [forallb]. unfold digitp in Hd. rewrite Hd. simpl.
      apply forallb_forall. intros y Hy. rewrite Forall_forall in Hds. apply (Hds y Hy).
    + intros x r H. inversion H; subst. unfold digitp, is_digit in Hd. apply andb_true_iff in Hd as [H1 _].
      apply N.leb_le in H1. apply N.eqb_neq. unfold MINUS. lia.
Qed.

Lemma int_roundtrip : forall z, bytes_to_Z (Z_to_bytes z) = Some z.
Proof.
  intros z. destruct z as [|p|p]; cbn [Z_to_bytes].
  - reflexivity.
  - destruct (digits_only_N_to_digits (Npos p)) as [Hd Hm]. unfold bytes_to_Z.
    destruct (N_to_digits (N.pos p)) as [|x r] eqn:E; [discriminate|].
    rewrite (Hm x r eq_refl), Hd. rewrite <- E, digits_to_N_to_digits. reflexivity.
  - destruct (digits_only_N_to_digits (Npos p)) as [Hd _]. unfold bytes_to_Z.
    rewrite N.eqb_refl, Hd, digits_to_N_to_digits. reflexivity.
Qed.

Lemma l16_emit_shrinks : forall x b e x' r, l16_step x b = Emit e x' r -> length r < length b.
Proof.
  intros x b e x' r H. unfold l16_step in H.
  destruct (length b <? 2) eqn:H1; [discriminate|]. apply Nat.ltb_ge in H1.
  destruct (99999 <? be_to_N (firstn 2 b))%N; [discriminate|].
  destruct (N.of_nat (length b) <? 2 + be_to_N (firstn 2 b))%N eqn:H3; [discriminate|]. apply N.ltb_ge in H3.
  assert (Hr : r = skipn (2 + N.to_nat (be_to_N (firstn 2 b))) b) by congruence.
  rewrite Hr, skipn_length. lia.
Qed.

Lemma int16_strings_cons : forall s rest, (N.of_nat (length s) <= 65535)%N ->
  int16_strings (enc16 s ++ rest) = s :: int16_strings rest.
Proof.
  intros s rest H. unfold int16_strings. rewrite (fdrain_unfold l16_step l16_emit_shrinks).
  destruct (enc16_head s rest ltac:(lia)) as (A & B & C & D & E).
  unfold l16_step at 1.
  assert (E1 : length (enc16 s ++ rest) <? 2 = false) by (apply Nat.ltb_ge; lia). rewrite E1, B.
  assert (E2 : (99999 <? N.of_nat (length s))%N = false) by (apply N.ltb_ge; lia). rewrite E2, C, Nat2N.id, D, E.
  destruct (fdrain l16_step tt rest). reflexivity.
Qed.

Lemma int16_strings_nil : int16_strings [] = [].
Proof. reflexivity. Qed.

Lemma codec_roundtrip : forall t v b, enc t v = Some b -> dec t b = Some v.
Proof.
  induction t as [| | |e IH| | |]; intros v b H; destruct v as [z|s|bb|l|d|dt|us]; try discriminate; cbn [enc] in H.
  - inversion H; subst. cbn [dec]. now rewrite int_roundtrip.
  - inversion H; subst. reflexivity.
  - inversion H; subst. destruct bb; reflexivity.
  - cbn [dec]. revert b H. induction l as [|x l IHl]; intros b H.
    + inversion H; subst. reflexivity.
    + destruct (enc e x) as [s|] eqn:Hs; [|discriminate].
      match type of H with match ?g with _ => _ end = _ => destruct g as [rest|] eqn:Hr; [|discriminate] end.
      destruct (N.of_nat (length s) <=? 65535)%N eqn:Hl; [|discriminate]. apply N.leb_le in Hl.
      inversion H; subst. rewrite (int16_strings_cons s rest Hl). cbn [map all_some].
      rewrite (IH x s Hs). specialize (IHl rest eq_refl).
      destruct (all_some (map (dec e) (int16_strings rest))) as [l'|]; [|discriminate].
      inversion IHl; subst. reflexivity.
  - inversion H; subst. cbn [dec]. now rewrite decimal_text_roundtrip.
  - destruct (dt_valid dt) eqn:Hv; [|discriminate]. inversion H; subst. cbn [dec]. now rewrite (datetime_text_roundtrip dt Hv).
  - unfold uni_to_bytes in H. destruct (forallb scalar us) eqn:Hs; [|discriminate]. inversion H; subst. cbn [dec].
    now rewrite (utf8_roundtrip us Hs).
Qed.

(** * histories of sendBox calls *)
Lemma history_wires : forall bs, Forall (fun b => NoDup (keys b)) bs ->
  exists ws, Forall2 (fun b w => serialize b = Some w /\ NoDup (keys b)) (filter accepted bs) ws /\ sent_wire bs = concat ws.
Proof.
  induction bs as [|b bs IH]; intros H.
  - exists []. split; [constructor | reflexivity].
  - inversion H as [|? ? Hb Hbs]; subst. destruct (IH Hbs) as (ws & Hf & Hc).
    unfold sent_wire, wire_of, accepted in *. cbn [map concat filter].
    destruct (serialize b) as [w|] eqn:Hs.
    + exists (w :: ws). split; [constructor; [split; [exact Hs | exact Hb] | exact Hf] | cbn [concat]; now rewrite Hc].
    + exists ws. split; [exact Hf | cbn [app]; exact Hc].
Qed.

(** * the unrepaired serialize: an empty key writes the terminator in the middle of the box (finding F11) *)
Lemma empty_key_witness :
  let items := [([], [118]); ([97], [98])]%N in
  exists w, serialize_orig items = Some w /\ serialize items = None /\
            fst (run amp_feed amp_init [w]) = [[]].
Proof. eexists. split; [vm_compute; reflexivity|]. split; vm_compute; reflexivity. Qed.
