(** C30: the AMP wire format (src/twisted/protocols/amp.py): AmpBox.serialize (as REPAIRED by
    fixes/C30-ampbox-empty-key.patch: an empty key is refused), BinaryBoxProtocol's receive side
    (Int16StringReceiver.dataReceived + StatefulStringProtocol with proto_init/key/value and the
    MAX_LENGTH that toggles between 255 and 65535), and the argument codecs Integer, String,
    Boolean, ListOf, Decimal, DateTime, Unicode (text forms in Text.v; Float is NOT modelled: repr()/float() are CPython oracles).
    A box is the list of its (key, value) items (the harness passes sorted(box.items()), which is what
    serialize iterates over; the received dict is printed sorted as well). *)
From Coq Require Import List Arith NArith ZArith Bool.
From TwLib Require Import PyBytes Seg FramingText.
From C30 Require Import Text.
Import ListNotations.

Definition item := (bytes * bytes)%type.
Definition box := list item.

(** ** sending *)
Definition enc16 (b : bytes) : bytes := N_to_be 2 (N.of_nat (length b)) ++ b.     (* pack("!H", len(kv)) + kv *)

Definition item_ok (p : item) : bool :=
  (1 <=? length (fst p)) && (length (fst p) <=? 255) && (N.of_nat (length (snd p)) <=? 65535)%N.
(** the same without the repair *)
Definition item_ok_orig (p : item) : bool := (length (fst p) <=? 255) && (N.of_nat (length (snd p)) <=? 65535)%N.

Fixpoint serialize_with (ok : item -> bool) (items : box) : option bytes :=
  match items with
  | [] => Some [0; 0]%N                                                           (* pack("!H", 0) *)
  | p :: r => if ok p then match serialize_with ok r with
                           | Some t => Some (enc16 (fst p) ++ enc16 (snd p) ++ t)
                           | None => None
                           end
              else None                                                           (* TooLong / ValueError *)
  end.
Definition serialize := serialize_with item_ok.
Definition serialize_orig := serialize_with item_ok_orig.

(** ** receiving.  Parser mode: the box under construction and, between a key and its value, the key *)
Definition mode := (box * option bytes)%type.
Definition mode0 : mode := ([], None).

(** self._currentBox[self._currentKey] = string  (dict assignment) *)
Fixpoint box_set (k v : bytes) (b : box) : box :=
  match b with
  | [] => [(k, v)]
  | (k', v') :: r => if beq k' k then (k', v) :: r else (k', v') :: box_set k v r
  end.

Definition amp_step (m : mode) (buf : bytes) : step_result N box mode :=
  if length buf <? 2 then Wait
  else
    let n := be_to_N (firstn 2 buf) in
    let limit := match snd m with None => 255%N | Some _ => 65535%N end in       (* self.MAX_LENGTH *)
    if (limit <? n)%N then Fail []                                               (* lengthLimitExceeded -> loseConnection *)
    else if (N.of_nat (length buf) <? 2 + n)%N then Wait
    else
      let s := firstn (N.to_nat n) (skipn 2 buf) in
      let rest := skipn (2 + N.to_nat n) buf in
      match snd m with
      | None =>                                                                  (* proto_init / proto_key *)
          match s with
          | [] => Emit [fst m] mode0 rest                                        (* ampBoxReceived(self._currentBox) *)
          | _ => Emit [] (fst m, Some s) rest
          end
      | Some k => Emit [] (box_set k s (fst m), None) rest                       (* proto_value *)
      end.

Definition amp_drain := fdrain amp_step.
Definition amp_feed : option (mode * bytes) -> bytes -> list box * option (mode * bytes) := bfeed amp_drain.
Definition amp_init : option (mode * bytes) := Some (mode0, []).

(** ** argument codecs *)
Inductive ty := TInt | TStr | TBool | TList (e : ty) | TDec | TDate | TUni.
Inductive val := VInt (z : Z) | VStr (s : bytes) | VBool (b : bool) | VList (l : list val)
  | VDec (d : decimal) | VDate (t : datetime) | VUni (s : list N).   (* Decimal, aware datetime, str as code points *)

Definition MINUS : N := 45%N.
Definition TRUE : bytes := [84; 114; 117; 101]%N.
Definition FALSE : bytes := [70; 97; 108; 115; 101]%N.

(** Integer.toString: b"%d" % n *)
Definition Z_to_bytes (z : Z) : bytes :=
  match z with
  | Z0 => N_to_digits 0
  | Zpos p => N_to_digits (Npos p)
  | Zneg p => MINUS :: N_to_digits (Npos p)
  end.

Definition digits_only (ds : bytes) : bool := match ds with [] => false | _ => forallb is_digit ds end.

(** Integer.fromString = int, for an optional "-" followed by ASCII digits (other spellings int()
    accepts, such as "+1" or " 1", are outside the model) *)
Definition bytes_to_Z (b : bytes) : option Z :=
  match b with
  | x :: ds => if N.eqb x MINUS
               then (if digits_only ds then Some (Z.opp (Z.of_N (digits_to_N ds))) else None)
               else (if digits_only b then Some (Z.of_N (digits_to_N b)) else None)
  | [] => None
  end.

(** ListOf.fromStringProto: a fresh Int16StringReceiver (MAX_LENGTH 99999) collects the strings *)
Definition l16_step (_ : unit) (buf : bytes) : step_result N bytes unit :=
  if length buf <? 2 then Wait
  else
    let n := be_to_N (firstn 2 buf) in
    if (99999 <? n)%N then Fail []
    else if (N.of_nat (length buf) <? 2 + n)%N then Wait
    else Emit [firstn (N.to_nat n) (skipn 2 buf)] tt (skipn (2 + N.to_nat n) buf).
Definition int16_strings (b : bytes) : list bytes := fst (fdrain l16_step tt b).

Fixpoint all_some {A} (l : list (option A)) : option (list A) :=
  match l with
  | [] => Some []
  | Some x :: r => match all_some r with Some r' => Some (x :: r') | None => None end
  | None :: _ => None
  end.

(** toString: [None] = the value is not of the type, or struct.error (an element longer than 65535) *)
Fixpoint enc (t : ty) (v : val) : option bytes :=
  match t, v with
  | TInt, VInt z => Some (Z_to_bytes z)
  | TStr, VStr s => Some s
  | TBool, VBool b => Some (if b then TRUE else FALSE)
  | TList e, VList l =>
      (fix go (l : list val) : option bytes :=
         match l with
         | [] => Some []
         | x :: r => match enc e x, go r with
                     | Some s, Some rest => if (N.of_nat (length s) <=? 65535)%N then Some (enc16 s ++ rest) else None
                     | _, _ => None
                     end
         end) l
  | TDec, VDec d => Some (dec_to_text d)                       (* str(d).encode("ascii") *)
  | TDate, VDate t => if dt_valid t then Some (dt_to_text t) else None   (* a datetime object is always valid *)
  | TUni, VUni s => uni_to_bytes s                             (* s.encode("utf-8"); UnicodeEncodeError for surrogates *)
  | _, _ => None
  end.

Fixpoint dec (t : ty) (b : bytes) : option val :=
  match t with
  | TInt => match bytes_to_Z b with Some z => Some (VInt z) | None => None end
  | TStr => Some (VStr b)
  | TBool => if beq b TRUE then Some (VBool true) else if beq b FALSE then Some (VBool false) else None
  | TList e => match all_some (map (dec e) (int16_strings b)) with Some l => Some (VList l) | None => None end
  | TDec => match text_to_dec b with Some d => Some (VDec d) | None => None end
  | TDate => match text_to_dt b with Some t => Some (VDate t) | None => None end
  | TUni => match utf8_decode b with Some s => Some (VUni s) | None => None end
  end.

(** ** a connection's sending side over a history of sendBox calls: a refused box writes nothing *)
Definition wire_of (b : box) : bytes := match serialize b with Some w => w | None => [] end.       (* transport.write(box.serialize()) *)
Definition accepted (b : box) : bool := match serialize b with Some _ => true | None => false end.
Definition sent_wire (bs : list box) : bytes := concat (map wire_of bs).
