(** C22: chunked transfer coding.

    Literal transcription of [_ChunkedTransferDecoder] (src/twisted/web/http.py) with the
    helpers of src/twisted/web/_abnf.py it calls, and of the encoder [toChunk].
    Bytes are [N]; a byte string is [list N].

    The decoder object is (state, _buffer, _start, length, _receivedTrailerHeadersSize); the
    private list [_trailerHeaders] is never observable through the two callbacks and is left out.
    [length] is only read in the BODY state, which is entered only from CHUNK_LENGTH (which assigns
    it); the model resets it to 0 on leaving BODY (the attribute keeps a stale value there), so that
    equal futures mean equal model states.
    [dataReceived] appends to the buffer and runs the per-state handlers while they return True
    and the buffer is non-empty ([drain]).  An exception ends the run (the caller closes the
    connection), as does the finish callback (the caller never feeds a finished decoder).

    [fixed] selects the trailer-size accounting: [false] is the code at the pinned commit, which
    does not count the final CRLF when it is seen complete but counts it while it is incomplete
    (finding F5); [true] is the repaired code (fixes/C22-trailer-terminator-counted.patch), which
    counts it on both paths.  The correspondence check runs the model with [fixed = true]. *)
From Coq Require Import List NArith Bool Arith.
From C22 Require Import Gen.
Import ListNotations.

Definition bytes := list N.
Definition CR : N := 13%N.
Definition LF : N := 10%N.
Definition SEMI : N := 59%N.
Definition CRLF : bytes := [CR; LF].

(** ---- _abnf.py ---- *)
Definition mem (c : N) (t : list N) : bool := existsb (N.eqb c) t.
Definition is_hexdigit (c : N) : bool := mem c hexdigit_chars.
Definition is_extchar (c : N) : bool := mem c chunk_ext_chars.
Definition is_tchar (c : N) : bool := mem c token_chars.
Definition is_nil {A} (l : list A) : bool := match l with [] => true | _ => false end.

(* value of one digit under int(_, 16) *)
Definition digit_val (c : N) : N :=
  if (N.leb 48 c && N.leb c 57)%bool then (c - 48)%N
  else if (N.leb 97 c && N.leb c 102)%bool then (c - 87)%N
  else if (N.leb 65 c && N.leb c 70)%bool then (c - 55)%N
  else 0%N.
Definition hexval (b : bytes) : N := fold_left (fun acc c => (16 * acc + digit_val c)%N) b 0%N.

Definition ishexdigits (b : bytes) : bool := forallb is_hexdigit b && negb (is_nil b).
Definition istoken (b : bytes) : bool := forallb is_tchar b && negb (is_nil b).
(* _hexint: None = ValueError *)
Definition hexint (b : bytes) : option N := if ishexdigits b then Some (hexval b) else None.

(** ---- bytearray.find ---- *)
Fixpoint find_crlf (b : bytes) : option nat :=
  match b with
  | [] => None
  | x :: r =>
      match r with
      | [] => None
      | y :: _ => if (N.eqb x CR && N.eqb y LF)%bool then Some 0 else option_map S (find_crlf r)
      end
  end.
(* buffer.find(b"\r\n", k) for k <= len(buffer) *)
Definition find_crlf_from (k : nat) (b : bytes) : option nat :=
  option_map (Nat.add k) (find_crlf (skipn k b)).
Fixpoint find_byte (c : N) (b : bytes) : option nat :=
  match b with
  | [] => None
  | x :: r => if N.eqb x c then Some 0 else option_map S (find_byte c r)
  end.
Definition ends_with_cr (b : bytes) : bool :=
  match b with [] => false | _ => N.eqb (last b 0%N) CR end.
Definition starts_with_crlf (b : bytes) : bool :=
  match b with x :: y :: _ => (N.eqb x CR && N.eqb y LF)%bool | _ => false end.

(** ---- the decoder ---- *)
Inductive mode := MLen | MBody | MCrlf | MTrailer.
Record st := mkst { md : mode; buf : bytes; start : nat; remaining : N; rcvd : N }.
Inductive err := ETooLong | EBadSize | EBadExt | ENoCrlf | ETrailerTooLong.

(* result of one _dataReceived_<STATE> call *)
Inductive sres :=
| More (s : st)                       (* returned False: wait for more data *)
| Go (s : st) (out : list bytes)      (* returned True; [out] = dataCallback arguments *)
| Fin (extra : bytes)                 (* finishCallback(extra), state FINISHED *)
| Bad (e : err).                      (* raised _MalformedChunkedDataError *)

Definition init : st := mkst MLen [] 0 0%N 0%N.
(* the limit a decoder is created with (_maxTrailerHeadersSize in __init__, from Gen.v) *)
Definition default_maxtr : N := default_max_trailer.
Definition with_buf (s : st) (b : bytes) : st := mkst (md s) b (start s) (remaining s) (rcvd s).

Section Decoder.
  Variable fixed : bool.       (* trailer terminator counted on the complete-line path too *)
  Variable maxtr : N.          (* _maxTrailerHeadersSize *)

  Definition step (s : st) : sres :=
    match md s with
    | MLen =>
        match find_crlf_from (start s) (buf s) with
        | Some eol =>
            if Nat.leb max_size_line eol then Bad ETooLong else
            let line := firstn eol (buf s) in
            let k := match find_byte SEMI line with Some i => i | None => eol end in
            match hexint (firstn k line) with
            | None => Bad EBadSize
            | Some n =>
                if forallb is_extchar (skipn (S k) line)
                then Go (mkst (if N.eqb n 0 then MTrailer else MBody)
                              (skipn (eol + 2) (buf s)) 0 n (rcvd s)) []
                else Bad EBadExt
            end
        | None =>
            if Nat.ltb max_size_line (length (buf s)) then Bad ETooLong
            else More (mkst MLen (buf s) (length (buf s) - 1) (remaining s) (rcvd s))
        end
    | MCrlf =>
        if Nat.ltb (length (buf s)) 2 then More s
        else if starts_with_crlf (buf s)
             then Go (mkst MLen (skipn 2 (buf s)) (start s) (remaining s) (rcvd s)) []
             else Bad ENoCrlf
    | MTrailer =>
        match find_crlf_from (start s) (buf s) with
        | None =>
            let minsize := (rcvd s + N.of_nat (length (buf s)) + (if ends_with_cr (buf s) then 1 else 2))%N in
            if N.ltb maxtr minsize then Bad ETrailerTooLong else More s
        | Some 0 =>
            if (fixed && N.ltb maxtr (rcvd s + 2))%bool then Bad ETrailerTooLong
            else Fin (skipn 2 (buf s))
        | Some eol =>
            let r := (rcvd s + N.of_nat eol + 2)%N in
            if N.ltb maxtr r then Bad ETrailerTooLong
            else Go (mkst MTrailer (skipn (eol + 2) (buf s)) 0 (remaining s) r) []
        end
    | MBody =>
        if N.leb (remaining s) (N.of_nat (length (buf s)))
        then Go (mkst MCrlf (skipn (N.to_nat (remaining s)) (buf s)) (start s) 0%N (rcvd s))
                [firstn (N.to_nat (remaining s)) (buf s)]
        else Go (mkst MBody [] (start s) (remaining s - N.of_nat (length (buf s)))%N (rcvd s)) [buf s]
    end.

  Inductive dres := DMore (s : st) | DFin (extra : bytes) | DBad (e : err).

  (* while goOn and self._buffer: goOn = handler() *)
  Fixpoint drain (fuel : nat) (s : st) : list bytes * dres :=
    match fuel with
    | O => ([], DMore s)
    | S f =>
        match buf s with
        | [] => ([], DMore s)
        | _ :: _ =>
            match step s with
            | More s' => ([], DMore s')
            | Go s' out => let '(o, r) := drain f s' in (out ++ o, r)
            | Fin x => ([], DFin x)
            | Bad e => ([], DBad e)
            end
        end
    end.

  (* every handler that returns True removes at least one byte or leaves the BODY state, so this
     fuel is never exhausted (lemmas [drain_fuel], [D_unfold] in Proofs.v) *)
  Definition D (s : st) : list bytes * dres := drain (2 * length (buf s) + 2) s.

  (* dataReceived *)
  Definition feed (s : st) (c : bytes) : list bytes * dres := D (with_buf s (buf s ++ c)).

  (** a whole connection: deliveries until finished / failed; what arrives after the finish
      callback belongs to the caller (it is appended to the callback's argument) *)
  Inductive ending := Need | Finished (extra : bytes) | Failed (e : err).

  Fixpoint run (s : st) (cs : list bytes) : list bytes * ending :=
    match cs with
    | [] => ([], Need)
    | c :: r =>
        match feed s c with
        | (o, DMore s') => let '(o2, e) := run s' r in (o ++ o2, e)
        | (o, DFin x) => (o, Finished (x ++ concat r))
        | (o, DBad e) => (o, Failed e)
        end
    end.

  (* what the property talks about: the body bytes delivered, and how the stream ended
     ([Need] = noMoreData() raises _DataLoss) *)
  Definition summary (r : list bytes * ending) : bytes * ending := (concat (fst r), snd r).
  Definition decode (cs : list bytes) : bytes * ending := summary (run init cs).
End Decoder.

(** ---- the encoder ---- *)
Definition hexchar (d : N) : N := if N.ltb d 10 then (48 + d)%N else (87 + d)%N.
Fixpoint to_hex_aux (fuel : nat) (n : N) (acc : bytes) : bytes :=
  match fuel with
  | O => acc
  | S f => if N.ltb n 16 then hexchar n :: acc
           else to_hex_aux f (N.div n 16) (hexchar (N.modulo n 16) :: acc)
  end.
(* format(n, "x") *)
Definition to_hex (n : N) : bytes := to_hex_aux (S (N.to_nat (N.log2 n))) n [].
(* b"".join(toChunk(data)) *)
Definition toChunk (data : bytes) : bytes := to_hex (N.of_nat (length data)) ++ CRLF ++ data ++ CRLF.

(* a chunk as any conforming sender may write it: size digits (any case, leading zeros),
   optional extension text after ';' *)
Record chunk := mkchunk { c_digits : bytes; c_ext : option bytes; c_data : bytes }.
Definition enc_ext (e : option bytes) : bytes := match e with None => [] | Some x => SEMI :: x end.
Definition enc_sizeline (digits : bytes) (e : option bytes) : bytes := digits ++ enc_ext e ++ CRLF.
Definition enc_chunk (c : chunk) : bytes := enc_sizeline (c_digits c) (c_ext c) ++ c_data c ++ CRLF.
Definition enc_trailers (ts : list bytes) : bytes := flat_map (fun t => t ++ CRLF) ts.
Definition encode (cs : list chunk) (zdigits : bytes) (zext : option bytes) (ts : list bytes) : bytes :=
  flat_map enc_chunk cs ++ enc_sizeline zdigits zext ++ enc_trailers ts ++ CRLF.

(* the size field of a chunk-size line: what precedes the first ';' *)
Definition size_field (line : bytes) : bytes :=
  firstn (match find_byte SEMI line with Some i => i | None => length line end) line.

Definition wf_ext (e : option bytes) : bool :=
  match e with None => true | Some x => forallb is_extchar x end.
Definition wf_sizeline (digits : bytes) (e : option bytes) : bool :=
  Nat.ltb (length (digits ++ enc_ext e)) max_size_line && wf_ext e.
Definition wf_chunk (c : chunk) : bool :=
  match hexint (c_digits c) with
  | Some n => N.eqb n (N.of_nat (length (c_data c))) && negb (is_nil (c_data c))
  | None => false
  end && wf_sizeline (c_digits c) (c_ext c).
Definition wf_last (zdigits : bytes) (zext : option bytes) : bool :=
  match hexint zdigits with Some n => N.eqb n 0 | None => false end && wf_sizeline zdigits zext.
Definition wf_trailer (t : bytes) : bool :=
  negb (is_nil t) && match find_crlf t with None => true | Some _ => false end.
Definition trailers_size (ts : list bytes) : N :=
  fold_right (fun t acc => (N.of_nat (length t) + 2 + acc)%N) 0%N ts.
