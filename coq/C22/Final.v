(** C22 proofs, part 4: the property theorems (any split into deliveries). *)
From Coq Require Import List NArith Bool Arith Lia ZifyBool.
From C22 Require Import Gen Model Proofs SegProofs RoundTrip.
Import ListNotations.

Lemma decode_one : forall maxtr b,
  decode true maxtr [b] = summary (fin (D true maxtr (mkst MLen b 0 0%N 0%N))).
Proof. intros. unfold decode. rewrite run_single. reflexivity. Qed.

Lemma roundtrip : forall maxtr cs z ze ts x parts,
  forallb wf_chunk cs = true -> wf_last z ze = true -> forallb wf_trailer ts = true ->
  (trailers_size ts + 2 <= maxtr)%N ->
  concat parts = encode cs z ze ts ++ x ->
  decode true maxtr parts = (concat (map c_data cs), Finished x).
Proof.
  intros maxtr cs z ze ts x parts Hcs Hl Hts Hsz Hp.
  rewrite decode_split, Hp, decode_one, (roundtrip_whole true maxtr cs z ze ts x Hcs Hl Hts Hsz).
  reflexivity.
Qed.

Lemma truncation : forall maxtr cs z ze ts p q parts,
  forallb wf_chunk cs = true -> wf_last z ze = true -> forallb wf_trailer ts = true ->
  (trailers_size ts + 2 <= maxtr)%N ->
  p ++ q = encode cs z ze ts -> q <> [] -> concat parts = p ->
  exists d d2, decode true maxtr parts = (d, Need) /\ d ++ d2 = concat (map c_data cs).
Proof.
  intros maxtr cs z ze ts p q parts Hcs Hl Hts Hsz Hpq Hq Hp.
  assert (H2 : decode true maxtr [p; q] = (concat (map c_data cs), Finished [])).
  { apply (roundtrip maxtr cs z ze ts [] [p; q] Hcs Hl Hts Hsz).
    simpl. rewrite !app_nil_r. exact Hpq. }
  rewrite decode_split, Hp. unfold decode in *. unfold summary in *.
  cbn [Model.run] in *.
  destruct (feed true maxtr init p) as [o [s1|x|e]].
  - destruct (feed true maxtr s1 q) as [o2 [s2|x2|e2]]; cbn [fst snd] in *; try discriminate.
    injection H2 as Hbody Hx. exists (concat o), (concat o2).
    rewrite ?app_nil_r in *. rewrite concat_app in Hbody. split; [reflexivity|exact Hbody].
  - cbn [fst snd] in H2. inversion H2. simpl in H1. rewrite app_nil_r in H1.
    apply app_eq_nil in H1. destruct H1; congruence.
  - cbn [fst snd] in H2. inversion H2.
Qed.

Lemma rejects : forall maxtr cs bad e parts,
  forallb wf_chunk cs = true ->
  (forall rem', D true maxtr (mkst MLen bad 0 rem' 0%N) = ([], DBad e)) ->
  concat parts = flat_map enc_chunk cs ++ bad ->
  decode true maxtr parts = (concat (map c_data cs), Failed e).
Proof.
  intros maxtr cs bad e parts Hcs Hbad Hp.
  rewrite decode_split, Hp, decode_one, (rejects_whole true maxtr cs bad 0%N e Hcs Hbad).
  reflexivity.
Qed.

Lemma rejects_nonhex : forall maxtr cs line rest parts,
  forallb wf_chunk cs = true ->
  find_crlf line = None -> length line < max_size_line -> hexint (size_field line) = None ->
  concat parts = flat_map enc_chunk cs ++ line ++ CRLF ++ rest ->
  decode true maxtr parts = (concat (map c_data cs), Failed EBadSize).
Proof.
  intros maxtr cs line rest parts Hcs H1 H2 H3 Hp. eapply rejects; [exact Hcs| |exact Hp].
  intros rem'. apply bad_size_step; assumption.
Qed.

Lemma rejects_ext : forall maxtr cs d n x rest parts,
  forallb wf_chunk cs = true ->
  hexint d = Some n -> find_crlf (d ++ SEMI :: x) = None -> length (d ++ SEMI :: x) < max_size_line ->
  forallb is_extchar x = false ->
  concat parts = flat_map enc_chunk cs ++ (d ++ SEMI :: x) ++ CRLF ++ rest ->
  decode true maxtr parts = (concat (map c_data cs), Failed EBadExt).
Proof.
  intros maxtr cs d n x rest parts Hcs H1 H2 H3 H4 Hp. eapply rejects; [exact Hcs| |exact Hp].
  intros rem'. eapply bad_ext_step; eassumption.
Qed.

Lemma rejects_no_crlf : forall maxtr cs d e data t1 t2 rest parts,
  forallb wf_chunk cs = true ->
  hexint d = Some (N.of_nat (length data)) -> data <> [] -> wf_sizeline d e = true ->
  (N.eqb t1 CR && N.eqb t2 LF)%bool = false ->
  concat parts = flat_map enc_chunk cs ++ enc_sizeline d e ++ data ++ t1 :: t2 :: rest ->
  decode true maxtr parts = (concat (map c_data cs) ++ data, Failed ENoCrlf).
Proof.
  intros maxtr cs d e data t1 t2 rest parts Hcs H1 H2 H3 H4 Hp.
  rewrite decode_split, Hp, decode_one.
  destruct (D_chunks true maxtr cs (enc_sizeline d e ++ data ++ t1 :: t2 :: rest) 0%N 0%N Hcs) as [rem' Hc].
  rewrite Hc, (no_crlf_step true maxtr d e data t1 t2 rest rem' H1 H2 H3 H4).
  unfold pre, fin, summary. cbn [fst snd]. rewrite concat_app. simpl. rewrite app_nil_r. reflexivity.
Qed.

Lemma rejects_long_line : forall maxtr cs l rest parts,
  forallb wf_chunk cs = true ->
  find_crlf l = None -> max_size_line < length l ->
  concat parts = flat_map enc_chunk cs ++ l ++ rest ->
  decode true maxtr parts = (concat (map c_data cs), Failed ETooLong).
Proof.
  intros maxtr cs l rest parts Hcs H1 H2 Hp. eapply rejects; [exact Hcs| |exact Hp].
  intros rem'. apply long_line_step; assumption.
Qed.

(** the code at the pinned commit (fixed = false): finding F5 *)
Definition f5_parts : list bytes :=
  [[48; 13; 10; 97; 98; 99; 100; 101; 102; 103; 104; 13; 10; 13]; [10]]%N.
Lemma f5_refuted : decode false 10 f5_parts <> decode false 10 [concat f5_parts].
Proof. vm_compute. discriminate. Qed.
Lemma f5_repaired : decode true 10 f5_parts = decode true 10 [concat f5_parts].
Proof. vm_compute. reflexivity. Qed.

(** a non-trivial instance of the hypotheses *)
Definition ex_chunks : list chunk :=
  [mkchunk [48; 51]%N (Some [97; 61; 34; 59; 34]%N) [13; 10; 48]%N; mkchunk [65]%N None [1;2;3;4;5;6;7;8;9;10]%N].
Definition ex_trailers : list bytes := [[88; 58; 32; 13; 121]%N; [10; 90]%N].
Lemma ex_wf : forallb wf_chunk ex_chunks = true /\ wf_last [48; 48]%N (Some []) = true /\
  forallb wf_trailer ex_trailers = true /\ (trailers_size ex_trailers + 2 <= 13)%N.
Proof. vm_compute. repeat split; congruence. Qed.
