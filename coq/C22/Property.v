(** C22 property theorems.  [decode fixed maxtr parts] feeds the deliveries [parts] to a fresh
    _ChunkedTransferDecoder whose _maxTrailerHeadersSize is [maxtr] and returns (all bytes passed to
    dataCallback, how it ended): [Finished x] = finishCallback called once, x = its argument followed
    by the deliveries the caller had not fed yet; [Failed e] = _MalformedChunkedDataError;
    [Need] = neither, i.e. noMoreData() raises _DataLoss.  [fixed = true] is the decoder with
    fixes/C22-trailer-terminator-counted.patch; [fixed = false] the pinned code.  All statements are
    for every N-valued byte, every length, every number of chunks / trailer lines / deliveries. *)
From Coq Require Import List NArith Bool Arith.
From C22 Require Import Gen Model Proofs SegProofs RoundTrip Final ToHex.
Import ListNotations.

(** the decoder's verdict and output do not depend on how the stream is cut into deliveries *)
Theorem chunked_decoding_is_segmentation_invariant : forall maxtr (parts : list bytes),
  decode true maxtr parts = decode true maxtr [concat parts].
Proof. exact decode_split. Qed.
Print Assumptions chunked_decoding_is_segmentation_invariant.

(** round trip: chunks with any valid size spelling and extensions, trailer lines within the limit,
    arbitrary extra bytes, any split: exactly the body, finished once with exactly the extra bytes *)
Theorem chunked_roundtrip : forall maxtr (cs : list chunk) z ze (ts : list bytes) (x : bytes) (parts : list bytes),
  forallb wf_chunk cs = true -> wf_last z ze = true -> forallb wf_trailer ts = true ->
  (trailers_size ts + 2 <= maxtr)%N ->
  concat parts = encode cs z ze ts ++ x ->
  decode true maxtr parts = (concat (map c_data cs), Finished x).
Proof. exact roundtrip. Qed.
Print Assumptions chunked_roundtrip.

(** a stream that ends before the last byte of the encoding is data loss, and what was delivered
    is a prefix of the body *)
Theorem truncation_is_data_loss : forall maxtr (cs : list chunk) z ze (ts : list bytes) (p q : bytes) (parts : list bytes),
  forallb wf_chunk cs = true -> wf_last z ze = true -> forallb wf_trailer ts = true ->
  (trailers_size ts + 2 <= maxtr)%N ->
  p ++ q = encode cs z ze ts -> q <> [] -> concat parts = p ->
  exists d d2, decode true maxtr parts = (d, Need) /\ d ++ d2 = concat (map c_data cs).
Proof. exact truncation. Qed.
Print Assumptions truncation_is_data_loss.

(** rejection, after any number of well-formed chunks (whose data is still delivered), any split *)
Theorem rejects_nonhex_size : forall maxtr (cs : list chunk) (line rest : bytes) (parts : list bytes),
  forallb wf_chunk cs = true ->
  find_crlf line = None -> length line < max_size_line -> hexint (size_field line) = None ->
  concat parts = flat_map enc_chunk cs ++ line ++ CRLF ++ rest ->
  decode true maxtr parts = (concat (map c_data cs), Failed EBadSize).
Proof. exact rejects_nonhex. Qed.
Print Assumptions rejects_nonhex_size.

Theorem rejects_bad_ext_byte : forall maxtr (cs : list chunk) (d : bytes) n (x rest : bytes) (parts : list bytes),
  forallb wf_chunk cs = true ->
  hexint d = Some n -> find_crlf (d ++ SEMI :: x) = None -> length (d ++ SEMI :: x) < max_size_line ->
  forallb is_extchar x = false ->
  concat parts = flat_map enc_chunk cs ++ (d ++ SEMI :: x) ++ CRLF ++ rest ->
  decode true maxtr parts = (concat (map c_data cs), Failed EBadExt).
Proof. exact rejects_ext. Qed.
Print Assumptions rejects_bad_ext_byte.

Theorem rejects_missing_crlf : forall maxtr (cs : list chunk) (d : bytes) e (data : bytes) t1 t2 (rest : bytes) (parts : list bytes),
  forallb wf_chunk cs = true ->
  hexint d = Some (N.of_nat (length data)) -> data <> [] -> wf_sizeline d e = true ->
  (N.eqb t1 CR && N.eqb t2 LF)%bool = false ->
  concat parts = flat_map enc_chunk cs ++ enc_sizeline d e ++ data ++ t1 :: t2 :: rest ->
  decode true maxtr parts = (concat (map c_data cs) ++ data, Failed ENoCrlf).
Proof. exact rejects_no_crlf. Qed.
Print Assumptions rejects_missing_crlf.

Theorem rejects_overlong_size_line : forall maxtr (cs : list chunk) (l rest : bytes) (parts : list bytes),
  forallb wf_chunk cs = true ->
  find_crlf l = None -> max_size_line < length l ->
  concat parts = flat_map enc_chunk cs ++ l ++ rest ->
  decode true maxtr parts = (concat (map c_data cs), Failed ETooLong).
Proof. exact rejects_long_line. Qed.
Print Assumptions rejects_overlong_size_line.

(** finding F5: the code at the pinned commit is NOT segmentation-invariant at the trailer limit
    (limit 10, trailer line "abcdefgh", final CRLF split): accepted whole, rejected split *)
Theorem trailer_limit_split_refuted_in_pinned_code :
  exists maxtr parts, decode false maxtr parts <> decode false maxtr [concat parts].
Proof. exists 10%N, f5_parts. exact f5_refuted. Qed.
Print Assumptions trailer_limit_split_refuted_in_pinned_code.

(** the encoder: toChunk's size field is read back as the chunk length ... *)
Theorem tochunk_size_field_decodes : forall n : N, hexint (to_hex n) = Some n.
Proof. exact hexint_to_hex. Qed.
Print Assumptions tochunk_size_field_decodes.

(** ... so any sequence of non-empty byte strings written with toChunk, then "0 CRLF CRLF", then
    arbitrary extra bytes, under any split, is decoded to exactly those strings and the extra bytes
    ([length (to_hex _) < max_size_line] holds for every string shorter than 16^1023 bytes) *)
Theorem tochunk_roundtrip : forall maxtr (datas : list bytes) (x : bytes) (parts : list bytes),
  Forall (fun d => d <> [] /\ length (to_hex (N.of_nat (length d))) < max_size_line) datas ->
  (2 <= maxtr)%N ->
  concat parts = flat_map toChunk datas ++ [48; 13; 10; 13; 10]%N ++ x ->
  decode true maxtr parts = (concat datas, Finished x).
Proof. exact toChunk_roundtrip. Qed.
Print Assumptions tochunk_roundtrip.
