(** C22 proofs, part 3: what the decoder does with a whole well-formed / malformed stream. *)
From Coq Require Import List NArith Bool Arith Lia ZifyBool.
From C22 Require Import Gen Model Proofs SegProofs.
Import ListNotations.

Arguments find_crlf : simpl never.
Arguments find_crlf_from : simpl never.
Arguments hexint : simpl never.
Arguments firstn : simpl nomatch.
Arguments skipn : simpl nomatch.
Opaque max_size_line.

(** ---- byte classes (computed from the regenerated tables) ---- *)
Lemma mem_neq : forall t c d, mem d t = false -> mem c t = true -> N.eqb c d = false.
Proof.
  intros t c d Hd Hc. destruct (N.eqb c d) eqn:E; [|reflexivity].
  apply N.eqb_eq in E. subst. congruence.
Qed.

Lemma hexdigit_not_cr : forall c, is_hexdigit c = true -> N.eqb c CR = false.
Proof. intros c H. apply (mem_neq hexdigit_chars c CR); [vm_compute; reflexivity|exact H]. Qed.
Lemma hexdigit_not_semi : forall c, is_hexdigit c = true -> N.eqb c SEMI = false.
Proof. intros c H. apply (mem_neq hexdigit_chars c SEMI); [vm_compute; reflexivity|exact H]. Qed.
Lemma extchar_not_cr : forall c, is_extchar c = true -> N.eqb c CR = false.
Proof. intros c H. apply (mem_neq chunk_ext_chars c CR); [vm_compute; reflexivity|exact H]. Qed.

Lemma forallb_impl : forall (p q : N -> bool) l,
  (forall c, p c = true -> q c = true) -> forallb p l = true -> forallb q l = true.
Proof.
  intros p q l H. induction l as [|x r IH]; simpl; [reflexivity|].
  intros H1. apply andb_true_iff in H1. destruct H1 as [H1 H2].
  rewrite (H _ H1), (IH H2). reflexivity.
Qed.

Lemma hexint_digits : forall d n, hexint d = Some n -> forallb is_hexdigit d = true /\ d <> [].
Proof.
  intros d n H. unfold hexint, ishexdigits in H.
  destruct (forallb is_hexdigit d) eqn:E; simpl in H; [|discriminate].
  split; [reflexivity|]. destruct d; [discriminate|discriminate].
Qed.

Lemma find_byte_none : forall c l, forallb (fun x => negb (N.eqb x c)) l = true -> find_byte c l = None.
Proof.
  induction l as [|x r IH]; simpl; [reflexivity|]. intros H.
  apply andb_true_iff in H. destruct H as [H1 H2]. apply negb_true_iff in H1.
  rewrite H1, (IH H2). reflexivity.
Qed.
Lemma find_byte_at : forall c l r, forallb (fun x => negb (N.eqb x c)) l = true ->
  find_byte c (l ++ c :: r) = Some (length l).
Proof.
  induction l as [|x l IH]; simpl; intros r H.
  - rewrite N.eqb_refl. reflexivity.
  - apply andb_true_iff in H. destruct H as [H1 H2]. apply negb_true_iff in H1.
    rewrite H1, (IH r H2). reflexivity.
Qed.

Lemma firstn_app_exact : forall (l r : bytes), firstn (length l) (l ++ r) = l.
Proof.
  intros. rewrite firstn_app, Nat.sub_diag, firstn_O, app_nil_r. apply firstn_all.
Qed.
Lemma skipn_app_exact : forall (l r : bytes), skipn (length l) (l ++ r) = r.
Proof.
  intros. rewrite skipn_app, Nat.sub_diag, skipn_all. reflexivity.
Qed.

Section RT.
  Variable fixed : bool.
  Variable maxtr : N.
  Notation step := (Model.step fixed maxtr).
  Notation D := (Model.D fixed maxtr).

  Lemma D_go : forall s s' out, buf s <> [] -> step s = Go s' out -> D s = pre out (D s').
  Proof.
    intros s s' out Hb H. rewrite D_unfold. destruct (buf s); [congruence|].
    rewrite H. apply let_pre.
  Qed.
  Lemma D_fin : forall s x, buf s <> [] -> step s = Fin x -> D s = ([], DFin x).
  Proof. intros s x Hb H. rewrite D_unfold. destruct (buf s); [congruence|]. rewrite H. reflexivity. Qed.
  Lemma D_bad : forall s e, buf s <> [] -> step s = Bad e -> D s = ([], DBad e).
  Proof. intros s e Hb H. rewrite D_unfold. destruct (buf s); [congruence|]. rewrite H. reflexivity. Qed.

  (** the size line of a chunk *)
  Lemma sizeline_no_crlf : forall d e n, hexint d = Some n -> wf_ext e = true ->
    find_crlf (d ++ enc_ext e) = None.
  Proof.
    intros d e n Hd He. apply find_crlf_no_cr. rewrite forallb_app.
    destruct (hexint_digits _ _ Hd) as [Hh _].
    apply andb_true_iff. split.
    - eapply forallb_impl; [|exact Hh]. intros c Hc. rewrite (hexdigit_not_cr _ Hc). reflexivity.
    - destruct e as [x|]; simpl; [|reflexivity]. simpl in He.
      eapply forallb_impl; [|exact He]. intros c Hc. rewrite (extchar_not_cr _ Hc). reflexivity.
  Qed.

  Lemma sizeline_step : forall d e n rest rem rc,
    hexint d = Some n -> wf_sizeline d e = true ->
    step (mkst MLen (enc_sizeline d e ++ rest) 0 rem rc) =
    Go (mkst (if N.eqb n 0 then MTrailer else MBody) rest 0 n rc) [].
  Proof.
    intros d e n rest rem rc Hd Hw. unfold wf_sizeline in Hw.
    apply andb_true_iff in Hw. destruct Hw as [Hlen He].
    pose proof (sizeline_no_crlf d e n Hd He) as Hnc.
    destruct (hexint_digits _ _ Hd) as [Hh Hne].
    unfold Model.step. cbn [md buf start remaining rcvd].
    rewrite find_crlf_from_0. unfold enc_sizeline, CRLF.
    set (l := d ++ enc_ext e) in *.
    replace ((d ++ enc_ext e ++ [CR; LF]) ++ rest) with (l ++ CR :: LF :: rest)
      by (unfold l; rewrite <- !app_assoc; reflexivity).
    rewrite (find_crlf_at l rest Hnc).
    destruct (Nat.leb max_size_line (length l)) eqn:El; [lia|].
    rewrite firstn_app_exact.
    assert (Hsemi : forallb (fun x => negb (N.eqb x SEMI)) d = true).
    { eapply forallb_impl; [|exact Hh]. intros c Hc. rewrite (hexdigit_not_semi _ Hc). reflexivity. }
    assert (Hk : (let k := match find_byte SEMI l with Some i => i | None => length l end in
                  firstn k l = d /\ forallb is_extchar (skipn (S k) l) = true)).
    { unfold l. destruct e as [x|]; simpl enc_ext.
      - rewrite (find_byte_at SEMI d x Hsemi). cbv zeta. split.
        + apply firstn_app_exact.
        + replace (S (length d)) with (length (d ++ [SEMI])) by (rewrite app_length; simpl; lia).
          replace (d ++ SEMI :: x) with ((d ++ [SEMI]) ++ x) by (rewrite <- app_assoc; reflexivity).
          rewrite skipn_app_exact. exact He.
      - rewrite app_nil_r. rewrite (find_byte_none SEMI d Hsemi). cbv zeta. split.
        + apply firstn_all.
        + rewrite skipn_all2 by lia. reflexivity. }
    cbv zeta in Hk. destruct Hk as [Hk1 Hk2]. rewrite Hk1, Hd, Hk2.
    replace (length l + 2) with (length (l ++ [CR; LF])) by (rewrite app_length; simpl; lia).
    replace (l ++ CR :: LF :: rest) with ((l ++ [CR; LF]) ++ rest) by (rewrite <- app_assoc; reflexivity).
    rewrite skipn_app_exact. reflexivity.
  Qed.

  Lemma sizeline_nonempty : forall d e n rest, hexint d = Some n -> enc_sizeline d e ++ rest <> [].
  Proof.
    intros d e n rest Hd. destruct (hexint_digits _ _ Hd) as [_ Hne].
    destruct d; [congruence|discriminate].
  Qed.

  Lemma body_step : forall data rest rc,
    data <> [] ->
    step (mkst MBody (data ++ rest) 0 (N.of_nat (length data)) rc) =
    Go (mkst MCrlf rest 0 0%N rc) [data].
  Proof.
    intros data rest rc Hne. unfold Model.step. cbn [md buf start remaining rcvd].
    destruct (N.leb _ _) eqn:E; [|rewrite app_length in E; lia].
    rewrite Nat2N.id, firstn_app_exact, skipn_app_exact. reflexivity.
  Qed.

  Lemma crlf_step : forall rest rem rc,
    step (mkst MCrlf (CR :: LF :: rest) 0 rem rc) = Go (mkst MLen rest 0 rem rc) [].
  Proof. reflexivity. Qed.

  (** one well-formed chunk *)
  Lemma D_chunk : forall c rest rem rc, wf_chunk c = true ->
    D (mkst MLen (enc_chunk c ++ rest) 0 rem rc) = pre [c_data c] (D (mkst MLen rest 0 0%N rc)).
  Proof.
    intros [d e data] rest rem rc Hw. unfold wf_chunk in Hw. cbn [c_digits c_ext c_data] in *.
    apply andb_true_iff in Hw. destruct Hw as [Hh Hs].
    destruct (hexint d) as [n|] eqn:Hd; [|discriminate].
    apply andb_true_iff in Hh. destruct Hh as [Hn Hne].
    apply N.eqb_eq in Hn. subst n.
    assert (Hdata : data <> []) by (destruct data; [discriminate|discriminate]).
    unfold enc_chunk. cbn [c_digits c_ext c_data]. rewrite <- !app_assoc.
    rewrite (D_go (mkst MLen (enc_sizeline d e ++ data ++ CRLF ++ rest) 0 rem rc) _ _
               (sizeline_nonempty d e _ _ Hd) (sizeline_step d e _ _ rem rc Hd Hs)).
    assert (Hnz : N.eqb (N.of_nat (length data)) 0 = false).
    { destruct data; [congruence|]. simpl. reflexivity. }
    rewrite Hnz.
    assert (Hb2 : buf (mkst MBody (data ++ CRLF ++ rest) 0 (N.of_nat (length data)) rc) <> []).
    { cbn [buf]. destruct data; [congruence|discriminate]. }
    rewrite (D_go _ _ _ Hb2 (body_step data (CRLF ++ rest) rc Hdata)).
    unfold CRLF. cbn [app].
    assert (Hb3 : buf (mkst MCrlf (CR :: LF :: rest) 0 0%N rc) <> []) by (cbn [buf]; discriminate).
    rewrite (D_go _ _ _ Hb3 (crlf_step rest 0%N rc)).
    unfold pre. cbn [fst snd app]. reflexivity.
  Qed.

  Lemma D_chunks : forall cs rest rem rc, forallb wf_chunk cs = true ->
    exists rem', D (mkst MLen (flat_map enc_chunk cs ++ rest) 0 rem rc) =
                 pre (map c_data cs) (D (mkst MLen rest 0 rem' rc)).
  Proof.
    induction cs as [|c cs IH]; intros rest rem rc Hw.
    - exists rem. unfold pre. simpl. destruct (D _). reflexivity.
    - simpl in Hw. apply andb_true_iff in Hw. destruct Hw as [Hc Hcs].
      destruct (IH rest 0%N rc Hcs) as [rem' IH'].
      exists rem'. simpl flat_map. rewrite <- app_assoc. rewrite (D_chunk c _ rem rc Hc), IH'.
      unfold pre. simpl. reflexivity.
  Qed.
End RT.

Section RT2.
  Variable fixed : bool.
  Variable maxtr : N.
  Notation step := (Model.step fixed maxtr).
  Notation D := (Model.D fixed maxtr).

  Lemma wf_trailer_spec : forall t, wf_trailer t = true -> t <> [] /\ find_crlf t = None.
  Proof.
    intros t H. unfold wf_trailer in H. apply andb_true_iff in H. destruct H as [H1 H2].
    split; [destruct t; [discriminate|discriminate]|]. destruct (find_crlf t); [discriminate|reflexivity].
  Qed.

  Lemma trailer_step : forall t rest rem rc, wf_trailer t = true ->
    step (mkst MTrailer ((t ++ CRLF) ++ rest) 0 rem rc) =
    if N.ltb maxtr (rc + N.of_nat (length t) + 2) then Bad ETrailerTooLong
    else Go (mkst MTrailer rest 0 rem (rc + N.of_nat (length t) + 2)%N) [].
  Proof.
    intros t rest rem rc Hw. destruct (wf_trailer_spec t Hw) as [Hne Hnc].
    unfold Model.step. cbn [md buf start remaining rcvd]. rewrite find_crlf_from_0.
    unfold CRLF. rewrite <- app_assoc. cbn [app]. rewrite (find_crlf_at t rest Hnc).
    destruct (length t) as [|k] eqn:El; [destruct t; [congruence|discriminate]|].
    destruct (N.ltb _ _); [reflexivity|].
    replace (S k + 2) with (length (t ++ [CR; LF])) by (rewrite app_length; simpl; lia).
    replace (t ++ CR :: LF :: rest) with ((t ++ [CR; LF]) ++ rest) by (rewrite <- app_assoc; reflexivity).
    rewrite skipn_app_exact. reflexivity.
  Qed.

  Lemma final_step : forall x rem rc,
    step (mkst MTrailer (CR :: LF :: x) 0 rem rc) =
    if (fixed && N.ltb maxtr (rc + 2))%bool then Bad ETrailerTooLong else Fin x.
  Proof. reflexivity. Qed.

  Lemma D_trailers : forall ts x rem rc, forallb wf_trailer ts = true ->
    (rc + trailers_size ts + 2 <= maxtr)%N ->
    D (mkst MTrailer (enc_trailers ts ++ CRLF ++ x) 0 rem rc) = ([], DFin x).
  Proof.
    induction ts as [|t ts IH]; intros x rem rc Hw Hsz.
    - simpl. apply D_fin; [discriminate|]. rewrite final_step. simpl in Hsz.
      destruct (N.ltb maxtr (rc + 2)) eqn:E; [lia|]. rewrite andb_false_r. reflexivity.
    - simpl in Hw. apply andb_true_iff in Hw. destruct Hw as [Ht Hts].
      destruct (wf_trailer_spec t Ht) as [Hne _].
      cbn [enc_trailers flat_map]. fold (enc_trailers ts). rewrite <- app_assoc.
      cbn [trailers_size fold_right] in Hsz. fold (trailers_size ts) in Hsz.
      assert (Hb : buf (mkst MTrailer ((t ++ CRLF) ++ enc_trailers ts ++ CRLF ++ x) 0 rem rc) <> []).
      { cbn [buf]. destruct t; [congruence|discriminate]. }
      pose proof (trailer_step t (enc_trailers ts ++ CRLF ++ x) rem rc Ht) as Hs.
      destruct (N.ltb maxtr (rc + N.of_nat (length t) + 2)) eqn:E; [lia|].
      rewrite (D_go fixed maxtr _ _ _ Hb Hs). rewrite IH; [reflexivity|exact Hts|lia].
  Qed.

  Lemma wf_last_spec : forall z ze, wf_last z ze = true -> hexint z = Some 0%N /\ wf_sizeline z ze = true.
  Proof.
    intros z ze H. unfold wf_last in H. apply andb_true_iff in H. destruct H as [H1 H2].
    split; [|exact H2]. destruct (hexint z) as [n|]; [|discriminate]. apply N.eqb_eq in H1. subst. reflexivity.
  Qed.

  Lemma with_buf_init : forall b, with_buf init (buf init ++ b) = mkst MLen b 0 0%N 0%N.
  Proof. reflexivity. Qed.

  (** whole delivery of a well-formed encoding followed by anything *)
  Lemma roundtrip_whole : forall cs z ze ts x,
    forallb wf_chunk cs = true -> wf_last z ze = true -> forallb wf_trailer ts = true ->
    (trailers_size ts + 2 <= maxtr)%N ->
    D (mkst MLen (encode cs z ze ts ++ x) 0 0%N 0%N) = (map c_data cs, DFin x).
  Proof.
    intros cs z ze ts x Hcs Hl Hts Hsz. destruct (wf_last_spec z ze Hl) as [Hz Hzs].
    unfold encode. rewrite <- !app_assoc.
    destruct (D_chunks fixed maxtr cs (enc_sizeline z ze ++ enc_trailers ts ++ CRLF ++ x) 0%N 0%N Hcs)
      as [rem' H1].
    rewrite H1.
    rewrite (D_go fixed maxtr (mkst MLen (enc_sizeline z ze ++ enc_trailers ts ++ CRLF ++ x) 0 rem' 0%N) _ _
               (sizeline_nonempty z ze _ _ Hz)
               (sizeline_step fixed maxtr z ze _ _ rem' 0%N Hz Hzs)).
    cbn [N.eqb]. rewrite D_trailers; [|exact Hts|lia].
    unfold pre. cbn [fst snd]. rewrite !app_nil_r. reflexivity.
  Qed.

  (** the rejection half, whole delivery *)
  Lemma rejects_whole : forall cs bad rem e, forallb wf_chunk cs = true ->
    (forall rem', D (mkst MLen bad 0 rem' 0%N) = ([], DBad e)) ->
    D (mkst MLen (flat_map enc_chunk cs ++ bad) 0 rem 0%N) = (map c_data cs, DBad e).
  Proof.
    intros cs bad rem e Hcs Hbad. destruct (D_chunks fixed maxtr cs bad rem 0%N Hcs) as [rem' H1].
    rewrite H1, Hbad. unfold pre. cbn [fst snd]. rewrite app_nil_r. reflexivity.
  Qed.

  (* size line that is complete, short enough, and whose size field is not 1*HEXDIG *)
  Lemma bad_size_step : forall line rest rem,
    find_crlf line = None -> length line < max_size_line ->
    hexint (firstn (match find_byte SEMI line with Some i => i | None => length line end) line) = None ->
    D (mkst MLen (line ++ CRLF ++ rest) 0 rem 0%N) = ([], DBad EBadSize).
  Proof.
    intros line rest rem Hnc Hlen Hh. apply D_bad; [destruct line; discriminate|].
    unfold Model.step. cbn [md buf start remaining rcvd]. rewrite find_crlf_from_0.
    unfold CRLF. cbn [app]. rewrite (find_crlf_at line rest Hnc).
    destruct (Nat.leb max_size_line (length line)) eqn:E; [lia|].
    rewrite firstn_app_exact, Hh. reflexivity.
  Qed.

  (* size line with a valid size and a disallowed byte in the extension *)
  Lemma bad_ext_step : forall d x n rest rem,
    hexint d = Some n -> find_crlf (d ++ SEMI :: x) = None -> length (d ++ SEMI :: x) < max_size_line ->
    forallb is_extchar x = false ->
    D (mkst MLen ((d ++ SEMI :: x) ++ CRLF ++ rest) 0 rem 0%N) = ([], DBad EBadExt).
  Proof.
    intros d x n rest rem Hd Hnc Hlen Hx. destruct (hexint_digits _ _ Hd) as [Hh Hne].
    apply D_bad; [destruct d; [congruence|discriminate]|].
    unfold Model.step. cbn [md buf start remaining rcvd]. rewrite find_crlf_from_0.
    unfold CRLF. cbn [app]. rewrite (find_crlf_at _ rest Hnc).
    destruct (Nat.leb max_size_line (length (d ++ SEMI :: x))) eqn:E; [lia|].
    rewrite firstn_app_exact.
    assert (Hsemi : forallb (fun c => negb (N.eqb c SEMI)) d = true).
    { eapply forallb_impl; [|exact Hh]. intros c Hc. rewrite (hexdigit_not_semi _ Hc). reflexivity. }
    rewrite (find_byte_at SEMI d x Hsemi). rewrite firstn_app_exact, Hd.
    replace (S (length d)) with (length (d ++ [SEMI])) by (rewrite app_length; simpl; lia).
    replace (d ++ SEMI :: x) with ((d ++ [SEMI]) ++ x) by (rewrite <- app_assoc; reflexivity).
    rewrite skipn_app_exact, Hx. reflexivity.
  Qed.

  (* chunk data not followed by CRLF *)
  Lemma no_crlf_step : forall d e data t1 t2 rest rem,
    hexint d = Some (N.of_nat (length data)) -> data <> [] -> wf_sizeline d e = true ->
    (N.eqb t1 CR && N.eqb t2 LF)%bool = false ->
    D (mkst MLen (enc_sizeline d e ++ data ++ t1 :: t2 :: rest) 0 rem 0%N) = ([data], DBad ENoCrlf).
  Proof.
    intros d e data t1 t2 rest rem Hd Hdata Hs Ht.
    rewrite (D_go fixed maxtr (mkst MLen (enc_sizeline d e ++ data ++ t1 :: t2 :: rest) 0 rem 0%N) _ _
               (sizeline_nonempty d e _ _ Hd) (sizeline_step fixed maxtr d e _ _ rem 0%N Hd Hs)).
    assert (Hnz : N.eqb (N.of_nat (length data)) 0 = false) by (destruct data; [congruence|reflexivity]).
    rewrite Hnz.
    assert (Hb2 : buf (mkst MBody (data ++ t1 :: t2 :: rest) 0 (N.of_nat (length data)) 0%N) <> []).
    { cbn [buf]. destruct data; [congruence|discriminate]. }
    rewrite (D_go fixed maxtr _ _ _ Hb2 (body_step fixed maxtr data (t1 :: t2 :: rest) 0%N Hdata)).
    rewrite (D_bad fixed maxtr (mkst MCrlf (t1 :: t2 :: rest) 0 0%N 0%N) ENoCrlf).
    - reflexivity.
    - discriminate.
    - unfold Model.step. cbn. rewrite Ht. reflexivity.
  Qed.

  (* no CRLF within the first max_size_line+1 bytes *)
  Lemma long_line_step : forall l rest rem,
    find_crlf l = None -> max_size_line < length l ->
    D (mkst MLen (l ++ rest) 0 rem 0%N) = ([], DBad ETooLong).
  Proof.
    intros l rest rem Hnc Hlen. apply D_bad; [destruct l; [simpl in Hlen; lia|discriminate]|].
    unfold Model.step. cbn [md buf start remaining rcvd]. rewrite find_crlf_from_0.
    destruct (find_crlf (l ++ rest)) as [j|] eqn:Ef.
    - destruct (find_crlf_app_none _ _ _ Hnc Ef) as [Hj|[Hj _]];
        (destruct (Nat.leb max_size_line j) eqn:E; [reflexivity|lia]).
    - destruct (Nat.ltb max_size_line (length (l ++ rest))) eqn:E; [reflexivity|].
      rewrite app_length in E. lia.
  Qed.
End RT2.
