(** C22: what the decoder hands to the finish callback is a suffix of its buffer, so it is never
    longer than what was delivered (used by C19 for the fuel of its whole-stream parser). *)
From Coq Require Import List NArith Bool Arith Lia ZifyBool.
From C22 Require Import Gen Model Proofs SegProofs.
Import ListNotations.

Arguments find_crlf : simpl never.
Arguments find_crlf_from : simpl never.
Arguments hexint : simpl never.
Opaque max_size_line.

Section L.
  Variable fixed : bool.
  Variable maxtr : N.

  Lemma step_fin_length : forall s x, step fixed maxtr s = Fin x -> length x + 2 <= length (buf s).
  Proof.
    intros [m b st rem rc] x H. unfold step in H. simpl in H. destruct m.
    - destruct (find_crlf_from st b); [|destruct (Nat.ltb _ _); discriminate].
      destruct (Nat.leb _ _); [discriminate|]. destruct (hexint _); [|discriminate].
      destruct (forallb _ _); discriminate.
    - destruct (N.leb _ _); discriminate.
    - destruct (Nat.ltb _ _); [discriminate|]. destruct (starts_with_crlf b); discriminate.
    - destruct (find_crlf_from st b) as [[|eol]|] eqn:Ef.
      + destruct (fixed && N.ltb maxtr (rc + 2))%bool; [discriminate|]. simpl in H. inversion H; subst.
        unfold find_crlf_from in Ef. simpl. rewrite skipn_length.
        destruct (find_crlf (skipn st b)) as [j|] eqn:E2; [|discriminate].
        pose proof (find_crlf_bound _ _ E2) as Hb. rewrite skipn_length in Hb. lia.
      + destruct (N.ltb _ _); discriminate.
      + destruct (N.ltb _ _); discriminate.
  Qed.

  Lemma D_fin_length : forall n s o x, mu s < n -> D fixed maxtr s = (o, DFin x) -> length x + 2 <= length (buf s).
  Proof.
    induction n as [|n IH]; intros s o x Hn H; [lia|].
    rewrite D_unfold in H. destruct (buf s) as [|b0 bl] eqn:Eb; [discriminate|].
    destruct (step fixed maxtr s) as [s'|s' out|x'|e] eqn:Es; try discriminate.
    - rewrite let_pre in H. unfold pre in H.
      assert (Hmu : mu s' < mu s) by (eapply step_go_mu; eauto; congruence).
      destruct (D fixed maxtr s') as [o' r'] eqn:Ed. simpl in H. inversion H; subst.
      specialize (IH s' o' x ltac:(lia) Ed). unfold mu in Hmu. rewrite Eb in Hmu.
      destruct (md s'), (md s); simpl in *; lia.
    - inversion H; subst. apply step_fin_length in Es. rewrite Eb in Es. exact Es.
  Qed.

  Lemma decode_fin_length : forall b body x, decode fixed maxtr [b] = (body, Finished x) -> length x <= length b.
  Proof.
    intros b body x H. unfold decode, summary in H. cbn [run] in H.
    unfold feed in H. cbn [buf init app] in H.
    destruct (D fixed maxtr (with_buf init b)) as [o [s1|x1|e1]] eqn:Ed; simpl in H; try discriminate.
    inversion H; subst. rewrite app_nil_r.
    pose proof (D_fin_length (S (mu (with_buf init b))) _ _ _ (Nat.lt_succ_diag_r _) Ed) as Hl.
    simpl in Hl. lia.
  Qed.
End L.
