(** C22: printers used by the correspondence check only. *)
From Coq Require Import List NArith Bool String.
From TwLib Require Import Show.
From C22 Require Import Gen Model.
Import ListNotations.
Local Open Scope string_scope.

Inductive case :=
| CDec (maxtr : N) (cs : list bytes)     (* deliveries to a decoder with the given trailer limit *)
| CEnc (data : bytes).                   (* toChunk *)

Definition show_ending (e : ending) : string :=
  match e with
  | Need => "N"
  | Finished x => "F:" ++ show_hex x
  | Failed _ => "E"
  end.

Definition run_show (c : case) : string :=
  match c with
  | CDec m cs => let '(o, e) := run true m init cs in
                 String.concat "," (map show_hex o) ++ "|" ++ show_ending e
  | CEnc d => show_hex (toChunk d)
  end.
