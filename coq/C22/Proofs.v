(** C22 proofs, part 1: byte-search lemmas, fuel, and segmentation invariance of the decoder. *)
From Coq Require Import List NArith Bool Arith Lia ZifyBool.
From C22 Require Import Gen Model.
Import ListNotations.

Arguments find_crlf : simpl never.

(** ---- find_crlf ---- *)
Lemma find_crlf_nil : find_crlf [] = None.
Proof. reflexivity. Qed.
Lemma find_crlf_single : forall x, find_crlf [x] = None.
Proof. reflexivity. Qed.
Lemma find_crlf_cons2 : forall x y r,
  find_crlf (x :: y :: r) =
  if (N.eqb x CR && N.eqb y LF)%bool then Some 0 else option_map S (find_crlf (y :: r)).
Proof. reflexivity. Qed.

Lemma find_crlf_bound : forall b i, find_crlf b = Some i -> i + 2 <= length b.
Proof.
  induction b as [|x r IH]; intros i H.
  - discriminate.
  - destruct r as [|y r']; [discriminate|].
    rewrite find_crlf_cons2 in H.
    destruct (N.eqb x CR && N.eqb y LF)%bool.
    + inversion H; subst. simpl. lia.
    + destruct (find_crlf (y :: r')) as [j|] eqn:E; [|discriminate].
      inversion H; subst. specialize (IH _ eq_refl). simpl in *. lia.
Qed.

Lemma find_crlf_app_some : forall b c i, find_crlf b = Some i -> find_crlf (b ++ c) = Some i.
Proof.
  induction b as [|x r IH]; intros c i H.
  - discriminate.
  - destruct r as [|y r']; [discriminate|].
    rewrite find_crlf_cons2 in H. simpl app. rewrite find_crlf_cons2.
    destruct (N.eqb x CR && N.eqb y LF)%bool; [exact H|].
    destruct (find_crlf (y :: r')) as [j|] eqn:E; [|discriminate].
    change (y :: r' ++ c) with ((y :: r') ++ c). rewrite (IH c j eq_refl). exact H.
Qed.

Lemma find_crlf_from_0 : forall b, find_crlf_from 0 b = find_crlf b.
Proof. intros. unfold find_crlf_from. simpl. destruct (find_crlf b); reflexivity. Qed.

Lemma find_crlf_from_S : forall k x b,
  find_crlf_from (S k) (x :: b) = option_map S (find_crlf_from k b).
Proof. intros. unfold find_crlf_from. simpl. destruct (find_crlf (skipn k b)); reflexivity. Qed.

(* the resume index: after a failed search the next one may start at len-1 *)
Lemma find_crlf_resume : forall b c, find_crlf b = None ->
  find_crlf_from (length b - 1) (b ++ c) = find_crlf (b ++ c).
Proof.
  induction b as [|x r IH]; intros c H.
  - simpl. apply find_crlf_from_0.
  - destruct r as [|y r'].
    + simpl. apply find_crlf_from_0.
    + rewrite find_crlf_cons2 in H.
      destruct (N.eqb x CR && N.eqb y LF)%bool eqn:E; [discriminate|].
      destruct (find_crlf (y :: r')) eqn:E2; [discriminate|].
      replace (length (x :: y :: r') - 1) with (S (length (y :: r') - 1)) by (simpl; lia).
      simpl app. rewrite find_crlf_from_S, find_crlf_cons2, E.
      change (y :: r' ++ c) with ((y :: r') ++ c). rewrite (IH c eq_refl). reflexivity.
Qed.

Lemma ends_with_cr_cons : forall x y r, ends_with_cr (x :: y :: r) = ends_with_cr (y :: r).
Proof. reflexivity. Qed.

(* where a CRLF can appear once more bytes arrive *)
Lemma find_crlf_app_none : forall b c j, find_crlf b = None -> find_crlf (b ++ c) = Some j ->
  length b <= j \/ (length b = j + 1 /\ ends_with_cr b = true).
Proof.
  induction b as [|x r IH]; intros c j H1 H2.
  - left. simpl. lia.
  - destruct r as [|y r'].
    + simpl in H2. destruct c as [|z c']; [discriminate|].
      rewrite find_crlf_cons2 in H2.
      destruct (N.eqb x CR && N.eqb z LF)%bool eqn:E.
      * inversion H2; subst. right. split; [reflexivity|].
        unfold ends_with_cr. simpl. apply andb_true_iff in E. tauto.
      * destruct (find_crlf (z :: c')); [|discriminate]. inversion H2; subst. left. simpl. lia.
    + rewrite find_crlf_cons2 in H1.
      destruct (N.eqb x CR && N.eqb y LF)%bool eqn:E; [discriminate|].
      destruct (find_crlf (y :: r')) eqn:E2; [discriminate|].
      simpl app in H2. rewrite find_crlf_cons2, E in H2.
      change (y :: r' ++ c) with ((y :: r') ++ c) in H2.
      destruct (find_crlf ((y :: r') ++ c)) as [j'|] eqn:E3; [|discriminate].
      inversion H2; subst.
      destruct (IH c j' eq_refl E3) as [Hl|[Hl He]].
      * left. simpl in *. lia.
      * right. rewrite ends_with_cr_cons. split; [simpl in *; lia|exact He].
Qed.

Lemma find_crlf_at : forall l rest, find_crlf l = None ->
  find_crlf (l ++ CR :: LF :: rest) = Some (length l).
Proof.
  induction l as [|x r IH]; intros rest H.
  - reflexivity.
  - destruct r as [|y r'].
    + simpl app. rewrite find_crlf_cons2. replace (N.eqb CR LF) with false by reflexivity.
      rewrite andb_false_r. rewrite find_crlf_cons2. reflexivity.
    + rewrite find_crlf_cons2 in H.
      destruct (N.eqb x CR && N.eqb y LF)%bool eqn:E; [discriminate|].
      destruct (find_crlf (y :: r')) eqn:E2; [discriminate|].
      simpl app. rewrite find_crlf_cons2, E.
      change (y :: r' ++ CR :: LF :: rest) with ((y :: r') ++ CR :: LF :: rest).
      rewrite (IH rest eq_refl). reflexivity.
Qed.

Lemma find_crlf_no_cr : forall l, forallb (fun c => negb (N.eqb c CR)) l = true -> find_crlf l = None.
Proof.
  induction l as [|x r IH]; intros H; [reflexivity|].
  destruct r as [|y r']; [reflexivity|].
  simpl in H. apply andb_true_iff in H. destruct H as [H1 H2].
  rewrite find_crlf_cons2. apply negb_true_iff in H1. rewrite H1. simpl.
  rewrite (IH H2). reflexivity.
Qed.
