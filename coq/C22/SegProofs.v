(** C22 proofs, part 2: fuel never runs out; the decoder is segmentation-invariant. *)
From Coq Require Import List NArith Bool Arith Lia ZifyBool.
From C22 Require Import Gen Model Proofs.
Import ListNotations.

Arguments find_crlf : simpl never.
Opaque max_size_line.
Arguments find_crlf_from : simpl never.
Arguments hexint : simpl never.
Arguments firstn : simpl nomatch.
Arguments skipn : simpl nomatch.

Section Fuel.
  Variable fixed : bool.
  Variable maxtr : N.
  Notation step := (step fixed maxtr).
  Notation drain := (drain fixed maxtr).
  Notation D := (D fixed maxtr).

  Definition mu (s : st) : nat :=
    2 * length (buf s) + match md s with MBody => 1 | _ => 0 end.

  Lemma skipn_S_lt : forall (b : bytes) k, b <> [] -> length (skipn (S k) b) < length b.
  Proof. intros b k H. rewrite skipn_length. destruct b; [congruence|simpl; lia]. Qed.

  Lemma step_go_mu : forall s s' out, buf s <> [] -> step s = Go s' out -> mu s' < mu s.
  Proof.
    intros [m b st rem rc] s' out Hb H. unfold Model.step in H. simpl in *.
    destruct m.
    - destruct (find_crlf_from st b) as [eol|]; [|destruct (Nat.ltb _ _); discriminate].
      destruct (Nat.leb _ _); [discriminate|].
      destruct (hexint _) as [n|]; [|discriminate].
      destruct (forallb _ _); [|discriminate]. inversion H; subst; clear H.
      unfold mu; simpl.
      assert (length (skipn (eol + 2) b) < length b).
      { replace (eol + 2) with (S (eol + 1)) by lia. apply skipn_S_lt; auto. }
      destruct (N.eqb n 0); lia.
    - destruct (N.leb rem (N.of_nat (length b))); inversion H; subst; clear H; unfold mu; simpl.
      + rewrite skipn_length. lia.
      + destruct b; [congruence|simpl; lia].
    - destruct (Nat.ltb _ _); [discriminate|]. destruct (starts_with_crlf b); [|discriminate].
      inversion H; subst; clear H. unfold mu; simpl.
      assert (length (skipn 2 b) < length b) by (apply skipn_S_lt; auto). lia.
    - destruct (find_crlf_from st b) as [[|eol]|].
      + destruct (fixed && _)%bool; discriminate.
      + destruct (N.ltb _ _); [discriminate|]. inversion H; subst; clear H. unfold mu; simpl.
        change (S eol + 2) with (S (eol + 2)).
        assert (length (skipn (S (eol + 2)) b) < length b) by (apply skipn_S_lt; auto).
        lia.
      + destruct (N.ltb _ _); discriminate.
  Qed.

  Lemma drain_S : forall f s, drain (S f) s =
    match buf s with
    | [] => ([], DMore s)
    | _ :: _ =>
        match step s with
        | More s' => ([], DMore s')
        | Go s' out => let '(o, r) := drain f s' in (out ++ o, r)
        | Fin x => ([], DFin x)
        | Bad e => ([], DBad e)
        end
    end.
  Proof. reflexivity. Qed.

  Lemma drain_fuel : forall f1 f2 s, mu s < f1 -> mu s < f2 -> drain f1 s = drain f2 s.
  Proof.
    induction f1 as [|f1 IH]; intros f2 s H1 H2; [lia|].
    destruct f2 as [|f2]; [lia|]. rewrite !drain_S.
    destruct (buf s) eqn:Eb; [reflexivity|].
    destruct (step s) as [s'|s' out|x|e] eqn:Es; try reflexivity.
    assert (mu s' < mu s) by (eapply step_go_mu; eauto; congruence).
    rewrite (IH f2 s') by lia. reflexivity.
  Qed.

  (** the loop of dataReceived, without fuel *)
  Lemma D_unfold : forall s, D s =
    match buf s with
    | [] => ([], DMore s)
    | _ :: _ =>
        match step s with
        | More s' => ([], DMore s')
        | Go s' out => let '(o, r) := D s' in (out ++ o, r)
        | Fin x => ([], DFin x)
        | Bad e => ([], DBad e)
        end
    end.
  Proof.
    intros s. unfold Model.D.
    replace (2 * length (buf s) + 2) with (S (2 * length (buf s) + 1)) by lia.
    rewrite drain_S. destruct (buf s) as [|b l] eqn:Eb; [reflexivity|].
    destruct (step s) as [s'|s' out|x|e] eqn:Es; try reflexivity.
    assert (mu s' < mu s) by (eapply step_go_mu; eauto; congruence).
    rewrite (drain_fuel (2 * length (b :: l) + 1) (2 * length (buf s') + 2) s'); [reflexivity| |].
    - unfold mu in *. rewrite Eb in H. destruct (md s); lia.
    - unfold mu. destruct (md s'); lia.
  Qed.
End Fuel.

(** ---- appending bytes to the buffer commutes with one handler call ---- *)
Definition ext (s : st) (c : bytes) : st := with_buf s (buf s ++ c).

(* [_start] is sound: searching from it finds what searching from 0 finds, whatever arrives later;
   outside CHUNK_LENGTH it is 0 *)
Definition Inv (s : st) : Prop :=
  (forall c, find_crlf_from (start s) (buf s ++ c) = find_crlf (buf s ++ c)) /\
  (md s <> MLen -> start s = 0).

Lemma Inv_find : forall s, Inv s -> find_crlf_from (start s) (buf s) = find_crlf (buf s).
Proof. intros s [H _]. specialize (H []). rewrite app_nil_r in H. exact H. Qed.

Lemma Inv_ext : forall s c, Inv s -> Inv (ext s c).
Proof.
  intros s c [H1 H2]. split; simpl; [intros c'; rewrite <- app_assoc; apply H1 | exact H2].
Qed.

Lemma Inv_start0 : forall m b rem rc, Inv (mkst m b 0 rem rc).
Proof. split; simpl; [intros; apply find_crlf_from_0 | reflexivity]. Qed.

Lemma Inv_init : Inv init.
Proof. apply Inv_start0. Qed.

Lemma firstn_app_le : forall (b c : bytes) n, n <= length b -> firstn n (b ++ c) = firstn n b.
Proof.
  intros. rewrite firstn_app. replace (n - length b) with 0 by lia. rewrite firstn_O. apply app_nil_r.
Qed.
Lemma skipn_app_le : forall (b c : bytes) n, n <= length b -> skipn n (b ++ c) = skipn n b ++ c.
Proof. intros. rewrite skipn_app. replace (n - length b) with 0 by lia. reflexivity. Qed.

Section Seg.
  Variable maxtr : N.
  Notation step := (Model.step true maxtr).
  Notation D := (Model.D true maxtr).

  Lemma step_go_ext : forall s s' out c, Inv s -> step s = Go s' out ->
    (md s = MBody -> (remaining s <= N.of_nat (length (buf s)))%N) ->
    step (ext s c) = Go (ext s' c) out /\ Inv s'.
  Proof.
    intros [m b st rem rc] s' out c HI H Hbody. pose proof (Inv_find _ HI) as Hf.
    destruct HI as [HI1 HI2]. unfold Model.step, ext, with_buf in *. simpl in *.
    destruct m.
    - rewrite HI1. rewrite Hf in H.
      destruct (find_crlf b) as [eol|] eqn:Ef; [|destruct (Nat.ltb _ _); discriminate].
      rewrite (find_crlf_app_some _ c _ Ef). pose proof (find_crlf_bound _ _ Ef).
      rewrite (firstn_app_le b c eol) by lia.
      destruct (Nat.leb _ _); [discriminate|].
      destruct (hexint _) as [n|]; [|discriminate].
      destruct (forallb _ _); [|discriminate].
      inversion H; subst; clear H. simpl. rewrite skipn_app_le by lia.
      split; [reflexivity|apply Inv_start0].
    - specialize (HI2 ltac:(discriminate)); subst st. specialize (Hbody eq_refl).
      destruct (N.leb rem (N.of_nat (length b))) eqn:E1; [|lia].
      destruct (N.leb rem (N.of_nat (length (b ++ c)))) eqn:E2; [|rewrite app_length in E2; lia].
      inversion H; subst; clear H. simpl.
      rewrite firstn_app_le, skipn_app_le by lia. split; [reflexivity|apply Inv_start0].
    - specialize (HI2 ltac:(discriminate)); subst st.
      destruct b as [|x [|y r]]; simpl in *; try discriminate.
      destruct (N.eqb x CR && N.eqb y LF)%bool; [|discriminate].
      inversion H; subst; clear H. simpl. split; [reflexivity|apply Inv_start0].
    - specialize (HI2 ltac:(discriminate)); subst st. rewrite find_crlf_from_0 in *.
      destruct (find_crlf b) as [eol|] eqn:Ef; [|destruct (N.ltb _ _); discriminate].
      rewrite (find_crlf_app_some _ c _ Ef). pose proof (find_crlf_bound _ _ Ef).
      destruct eol as [|eol]; [destruct (N.ltb maxtr (rc + 2)); discriminate|].
      destruct (N.ltb _ _); [discriminate|].
      inversion H; subst; clear H. simpl. rewrite skipn_app_le by lia.
      split; [reflexivity|apply Inv_start0].
  Qed.

  Lemma step_fin_ext : forall s x c, Inv s -> step s = Fin x -> step (ext s c) = Fin (x ++ c).
  Proof.
    intros [m b st rem rc] x c HI H. destruct HI as [HI1 HI2].
    unfold Model.step, ext, with_buf in *. simpl in *.
    destruct m.
    - destruct (find_crlf_from st b); [|destruct (Nat.ltb _ _); discriminate].
      destruct (Nat.leb _ _); [discriminate|].
      destruct (hexint _); [|discriminate]. destruct (forallb _ _); discriminate.
    - destruct (N.leb _ _); discriminate.
    - destruct (Nat.ltb _ _); [discriminate|]. destruct (starts_with_crlf b); discriminate.
    - specialize (HI2 ltac:(discriminate)); subst st. rewrite find_crlf_from_0 in *.
      destruct (find_crlf b) as [eol|] eqn:Ef; [|destruct (N.ltb _ _); discriminate].
      rewrite (find_crlf_app_some _ c _ Ef). pose proof (find_crlf_bound _ _ Ef).
      destruct eol as [|eol]; [|destruct (N.ltb _ _); discriminate].
      destruct (N.ltb maxtr (rc + 2)); [discriminate|]. simpl in *.
      inversion H; subst; clear H. rewrite skipn_app_le by lia. reflexivity.
  Qed.

  Lemma ends_with_cr_length1 : forall b : bytes, length b = 1 -> ends_with_cr b = true ->
    b = [CR].
  Proof.
    intros [|x [|y r]] H1 H2; simpl in *; try discriminate.
    unfold ends_with_cr in H2. simpl in H2. apply N.eqb_eq in H2. subst. reflexivity.
  Qed.

  (* an exception raised on a prefix of the buffer is raised on every extension of it:
     this is where the repaired trailer accounting is needed *)
  Lemma step_bad_ext : forall s e c, Inv s -> buf s <> [] -> step s = Bad e -> step (ext s c) = Bad e.
  Proof.
    intros [m b st rem rc] e c HI Hne H. pose proof (Inv_find _ HI) as Hf.
    destruct HI as [HI1 HI2]. unfold Model.step, ext, with_buf in *. simpl in *.
    destruct m.
    - rewrite HI1. rewrite Hf in H.
      destruct (find_crlf b) as [eol|] eqn:Ef.
      + rewrite (find_crlf_app_some _ c _ Ef). pose proof (find_crlf_bound _ _ Ef).
        rewrite (firstn_app_le b c eol) by lia.
        destruct (Nat.leb _ _); [exact H|].
        destruct (hexint _) as [n|]; [|exact H].
        destruct (forallb _ _); [discriminate|exact H].
      + destruct (Nat.ltb max_size_line (length b)) eqn:El; [|discriminate].
        destruct (find_crlf (b ++ c)) as [j|] eqn:Ef2.
        * destruct (find_crlf_app_none _ _ _ Ef Ef2) as [Hj|[Hj _]];
            (destruct (Nat.leb max_size_line j) eqn:E3; [exact H|lia]).
        * destruct (Nat.ltb max_size_line (length (b ++ c))) eqn:E3; [exact H|].
          rewrite app_length in E3. lia.
    - destruct (N.leb _ _); discriminate.
    - destruct b as [|x [|y r]]; simpl in *; try discriminate.
      destruct (N.eqb x CR && N.eqb y LF)%bool; [discriminate|exact H].
    - specialize (HI2 ltac:(discriminate)); subst st. rewrite find_crlf_from_0 in *.
      destruct (find_crlf b) as [eol|] eqn:Ef.
      + rewrite (find_crlf_app_some _ c _ Ef). pose proof (find_crlf_bound _ _ Ef).
        destruct eol as [|eol].
        * destruct (N.ltb maxtr (rc + 2)); [exact H|discriminate].
        * destruct (N.ltb _ _); [exact H|discriminate].
      + destruct (N.ltb maxtr (rc + N.of_nat (length b) + (if ends_with_cr b then 1 else 2))) eqn:El;
          [|discriminate].
        destruct (find_crlf (b ++ c)) as [j|] eqn:Ef2.
        * destruct (find_crlf_app_none _ _ _ Ef Ef2) as [Hj|[Hj He]].
          -- destruct j as [|j]; [destruct b; [congruence|simpl in Hj; lia]|].
             destruct (ends_with_cr b);
               (destruct (N.ltb maxtr (rc + N.of_nat (S j) + 2)) eqn:E3; [exact H|lia]).
          -- rewrite He in El. destruct j as [|j].
             ++ simpl. destruct (N.ltb maxtr (rc + 2)) eqn:E3; [exact H|lia].
             ++ destruct (N.ltb maxtr (rc + N.of_nat (S j) + 2)) eqn:E3; [exact H|lia].
        * destruct (N.ltb maxtr (rc + N.of_nat (length (b ++ c)) +
                                 (if ends_with_cr (b ++ c) then 1 else 2))) eqn:E3; [exact H|].
          rewrite app_length in E3.
          destruct c as [|z c'].
          -- rewrite app_nil_r in E3. simpl in E3. rewrite Nat.add_0_r in E3. congruence.
          -- simpl length in E3. destruct (ends_with_cr b); destruct (ends_with_cr (b ++ z :: c')); lia.
  Qed.

  Lemma step_more_ext : forall s s', Inv s -> step s = More s' ->
    Inv s' /\ buf s' = buf s /\ forall c, step (ext s' c) = step (ext s c).
  Proof.
    intros [m b st rem rc] s' HI H. pose proof (Inv_find _ HI) as Hf.
    destruct HI as [HI1 HI2]. unfold Model.step, ext, with_buf in *. simpl in *.
    destruct m.
    - rewrite Hf in H.
      destruct (find_crlf b) as [eol|] eqn:Ef.
      + destruct (Nat.leb _ _); [discriminate|].
        destruct (hexint _); [|discriminate]. destruct (forallb _ _); discriminate.
      + destruct (Nat.ltb _ _); [discriminate|]. inversion H; subst; clear H. simpl.
        split; [|split; [reflexivity|]].
        * split; simpl; [|congruence]. intros c. apply find_crlf_resume. exact Ef.
        * intros c. rewrite HI1. rewrite (find_crlf_resume _ c Ef). reflexivity.
    - destruct (N.leb _ _); discriminate.
    - destruct (Nat.ltb _ _); [|destruct (starts_with_crlf b); discriminate].
      inversion H; subst; clear H. simpl. split; [split; assumption|]. split; reflexivity.
    - destruct (find_crlf_from st b) as [[|eol]|].
      + destruct (N.ltb maxtr (rc + 2)); discriminate.
      + destruct (N.ltb _ _); discriminate.
      + destruct (N.ltb _ _); [discriminate|]. inversion H; subst; clear H. simpl.
        split; [split; assumption|]. split; reflexivity.
  Qed.
End Seg.

(** ---- two deliveries = one delivery of the concatenation ---- *)
Definition pre (out : list bytes) (r : list bytes * dres) : list bytes * dres := (out ++ fst r, snd r).
Definition sim (a b : list bytes * dres) : Prop := concat (fst a) = concat (fst b) /\ snd a = snd b.

Lemma let_pre : forall out (X : list bytes * dres),
  (let '(o, r) := X in (out ++ o, r)) = pre out X.
Proof. intros out [o r]. reflexivity. Qed.

Lemma sim_refl : forall a, sim a a.
Proof. split; reflexivity. Qed.
Lemma sim_pre : forall out a b, sim a b -> sim (pre out a) (pre out b).
Proof. intros out a b [H1 H2]. split; simpl; [rewrite !concat_app, H1; reflexivity|exact H2]. Qed.
Lemma sim_trans : forall a b c, sim a b -> sim b c -> sim a c.
Proof. intros a b c [H1 H2] [H3 H4]. split; congruence. Qed.

Section Seg2.
  Variable maxtr : N.
  Notation step := (Model.step true maxtr).
  Notation D := (Model.D true maxtr).
  Notation feed := (Model.feed true maxtr).
  Notation run := (Model.run true maxtr).

  (* what a second delivery [c] does after the outcome [r] of the first *)
  Definition bind (r : list bytes * dres) (c : bytes) : list bytes * dres :=
    match r with
    | (o, DMore s1) => pre o (D (ext s1 c))
    | (o, DFin x) => (o, DFin (x ++ c))
    | (o, DBad e) => (o, DBad e)
    end.

  Lemma bind_pre : forall out r c, bind (pre out r) c = pre out (bind r c).
  Proof.
    intros out [o [s1|x|e]] c; unfold pre, bind; simpl; try rewrite app_assoc; reflexivity.
  Qed.

  Lemma D_nil : forall s, buf s = [] -> D s = ([], DMore s).
  Proof. intros s H. rewrite D_unfold, H. reflexivity. Qed.

  Lemma D_congr : forall s1 s2, buf s1 <> [] -> buf s1 = buf s2 -> step s1 = step s2 -> D s1 = D s2.
  Proof.
    intros s1 s2 H0 H1 H2. rewrite (D_unfold _ _ s1), (D_unfold _ _ s2), <- H1, H2.
    destruct (buf s1); [congruence|reflexivity].
  Qed.

  Lemma D_app : forall n s c, mu s < n -> Inv s -> sim (D (ext s c)) (bind (D s) c).
  Proof.
    induction n as [|n IH]; intros s c Hn HI; [lia|].
    rewrite (D_unfold _ _ s).
    destruct (buf s) as [|b0 l0] eqn:Eb.
    { unfold bind, pre. simpl. destruct (D (ext s c)); apply sim_refl. }
    destruct (step s) as [s'|s' out|x|e] eqn:Es.
    - (* waits for more data *)
      destruct (step_more_ext maxtr s s' HI Es) as (HI' & Hb' & Hstep).
      assert (HD : D (ext s' c) = D (ext s c)).
      { apply D_congr; [simpl; rewrite Hb', Eb; discriminate|simpl; rewrite Hb'; reflexivity|apply Hstep]. }
      unfold bind, pre. rewrite HD. simpl. destruct (D (ext s c)); apply sim_refl.
    - rewrite let_pre, bind_pre.
      assert (Hmu : mu s' < mu s) by (eapply step_go_mu; eauto; congruence).
      destruct (md s) eqn:Em;
        try (destruct (step_go_ext maxtr s s' out c HI Es) as [Hs HI']; [congruence|];
             rewrite (D_unfold _ _ (ext s c)); unfold ext at 1; simpl buf; rewrite Eb;
             simpl app; rewrite Hs, let_pre; apply sim_pre; apply IH; [lia|exact HI']).
      (* BODY *)
      destruct (N.leb (remaining s) (N.of_nat (length (buf s)))) eqn:Ele.
      + destruct (step_go_ext maxtr s s' out c HI Es) as [Hs HI']; [intros _; lia|].
        rewrite (D_unfold _ _ (ext s c)); unfold ext at 1; simpl buf; rewrite Eb.
        simpl app. rewrite Hs, let_pre. apply sim_pre. apply IH; [lia|exact HI'].
      + (* the chunk continues beyond the buffer *)
        destruct s as [m b st rem rc]. cbn [md buf remaining start rcvd] in *. subst m. subst b.
        destruct HI as [_ HI2]. specialize (HI2 ltac:(discriminate)). cbn [start] in HI2. subst st.
        unfold Model.step in Es. cbn [md buf remaining start rcvd] in Es. rewrite Ele in Es.
        injection Es as Es1 Es2. subst s' out.
        change (N.pos (Pos.of_succ_nat (length l0))) with (N.of_nat (length (b0 :: l0))) in *.
        rewrite (D_nil (mkst MBody [] 0 _ rc)) by reflexivity.
        unfold bind, pre, ext, with_buf. cbn [md buf remaining start rcvd fst snd app].
        destruct c as [|z c'].
        * rewrite app_nil_r. rewrite (D_unfold _ _ (mkst MBody (b0 :: l0) 0 rem rc)).
          cbn [buf]. unfold Model.step. cbn [md buf remaining start rcvd]. rewrite Ele.
          rewrite !(D_nil (mkst MBody [] 0 _ rc)) by reflexivity. apply sim_refl.
        * rewrite (D_unfold _ _ (mkst MBody (b0 :: l0 ++ z :: c') 0 rem rc)).
          rewrite (D_unfold _ _ (mkst MBody (z :: c') 0 _ rc)).
          cbn [buf]. unfold Model.step. cbn [md buf remaining start rcvd].
          change (b0 :: l0 ++ z :: c') with ((b0 :: l0) ++ z :: c').
          set (b := b0 :: l0) in *. set (c := z :: c') in *. clearbody b c.
          assert (Hlen : length (b ++ c) = length b + length c) by apply app_length.
          destruct (N.leb (rem - N.of_nat (length b)) (N.of_nat (length c))) eqn:E2.
          -- destruct (N.leb rem (N.of_nat (length (b ++ c)))) eqn:E3; [|lia].
             rewrite !let_pre.
             replace (skipn (N.to_nat rem) (b ++ c))
               with (skipn (N.to_nat (rem - N.of_nat (length b))) c).
             2:{ rewrite skipn_app. rewrite (@skipn_all2 _ (N.to_nat rem) b) by lia. simpl. f_equal. lia. }
             split; [|reflexivity]. unfold pre; cbn [fst snd]. rewrite !concat_app. cbn [concat].
             rewrite ?app_nil_r. rewrite firstn_app, (@firstn_all2 _ (N.to_nat rem) b) by lia.
             rewrite <- app_assoc.
             replace (N.to_nat rem - length b) with (N.to_nat (rem - N.of_nat (length b))) by lia.
             reflexivity.
          -- destruct (N.leb rem (N.of_nat (length (b ++ c)))) eqn:E3; [lia|].
             rewrite !let_pre.
             replace (rem - N.of_nat (length (b ++ c)))%N
               with (rem - N.of_nat (length b) - N.of_nat (length c))%N by lia.
             split; [|reflexivity]. unfold pre; cbn [fst snd]. rewrite !concat_app. cbn [concat].
             rewrite ?app_nil_r. rewrite <- ?app_assoc. cbn [concat app]. rewrite ?app_nil_r.
             reflexivity.
    - rewrite (D_unfold _ _ (ext s c)). unfold ext at 1. simpl buf. rewrite Eb. simpl app.
      rewrite (step_fin_ext maxtr s x c HI Es). apply sim_refl.
    - rewrite (D_unfold _ _ (ext s c)). unfold ext at 1. simpl buf. rewrite Eb. simpl app.
      rewrite (step_bad_ext maxtr s e c HI) by (congruence || exact Es). apply sim_refl.
  Qed.
End Seg2.

(** ---- any number of deliveries ---- *)
Section Seg3.
  Variable maxtr : N.
  Notation step := (Model.step true maxtr).
  Notation D := (Model.D true maxtr).
  Notation feed := (Model.feed true maxtr).
  Notation run := (Model.run true maxtr).

  Lemma step_go_inv : forall s s' out, Inv s -> step s = Go s' out -> Inv s'.
  Proof.
    intros [m b st rem rc] s' out [HI1 HI2] H. unfold Model.step in H. simpl in *.
    destruct m.
    - destruct (find_crlf_from st b); [|destruct (Nat.ltb _ _); discriminate].
      destruct (Nat.leb _ _); [discriminate|].
      destruct (hexint _); [|discriminate]. destruct (forallb _ _); [|discriminate].
      inversion H; subst. apply Inv_start0.
    - specialize (HI2 ltac:(discriminate)); subst st.
      destruct (N.leb _ _); inversion H; subst; apply Inv_start0.
    - specialize (HI2 ltac:(discriminate)); subst st.
      destruct (Nat.ltb _ _); [discriminate|]. destruct (starts_with_crlf b); [|discriminate].
      inversion H; subst. apply Inv_start0.
    - destruct (find_crlf_from st b) as [[|eol]|].
      + destruct (N.ltb maxtr (rc + 2)); discriminate.
      + destruct (N.ltb _ _); [discriminate|]. inversion H; subst. apply Inv_start0.
      + destruct (N.ltb _ _); discriminate.
  Qed.

  Lemma D_inv : forall n s o s1, mu s < n -> Inv s -> D s = (o, DMore s1) -> Inv s1.
  Proof.
    induction n as [|n IH]; intros s o s1 Hn HI H; [lia|].
    rewrite D_unfold in H. destruct (buf s) as [|b0 l0] eqn:Eb.
    - inversion H; subst. exact HI.
    - destruct (step s) as [s'|s' out|x|e] eqn:Es; try discriminate.
      + inversion H; subst. apply (step_more_ext maxtr s s1 HI Es).
      + rewrite let_pre in H. unfold pre in H. inversion H; subst; clear H.
        assert (mu s' < mu s) by (eapply step_go_mu; eauto; congruence).
        apply (IH s' (fst (D s')) s1); [lia|eapply step_go_inv; eauto|].
        destruct (D s'); simpl in *; congruence.
  Qed.

  Lemma ext_ext : forall s c1 c2, ext (ext s c1) c2 = ext s (c1 ++ c2).
  Proof. intros. unfold ext, with_buf. simpl. rewrite app_assoc. reflexivity. Qed.

  (* how a connection that ends after this delivery is reported *)
  Definition fin (r : list bytes * dres) : list bytes * ending :=
    match r with
    | (o, DMore _) => (o, Need)
    | (o, DFin x) => (o, Finished x)
    | (o, DBad e) => (o, Failed e)
    end.

  Lemma run_single : forall s c, summary (run s [c]) = summary (fin (feed s c)).
  Proof.
    intros. simpl. destruct (feed s c) as [o [s1|x|e]]; unfold summary; simpl;
      rewrite ?app_nil_r; reflexivity.
  Qed.

  Lemma sim_fin : forall a b, sim a b -> summary (fin a) = summary (fin b).
  Proof.
    intros [o1 r1] [o2 r2] [H1 H2]. simpl in *. subst r2.
    destruct r1; unfold summary; simpl; rewrite H1; reflexivity.
  Qed.

  Lemma run_cons_app : forall cs s c, Inv s ->
    summary (run s (c :: cs)) = summary (run s [c ++ concat cs]).
  Proof.
    induction cs as [|c' r IH]; intros s c HI.
    - simpl concat. rewrite app_nil_r. reflexivity.
    - etransitivity; [|symmetry; apply run_single].
      unfold Model.feed at 1. fold (ext s (c ++ concat (c' :: r))). rewrite <- ext_ext.
      assert (HI' : Inv (ext s c)) by (apply Inv_ext; exact HI).
      rewrite (sim_fin _ _ (D_app maxtr (S (mu (ext s c))) (ext s c) (concat (c' :: r))
                              (Nat.lt_succ_diag_r _) HI')).
      change (run s (c :: c' :: r)) with
        (match feed s c with
         | (o, DMore s') => let '(o2, e) := run s' (c' :: r) in (o ++ o2, e)
         | (o, DFin x) => (o, Finished (x ++ concat (c' :: r)))
         | (o, DBad e) => (o, Failed e)
         end).
      change (D (ext s c)) with (feed s c).
      destruct (feed s c) as [o [s1|x|e]] eqn:Ef; try reflexivity.
      assert (HI1 : Inv s1).
      { eapply (D_inv (S (mu (ext s c)))); [apply Nat.lt_succ_diag_r|exact HI'|exact Ef]. }
      specialize (IH s1 c' HI1). rewrite run_single in IH.
      unfold bind. change (D (ext s1 (concat (c' :: r)))) with (feed s1 (c' ++ concat r)).
      destruct (run s1 (c' :: r)) as [o2 e2].
      destruct (feed s1 (c' ++ concat r)) as [o3 r3].
      unfold summary in *. simpl in *.
      destruct r3; simpl in *; inversion IH; subst; rewrite !concat_app; congruence.
  Qed.

  Theorem decode_split : forall cs, decode true maxtr cs = decode true maxtr [concat cs].
  Proof.
    intros [|c cs].
    - reflexivity.
    - apply run_cons_app. apply Inv_init.
  Qed.
End Seg3.
